/-
  Csvq.Model.Group — bucketing rows by key, in the shape of View.group (lib/query/view.go):
  the row range is cut into contiguous chunks (one per worker goroutine), every worker builds
  `key → row indices` for its chunk, the key order is the order of first occurrence (workers in
  order, keys in each worker's discovery order), a bucket's members are the concatenation of the
  workers' index lists.  Also DISTINCT and the set operators of view.go.
-/
import Csvq.Model.Keys
namespace Csvq
universe u
variable {κ : Type u} [DecidableEq κ]

/-- add row `i` to the bucket of `k` (append a new bucket if `k` is new) -/
def addToGroups (k : κ) (i : Nat) : List (κ × List Nat) → List (κ × List Nat)
  | [] => [(k, [i])]
  | (k', is) :: rest => if k' = k then (k', is ++ [i]) :: rest else (k', is) :: addToGroups k i rest

/-- one worker: scan its rows in order -/
def localGroups (rows : List (κ × Nat)) : List (κ × List Nat) :=
  rows.foldl (fun g r => addToGroups r.1 r.2 g) []

def lookupGroup (k : κ) : List (κ × List Nat) → List Nat
  | [] => []
  | (k', is) :: rest => if k' = k then is else lookupGroup k rest

/-- append the keys of `ks` that are not yet present, in order -/
def addKeys : List κ → List κ → List κ
  | acc, [] => acc
  | acc, k :: ks => if k ∈ acc then addKeys acc ks else addKeys (acc ++ [k]) ks

/-- View.group over worker chunks -/
def groupImpl (chunks : List (List (κ × Nat))) : List (κ × List Nat) :=
  let locals := chunks.map localGroups
  let keys := locals.foldl (fun acc l => addKeys acc (l.map Prod.fst)) []
  keys.map fun k => (k, locals.flatMap (lookupGroup k))

/-! specification, in the shape of the property -/

/-- distinct keys in order of first occurrence -/
def firstOcc (ks : List κ) : List κ := addKeys [] ks

/-- the rows whose key is `k`, in row order -/
def members (k : κ) (rows : List (κ × Nat)) : List Nat :=
  (rows.filter fun r => r.1 = k).map Prod.snd

def groupSpec (rows : List (κ × Nat)) : List (κ × List Nat) :=
  (firstOcc (rows.map Prod.fst)).map fun k => (k, members k rows)

/-- DISTINCT (view.go: first record of every key, in order) -/
def distinctImpl (rows : List (κ × Nat)) : List Nat :=
  (rows.foldl (fun (acc : List κ × List Nat) r => if r.1 ∈ acc.1 then acc else (acc.1 ++ [r.1], acc.2 ++ [r.2])) ([], [])).2


/-! ### DISTINCT rows and the set operators (view.go: Select with DISTINCT, Union, Except, Intersect) -/

/-- keep the first row of every key, in order (the `values[key]` loop of DISTINCT / UNION / … ) -/
def keepFirstAux {ρ : Type} (acc : List κ × List (κ × ρ)) : List (κ × ρ) → List κ × List (κ × ρ)
  | [] => acc
  | r :: rs => if r.1 ∈ acc.1 then keepFirstAux acc rs else keepFirstAux (acc.1 ++ [r.1], acc.2 ++ [r]) rs

def keepFirst {ρ : Type} (rows : List (κ × ρ)) : List (κ × ρ) := (keepFirstAux ([], []) rows).2

/-- View.Union -/
def unionImpl {ρ : Type} (all : Bool) (a b : List (κ × ρ)) : List (κ × ρ) :=
  if all then a ++ b else keepFirst (a ++ b)

/-- View.Except: rows of `a` whose key does not occur in `b`; without ALL only the first of each key -/
def exceptImpl {ρ : Type} (all : Bool) (a b : List (κ × ρ)) : List (κ × ρ) :=
  let r := a.filter fun x => !(b.map Prod.fst).contains x.1
  if all then r else keepFirst r

/-- View.Intersect -/
def intersectImpl {ρ : Type} (all : Bool) (a b : List (κ × ρ)) : List (κ × ρ) :=
  let r := a.filter fun x => (b.map Prod.fst).contains x.1
  if all then r else keepFirst r

end Csvq
