/-
  Csvq.Model.AggEval — the glue between a grouped view and the aggregate functions, and SELECT DISTINCT's row key,
  in the shape of
    lib/query/view.go   Select (the DISTINCT loop, the placeholder record for "aggregates over no record"),
                        GenerateComparisonKeys, group (a grouped record = per field the cell of the members' values),
                        groupAll, NewViewFromGroupedRecord, ListValuesForAggregateFunctions,
    lib/query/eval.go   evalAggregateFunction, evalListFunction (LISTAGG / JSON_AGG),
    lib/query/aggregate_function.go JsonAgg, lib/json/conversion.go ParseValueToStructure.
  The argument expression of an aggregate enters as a function of the record (expression evaluation is not C04's
  subject), a user-defined aggregate as a function of (value list, further arguments), the ORDER BY inside a list
  function as a comparison of records.  Core Lean only.
-/
import Csvq.Model.Aggregate
import Csvq.Model.Json
namespace Csvq
namespace Agg

abbrev Row := List Profile

/-! ### SELECT DISTINCT: the key of a record is made of the SELECTED fields -/

/-- the values `view.selectFields` picks from a record (`record[idx]` for every selected index, repetitions and
    any order allowed; an index outside the record does not occur — `evalColumn` returns positions of the header) -/
def project (selectFields : List Nat) (record : Row) : List (Option Profile) :=
  selectFields.map fun idx => record[idx]?

/-- View.GenerateComparisonKeys: the cells the comparison key of one record is serialised from —
    the selected ones when a select list has been evaluated, else (set operators, after Fix) the whole record -/
def keyCells (selectFields : Option (List Nat)) (record : Row) : List (Option Profile) :=
  match selectFields with
  | some sf => sf.map fun idx => record[idx]?
  | none => record.map some

/-- the loop of `Select` under DISTINCT: records in order, a record is kept when its key is new, and what is kept is
    the record cut down to the selected fields -/
def selectDistinct {κ : Type} [DecidableEq κ] (key : Profile → κ) (selectFields : List Nat) (records : List Row) :
    List (List (Option Profile)) :=
  (keepFirst (records.map fun r => ((keyCells (some selectFields) r).map (Option.map key), project selectFields r))).map Prod.snd

/-! ### grouped records -/

/-- View.group / groupAll: the grouped record of the member rows `M` over `F` fields — per field the cell holding
    that field's value of every member, in member order -/
def cellsOf (F : Nat) (M : List Row) : List (List Profile) :=
  (List.range F).map fun i => M.filterMap fun r => r[i]?

/-- Record.GroupLen: `len(r[0])` (a record without fields: the code panics — finding F49; 0 here) -/
def groupLen : List (List Profile) → Nat
  | [] => 0
  | c :: _ => c.length

/-- the index NewViewFromGroupedRecord reads a cell at for member `m`: `if len(record[j]) < 2 { grpIdx = 0 }` -/
def pickIdx (cell : List Profile) (m : Nat) : Nat := if cell.length < 2 then 0 else m

/-- NewViewFromGroupedRecord: one record per member of the group -/
def viewFromGrouped (record : List (List Profile)) : List Row :=
  (List.range (groupLen record)).map fun m => record.filterMap fun cell => cell[pickIdx cell m]?

/-- the record `Select` appends when an aggregate is selected from a view without records and without GROUP BY:
    every cell empty -/
def placeholderRecord (F : Nat) : List (List Profile) := List.replicate F []

/-- groupAll (+ the placeholder): the one grouped record of a view that has no GROUP BY clause -/
def groupAllRecord (F : Nat) (rows : List Row) : List (List Profile) :=
  if 0 < rows.length then cellsOf F rows else placeholderRecord F

/-- the records View.group scans: every row with its grouping key and its index -/
def keyedIdx {κ : Type} (key : Row → κ) (rows : List Row) : List (κ × Nat) :=
  rows.zipIdx.map fun ri => (key ri.1, ri.2)

/-- View.group over worker chunks `cs` of the keyed rows: per bucket (Model/Group.lean `groupImpl`: key order =
    first occurrence, members = row indices in order) the grouped record built from the member rows -/
def groupedView {κ : Type} [DecidableEq κ] (F : Nat) (rows : List Row) (cs : List (List (κ × Nat))) :
    List (κ × List (List Profile)) :=
  (groupImpl cs).map fun b => (b.1, cellsOf F (b.2.filterMap fun i => rows[i]?))

/-! ### evalAggregateFunction -/

inductive BuiltinAgg | count | max | min | sum | avg | stdev | stdevp | var | varp | median
  deriving DecidableEq, Repr, Inhabited

/-- the first argument: `*`, a literal (parser.PrimitiveType), or any other expression -/
inductive ArgExpr
  | star
  | const (v : Profile)
  | expr (f : Row → Profile)

inductive AggErr | notGrouping
  deriving DecidableEq, Repr, Inhabited

/-- `scope.Records[0]` as far as the aggregate evaluation reads it -/
structure RecCtx where
  isGrouped : Bool
  inRange : Bool
  record : List (List Profile)     -- view.RecordSet[recordIndex] (meaningful when inRange)

/-- AggregateFunctions[uname] -/
def applyBuiltin (fn : BuiltinAgg) (l : List Profile) : Res :=
  match fn with
  | .count => .int (count l)
  | .max => (match maxAgg l with | some p => .cell p | none => .null)
  | .min => (match minAgg l with | some p => .cell p | none => .null)
  | .sum => sum l
  | .avg => avg l
  | .stdev => stdev l
  | .stdevp => stdevp l
  | .var => var l
  | .varp => varp l
  | .median => median l

/-- Distinguish over an arbitrary key (the comparison key of the session: `norm`, or `normStrict` with the text's trim) -/
def distinguishBy {κ : Type} [DecidableEq κ] (key : Profile → κ) (l : List Profile) : List Profile :=
  (keepFirst (l.map fun p => (key p, p))).map Prod.snd

/-- evaluating the argument for one record of the group's view -/
def evalArg (arg : ArgExpr) (r : Row) : Profile :=
  match arg with
  | .star => profileOf (.int 1)
  | .const v => v
  | .expr f => f r

/-- View.ListValuesForAggregateFunctions: the argument for every record in order, then the DISTINCT option -/
def listValues {κ : Type} [DecidableEq κ] (key : Profile → κ) (arg : ArgExpr) (distinct : Bool) (view : List Row) : List Profile :=
  let list := view.map (evalArg arg)
  if distinct then distinguishBy key list else list

/-- value.IsUnknown -/
def isUnknown (p : Profile) : Bool := match p.raw with | .tern .U => true | _ => false

/-- evalAggregateFunction for a built-in (`fn = some _`) or a user-defined aggregate (`udf`, with its further argument
    values `udfArgs`); `ctx = none`: no record in scope -/
def evalAggregate {κ : Type} [DecidableEq κ] (key : Profile → κ) (fn : Option BuiltinAgg)
    (udf : List Profile → List Profile → Res) (udfArgs : List Profile)
    (distinct : Bool) (arg : ArgExpr) (ctx : Option RecCtx) : Except AggErr Res :=
  match ctx with
  | none =>
    (match fn with
     | some f => .ok (applyBuiltin f [])
     | none => .ok (udf [] udfArgs))
  | some c =>
    if !c.isGrouped then .error .notGrouping
    else
      -- `*` is replaced by the integer 1
      let listExpr : ArgExpr := match arg with | .star => .const (profileOf (.int 1)) | a => a
      let allColumns : Bool := match arg with | .star => true | _ => false
      -- COUNT of a literal does not look at the records: the number of records is the count of a literal —
      -- only when duplicates are not removed (`allColumns || !expr.IsDistinct()`, the repair of finding F109)
      let shortcut : Option Res :=
        match fn, listExpr with
        | some .count, .const v =>
          if allColumns || !distinct then
            (if !v.isNull && !isUnknown v && c.inRange then some (.int (groupLen c.record)) else some (.int 0))
          else none
        | _, _ => none
      match shortcut with
      | some r => .ok r
      | none =>
        let list := if c.inRange then listValues key listExpr distinct (viewFromGrouped c.record) else []
        match fn with
        | some f => .ok (applyBuiltin f list)
        | none => .ok (udf list udfArgs)

/-! ### evalListFunction: LISTAGG / JSON_AGG -/

/-- what ParseValueToStructure and `Array.Encode` make of one cell: integers pass through float64 (finding F27),
    a non-finite float is written `null`, UNKNOWN is `null`, a datetime is its RFC 3339 text -/
inductive JCell
  | null
  | bool (b : Bool)
  | str (s : Bytes)
  | num (f : FVal)
  deriving DecidableEq, Repr, Inhabited

def cellJson (dtext : Int → Bytes) (p : Profile) : JCell :=
  match p.raw with
  | .null => .null
  | .str s => .str s
  | .int i => .num (FVal.ofInt i)
  | .flt f => if f.isNaN || f.isInf then .null else .num f
  | .bool b => .bool b
  | .tern .U => .null
  | .tern .T => .bool true
  | .tern .F => .bool false
  | .dt ns => .str (dtext ns)

/-- JsonAgg: NULL for an empty list, else the array of the cells' JSON values in list order -/
def jsonAgg (dtext : Int → Bytes) (l : List Profile) : Option (List JCell) :=
  if l.length < 1 then none else some (l.map (cellJson dtext))

/-- result of a list function -/
inductive ListRes
  | res (r : Res)
  | json (a : Option (List JCell))
  deriving DecidableEq, Repr, Inhabited

/-- evalListFunction: `view.OrderBy` (WITHIN GROUP) sorts the group's records — `less = none`: no clause —, then the
    values are listed as for every aggregate; `sep = none` selects JSON_AGG -/
def evalListFunction {κ : Type} [DecidableEq κ] (key : Profile → κ) (kt : KeyText) (dtext : Int → Bytes)
    (sep : Option Bytes) (less : Option (Row → Row → Bool)) (distinct : Bool) (arg : ArgExpr)
    (ctx : Option RecCtx) : Except AggErr ListRes :=
  let finish (list : List Profile) : ListRes :=
    match sep with
    | none => .json (jsonAgg dtext list)
    | some s => .res (listAgg kt s list)
  match ctx with
  | none => .ok (finish [])
  | some c =>
    if !c.isGrouped then .error .notGrouping
    else
      let view := viewFromGrouped c.record
      let view := match less with | some lt => sortBy lt view | none => view
      .ok (finish (listValues key arg distinct view))

/-! ### bridge to Model/Json.lean: the JSON value of a cell is `toStructure` of the cell's JVal -/

structure JTexts where
  str : Bytes → List Char
  num : FVal → List Char       -- strconv.FormatFloat(f, 'f', -1, 64)
  dt  : Int → Bytes

def cellJVal (t : JTexts) (p : Profile) : Json.JVal :=
  match p.raw with
  | .null => .null
  | .str s => .str (t.str s)
  | .int i => .flt (t.num (FVal.ofInt i))
  | .flt f => if f.isNaN || f.isInf then .nonfinite else .flt (t.num f)
  | .bool b => .bool b
  | .tern .U => .tern none
  | .tern .T => .tern (some true)
  | .tern .F => .tern (some false)
  | .dt ns => .dt (t.str (t.dt ns))

def jcellJS (t : JTexts) : JCell → Json.JS
  | .null => .null
  | .bool b => .bool b
  | .str s => .str (t.str s)
  | .num f => .num (t.num f)

end Agg
end Csvq
