/-
  Csvq.Model.ParLoad — the CONCURRENT loaders of one transaction (property C20).

  Model/Session.lean treats `load` as one atomic step of one sequential transaction.  In the code the records of
  ONE statement are evaluated by several worker goroutines; each of them calls `loadObjectFromFile` →
  `cacheViewFromFile` (lib/query/load_view.go) for the tables of its sub-queries, so the same table can be asked
  for by k goroutines at the same moment, while other processes commit to its file.

  The machine here runs, for any number of workers, the step list of ONE call as extract/cachefacts regenerates it
  from the source (`Gen.loaderSteps`, `Gen.loaderCaller`: where `viewLoadingMutex.Lock()` stands relative to the
  cache lookup, the load and the store), one step of one worker at a time, interleaved arbitrarily with each other
  and with commits of other processes.  One table (one cache key); table contents are an arbitrary type `C`.

  The step that reads the file is atomic with respect to other processes: the read handler holds the read lock
  from before the open until the view is built (Props/C20 `gen_plain_load_opens_after_rlock`, C09).
-/
import Csvq.Model.Session
import Csvq.Gen.CacheFacts
namespace Csvq.ParLoad
open Csvq.Session (Cached setFn)

inductive Instr
  | lock      -- scope.Tx.viewLoadingMutex.Lock()
  | lookup    -- view, isCached := CachedViews.Load(path)
  | load      -- if reloadCond … { view = loadViewFromFile(…) }
  | store     -- if reloadCond … { CachedViews.Set(view) }
  | unlock    -- viewLoadingMutex.Unlock()
  | get       -- the caller: CachedViews.Get(path) — what the statement works on
  deriving DecidableEq, Repr

def instrOf : String → Option Instr
  | "mutex_lock" => some .lock
  | "mutex_unlock" => some .unlock
  | "lookup" => some .lookup
  | "load" => some .load
  | "store" => some .store
  | "cache_get" => some .get
  | _ => none

/-- the body of one function: `defer:mutex_unlock` is registered where it stands and runs at `return` (deferred calls
    in reverse order); anything not recognised, or a list that does not end in `return`: `none` -/
def compileFn : List String → List Instr → Option (List Instr)
  | [], _ => none
  | t :: rest, deferred =>
    if t = "return" then (if rest.isEmpty then some deferred else none)
    else if t = "defer:mutex_unlock" then compileFn rest (Instr.unlock :: deferred)
    else match instrOf t with
      | some i => (compileFn rest deferred).map (i :: ·)
      | none => none

/-- the caller's list with the call replaced by the callee's steps -/
def compile (callee caller : List String) : Option (List Instr) :=
  match compileFn callee [] with
  | none => none
  | some body =>
    caller.foldr (fun t acc =>
      match acc with
      | none => none
      | some l => if t = "call(cacheViewFromFile)" then some (body ++ l) else (instrOf t).map (· :: l)) (some [])

/-- the program the REGENERATED lists denote ([] when they are not understood: then nothing can be proved of it) -/
def genProg : List Instr := (compile Csvq.Gen.loaderSteps Csvq.Gen.loaderCaller).getD []

/-- the reviewed order: everything between the lookup and the store is inside ONE critical section -/
def refProg : List Instr := [.lock, .lookup, .load, .store, .unlock, .get]

/-- one goroutine inside loadObjectFromFile -/
structure Worker (C : Type) where
  pc : Nat
  seen : Option (Cached C)     -- the local `view, isCached` of the lookup (Go zero value: not cached)
  view : Option (Cached C)     -- the local `view` after the load branch
  result : Option C            -- what CachedViews.Get handed to the statement

structure PState (C : Type) where
  disk : C                     -- the table file as any process sees it
  cache : Option (Cached C)    -- Transaction.CachedViews at the table's key
  mutex : Option Nat           -- holder of Transaction.viewLoadingMutex
  readLog : List C             -- ghost: what this transaction read from the file, newest first
  w : Nat → Worker C

inductive Ev (C : Type)
  | work (i : Nat)             -- worker i executes its next step
  | other (c : C)              -- another process commits `c` to the file

/-- the condition of the load branch, REGENERATED (`Gen.reloadCond`), for a plain (not FOR UPDATE) access -/
def needLoad {C} (wk : Worker C) : Bool :=
  Csvq.Gen.reloadCond wk.seen.isSome false (match wk.seen with | some c => c.forUpdate | none => false)

def fileLocked {C} (s : PState C) : Bool :=
  match s.cache with | some c => c.forUpdate | none => false

/-- one event; `none` = not enabled (a worker waiting for the mutex, a finished worker, a commit to a locked file) -/
def exec {C} (prog : List Instr) (s : PState C) : Ev C → Option (PState C)
  | .other c => if fileLocked s then none else some { s with disk := c }
  | .work i =>
    let wk := s.w i
    let adv (wk' : Worker C) : Worker C := { wk' with pc := wk.pc + 1 }
    match prog[wk.pc]? with
    | none => none
    | some .lock =>
      match s.mutex with
      | none => some { s with mutex := some i, w := setFn s.w i (adv wk) }
      | some _ => none
    | some .unlock => some { s with mutex := none, w := setFn s.w i (adv wk) }
    | some .lookup => some { s with w := setFn s.w i (adv { wk with seen := s.cache, view := s.cache }) }
    | some .load =>
      if needLoad wk then
        some { s with readLog := s.disk :: s.readLog, w := setFn s.w i (adv { wk with view := some ⟨s.disk, false⟩ }) }
      else some { s with w := setFn s.w i (adv wk) }
    | some .store =>
      if needLoad wk then some { s with cache := wk.view, w := setFn s.w i (adv wk) }
      else some { s with w := setFn s.w i (adv wk) }
    | some .get => some { s with w := setFn s.w i (adv { wk with result := s.cache.map (·.content) }) }

/-- an event that is not enabled leaves the state alone: every list of events is a schedule -/
def stepEv {C} (prog : List Instr) (s : PState C) (e : Ev C) : PState C := (exec prog s e).getD s

def runEvs {C} (prog : List Instr) (s : PState C) (evs : List (Ev C)) : PState C := evs.foldl (stepEv prog) s

/-- the transaction has not touched the table yet; every worker stands before its first step -/
def init {C} (disk : C) : PState C :=
  { disk := disk, cache := none, mutex := none, readLog := [],
    w := fun _ => { pc := 0, seen := none, view := none, result := none } }

/-! ## executable search (tables are numbers: the file holds the number of commits by others so far) -/

abbrev Key := Nat × Option (Nat × Bool) × Option Nat × List Nat ×
  List (Nat × Option (Nat × Bool) × Option (Nat × Bool) × Option Nat)

def ck (c : Option (Cached Nat)) : Option (Nat × Bool) := c.map fun x => (x.content, x.forUpdate)

def key (n : Nat) (s : PState Nat) : Key :=
  (s.disk, ck s.cache, s.mutex, s.readLog,
   (List.range n).map fun i => ((s.w i).pc, ck (s.w i).seen, ck (s.w i).view, (s.w i).result))

/-- the property fails in this state: two workers of the first n were handed different contents, or the file was
    read twice -/
def disagree (n : Nat) (s : PState Nat) : Bool :=
  (List.range n).any fun i => (List.range n).any fun j =>
    match (s.w i).result, (s.w j).result with
    | some a, some b => a != b
    | _, _ => false

def bad (n : Nat) (s : PState Nat) : Bool := decide (2 ≤ s.readLog.length) || disagree n s

def evName (prog : List Instr) (s : PState Nat) : Ev Nat → String
  | .other c => s!"other-process-commits(v{c})"
  | .work i =>
    let nm := match prog[(s.w i).pc]? with
      | some .lock => "Lock" | some .unlock => "Unlock" | some .lookup => "lookup"
      | some .load => if needLoad (s.w i) then "load(reads-file)" else "load(skipped)"
      | some .store => if needLoad (s.w i) then "store" else "store(skipped)"
      | some .get => "Get" | none => "-"
    s!"w{i}.{nm}"

/-- BFS over the executable machine: n workers, at most `commits` commits by other processes; the first bad state
    with the schedule that leads to it -/
def searchFor (isBad : PState Nat → Bool) (prog : List Instr) (n commits : Nat) : Option (List String × PState Nat) :=
  let evsOf (s : PState Nat) : List (Ev Nat) :=
    (List.range n).map Ev.work ++ (if s.disk < commits then [Ev.other (s.disk + 1)] else [])
  let rec go (fuel : Nat) (frontier : List (List String × PState Nat)) (seen : List Key) :
      Option (List String × PState Nat) :=
    match fuel, frontier with
    | 0, _ => none
    | _, [] => none
    | fuel + 1, (path, s) :: rest =>
      if isBad s then some (path.reverse, s)
      else
        let succ := (evsOf s).filterMap fun e => (exec prog s e).map fun t => (evName prog s e :: path, t)
        let (fresh, seen') := succ.foldl (fun (acc : List (List String × PState Nat) × List Key) pt =>
          let k := key n pt.2
          if acc.2.contains k then acc else (acc.1 ++ [pt], k :: acc.2)) ([], seen)
        go fuel (rest ++ fresh) seen'
  go 200000 [([], init 0)] [key n (init 0)]

def search (prog : List Instr) (n commits : Nat) : Option (List String × PState Nat) :=
  searchFor (bad n) prog n commits

end Csvq.ParLoad
