/-
  Csvq.Model.Scope — block scoping, user-defined function calls and control transfer (property C15).

  (a) a small statement language (variables, PRINT, IF/ELSEIF/ELSE, WHILE, WHILE [VAR] @x IN cursor (the cursor
      abstracted to the list of its remaining rows), BREAK/CONTINUE/EXIT/RETURN,
      scalar function declaration with optional parameters, (recursive) calls inside expressions);
  (b) `execImpl` — a fuel-indexed interpreter in the SHAPE OF THE GO CODE:
        lib/query/reference_scope.go   block stack innermost first; Get/Set/Dispose walk outward;
                                       CreateChild pushes a block, CloseCurrentBlock releases it
        lib/query/processor.go         execute / executeChild / IfStmt / While / WhileInCursor, the StatementFlow enum and the
                                       `returnVal` field of the Processor
        lib/query/user_defined_function.go  Execute: child scope OF THE CALLER'S SCOPE (csvq is dynamically
                                       scoped: a function body sees the variables and functions visible at the
                                       call site), parameters, defaults, return value
        lib/query/eval.go              evalArithmetic / evalComparison (a NULL left operand skips the right one),
                                       evalFunction (lookup, CheckArgsLen, arguments left to right, Execute)
  (c) `execSpec` — a denotational reference: structured outcomes (normal / break / continue / exit /
      return v / error e) instead of (flow, err, returnVal); a block is entered and left by one combinator
      (`inBlock`); WHILE evaluates its condition in the enclosing scope and runs every iteration in a fresh block.

  Every recursive call decrements the fuel (the fuel bounds the depth of the evaluation tree), so all functions
  are structurally recursive on the fuel and reduce by `decide`/`rfl`.  Core Lean only.
-/
import Csvq.Model.Basic
namespace Csvq.Scope
open Csvq

/-! ## values -/

inductive SVal
  | null
  | int (i : Int)
  | tern (t : Tern)
  deriving DecidableEq, Repr, Inhabited

namespace SVal

/-- Primary.Ternary(): Integer 1 ↦ TRUE, 0 ↦ FALSE, other ↦ UNKNOWN; Null ↦ UNKNOWN -/
def ternary : SVal → Tern
  | null => .U
  | int i => if i = 1 then .T else if i = 0 then .F else .U
  | tern t => t

/-- value.ToBoolean -/
def bool? : SVal → Option Bool
  | int i => if i = 1 then some true else if i = 0 then some false else none
  | tern .T => some true
  | tern .F => some false
  | _ => none

def isNull : SVal → Bool
  | null => true
  | _ => false

end SVal

inductive BinOp | add | sub | lt | eq
  deriving DecidableEq, Repr, Inhabited

/-- value.CompareCombinedly restricted to NULL / Integer / Ternary operands -/
def cmpV (a b : SVal) : Cmp :=
  match a, b with
  | .null, _ => .incomm
  | _, .null => .incomm
  | .int x, .int y => if x = y then .eq else if x < y then .lt else .gt
  | a, b =>
    match a.bool?, b.bool? with
    | some x, some y => if x = y then .boolEq else .ne
    | _, _ => .incomm          -- ToString(Ternary) is NULL: no string rung

/-- query.Calculate / value.Compare for the four operators of the language (both operands evaluated) -/
def binop (op : BinOp) (a b : SVal) : SVal :=
  match op with
  | .add => match a, b with
    | .int x, .int y => .int (wrap64 (x + y))
    | _, _ => .null
  | .sub => match a, b with
    | .int x, .int y => .int (wrap64 (x - y))
    | _, _ => .null
  | .lt => match cmpV a b with
    | .lt => .tern .T
    | .eq | .gt => .tern .F
    | _ => .tern .U
  | .eq => match cmpV a b with
    | .eq | .boolEq => .tern .T
    | .incomm => .tern .U
    | _ => .tern .F

/-- Processor.Case with a value: `value.Equal(val, cond)` must be TRUE -/
def caseHit (v w : SVal) : Tern := (binop .eq v w).ternary

/-- evalArithmetic / evalComparison return early when the LEFT operand is NULL -/
def nullLeft (op : BinOp) : SVal :=
  match op with
  | .add | .sub => .null
  | .lt | .eq => .tern .U

/-! ## syntax -/

inductive Expr
  | lit (v : SVal)
  | var (x : Nat)
  | bin (op : BinOp) (a b : Expr)
  | call (f : Nat) (args : List Expr)
  | acall (f : Nat) (s0 : Int) (args : List Expr)
      -- a user-defined AGGREGATE evaluated inside a query over a group: `(SELECT f(<list>, args…) FROM … )`; `s0` is the
      -- state of the pseudo cursor at its start and so stands for the grouped values (see `curStep`: the values
      -- s0, s0+1, … , as many as s0 encodes — possibly none)
  deriving Repr, Inhabited

structure Param where
  name : Nat
  dflt : Option Expr
  deriving Repr, Inhabited

/-- the three operations on a declared cursor -/
inductive CurOp | open | close | fetch
  deriving DecidableEq, Repr, Inhabited

inductive Stmt
  | decl (x : Nat) (e : Expr)                                   -- VAR @x := e
  | assign (x : Nat) (e : Expr)                                 -- @x := e
  | dispose (x : Nat)                                           -- DISPOSE @x
  | print (e : Expr)                                            -- PRINT e
  | ifs (branches : List (Expr × List Stmt)) (els : List Stmt)  -- IF … ELSEIF … ELSE (els = [] : no ELSE)
  | caseOf (e : Expr) (branches : List (Expr × List Stmt)) (els : List Stmt)
      -- CASE e WHEN c THEN … [ELSE …] END CASE: e once, then the first branch whose c equals it
  | raise (forced : Bool)                                       -- EXIT <code > 0> (forced) / TRIGGER ERROR: the procedure ends with an error
  | while (c : Expr) (body : List Stmt)                         -- WHILE c DO … END WHILE
  | foreach (x : Nat) (decl : Bool) (vals : List SVal) (body : List Stmt)
      -- WHILE [VAR] @x IN cur DO … END WHILE over a cursor that is open in front of its first row and whose
      -- remaining rows (one column) are `vals`; the cursor is not used again
  | declT (x : Nat)
      -- DECLARE tx VIEW (c1): a temporary table is a variable holding its rows (here: how many); unlike a
      -- variable it cannot be shadowed — DeclareView refuses a name that is visible in ANY block.  INSERT / DELETE
      -- on it from any depth are assignments to the innermost binding (ReplaceTemporaryTable walks outward)
  | cursor (op : CurOp) (c x : Nat)
      -- OPEN c / CLOSE c / FETCH c INTO @x on a cursor that is the variable `c` holding its state (see `curStep`);
      -- declared (closed) by `decl c (lit (int (-off-1)))`.  The INNERMOST declaration of the name decides,
      -- whatever its state (ReferenceScope.OpenCursor / CloseCursor / FetchCursor stop at the first block that has it)
  | inline (ss : List Stmt)
      -- SOURCE file / EXECUTE 'text' / EXECUTE prepared_statement whose statements are `ss`:
      -- Processor.execute on the SAME processor, i.e. in the current block, the flow handed on
  | brk
  | cont
  | exit
  | ret (e : Expr)                                              -- RETURN e
  | declFn (f : Nat) (params : List Param) (body : List Stmt)   -- DECLARE f FUNCTION (…) AS BEGIN … END
  | declAgg (f c : Nat) (params : List Param) (body : List Stmt) -- DECLARE f AGGREGATE (c, …) AS BEGIN … END
  | disposeFn (f : Nat)                                         -- DISPOSE FUNCTION f
  deriving Repr, Inhabited

/-- UserDefinedFunction -/
structure FDecl where
  params : List Param
  body : List Stmt
  agg : Option Nat        -- IsAggregate: the name of the pseudo cursor (a cursor variable) of a user-defined aggregate
  deriving Repr, Inhabited

inductive Err
  | undeclaredVar | redeclaredVar | undeclaredFn | redeclaredFn | argCount | dupParam | redeclaredTable | cursorClosed | cursorOpen | pseudoCursor | forcedExit | userTriggered | fuel
  deriving DecidableEq, Repr, Inhabited

/-! ## blocks (BlockScope: Variables and Functions maps) -/

structure Block where
  vars : List (Nat × SVal)
  funs : List (Nat × FDecl)
  deriving Repr, Inhabited

def Block.empty : Block := ⟨[], []⟩

/-- SyncMap.load -/
def aget {α : Type} (x : Nat) : List (Nat × α) → Option α
  | [] => none
  | (y, v) :: rest => if y = x then some v else aget x rest

/-- SyncMap.store on an existing key -/
def aset {α : Type} (x : Nat) (v : α) : List (Nat × α) → List (Nat × α)
  | [] => []
  | (y, w) :: rest => if y = x then (y, v) :: rest else (y, w) :: aset x v rest

/-- SyncMap.delete -/
def adel {α : Type} (x : Nat) : List (Nat × α) → List (Nat × α)
  | [] => []
  | (y, w) :: rest => if y = x then rest else (y, w) :: adel x rest

/-- ReferenceScope.GetVariable: walk the blocks from the innermost outward -/
def getVar (x : Nat) : List Block → Option SVal
  | [] => none
  | b :: rest => match aget x b.vars with
    | some v => some v
    | none => getVar x rest

/-- ReferenceScope.SubstituteVariable (after the value is known): first block that has the name -/
def setVar (x : Nat) (v : SVal) : List Block → Option (List Block)
  | [] => none
  | b :: rest => match aget x b.vars with
    | some _ => some ({ b with vars := aset x v b.vars } :: rest)
    | none => match setVar x v rest with
      | some rest' => some (b :: rest')
      | none => none

/-- ReferenceScope.DisposeVariable -/
def disposeVar (x : Nat) : List Block → Option (List Block)
  | [] => none
  | b :: rest => match aget x b.vars with
    | some _ => some ({ b with vars := adel x b.vars } :: rest)
    | none => match disposeVar x rest with
      | some rest' => some (b :: rest')
      | none => none

/-- Blocks[0].Variables.Add -/
def declareVar (x : Nat) (v : SVal) : List Block → Option (List Block)
  | [] => none
  | b :: rest => match aget x b.vars with
    | some _ => none
    | none => some ({ b with vars := (x, v) :: b.vars } :: rest)

/-- ReferenceScope.GetFunction -/
def getFn (f : Nat) : List Block → Option FDecl
  | [] => none
  | b :: rest => match aget f b.funs with
    | some d => some d
    | none => getFn f rest

/-- ReferenceScope.DisposeFunction -/
def disposeFn (f : Nat) : List Block → Option (List Block)
  | [] => none
  | b :: rest => match aget f b.funs with
    | some _ => some ({ b with funs := adel f b.funs } :: rest)
    | none => match disposeFn f rest with
      | some rest' => some (b :: rest')
      | none => none

/-- parseParameters: a parameter name may occur once -/
def dupParams : List Param → Bool
  | [] => false
  | p :: ps => ps.any (fun q => q.name == p.name) || dupParams ps

/-- Blocks[0].Functions.Declare -/
def declareFn (f : Nat) (d : FDecl) : List Block → Except Err (List Block)
  | [] => .error .redeclaredFn
  | b :: rest => match aget f b.funs with
    | some _ => .error .redeclaredFn
    | none => if dupParams d.params then .error .dupParam
              else .ok ({ b with funs := (f, d) :: b.funs } :: rest)

/-- Cursor.Open / Close / Fetch(NEXT) on the state of a cursor.  The state is one integer:
      open:    1000·p + 100·j + 10·n + k    n ≤ 8 rows with the values base, base+1, … (base = the state at k = 0),
                                            k = number of rows passed (n+1 once the end was hit), p = 1 for the
                                            pseudo cursor of an aggregate (cannot be opened or closed)
      closed:  −(100·j + 10·n) − 1
    Result: the new state and, for a successful FETCH, the value fetched. -/
def curStep : CurOp → SVal → Except Err (SVal × Option SVal)
  | .open, .int s =>
    if s < 0 then .ok (.int (-s - 1), none) else if 1000 ≤ s then .error .pseudoCursor else .error .cursorOpen
  | .close, .int s =>
    if s < 0 then .ok (.int s, none) else if 1000 ≤ s then .error .pseudoCursor else .ok (.int (-(s - s % 10) - 1), none)
  | .fetch, .int s =>
    if s < 0 then .error .cursorClosed
    else if s % 10 < (s / 10) % 10 then .ok (.int (s + 1), some (.int s))
    else .ok (.int (s - s % 10 + (s / 10) % 10 + 1), none)
  | .open, _ => .error .cursorOpen
  | .close, v => .ok (v, none)
  | .fetch, _ => .error .cursorClosed

/-- the pseudo cursor of an aggregate invoked with nothing to aggregate (empty group, or outside any query) -/
def emptyPseudo : Int := 1000

/-- ReferenceScope.OpenCursor / CloseCursor / FetchCursor + SubstituteVariableDirectly: the first block (from the
    innermost outward) that declares `c` is the cursor; the fetched value goes to the visible `x` -/
def cursorDo (op : CurOp) (c x : Nat) (bs : List Block) : Option Err × List Block :=
  match getVar c bs with
  | none => (some .undeclaredVar, bs)
  | some s =>
    match curStep op s with
    | .error e => (some e, bs)
    | .ok (s', ov) =>
      match setVar c s' bs with
      | none => (some .undeclaredVar, bs)
      | some bs1 =>
        match ov with
        | none => (none, bs1)
        | some v =>
          match setVar x v bs1 with
          | none => (some .undeclaredVar, bs1)
          | some bs2 => (none, bs2)

/-- RequiredArgs: index of the last parameter without a default, plus one -/
def requiredArgs : List Param → Nat
  | [] => 0
  | p :: ps =>
    let r := requiredArgs ps
    if r ≠ 0 then r + 1 else match p.dflt with
      | none => 1
      | some _ => 0

def numDefaults (ps : List Param) : Nat := (ps.filter (fun p => p.dflt.isSome)).length

/-- UserDefinedFunction.CheckArgsLen -/
def checkArgsLen (d : FDecl) (n : Nat) : Bool :=
  if numDefaults d.params < 1 then n == d.params.length
  else if n < requiredArgs d.params then false
  else if d.params.length < n then false
  else true

/-- the session: block stack (innermost first) and what PRINT wrote (newest first) -/
structure St where
  blocks : List Block
  out : List SVal
  deriving Repr, Inhabited

/-- ReferenceScope.CreateChild: a block from the pool in front of the parent's blocks -/
def St.push (s : St) : St := { s with blocks := Block.empty :: s.blocks }
/-- the parent scope after the child was closed: the parent's own slice, i.e. everything but the child's block -/
def St.pop (s : St) : St := { s with blocks := s.blocks.tail }
/-- ReferenceScope.ClearCurrentBlock -/
def St.clearCurrent (s : St) : St :=
  match s.blocks with
  | [] => s
  | _ :: rest => { s with blocks := Block.empty :: rest }

/-! ## (b) the implementation-shaped interpreter -/

/-- StatementFlow -/
inductive Flow | terminate | terminateWithError | exit | brk | cont | ret
  deriving DecidableEq, Repr, Inhabited

/-- what a Processor method leaves behind: (flow, err), the processor's `returnVal`, the session -/
structure PRes where
  flow : Flow
  err : Option Err
  rv : Option SVal
  st : St
  deriving Repr, Inhabited

def PRes.fail (e : Err) (rv : Option SVal) (st : St) : PRes := ⟨.terminateWithError, some e, rv, st⟩
def PRes.ok (rv : Option SVal) (st : St) : PRes := ⟨.terminate, none, rv, st⟩

abbrev ERes := Except Err SVal × St

mutual

/-- query.Evaluate -/
def evalI : Nat → Expr → St → ERes
  | 0, _, st => (.error .fuel, st)
  | _ + 1, .lit v, st => (.ok v, st)
  | _ + 1, .var x, st =>
    match getVar x st.blocks with
    | some v => (.ok v, st)
    | none => (.error .undeclaredVar, st)
  | fuel + 1, .bin op a b, st =>
    match evalI fuel a st with
    | (.error e, st1) => (.error e, st1)
    | (.ok va, st1) =>
      match va with
      | .null => (.ok (nullLeft op), st1)
      | va =>
        match evalI fuel b st1 with
        | (.error e, st2) => (.error e, st2)
        | (.ok vb, st2) => (.ok (binop op va vb), st2)
  | fuel + 1, .call f args, st =>          -- evalFunction
    match getFn f st.blocks with
    | none => (.error .undeclaredFn, st)
    | some d =>
      match d.agg with
      | none =>
        if checkArgsLen d args.length then
          match evalArgsI fuel args st with
          | (.error e, st1) => (.error e, st1)
          | (.ok vs, st1) => callI fuel d vs st1
        else (.error .argCount, st)
      | some c =>
        -- udfn.IsAggregate: evalAggregateFunction outside a query — the first argument (the list) is not
        -- evaluated, there is nothing to aggregate
        match args with
        | [] => (.error .argCount, st)
        | _ :: rest =>
          if checkArgsLen d rest.length then
            match evalArgsI fuel rest st with
            | (.error e, st1) => (.error e, st1)
            | (.ok vs, st1) => callAggI fuel d c emptyPseudo vs st1
          else (.error .argCount, st)
  | fuel + 1, .acall f s0 args, st =>      -- evalAggregateFunction on a grouped record of a query
    match getFn f st.blocks with
    | none =>
      -- the query does not know f as an aggregate: f is evaluated per row — not at all when there is no row
      if (s0 / 10) % 10 = 0 then (.ok .null, st) else (.error .undeclaredFn, st)
    | some d =>
      match d.agg with
      | none => (.error .undeclaredFn, st)   -- a scalar function under this name: outside the generated programs
      | some c =>
        if checkArgsLen d args.length then
          match evalArgsI fuel args st with
          | (.error e, st1) => (.error e, st1)
          | (.ok vs, st1) => callAggI fuel d c s0 vs st1
        else (.error .argCount, st)

/-- the argument loop of evalFunction -/
def evalArgsI : Nat → List Expr → St → Except Err (List SVal) × St
  | 0, _, st => (.error .fuel, st)
  | _ + 1, [], st => (.ok [], st)
  | fuel + 1, e :: es, st =>
    match evalI fuel e st with
    | (.error err, st1) => (.error err, st1)
    | (.ok v, st1) =>
      match evalArgsI fuel es st1 with
      | (.error err, st2) => (.error err, st2)
      | (.ok vs, st2) => (.ok (v :: vs), st2)

/-- UserDefinedFunction.Execute + execute: `childScope := scope.CreateChild(); defer childScope.CloseCurrentBlock()` -/
def callI : Nat → FDecl → List SVal → St → ERes
  | 0, _, _, st => (.error .fuel, st)
  | fuel + 1, d, args, st =>
    let child := st.push
    let r : ERes :=
      if checkArgsLen d args.length then
        match bindParamsI fuel d.params args child with
        | (some e, st1) => (.error e, st1)
        | (none, st1) =>
          let p := executeI fuel d.body none st1          -- NewProcessorWithScope: returnVal is nil; flow is dropped
          match p.err with
          | some e => (.error e, p.st)
          | none => match p.rv with
            | some v => (.ok v, p.st)
            | none => (.ok .null, p.st)
      else (.error .argCount, child)
    (r.1, r.2.pop)

/-- UserDefinedFunction.ExecuteAggregate: child scope, `AddPseudoCursor(fn.Cursor, values)` into its block — for
    EVERY value list, also the empty one —, then execute -/
def callAggI : Nat → FDecl → Nat → Int → List SVal → St → ERes
  | 0, _, _, _, _, st => (.error .fuel, st)
  | fuel + 1, d, c, s0, args, st =>
    let child := st.push
    let r : ERes :=
      match declareVar c (.int s0) child.blocks with
      | none => (.error .redeclaredVar, child)
      | some bs0 =>
        let child1 : St := { child with blocks := bs0 }
        if checkArgsLen d args.length then
          match bindParamsI fuel d.params args child1 with
          | (some e, st1) => (.error e, st1)
          | (none, st1) =>
            let p := executeI fuel d.body none st1
            match p.err with
            | some e => (.error e, p.st)
            | none => match p.rv with
              | some v => (.ok v, p.st)
              | none => (.ok .null, p.st)
        else (.error .argCount, child1)
    (r.1, r.2.pop)

/-- the parameter loop of UserDefinedFunction.execute: arguments first, then defaults evaluated in the child scope -/
def bindParamsI : Nat → List Param → List SVal → St → Option Err × St
  | 0, _, _, st => (some .fuel, st)
  | _ + 1, [], _, st => (none, st)
  | fuel + 1, p :: ps, a :: as, st =>
    match declareVar p.name a st.blocks with
    | none => (some .redeclaredVar, st)
    | some bs => bindParamsI fuel ps as { st with blocks := bs }
  | fuel + 1, p :: ps, [], st =>
    let r : ERes := match p.dflt with
      | some e => evalI fuel e st
      | none => (.ok (.tern .T), st)           -- Evaluate(nil); unreachable after CheckArgsLen
    match r with
    | (.error e, st1) => (some e, st1)
    | (.ok v, st1) =>
      match declareVar p.name v st1.blocks with
      | none => (some .redeclaredVar, st1)
      | some bs => bindParamsI fuel ps [] { st1 with blocks := bs }

/-- Processor.ExecuteStatement (`rv` is the processor's returnVal field) -/
def stmtI : Nat → Stmt → Option SVal → St → PRes
  | 0, _, rv, st => .fail .fuel rv st
  | fuel + 1, .decl x e, rv, st =>
    match evalI fuel e st with
    | (.error err, st1) => .fail err rv st1
    | (.ok v, st1) =>
      match declareVar x v st1.blocks with
      | none => .fail .redeclaredVar rv st1
      | some bs => .ok rv { st1 with blocks := bs }
  | fuel + 1, .assign x e, rv, st =>
    match evalI fuel e st with
    | (.error err, st1) => .fail err rv st1
    | (.ok v, st1) =>
      match setVar x v st1.blocks with
      | none => .fail .undeclaredVar rv st1
      | some bs => .ok rv { st1 with blocks := bs }
  | _ + 1, .dispose x, rv, st =>
    match disposeVar x st.blocks with
    | none => .fail .undeclaredVar rv st
    | some bs => .ok rv { st with blocks := bs }
  | fuel + 1, .print e, rv, st =>
    match evalI fuel e st with
    | (.error err, st1) => .fail err rv st1
    | (.ok v, st1) => .ok rv { st1 with out := v :: st1.out }
  | fuel + 1, .ifs branches els, rv, st => ifI fuel branches els rv st
  | fuel + 1, .caseOf e branches els, rv, st =>           -- Processor.Case: `val, err = Evaluate(ctx, proc.ReferenceScope, stmt.Value)`
    match evalI fuel e st with
    | (.error err, st1) => .fail err rv st1
    | (.ok v, st1) => caseI fuel v branches els rv st1
  | _ + 1, .raise forced, rv, st =>                        -- flow = TerminateWithError; err = NewForcedExit(code) / NewUserTriggeredError
    .fail (if forced then .forcedExit else .userTriggered) rv st
  | fuel + 1, .while c body, rv, st =>
    -- childProc := proc.NewChildProcessor(); defer childProc.Close()
    let r := whileI fuel c body rv none st.push
    { r with st := r.st.pop }
  | fuel + 1, .foreach x decl vals body, rv, st =>
    -- childProc := proc.NewChildProcessor(); defer childProc.Close()
    let r := foreachI fuel x decl vals body rv none st.push
    { r with st := r.st.pop }
  | _ + 1, .declT x, rv, st =>                                   -- DeclareView: scope.TemporaryTableExists over all blocks
    match getVar x st.blocks with
    | some _ => .fail .redeclaredTable rv st
    | none =>
      match declareVar x (.int 0) st.blocks with
      | none => .fail .redeclaredTable rv st
      | some bs => .ok rv { st with blocks := bs }
  | _ + 1, .cursor op c x, rv, st =>
    match cursorDo op c x st.blocks with
    | (some err, bs) => .fail err rv { st with blocks := bs }
    | (none, bs) => .ok rv { st with blocks := bs }
  | fuel + 1, .inline ss, rv, st => executeI fuel ss rv st       -- flow, err = proc.execute(ctx, externalStatements)
  | _ + 1, .brk, rv, st => ⟨.brk, none, rv, st⟩
  | _ + 1, .cont, rv, st => ⟨.cont, none, rv, st⟩
  | _ + 1, .exit, rv, st => ⟨.exit, none, rv, st⟩
  | fuel + 1, .ret e, rv, st =>
    match evalI fuel e st with
    | (.error err, st1) => .fail err rv st1
    | (.ok v, st1) => ⟨.ret, none, some v, st1⟩
  | _ + 1, .declFn f params body, rv, st =>
    match declareFn f ⟨params, body, none⟩ st.blocks with
    | .error err => .fail err rv st
    | .ok bs => .ok rv { st with blocks := bs }
  | _ + 1, .declAgg f c params body, rv, st =>
    match declareFn f ⟨params, body, some c⟩ st.blocks with
    | .error err => .fail err rv st
    | .ok bs => .ok rv { st with blocks := bs }
  | _ + 1, .disposeFn f, rv, st =>
    match disposeFn f st.blocks with
    | none => .fail .undeclaredFn rv st
    | some bs => .ok rv { st with blocks := bs }

/-- Processor.execute: run until an error or a flow other than Terminate -/
def executeI : Nat → List Stmt → Option SVal → St → PRes
  | 0, _, rv, st => .fail .fuel rv st
  | _ + 1, [], rv, st => .ok rv st
  | fuel + 1, s :: rest, rv, st =>
    let r := stmtI fuel s rv st
    match r.err with
    | some _ => r
    | none => match r.flow with
      | .terminate => executeI fuel rest r.rv r.st
      | _ => r

/-- Processor.IfStmt: the first branch whose condition is TRUE runs in a child processor (executeChild) -/
def ifI : Nat → List (Expr × List Stmt) → List Stmt → Option SVal → St → PRes
  | 0, _, _, rv, st => .fail .fuel rv st
  | fuel + 1, [], els, rv, st =>
    match els with
    | [] => .ok rv st
    | els =>
      -- executeChild
      let r := executeI fuel els none st.push
      { r with rv := (match r.rv with | some v => some v | none => rv), st := r.st.pop }
  | fuel + 1, (c, body) :: more, els, rv, st =>
    match evalI fuel c st with
    | (.error err, st1) => .fail err rv st1
    | (.ok v, st1) =>
      match v.ternary with
      | .T =>
        -- executeChild: child := proc.NewChildProcessor(); … ; child.Close()
        let r := executeI fuel body none st1.push
        { r with rv := (match r.rv with | some v => some v | none => rv), st := r.st.pop }
      | _ => ifI fuel more els rv st1

/-- the loop of Processor.Case over the WHEN branches, `v` the value of the CASE expression -/
def caseI : Nat → SVal → List (Expr × List Stmt) → List Stmt → Option SVal → St → PRes
  | 0, _, _, _, rv, st => .fail .fuel rv st
  | fuel + 1, _, [], els, rv, st =>
    match els with
    | [] => .ok rv st
    | els =>
      let r := executeI fuel els none st.push
      { r with rv := (match r.rv with | some v => some v | none => rv), st := r.st.pop }
  | fuel + 1, v, (c, body) :: more, els, rv, st =>
    match evalI fuel c st with
    | (.error err, st1) => .fail err rv st1
    | (.ok w, st1) =>
      match caseHit v w with
      | .T =>
        let r := executeI fuel body none st1.push
        { r with rv := (match r.rv with | some v => some v | none => rv), st := r.st.pop }
      | _ => caseI fuel v more els rv st1

/-- the `for` loop of Processor.While; the state's first block is the child processor's block,
    `rv` the parent's returnVal, `crv` the child processor's -/
def whileI : Nat → Expr → List Stmt → Option SVal → Option SVal → St → PRes
  | 0, _, _, rv, _, st => .fail .fuel rv st
  | fuel + 1, c, body, rv, crv, st =>
    let st0 := st.clearCurrent
    match evalI fuel c st0 with
    | (.error err, st1) => .fail err rv st1
    | (.ok v, st1) =>
      match v.ternary with
      | .T =>
        let r := executeI fuel body crv st1
        match r.err with
        | some err => .fail err rv r.st
        | none => match r.flow with
          | .brk => .ok rv r.st
          | .exit => ⟨.exit, none, rv, r.st⟩
          | .ret => ⟨.ret, none, r.rv, r.st⟩
          | _ => whileI fuel c body rv r.rv r.st
      | _ => .ok rv st1

/-- the `for` loop of Processor.WhileInCursor: clear the child's block, declare the variable there when
    WithDeclaration, FetchCursor NEXT into the variable (SubstituteVariableDirectly walks outward), run the body -/
def foreachI : Nat → Nat → Bool → List SVal → List Stmt → Option SVal → Option SVal → St → PRes
  | 0, _, _, _, _, rv, _, st => .fail .fuel rv st
  | fuel + 1, x, decl, vals, body, rv, crv, st =>
    let st0 := st.clearCurrent
    match (if decl then declareVar x .null st0.blocks else some st0.blocks) with
    | none => .fail .redeclaredVar rv st0
    | some bs0 =>
      match vals with
      | [] => .ok rv { st0 with blocks := bs0 }               -- FetchCursor: no row, `break`
      | v :: rest =>
        match setVar x v bs0 with
        | none => .fail .undeclaredVar rv { st0 with blocks := bs0 }
        | some bs =>
          let r := executeI fuel body crv { st0 with blocks := bs }
          match r.err with
          | some err => .fail err rv r.st
          | none => match r.flow with
            | .brk => .ok rv r.st
            | .exit => ⟨.exit, none, rv, r.st⟩
            | .ret => ⟨.ret, none, r.rv, r.st⟩
            | _ => foreachI fuel x decl rest body rv r.rv r.st

end

/-! ## (c) the reference semantics -/

inductive Outcome
  | normal | brk | cont | exit
  | ret (v : SVal)
  | err (e : Err)
  deriving DecidableEq, Repr, Inhabited

/-- run `f` in a fresh innermost block and drop that block afterwards, whatever the outcome -/
def inBlock {α : Type} (f : St → α × St) (s : St) : α × St :=
  match f s.push with
  | (a, s') => (a, s'.pop)

/-- run `f` in a new innermost block `b` and drop that block afterwards -/
def inBlockWith {α : Type} (b : Block) (f : St → α × St) (s : St) : α × St :=
  match f { s with blocks := b :: s.blocks } with
  | (a, s') => (a, s'.pop)

mutual

def evalS : Nat → Expr → St → ERes
  | 0, _, st => (.error .fuel, st)
  | _ + 1, .lit v, st => (.ok v, st)
  | _ + 1, .var x, st =>
    match getVar x st.blocks with
    | some v => (.ok v, st)
    | none => (.error .undeclaredVar, st)
  | fuel + 1, .bin op a b, st =>
    match evalS fuel a st with
    | (.error e, st1) => (.error e, st1)
    | (.ok va, st1) =>
      match va with
      | .null => (.ok (nullLeft op), st1)
      | va =>
        match evalS fuel b st1 with
        | (.error e, st2) => (.error e, st2)
        | (.ok vb, st2) => (.ok (binop op va vb), st2)
  | fuel + 1, .call f args, st =>
    match getFn f st.blocks with
    | none => (.error .undeclaredFn, st)
    | some d =>
      match d.agg with
      | none =>
        if checkArgsLen d args.length then
          match evalArgsS fuel args st with
          | (.error e, st1) => (.error e, st1)
          | (.ok vs, st1) => callS fuel d vs st1
        else (.error .argCount, st)
      | some c =>
        -- udfn.IsAggregate: evalAggregateFunction outside a query — the first argument (the list) is not
        -- evaluated, there is nothing to aggregate
        match args with
        | [] => (.error .argCount, st)
        | _ :: rest =>
          if checkArgsLen d rest.length then
            match evalArgsS fuel rest st with
            | (.error e, st1) => (.error e, st1)
            | (.ok vs, st1) => callAggS fuel d c emptyPseudo vs st1
          else (.error .argCount, st)
  | fuel + 1, .acall f s0 args, st =>
    match getFn f st.blocks with
    | none =>
      -- the query does not know f as an aggregate: f is evaluated per row — not at all when there is no row
      if (s0 / 10) % 10 = 0 then (.ok .null, st) else (.error .undeclaredFn, st)
    | some d =>
      match d.agg with
      | none => (.error .undeclaredFn, st)   -- a scalar function under this name: outside the generated programs
      | some c =>
        if checkArgsLen d args.length then
          match evalArgsS fuel args st with
          | (.error e, st1) => (.error e, st1)
          | (.ok vs, st1) => callAggS fuel d c s0 vs st1
        else (.error .argCount, st)

def evalArgsS : Nat → List Expr → St → Except Err (List SVal) × St
  | 0, _, st => (.error .fuel, st)
  | _ + 1, [], st => (.ok [], st)
  | fuel + 1, e :: es, st =>
    match evalS fuel e st with
    | (.error err, st1) => (.error err, st1)
    | (.ok v, st1) =>
      match evalArgsS fuel es st1 with
      | (.error err, st2) => (.error err, st2)
      | (.ok vs, st2) => (.ok (v :: vs), st2)

/-- a call: parameters and body in a fresh block on top of the CALLER's blocks; the value is what RETURN gave,
    NULL when the body ended any other way -/
def callS : Nat → FDecl → List SVal → St → ERes
  | 0, _, _, st => (.error .fuel, st)
  | fuel + 1, d, args, st =>
    inBlock (fun s =>
      if checkArgsLen d args.length then
        match bindParamsS fuel d.params args s with
        | (some e, s1) => (.error e, s1)
        | (none, s1) =>
          match blockS fuel d.body s1 with
          | (.ret v, s2) => (.ok v, s2)
          | (.err e, s2) => (.error e, s2)
          | (_, s2) => (.ok .null, s2)
      else (.error .argCount, s)) st

/-- an aggregate call: as a call, in a block that starts with the invocation's OWN cursor over the grouped values -/
def callAggS : Nat → FDecl → Nat → Int → List SVal → St → ERes
  | 0, _, _, _, _, st => (.error .fuel, st)
  | fuel + 1, d, c, s0, args, st =>
    inBlockWith ⟨[(c, .int s0)], []⟩ (fun s =>
      if checkArgsLen d args.length then
        match bindParamsS fuel d.params args s with
        | (some e, s1) => (.error e, s1)
        | (none, s1) =>
          match blockS fuel d.body s1 with
          | (.ret v, s2) => (.ok v, s2)
          | (.err e, s2) => (.error e, s2)
          | (_, s2) => (.ok .null, s2)
      else (.error .argCount, s)) st

def bindParamsS : Nat → List Param → List SVal → St → Option Err × St
  | 0, _, _, st => (some .fuel, st)
  | _ + 1, [], _, st => (none, st)
  | fuel + 1, p :: ps, a :: as, st =>
    match declareVar p.name a st.blocks with
    | none => (some .redeclaredVar, st)
    | some bs => bindParamsS fuel ps as { st with blocks := bs }
  | fuel + 1, p :: ps, [], st =>
    let r : ERes := match p.dflt with
      | some e => evalS fuel e st
      | none => (.ok (.tern .T), st)
    match r with
    | (.error e, st1) => (some e, st1)
    | (.ok v, st1) =>
      match declareVar p.name v st1.blocks with
      | none => (some .redeclaredVar, st1)
      | some bs => bindParamsS fuel ps [] { st1 with blocks := bs }

def stmtS : Nat → Stmt → St → Outcome × St
  | 0, _, st => (.err .fuel, st)
  | fuel + 1, .decl x e, st =>
    match evalS fuel e st with
    | (.error err, st1) => (.err err, st1)
    | (.ok v, st1) =>
      match declareVar x v st1.blocks with
      | none => (.err .redeclaredVar, st1)
      | some bs => (.normal, { st1 with blocks := bs })
  | fuel + 1, .assign x e, st =>
    match evalS fuel e st with
    | (.error err, st1) => (.err err, st1)
    | (.ok v, st1) =>
      match setVar x v st1.blocks with
      | none => (.err .undeclaredVar, st1)
      | some bs => (.normal, { st1 with blocks := bs })
  | _ + 1, .dispose x, st =>
    match disposeVar x st.blocks with
    | none => (.err .undeclaredVar, st)
    | some bs => (.normal, { st with blocks := bs })
  | fuel + 1, .print e, st =>
    match evalS fuel e st with
    | (.error err, st1) => (.err err, st1)
    | (.ok v, st1) => (.normal, { st1 with out := v :: st1.out })
  | fuel + 1, .ifs branches els, st => ifS fuel branches els st
  | fuel + 1, .caseOf e branches els, st =>
    match evalS fuel e st with
    | (.error err, st1) => (.err err, st1)
    | (.ok v, st1) => caseS fuel v branches els st1
  | _ + 1, .raise forced, st => (.err (if forced then .forcedExit else .userTriggered), st)
  | fuel + 1, .while c body, st => whileS fuel c body st
  | fuel + 1, .foreach x decl vals body, st => foreachS fuel x decl vals body st
  | _ + 1, .declT x, st =>
    match getVar x st.blocks with
    | some _ => (.err .redeclaredTable, st)
    | none =>
      match declareVar x (.int 0) st.blocks with
      | none => (.err .redeclaredTable, st)
      | some bs => (.normal, { st with blocks := bs })
  | _ + 1, .cursor op c x, st =>
    match cursorDo op c x st.blocks with
    | (some err, bs) => (.err err, { st with blocks := bs })
    | (none, bs) => (.normal, { st with blocks := bs })
  | fuel + 1, .inline ss, st => blockS fuel ss st
  | _ + 1, .brk, st => (.brk, st)
  | _ + 1, .cont, st => (.cont, st)
  | _ + 1, .exit, st => (.exit, st)
  | fuel + 1, .ret e, st =>
    match evalS fuel e st with
    | (.error err, st1) => (.err err, st1)
    | (.ok v, st1) => (.ret v, st1)
  | _ + 1, .declFn f params body, st =>
    match declareFn f ⟨params, body, none⟩ st.blocks with
    | .error err => (.err err, st)
    | .ok bs => (.normal, { st with blocks := bs })
  | _ + 1, .declAgg f c params body, st =>
    match declareFn f ⟨params, body, some c⟩ st.blocks with
    | .error err => (.err err, st)
    | .ok bs => (.normal, { st with blocks := bs })
  | _ + 1, .disposeFn f, st =>
    match disposeFn f st.blocks with
    | none => (.err .undeclaredFn, st)
    | some bs => (.normal, { st with blocks := bs })

/-- a statement list: the first outcome other than `normal` ends it -/
def blockS : Nat → List Stmt → St → Outcome × St
  | 0, _, st => (.err .fuel, st)
  | _ + 1, [], st => (.normal, st)
  | fuel + 1, s :: rest, st =>
    match stmtS fuel s st with
    | (.normal, st1) => blockS fuel rest st1
    | r => r

def ifS : Nat → List (Expr × List Stmt) → List Stmt → St → Outcome × St
  | 0, _, _, st => (.err .fuel, st)
  | fuel + 1, [], els, st =>
    match els with
    | [] => (.normal, st)
    | els => inBlock (blockS fuel els) st
  | fuel + 1, (c, body) :: more, els, st =>
    match evalS fuel c st with
    | (.error err, st1) => (.err err, st1)
    | (.ok v, st1) =>
      match v.ternary with
      | .T => inBlock (blockS fuel body) st1
      | _ => ifS fuel more els st1

def caseS : Nat → SVal → List (Expr × List Stmt) → List Stmt → St → Outcome × St
  | 0, _, _, _, st => (.err .fuel, st)
  | fuel + 1, _, [], els, st =>
    match els with
    | [] => (.normal, st)
    | els => inBlock (blockS fuel els) st
  | fuel + 1, v, (c, body) :: more, els, st =>
    match evalS fuel c st with
    | (.error err, st1) => (.err err, st1)
    | (.ok w, st1) =>
      match caseHit v w with
      | .T => inBlock (blockS fuel body) st1
      | _ => caseS fuel v more els st1

def whileS : Nat → Expr → List Stmt → St → Outcome × St
  | 0, _, _, st => (.err .fuel, st)
  | fuel + 1, c, body, st =>
    match evalS fuel c st with
    | (.error err, st1) => (.err err, st1)
    | (.ok v, st1) =>
      match v.ternary with
      | .T =>
        match inBlock (blockS fuel body) st1 with
        | (.normal, st2) => whileS fuel c body st2
        | (.cont, st2) => whileS fuel c body st2
        | (.brk, st2) => (.normal, st2)
        | r => r
      | _ => (.normal, st1)

/-- WHILE [VAR] @x IN cursor: one iteration per remaining row; with VAR the variable lives in the iteration's own
    block, without it the row is assigned to the visible @x (an error when there is none) -/
def foreachS : Nat → Nat → Bool → List SVal → List Stmt → St → Outcome × St
  | 0, _, _, _, _, st => (.err .fuel, st)
  | _ + 1, _, _, [], _, st => (.normal, st)
  | fuel + 1, x, true, v :: rest, body, st =>
    match inBlockWith ⟨[(x, v)], []⟩ (blockS fuel body) st with
    | (.normal, st2) => foreachS fuel x true rest body st2
    | (.cont, st2) => foreachS fuel x true rest body st2
    | (.brk, st2) => (.normal, st2)
    | r => r
  | fuel + 1, x, false, v :: rest, body, st =>
    match setVar x v st.blocks with
    | none => (.err .undeclaredVar, st)
    | some bs =>
      match inBlock (blockS fuel body) { st with blocks := bs } with
      | (.normal, st2) => foreachS fuel x false rest body st2
      | (.cont, st2) => foreachS fuel x false rest body st2
      | (.brk, st2) => (.normal, st2)
      | r => r

end

/-! ## observations of a whole program -/

/-- what a run of a procedure shows: PRINT trace (oldest first), how it ended, the global block -/
structure Obs where
  out : List SVal
  flow : Outcome            -- `ret v` / `brk` / `cont` can only reach the top level in programs the parser rejects
  globals : List (List (Nat × SVal))
  deriving DecidableEq, Repr, Inhabited

def St.init : St := ⟨[Block.empty], []⟩

/-- (flow, err, returnVal) of the processor as one structured outcome -/
def PRes.outcome (r : PRes) : Outcome :=
  match r.err with
  | some e => .err e
  | none => match r.flow with
    | .terminate => .normal
    | .terminateWithError => .normal
    | .exit => .exit
    | .brk => .brk
    | .cont => .cont
    | .ret => match r.rv with
      | some v => .ret v
      | none => .ret .null

/-- Processor.Execute: `if err == nil && flow == Terminate && proc.Tx.AutoCommit { err = proc.AutoCommit(ctx) }` —
    whether a non-interactive run commits the changes the procedure made -/
def PRes.commits (r : PRes) : Bool :=
  match r.err with
  | some _ => false
  | none => match r.flow with
    | .terminate => true
    | _ => false

/-- the documented rule: only a procedure that ran to its end is committed (EXIT "terminates the executing
    procedure without commit"; an error rolls back) -/
def Outcome.commits : Outcome → Bool
  | .normal => true
  | _ => false

def St.obs (s : St) (o : Outcome) : Obs := ⟨s.out.reverse, o, s.blocks.map Block.vars⟩

/-- Processor.Execute on a new session -/
def execImpl (fuel : Nat) (prog : List Stmt) : Obs :=
  let r := executeI fuel prog none St.init
  r.st.obs r.outcome

def execSpec (fuel : Nat) (prog : List Stmt) : Obs :=
  match blockS fuel prog St.init with
  | (o, s) => s.obs o

end Csvq.Scope
