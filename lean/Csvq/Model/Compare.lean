/-
  Csvq.Model.Compare — the comparison ladder, the six operators, row-value comparison,
  ANY/ALL/IN/BETWEEN/IS/CASE and arithmetic, written in the shape of
    lib/value/comparison.go, lib/query/comparison.go, lib/query/eval.go, lib/query/arithmetic.go.
-/
import Csvq.Model.Basic
namespace Csvq

def cmpInt (x y : Int) : Cmp :=
  if x = y then .eq else if x < y then .lt else .gt

def cmpFloat (x y : FVal) : Cmp :=
  if x.isNaN || y.isNaN then .ne
  else if FVal.feq x y then .eq
  else if FVal.flt x y then .lt
  else .gt

def cmpBytes (x y : Bytes) : Cmp :=
  if x = y then .eq else if bytesLt x y then .lt else .gt

def rungStr (a b : Profile) : Cmp :=
  match a.strU?, b.strU? with
  | some x, some y => cmpBytes x y
  | _, _ => .incomm

def rungBool (a b : Profile) : Cmp :=
  match a.bool?, b.bool? with
  | some x, some y => if x = y then .boolEq else .ne
  | _, _ => rungStr a b

def rungDt (a b : Profile) : Cmp :=
  match a.dt?, b.dt? with
  | some x, some y => cmpInt x y
  | _, _ => rungBool a b

def rungFlt (a b : Profile) : Cmp :=
  match a.flt?, b.flt? with
  | some x, some y => cmpFloat x y
  | _, _ => rungDt a b

def rungInt (a b : Profile) : Cmp :=
  match a.int?, b.int? with
  | some x, some y => cmpInt x y
  | _, _ => rungFlt a b

/-- value.CompareCombinedly -/
def cmp (a b : Profile) : Cmp :=
  if a.isNull || b.isNull then .incomm else rungInt a b

/-- is the comparison result one of the three "ordered" answers? -/
def Cmp.ordered : Cmp → Bool
  | .eq | .lt | .gt => true
  | _ => false

def opEq (a b : Profile) : Tern :=
  match cmp a b with
  | .incomm => .U
  | .eq | .boolEq => .T
  | _ => .F

def opNe (a b : Profile) : Tern :=
  match cmp a b with
  | .incomm => .U
  | .eq | .boolEq => .F
  | _ => .T

def opLt (a b : Profile) : Tern :=
  match cmp a b with
  | .incomm | .ne | .boolEq => .U
  | .lt => .T
  | _ => .F

def opGt (a b : Profile) : Tern :=
  match cmp a b with
  | .incomm | .ne | .boolEq => .U
  | .gt => .T
  | _ => .F

def opLe (a b : Profile) : Tern :=
  match cmp a b with
  | .incomm | .ne | .boolEq => .U
  | .gt => .F
  | _ => .T

def opGe (a b : Profile) : Tern :=
  match cmp a b with
  | .incomm | .ne | .boolEq => .U
  | .lt => .F
  | _ => .T

/-- value.Identical (`==`) on raw values -/
def identical (a b : Val) : Tern :=
  match a, b with
  | .null, _ => .U
  | .tern .U, _ => .U
  | _, .null => .U
  | _, .tern .U => .U
  | .int x, .int y => .ofBool (x == y)
  | .flt x, .flt y => .ofBool (FVal.feq x y)
  | .dt x, .dt y => .ofBool (x == y)
  | .bool x, .bool y => .ofBool (x == y)
  | .tern x, .tern y => .ofBool (x == y)
  | .str x, .str y => .ofBool (x == y)
  | _, _ => .F

inductive COp | eq | ident | gt | lt | ge | le | ne
  deriving DecidableEq, Repr, Inhabited

/-- value.Compare -/
def compare (op : COp) (a b : Profile) : Tern :=
  match op with
  | .eq => opEq a b
  | .ident => identical a.raw b.raw
  | .gt => opGt a b
  | .lt => opLt a b
  | .ge => opGe a b
  | .le => opLe a b
  | .ne => opNe a b

/-! ### value.CompareRowValues  (both operands present, equal lengths) -/

/-- loop of CompareRowValues from position i; `unk` = the `unknown` flag;
    `last` tells whether the current element is the final one. -/
def rowCmpLoop (op : COp) : List (Profile × Profile) → Bool → Tern
  | [], unk =>
      if unk then .U
      else match op with
        | .gt | .lt | .ne => .F
        | _ => .T
  | (a, b) :: rest, unk =>
      if op = .ident then
        match identical a.raw b.raw with
        | .F => .F
        | .U => rowCmpLoop op rest true
        | .T => rowCmpLoop op rest unk
      else
        let r := cmp a b
        if r = .incomm then
          if (op = .eq ∨ op = .ne) ∧ ¬ rest.isEmpty then rowCmpLoop op rest true else .U
        else if (op = .gt ∨ op = .lt ∨ op = .ge ∨ op = .le) ∧ (r = .ne ∨ r = .boolEq) then .U
        else
          match op with
          | .eq => if r ≠ .eq ∧ r ≠ .boolEq then .F else rowCmpLoop op rest unk
          | .gt | .ge =>
              if r = .gt then .T else if r = .lt then .F else rowCmpLoop op rest unk
          | .lt | .le =>
              if r = .lt then .T else if r = .gt then .F else rowCmpLoop op rest unk
          | .ne => if r ≠ .eq ∧ r ≠ .boolEq then .T else rowCmpLoop op rest unk
          | .ident => rowCmpLoop op rest unk

/-- value.CompareRowValues; `none` = "row value length does not match" -/
def rowCompare (op : COp) (x y : List Profile) : Option Tern :=
  if x.length ≠ y.length then none else some (rowCmpLoop op (x.zip y) false)

/-! ### query.InRowValueList on single values (ANY / ALL / IN) -/

/-- the loop of InRowValueList for ANY, with its early exit; `acc` = results so far -/
def anyLoop (f : Profile → Tern) : List Profile → List Tern → Tern
  | [], acc => Tern.any acc.reverse
  | p :: ps, acc =>
      let t := f p
      if t = .T then .T else anyLoop f ps (t :: acc)

def allLoop (f : Profile → Tern) : List Profile → List Tern → Tern
  | [], acc => Tern.all acc.reverse
  | p :: ps, acc =>
      let t := f p
      if t = .F then .F else allLoop f ps (t :: acc)

/-- single-value comparison as done through CompareRowValues on 1-element rows -/
def cmp1 (op : COp) (v p : Profile) : Tern := rowCmpLoop op [(v, p)] false

def evalAny (op : COp) (v : Profile) (l : List Profile) : Tern := anyLoop (cmp1 op v) l []
def evalAll (op : COp) (v : Profile) (l : List Profile) : Tern := allLoop (cmp1 op v) l []
def evalIn (neg : Bool) (v : Profile) (l : List Profile) : Tern :=
  if neg then evalAll .ne v l else evalAny .eq v l

/-- eval.go evalComparison on single values (NULL on the left short-circuits) -/
def evalComparison (op : COp) (a b : Profile) : Tern :=
  if a.isNull then .U else compare op a b

/-- eval.go evalBetween on single values -/
def evalBetween (neg : Bool) (v lo hi : Profile) : Tern :=
  if v.isNull then .U   -- returned before negation
  else
    let lowR := opGe v lo
    let t := if lowR = .F then .F else Tern.and lowR (opLe v hi)
    if neg then t.not else t

/-- query.Is + negation -/
def evalIs (neg : Bool) (a b : Profile) : Tern :=
  let t := if b.isNull then Tern.ofBool a.isNull else Tern.eqv a.tern b.tern
  if neg then t.not else t

/-- eval.go evalLogic with its short-circuits -/
def evalAnd (a b : Profile) : Tern :=
  if a.tern = .F then .F else Tern.and a.tern b.tern
def evalOr (a b : Profile) : Tern :=
  if a.tern = .T then .T else Tern.or a.tern b.tern
def evalNot (a : Profile) : Tern := a.tern.not

/-- the test applied to one WHEN condition by evalCaseExpr -/
def caseCond (v : Option Profile) (c : Profile) : Tern :=
  match v with
  | none => c.tern
  | some x => opEq x c

/-- eval.go evalCaseExpr: index of the branch taken (`none` = ELSE / NULL) -/
def caseIdx (v : Option Profile) : List Profile → Nat → Option Nat
  | [], _ => none
  | c :: cs, i => if caseCond v c = .T then some i else caseIdx v cs (i + 1)

/-! ### arithmetic (lib/query/arithmetic.go) -/

inductive AOp | add | sub | mul | div | mod
  deriving DecidableEq, Repr, Inhabited

/-- calculateInteger; `none` = integer divided by zero -/
def calcInt (op : AOp) (x y : Int) : Option Int :=
  match op with
  | .add => some (wrap64 (x + y))
  | .sub => some (wrap64 (x - y))
  | .mul => some (wrap64 (x * y))
  | .div => if y = 0 then none else some (wrap64 (Int.tdiv x y))
  | .mod => if y = 0 then none else some (wrap64 (Int.tmod x y))

/-- The float operations are a parameter of the model (IEEE-754 hardware in the code). -/
structure FloatOps where
  add : FVal → FVal → FVal
  sub : FVal → FVal → FVal
  mul : FVal → FVal → FVal
  div : FVal → FVal → FVal
  mod : FVal → FVal → FVal

def calcFloat (fo : FloatOps) (op : AOp) (x y : FVal) : FVal :=
  match op with
  | .add => fo.add x y
  | .sub => fo.sub x y
  | .mul => fo.mul x y
  | .div => fo.div x y
  | .mod => fo.mod x y

inductive CalcRes | null | int (i : Int) | flt (f : FVal) | divZero
  deriving DecidableEq, Repr, Inhabited

/-- query.Calculate -/
def calculate (fo : FloatOps) (op : AOp) (a b : Profile) : CalcRes :=
  match a.int?, b.int? with
  | some x, some y =>
      match calcInt op x y with
      | some r => .int r
      | none => .divZero
  | _, _ =>
      match a.flt?, b.flt? with
      | some x, some y => .flt (calcFloat fo op x y)
      | _, _ => .null

/-- the float -1 (units of 2^-1074): the factor of unary minus -/
def FVal.minusOne : FVal := .fin (-(2 ^ 1074))

/-- eval.go evalUnaryArithmetic (`neg` = the operator is '-'): the operand through ToIntegerStrictly → an Integer
    (negated as `val * -1` in int64: MinInt64 wraps onto itself), else through ToFloat → a Float (`val * -1` in float
    arithmetic), else NULL.  Unary plus converts like the binary operators do; it is not the identity. -/
def evalUnary (fo : FloatOps) (neg : Bool) (a : Profile) : CalcRes :=
  match a.int? with
  | some i => .int (if neg then wrap64 (i * -1) else i)
  | none =>
    match a.flt? with
    | some f => .flt (if neg then fo.mul f FVal.minusOne else f)
    | none => .null

end Csvq
