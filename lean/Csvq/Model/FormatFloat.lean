/-
  Csvq.Model.FormatFloat — strconv.FormatFloat(x, fmt, -1, 64) for fmt ∈ {'f', 'e', 'g'} on `FVal`
  (value.Float64ToStr, the float payload of the GROUP BY / DISTINCT key, the encoders, STRING(float),
  ENOTATION): "NaN", "+Inf", "-Inf", "0" / "-0", and for a finite non-zero x the SHORTEST decimal
  digit string that reads back as x — among the shortest ones the one closest to x — laid out as
  %f (`fmtF`), %e (`fmtE`: d.ddde±XX) or %g (`fmtG`: %e when the exponent is < -4 or ≥ 6).

  Exact integer arithmetic on n = x·2^1074.  The rounding interval of x is
  [x − gap_below/2, x + gap_above/2] (closed iff the mantissa is even; the lower half-gap is half as
  wide at a power of two); at a decimal exponent e the admissible digit strings D·10^e are the integers
  D with lo ≤ D·10^e ≤ hi; the largest e that admits one is taken, and there the admissible D closest
  to x/10^e (ryuFtoaShortest computes the same thing with 128-bit arithmetic).

  Every candidate text is CHECKED with the model's own strconv.ParseFloat (`PF.parseFloat`) before it
  is returned; a candidate that did not read back as x would be replaced by the exact decimal expansion
  of x (every finite double has one: n·2^-1074 = n·5^1074 / 10^1074), which provably reads back as x
  (Props/C06Fmt.lean).  On binary64 values the replacement never happens (the correspondence stream
  compares every text with strconv's).  `FVal.fin n` also has inhabitants that are no binary64 value
  (more than 53 significant bits, or beyond the largest finite double): Go has no such value; for them
  the text is '+' followed by the exact expansion, which keeps the function injective on the whole type.
-/
import Csvq.Model.ParseFloat
namespace Csvq
namespace FF

def zeros (k : Nat) : Bytes := List.replicate k 48

/-- the decimal digits of a natural number (ASCII), as strconv.FormatInt prints them -/
def decNat (n : Nat) : Bytes := natDigits (n + 1) n []

/-- exactly `w` decimal digits of `v` (leading zeros kept), in front of `acc` -/
def padDigits : Nat → Nat → Bytes → Bytes
  | 0, _, acc => acc
  | w + 1, v, acc => padDigits w (v / 10) ((48 + v % 10) :: acc)

/-- remove trailing decimal zeros: (digits, number of zeros removed) -/
def stripZeros : Nat → Nat → Nat → Nat × Nat
  | 0, d, c => (d, c)
  | f + 1, d, c => if d ≠ 0 ∧ d % 10 = 0 then stripZeros f (d / 10) (c + 1) else (d, c)

/-! ### the shortest digits -/

/-- the rounding interval of the double a·2^-1074 (a > 0), in units of 2^-1076 -/
structure Bounds where
  lo : Nat
  x : Nat
  hi : Nat
  incl : Bool
  deriving Repr, DecidableEq

def bounds (a : Nat) : Bounds :=
  let k := Nat.log2 a + 1 - 53          -- the spacing of the doubles around a is 2^k units
  let ulp := 2 ^ k
  let mant := a / ulp
  -- below a power of two (that is not in the lowest binade) the neighbour is half as far
  let below := if 0 < k ∧ mant = 2 ^ 52 then ulp else 2 * ulp
  { lo := 4 * a - below, x := 4 * a, hi := 4 * a + 2 * ulp, incl := mant % 2 = 0 }

/-- the interval and x divided by 10^E·2^1076: smallest and largest admissible integer, ⌊x/10^E⌋,
    "x/10^E is not an integer", and the fraction compared with 1/2 -/
structure Scaled where
  lo : Nat
  c : Nat
  hi : Nat
  fracPos : Bool
  halfGt : Bool
  halfEq : Bool
  deriving Repr, DecidableEq

def scale (b : Bounds) (E : Int) : Scaled :=
  let m : Nat := if E ≥ 0 then 1 else 10 ^ (-E).toNat
  let den : Nat := if E ≥ 0 then 2 ^ 1076 * 10 ^ E.toNat else 2 ^ 1076
  let nlo := b.lo * m
  let nx := b.x * m
  let nhi := b.hi * m
  let qlo := nlo / den
  let qhi := nhi / den
  let rem := nx % den
  { lo := if nlo % den = 0 ∧ b.incl then qlo else qlo + 1,
    hi := if nhi % den = 0 ∧ !b.incl then qhi - 1 else qhi,
    c := nx / den, fracPos := rem ≠ 0, halfGt := 2 * rem > den, halfEq := 2 * rem = den }

/-- at level j (j more digits dropped): the admissible D closest to x, if there is an admissible one -/
def levelPick (s : Scaled) (j : Nat) : Option Nat :=
  let p := 10 ^ j
  let dlo := (s.lo + p - 1) / p
  let dhi := s.hi / p
  if dlo ≤ dhi then
    let d0 := s.c / p
    let r := s.c % p
    let up : Bool :=
      if j = 0 then s.halfGt || (s.halfEq && d0 % 2 = 1)
      else decide (2 * r > p) || (decide (2 * r = p) && (s.fracPos || d0 % 2 = 1))
    let near := if up then d0 + 1 else d0
    some (if near < dlo then dlo else if dhi < near then dhi else near)
  else none

/-- the highest level at or below j that admits a digit string -/
def search (s : Scaled) : Nat → Option (Nat × Nat)
  | 0 => (levelPick s 0).map fun d => (d, 0)
  | j + 1 => match levelPick s (j + 1) with
    | some d => some (d, j + 1)
    | none => search s j

/-- shortest digits of a·2^-1074: (D, e) with D not ending in 0, the text is D·10^e -/
def shortestDec (a : Nat) : Option (Nat × Int) :=
  let bits : Int := (Nat.log2 a + 1 : Nat)
  -- ⌊log10 2^(bits-1-1074)⌋ + 1 (mulByLog2Log10), so that ⌊x/10^E⌋ has 17 or 18 digits
  let E : Int := (bits - 1 - 1074) * 78913 / 262144 + 1 - 17
  match search (scale (bounds a) E) 18 with
  | some (d, j) =>
    let (d', z) := stripZeros 32 d 0
    some (d', E + (j : Int) + (z : Int))
  | none => none

/-- ryuFtoaShortest: an integer below 2^53 is printed with its own digits -/
def digitsOf (a : Nat) : Option (Nat × Int) :=
  if a % 2 ^ 1074 = 0 ∧ a / 2 ^ 1074 < 2 ^ 53 then
    let (d, z) := stripZeros 32 (a / 2 ^ 1074) 0
    some (d, (z : Int))
  else shortestDec a

/-! ### the layouts (`ds` = the digits, `e` = the decimal exponent of the last digit) -/

def signB (neg : Bool) (t : Bytes) : Bytes := if neg then 45 :: t else t

/-- %f -/
def layF (ds : Bytes) (e : Int) : Bytes :=
  if e ≥ 0 then ds ++ zeros e.toNat
  else
    let dp : Int := (ds.length : Int) + e
    if dp > 0 then ds.take dp.toNat ++ 46 :: ds.drop dp.toNat
    else 48 :: 46 :: (zeros (-dp).toNat ++ ds)

/-- the exponent of %e: at least two digits -/
def expDigits (x : Nat) : Bytes := if x < 10 then [48, 48 + x] else decNat x

/-- %e -/
def layE (ds : Bytes) (e : Int) : Bytes :=
  let x : Int := (ds.length : Int) + e - 1
  let m : Bytes := match ds with
    | [] => [48]
    | [d] => [d]
    | d :: rest => d :: 46 :: rest
  m ++ 101 :: (if x < 0 then 45 else 43) :: expDigits x.natAbs

/-- %g with the shortest digits: %e if the exponent is < -4 or ≥ 6 (eprec = 6), else %f -/
def layG (ds : Bytes) (e : Int) : Bytes :=
  let x : Int := (ds.length : Int) + e - 1
  if x < -4 ∨ x ≥ 6 then layE ds e else layF ds e

/-! ### the exact decimal expansion -/

/-- a·2^-1074 written out: integer part, point, 1074 fractional digits -/
def exactText (a : Nat) : Bytes :=
  decNat (a / 2 ^ 1074) ++ 46 :: padDigits 1074 (a % 2 ^ 1074 * 5 ^ 1074) []

/-- when the shortest candidate is not accepted: the exact expansion if it reads back as the value,
    otherwise (no binary64 value) the exact expansion behind a '+' -/
def fallback (n : Int) : Bytes :=
  let ex := signB (decide (n < 0)) (exactText n.natAbs)
  if PF.parseFloat ex = some (.fin n) then ex else 43 :: ex

/-- a finite non-zero value in the given layout -/
def render (lay : Bytes → Int → Bytes) (n : Int) : Bytes :=
  match digitsOf n.natAbs with
  | some (d, e) =>
    let t := signB (decide (n < 0)) (lay (decNat d) e)
    if PF.parseFloat t = some (.fin n) then t else fallback n
  | none => fallback n

def sNaN : Bytes := [78, 97, 78]
def sPInf : Bytes := [43, 73, 110, 102]
def sNInf : Bytes := [45, 73, 110, 102]

def fmtWith (lay : Bytes → Int → Bytes) (zero : Bytes) : FVal → Bytes
  | .nan => sNaN
  | .pinf => sPInf
  | .ninf => sNInf
  | .negz => 45 :: zero
  | .fin n => if n = 0 then zero else render lay n

/-- strconv.FormatFloat(x, 'f', -1, 64) = value.Float64ToStr(x, false) -/
def fmtF : FVal → Bytes := fmtWith layF [48]

/-- strconv.FormatFloat(x, 'e', -1, 64) -/
def fmtE : FVal → Bytes := fmtWith layE [48, 101, 43, 48, 48]

/-- strconv.FormatFloat(x, 'g', -1, 64) = value.Float64ToStr(x, true) -/
def fmtG : FVal → Bytes := fmtWith layG [48]

/-- STRING(v) for everything but datetimes (query.String: strconv.FormatBool, ternary.Value.String,
    value.ToString = the text itself / Int64ToStr / Float64ToStr(f, false)); `none` = not modelled -/
def castString : Val → Option Val
  | .null => some .null
  | .str s => some (.str s)
  | .int i => some (.str (decText i))
  | .flt f => some (.str (fmtF f))
  | .bool b => some (.str (if b then [116, 114, 117, 101] else [102, 97, 108, 115, 101]))
  | .tern t => some (.str (match t with
      | .T => [84, 82, 85, 69] | .F => [70, 65, 76, 83, 69] | .U => [85, 78, 75, 78, 79, 87, 78]))
  | .dt _ => none

end FF
end Csvq
