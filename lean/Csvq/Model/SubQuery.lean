/-
  Csvq.Model.SubQuery — sub-queries as values and as tables (lib/parser/parser.y: `subquery` as a `value` and as a
  `table_object` of FROM; ast.go: Subquery.String() = putParentheses(Query.String())).  Core Lean only.

  The expression / clause / query parsers of Model/OpExpr, Clause, Query stay as they are.  A query WITH sub-queries
  (`NQ`) is a SKELETON — a `Query` of those models in which the atoms with codes `16 i + 2` stand for the sub-queries, the
  i-th in the order of the text — plus the list of its sub-queries, which are `NQ`s again.
  * `printN` prints the skeleton and writes `( text of the sub-query )` for every such atom (`expand`).
  * `parseN` (indexed by the nesting level it can read) makes ONE pass over the tokens (`fold`): a `(` followed by SELECT
    or WITH, standing where a VALUE or a TABLE may stand (`noFoldCtx` lists where it is the operand of a set operator or
    the body of an inline table instead: at the start, behind UNION / EXCEPT / INTERSECT / ALL, behind AS), is read as a
    query of the level below up to its `)`, and replaced by the atom; the pass ends at the `)` that closes the query it
    is in.  The skeleton tokens are then parsed by `Query.parseWhole`, and the result is rejected when a sub-query atom
    stands where only a NAME may stand (`idQ`: alias, qualifier, USING column, function / cursor / inline-table name).
  `EXISTS ( sub-query )` is one value: the atom `16 i + 10` stands for the keyword, the parentheses and the text.
  The codes are even, so the atom is accepted where an identifier is: as a value, and as a table of FROM with
  or without an alias (`FROM (SELECT …) t`, joins).
  `x [NOT] IN ( sub-query )`: decided at the `(` behind IN; the parentheses stay in the skeleton, the atom `8 i + 6`
  between them stands for the TEXT of the query (so `x IN ((SELECT 1))`, a list of one scalar sub-query, is another tree).
  Not in this model (by correspondence only): ANY / ALL, parenthesised tables, sub-queries whose text starts
  with a parenthesis (`((SELECT 1) UNION (SELECT 2))` as a value), LATERAL, CASE.
-/
import Csvq.Model.Query
namespace Csvq.SubQuery
open Csvq.OpExpr Csvq.Clause Csvq.Query

variable {α : Type} [DecidableEq α]

def isSubCode (k : Nat) : Bool := k % 16 = 2
def subCode (i : Nat) : Nat := 16 * i + 2
/-- the atom of `EXISTS ( sub-query )`: it stands for the keyword, the parentheses and the text -/
def isExCode (k : Nat) : Bool := k % 16 = 10
def exCode (i : Nat) : Nat := 16 * i + 10
/-- the word EXISTS as a token (`Tok.lit`) -/
def existsLit : Nat := 13
/-- the atom of `x [NOT] IN ( sub-query )`: it stands for the TEXT of the query, the parentheses are IN's own -/
def isInCode (k : Nat) : Bool := k % 8 = 6
def inCode (i : Nat) : Nat := 8 * i + 6

/-- the token before the `(` is IN -/
def isInTok (inn : α) : Option (Tok α) → Bool
  | some (.sym t _) => t = inn
  | _ => false

/-- the text of a query that starts with SELECT or WITH -/
def opensQuery : List (Tok α) → Bool
  | .kw .select :: _ => true
  | .kw .with :: _ => true
  | _ => false

/-- positions where `( SELECT` opens an operand of a set operator or the body of an inline table (Model/Query reads them) -/
def noFoldCtx : Option (Tok α) → Bool
  | none => true
  | some (.kw .union) => true
  | some (.kw .except) => true
  | some (.kw .intersect) => true
  | some (.kw .all) => true
  | some (.kw .as) => true
  | _ => false

/-- the skeleton tokens with `( p )` written for the sub-query atoms, the texts `p` taken in order -/
def expand : List (Tok α) → List (List (Tok α)) → List (Tok α)
  | [], _ => []
  | .atom k :: ts, [] => .atom k :: expand ts []
  | .atom k :: ts, p :: ps =>
    if isSubCode k then .lpar :: (p ++ .rpar :: expand ts ps)
    else if isExCode k then .lit existsLit :: .lpar :: (p ++ .rpar :: expand ts ps)
    else if isInCode k then p ++ expand ts ps
    else .atom k :: expand ts (p :: ps)
  | .lpar :: ts, ps => .lpar :: expand ts ps
  | .rpar :: ts, ps => .rpar :: expand ts ps
  | .sym t v :: ts, ps => .sym t v :: expand ts ps
  | .lit w :: ts, ps => .lit w :: expand ts ps
  | .kw k :: ts, ps => .kw k :: expand ts ps

/-- one pass: sub-queries in value / table position are read by `P` and replaced by atoms numbered from `i`; `d` counts
    the open parentheses of the skeleton; the pass ends at the end of the text or at the `)` that closes this query -/
def fold {β : Type} (inn : α) (P : List (Tok α) → Option (β × List (Tok α))) :
    Nat → Option (Tok α) → Nat → Nat → List (Tok α) → Option (List (Tok α) × List β × List (Tok α))
  | 0, _, _, _, _ => none
  | _ + 1, _, _, d, [] => if d = 0 then some ([], [], []) else none
  | n + 1, prev, i, d, t :: ts =>
    match t with
    | .rpar =>
      if d = 0 then some ([], [], t :: ts) else
        match fold inn P n (some t) i (d - 1) ts with
        | some (out, qs, r) => some (t :: out, qs, r)
        | none => none
    | .lpar =>
      if opensQuery ts && !noFoldCtx prev then
        match P ts with
        | some (q, .rpar :: ts') =>
          if isInTok inn prev then
            -- `x IN ( query )`: the parentheses stay, the atom stands for the text between them
            match fold inn P n (some (.atom (inCode i))) (i + 1) (d + 1) (.rpar :: ts') with
            | some (out, qs, r) => some (.lpar :: .atom (inCode i) :: out, q :: qs, r)
            | none => none
          else
          match fold inn P n (some (.atom (subCode i))) (i + 1) d ts' with
          | some (out, qs, r) => some (.atom (subCode i) :: out, q :: qs, r)
          | none => none
        | _ => none
      else
        match fold inn P n (some t) i (d + 1) ts with
        | some (out, qs, r) => some (t :: out, qs, r)
        | none => none
    | .lit w =>
      if w = existsLit then
        -- `EXISTS ( query )`: one value, one atom
        match ts with
        | .lpar :: ts1 =>
          if opensQuery ts1 then
            match P ts1 with
            | some (q, .rpar :: ts') =>
              match fold inn P n (some (.atom (exCode i))) (i + 1) d ts' with
              | some (out, qs, r) => some (.atom (exCode i) :: out, q :: qs, r)
              | none => none
            | _ => none
          else none
        | _ => none
      else
      match fold inn P n (some t) i d ts with
      | some (out, qs, r) => some (t :: out, qs, r)
      | none => none
    | _ =>
      match fold inn P n (some t) i d ts with
      | some (out, qs, r) => some (t :: out, qs, r)
      | none => none

def isAtomTok : Option (Tok α) → Bool
  | some (.atom _) => true
  | some (.kw .dot) => true
  | _ => false

def callOrDot : List (Tok α) → Bool
  | .lpar :: _ => true
  | .kw .dot :: _ => true
  | _ => false

/-- the skeleton tokens `ts` with the sub-query texts `ps`: the sub-query atoms are numbered from `i` in the order of the
    text and are as many as the texts, each stands where a value or a table may stand (not behind an atom, not as the name
    of a call or the qualifier of a column), each text starts with SELECT or WITH; every other `( SELECT` of the skeleton
    is an operand of a set operator or the body of an inline table; parentheses are balanced above depth `d`; the atom of
    an IN sub-query stands alone between the parentheses behind IN (`pin`: the two tokens before are IN and `(`) -/
def nextIsRpar : List (Tok α) → Bool
  | .rpar :: _ => true
  | _ => false

def good (inn : α) : Option (Tok α) → Bool → Nat → Nat → List (Tok α) → List (List (Tok α)) → Bool
  | _, _, _, d, [], ps => d == 0 && ps.isEmpty
  | prev, pin, i, d, t :: ts, ps =>
    match t with
    | .atom k =>
      if isSubCode k then
        match ps with
        | p :: ps' => k == subCode i && !noFoldCtx prev && !isInTok inn prev && !isAtomTok prev && opensQuery p && !callOrDot ts &&
            good inn (some t) false (i + 1) d ts ps'
        | [] => false
      else if isExCode k then
        match ps with
        | p :: ps' => k == exCode i && !isAtomTok prev && opensQuery p && !callOrDot ts && good inn (some t) false (i + 1) d ts ps'
        | [] => false
      else if isInCode k then
        -- only directly inside the parentheses of IN (`pin`), and alone there
        match ps with
        | p :: ps' => pin && k == inCode i && opensQuery p && nextIsRpar ts && good inn (some t) false (i + 1) d ts ps'
        | [] => false
      else good inn (some t) false i d ts ps
    | .lpar => (!opensQuery ts || noFoldCtx prev) && good inn (some t) (isInTok inn prev) i (d + 1) ts ps
    | .rpar => d != 0 && good inn (some t) false i (d - 1) ts ps
    | .lit w => w != existsLit && good inn (some t) false i d ts ps     -- EXISTS is inside its atom
    | _ => good inn (some t) false i d ts ps


/-! ## identifier positions: a sub-query is a value or a table, never a name -/

def notSub (n : Nat) : Bool := !isSubCode n && !isExCode n
def optNotSub : Option Nat → Bool
  | some x => notSub x
  | none => true

mutual
/-- no function name and no cursor name is a sub-query atom -/
def idE : Expr α → Bool
  | .atom _ => true
  | .paren e => idE e
  | .pre _ _ e => idE e
  | .bin l _ _ r => idE l && idE r
  | .post e _ _ _ => idE e
  | .nbin l _ _ r => idE l && idE r
  | .between e _ lo hi => idE e && idE lo && idE hi
  | .inl e _ vs => idE e && idA vs
  | .call f as => notSub f && idA as
  | .cstat c _ _ => notSub c
  | .cattr c => notSub c
def idA : Args α → Bool
  | .nil => true
  | .cons e r => idE e && idA r
end

def idItem : Item α → Bool
  | .star => true
  | .tstar t => notSub t
  | .expr e al => idE e && optNotSub al
/-- a table is a name or a sub-query, not `EXISTS (…)`; its alias is a name -/
def idTab (a : TableAtom) : Bool := !isExCode a.name && optNotSub a.alias
def idCond : JoinCond α → Bool
  | .none => true
  | .on e => idE e
  | .cols cs => cs.all notSub
def idRef (r : TableRef α) : Bool := idTab r.base && r.joins.all (fun j => idTab j.table && idCond j.cond)
def idOpt : Option (Expr α) → Bool
  | some e => idE e
  | none => true
/-- aliases, qualifiers of `t.*`, USING columns, function and cursor names of a SELECT are not sub-query atoms -/
def idSel (s : Select α) : Bool :=
  s.items.all idItem && s.tables.all idRef && idOpt s.where_ && s.groupBy.all idE && idOpt s.having &&
    s.orderBy.all (fun o => idE o.e)

mutual
def idT : SetTree α → Bool
  | .ent s => idSel s
  | .sub q => idQ q
  | .op l _ _ r => idT l && idT r
/-- … and neither are the names and column lists of inline tables -/
def idQ : Query α → Bool
  | .mk w b t _ => idW w && idT b && t.orderBy.all (fun o => idE o.e)
def idW : Withs α → Bool
  | .nil => true
  | .cons _ n cols q rest => notSub n && cols.all notSub && idQ q && idW rest
end

/-! ## queries with sub-queries -/

mutual
inductive NQ (α : Type)
  | mk (skel : Query α) (subs : NQs α)
inductive NQs (α : Type)
  | nil
  | cons (q : NQ α) (rest : NQs α)
end

deriving instance DecidableEq for NQ, NQs
deriving instance Repr for NQ, NQs

def NQs.ofList : List (NQ α) → NQs α
  | [] => .nil
  | q :: qs => .cons q (NQs.ofList qs)

def NQs.toList : NQs α → List (NQ α)
  | .nil => []
  | .cons q r => q :: r.toList

mutual
/-- SelectQuery.String() with Subquery.String() = putParentheses(Query.String()) for the sub-query atoms -/
def printN (tbl : Table α) : NQ α → List (Tok α)
  | .mk skel subs => expand (printQuery tbl skel) (printNs tbl subs)
def printNs (tbl : Table α) : NQs α → List (List (Tok α))
  | .nil => []
  | .cons q r => printN tbl q :: printNs tbl r
end

mutual
/-- nesting depth: 1 for a query without sub-queries -/
def depthN : NQ α → Nat
  | .mk _ subs => depthNs subs + 1
def depthNs : NQs α → Nat
  | .nil => 0
  | .cons q r => max (depthN q) (depthNs r)
end

/-- the parser for queries of nesting depth ≤ the level: level 0 reads nothing, level n + 1 reads a skeleton whose
    sub-queries are read by level n -/
def parseN (tbl : Table α) (lv : SetOp → Nat) : Nat → List (Tok α) → Option (NQ α × List (Tok α))
  | 0, _ => none
  | n + 1, ts =>
    match fold tbl.inn (parseN tbl lv n) (ts.length + 1) none 0 0 ts with
    | some (sk, qs, rest) =>
      match parseWhole tbl lv sk with
      | some skel => if idQ skel then some (.mk skel (NQs.ofList qs), rest) else none
      | none => none
    | none => none

/-- the whole text is one query of nesting depth ≤ `n` -/
def parseNWhole (tbl : Table α) (lv : SetOp → Nat) (n : Nat) (ts : List (Tok α)) : Option (NQ α) :=
  match parseN tbl lv n ts with
  | some (q, []) => some q
  | _ => none

end Csvq.SubQuery
