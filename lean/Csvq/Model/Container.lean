/-
  Csvq.Model.Container — lib/file/container.go as a state machine: which handlers are registered in the
  container's map and which still hold files / control files (have not been closed successfully).
  Handlers and keys are numbers; whether a Handler.close / commit fails is an input.  Core Lean only.
-/
namespace Csvq.Container

structure St where
  reg  : List (Nat × Nat)   -- (key, handler): the map of the container
  live : List Nat           -- handlers whose files / control files are still held
deriving Repr, DecidableEq

def init : St := { reg := [], live := [] }

inductive Op
  | create (key h : Nat) (openOk : Bool)   -- createHandler: does NewHandlerFor… succeed?
  | close (key : Nat) (ok : Bool)          -- Container.Close: does Handler.close succeed?
  | commit (key : Nat) (ok : Bool)         -- Container.Commit
  | closeWE (key : Nat)                    -- Container.CloseWithErrors
  | closeAllWE                             -- Container.CloseAllWithErrors
deriving Repr, DecidableEq

def lookup (s : St) (key : Nat) : Option Nat := (s.reg.find? (·.1 = key)).map (·.2)

/-- the key is unregistered and its handler has given everything back -/
def drop (s : St) (key h : Nat) : St :=
  { reg := s.reg.filter (·.1 ≠ key), live := s.live.filter (· ≠ h) }

def step (s : St) : Op → St
  | .create key h openOk =>
    if !openOk then s                      -- NewHandlerFor… released what it had acquired (`release_isolated`)
    else match lookup s key with
      | some _ => s                        -- Add refuses: the new handler is released on the spot
      | none => { reg := s.reg ++ [(key, h)], live := s.live ++ [h] }
  | .close key ok | .commit key ok =>
    match lookup s key with
    | some h => if ok then drop s key h else s      -- a failing close / commit leaves the handler registered
    | none => s
  | .closeWE key =>
    match lookup s key with
    | some h => drop s key h               -- closeWithErrors releases everything whatever fails (C11.close_with_errors_releases_all)
    | none => s
  | .closeAllWE => { reg := [], live := s.live.filter (fun h => !(s.reg.any (·.2 = h))) }

def run (s : St) (ops : List Op) : St := ops.foldl step s

/-- every handler that still holds something is registered — so the final CloseAllWithErrors reaches it -/
def Inv (s : St) : Prop := ∀ h ∈ s.live, ∃ key, (key, h) ∈ s.reg

end Csvq.Container
