/-
  Csvq.Model.Retry — the WAITING side of the lock protocol of lib/file: one call of
  `CreateControlFileContext` (the retry loop of control_file.go), of `Handler.CreateControlFileContext`
  (which records the control file in the handler) and of `NewHandlerForRead` / `NewHandlerForUpdate`
  (which release the handler on their error returns), seen from the process that makes the call.

  The programs are small typed IRs; the values the theorems are about are REGENERATED from the source by
  `extract/fsproto -retry` (Gen/RetryLoop.lean): the statements of the three `TryCreate…File` functions
  (`TStmt`), of the loop (`RStmt`: attempt / test of the attempt's result / test of the context / select
  between the context and the timer — IN SOURCE ORDER), of the recording method (`HStmt`) and of the
  constructors (`NStmt`).

  The environment is arbitrary: `Env = Nat → Snap` says, for every instant, which control files OTHER processes
  have lying in the directory, whether a create fails for a reason of its own and how long a sleep lasts — any
  schedule of other processes' steps is such a function.  Every step of the calling process takes one instant;
  the context (the `--wait-timeout` deadline or a cancellation by SIGINT/SIGTERM) is over from the instant `T`
  on, any `T`: before the call, between two steps of an attempt, between the attempt and the test that follows.
-/
namespace Csvq.Retry

inductive CF | lock | rlock | temp
  deriving DecidableEq, Repr

/-- the control files created by THIS call that exist -/
structure Mine where
  lock : Bool
  rlock : Bool
  temp : Bool
  deriving DecidableEq, Repr

def Mine.none : Mine := ⟨false, false, false⟩

def Mine.get (m : Mine) : CF → Bool
  | .lock => m.lock
  | .rlock => m.rlock
  | .temp => m.temp

def Mine.set (m : Mine) (f : CF) (b : Bool) : Mine :=
  match f with
  | .lock => { m with lock := b }
  | .rlock => { m with rlock := b }
  | .temp => { m with temp := b }

def Mine.only (f : CF) : Mine := Mine.none.set f true

def Mine.union (a b : Mine) : Mine := ⟨a.lock || b.lock, a.rlock || b.rlock, a.temp || b.temp⟩

def Mine.minus (a b : Mine) : Mine := ⟨a.lock && !b.lock, a.rlock && !b.rlock, a.temp && !b.temp⟩

/-- the rest of the world at one instant -/
structure Snap where
  lock : Bool      -- somebody else's `.lock` file exists
  rlock : Bool     -- somebody else's `.rlock` file exists
  temp : Bool      -- somebody else's `.temp` file exists
  ioFail : Bool    -- a create at this instant fails for a reason of its own
  delay : Nat      -- the timer of a select that begins at this instant fires after `delay` instants (0 = retry delay 0)
  timerWins : Bool -- when the context and the timer become ready at the same instant Go's select picks either: this one
  deriving Repr

def Snap.has (s : Snap) : CF → Bool
  | .lock => s.lock
  | .rlock => s.rlock
  | .temp => s.temp

abbrev Env := Nat → Snap

/-! ### one attempt: TryCreateLockFile / TryCreateRLockFile / TryCreateTempFile -/

inductive TStmt
  /-- `if LockExists(p) || RLockExists(p) { [err = …(err, v.Close())]; return nil, err }` — which of the two are
      looked at, and which control files of this attempt are closed (removed) before the return -/
  | failIfExists (lock rlock : Bool) (closing : List CF)
  /-- `fp, err := file.Create(path); if err != nil { return nil, err }` (`excl` = O_CREAT|O_EXCL) -/
  | create (f : CF) (excl : Bool)
  /-- `defer func() { err = NewCompositeError(err, v.Close()) }()` -/
  | deferClose (f : CF)
  /-- `return <the control file f>, nil` -/
  | returnFile (f : CF)
  deriving DecidableEq, Repr

inductive TRes | ok (f : CF) | soft | hard
  deriving DecidableEq, Repr

structure TOut where
  res : TRes
  mine : Mine
  t : Nat

def closeAll (m : Mine) (ds : List CF) : Mine := ds.foldl (fun m f => m.set f false) m

/-- an attempt started at instant `t` with `m` already created, `ds` the deferred closes -/
def runTry (env : Env) : List TStmt → Nat → Mine → List CF → TOut
  | [], t, m, ds => ⟨.hard, closeAll m ds, t + 1⟩
  | .failIfExists l r cl :: rest, t, m, ds =>
    if (l && ((env t).lock || m.lock)) || (r && ((env t).rlock || m.rlock)) then
      ⟨.soft, closeAll (closeAll m cl) ds, t + 1⟩
    else runTry env rest (t + 1) m ds
  | .create f excl :: rest, t, m, ds =>
    if (excl && ((env t).has f || m.get f)) || (env t).ioFail then ⟨.soft, closeAll m ds, t + 1⟩
    else runTry env rest (t + 1) (m.set f true) ds
  | .deferClose f :: rest, t, m, ds => runTry env rest t m (f :: ds)
  | .returnFile f :: _, t, m, ds => ⟨.ok f, closeAll m ds, t + 1⟩

/-- every way an attempt can end, whatever the environment does -/
def tryPaths : List TStmt → Mine → List CF → List (TRes × Mine)
  | [], m, ds => [(.hard, closeAll m ds)]
  | .failIfExists _ _ cl :: rest, m, ds => (.soft, closeAll (closeAll m cl) ds) :: tryPaths rest m ds
  | .create f _ :: rest, m, ds => (.soft, closeAll m ds) :: tryPaths rest (m.set f true) ds
  | .deferClose f :: rest, m, ds => tryPaths rest m (f :: ds)
  | .returnFile f :: _, m, ds => [(.ok f, closeAll m ds)]

/-! ### the retry loop: CreateControlFileContext -/

inductive Cond
  | ctxDone        -- `ctx.Err() != nil`
  | attemptOk      -- `err == nil`
  | attemptHard    -- `_, ok := err.(*LockError); !ok`
  deriving DecidableEq, Repr

inductive Ret
  | fileNil        -- `return f, nil`
  | nilErr         -- `return nil, <an error>`
  deriving DecidableEq, Repr

inductive RStmt
  | attempt                          -- `f, err := tryCreateControlFile(filePath, fileType)`
  | ifRet (c : Cond) (r : Ret)       -- `if c { …; return r }`
  | selectCtxOrTimer (r : Ret)       -- `select { case <-ctx.Done(): return r; case <-time.After(retryDelay): }`
  deriving DecidableEq, Repr

structure Loop where
  pre : List RStmt      -- statements in front of the `for`
  body : List RStmt     -- body of `for { … }`
  deriving DecidableEq, Repr

structure LSt where
  t : Nat
  mine : Mine
  last : Option TRes
  deriving DecidableEq, Repr

inductive Flow
  | ret (r : Ret) (s : LSt)
  | cont (s : LSt)

def isOk : Option TRes → Bool
  | some (.ok _) => true
  | _ => false

def isHard : Option TRes → Bool
  | some .hard => true
  | _ => false

def evalCond (T : Nat) (s : LSt) : Cond → Bool
  | .ctxDone => decide (T ≤ s.t)
  | .attemptOk => isOk s.last
  | .attemptHard => isHard s.last

/-- `select { case <-ctx.Done(): …; case <-time.After(d): }` begun at instant `t`: the context is ready from
    max T t on, the timer from t + d on.  The earlier one is taken; when both become ready at the same instant
    (d = 0 with the context already over, or T = t + d) the choice is not determined — `timerWins` decides. -/
def selectReturns (T t d : Nat) (timerWins : Bool) : Bool :=
  decide (T ≤ t + d) && !(timerWins && (decide (T = t + d) || decide (d = 0)))

/-- statements in source order; the context is over from instant `T` on -/
def runStmts (env : Env) (T : Nat) (tr : List TStmt) : List RStmt → LSt → Flow
  | [], s => .cont s
  | .attempt :: rest, s =>
    let o := runTry env tr s.t s.mine []
    runStmts env T tr rest ⟨o.t, o.mine, some o.res⟩
  | .ifRet c r :: rest, s =>
    if evalCond T s c then .ret r { s with t := s.t + 1 }
    else runStmts env T tr rest { s with t := s.t + 1 }
  | .selectCtxOrTimer r :: rest, s =>
    if selectReturns T s.t (env s.t).delay (env s.t).timerWins then .ret r { s with t := s.t + 1 }
    else runStmts env T tr rest { s with t := s.t + (env s.t).delay + 1 }

def runLoop (env : Env) (T : Nat) (tr : List TStmt) (body : List RStmt) : Nat → LSt → Option (Ret × LSt)
  | 0, _ => none
  | n + 1, s =>
    match runStmts env T tr body s with
    | .ret r s' => some (r, s')
    | .cont s' => runLoop env T tr body n s'

/-- one call started at instant `t0`, at most `fuel` rounds -/
def run (env : Env) (T : Nat) (tr : List TStmt) (lp : Loop) (fuel t0 : Nat) : Option (Ret × LSt) :=
  match runStmts env T tr lp.pre ⟨t0, .none, none⟩ with
  | .ret r s => some (r, s)
  | .cont s => runLoop env T tr lp.body fuel s

/-- a flow without its instants -/
inductive AFlow
  | ret (r : Ret) (m : Mine) (last : Option TRes)
  | cont (m : Mine) (last : Option TRes)
  deriving DecidableEq, Repr

def Flow.abs : Flow → AFlow
  | .ret r s => .ret r s.mine s.last
  | .cont s => .cont s.mine s.last

/-- every way a statement list can be passed, whatever the environment and the instant `T` -/
def stmtPaths (tr : List TStmt) : List RStmt → Mine → Option TRes → List AFlow
  | [], m, l => [.cont m l]
  | .attempt :: rest, m, _ => (tryPaths tr m []).flatMap (fun p => stmtPaths tr rest p.2 (some p.1))
  | .ifRet .ctxDone r :: rest, m, l => .ret r m l :: stmtPaths tr rest m l
  | .ifRet .attemptOk r :: rest, m, l => if isOk l then [.ret r m l] else stmtPaths tr rest m l
  | .ifRet .attemptHard r :: rest, m, l => if isHard l then [.ret r m l] else stmtPaths tr rest m l
  | .selectCtxOrTimer r :: rest, m, l => .ret r m l :: stmtPaths tr rest m l

def allLast : List (Option TRes) :=
  [none, some .soft, some .hard, some (.ok .lock), some (.ok .rlock), some (.ok .temp)]

/-- every round that goes on (and the statements in front of the loop) leaves nothing of its own behind: the
    loop head is always reached with `mine = none` -/
def contsClean (tr : List TStmt) (lp : Loop) : Bool :=
  let c : AFlow → Bool := fun f => match f with
    | .cont m _ => m == .none
    | .ret _ _ _ => true
  (stmtPaths tr lp.pre .none none).all c && allLast.all (fun l => (stmtPaths tr lp.body .none l).all c)

def retsOf : List AFlow → List (Ret × Mine × Option TRes)
  | [] => []
  | .ret r m l :: rest => (r, m, l) :: retsOf rest
  | .cont _ _ :: rest => retsOf rest

/-- every (return value, own control files left, result of the last attempt) a call can end with -/
def retryOutcomes (tr : List TStmt) (lp : Loop) : List (Ret × Mine × Option TRes) :=
  retsOf (stmtPaths tr lp.pre .none none) ++ allLast.flatMap (fun l => retsOf (stmtPaths tr lp.body .none l))

def hasSelect : List RStmt → Bool
  | [] => false
  | .selectCtxOrTimer _ :: _ => true
  | _ :: rest => hasSelect rest

/-! ### Handler.CreateControlFileContext: the control file is recorded in the handler -/

inductive HStmt
  /-- `switch fileType { case k: if h.<field> != nil { return err } … }` as (file type, field) pairs -/
  | guardHeld (m : List (CF × CF))
  /-- `f, err := CreateControlFileContext(ctx, h.path, fileType, retryDelay)` -/
  | callRetry
  /-- `if err != nil { return err }` -/
  | ifErrReturn
  /-- `switch fileType { case k: h.<field> = f … }` -/
  | record (m : List (CF × CF))
  /-- `return nil` -/
  | returnNil
  deriving DecidableEq, Repr

/-- what the process has (`exist`: control files it created that exist) and what its handler knows (`held`) -/
structure HSt where
  exist : Mine
  held : Mine
  deriving DecidableEq, Repr

def lookupCF (m : List (CF × CF)) (f : CF) : Option CF :=
  match m with
  | [] => none
  | (k, v) :: rest => if k = f then some v else lookupCF rest f

/-- the method for file type `ft`, given how the call of the retry loop inside it ends (`out`);
    result: (returned an error, state); `called` = the retry loop has been called, `err` its error -/
def runHandler (ft : CF) (out : Ret × Mine) : List HStmt → HSt → Bool → Bool → Bool × HSt
  | [], h, _, _ => (false, h)
  | .guardHeld m :: rest, h, called, err =>
    match lookupCF m ft with
    | some fld => if h.held.get fld then (true, h) else runHandler ft out rest h called err
    | none => runHandler ft out rest h called err
  | .callRetry :: rest, h, _, _ =>
    runHandler ft out rest { h with exist := h.exist.union out.2 } true (out.1 == .nilErr)
  | .ifErrReturn :: rest, h, called, err =>
    if err then (true, h) else runHandler ft out rest h called err
  | .record m :: rest, h, called, err =>
    match lookupCF m ft with
    | some fld => runHandler ft out rest { h with held := if called && !err then h.held.set fld true else h.held } called err
    | none => runHandler ft out rest h called err
  | .returnNil :: _, h, _, _ => (false, h)

/-! ### NewHandlerForRead / NewHandlerForUpdate -/

inductive NStmt
  /-- `if !Exists(h.path) { return h, err }` -/
  | existenceReturn
  /-- `if err := h.CreateControlFileContext(tctx, F, retryDelay); err != nil { return h, [closeIsolatedHandler(h,] err[)] }` -/
  | controlFile (f : CF) (release : Bool)
  /-- `fp, err := file.OpenTo…Context(…); if err != nil { return h, [closeIsolatedHandler(h,] err[)] }` -/
  | openData (release : Bool)
  /-- `return h, nil` -/
  | returnOk
  deriving DecidableEq, Repr

/-- closeIsolatedHandler → closeWithErrors: every control file the handler knows is removed -/
def release (h : HSt) : HSt := { exist := h.exist.minus h.held, held := .none }

/-- every way a constructor can end: (returned an error, state), given for every file type the outcomes of the
    retry loop (`outs`) and the recording method (`hprog`) -/
def newPaths (outs : CF → List (Ret × Mine)) (hprog : List HStmt) : List NStmt → HSt → List (Bool × HSt)
  | [], h => [(false, h)]
  | .existenceReturn :: rest, h => (true, h) :: newPaths outs hprog rest h
  | .controlFile f rel :: rest, h =>
    (outs f).flatMap (fun o =>
      let r := runHandler f o hprog h false false
      if r.1 then [(true, if rel then release r.2 else r.2)] else newPaths outs hprog rest r.2)
  | .openData rel :: rest, h => (true, if rel then release h else h) :: newPaths outs hprog rest h
  | .returnOk :: _, h => [(false, h)]

/-- one run of a constructor: `call f` = how the retry loop ends when it is called for file type `f`,
    `missing` = the table does not exist, `openFails` = the data file cannot be opened -/
def runNew (call : CF → Ret × Mine) (missing openFails : Bool) (hprog : List HStmt) : List NStmt → HSt → Bool × HSt
  | [], h => (false, h)
  | .existenceReturn :: rest, h => if missing then (true, h) else runNew call missing openFails hprog rest h
  | .controlFile f rel :: rest, h =>
    let r := runHandler f (call f) hprog h false false
    if r.1 then (true, if rel then release r.2 else r.2) else runNew call missing openFails hprog rest r.2
  | .openData rel :: rest, h =>
    if openFails then (true, if rel then release h else h) else runNew call missing openFails hprog rest h
  | .returnOk :: _, h => (false, h)

/-- the control files a constructor asks for, in order -/
def wanted : List NStmt → Mine
  | [] => .none
  | .controlFile f _ :: rest => (wanted rest).set f true
  | _ :: rest => wanted rest

/-! ### NewHandlerForCreate: no waiting — ONE attempt to take the lock, then the table's file is created -/

inductive CStmt
  /-- `if Exists(h.path) { return h, err }` -/
  | existsReturn
  /-- `if h.<f>File != nil { return nil, err }` -/
  | heldGuard (f : CF)
  /-- `cf, err := TryCreate<F>File(h.path); if err != nil { return h, [closeIsolatedHandler(h,] err[)] }` — one attempt -/
  | tryDirect (f : CF) (release : Bool)
  /-- `h.<f>File = cf` -/
  | recordDirect (f : CF)
  /-- `fp, err := file.Create(h.path); if err != nil { return h, [closeIsolatedHandler(h,] err[)] }` (O_EXCL) -/
  | createData (release : Bool)
  /-- `h.created = true` -/
  | markCreated
  /-- `return h, nil` -/
  | returnOk
  deriving DecidableEq, Repr

structure CSt where
  exist : Mine            -- control files of this process that exist
  held : Mine             -- … that the handler knows
  created : Bool          -- Handler.created
  madeData : Bool         -- the table's file exists and THIS call created it
  removedForeign : Bool   -- this call has removed a table file that somebody else created
  deriving DecidableEq, Repr

def CSt.init : CSt := ⟨.none, .none, false, false, false⟩

/-- closeIsolatedHandler → closeWithErrors of a ForCreate handler: `if h.created && Exists(h.path) { os.Remove(h.path) }`,
    then every control file the handler knows; `foreign` = a table file of somebody else is there -/
def releaseC (foreign : Bool) (s : CSt) : CSt :=
  { exist := s.exist.minus s.held, held := .none, created := s.created,
    madeData := if s.created then false else s.madeData,
    removedForeign := s.removedForeign || (s.created && !s.madeData && foreign) }

/-- one call: `atCheck` / `atCreate` = somebody else's table file is there at the existence check / at the create,
    `tryOut` = how the one attempt ends, `ioFail` = the create fails for a reason of its own.
    `last` = the control file the attempt returned.  Result: (returned an error, state) -/
def runCreate (atCheck atCreate ioFail : Bool) (tryOut : TRes × Mine) : List CStmt → CSt → Option CF → Bool × CSt
  | [], s, _ => (false, s)
  | .existsReturn :: rest, s, l => if atCheck then (true, s) else runCreate atCheck atCreate ioFail tryOut rest s l
  | .heldGuard f :: rest, s, l => if s.held.get f then (true, s) else runCreate atCheck atCreate ioFail tryOut rest s l
  | .tryDirect _ rel :: rest, s, _ =>
    let s1 := { s with exist := s.exist.union tryOut.2 }
    match tryOut.1 with
    | .ok g => runCreate atCheck atCreate ioFail tryOut rest s1 (some g)
    | _ => (true, if rel then releaseC atCreate s1 else s1)
  | .recordDirect f :: rest, s, l =>
    runCreate atCheck atCreate ioFail tryOut rest { s with held := if l = some f then s.held.set f true else s.held } l
  | .createData rel :: rest, s, l =>
    if atCreate || ioFail then (true, if rel then releaseC atCreate s else s)
    else runCreate atCheck atCreate ioFail tryOut rest { s with madeData := true } l
  | .markCreated :: rest, s, l => runCreate atCheck atCreate ioFail tryOut rest { s with created := true } l
  | .returnOk :: _, s, _ => (false, s)

end Csvq.Retry
