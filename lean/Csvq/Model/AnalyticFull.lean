/-
  Csvq.Model.AnalyticFull — the parts of analytic evaluation around `Model/Analytic.lean`:

    1. Analyze end to end (view.go evalAnalyticFunction + analytic_function.go Analyze): rows → ORDER BY of
       the clause (C07's reference `sortBy` / `rowsLess`) → partition key of every record (C04's `norm`) →
       partitions in order of first appearance → the function on every partition → values written back to
       the records;
    2. LISTAGG / JSON_AGG, analytic (AnalyticListAgg / AnalyticJsonAgg) and grouped with WITHIN GROUP
       (eval.go evalListFunction): ordering, DISTINCT (utils.go Distinguish = first value of every C04 key),
       NULL skipping, separator;
    3. the aggregates used as analytic functions (aggregate_function.go): COUNT, SUM, AVG, MIN, MAX, MEDIAN
       over the list of cells handed to them (the frame's cells, in frame order), with DISTINCT;
    4. perseCumulativeGroups as "maximal runs" (specification side; the loop itself is `cumGroups`).

  STDEV / STDEVP / VAR / VARP (math.Pow(x, 2), math.Sqrt) are C04's exact binary64 model (Model/Aggregate.lean);
  as analytic functions they live in Model/AnalyticFlags.lean (`varOver`, `stdevOver`, `builtinAgg`) together with
  the session flags (--strict-equal: DISTINCT, partition keys and peers by identical instead of loosely equal values).
-/
import Csvq.Model.Analytic
import Csvq.Model.Keys
import Csvq.Model.Sort
namespace Csvq.Analytic
open Csvq

/-! ## 1. Analyze end to end -/

/-- a record as the analytic clause sees it -/
structure ARow where
  id : Nat
  part : List Profile     -- the PARTITION BY values
  sort : List SortVal     -- the ORDER BY values (NewSortValue of each item)
  arg : Profile           -- the function's first argument
  deriving Repr

/-- `view.OrderBy(clause's ORDER BY)`: the reference sort of C07 (every sorted permutation carries the same
    key sequence: Csvq.C07.sorted_perm_keys_unique); without ORDER BY the view stays as it is -/
def sortView (its : List OrdItem) (hasOrder : Bool) (rows : List ARow) : List ARow :=
  if hasOrder then sortBy (fun a b => rowsLess its a.sort b.sort) rows else rows

/-- the partition key of a record: the normalised PARTITION BY values (C04; `SortValues.Serialize` writes
    these, and the serialisation is injective: Csvq.C04.serKeys_inj) -/
def keyOfRow (r : ARow) : List NKey := r.part.map norm

/-- the cell of the function's argument on record `i` of the view -/
def cellsOf (view : List ARow) (i : Nat) : Val := (view[i]?.map fun r => r.arg.raw).getD .null

/-- `sortValuesInEachRecord[i].EquivalentTo(sortValuesInEachRecord[j])`; nil without ORDER BY -/
def peersOf (hasOrder : Bool) (view : List ARow) (i j : Nat) : Bool :=
  hasOrder && rowsEquiv ((view[i]?.map ARow.sort).getD []) ((view[j]?.map ARow.sort).getD [])

/-- evalAnalyticFunction + Analyze: every record of the (ordered) view paired with the value its partition's
    `Execute` returned for it -/
def analyzeFull {β : Type} (its : List OrdItem) (hasOrder : Bool)
    (exec : List ARow → List Nat → List (Nat × β)) (rows : List ARow) : List (ARow × Option β) :=
  (sortView its hasOrder rows).zip
    (analyze (exec (sortView its hasOrder rows)) ((sortView its hasOrder rows).map keyOfRow))

/-- the same with the partition keys computed by several workers over record ranges and the partitions
    executed by several workers over ranges of the partition list -/
def analyzeFullWith {β : Type} (its : List OrdItem) (hasOrder : Bool)
    (cutRecords : List ARow → List (List ARow))
    (split : List (List NKey × List Nat) → List (List (List NKey × List Nat)))
    (exec : List ARow → List Nat → List (Nat × β)) (rows : List ARow) : List (ARow × Option β) :=
  (sortView its hasOrder rows).zip
    (analyzeWith split (exec (sortView its hasOrder rows))
      ((cutRecords (sortView its hasOrder rows)).map (List.map keyOfRow)).flatten)

/-! ## 2. LISTAGG / JSON_AGG -/

section distinct
variable {κ : Type} [DecidableEq κ]

/-- utils.go Distinguish: the first value of every comparison key, in order of first appearance -/
def distinguish (key : Val → κ) (vals : List Val) : List Val :=
  (keepFirst (vals.map fun v => (key v, v))).map Prod.snd

end distinct

/-- ListAgg: values that have no string form (NULL) are skipped; no value at all gives NULL -/
def listAgg (toStr : Val → Option Bytes) (sep : Bytes) (vals : List Val) : Option Bytes :=
  match vals.filterMap toStr with
  | [] => none
  | s :: ss => some (ss.foldl (fun acc t => acc ++ sep ++ t) s)

/-- JsonAgg: the array of all values, NULLs included; an empty list gives NULL -/
def jsonAgg {J : Type} (enc : List Val → J) (vals : List Val) : Option J :=
  match vals with
  | [] => none
  | _ => some (enc vals)

/-- AnalyticListAgg / AnalyticJsonAgg: every record of the partition receives the aggregate of the
    partition's cells in partition order, after DISTINCT -/
def listAggAnalytic {κ : Type} [DecidableEq κ] {β : Type} (cells : Nat → Val) (key : Val → κ) (distinct : Bool)
    (agg : List Val → β) (p : List Nat) : List (Nat × β) :=
  listAggOver cells (fun vs => agg (if distinct then distinguish key vs else vs)) p

/-- grouped LISTAGG / JSON_AGG (evalListFunction): the group's records are ordered by WITHIN GROUP (ORDER BY …)
    if present, the argument is evaluated on every record, DISTINCT keeps the first of every key -/
def listAggGrouped {κ : Type} [DecidableEq κ] {β : Type} (its : List OrdItem) (hasOrder : Bool) (key : Val → κ)
    (distinct : Bool) (agg : List Val → β) (group : List ARow) : β :=
  let vals := (sortView its hasOrder group).map fun r => r.arg.raw
  agg (if distinct then distinguish key vals else vals)

/-! ## 3. the aggregates over the cells handed to them -/

/-- floatList: the cells that convert to a float, in order -/
def floatList (cells : List Profile) : List FVal := cells.filterMap fun p => p.flt?

/-- `sum`: `var sum float64; for _, v := range list { sum += v }` — a LEFT fold in list order (float addition
    is not associative: the order is part of the definition) -/
def sumF (l : List FVal) : FVal := l.foldl FVal.add (.fin 0)

def aggCount (cells : List Profile) : Val := .int ((cells.filter fun p => !p.isNull).length)

def aggSum (cells : List Profile) : Val :=
  match floatList cells with
  | [] => .null
  | l => .flt (sumF l)

/-- `average`: 0 if the sum is (±)0, else sum / n -/
def averageF (l : List FVal) : FVal :=
  if FVal.feq (sumF l) (.fin 0) then .fin 0 else FVal.div (sumF l) (FVal.ofInt l.length)

def aggAvg (cells : List Profile) : Val :=
  match floatList cells with
  | [] => .null
  | l => .flt (averageF l)

/-- Min / Max: NULLs skipped; the first non-NULL value, replaced by a later one that is Less / Greater (TRUE) -/
def aggExtreme (better : Profile → Profile → Tern) : List Profile → Option Profile → Option Profile
  | [], acc => acc
  | p :: ps, acc =>
    if p.isNull then aggExtreme better ps acc
    else match acc with
      | none => aggExtreme better ps (some p)
      | some r => if better p r = .T then aggExtreme better ps (some p) else aggExtreme better ps (some r)

def aggMin (cells : List Profile) : Val := ((aggExtreme opLt cells none).map Profile.raw).getD .null
def aggMax (cells : List Profile) : Val := ((aggExtreme opGt cells none).map Profile.raw).getD .null

/-- ascending insertion sort of floats by IEEE `<` (sort.Float64s; no NaN among the cells of the domain) -/
def sortFloats (l : List FVal) : List FVal := sortBy (fun a b => FVal.flt a b) l

/-- Median: the middle value of the sorted floats, or the mean of the two middle ones -/
def medianF (l : List FVal) : Option FVal :=
  let s := sortFloats l
  if s.length = 0 then none
  else if s.length % 2 = 1 then s[(s.length + 1) / 2 - 1]?
  else match s[s.length / 2 - 1]?, s[s.length / 2]? with
    | some a, some b => some (FVal.div (FVal.add a b) (FVal.ofInt 2))
    | _, _ => none

def aggMedian (cells : List Profile) : Val :=
  match medianF (floatList cells) with
  | none => .null
  | some f => .flt f

/-- DISTINCT for an aggregate: the first cell of every comparison key (C04's `norm`) -/
def distinctProfiles (cells : List Profile) : List Profile :=
  (keepFirst (cells.map fun p => (norm p, p))).map Prod.snd

/-- an aggregate over profiles used as analytic function (the code that exists: every frame, inverted
    ones included, is the list of its records' cells) -/
def aggOverP {β : Type} (prof : Nat → Profile) (A : List Profile → β) (w : Window) (p : List Nat) : List (Nat × β) :=
  (windowFrameSet p w).flatMap fun f =>
    f.records.map fun idx => (idx, A ((frameRecords p f.low f.high).map prof))

/-! ## 4. perseCumulativeGroups: maximal runs -/

/-- a group: a head and records that are all EquivalentTo the head -/
def GroupOK (eqv : Nat → Nat → Bool) (g : List Nat) : Prop :=
  ∃ h run, g = h :: run ∧ ∀ y ∈ run, eqv y h = true

/-- consecutive groups: the head of the next one is NOT EquivalentTo the head of this one (the run is maximal) -/
def RunsOK (eqv : Nat → Nat → Bool) : List (List Nat) → Prop
  | [] => True
  | [g] => GroupOK eqv g
  | g :: g' :: rest =>
    GroupOK eqv g ∧ (∃ h h', g.head? = some h ∧ g'.head? = some h' ∧ eqv h' h = false) ∧ RunsOK eqv (g' :: rest)

/-- no record of a later group is a peer of a record of an earlier group -/
def SeparateOK (eqv : Nat → Nat → Bool) : List (List Nat) → Prop
  | [] => True
  | g :: rest => (∀ y ∈ g, ∀ j ∈ rest.flatten, eqv j y = false) ∧ SeparateOK eqv rest

end Csvq.Analytic
