/-
  Csvq.Model.RelNames — which column a written reference denotes, across the scopes of nested queries, in the shape
  of lib/query/eval.go `evalFieldReference`:

      for i := range scope.Records {                       -- the record of this query first, then the enclosing ones
          idx, err := scope.Records[i].view.Header.SearchIndex(expr)      -- FieldIndex (names) / FieldNumberIndex (t.2)
          if err == nil { p = …RecordSet[recordIndex][idx][0]; break }
          else if err == errFieldAmbiguous { return nil, NewFieldAmbiguousError(expr) }
      }                                                    -- (not found in this scope: the next one)
      if p == nil { return nil, NewFieldNotExistError(expr) }

  and of view.go `View.Fix` / header.go `NewHeader` for the column NUMBERS a header carries (1-based position in its
  table; a derived table / CTE / set-operator result is renumbered by `Fix`; the merged column of a USING / NATURAL
  join has none).  Core Lean only.
-/
import Csvq.Model.Rel
namespace Csvq.Rel
open Csvq

/-- what one round of the loop over `scope.Records` does -/
inductive WalkR
  | found (i : Nat)        -- `err == nil`: the cell, `break`
  | fail (e : ResErr)      -- `return nil, err`
  | next                   -- go on with the enclosing query's record
  deriving Repr, DecidableEq

/-- the tests of the loop body on the outcome of `SearchIndex` -/
def walkStep : Except ResErr Nat → WalkR
  | .ok i => .found i
  | .error .ambiguous => .fail .ambiguous
  | .error _ => .next

/-- the loop, with the body's tests and the error after the loop as parameters (`scopes`: header and record of
    every query from the innermost outwards) -/
def walkBy (step : Except ResErr Nat → WalkR) (atEnd : ResErr) (ref : FieldRef) :
    List (List HField × Row) → Except ResErr Profile
  | [] => .error atEnd
  | (h, r) :: rest =>
    match step (searchIndex h ref) with
    | .found i => .ok ((r[i]?).getD nullP)
    | .fail e => .error e
    | .next => walkBy step atEnd ref rest

/-- `evalFieldReference` -/
def resolveRef (ref : FieldRef) (scopes : List (List HField × Row)) : Except ResErr Profile :=
  walkBy walkStep .notExist ref scopes

/-- the reference an unresolved expression stands for -/
def refOfExpr : Expr → Option FieldRef
  | .ref v n => some (.byName v n)
  | .num v k => some (.byNumber v k)
  | _ => none

/-- resolution of an expression inside a query with header `h` whose enclosing records are `outer`: the own header
    gives a column, an enclosing record its cell, a failure the error (raised where the expression is evaluated) -/
def resolveExprN (h : List HField) (outer : List (List HField × Row)) : Expr → Expr
  | .num v k =>
    match fieldNumberIndex h v k with
    | .ok i => .col 0 i
    | .error _ =>
      (match resolveRef (.byNumber v k) outer with
      | .ok p => .lit p
      | .error e => .bad e)
  | e => resolveExprEnv h outer e

def resolveCondN (h : List HField) (outer : List (List HField × Row)) : CondE → CondE
  | .cmp op a b => .cmp op (resolveExprN h outer a) (resolveExprN h outer b)
  | .and a b => .and (resolveCondN h outer a) (resolveCondN h outer b)
  | .or a b => .or (resolveCondN h outer a) (resolveCondN h outer b)
  | .not a => .not (resolveCondN h outer a)
  | .isNull neg a => .isNull neg (resolveExprN h outer a)
  | .between neg a lo hi => .between neg (resolveExprN h outer a) (resolveExprN h outer lo) (resolveExprN h outer hi)
  | .inList neg a l => .inList neg (resolveExprN h outer a) l
  | .truth a => .truth (resolveExprN h outer a)
  | .like neg a p => .like neg (resolveExprN h outer a) (resolveExprN h outer p)
  | .exists s => .exists s
  | .inSub neg a s => .inSub neg (resolveExprN h outer a) s
  | .anySub op a s => .anySub op (resolveExprN h outer a) s
  | .allSub op a s => .allSub op (resolveExprN h outer a) s

/-! ## column numbers of a header -/

/-- `NewHeader` for a table / `View.Fix` for a query result: column i is number i + 1 and a table column -/
def numberHdr (h : List HField) : List HField :=
  h.zipIdx.map (fun (fi : HField × Nat) => { fi.1 with number := fi.2 + 1, fromTable := true })

/-! ## the specification: which scope answers

  The reference denotes the cell of the innermost scope whose header knows it — there it must be known exactly
  once (or be the merged column of that query's USING / NATURAL join); an innermost knowing scope that knows it
  twice is the error "ambiguous", no knowing scope at all the error "does not exist". -/

/-- this scope does not know the reference (and is not ambiguous about it) -/
def scopeSilent (ref : FieldRef) (s : List HField × Row) : Prop :=
  ∀ i, searchIndex s.1 ref ≠ .ok i ∧ searchIndex s.1 ref ≠ .error .ambiguous

end Csvq.Rel
