/-
  Csvq.Model.CopySites — which levels of a view the data-changing functions WRITE (from the regenerated DML skeletons,
  extract/dmlfacts, and from the typed write sites of extract/copyfacts), and the facts of the regenerated copy functions
  that make such a level shared.  Used by the theorems of Props/C08 (`copies_independent_at_written_levels`) and by the
  model driver (op `c08.copysites`: the check prints the offending sites when the theorem no longer holds).
  Core Lean only.
-/
import Csvq.Model.CopyDepth
import Csvq.Gen.CopyFacts
import Csvq.Gen.DmlFacts
namespace Csvq.CopySites
open Csvq.CopyDepth

def hasPrefix (p t : String) : Bool := p.toList.isPrefixOf t.toList

/-- the level a write effect of the DML skeletons (extract/dmlfacts) changes -/
def levelOfWrite (t : String) : Option Level :=
  if hasPrefix "write_cell(" t then some .recordArray
  else if hasPrefix "write_into_shared_cell(" t then some .cellArray
  else if hasPrefix "write_header(" t then some .headerArray
  else if hasPrefix "set_records(" t || hasPrefix "set_header(" t ||
      hasPrefix "set_select_fields(" t || hasPrefix "set_fileinfo(" t then some .viewStruct
  else if hasPrefix "write_fileinfo_field(" t then some .fileInfo
  else none

/-- the regenerated skeletons of the nine data-changing functions, one after the other -/
def allDmlEffects : List String :=
  Csvq.Gen.fxInsert ++ Csvq.Gen.fxUpdate ++ Csvq.Gen.fxReplace ++ Csvq.Gen.fxDelete ++ Csvq.Gen.fxCreateTable ++
    Csvq.Gen.fxAddColumns ++ Csvq.Gen.fxDropColumns ++ Csvq.Gen.fxRenameColumn ++ Csvq.Gen.fxSetTableAttribute

/-- the levels written by the effects of a skeleton -/
def writtenLevels (fx : List String) : List Level := fx.filterMap levelOfWrite

/-- the levels written by the assignments that extract/copyfacts found BY TYPE in the nine functions and in the methods of
    View / Header / RecordSet / Record they call -/
def typedWrittenLevels (ws : List Write) : List (Option Level) :=
  ws.map fun w => Level.ofString w.level

/-- what makes a written level shared: for every write of the regenerated skeletons and every typed write, the problems of
    its level in the regenerated copy facts (with the write that needs the level) — `[]` when every written level is the
    copy's own.  Writes into the FileInfo are left out here: the FileInfo IS shared by design (`gen_copy_depth_reviewed`)
    and is the subject of `gen_attribute_writes_after_success`. -/
def sharedWrittenSites (fs : List Fact) (fx : List String) (ws : List Write) : List String :=
  (fx.flatMap fun t =>
    match levelOfWrite t with
    | none => []
    | some .fileInfo => []
    | some l => (levelProblems fs accessor l).map fun p => t ++ " needs its own " ++ l.name ++ ", but " ++ p) ++
  (ws.flatMap fun w =>
    match Level.ofString w.level with
    | none => [w.fn ++ " at " ++ w.site ++ ": write of unknown level " ++ w.level]
    | some .fileInfo => []
    | some l => (levelProblems fs accessor l).map fun p =>
        w.fn ++ " at " ++ w.site ++ " writes " ++ w.target ++ " and needs its own " ++ l.name ++ ", but " ++ p)


/-- the REVIEWED depth: the levels of a working copy that are its own (the others — the arrays behind the cells, the value
    objects, the FileInfo — are shared with the cached table by design) -/
def reviewedFresh : List Level := [.viewStruct, .headerArray, .aliasArray, .recordSetArray, .recordArray]

/-- the levels that should be the copy's own and are not, with the facts that share them -/
def depthProblems (fs : List Fact) : List String :=
  reviewedFresh.flatMap fun l => (levelProblems fs accessor l).map fun p => "the " ++ l.name ++ " of a working copy: " ++ p

/-- A FileInfo COPY installed on a stored view is the defect shape of C05-m18 / C02-m13: Transaction.UncommittedViews keeps
    the FileInfo that the FIRST change of the transaction registered and COMMIT encodes with that one, so whatever a later
    statement changes on its private copy (delimiter positions, format, encoding …) is lost at COMMIT.  Offending: a struct
    copy of a FileInfo inside a data-changing function (or a view method it calls), and an assignment that gives a view
    another FileInfo anywhere but in CreateTable (whose table is new: nothing is registered yet). -/
def fileInfoProblems (copies installs : List Write) : List String :=
  ((copies.filter fun w => w.level == "dml").map fun w =>
    w.fn ++ " at " ++ w.site ++ ": struct copy " ++ w.target ++ " of a FileInfo inside a data-changing function") ++
  ((installs.filter fun w => w.fn != "CreateTable").map fun w =>
    w.fn ++ " at " ++ w.site ++ ": " ++ w.target ++ " is given another FileInfo than the one the transaction has registered")

def currentFileInfo : List String := fileInfoProblems Csvq.Gen.fileInfoCopies Csvq.Gen.fileInfoInstalls

/-- the offending sites of the CURRENT source tree (`[]` = every written level is the copy's own) -/
def current : List String := sharedWrittenSites Csvq.Gen.copyFacts allDmlEffects Csvq.Gen.dmlWrites

/-- the levels of the CURRENT source tree that are no longer the copy's own although the reviewed depth says so -/
def currentDepth : List String := depthProblems Csvq.Gen.copyFacts

end Csvq.CopySites
