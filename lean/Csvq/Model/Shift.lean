/-
  Csvq.Model.Shift — the in-place move at the end of View.Offset (lib/query/view.go):
      newSet := view.RecordSet[view.offset:]
      view.RecordSet = view.RecordSet[:len(newSet)]
      for i := range newSet { view.RecordSet[i] = newSet[i] }
  `newSet` is a window into the SAME backing array, so the loop is `a[i] := a[i + off]` for i = 0 … len - off - 1.
  A schedule is the order in which the writes happen: one worker runs them in ascending order; several workers,
  each with a contiguous chunk of the index range, produce some interleaving of their chunks.
-/
namespace Csvq.Shift

/-- one write of the loop: `a[i] := a[i + off]` (nothing happens outside the array) -/
def step {α : Type} (off : Nat) (a : List α) (i : Nat) : List α :=
  match a[i + off]? with
  | some x => a.set i x
  | none => a

/-- the writes in the given order -/
def run {α : Type} (off : Nat) (a : List α) (sched : List Nat) : List α := sched.foldl (step off) a

/-- what View.Offset leaves in the record set after the writes of `sched`: the first `len - off` slots -/
def result {α : Type} (off : Nat) (a : List α) (sched : List Nat) : List α := (run off a sched).take (a.length - off)

/-- the schedule of ONE worker: ascending -/
def sequential {α : Type} (off : Nat) (a : List α) : List Nat := List.range (a.length - off)

/-- every way of taking `i` off the head of one of the chunks -/
def popHeads (i : Nat) : List (List Nat) → List (List (List Nat))
  | [] => []
  | [] :: cs => (popHeads i cs).map ([] :: ·)
  | (j :: c) :: cs => (if j = i then [c :: cs] else []) ++ (popHeads i cs).map ((j :: c) :: ·)

/-- `sched` is an interleaving of the workers' chunks: every chunk is run in its own order, the chunks are merged
    in any way -/
def interleaves : List Nat → List (List Nat) → Bool
  | [], chunks => chunks.all List.isEmpty
  | i :: rest, chunks => (popHeads i chunks).any (interleaves rest)

end Csvq.Shift
