/-
  Csvq.Model.CopyDepth — to which DEPTH a copy is independent of the original (heap-free).

  C08 ("a failing statement changes nothing"), C13 and C14 rest on "the statement works on a COPY of the cached
  view".  What a copy shares with its original is decided level by level:

      *View ─► View struct ─┬─ Header    ─► array of HeaderField ─► (per field) Aliases ─► array of string
                            ├─ RecordSet ─► array of Record ─► array of Cell ─► array of value.Primary ─► value object
                            └─ FileInfo  ─► FileInfo struct

  An arrow is a pointer or a slice header; the thing it points to is a LEVEL.  A write `v.RecordSet[i][j] = cell`
  changes the array of Cell of record i: harmless iff that array is the copy's own.  A write `v.RecordSet[i][j][0] = x`
  changes the array of value.Primary, which every copy shares with the cached table (seeds C05-m1 / C08-m1).

  The FACTS about the Go code (extract/copyfacts → Gen/CopyFacts.lean) say, for every copy function and every level
  (`path`) of its result, how the value at that level is obtained: `fresh`, `same` as an expression of the original,
  the result of another copy function (`call`), `nil`, a `scalar`; for the elements of a fresh slice every statement
  that fills them, with `whole` = it runs over 0..len of the source.  `problemsAt` follows these facts from an
  accessor (`ViewMap.Get`) down to a level and returns the facts that make the level SHARED — the empty list means
  that the object at this level belongs to the copy alone.
-/
namespace Csvq.CopyDepth

inductive How
  /-- a new object: `make(..)`, a composite literal, `&T{..}` -/
  | fresh (what : String)
  /-- the value of an expression of the original: the same pointer / the same slice header / the same struct value -/
  | same (src : String)
  /-- the result of another described function (recursively Copy()-ed) -/
  | call (fn : String)
  /-- an expression the translation has no rule for: never taken as fresh -/
  | other (text : String)
  | nil
  /-- a value without pointers (number, string, boolean): nothing to share -/
  | scalar
  deriving DecidableEq, Repr, Inhabited

structure Fact where
  /-- the function: `RecordSet.Copy` -/
  fn : String
  /-- the source file of the statement -/
  file : String
  /-- file:line of the statement (in the reviewed list Ref/CopyFacts: the file only) -/
  site : String
  /-- which return statement of the function (1, 2, …) -/
  ret : Nat
  /-- the condition the return stands under (text) -/
  cond : String
  /-- the level below the returned value: `[]` the value itself, `".F"` a field, `"[*]"` the elements -/
  path : List String
  how : How
  /-- for element levels: `loop`, `builtin_copy`, `goroutine_loop`, `task_loop`, `index`, `literal` -/
  via : String
  /-- the statement fills the elements 0..len of the source, and the destination was made with that length -/
  whole : Bool
  bounds : String
  /-- "" = always; "src_nonnil" = exactly when the original's value at this level is not nil (it stays nil otherwise) -/
  guard : String
  deriving DecidableEq, Repr, Inhabited

def guardOk (g : String) : Bool := g == "" || g == "src_nonnil"

def isElemLevel (path : List String) : Bool := path.getLast? == some "[*]"

def factsAt (fs : List Fact) (fn : String) (ret : Nat) (path : List String) : List Fact :=
  fs.filter fun f => f.fn == fn && f.ret == ret && f.path == path

def addNat (l : List Nat) (n : Nat) : List Nat := if l.contains n then l else l ++ [n]

/-- the return statements of a function -/
def returnsOf (fs : List Fact) (fn : String) : List Nat :=
  (fs.filter fun f => f.fn == fn && f.path.isEmpty).foldl (fun acc f => addNat acc f.ret) []

def howText : How → String
  | .fresh w => "fresh " ++ w
  | .same s => "the SAME value as " ++ s ++ " of the original"
  | .call g => "the result of " ++ g
  | .other t => "not understood: " ++ t
  | .nil => "nil"
  | .scalar => "scalar"

def pathText (p : List String) : String := if p.isEmpty then "(the result itself)" else String.join p

def describe (f : Fact) : String :=
  f.fn ++ " at " ++ f.site ++ ": level " ++ pathText f.path ++ " is " ++ howText f.how ++
    (if f.via == "" then "" else " [" ++ f.via ++ " " ++ f.bounds ++ "]") ++
    (if f.guard == "" then "" else " if " ++ f.guard)

/-- the facts `F` found at the prefix `pre` of the wanted level decide: what lies below (`rest`) is the copy's own iff
    every value at `pre` is fresh / nil / a scalar, or the result of a copy function that is fresh at `rest`; an element
    level additionally needs a statement that fills the whole length -/
def verdict (callee : String → List String → List String) (fn : String) (F : List Fact) (pre rest : List String) : List String :=
  let cover :=
    if isElemLevel pre && !(F.any fun f => f.whole && guardOk f.guard) then
      [fn ++ ": no statement fills level " ++ pathText pre ++ " over the whole length (" ++
        String.intercalate "; " (F.map fun f => f.site ++ " " ++ f.via ++ " " ++ f.bounds) ++ ")"]
    else []
  cover ++ F.flatMap fun f =>
    if !guardOk f.guard then [describe f ++ " — only under this condition"]
    else match f.how with
      | .fresh _ => []
      | .nil => []
      | .scalar => []
      | .call g => callee g rest
      | .same _ => [describe f]
      | .other _ => [describe f]

/-- one return of `fn`: the facts at the longest prefix (of length ≤ n) of `path` that has any -/
def judge (callee : String → List String → List String) (fs : List Fact) (fn : String) (k : Nat) (path : List String) :
    Nat → List String
  | 0 =>
    let F := factsAt fs fn k []
    if F.isEmpty then [fn ++ ": return " ++ toString k ++ " is not described"] else verdict callee fn F [] path
  | m + 1 =>
    let F := factsAt fs fn k (path.take (m + 1))
    if F.isEmpty then judge callee fs fn k path m else verdict callee fn F (path.take (m + 1)) (path.drop (m + 1))

/-- the facts that make the object at `path` below the value returned by `fn` SHARED with the original (or not
    established as the copy's own); `[]` = the level belongs to the copy.  A return of nil hands out nothing. -/
def problemsAt (fs : List Fact) : Nat → String → List String → List String
  | 0, fn, _ => [fn ++ ": the chain of copy functions is too deep"]
  | fuel + 1, fn, path =>
    match returnsOf fs fn with
    | [] => [fn ++ ": no copy facts"]
    | rets => rets.flatMap fun k =>
        let root := factsAt fs fn k []
        if root.all fun f => f.how == How.nil then []
        else judge (problemsAt fs fuel) fs fn k path path.length

def depthFuel : Nat := 8

def problems (fs : List Fact) (fn : String) (path : List String) : List String := problemsAt fs depthFuel fn path

def independent (fs : List Fact) (fn : String) (path : List String) : Bool := (problems fs fn path).isEmpty

/-! ## the levels of a view -/

inductive Level
  /-- the View struct (fields Header, RecordSet, FileInfo, selectFields, …) -/
  | viewStruct
  /-- the array of HeaderField behind `Header` -/
  | headerArray
  /-- the arrays of string behind `HeaderField.Aliases` -/
  | aliasArray
  /-- the array of Record behind `RecordSet` -/
  | recordSetArray
  /-- the arrays of Cell behind every `Record` -/
  | recordArray
  /-- the arrays of value.Primary behind every `Cell` -/
  | cellArray
  /-- the value objects the cells point to -/
  | valueObject
  /-- the FileInfo struct -/
  | fileInfo
  deriving DecidableEq, Repr, Inhabited

def Level.path : Level → List String
  | .viewStruct => []
  | .headerArray => [".Header"]
  | .aliasArray => [".Header", "[*]", ".Aliases"]
  | .recordSetArray => [".RecordSet"]
  | .recordArray => [".RecordSet", "[*]"]
  | .cellArray => [".RecordSet", "[*]", "[*]"]
  | .valueObject => [".RecordSet", "[*]", "[*]", "[*]"]
  | .fileInfo => [".FileInfo"]

def Level.name : Level → String
  | .viewStruct => "View struct" | .headerArray => "Header array" | .aliasArray => "Aliases arrays"
  | .recordSetArray => "RecordSet array" | .recordArray => "Record arrays (cells of a record)"
  | .cellArray => "Cell arrays (values of a cell)" | .valueObject => "value objects" | .fileInfo => "FileInfo"

/-- an assignment of a data-changing function whose target is a part of a view -/
structure Write where
  fn : String
  file : String
  site : String
  /-- the text of the assignment's left-hand side -/
  target : String
  /-- the level written (found from the TYPE of what is indexed / selected) -/
  level : String
  deriving DecidableEq, Repr, Inhabited

def Level.ofString : String → Option Level
  | "viewStruct" => some .viewStruct | "headerArray" => some .headerArray | "aliasArray" => some .aliasArray
  | "recordSetArray" => some .recordSetArray | "recordArray" => some .recordArray | "cellArray" => some .cellArray
  | "valueObject" => some .valueObject | "fileInfo" => some .fileInfo
  | _ => none

def allLevels : List Level :=
  [.viewStruct, .headerArray, .aliasArray, .recordSetArray, .recordArray, .cellArray, .valueObject, .fileInfo]

/-- the accessor every statement gets its working copy from -/
def accessor : String := "ViewMap.Get"

def levelProblems (fs : List Fact) (acc : String) (l : Level) : List String := problems fs acc l.path

def levelFresh (fs : List Fact) (acc : String) (l : Level) : Bool := (levelProblems fs acc l).isEmpty

/-- the facts with those of one function replaced (for the rejection witnesses) -/
def withFn (fs : List Fact) (fn : String) (new : List Fact) : List Fact :=
  (fs.filter fun f => f.fn != fn) ++ new

end Csvq.CopyDepth
