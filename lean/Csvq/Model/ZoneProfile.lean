/-
  Csvq.Model.ZoneProfile — the coercion profile of a value under a session: time zone and user datetime formats.
  Every field of a TEXT's profile is the model's own reading of its bytes; the datetime field is
  TP.strToTime zone formats (Model/ParseTimeFull.lean).  The other value kinds do not depend on the session.
-/
import Csvq.Model.CellText
import Csvq.Model.ParseTimeFull
namespace Csvq

/-- the session as far as the coercion ladder sees it -/
structure Session where
  zone : TP.ZoneEnv := TP.utcZone
  fmts : List Bytes := []

def profileZ (se : Session) : Val → Profile
  | .str b => { profileOfText b (Uni.strToUpper (PF.trimSpace b)) with dt? := TP.strToTime se.zone se.fmts b }
  | v => profileOf v

end Csvq
