/-
  Csvq.Model.SortGen — the flat record that lib/query/sort_value.go's `SortValue` is (Type, Integer,
  Float, Datetime, String; with the --strict-equal key: `SVK`), the target type of the translator
  extract/sortfacts, and the embedding of the model's `SortVal` into it.  Core Lean only.
-/
import Csvq.Model.Sort
namespace Csvq

inductive SType | null | integer | float | datetime | boolean | string
  deriving DecidableEq, Repr, Inhabited

structure SV where
  typ      : SType
  integer  : Int := 0
  float    : FVal := .fin 0
  datetime : Int := 0
  string   : Bytes := []
  deriving Repr

/-- a SortValue with its `SerializedKey` (`none` = nil: the session runs without --strict-equal) -/
structure SVK where
  sv  : SV
  key : Option Bytes
  deriving Repr

/-- Go's `<` on int64 fields -/
def intLt (a b : Int) : Bool := decide (a < b)

/-- what NewSortValue stores for each kind of sort value (fields it does not set keep Go's zero value) -/
def SortVal.toSV : SortVal → SV
  | .null => { typ := .null }
  | .int i f s => { typ := .integer, integer := i, float := f, string := s }
  | .flt f s => { typ := .float, float := f, string := s }
  | .dt ns => { typ := .datetime, datetime := ns }
  | .bool b => { typ := .boolean, integer := if b then 1 else 0 }
  | .str s => { typ := .string, string := s }

/-- an Integer sort value carries float64(i), which is never NaN -/
def SortVal.WF : SortVal → Prop
  | .int _ f _ => f.isNaN = false
  | _ => True

end Csvq
