/-
  Csvq.Model.ParseTimeFull — the datetime reading of a TEXT, complete: value.StrToTime (lib/value/conv.go) with
  the session's time zone and the user formats of --datetime-format / @@DATETIME_FORMAT as explicit parameters.

  * `nextChunk` / `layoutOf` — Go's layout scanner (time/format.go nextStdChunk) on the BYTES of a layout string:
    every reference item (2006 06 01 1 Jan January 02 2 _2 002 __2 Mon Monday 15 03 3 04 4 05 5 PM pm MST, the ten
    numeric zone forms, fractions .000 / .999 / ,000 / ,999 of any length), everything else literal — so a user
    pattern with arbitrary literal text (non-ASCII included: the UTF-8 bytes are literal prefix bytes) is read
    exactly as Go reads it, also where a literal digit of the pattern happens to spell a reference item.
  * `runLayout` / `Civil.resolve` / `instantOf` — time.parse: the item loop (skip, getnum, getnum3, atoi, lookup of
    names without regard to case, the fraction that follows the seconds although the layout has none, fixed and
    optional fractions, AM / PM, day of the year), the validation of the date, and the zone decision:
    `Z` / UTC → UTC; an explicit offset → that offset; an abbreviation → the session zone's offset if it is the
    session zone's abbreviation (time.ParseInLocation) and UTC otherwise (Go's fabricated zone); NO zone in the
    text → the location the parse function was given: the session zone for time.ParseInLocation, UTC for
    time.Parse.  The civil fields (`Civil`) and the zone fields (`ZAcc`) are separate records and an item touches
    one of them only (`Std.isZone`): that a layout without a zone item leaves the zone fields alone is then a fact
    about the loop, not about thirty items.
  * `Cond` / `Dispatch` / `evalDispatch` — the built-in dispatch of StrToTime as a TREE in the shape of the code:
    conditions on the length and on single bytes, and at every branch the layout string and the parse function
    (`ParseFn`: time.ParseInLocation(layout, s, location) / time.Parse(layout, s) / time.Parse followed by
    t.In(location)).  `TP.dispatch` is that tree as the code has it; extract/dtfacts regenerates it from conv.go on
    every run (Gen/StrToTimeFacts.lean) and Props/C06Zone.lean proves the two equal — the model EXECUTES the tree.
  * `userLayout` — value.ConvertDatetimeFormat on an arbitrary byte string: decoded to runes as `[]rune(format)`
    does (one U+FFFD per invalid byte), the % verbs replaced (FT.convertFormat), written back with WriteRune.
  * `strToTime zone formats text` — trim, the user formats in order (first that parses wins), the guard, the tree.

  A zone enters as `ZoneEnv`: its offset in seconds east of UTC and its abbreviation at the instant in question
  (constant for the fixed zones; for a tz-database zone the harness supplies the pair valid at the result and
  checks it against time.Date in that location).  The process zone (time.Local, which time.Parse consults for
  abbreviations) is taken to be UTC, as in Model/ParseTime.lean.
-/
import Csvq.Model.ParseTime
import Csvq.Model.FormatTime
import Csvq.Model.Unicode
namespace Csvq
namespace TP

/-- ASCII text as bytes (layout strings, name tables) -/
def asc (s : String) : Bytes := s.toList.map Char.toNat

/-! ### the layout scanner -/

inductive Std
  | year | longYear | month | longMonth | numMonth | zeroMonth
  | weekDay | longWeekDay | day | underDay | zeroDay | underYearDay | zeroYearDay
  | hour | hour12 | zeroHour12 | minute | zeroMinute | second | zeroSecond
  | pm | pmLower | tz
  | isoTZ | isoShortTZ | isoColonTZ | isoSecondsTZ | isoColonSecondsTZ
  | numTZ | numShortTZ | numColonTZ | numSecondsTZ | numColonSecondsTZ
  | frac0 (n : Nat) | frac9 (n : Nat)
  deriving DecidableEq, Repr

/-- the items that set the zone of the reading -/
def Std.isZone : Std → Bool
  | .tz | .isoTZ | .isoShortTZ | .isoColonTZ | .isoSecondsTZ | .isoColonSecondsTZ
  | .numTZ | .numShortTZ | .numColonTZ | .numSecondsTZ | .numColonSecondsTZ => true
  | _ => false

def hasPre (p l : Bytes) : Bool := l.take p.length == p

/-- startsWithLowerCase -/
def lowerAt : Bytes → Bool
  | c :: _ => 97 ≤ c && c ≤ 122
  | [] => false

/-- isDigit(layout, j) -/
def digitAt : Bytes → Bool
  | c :: _ => PT.isDig c
  | [] => false

/-- std0x -/
def std0x (c : Nat) : Std :=
  if c = 49 then .zeroMonth else if c = 50 then .zeroDay else if c = 51 then .zeroHour12
  else if c = 52 then .zeroMinute else if c = 53 then .zeroSecond else .year

/-- one position of nextStdChunk's loop: the reference item that begins here, as (bytes that still belong to the
    prefix, item, rest of the layout) -/
def stdAt (l : Bytes) : Option (Bytes × Std × Bytes) :=
  match l with
  | [] => none
  | c :: t =>
    if c = 74 then            -- 'J': January, Jan
      if hasPre (asc "Jan") l then
        if hasPre (asc "January") l then some ([], .longMonth, l.drop 7)
        else if !lowerAt (l.drop 3) then some ([], .month, l.drop 3) else none
      else none
    else if c = 77 then       -- 'M': Monday, Mon, MST
      if hasPre (asc "Mon") l then
        if hasPre (asc "Monday") l then some ([], .longWeekDay, l.drop 6)
        else if !lowerAt (l.drop 3) then some ([], .weekDay, l.drop 3) else none
      else if hasPre (asc "MST") l then some ([], .tz, l.drop 3) else none
    else if c = 48 then       -- '0': 01 … 06, 002
      match t with
      | d :: t' =>
        if 49 ≤ d ∧ d ≤ 54 then some ([], std0x d, t')
        else if d = 48 then (match t' with | 50 :: t'' => some ([], .zeroYearDay, t'') | _ => none)
        else none
      | [] => none
    else if c = 49 then       -- '1': 15, 1
      match t with
      | 53 :: t' => some ([], .hour, t')
      | _ => some ([], .numMonth, t)
    else if c = 50 then       -- '2': 2006, 2
      if hasPre (asc "2006") l then some ([], .longYear, l.drop 4) else some ([], .day, t)
    else if c = 95 then       -- '_': _2, _2006, __2
      match t with
      | 50 :: t' => if hasPre (asc "2006") t then some ([95], .longYear, l.drop 5) else some ([], .underDay, t')
      | 95 :: 50 :: t' => some ([], .underYearDay, t')
      | _ => none
    else if c = 51 then some ([], .hour12, t)
    else if c = 52 then some ([], .minute, t)
    else if c = 53 then some ([], .second, t)
    else if c = 80 then (match t with | 77 :: t' => some ([], .pm, t') | _ => none)
    else if c = 112 then (match t with | 109 :: t' => some ([], .pmLower, t') | _ => none)
    else if c = 45 then       -- '-': -070000, -07:00:00, -0700, -07:00, -07
      if hasPre (asc "-070000") l then some ([], .numSecondsTZ, l.drop 7)
      else if hasPre (asc "-07:00:00") l then some ([], .numColonSecondsTZ, l.drop 9)
      else if hasPre (asc "-0700") l then some ([], .numTZ, l.drop 5)
      else if hasPre (asc "-07:00") l then some ([], .numColonTZ, l.drop 6)
      else if hasPre (asc "-07") l then some ([], .numShortTZ, l.drop 3)
      else none
    else if c = 90 then       -- 'Z': Z070000, Z07:00:00, Z0700, Z07:00, Z07
      if hasPre (asc "Z070000") l then some ([], .isoSecondsTZ, l.drop 7)
      else if hasPre (asc "Z07:00:00") l then some ([], .isoColonSecondsTZ, l.drop 9)
      else if hasPre (asc "Z0700") l then some ([], .isoTZ, l.drop 5)
      else if hasPre (asc "Z07:00") l then some ([], .isoColonTZ, l.drop 6)
      else if hasPre (asc "Z07") l then some ([], .isoShortTZ, l.drop 3)
      else none
    else if c = 46 ∨ c = 44 then   -- '.', ',': a run of 0s or of 9s that no further digit follows
      match t with
      | ch :: _ =>
        if ch = 48 ∨ ch = 57 then
          let run := t.takeWhile (· == ch)
          let rest := t.drop run.length
          if digitAt rest then none
          else some ([], (if ch = 57 then .frac9 run.length else .frac0 run.length), rest)
        else none
      | [] => none
    else none

/-- nextStdChunk(layout): the literal prefix, the first reference item, the rest -/
def nextChunk : Bytes → Bytes → Bytes × Option Std × Bytes
  | pre, [] => (pre, none, [])
  | pre, c :: t =>
    match stdAt (c :: t) with
    | some (extra, std, suf) => (pre ++ extra, some std, suf)
    | none => nextChunk (pre ++ [c]) t

abbrev Layout := List (Bytes × Option Std)

/-- the whole layout as the chunks the loop of time.parse meets -/
def scan : Nat → Bytes → Layout
  | 0, _ => []
  | f + 1, l =>
    match nextChunk [] l with
    | (pre, none, _) => [(pre, none)]
    | (pre, some s, suf) => (pre, some s) :: scan f suf

def layoutOf (l : Bytes) : Layout := scan (l.length + 1) l

def hasZoneItem (l : Layout) : Bool := l.any fun ch => match ch.2 with | some s => s.isZone | none => false

/-! ### time.parse -/

/-- the fields of the date and of the clock -/
structure Civil where
  year : Int := 0
  month : Int := -1
  day : Int := -1
  yday : Int := -1
  hour : Nat := 0
  min : Nat := 0
  sec : Nat := 0
  nsec : Nat := 0
  pmSet : Bool := false
  amSet : Bool := false
  deriving Repr, DecidableEq

/-- the fields of the zone: `z = UTC`, zoneOffset (−1 = not set, as in Go), zoneName -/
structure ZAcc where
  utc : Bool := false
  offset : Int := -1
  name : Bytes := []
  deriving Repr, DecidableEq

def shortMonthNames : List Bytes := PT.monthNames
def longMonthNames : List Bytes :=
  ["January", "February", "March", "April", "May", "June", "July", "August", "September", "October", "November", "December"].map asc
def shortDayNames : List Bytes := ["Sun", "Mon", "Tue", "Wed", "Thu", "Fri", "Sat"].map asc
def longDayNames : List Bytes := ["Sunday", "Monday", "Tuesday", "Wednesday", "Thursday", "Friday", "Saturday"].map asc

/-- lookup(tab, val): the first name of the table the value begins with, letters compared without regard to case -/
def lookupTab : List Bytes → Bytes → Nat → Option (Nat × Bytes)
  | [], _, _ => none
  | v :: tab, val, i =>
    if val.length ≥ v.length && PT.matchCI (val.take v.length) v then some (i, val.drop v.length)
    else lookupTab tab val (i + 1)

/-- getnum3 -/
def getnum3 (s : Bytes) (fixed : Bool) : Option (Nat × Bytes) :=
  let ds := (s.take 3).takeWhile PT.isDig
  if ds.length = 0 ∨ (fixed ∧ ds.length ≠ 3) then none
  else match PT.allDigitsVal ds 0 with
    | some n => some (n, s.drop ds.length)
    | none => none

/-- parseNanoseconds(value, nbytes), for len(value) ≥ nbytes: separator, then atoi of at most nine characters (a
    sign passes atoi; a negative value is out of range) -/
def parseNanos (value : Bytes) (nbytes : Nat) : Option Nat :=
  match value with
  | p :: _ =>
    if !PT.commaOrPeriod p then none
    else
      let nb := if nbytes > 10 then 10 else nbytes
      match PT.atoi ((value.take nb).drop 1) with
      | some ns => if ns < 0 then none else some (ns.toNat * 10 ^ (10 - nb))
      | none => none
  | [] => none

/-- an item of the date or the clock; `nextFrac` = the next item of the layout is a fraction -/
def stepCivil (std : Std) (value : Bytes) (c : Civil) (nextFrac : Bool) : Option (Civil × Bytes) :=
  match std with
  | .year =>
    if value.length < 2 then none
    else match PT.atoi (value.take 2) with
      | some y => some ({ c with year := if y ≥ 69 then y + 1900 else y + 2000 }, value.drop 2)
      | none => none
  | .longYear =>
    if value.length < 4 then none
    else if !digitAt value then none
    else match PT.atoi (value.take 4) with
      | some y => some ({ c with year := y }, value.drop 4)
      | none => none
  | .month =>
    match lookupTab shortMonthNames value 0 with
    | some (i, rest) => some ({ c with month := i + 1 }, rest)
    | none => none
  | .longMonth =>
    match lookupTab longMonthNames value 0 with
    | some (i, rest) => some ({ c with month := i + 1 }, rest)
    | none => none
  | .numMonth | .zeroMonth =>
    match PT.getnum value (std == .zeroMonth) with
    | some (m, rest) => if m = 0 ∨ 12 < m then none else some ({ c with month := m }, rest)
    | none => none
  | .weekDay => (lookupTab shortDayNames value 0).map fun r => (c, r.2)
  | .longWeekDay => (lookupTab longDayNames value 0).map fun r => (c, r.2)
  | .day | .underDay | .zeroDay =>
    let value := if std == .underDay then (match value with | 32 :: v => v | v => v) else value
    match PT.getnum value (std == .zeroDay) with
    | some (d, rest) => some ({ c with day := d }, rest)
    | none => none
  | .underYearDay | .zeroYearDay =>
    let cut1 (v : Bytes) : Bytes := match v with | 32 :: w => w | w => w
    let value := if std == .underYearDay then cut1 (cut1 value) else value
    match getnum3 value (std == .zeroYearDay) with
    | some (d, rest) => some ({ c with yday := d }, rest)
    | none => none
  | .hour =>
    match PT.getnum value false with
    | some (h, rest) => if 24 ≤ h then none else some ({ c with hour := h }, rest)
    | none => none
  | .hour12 | .zeroHour12 =>
    match PT.getnum value (std == .zeroHour12) with
    | some (h, rest) => if 12 < h then none else some ({ c with hour := h }, rest)
    | none => none
  | .minute | .zeroMinute =>
    match PT.getnum value (std == .zeroMinute) with
    | some (m, rest) => if 60 ≤ m then none else some ({ c with min := m }, rest)
    | none => none
  | .second | .zeroSecond =>
    match PT.getnum value (std == .zeroSecond) with
    | some (s, rest) =>
      if 60 ≤ s then none
      else
        let c := { c with sec := s }
        match rest with
        | p :: d :: _ =>
          if PT.commaOrPeriod p && PT.isDig d && !nextFrac then
            -- a fraction in the text although the layout has none
            let n := 1 + ((rest.drop 1).takeWhile PT.isDig).length
            match parseNanos rest n with
            | some ns => some ({ c with nsec := ns }, rest.drop n)
            | none => none
          else some (c, rest)
        | _ => some (c, rest)
    | none => none
  | .pm =>
    if value.length < 2 then none
    else if value.take 2 = [80, 77] then some ({ c with pmSet := true }, value.drop 2)
    else if value.take 2 = [65, 77] then some ({ c with amSet := true }, value.drop 2)
    else none
  | .pmLower =>
    if value.length < 2 then none
    else if value.take 2 = [112, 109] then some ({ c with pmSet := true }, value.drop 2)
    else if value.take 2 = [97, 109] then some ({ c with amSet := true }, value.drop 2)
    else none
  | .frac0 n =>
    if value.length < 1 + n then none
    else match parseNanos value (1 + n) with
      | some ns => some ({ c with nsec := ns }, value.drop (1 + n))
      | none => none
  | .frac9 _ =>
    match value with
    | p :: d :: _ =>
      if !PT.commaOrPeriod p || !PT.isDig d then some (c, value)
      else
        let n := 1 + ((value.drop 1).takeWhile PT.isDig).length
        match parseNanos value n with
        | some ns => some ({ c with nsec := ns }, value.drop n)
        | none => none
    | _ => some (c, value)
  | _ => none

/-- the shape of a numeric zone item: bytes needed, positions that must be ':', where minutes and seconds sit -/
def tzShape : Std → Option (Nat × List Nat × Option Nat × Option Nat)
  | .isoColonTZ | .numColonTZ => some (6, [3], some 4, none)
  | .isoShortTZ | .numShortTZ => some (3, [], none, none)
  | .isoColonSecondsTZ | .numColonSecondsTZ => some (9, [3, 6], some 4, some 7)
  | .isoSecondsTZ | .numSecondsTZ => some (7, [], some 3, some 5)
  | .isoTZ | .numTZ => some (5, [], some 3, none)
  | _ => none

def Std.isIso : Std → Bool
  | .isoTZ | .isoShortTZ | .isoColonTZ | .isoSecondsTZ | .isoColonSecondsTZ => true
  | _ => false

/-- an item of the zone -/
def stepZone (std : Std) (value : Bytes) (z : ZAcc) : Option (ZAcc × Bytes) :=
  match std with
  | .tz =>
    if value.take 3 = [85, 84, 67] then some ({ z with utc := true }, value.drop 3)
    else match PT.parseTimeZone value with
      | some n => some ({ z with name := value.take n }, value.drop n)
      | none => none
  | _ =>
    if std.isIso && value.take 1 = [90] then some ({ z with utc := true }, value.drop 1)
    else match tzShape std with
      | none => none
      | some (need, colons, mmAt, ssAt) =>
        if value.length < need then none
        else if colons.any (fun i => value.getD i 0 ≠ 58) then none
        else
          let two (at? : Option Nat) : Option Nat :=
            match at? with
            | none => some 0
            | some i => (PT.getnum ((value.drop i).take 2) true).map (·.1)
          match two (some 1), two mmAt, two ssAt with
          | some hr, some mi, some ss =>
            if hr > 24 ∨ mi > 60 ∨ ss > 60 then none
            else
              let off : Int := (((hr * 60 + mi) * 60 + ss : Nat) : Int)
              let sign := value.getD 0 0
              if sign = 43 then some ({ z with offset := off }, value.drop need)
              else if sign = 45 then some ({ z with offset := -off }, value.drop need)
              else none
          | _, _, _ => none

def nextIsFrac : Layout → Bool
  | (_, some (.frac0 _)) :: _ => true
  | (_, some (.frac9 _)) :: _ => true
  | _ => false

/-- the chunk loop of time.parse -/
def runLayout : Layout → Bytes → Civil → ZAcc → Option (Civil × ZAcc)
  | [], value, c, z => if value.isEmpty then some (c, z) else none
  | (pre, std) :: rest, value, c, z =>
    match PT.skip (pre.length + value.length + 2) value pre with
    | none => none
    | some value =>
      match std with
      | none => if value.isEmpty then some (c, z) else none
      | some st =>
        if st.isZone then
          match stepZone st value z with
          | some (z', value') => runLayout rest value' c z'
          | none => none
        else
          match stepCivil st value c (nextIsFrac rest) with
          | some (c', value') => runLayout rest value' c' z
          | none => none

def daysBefore : List Int := [0, 31, 59, 90, 120, 151, 181, 212, 243, 273, 304, 334, 365]

/-- after the loop: AM / PM, the day of the year, the defaults, the validation of the day of the month: the local
    reading as seconds since 1970-01-01T00:00:00 of that wall clock -/
def Civil.resolve (c : Civil) : Option Int :=
  let hour : Nat := if c.pmSet && c.hour < 12 then c.hour + 12 else if c.amSet && c.hour = 12 then 0 else c.hour
  let md : Option (Int × Int) :=
    if c.yday ≥ 0 then
      let leap := PT.isLeap c.year
      let feb29 := leap && c.yday = 60
      let yday := if leap && c.yday > 60 then c.yday - 1 else c.yday
      if yday < 1 ∨ yday > 365 then none
      else
        let m0 : Int := (yday - 1) / 31 + 1
        let m1 : Int := if daysBefore.getD m0.toNat 0 < yday then m0 + 1 else m0
        let m : Int := if feb29 then 2 else m1
        let d : Int := if feb29 then 29 else yday - daysBefore.getD (m1 - 1).toNat 0
        if c.month ≥ 0 ∧ c.month ≠ m then none
        else if c.day ≥ 0 ∧ c.day ≠ d then none
        else some (m, d)
    else some (if c.month < 0 then 1 else c.month, if c.day < 0 then 1 else c.day)
  match md with
  | none => none
  | some (month, day) =>
    if day < 1 ∨ day > PT.daysIn month c.year then none
    else some (PT.daysFromCivil c.year month day * 86400 + ((hour * 3600 + c.min * 60 + c.sec : Nat) : Int))

/-- a time zone as the reading needs it -/
structure ZoneEnv where
  off : Int
  abbr : Bytes := []
  deriving Repr, DecidableEq

def utcZone : ZoneEnv := { off := 0, abbr := [] }

/-- the instant (ns since the epoch) of a wall clock reading `secs` with fraction `nsec`, given the zone fields of
    the text and the location of the parse function: `some z` = time.ParseInLocation(…, z), `none` = time.Parse -/
def instantOf (secs : Int) (nsec : Nat) (z : ZAcc) (loc : Option ZoneEnv) : Int :=
  let s : Int :=
    if z.utc then secs
    else if z.offset ≠ -1 then secs - z.offset
    else if z.name ≠ [] then
      (match loc with
       | some l => if l.abbr = z.name then secs - l.off else secs
       | none => secs)
    else
      (match loc with
       | some l => secs - l.off
       | none => secs)
  s * 1000000000 + (nsec : Int)

/-- time.ParseInLocation(layout, s, loc) / time.Parse(layout, s) -/
def parseWith (loc : Option ZoneEnv) (l : Layout) (s : Bytes) : Option Int :=
  match runLayout l s {} {} with
  | some (c, z) =>
    match c.resolve with
    | some secs => some (instantOf secs c.nsec z loc)
    | none => none
  | none => none

/-! ### the dispatch of StrToTime -/

inductive Idx
  | abs (k : Nat)
  | fromEnd (k : Nat)
  deriving DecidableEq, Repr

inductive Cond
  | lenLt (n : Nat) | lenLe (n : Nat) | lenEq (n : Nat) | lenGe (n : Nat) | lenGt (n : Nat) | lenNe (n : Nat)
  | byteLt (i : Idx) (c : Nat) | byteLe (i : Idx) (c : Nat) | byteEq (i : Idx) (c : Nat)
  | byteGe (i : Idx) (c : Nat) | byteGt (i : Idx) (c : Nat) | byteNe (i : Idx) (c : Nat)
  | or (a b : Cond) | and (a b : Cond)
  deriving DecidableEq, Repr

/-- which function a branch calls -/
inductive ParseFn
  | inLocation      -- time.ParseInLocation(layout, s, location); return t
  | parse           -- time.Parse(layout, s); return t
  | parseThenIn     -- time.Parse(layout, s); return t.In(location): the same INSTANT as time.Parse
  deriving DecidableEq, Repr

inductive Dispatch
  | fail
  | try (fn : ParseFn) (layout : Bytes) (next : Dispatch)
  | ite (c : Cond) (a b : Dispatch)
  deriving DecidableEq, Repr

def byteAt (s : Bytes) : Idx → Nat
  | .abs k => s.getD k 0
  | .fromEnd k => s.getD (s.length - k) 0

def evalCond (s : Bytes) : Cond → Bool
  | .lenLt n => s.length < n | .lenLe n => s.length ≤ n | .lenEq n => s.length = n
  | .lenGe n => s.length ≥ n | .lenGt n => s.length > n | .lenNe n => s.length ≠ n
  | .byteLt i c => byteAt s i < c | .byteLe i c => byteAt s i ≤ c | .byteEq i c => byteAt s i = c
  | .byteGe i c => byteAt s i ≥ c | .byteGt i c => byteAt s i > c | .byteNe i c => byteAt s i ≠ c
  | .or a b => evalCond s a || evalCond s b
  | .and a b => evalCond s a && evalCond s b

def callFn (fn : ParseFn) (zone : ZoneEnv) (layout : Bytes) (s : Bytes) : Option Int :=
  match fn with
  | .inLocation => parseWith (some zone) (layoutOf layout) s
  | .parse => parseWith none (layoutOf layout) s
  | .parseThenIn => parseWith none (layoutOf layout) s

def evalDispatch (zone : ZoneEnv) (s : Bytes) : Dispatch → Option Int
  | .fail => none
  | .try fn layout next =>
    match callFn fn zone layout s with
    | some t => some t
    | none => evalDispatch zone s next
  | .ite c a b => if evalCond s c then evalDispatch zone s a else evalDispatch zone s b

/-- the leaves of a tree: (parse function, layout) in source order -/
def Dispatch.leaves : Dispatch → List (ParseFn × Bytes)
  | .fail => []
  | .try fn l next => (fn, l) :: next.leaves
  | .ite _ a b => a.leaves ++ b.leaves

/-- every branch whose layout has no zone item parses in the session's location -/
def zonelessInLocation (d : Dispatch) : Bool :=
  d.leaves.all fun p => hasZoneItem (layoutOf p.2) || p.1 == .inLocation

/-- `8 <= len(s) && '0' <= s[0] && s[0] <= '9'` -/
def guard : Cond := .and (.and (.lenGe 8) (.byteGe (.abs 0) 48)) (.byteLe (.abs 0) 57)

/-- after a full date: zone-less in the session's location, then `Z07:00`, `-0700`, `MST` -/
def withZones (date : String) : Dispatch :=
  .try .inLocation (asc (date ++ " 15:04:05.999999999"))
    (.try .parse (asc (date ++ " 15:04:05.999999999 Z07:00"))
      (.try .parse (asc (date ++ " 15:04:05.999999999 -0700"))
        (.try .parse (asc (date ++ " 15:04:05.999999999 MST")) .fail)))

/-- the built-in dispatch of StrToTime, in the shape of the code -/
def dispatch : Dispatch :=
  .ite (.byteEq (.abs 4) 45)
    (.ite (.lenLt 10) (.try .inLocation (asc "2006-1-2") .fail)
      (.ite (.lenEq 10) (.try .inLocation (asc "2006-01-02") .fail)
        (.ite (.byteEq (.abs 10) 84)
          (.ite (.or (.or (.byteEq (.fromEnd 6) 43) (.byteEq (.fromEnd 6) 45)) (.byteEq (.fromEnd 1) 90))
            (.try .parse (asc "2006-01-02T15:04:05.999999999Z07:00") .fail)
            (.try .inLocation (asc "2006-01-02T15:04:05.999999999") .fail))
          (.ite (.byteEq (.abs 10) 32) (withZones "2006-01-02") (withZones "2006-1-2")))))
    (.ite (.byteEq (.abs 4) 47)
      (.ite (.lenLt 10) (.try .inLocation (asc "2006/1/2") .fail)
        (.ite (.lenEq 10) (.try .inLocation (asc "2006/01/02") .fail)
          (.ite (.byteEq (.abs 10) 32) (withZones "2006/01/02") (withZones "2006/1/2"))))
      (.try .parse (asc "02 Jan 06 15:04 MST") (.try .parse (asc "02 Jan 06 15:04 -0700") .fail)))

/-! ### user formats -/

/-- DatetimeFormats.Get(format) = ConvertDatetimeFormat(format): runes of the pattern, verbs replaced, written
    back as UTF-8 -/
def userLayout (format : Bytes) : Bytes := Uni.encodeRunes (FT.convertFormat false (Uni.decodeRunes format))

/-- the runes of a pattern that are NOT verbs: outside an escape every rune but '%', after '%' every rune that is
    no verb (`%%` gives '%') — `esc` as in FT.convertFormat -/
def literalsOf : Bool → List Nat → List Nat
  | _, [] => []
  | false, r :: rs => if r = 37 then literalsOf true rs else r :: literalsOf false rs
  | true, r :: rs => (match FT.verbLayout r with | some _ => [] | none => [r]) ++ literalsOf false rs

/-- the formats in the given order; the first that parses the whole text wins (time.ParseInLocation) -/
def userFormats (zone : ZoneEnv) : List Bytes → Bytes → Option Int
  | [], _ => none
  | f :: fs, t =>
    match parseWith (some zone) (layoutOf (userLayout f)) t with
    | some x => some x
    | none => userFormats zone fs t

def strToTimeTrimmed (zone : ZoneEnv) (t : Bytes) : Option Int :=
  if evalCond t guard then evalDispatch zone t dispatch else none

/-- value.StrToTime(s, formats, location) -/
def strToTime (zone : ZoneEnv) (fmts : List Bytes) (s : Bytes) : Option Int :=
  let t := PF.trimSpace s
  match userFormats zone fmts t with
  | some x => some x
  | none => strToTimeTrimmed zone t

end TP
end Csvq
