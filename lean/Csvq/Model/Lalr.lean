/-
  Csvq.Model.Lalr — the goyacc driver `func (yyrcvr *yyParserImpl) Parse(yylex yyLexer) int` of
  lib/parser/parser.go, `yylex1`, and the lexer wrapper `(*Lexer).Lex` of lib/parser/lexer.go, as a total function
  over lists of token codes (what `Scanner.Scan` returns, in order; end of input is implicit).

  Written in the shape of the Go code (the statement texts the model mirrors are pinned in Csvq/Ref/Lalr.lean and
  compared with the regenerated ones on every run).  Semantic values are dropped: the semantic actions are not
  modelled, only the stack window `yyS[yypt-yyR2[yyn] : yypt+1]` they read.

  Every table read goes through `rd`, every stack read through a bounds test: an index outside its table is the
  visible outcome `Outcome.panic where`, never a default value.

  Core Lean only (the driver executable links this file).
-/
namespace Csvq.Lalr

/-! ## tables -/

/-- a table stored as one number, 16 bits per entry (the generated file gives the tables in this form: a read is
    two arithmetic operations, also inside the kernel) -/
structure Packed where
  bits : Nat
  size : Nat

/-- entry `i` as stored (0 … 65535).  Written with the raw operations: the kernel evaluates these on literals
    directly, which the checker of the table facts (Lemmas/LalrCheck.lean) depends on. -/
def Packed.raw (p : Packed) (i : Nat) : Nat := Nat.land (Nat.shiftRight p.bits (Nat.mul 16 i)) 65535

/-- entry `i` of a table of Go `int`s: stored with offset 32768 -/
def Packed.get (p : Packed) (i : Nat) : Int := Int.ofNat (p.raw i) - 32768

def Packed.toArray (p : Packed) : Array Int := Array.ofFn (n := p.size) (fun i => p.get i.val)

/-- a table as the driver sees it: a length and a bounds-checked read -/
structure Tab where
  size : Nat
  get? : Nat → Option Int

def Tab.ofArray (a : Array Int) : Tab := ⟨a.size, fun i => a[i]?⟩

/-- the table read from an array built once (what the compiled driver uses) -/
def Packed.arrayTab (p : Packed) : Tab := Tab.ofArray p.toArray

/-- the same table read from the number directly (what the kernel can evaluate) -/
def Packed.tab (p : Packed) : Tab := ⟨p.size, fun i => if i < p.size then some (p.get i) else none⟩

theorem Packed.arrayTab_eq (p : Packed) : p.arrayTab = p.tab := by
  unfold Packed.arrayTab Packed.tab Tab.ofArray Packed.toArray
  congr 1
  · simp
  · funext i
    rw [Array.getElem?_ofFn]
    by_cases h : i < p.size
    · rw [dif_pos h, if_pos h]
    · rw [dif_neg h, if_neg h]

/-- the tables and constants of parser.go the driver reads -/
structure Tables where
  exca : Tab
  act : Tab
  pact : Tab
  pgo : Tab
  r1 : Tab
  r2 : Tab
  chk : Tab
  dflt : Tab          -- yyDef
  tok1 : Tab
  tok2 : Tab
  tok3 : Tab
  last : Int                -- yyLast
  priv : Int                -- yyPrivate
  flag : Int                -- yyFlag
  eofCode : Int             -- yyEofCode
  errCode : Int             -- yyErrCode
  /-- lexer.go: `unknownCharacter` -/
  unknownChar : Int
  /-- scanner.go: `EOF`, `Uncategorized` -/
  scanEOF : Int
  scanUncategorized : Int

/-- the same, packed -/
structure PTables where
  exca : Packed
  act : Packed
  pact : Packed
  pgo : Packed
  r1 : Packed
  r2 : Packed
  chk : Packed
  dflt : Packed
  tok1 : Packed
  tok2 : Packed
  tok3 : Packed
  last : Int
  priv : Int
  flag : Int
  eofCode : Int
  errCode : Int
  unknownChar : Int
  scanEOF : Int
  scanUncategorized : Int

/-- the tables, each read through an array built once -/
def PTables.toTables (p : PTables) : Tables where
  exca := p.exca.arrayTab
  act := p.act.arrayTab
  pact := p.pact.arrayTab
  pgo := p.pgo.arrayTab
  r1 := p.r1.arrayTab
  r2 := p.r2.arrayTab
  chk := p.chk.arrayTab
  dflt := p.dflt.arrayTab
  tok1 := p.tok1.arrayTab
  tok2 := p.tok2.arrayTab
  tok3 := p.tok3.arrayTab
  last := p.last
  priv := p.priv
  flag := p.flag
  eofCode := p.eofCode
  errCode := p.errCode
  unknownChar := p.unknownChar
  scanEOF := p.scanEOF
  scanUncategorized := p.scanUncategorized

/-- the tables, each read from its number directly -/
def PTables.toTablesDirect (p : PTables) : Tables where
  exca := p.exca.tab
  act := p.act.tab
  pact := p.pact.tab
  pgo := p.pgo.tab
  r1 := p.r1.tab
  r2 := p.r2.tab
  chk := p.chk.tab
  dflt := p.dflt.tab
  tok1 := p.tok1.tab
  tok2 := p.tok2.tab
  tok3 := p.tok3.tab
  last := p.last
  priv := p.priv
  flag := p.flag
  eofCode := p.eofCode
  errCode := p.errCode
  unknownChar := p.unknownChar
  scanEOF := p.scanEOF
  scanUncategorized := p.scanUncategorized

theorem PTables.toTables_eq_direct (p : PTables) : p.toTables = p.toTablesDirect := by
  unfold PTables.toTables PTables.toTablesDirect
  simp only [Packed.arrayTab_eq]

/-! ## checked reads -/

/-- which read went outside its table -/
inductive Where
  | exca | act | pact | pgo | r1 | r2 | chk | dflt | tok1 | tok2 | tok3
  | stack        -- `yyS[yyp]` / `yyS[yyp+1]` of a reduction
  | dollar       -- the slice `yyS[yypt-N : yypt+1]` of a semantic action
  | excaLoop     -- the search loops over yyExca ran past the fuel (they cannot: each round reads inside the table)
  deriving DecidableEq, Repr

abbrev M := Except Where

/-- `a[i]` with Go's bounds check -/
def rd (w : Where) (a : Tab) (i : Int) : M Int :=
  if 0 ≤ i then
    match a.get? i.toNat with
    | some v => .ok v
    | none => .error w
  else .error w

/-- `x`, then `f` on its value; an index panic of `x` ends the computation -/
def andThen {α β : Type} (x : M α) (f : α → M β) : M β :=
  match x with
  | .ok a => f a
  | .error w => .error w

theorem andThen_ok {α β : Type} (a : α) (f : α → M β) : andThen (.ok a) f = f a := rfl

/-! ## the lexer side: `(*Lexer).Lex` and `yylex1` -/

/-- `(*Lexer).Lex`: the token code handed to the parser for a scanned token code -/
def lexWrap (T : Tables) (scanned : Int) : Int :=
  if scanned = T.scanUncategorized then T.unknownChar else scanned

/-- the `for i := 0; i < len(yyTok3); i += 2` loop of `yylex1`; `token` is the variable the loop leaves behind -/
def tok3Loop (T : Tables) (char : Int) : Nat → Int → Int → M Int
  | 0, _, token => .ok token
  | fuel + 1, i, token =>
    if i < T.tok3.size then
      andThen (rd .tok3 T.tok3 i) fun t =>
        if t = char then rd .tok3 T.tok3 (i + 1)
        else tok3Loop T char fuel (i + 2) t
    else .ok token

/-- the `out:` label of `yylex1`: `if token == 0 { token = yyTok2[1] /* unknown char */ }` -/
def lexOut (T : Tables) (token : Int) : M Int :=
  if token = 0 then rd .tok2 T.tok2 1 else .ok token

/-- `yylex1` after `char = lex.Lex(lval)`: the grammar's number of the token -/
def lex1 (T : Tables) (char : Int) : M Int :=
  if char ≤ 0 then andThen (rd .tok1 T.tok1 0) (lexOut T)
  else if char < T.tok1.size then andThen (rd .tok1 T.tok1 char) (lexOut T)
  else if char ≥ T.priv ∧ char < T.priv + T.tok2.size then andThen (rd .tok2 T.tok2 (char - T.priv)) (lexOut T)
  else andThen (tok3Loop T char T.tok3.size 0 0) (lexOut T)

/-! ## the state of the loop -/

structure St where
  /-- `yystate` = `yyS[yyp].yys` -/
  state : Int
  /-- `yyS[yyp-1].yys, …, yyS[0].yys` (so `yyp = below.length`) -/
  below : List Int
  /-- `yyrcvr.char` -/
  char : Int
  /-- `yytoken` -/
  token : Int
  errflag : Int
  nerrs : Nat
  /-- the scanned token codes not yet asked for -/
  rest : List Int
  /-- how many of them have been asked for -/
  pos : Nat
  /-- index of the token the lexer holds (`Lexer.token`, the last one scanned; the end of input has index `|input|`) -/
  cur : Nat
  /-- index of the token of the last `yylex.Error` call -/
  lastErr : Option Nat

def init (toks : List Int) : St :=
  { state := 0, below := [], char := -1, token := -1, errflag := 0, nerrs := 0, rest := toks, pos := 0, cur := 0, lastErr := none }

/-- what one round of the loop did -/
inductive Event
  | shift (state : Int)
  | reduce (production state : Int)
  | errShift (state : Int)
  | discard
  deriving DecidableEq, Repr

inductive Outcome
  | next (s : St) (e : Event)
  | accept                  -- `goto ret0`
  | abort (index : Nat)     -- `goto ret1`: syntax error; index of the token of the last `yylex.Error`
  | panic (w : Where)

/-- `if yyrcvr.char < 0 { yyrcvr.char, yytoken = yylex1(yylex, &yyrcvr.lval) }` -/
def ensureTok (T : Tables) (s : St) : M St :=
  if s.char < 0 then
    match s.rest with
    | [] =>
      andThen (lex1 T T.scanEOF) fun t => .ok { s with char := T.scanEOF, token := t, cur := s.pos }
    | k :: rest =>
      andThen (lex1 T (lexWrap T k)) fun t => .ok { s with char := lexWrap T k, token := t, rest := rest, pos := s.pos + 1, cur := s.pos }
  else .ok s

/-- first loop over yyExca: `for { if yyExca[xi+0] == -1 && yyExca[xi+1] == yystate { break }; xi += 2 }` -/
def excaFind (T : Tables) (state : Int) : Nat → Int → M Int
  | 0, _ => .error .excaLoop
  | fuel + 1, xi =>
    andThen (rd .exca T.exca xi) fun a =>
      if a = -1 then
        andThen (rd .exca T.exca (xi + 1)) fun b => if b = state then .ok xi else excaFind T state fuel (xi + 2)
      else excaFind T state fuel (xi + 2)

/-- second loop: `for xi += 2; ; xi += 2 { yyn = yyExca[xi+0]; if yyn < 0 || yyn == yytoken { break } }; yyn = yyExca[xi+1]` -/
def excaScan (T : Tables) (token : Int) : Nat → Int → M Int
  | 0, _ => .error .excaLoop
  | fuel + 1, xi =>
    andThen (rd .exca T.exca xi) fun a =>
      if a < 0 ∨ a = token then rd .exca T.exca (xi + 1)
      else excaScan T token fuel (xi + 2)

/-- the goto part of a reduction: `yyg := yyPgo[yyn]; yyj := yyg + yyS[yyp].yys + 1; if yyj >= yyLast {…} else {…}` -/
def gotoState (T : Tables) (base nt : Int) : M Int :=
  andThen (rd .pgo T.pgo nt) fun g =>
    -- yyj = g + base + 1
    if g + base + 1 ≥ T.last then rd .act T.act g
    else
      andThen (rd .act T.act (g + base + 1)) fun a =>
        andThen (rd .chk T.chk a) fun c => if c ≠ -nt then rd .act T.act g else .ok a

/-- reduction by production `yyn` -/
def reduce (T : Tables) (s : St) (yyn : Int) : M Outcome :=
  andThen (rd .r2 T.r2 yyn) fun k =>
    -- `yypt := yyp` = s.below.length; `yyp -= yyR2[yyn]`; `yyVAL = yyS[yyp+1]` (the stack is grown first when
    -- yyp+1 is past its end)
    if (s.below.length : Int) - k + 1 < 0 then .error .stack
    else
      andThen (rd .r1 T.r1 yyn) fun nt =>
        -- `yyS[yyp].yys`: entries 0 … yyp stay
        if k < 0 then .error .stack
        else
          match (s.state :: s.below).drop k.toNat with
          | [] => .error .stack
          | base :: rest =>
            andThen (gotoState T base nt) fun st' =>
              -- `yyDollar = yyS[yypt-N : yypt+1]` with N = yyR2[yynt] (Gen.actionCases, theorem actions_window)
              if (s.below.length : Int) - k < 0 then .error .dollar
              else .ok (.next { s with state := st', below := base :: rest } (.reduce yyn s.state))

/-- the loop `for yyp >= 0 { … yyp-- }` of the error recovery: find a state that shifts `error` -/
def recoverLoop (T : Tables) (s : St) : List Int → M Outcome
  | [] => .ok (.abort (match s.lastErr with | some i => i | none => s.cur))
  | st :: below =>
    andThen (rd .pact T.pact st) fun p =>
      -- yyn = yyPact[yyS[yyp].yys] + yyErrCode
      if p + T.errCode ≥ 0 ∧ p + T.errCode < T.last then
        andThen (rd .act T.act (p + T.errCode)) fun st' =>
          andThen (rd .chk T.chk st') fun c =>
            if c = T.errCode then .ok (.next { s with state := st', below := st :: below } (.errShift st'))
            else recoverLoop T s below
      else recoverLoop T s below

/-- `if yyn == 0 { switch Errflag {…} }` -/
def errorStep (T : Tables) (s : St) : M Outcome :=
  if s.errflag = 0 then
    -- brand new error: `yylex.Error(…)`, `Nerrs++`, fall through
    recoverLoop T { s with nerrs := s.nerrs + 1, lastErr := some s.cur, errflag := 3 } (s.state :: s.below)
  else if s.errflag = 1 ∨ s.errflag = 2 then
    recoverLoop T { s with errflag := 3 } (s.state :: s.below)
  else if s.errflag = 3 then
    if s.token = T.eofCode then .ok (.abort (match s.lastErr with | some i => i | none => s.cur))
    else .ok (.next { s with char := -1, token := -1 } .discard)
  else
    -- no case of the switch: the code runs on into "reduction by production yyn" with yyn = 0
    reduce T s 0

/-- from `yydefault:` on -/
def dfltStep (T : Tables) (s : St) : M Outcome :=
  andThen (rd .dflt T.dflt s.state) fun yyn =>
    if yyn = -2 then
      andThen (ensureTok T s) fun s =>
        andThen (excaFind T s.state T.exca.size 0) fun xi =>
          andThen (excaScan T s.token T.exca.size (xi + 2)) fun yyn =>
            if yyn < 0 then .ok .accept
            else if yyn = 0 then errorStep T s
            else reduce T s yyn
    else if yyn = 0 then errorStep T s
    else reduce T s yyn

/-- one round: from `yynewstate:` to the next `yynewstate:` (through `yystack:` where the code goes there) -/
def stepM (T : Tables) (s : St) : M Outcome :=
  andThen (rd .pact T.pact s.state) fun yyn =>
    if yyn ≤ T.flag then dfltStep T s
    else
      andThen (ensureTok T s) fun s =>
        -- yyn += yytoken
        if yyn + s.token < 0 ∨ yyn + s.token ≥ T.last then dfltStep T s
        else
          andThen (rd .act T.act (yyn + s.token)) fun yyn =>
            andThen (rd .chk T.chk yyn) fun c =>
              if c = s.token then
                .ok (.next { s with char := -1, token := -1, state := yyn, below := s.state :: s.below,
                                    errflag := if s.errflag > 0 then s.errflag - 1 else s.errflag } (.shift yyn))
              else dfltStep T s

def step (T : Tables) (s : St) : Outcome :=
  match stepM T s with
  | .ok o => o
  | .error w => .panic w

inductive Result
  | accept
  | syntaxError (index : Nat)
  | indexPanic (w : Where)
  | outOfFuel
  deriving DecidableEq, Repr

def run (T : Tables) : Nat → St → Result
  | 0, _ => .outOfFuel
  | fuel + 1, s =>
    match step T s with
    | .next s' _ => run T fuel s'
    | .accept => .accept
    | .abort i => .syntaxError i
    | .panic w => .indexPanic w

end Csvq.Lalr
