/-
  Csvq.Model.FixedAuto — fixed-length format with AUTOMATIC delimiter positions ("SPACES"), the reader side
  (core Lean only).

  go-text/fixedlen `Delimiter.Delimit` as it is: a heuristic over the blank runs of all lines.
    * `searchSpacesInLine`: per line (bufio `ReadLine`: split at LF, a CR in front of that LF dropped) the
      runs of `unicode.IsSpace` characters as `Space{Start, End}` in 1-based BYTE positions of the target
      encoding; a run that starts the line is not recorded; the last entry is the trailing run (or the
      position after the last character) with `End = OutOfLine` (-1); lines without entry are skipped;
    * `Delimit`: walk over the ends of the blank runs from left to right, `searchPosition` decides for each
      whether a column ends there (counting, per line, what is found at the candidate position: in a
      value / end of a value / in blanks / end of blanks / beyond the line), the last position is the
      length of the longest line without its trailing blanks.
  Positions are Go `int`s and do go negative on the way (`PrevSpaceStart … - 1` with `OutOfLine`): `Int` here.

  The loader (`loadViewFromFixedLengthTextFile`) then reads the same text with these positions
  (Csvq.Model.Fixed.decodeFixed).
-/
import Csvq.Model.Fixed
namespace Csvq.Fixed
open Csvq.Csv (LB Err DCell DTable)

structure Space where
  start : Int
  /-- `End`; -1 = `OutOfLine` -/
  fin : Int
  deriving DecidableEq, Repr

/-! ## `searchSpacesInLine` -/

structure LS where
  linePos : Int := 1
  startPos : Int := 1
  inSpace : Bool := false
  /-- newest first -/
  spaces : List Space := []
  deriving Repr

def lineStep (wd : Char → Nat) (σ : LS) (c : Char) : LS :=
  let σ' : LS :=
    if isSpace c then
      if σ.inSpace then σ else { σ with inSpace := true, startPos := σ.linePos }
    else if σ.inSpace then
      { σ with inSpace := false,
               spaces := if 1 < σ.startPos then ⟨σ.startPos, σ.linePos - 1⟩ :: σ.spaces else σ.spaces }
    else σ
  { σ' with linePos := σ'.linePos + (wd c : Int) }

def lineScan (wd : Char → Nat) : LS → List Char → LS
  | σ, [] => σ
  | σ, c :: cs => lineScan wd (lineStep wd σ c) cs

def lineEnd (σ : LS) : List Space :=
  let startPos := if σ.inSpace then σ.startPos else σ.linePos
  (if 1 < startPos then ⟨startPos, -1⟩ :: σ.spaces else σ.spaces).reverse

def spacesOfLine (wd : Char → Nat) (l : List Char) : List Space := lineEnd (lineScan wd {} l)

/-- bufio `ReadLine` until EOF: split at LF, one CR in front of the LF dropped; what follows the last LF is a
    line if it is not empty -/
def dropCR (revLine : List Char) : List Char :=
  match revLine with
  | c :: r => if c = '\r' then r.reverse else (c :: r).reverse
  | [] => []

def readLines : List Char → List Char → List (List Char)
  | acc, [] => match acc with
    | [] => []
    | _ => [acc.reverse]
  | acc, c :: cs => if c = '\n' then dropCR acc :: readLines [] cs else readLines (c :: acc) cs

/-! ## `RecordSpaces` -/

def nextEnd : List Space → Int → Int
  | [], _ => -1
  | s :: r, pos => if pos ≤ s.fin then s.fin else nextEnd r pos

def prevStartFrom : Int → List Space → Int → Int
  | start, [], _ => start
  | start, s :: r, pos => if pos < s.start then start else prevStartFrom s.start r pos

def prevStart (r : List Space) (pos : Int) : Int := prevStartFrom (-1) r pos

def lineLen (r : List Space) : Int :=
  match r.getLast? with
  | some s => if s.fin = -1 then s.start - 1 else 0
  | none => 0

inductive Status | out | inValue | endOfValue | inSpace | endOfSpace
  deriving DecidableEq, Repr

def status : List Space → Int → Status
  | [], _ => .out
  | s :: r, pos =>
    if pos = s.start - 1 then .endOfValue
    else if pos < s.start then .inValue
    else if pos = s.fin then .endOfSpace
    else if s.start ≤ pos ∧ pos < s.fin then .inSpace
    else status r pos

/-! ## `TableSpaces` -/

def nextSpaceEnd (t : List (List Space)) (pos : Int) : Int :=
  t.foldl (fun m rs => let e := nextEnd rs pos; if e ≠ -1 then (if m = -1 ∨ e < m then e else m) else m) (-1)

def prevSpaceStart (t : List (List Space)) (pos : Int) : Int :=
  t.foldl (fun m rs => let s := prevStart rs pos; if s ≠ -1 then (if m < s then s else m) else m) (-1)

def tableLen (t : List (List Space)) : Int :=
  t.foldl (fun l rs => let ll := lineLen rs; if l ≤ ll then ll else l) 0

def inHeaderValue (t : List (List Space)) (pos : Int) : Bool :=
  match t with
  | h :: _ => decide (status h pos = .inValue) && decide (status h (pos + 1) = .inValue)
  | [] => false

structure Counts where
  inValue : Nat := 0
  endOfValue : Nat := 0
  inSpace : Nat := 0
  endOfSpace : Nat := 0
  endOfLine : Nat := 0
  outOfLine : Nat := 0
  deriving DecidableEq, Repr

def countOne (pos : Int) (c : Counts) (rs : List Space) : Counts :=
  match status rs pos with
  | .endOfValue =>
    { c with endOfValue := c.endOfValue + 1,
             endOfLine := if status rs (pos + 1) = .out then c.endOfLine + 1 else c.endOfLine }
  | .inValue => { c with inValue := c.inValue + 1 }
  | .endOfSpace => { c with endOfSpace := c.endOfSpace + 1 }
  | .inSpace => { c with inSpace := c.inSpace + 1 }
  | .out => { c with outOfLine := c.outOfLine + 1 }

def countStatus (t : List (List Space)) (pos : Int) : Counts := t.foldl (countOne pos) {}

/-! ## `Delimiter` -/

/-- `DelimiterPositions.Last` of the positions found so far (newest first) -/
def lastPos : List Int → Int
  | [] => 0
  | p :: _ => p

/-- `searchPosition`; `ps` newest first -/
def searchPosition (noHeader : Bool) (t : List (List Space)) (ps : List Int) (e : Int) : List Int :=
  let begin := prevSpaceStart t e - 1
  let ce := countStatus t e
  if begin ≤ lastPos ps then
    if ce.inValue < 1 then e :: ps else ps
  else if !noHeader && inHeaderValue t begin then ps
  else
    let c := countStatus t begin
    if (c.inValue + c.endOfValue + c.inSpace + c.endOfSpace - c.endOfLine) / 9 + 1 < c.endOfLine + c.outOfLine then ps
    else if (c.endOfValue + c.inSpace + c.endOfSpace) / 9 + 1 < c.inValue then ps
    else if c.inValue < 1 then begin :: ps
    else if ce.inValue < 1 then e :: ps
    else if ce.endOfSpace < c.endOfValue then begin :: ps
    else e :: ps

/-- the loop of `Delimit` (every round moves `linePos` beyond the end of a blank run: `fuel` = the number of
    bytes of the text is enough) -/
def delimitLoop (noHeader : Bool) (t : List (List Space)) : Nat → Int → List Int → List Int
  | 0, _, ps => ps
  | fuel + 1, linePos, ps =>
    let ne := nextSpaceEnd t linePos
    if ne = -1 then tableLen t :: ps
    else delimitLoop noHeader t fuel (ne + 1) (searchPosition noHeader t ps ne)

def tableSpaces (wd : Char → Nat) (inp : List Char) : List (List Space) :=
  ((readLines [] inp).map (spacesOfLine wd)).filter (fun r => !r.isEmpty)

/-- `Delimit` -/
def delimit (wd : Char → Nat) (noHeader : Bool) (inp : List Char) : List Nat :=
  ((delimitLoop noHeader (tableSpaces wd inp) (byteSize wd inp + 2) 1 []).reverse).map Int.toNat

/-- the loader without delimiter positions -/
def decodeFixedAuto (wd : Char → Nat) (o : Opts) (inp : List Char) : Except Err DTable :=
  decodeFixed wd o (delimit wd o.withoutHeader inp) inp

end Csvq.Fixed
