/-
  Csvq.Model.Sort — sort values, the row comparison used by ORDER BY, OFFSET / LIMIT / PERCENT /
  WITH TIES.  Mirrors lib/query/sort_value.go (NewSortValue, SortValue.Less, SortValues.Less,
  EquivalentTo) and lib/query/view.go (OrderBy, Offset, Limit).
-/
import Csvq.Model.Float
namespace Csvq

/-- SortValue (non strict-equal mode). `int i f`: f = float64(i) as stored by NewSortValue;
    `s` = upper-trimmed text (only used when a number meets a string). -/
inductive SortVal
  | null
  | int (i : Int) (f : FVal) (s : Bytes)
  | flt (f : FVal) (s : Bytes)
  | dt (ns : Int)
  | bool (b : Bool)
  | str (s : Bytes)
  deriving DecidableEq, Repr, Inhabited

/-- NewSortValue; `txt` = upper(trim(ToString val)) for numbers -/
def toSortVal (p : Profile) (txt : Bytes) : SortVal :=
  if p.isNull then .null
  else match p.int? with
    | some i => .int i (FVal.ofInt i) txt
    | none => match p.flt? with
      | some f => .flt f txt
      | none => match p.dt? with
        | some ns => .dt (wrap64 ns)
        | none => match p.bool? with
          | some b => .bool b
          | none => match p.strU? with
            | some s => .str s
            | none => .null

def ofB (b : Bool) : Tern := if b then .T else .F

/-- the Float-vs-number branch of SortValue.Less (NaN sorts after every number) -/
def fltLess (x y : FVal) : Tern :=
  if x.isNaN || y.isNaN then
    (if x.isNaN && y.isNaN then .U else if x.isNaN then .F else .T)
  else if FVal.feq x y then .U
  else ofB (FVal.flt x y)

def strLess (x y : Bytes) : Tern := if x = y then .U else ofB (bytesLt x y)

/-- SortValue.Less -/
def SortVal.less : SortVal → SortVal → Tern
  | .int i _ _, .int j _ _ => if i = j then .U else ofB (i < j)
  | .int _ f _, .flt g _ => fltLess f g
  | .int _ _ s, .str t => ofB (bytesLt s t)
  | .flt f _, .int _ g _ => fltLess f g
  | .flt f _, .flt g _ => fltLess f g
  | .flt _ s, .str t => ofB (bytesLt s t)
  | .dt a, .dt b => if a = b then .U else ofB (a < b)
  | .str s, .int _ _ t => strLess s t
  | .str s, .flt _ t => strLess s t
  | .str s, .str t => strLess s t
  | _, _ => .U

def SortVal.isNull : SortVal → Bool
  | .null => true
  | _ => false

inductive Dir | asc | desc deriving DecidableEq, Repr, Inhabited
inductive NullPos | first | last deriving DecidableEq, Repr, Inhabited

structure OrdItem where
  dir : Dir
  np : NullPos
  deriving DecidableEq, Repr, Inhabited

/-- SortValues.Less -/
def rowsLess : List OrdItem → List SortVal → List SortVal → Bool
  | it :: its, a :: as, b :: bs =>
    match a.less b with
    | .T => (match it.dir with | .asc => true | .desc => false)
    | .F => (match it.dir with | .asc => false | .desc => true)
    | .U =>
      if a.isNull && !b.isNull then (match it.np with | .first => true | .last => false)
      else if !a.isNull && b.isNull then (match it.np with | .first => false | .last => true)
      else rowsLess its as bs
  | _, _, _ => false

/-- SortValue.EquivalentTo -/
def SortVal.equiv : SortVal → SortVal → Bool
  | .int i _ _, .int j _ _ => i == j
  | .int _ f _, .flt g _ => FVal.feq f g
  | .flt f _, .int _ g _ => FVal.feq f g
  | .int i _ _, .bool b => i == (if b then 1 else 0)
  | .flt f _, .flt g _ => (f.isNaN && g.isNaN) || FVal.feq f g
  | .dt a, .dt b => a == b
  | .bool a, .bool b => a == b
  | .bool b, .int i _ _ => i == (if b then 1 else 0)
  | .str s, .str t => s == t
  | .null, .null => true
  | _, _ => false

def rowsEquiv : List SortVal → List SortVal → Bool
  | a :: as, b :: bs => a.equiv b && rowsEquiv as bs
  | _, _ => true

/-! ### OFFSET / LIMIT -/

/-- View.Offset: n is the already converted integer; negative counts as 0 -/
def offsetRows {α} (n : Int) (rows : List α) : List α :=
  let k := if n < 0 then 0 else n.toNat
  if rows.length ≤ k then [] else rows.drop k

/-- the WITH TIES loop of View.Limit: extend `limit` while the next row is equivalent to the bottom row -/
def tiesLoop {α} (eqv : α → α → Bool) (bottom : α) : List α → Nat → Nat
  | [], limit => limit
  | r :: rest, limit => if eqv bottom r then tiesLoop eqv bottom rest (limit + 1) else limit

/-- View.Limit once the number of rows `limit` (≥ 0) has been computed -/
def limitRows {α} (eqv : α → α → Bool) (withTies : Bool) (limit : Nat) (rows : List α) : List α :=
  if rows.length ≤ limit then rows
  else if withTies && 0 < limit then
    match rows[limit - 1]? with
    | some bottom => rows.take (tiesLoop eqv bottom (rows.drop limit) limit)
    | none => rows.take limit
  else rows.take limit

/-- LIMIT n: negative counts as 0 -/
def limitNumber (n : Int) : Nat := if n < 0 then 0 else n.toNat

/-- ⌈x⌉ of a finite non-negative float, as an integer -/
def ceilNonneg (n : Int) : Nat :=
  let u : Int := FVal.unit
  ((n + u - 1) / u).toNat

/-- LIMIT p PERCENT: `total` = row count before OFFSET; the float arithmetic is the code's
    (float64(total) * p / 100, then Ceil); `none` = invalid percentage (NaN). -/
def limitPercent (total : Nat) (p : FVal) : Option Nat :=
  if p.isNaN then none
  else
    let p' := if FVal.flt (FVal.ofInt 100) p then FVal.ofInt 100 else if FVal.flt p (.fin 0) then .fin 0 else p
    match FVal.div (FVal.mul (FVal.ofInt total) p') (FVal.ofInt 100) with
    | .fin n => some (ceilNonneg n)
    | .negz => some 0
    | _ => none

/-! ### a reference ORDER BY (stable insertion sort by `lt`)

  The code hands `SortValues.Less` to Go's `sort.Sort`, whose algorithm (pdqsort, unstable) is outside the
  model.  `sortBy` is the reference: `Csvq.C07.sorted_perm_keys_unique` shows that EVERY sorted permutation of
  the rows — whatever algorithm produced it — carries the same sequence of sort keys as `sortBy`'s. -/

def insertBy {α} (lt : α → α → Bool) (x : α) : List α → List α
  | [] => [x]
  | y :: ys => if lt y x then y :: insertBy lt x ys else x :: y :: ys

def sortBy {α} (lt : α → α → Bool) : List α → List α
  | [] => []
  | x :: xs => insertBy lt x (sortBy lt xs)

/-- ORDER BY of the model: rows carry their sort values -/
def orderBy (its : List OrdItem) (rows : List (List SortVal)) : List (List SortVal) :=
  sortBy (rowsLess its) rows

end Csvq
