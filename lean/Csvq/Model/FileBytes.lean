/-
  Byte-level model of the file the commit writes into (the `.NAME.temp` of an updated table, or the
  created file itself): contents + write position of the one descriptor, with the semantics of
  ftruncate(2) (cuts the contents, does NOT move the position), lseek(2) to an absolute offset and
  write(2) at the position (a position past the end is filled with NUL bytes).  Core Lean only.
-/
namespace Csvq.FileBytes

abbrev Byte := Nat

structure F where
  bytes : List Byte
  pos   : Nat
deriving Repr, DecidableEq

def truncate0 (f : F) : F := { f with bytes := [] }
def seek0 (f : F) : F := { f with pos := 0 }

/-- write(2): overwrite / extend at the position; a hole is NUL-filled.  A write of no bytes does nothing
    (in particular it does not extend the file up to a position beyond its end). -/
def write (f : F) (w : List Byte) : F :=
  if w.isEmpty then f else
  let base := if f.pos ≤ f.bytes.length then f.bytes else f.bytes ++ List.replicate (f.pos - f.bytes.length) 0
  { bytes := base.take f.pos ++ w ++ base.drop (f.pos + w.length), pos := f.pos + w.length }

/-- the writes of one encoding run (the encoder flushes its buffer in pieces) -/
def writes (f : F) (ws : List (List Byte)) : F := ws.foldl write f

/-- interpretation of the effect tokens of one loop body of Transaction.Commit (extract/fsproto):
    `encode` performs the pieces `enc`, `write` (the ending line break) performs `lb`; control tokens
    and tokens without an effect on this file are skipped -/
def interp (enc : List (List Byte)) (lb : List Byte) : List String → F → F
  | [], f => f
  | "truncate" :: rest, f => interp enc lb rest (truncate0 f)
  | "seek" :: rest, f => interp enc lb rest (seek0 f)
  | "encode" :: rest, f => interp enc lb rest (writes f enc)
  | "write" :: rest, f => interp enc lb rest (write f lb)
  | _ :: rest, f => interp enc lb rest f



/-- what is known about the file while scanning a loop body -/
inductive Phase | none | truncated | sought | ready | encoded | written
deriving DecidableEq, Repr

/-- the scanner: `Option.none` = the body does something the discipline does not allow
    (encode into a file not emptied and rewound, a second encode, a reset after the encoding, …) -/
def next : Phase → String → Option Phase
  | .none, "truncate" => some .truncated
  | .none, "seek" => some .sought
  | .truncated, "truncate" => some .truncated
  | .truncated, "seek" => some .ready
  | .sought, "seek" => some .sought
  | .sought, "truncate" => some .ready
  | .ready, "truncate" => some .ready
  | .ready, "seek" => some .ready
  | .ready, "encode" => some .encoded
  | .encoded, "write" => some .written
  | _, "truncate" => Option.none
  | _, "seek" => Option.none
  | _, "encode" => Option.none
  | _, "write" => Option.none
  | ph, _ => some ph

def scan : Phase → List String → Option Phase
  | ph, [] => some ph
  | ph, t :: rest => match next ph t with
    | some ph' => scan ph' rest
    | Option.none => Option.none

/-- the bodies of the top-level-or-nested `loop{ … }` groups of an effect list, in order of their opening -/
def loopBodyFrom : List String → Nat → List String → Option (List String × List String)
  | [], _, _ => Option.none
  | "}" :: rest, 0, acc => some (acc.reverse, rest)
  | "}" :: rest, d + 1, acc => loopBodyFrom rest d ("}" :: acc)
  | t :: rest, d, acc =>
    if t = "loop{" ∨ t = "if{" then loopBodyFrom rest (d + 1) (t :: acc) else loopBodyFrom rest d (t :: acc)

def loopBodies : List String → Nat → List (List String)
  | _, 0 => []
  | [], _ => []
  | "loop{" :: rest, fuel + 1 =>
    match loopBodyFrom rest 0 [] with
    | some (body, _) => body :: loopBodies rest fuel
    | Option.none => loopBodies rest fuel
  | _ :: rest, fuel + 1 => loopBodies rest fuel

end Csvq.FileBytes
