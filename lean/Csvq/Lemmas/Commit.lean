/- Lemmas for the commit model: contents are handled parametrically, tables independently. -/
import Csvq.Model.Commit
namespace Csvq.Commit

theorem map_step {α β} (f : α → β) (op : FsOp) (s : TState α) : (stepOp op s).map f = stepOp op (s.map f) := by
  cases op <;> simp [stepOp, TState.map]
  cases h : s.temp <;> simp [TState.map, h]

theorem map_run {α β} (f : α → β) (ops : List FsOp) (s : TState α) :
    (runOps ops s).map f = runOps ops (s.map f) := by
  induction ops generalizing s with
  | nil => rfl
  | cons op ops ih => simp only [runOps, List.foldl_cons] at ih ⊢; rw [ih, map_step]

theorem sym_start {α} (old new : α) :
    symStart.map (fun b => if b then new else old) = startUpdate old new := by
  simp [symStart, startUpdate, TState.map]

/-- the symbolic check over all prefixes transfers to every pair of concrete contents -/
theorem old_or_new_of_check {α} (ops : List FsOp) (h : oldOrNewAllPrefixes ops = true) (k : Nat) (old new : α) :
    (runOps (ops.take k) (startUpdate old new)).data = some old ∨
    (runOps (ops.take k) (startUpdate old new)).data = some new := by
  -- reduce to k ≤ length
  have hk : ∃ k', k' ≤ ops.length ∧ ops.take k = ops.take k' := by
    by_cases hle : k ≤ ops.length
    · exact ⟨k, hle, rfl⟩
    · exact ⟨ops.length, Nat.le_refl _, by rw [List.take_of_length_le (by omega), List.take_length]⟩
  obtain ⟨k', hk', e⟩ := hk
  rw [e]
  unfold oldOrNewAllPrefixes at h
  rw [List.all_eq_true] at h
  have := h k' (by simp; omega)
  simp only [Bool.and_eq_true, Bool.not_eq_true', Bool.or_eq_true, beq_iff_eq] at this
  rw [← sym_start old new, ← map_run]
  rcases this.2 with d | d
  · left; simp [TState.map, d]
  · right; simp [TState.map, d]

theorem proj_cons_eq (i : Nat) (iop : Nat × FsOp) (l : List (Nat × FsOp)) (e : iop.1 = i) :
    proj i (iop :: l) = iop.2 :: proj i l := by simp [proj, List.filterMap_cons, e]
theorem proj_cons_ne (i : Nat) (iop : Nat × FsOp) (l : List (Nat × FsOp)) (e : ¬ iop.1 = i) :
    proj i (iop :: l) = proj i l := by simp [proj, List.filterMap_cons, e]

theorem proj_take (i : Nat) : ∀ (l : List (Nat × FsOp)) (k : Nat), ∃ k', proj i (l.take k) = (proj i l).take k'
  | [], k => ⟨0, by simp [proj]⟩
  | _ :: _, 0 => ⟨0, by simp [proj]⟩
  | iop :: l, k + 1 => by
    obtain ⟨k', h⟩ := proj_take i l k
    by_cases e : iop.1 = i
    · refine ⟨k' + 1, ?_⟩
      rw [List.take_succ_cons, proj_cons_eq i iop _ e, proj_cons_eq i iop _ e, h]; rfl
    · refine ⟨k', ?_⟩
      rw [List.take_succ_cons, proj_cons_ne i iop _ e, proj_cons_ne i iop _ e, h]

theorem runTagged_proj {α} (i : Nat) : ∀ (l : List (Nat × FsOp)) (s : Nat → TState α),
    (runTagged l s) i = runOps (proj i l) (s i)
  | [], s => by simp [runTagged, runOps, proj]
  | iop :: l, s => by
    have ih := runTagged_proj i l (stepTagged s iop)
    simp only [runTagged, List.foldl_cons] at ih ⊢
    rw [ih]
    by_cases e : iop.1 = i
    · subst e
      simp [proj, List.filterMap_cons, runOps, stepTagged]
    · have e' : ¬ i = iop.1 := fun x => e x.symm
      simp [proj, List.filterMap_cons, e, stepTagged, e']

end Csvq.Commit
