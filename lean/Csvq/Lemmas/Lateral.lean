/-
  Helper lemmas for the LATERAL model (Model/Lateral.lean): `mapE`, the worker and the workers as functions of
  `mapE` over the records they handle.
-/
import Csvq.Lemmas.Rel
import Csvq.Model.Lateral
namespace Csvq.Rel
open Csvq

/-- equality of results is decidable (used by the `decide` examples) -/
instance exceptDecEq {ε α} [DecidableEq ε] [DecidableEq α] : DecidableEq (Except ε α) := fun a b =>
  match a, b with
  | .ok x, .ok y => if h : x = y then isTrue (by rw [h]) else isFalse (by intro h'; cases h'; exact h rfl)
  | .error x, .error y => if h : x = y then isTrue (by rw [h]) else isFalse (by intro h'; cases h'; exact h rfl)
  | .ok _, .error _ => isFalse (by intro h; cases h)
  | .error _, .ok _ => isFalse (by intro h; cases h)

theorem mapE_total {ε α β} (f : α → β) (l : List α) :
    mapE (ε := ε) (fun a => .ok (f a)) l = .ok (l.map f) := by
  induction l with
  | nil => rfl
  | cons a as ih => simp only [mapE, ih, List.map_cons]

theorem mapE_append {ε α β} (f : α → Except ε β) (a b : List α) :
    mapE f (a ++ b) =
      match mapE f a with
      | .error e => .error e
      | .ok x =>
        match mapE f b with
        | .error e => .error e
        | .ok y => .ok (x ++ y) := by
  induction a with
  | nil =>
    simp only [List.nil_append, mapE]
    cases mapE f b <;> rfl
  | cons x xs ih =>
    simp only [List.cons_append, mapE]
    cases hx : f x with
    | error e => rfl
    | ok v =>
      simp only [ih]
      cases mapE f xs with
      | error e => rfl
      | ok ys =>
        simp only
        cases mapE f b <;> rfl

theorem mapE_length {ε α β} (f : α → Except ε β) (l : List α) (out : List β) (h : mapE f l = .ok out) :
    out.length = l.length := by
  induction l generalizing out with
  | nil => simp only [mapE, Except.ok.injEq] at h; subst h; rfl
  | cons a as ih =>
    simp only [mapE] at h
    cases ha : f a with
    | error e => rw [ha] at h; cases h
    | ok b =>
      rw [ha] at h
      cases hr : mapE f as with
      | error e => rw [hr] at h; cases h
      | ok bs =>
        rw [hr] at h
        simp only [Except.ok.injEq] at h
        subst h
        simp only [List.length_cons, ih bs hr]

/-- `mapE` fails with `e` iff some element fails with `e` and every element before it succeeds -/
theorem mapE_error_iff {ε α β} (f : α → Except ε β) (l : List α) (e : ε) :
    mapE f l = .error e ↔
      ∃ pre x post, l = pre ++ x :: post ∧ (∀ y, y ∈ pre → ∃ b, f y = .ok b) ∧ f x = .error e := by
  induction l with
  | nil =>
    simp only [mapE]
    constructor
    · intro h; cases h
    · rintro ⟨pre, x, post, h, _⟩; cases pre <;> simp at h
  | cons a as ih =>
    simp only [mapE]
    cases ha : f a with
    | error e' =>
      dsimp only
      constructor
      · intro h
        simp only [Except.error.injEq] at h
        subst h
        exact ⟨[], a, as, rfl, by simp, ha⟩
      · rintro ⟨pre, x, post, h, hpre, hx⟩
        cases pre with
        | nil =>
          simp only [List.nil_append, List.cons.injEq] at h
          rw [← h.1, ha] at hx
          simp only [Except.error.injEq] at hx ⊢
          exact hx
        | cons p ps =>
          simp only [List.cons_append, List.cons.injEq] at h
          obtain ⟨b, hb⟩ := hpre p List.mem_cons_self
          rw [← h.1, ha] at hb
          cases hb
    | ok b =>
      cases hr : mapE f as with
      | error e' =>
        dsimp only
        simp only [Except.error.injEq]
        constructor
        · intro h
          subst h
          obtain ⟨pre, x, post, h1, h2, h3⟩ := ih.mp hr
          refine ⟨a :: pre, x, post, by simp [h1], ?_, h3⟩
          intro y hy
          rcases List.mem_cons.mp hy with rfl | hy
          · exact ⟨b, ha⟩
          · exact h2 y hy
        · rintro ⟨pre, x, post, h, hpre, hx⟩
          cases pre with
          | nil =>
            simp only [List.nil_append, List.cons.injEq] at h
            rw [← h.1, ha] at hx
            cases hx
          | cons p ps =>
            simp only [List.cons_append, List.cons.injEq] at h
            have := ih.mpr ⟨ps, x, post, h.2, fun y hy => hpre y (List.mem_cons_of_mem _ hy), hx⟩
            rw [hr] at this
            simp only [Except.error.injEq] at this
            exact this
      | ok bs =>
        dsimp only
        constructor
        · intro h; cases h
        · rintro ⟨pre, x, post, h, hpre, hx⟩
          cases pre with
          | nil =>
            simp only [List.nil_append, List.cons.injEq] at h
            rw [← h.1, ha] at hx
            cases hx
          | cons p ps =>
            simp only [List.cons_append, List.cons.injEq] at h
            have := ih.mpr ⟨ps, x, post, h.2, fun y hy => hpre y (List.mem_cons_of_mem _ hy), hx⟩
            rw [hr] at this
            cases this

/-- what a worker leaves behind, in terms of `mapE` over its records: the header only from record 0 -/
def workerOut {η} (start : Nat) (ps : List (η × List Row)) : Option η × List (List Row) :=
  ((if start = 0 then (ps.head?).map (fun p => p.1) else none), ps.map (fun p => p.2))

theorem latWorker_eq {ε η} (fn : Row → Except ε (η × List Row)) (start : Nat) (ch : List Row) :
    latWorker fn start ch =
      match mapE fn ch with
      | .error e => .error e
      | .ok ps => .ok (workerOut start ps) := by
  induction ch generalizing start with
  | nil => simp [latWorker, mapE, workerOut]
  | cons l ls ih =>
    simp only [latWorker, mapE]
    cases hl : fn l with
    | error e => rfl
    | ok p =>
      obtain ⟨h, rows⟩ := p
      simp only [ih (start + 1)]
      cases mapE fn ls with
      | error e => rfl
      | ok ps =>
        simp only [workerOut, Nat.add_one_ne_zero, if_false, List.head?_cons, Option.map_some, List.map_cons]

theorem latWorkers_eq {ε η} (fn : Row → Except ε (η × List Row)) (start : Nat) (chunks : List (List Row)) :
    latWorkers fn start chunks =
      match mapE fn chunks.flatten with
      | .error e => .error e
      | .ok ps => .ok (workerOut start ps) := by
  induction chunks generalizing start with
  | nil => simp [latWorkers, mapE, workerOut]
  | cons ch rest ih =>
    simp only [latWorkers, List.flatten_cons, mapE_append, latWorker_eq, ih]
    cases h1 : mapE fn ch with
    | error e => rfl
    | ok ps1 =>
      simp only
      cases h2 : mapE fn rest.flatten with
      | error e => rfl
      | ok ps2 =>
        have hlen := mapE_length fn ch ps1 h1
        simp only [workerOut, List.map_append]
        congr 1
        congr 1
        by_cases hs : start = 0
        · subst hs
          cases ps1 with
          | nil =>
            have : ch.length = 0 := by rw [← hlen]; rfl
            simp [this]
          | cons p ps => simp
        · have : ¬ (start + ch.length = 0) := by omega
          simp [hs]

end Csvq.Rel
