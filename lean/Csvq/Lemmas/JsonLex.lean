/-
  Lemmas for the character level of Csvq.Model.Json (used by Csvq.Props.C02): what the compact encoder
  prints, the scanner reads back token by token.
-/
import Csvq.Lemmas.Json
import Csvq.Lemmas.JsonTable
namespace Csvq.Json
open Csvq.Csv (Err)

/-! ## number literals -/

/-- the digit character of a digit -/
def dc (d : Fin 10) : Char := Char.ofNat (48 + d.val)

def digitsOf (ds : List (Fin 10)) : List Char := ds.map dc

theorem dc_isDigit : ∀ d : Fin 10, isDigit (dc d) = true := by decide
theorem dc_zero : ∀ d : Fin 10, dc d = '0' ↔ d = 0 := by decide
theorem dc_plain : ∀ d : Fin 10, isWs (dc d) = false ∧ dc d ≠ '{' ∧ dc d ≠ '}' ∧ dc d ≠ '[' ∧ dc d ≠ ']' ∧ dc d ≠ ':' ∧
    dc d ≠ ',' ∧ dc d ≠ '"' ∧ dc d ≠ '-' ∧ dc d ≠ '.' ∧ dc d ≠ '+' := by decide

/-- the shape of a JSON number: sign, integer part without leading zero, fraction, exponent -/
structure NumShape where
  neg : Bool
  int : List (Fin 10)
  frac : Option (List (Fin 10))
  /-- upper-case `E`?, sign, digits -/
  exp : Option (Bool × Option Bool × List (Fin 10))

def NumShape.ok (s : NumShape) : Prop :=
  s.int ≠ [] ∧ (∀ t, s.int = 0 :: t → t = []) ∧ (∀ f, s.frac = some f → f ≠ []) ∧
  (∀ x, s.exp = some x → x.2.2 ≠ [])

def renderFrac : Option (List (Fin 10)) → List Char
  | some f => '.' :: digitsOf f
  | none => []

def renderSign : Option Bool → List Char
  | none => []
  | some true => ['+']
  | some false => ['-']

def renderExp : Option (Bool × Option Bool × List (Fin 10)) → List Char
  | some (u, sg, ds) => (if u then 'E' else 'e') :: (renderSign sg ++ digitsOf ds)
  | none => []

def render (s : NumShape) : List Char :=
  (if s.neg then ['-'] else []) ++ (digitsOf s.int ++ (renderFrac s.frac ++ renderExp s.exp))

/-- a number literal in any of the spellings of RFC 8259 -/
def NumLit (a : List Char) : Prop := ∃ s : NumShape, s.ok ∧ a = render s

/-- what may follow a number: no digit, no '.', no exponent mark -/
def NonNum (rest : List Char) : Prop :=
  ∀ c cs, rest = c :: cs → isDigit c = false ∧ c ≠ '.' ∧ c ≠ 'e' ∧ c ≠ 'E'

theorem takeDigits_nondigit (rest : List Char) (h : ∀ c cs, rest = c :: cs → isDigit c = false) :
    takeDigits rest = ([], rest) := by
  cases rest with
  | nil => rfl
  | cons c cs => simp [takeDigits, h c cs rfl]

theorem takeDigits_digits (ds : List (Fin 10)) (rest : List Char)
    (h : ∀ c cs, rest = c :: cs → isDigit c = false) :
    takeDigits (digitsOf ds ++ rest) = (digitsOf ds, rest) := by
  induction ds with
  | nil => simpa [digitsOf] using takeDigits_nondigit rest h
  | cons d ds ih =>
    simp only [digitsOf, List.map_cons, List.cons_append] at ih ⊢
    simp [takeDigits, dc_isDigit d, ih]

theorem scanInt_digits (ds : List (Fin 10)) (hne : ds ≠ []) (hz : ∀ t, ds = 0 :: t → t = []) (rest : List Char)
    (h : ∀ c cs, rest = c :: cs → isDigit c = false) :
    scanInt (digitsOf ds ++ rest) = some (digitsOf ds, rest) := by
  cases ds with
  | nil => exact absurd rfl hne
  | cons d t =>
    simp only [digitsOf, List.map_cons, List.cons_append, scanInt]
    by_cases hd : d = 0
    · subst hd
      have := hz t rfl
      subst this
      simp [(dc_zero 0).mpr rfl]
    · have : ¬ dc d = '0' := fun e => hd ((dc_zero d).mp e)
      have ht := takeDigits_digits t rest h
      simp only [digitsOf] at ht
      simp [this, dc_isDigit d, ht]

theorem scanFrac_render (f : Option (List (Fin 10))) (hf : ∀ x, f = some x → x ≠ []) (rest : List Char)
    (h : ∀ c cs, rest = c :: cs → isDigit c = false ∧ c ≠ '.') :
    scanFrac (renderFrac f ++ rest) = some (renderFrac f, rest) := by
  cases f with
  | none =>
    cases rest with
    | nil => rfl
    | cons c cs => simp [renderFrac, scanFrac, (h c cs rfl).2]
  | some x =>
    have hx := hf x rfl
    simp only [renderFrac, List.cons_append, scanFrac, if_true]
    rw [takeDigits_digits x rest (fun c cs e => (h c cs e).1)]
    cases x with
    | nil => exact absurd rfl hx
    | cons d t => simp [digitsOf]

theorem scanExp_render (e : Option (Bool × Option Bool × List (Fin 10))) (he : ∀ x, e = some x → x.2.2 ≠ [])
    (rest : List Char) (h : NonNum rest) :
    scanExp (renderExp e ++ rest) = some (renderExp e, rest) := by
  cases e with
  | none =>
    cases rest with
    | nil => rfl
    | cons c cs =>
      obtain ⟨_, _, h3, h4⟩ := h c cs rfl
      simp [renderExp, scanExp, h3, h4]
  | some x =>
    obtain ⟨u, sg, ds⟩ := x
    have hds : ds ≠ [] := he _ rfl
    have hnd : ∀ c cs, rest = c :: cs → isDigit c = false := fun c cs e => (h c cs e).1
    have htd := takeDigits_digits ds rest hnd
    obtain ⟨d, t, rfl⟩ : ∃ d t, ds = d :: t := by
      cases ds with
      | nil => exact absurd rfl hds
      | cons d t => exact ⟨d, t, rfl⟩
    have hE : (if u = true then 'E' else 'e') = 'e' ∨ (if u = true then 'E' else 'e') = 'E' := by
      cases u <;> simp
    cases sg with
    | none =>
      simp only [renderExp, renderSign, List.nil_append, List.cons_append, scanExp, hE, if_true]
      have hp := dc_plain d
      have h1 : ¬ (dc d = '+' ∨ dc d = '-') := by
        intro hh
        rcases hh with hh | hh
        · exact hp.2.2.2.2.2.2.2.2.2.2 hh
        · exact hp.2.2.2.2.2.2.2.2.1 hh
      simp only [digitsOf, List.map_cons, List.cons_append, h1, if_false] at htd ⊢
      rw [htd]
      simp
    | some b =>
      cases b with
      | true =>
        simp only [renderExp, renderSign, List.cons_append, List.nil_append, scanExp, hE, if_true]
        simp only [true_or, if_true]
        rw [htd]
        simp [digitsOf]
      | false =>
        simp only [renderExp, renderSign, List.cons_append, List.nil_append, scanExp, hE, if_true]
        simp only [or_true, if_true]
        rw [htd]
        simp [digitsOf]

theorem renderExp_head (e : Option (Bool × Option Bool × List (Fin 10))) (rest : List Char) (h : NonNum rest) :
    ∀ c cs, renderExp e ++ rest = c :: cs → isDigit c = false ∧ c ≠ '.' := by
  intro c cs hc
  cases e with
  | none => exact ⟨(h c cs hc).1, (h c cs hc).2.1⟩
  | some x =>
    obtain ⟨u, sg, ds⟩ := x
    simp only [renderExp, List.cons_append, List.cons.injEq] at hc
    obtain ⟨rfl, _⟩ := hc
    cases u <;> exact ⟨by decide, by decide⟩

theorem renderFrac_head (f : Option (List (Fin 10))) (tail : List Char)
    (h : ∀ c cs, tail = c :: cs → isDigit c = false ∧ c ≠ '.') :
    ∀ c cs, renderFrac f ++ tail = c :: cs → isDigit c = false := by
  intro c cs hc
  cases f with
  | none => exact (h c cs hc).1
  | some x =>
    simp only [renderFrac, List.cons_append, List.cons.injEq] at hc
    obtain ⟨rfl, _⟩ := hc
    decide

/-- **the number scanner reads a literal back whole** -/
theorem scanNumber_render (s : NumShape) (hs : s.ok) (rest : List Char) (h : NonNum rest) :
    scanNumber (render s ++ rest) = some (render s, rest) := by
  obtain ⟨h1, h2, h3, h4⟩ := hs
  have hexp := scanExp_render s.exp h4 rest h
  have hfrac := scanFrac_render s.frac h3 (renderExp s.exp ++ rest) (renderExp_head s.exp rest h)
  have hint := scanInt_digits s.int h1 h2 (renderFrac s.frac ++ (renderExp s.exp ++ rest))
    (renderFrac_head s.frac _ (renderExp_head s.exp rest h))
  obtain ⟨d, t, hdt⟩ : ∃ d t, s.int = d :: t := by
    cases hi : s.int with
    | nil => exact absurd hi h1
    | cons d t => exact ⟨d, t, rfl⟩
  unfold render
  cases hn : s.neg with
  | true =>
    simp only [if_true, List.cons_append, List.nil_append, List.append_assoc, scanNumber]
    rw [hint]
    simp only
    rw [hfrac]
    simp only
    rw [hexp]
  | false =>
    simp only [Bool.false_eq_true, if_false, List.nil_append, List.append_assoc]
    have hne : ¬ dc d = '-' := (dc_plain d).2.2.2.2.2.2.2.2.1
    have hform : digitsOf s.int ++ (renderFrac s.frac ++ (renderExp s.exp ++ rest))
        = dc d :: (digitsOf t ++ (renderFrac s.frac ++ (renderExp s.exp ++ rest))) := by
      simp [hdt, digitsOf]
    rw [hform]
    simp only [scanNumber, hne, if_false]
    rw [← hform, hint]
    simp only
    rw [hfrac]
    simp only
    rw [hexp]
    simp

theorem render_head (s : NumShape) (hs : s.ok) (rest : List Char) :
    ∃ c cs, render s ++ rest = c :: cs ∧ (c = '-' ∨ ∃ d, c = dc d) := by
  obtain ⟨h1, _, _, _⟩ := hs
  unfold render
  cases hn : s.neg with
  | true =>
    simp only [if_true, List.cons_append, List.nil_append]
    exact ⟨'-', _, rfl, Or.inl rfl⟩
  | false =>
    cases hi : s.int with
    | nil => exact absurd hi h1
    | cons d t =>
      simp only [Bool.false_eq_true, if_false, List.nil_append, digitsOf, List.map_cons, List.cons_append]
      exact ⟨dc d, _, rfl, Or.inr ⟨d, rfl⟩⟩

/-! ## one token -/

def prepend (ts : List Tok) : Except Err (List Tok) → Except Err (List Tok)
  | .ok us => .ok (ts ++ us)
  | .error e => .error e

theorem prepend_nil (r : Except Err (List Tok)) : prepend [] r = r := by cases r <;> rfl

theorem prepend_prepend (a b : List Tok) (r : Except Err (List Tok)) :
    prepend a (prepend b r) = prepend (a ++ b) r := by
  cases r <;> simp [prepend]

/-- where a value may end: at the end of the text, before `,` `}` `]` or a line break -/
def Stop (c : Char) : Prop := c = ',' ∨ c = '}' ∨ c = ']' ∨ c = '\n' ∨ c = '\r'

def Delim (rest : List Char) : Prop := ∀ c cs, rest = c :: cs → Stop c

theorem Delim.nonNum {rest : List Char} (h : Delim rest) : NonNum rest := by
  intro c cs hc
  rcases h c cs hc with rfl | rfl | rfl | rfl | rfl <;> exact ⟨by decide, by decide, by decide, by decide⟩

theorem Delim.nonLower {rest : List Char} (h : Delim rest) : ∀ c cs, rest = c :: cs → isLowerAscii c = false := by
  intro c cs hc
  rcases h c cs hc with rfl | rfl | rfl | rfl | rfl <;> decide

theorem lexF_ws (canon : List Char → Option (List Char)) (n : Nat) (c : Char) (rest : List Char) (h : isWs c = true) :
    lexF canon (n + 1) (c :: rest) = lexF canon n rest := by
  simp [lexF, h]

theorem lexF_punct (canon : List Char → Option (List Char)) (n : Nat) (rest : List Char) :
    lexF canon (n + 1) ('{' :: rest) = prepend [.lbrace] (lexF canon n rest) ∧
    lexF canon (n + 1) ('}' :: rest) = prepend [.rbrace] (lexF canon n rest) ∧
    lexF canon (n + 1) ('[' :: rest) = prepend [.lbrack] (lexF canon n rest) ∧
    lexF canon (n + 1) (']' :: rest) = prepend [.rbrack] (lexF canon n rest) ∧
    lexF canon (n + 1) (':' :: rest) = prepend [.colon] (lexF canon n rest) ∧
    lexF canon (n + 1) (',' :: rest) = prepend [.comma] (lexF canon n rest) := by
  refine ⟨?_, ?_, ?_, ?_, ?_, ?_⟩ <;>
    (simp only [lexF, isWs, Char.reduceEq, Bool.or_self, Bool.false_eq_true, if_false, if_true, decide_false]
     cases lexF canon n rest <;> rfl)

theorem lexF_str (canon : List Char → Option (List Char)) (t : Esc) (s : List Char)
    (h : t = .backslash → s.getLast? ≠ some '\\') (n : Nat) (rest : List Char) :
    lexF canon (n + 1) ('"' :: (escape t s ++ '"' :: rest)) = prepend [.str s] (lexF canon n rest) := by
  simp only [lexF, isWs, Char.reduceEq, Bool.or_self, Bool.false_eq_true, if_false, if_true, decide_false]
  simp only [scanStr_escape t s rest h, unescape_escape]
  cases lexF canon n rest <;> rfl

theorem takeLower_word (w : List Char) (hw : ∀ c ∈ w, isLowerAscii c = true) (rest : List Char)
    (h : ∀ c cs, rest = c :: cs → isLowerAscii c = false) : takeLower (w ++ rest) = (w, rest) := by
  induction w with
  | nil =>
    cases rest with
    | nil => rfl
    | cons c cs => simp [takeLower, h c cs rfl]
  | cons c cs ih =>
    simp [takeLower, hw c (by simp), ih (fun x hx => hw x (by simp [hx]))]

theorem lexF_true (canon : List Char → Option (List Char)) (n : Nat) (rest : List Char) (h : Delim rest) :
    lexF canon (n + 1) ('t' :: 'r' :: 'u' :: 'e' :: rest) = prepend [.tru] (lexF canon n rest) := by
  have := takeLower_word ['t', 'r', 'u', 'e'] (by decide) rest h.nonLower
  simp only [List.cons_append, List.nil_append] at this
  simp only [lexF, isWs, isDigit, Char.reduceEq, Bool.or_self, Bool.false_eq_true, if_false, this]
  simp
  cases lexF canon n rest <;> rfl

theorem lexF_false (canon : List Char → Option (List Char)) (n : Nat) (rest : List Char) (h : Delim rest) :
    lexF canon (n + 1) ('f' :: 'a' :: 'l' :: 's' :: 'e' :: rest) = prepend [.fls] (lexF canon n rest) := by
  have := takeLower_word ['f', 'a', 'l', 's', 'e'] (by decide) rest h.nonLower
  simp only [List.cons_append, List.nil_append] at this
  simp only [lexF, isWs, isDigit, Char.reduceEq, Bool.or_self, Bool.false_eq_true, if_false, this]
  simp
  cases lexF canon n rest <;> rfl

theorem lexF_null (canon : List Char → Option (List Char)) (n : Nat) (rest : List Char) (h : Delim rest) :
    lexF canon (n + 1) ('n' :: 'u' :: 'l' :: 'l' :: rest) = prepend [.nul] (lexF canon n rest) := by
  have := takeLower_word ['n', 'u', 'l', 'l'] (by decide) rest h.nonLower
  simp only [List.cons_append, List.nil_append] at this
  simp only [lexF, isWs, isDigit, Char.reduceEq, Bool.or_self, Bool.false_eq_true, if_false, this]
  simp
  cases lexF canon n rest <;> rfl

theorem lexF_num (canon : List Char → Option (List Char)) (a x : List Char) (ha : NumLit a) (hc : canon a = some x)
    (n : Nat) (rest : List Char) (h : Delim rest) :
    lexF canon (n + 1) (a ++ rest) = prepend [.num a] (lexF canon n rest) := by
  obtain ⟨s, hs, rfl⟩ := ha
  have hscan := scanNumber_render s hs rest h.nonNum
  obtain ⟨c, cs, hcs, hc0⟩ := render_head s hs rest
  rw [hcs] at hscan ⊢
  have hcond : isWs c = false ∧ c ≠ '{' ∧ c ≠ '}' ∧ c ≠ '[' ∧ c ≠ ']' ∧ c ≠ ':' ∧ c ≠ ',' ∧ c ≠ '"' ∧
      (isDigit c = true ∨ c = '-') := by
    rcases hc0 with rfl | ⟨d, rfl⟩
    · exact ⟨by decide, by decide, by decide, by decide, by decide, by decide, by decide, by decide, Or.inr rfl⟩
    · have hp := dc_plain d
      exact ⟨hp.1, hp.2.1, hp.2.2.1, hp.2.2.2.1, hp.2.2.2.2.1, hp.2.2.2.2.2.1, hp.2.2.2.2.2.2.1, hp.2.2.2.2.2.2.2.1,
        Or.inl (dc_isDigit d)⟩
  obtain ⟨c1, c2, c3, c4, c5, c6, c7, c8, c9⟩ := hcond
  simp only [lexF, c1, c2, c3, c4, c5, c6, c7, c8, Bool.false_eq_true, if_false]
  simp only [c9, if_true, hscan, hc]
  cases lexF canon n rest <;> rfl

/-! ## everything the compact encoder prints -/

/-- the scanner finds the end of the string (see `json_string_token`) -/
def StrOK (t : Esc) (s : List Char) : Prop := t = .backslash → s.getLast? ≠ some '\\'

/-- the text is not itself a JSON array or object (the encoder would embed it) -/
def NoEmbed (canon : List Char → Option (List Char)) (s : List Char) : Prop :=
  ∀ j, decode canon s = .ok (some j) → isComplex j = false

mutual
/-- a well-formed value: strings the scanner can delimit and that are not embedded, numbers that are
    literals and fixed points of `canon` -/
def PrintableV (t : Esc) (canon : List Char → Option (List Char)) : JS → Prop
  | .null => True
  | .bool _ => True
  | .str s => StrOK t s ∧ NoEmbed canon s
  | .num a => NumLit a ∧ canon a = some a
  | .arr is => PrintableL t canon is
  | .obj ms => PrintableM t canon ms

def PrintableL (t : Esc) (canon : List Char → Option (List Char)) : List JS → Prop
  | [] => True
  | x :: xs => PrintableV t canon x ∧ PrintableL t canon xs

def PrintableM (t : Esc) (canon : List Char → Option (List Char)) : List (List Char × JS) → Prop
  | [] => True
  | (k, v) :: ms => StrOK t k ∧ PrintableV t canon v ∧ PrintableM t canon ms
end

theorem delim_cons (c : Char) (rest : List Char) (h : Stop c) : Delim (c :: rest) := by
  intro x xs e
  injection e with e1 _
  subst e1; exact h

mutual
theorem lex_encS (t : Esc) (canon : List Char → Option (List Char)) :
    ∀ (j : JS), PrintableV t canon j → ∀ (n : Nat) (rest : List Char), Delim rest →
      lexF canon (n + (toksS j).length) (encS t canon j ++ rest) = prepend (toksS j) (lexF canon n rest)
  | .null, _, n, rest, hd => by
    simp only [toksS, encS, List.length_cons, List.length_nil, List.cons_append, List.nil_append]
    exact lexF_null canon n rest hd
  | .bool true, _, n, rest, hd => by
    simp only [toksS, encS, List.length_cons, List.length_nil, List.cons_append, List.nil_append]
    exact lexF_true canon n rest hd
  | .bool false, _, n, rest, hd => by
    simp only [toksS, encS, List.length_cons, List.length_nil, List.cons_append, List.nil_append]
    exact lexF_false canon n rest hd
  | .str s, hp, n, rest, _ => by
    simp only [PrintableV] at hp
    simp only [toksS, encS, quote, List.length_cons, List.length_nil, List.cons_append, List.append_assoc,
      List.nil_append]
    exact lexF_str canon t s hp.1 n rest
  | .num a, hp, n, rest, hd => by
    simp only [PrintableV] at hp
    simp only [toksS, encS, numText, hp.2, List.length_cons, List.length_nil]
    exact lexF_num canon a a hp.1 hp.2 n rest hd
  | .arr is, hp, n, rest, _ => by
    simp only [PrintableV] at hp
    have ih := lex_encItems t canon is hp (n + 1) (']' :: rest) (delim_cons _ _ (Or.inr (Or.inr (Or.inl rfl))))
    have e1 : n + (toksS (.arr is)).length = (n + 1 + (toksItems is).length) + 1 := by
      simp only [toksS, List.length_cons, List.length_append, List.length_nil]; omega
    have e2 : encS t canon (.arr is) ++ rest = '[' :: (encItems t canon is ++ ']' :: rest) := by
      simp [encS]
    rw [e1, e2, (lexF_punct canon _ _).2.2.1, ih, (lexF_punct canon _ _).2.2.2.1]
    simp [prepend_prepend, toksS]
  | .obj ms, hp, n, rest, _ => by
    simp only [PrintableV] at hp
    have ih := lex_encMembers t canon ms hp (n + 1) ('}' :: rest) (delim_cons _ _ (Or.inr (Or.inl rfl)))
    have e1 : n + (toksS (.obj ms)).length = (n + 1 + (toksMembers ms).length) + 1 := by
      simp only [toksS, List.length_cons, List.length_append, List.length_nil]; omega
    have e2 : encS t canon (.obj ms) ++ rest = '{' :: (encMembers t canon ms ++ '}' :: rest) := by
      simp [encS]
    rw [e1, e2, (lexF_punct canon _ _).1, ih, (lexF_punct canon _ _).2.1]
    simp [prepend_prepend, toksS]

theorem lex_encItems (t : Esc) (canon : List Char → Option (List Char)) :
    ∀ (is : List JS), PrintableL t canon is → ∀ (n : Nat) (rest : List Char), Delim rest →
      lexF canon (n + (toksItems is).length) (encItems t canon is ++ rest) = prepend (toksItems is) (lexF canon n rest)
  | [], _, n, rest, _ => by
    simp [toksItems, encItems, prepend_nil]
  | [x], hp, n, rest, hd => by
    simp only [PrintableL] at hp
    simp only [toksItems, encItems]
    exact lex_encS t canon x hp.1 n rest hd
  | x :: y :: xs, hp, n, rest, hd => by
    simp only [PrintableL] at hp
    have ih := lex_encItems t canon (y :: xs) (by simp only [PrintableL]; exact hp.2) n rest hd
    have ihx := lex_encS t canon x hp.1 (n + (toksItems (y :: xs)).length + 1)
      (',' :: (encItems t canon (y :: xs) ++ rest)) (delim_cons _ _ (Or.inl rfl))
    have e1 : n + (toksItems (x :: y :: xs)).length
        = (n + (toksItems (y :: xs)).length + 1) + (toksS x).length := by
      simp only [toksItems, List.length_append, List.length_cons]; omega
    have e2 : encItems t canon (x :: y :: xs) ++ rest
        = encS t canon x ++ ',' :: (encItems t canon (y :: xs) ++ rest) := by
      simp [encItems]
    rw [e1, e2, ihx, (lexF_punct canon _ _).2.2.2.2.2, ih]
    simp [prepend_prepend, toksItems]

theorem lex_encMembers (t : Esc) (canon : List Char → Option (List Char)) :
    ∀ (ms : List (List Char × JS)), PrintableM t canon ms → ∀ (n : Nat) (rest : List Char), Delim rest →
      lexF canon (n + (toksMembers ms).length) (encMembers t canon ms ++ rest)
        = prepend (toksMembers ms) (lexF canon n rest)
  | [], _, n, rest, _ => by
    simp [toksMembers, encMembers, prepend_nil]
  | [(k, v)], hp, n, rest, hd => by
    simp only [PrintableM] at hp
    have ihv := lex_encS t canon v hp.2.1 n rest hd
    have e1 : n + (toksMembers [(k, v)]).length = (n + (toksS v).length + 1) + 1 := by
      simp only [toksMembers, List.length_cons]; omega
    have e2 : encMembers t canon [(k, v)] ++ rest
        = '"' :: (escape t k ++ '"' :: (':' :: (encS t canon v ++ rest))) := by
      simp [encMembers, quote]
    rw [e1, e2, lexF_str canon t k hp.1, (lexF_punct canon _ _).2.2.2.2.1, ihv]
    simp [prepend_prepend, toksMembers]
  | (k, v) :: m2 :: ms, hp, n, rest, hd => by
    simp only [PrintableM] at hp
    have ih := lex_encMembers t canon (m2 :: ms) hp.2.2 n rest hd
    have ihv := lex_encS t canon v hp.2.1 (n + (toksMembers (m2 :: ms)).length + 1)
      (',' :: (encMembers t canon (m2 :: ms) ++ rest)) (delim_cons _ _ (Or.inl rfl))
    have e1 : n + (toksMembers ((k, v) :: m2 :: ms)).length
        = ((n + (toksMembers (m2 :: ms)).length + 1) + (toksS v).length + 1) + 1 := by
      simp only [toksMembers, List.length_append, List.length_cons]; omega
    have e2 : encMembers t canon ((k, v) :: m2 :: ms) ++ rest
        = '"' :: (escape t k ++ '"' :: (':' :: (encS t canon v ++ ',' :: (encMembers t canon (m2 :: ms) ++ rest)))) := by
      simp [encMembers, quote]
    rw [e1, e2, lexF_str canon t k hp.1, (lexF_punct canon _ _).2.2.2.2.1, ihv, (lexF_punct canon _ _).2.2.2.2.2, ih]
    simp [prepend_prepend, toksMembers]
end

/-! ## the whole text -/

theorem render_ne_nil (s : NumShape) (hs : s.ok) : render s ≠ [] := by
  obtain ⟨c, cs, h, _⟩ := render_head s hs []
  intro e
  rw [e] at h
  simp at h

mutual
theorem toksS_le (t : Esc) (canon : List Char → Option (List Char)) :
    ∀ (j : JS), PrintableV t canon j → (toksS j).length ≤ (encS t canon j).length
  | .null, _ => by simp [toksS, encS]
  | .bool true, _ => by simp [toksS, encS]
  | .bool false, _ => by simp [toksS, encS]
  | .str s, _ => by simp [toksS, encS, quote]
  | .num a, hp => by
    simp only [PrintableV] at hp
    obtain ⟨⟨s, hs, rfl⟩, hc⟩ := hp
    have := render_ne_nil s hs
    simp only [toksS, encS, numText, hc, List.length_cons, List.length_nil]
    cases h : render s with
    | nil => exact absurd h this
    | cons c cs => simp
  | .arr is, hp => by
    simp only [PrintableV] at hp
    have := toksItems_le t canon is hp
    simp only [toksS, encS, List.length_cons, List.length_append, List.length_nil]
    omega
  | .obj ms, hp => by
    simp only [PrintableV] at hp
    have := toksMembers_le t canon ms hp
    simp only [toksS, encS, List.length_cons, List.length_append, List.length_nil]
    omega

theorem toksItems_le (t : Esc) (canon : List Char → Option (List Char)) :
    ∀ (is : List JS), PrintableL t canon is → (toksItems is).length ≤ (encItems t canon is).length
  | [], _ => by simp [toksItems, encItems]
  | [x], hp => by
    simp only [PrintableL] at hp
    simpa [toksItems, encItems] using toksS_le t canon x hp.1
  | x :: y :: xs, hp => by
    simp only [PrintableL] at hp
    have h1 := toksS_le t canon x hp.1
    have h2 := toksItems_le t canon (y :: xs) (by simp only [PrintableL]; exact hp.2)
    simp only [toksItems, encItems, List.length_append, List.length_cons]
    omega

theorem toksMembers_le (t : Esc) (canon : List Char → Option (List Char)) :
    ∀ (ms : List (List Char × JS)), PrintableM t canon ms → (toksMembers ms).length ≤ (encMembers t canon ms).length
  | [], _ => by simp [toksMembers, encMembers]
  | [(k, v)], hp => by
    simp only [PrintableM] at hp
    have h1 := toksS_le t canon v hp.2.1
    simp only [toksMembers, encMembers, quote, List.length_append, List.length_cons, List.length_nil]
    omega
  | (k, v) :: m2 :: ms, hp => by
    simp only [PrintableM] at hp
    have h1 := toksS_le t canon v hp.2.1
    have h2 := toksMembers_le t canon (m2 :: ms) hp.2.2
    simp only [toksMembers, encMembers, quote, List.length_append, List.length_cons, List.length_nil]
    omega
end

theorem lexF_ws_only (canon : List Char → Option (List Char)) (w : List Char) (hw : ∀ c ∈ w, isWs c = true) (n : Nat) :
    lexF canon (n + w.length + 1) w = .ok [] := by
  induction w generalizing n with
  | nil => simp [lexF]
  | cons c cs ih =>
    have : n + (c :: cs).length + 1 = (n + cs.length + 1) + 1 := by simp; omega
    rw [this, lexF_ws canon _ c cs (hw c (by simp))]
    exact ih (fun x hx => hw x (by simp [hx])) n

/-- **scan ∘ print = id**: the text of a well-formed value, followed by white space, scans to the tokens of
    the value -/
theorem lex_encS_ws (t : Esc) (canon : List Char → Option (List Char)) (j : JS) (hp : PrintableV t canon j)
    (w : List Char) (hw : ∀ c ∈ w, c = '\n' ∨ c = '\r') :
    lex canon (encS t canon j ++ w) = .ok (toksS j) := by
  have hle := toksS_le t canon j hp
  have hd : Delim w := by
    intro c cs e
    rcases hw c (by simp [e]) with h | h
    · exact Or.inr (Or.inr (Or.inr (Or.inl h)))
    · exact Or.inr (Or.inr (Or.inr (Or.inr h)))
  have hws : ∀ c ∈ w, isWs c = true := by
    intro c hc
    rcases hw c hc with rfl | rfl <;> decide
  unfold lex
  have e : (encS t canon j ++ w).length + 1
      = (((encS t canon j).length - (toksS j).length) + w.length + 1) + (toksS j).length := by
    simp only [List.length_append]; omega
  rw [e, lex_encS t canon j hp _ w hd, lexF_ws_only canon w hws]
  simp [prepend]

mutual
theorem normalize_id (t : Esc) (canon : List Char → Option (List Char)) :
    ∀ (j : JS), PrintableV t canon j → ∀ n, normalize canon n j = j
  | j, _, 0 => by simp [normalize]
  | .null, _, n + 1 => by simp [normalize]
  | .bool _, _, n + 1 => by simp [normalize]
  | .num _, _, n + 1 => by simp [normalize]
  | .str s, hp, n + 1 => by
    simp only [PrintableV] at hp
    cases s with
    | nil => simp [normalize]
    | cons c cs =>
      simp only [normalize]
      cases hd : decode canon (c :: cs) with
      | error e => rfl
      | ok o =>
        cases o with
        | none => rfl
        | some j => simp [hp.2 j hd]
  | .arr is, hp, n + 1 => by
    simp only [PrintableV] at hp
    simp [normalize, normItems_id t canon is hp n]
  | .obj ms, hp, n + 1 => by
    simp only [PrintableV] at hp
    simp [normalize, normMembers_id t canon ms hp n]

theorem normItems_id (t : Esc) (canon : List Char → Option (List Char)) :
    ∀ (is : List JS), PrintableL t canon is → ∀ n, normItems canon n is = is
  | is, _, 0 => by simp [normItems]
  | [], _, n + 1 => by simp [normItems]
  | x :: xs, hp, n + 1 => by
    simp only [PrintableL] at hp
    simp [normItems, normalize_id t canon x hp.1 n, normItems_id t canon xs hp.2 n]

theorem normMembers_id (t : Esc) (canon : List Char → Option (List Char)) :
    ∀ (ms : List (List Char × JS)), PrintableM t canon ms → ∀ n, normMembers canon n ms = ms
  | ms, _, 0 => by simp [normMembers]
  | [], _, n + 1 => by simp [normMembers]
  | (k, v) :: ms, hp, n + 1 => by
    simp only [PrintableM] at hp
    simp [normMembers, normalize_id t canon v hp.2.1 n, normMembers_id t canon ms hp.2.2 n]
end

theorem encode_printable (t : Esc) (canon : List Char → Option (List Char)) (j : JS) (hp : PrintableV t canon j) :
    encode t canon j = encS t canon j := by
  simp [encode, normalize_id t canon j hp]

/-! ## JSON Lines: no line feed inside a record, the lines are found again -/

theorem hexDigit_noLF : ∀ k : Fin 16, hexDigit k.val ≠ '\n' := by decide

theorem hex4_noLF (m : Nat) : ∀ c ∈ hex4 m, c ≠ '\n' := by
  have h (k : Nat) (hk : k < 16) := hexDigit_noLF ⟨k, hk⟩
  intro c hc
  simp only [hex4, List.mem_cons, List.not_mem_nil, or_false] at hc
  rcases hc with rfl | rfl | rfl | rfl <;> exact h _ (Nat.mod_lt _ (by decide))

theorem encodeRune_noLF (c : Char) : ∀ x ∈ encodeRune c, x ≠ '\n' := by
  intro x hx
  unfold encodeRune at hx
  dsimp only at hx
  split at hx
  · simp only [List.mem_cons, List.mem_append] at hx
    rcases hx with rfl | rfl | h | rfl | rfl | h
    · decide
    · decide
    · exact hex4_noLF _ x h
    · decide
    · decide
    · exact hex4_noLF _ x h
  · simp only [List.mem_cons] at hx
    rcases hx with rfl | rfl | h
    · decide
    · decide
    · exact hex4_noLF _ x h

theorem escChar_noLF (t : Esc) (c : Char) : ∀ x ∈ escChar t c, x ≠ '\n' := by
  intro x hx
  cases t with
  | all => exact encodeRune_noLF c x hx
  | hex =>
    simp only [escChar, escHex] at hx
    split at hx
    · exact encodeRune_noLF c x hx
    · rename_i h1
      split at hx
      · exact encodeRune_noLF c x hx
      · simp only [List.mem_singleton] at hx
        subst hx
        intro e
        exact h1 (Or.inr (Or.inr (Or.inr (Or.inr (Or.inr (Or.inl e))))))
  | backslash =>
    simp only [escChar, escBackslash] at hx
    split at hx
    · rename_i h1
      simp only [List.mem_cons, List.not_mem_nil, or_false] at hx
      rcases hx with rfl | rfl
      · decide
      · rcases h1 with rfl | rfl | rfl <;> decide
    · split at hx
      · simp only [List.mem_cons, List.not_mem_nil, or_false] at hx; rcases hx with rfl | rfl <;> decide
      · split at hx
        · simp only [List.mem_cons, List.not_mem_nil, or_false] at hx; rcases hx with rfl | rfl <;> decide
        · rename_i hn
          split at hx
          · simp only [List.mem_cons, List.not_mem_nil, or_false] at hx; rcases hx with rfl | rfl <;> decide
          · rename_i hn2
            split at hx
            · simp only [List.mem_cons, List.not_mem_nil, or_false] at hx; rcases hx with rfl | rfl <;> decide
            · split at hx
              · simp only [List.mem_cons, List.not_mem_nil, or_false] at hx; rcases hx with rfl | rfl <;> decide
              · split at hx
                · exact encodeRune_noLF c x hx
                · simp only [List.mem_singleton] at hx
                  subst hx
                  exact hn2

theorem escape_noLF (t : Esc) (s : List Char) : ∀ x ∈ escape t s, x ≠ '\n' := by
  induction s with
  | nil => simp [escape]
  | cons c cs ih =>
    intro x hx
    simp only [escape, List.mem_append] at hx
    rcases hx with h | h
    · exact escChar_noLF t c x h
    · exact ih x h

theorem dc_noLF : ∀ d : Fin 10, dc d ≠ '\n' := by decide

theorem digitsOf_noLF (ds : List (Fin 10)) : ∀ x ∈ digitsOf ds, x ≠ '\n' := by
  intro x hx
  obtain ⟨d, _, rfl⟩ := List.mem_map.mp hx
  exact dc_noLF d

theorem render_noLF (s : NumShape) : ∀ x ∈ render s, x ≠ '\n' := by
  intro x hx
  simp only [render, List.mem_append] at hx
  rcases hx with h | h | h | h
  · split at h
    · simp only [List.mem_singleton] at h; subst h; decide
    · simp at h
  · exact digitsOf_noLF _ x h
  · cases hf : s.frac with
    | none => rw [hf] at h; simp [renderFrac] at h
    | some f =>
      rw [hf] at h
      simp only [renderFrac, List.mem_cons] at h
      rcases h with rfl | h
      · decide
      · exact digitsOf_noLF _ x h
  · cases he : s.exp with
    | none => rw [he] at h; simp [renderExp] at h
    | some e =>
      obtain ⟨u, sg, ds⟩ := e
      rw [he] at h
      simp only [renderExp, List.mem_cons, List.mem_append] at h
      rcases h with rfl | h | h
      · cases u <;> decide
      · cases sg with
        | none => simp [renderSign] at h
        | some b => cases b <;> (simp only [renderSign, List.mem_singleton] at h; subst h; decide)
      · exact digitsOf_noLF _ x h

theorem quote_noLF (t : Esc) (s : List Char) : ∀ x ∈ quote t s, x ≠ '\n' := by
  intro x hx
  simp only [quote, List.mem_cons, List.mem_append, List.not_mem_nil, or_false] at hx
  rcases hx with rfl | h | rfl
  · decide
  · exact escape_noLF t s x h
  · decide

mutual
theorem encS_noLF (t : Esc) (canon : List Char → Option (List Char)) :
    ∀ (j : JS), PrintableV t canon j → ∀ x ∈ encS t canon j, x ≠ '\n'
  | .null, _ => by simp only [encS]; decide
  | .bool true, _ => by simp only [encS]; decide
  | .bool false, _ => by simp only [encS]; decide
  | .str s, _ => by simp only [encS]; exact quote_noLF t s
  | .num a, hp => by
    simp only [PrintableV] at hp
    obtain ⟨⟨s, _, rfl⟩, hc⟩ := hp
    simp only [encS, numText, hc]
    exact render_noLF s
  | .arr is, hp => by
    simp only [PrintableV] at hp
    intro x hx
    simp only [encS, List.mem_cons, List.mem_append, List.not_mem_nil, or_false] at hx
    rcases hx with rfl | h | rfl
    · decide
    · exact encItems_noLF t canon is hp x h
    · decide
  | .obj ms, hp => by
    simp only [PrintableV] at hp
    intro x hx
    simp only [encS, List.mem_cons, List.mem_append, List.not_mem_nil, or_false] at hx
    rcases hx with rfl | h | rfl
    · decide
    · exact encMembers_noLF t canon ms hp x h
    · decide

theorem encItems_noLF (t : Esc) (canon : List Char → Option (List Char)) :
    ∀ (is : List JS), PrintableL t canon is → ∀ x ∈ encItems t canon is, x ≠ '\n'
  | [], _ => by simp [encItems]
  | [y], hp => by
    simp only [PrintableL] at hp
    simp only [encItems]
    exact encS_noLF t canon y hp.1
  | y :: z :: zs, hp => by
    simp only [PrintableL] at hp
    intro x hx
    simp only [encItems, List.mem_append, List.mem_cons] at hx
    rcases hx with h | rfl | h
    · exact encS_noLF t canon y hp.1 x h
    · decide
    · exact encItems_noLF t canon (z :: zs) (by simp only [PrintableL]; exact hp.2) x h

theorem encMembers_noLF (t : Esc) (canon : List Char → Option (List Char)) :
    ∀ (ms : List (List Char × JS)), PrintableM t canon ms → ∀ x ∈ encMembers t canon ms, x ≠ '\n'
  | [], _ => by simp [encMembers]
  | [(k, v)], hp => by
    simp only [PrintableM] at hp
    intro x hx
    simp only [encMembers, List.mem_append, List.mem_cons] at hx
    rcases hx with h | rfl | h
    · exact quote_noLF t k x h
    · decide
    · exact encS_noLF t canon v hp.2.1 x h
  | (k, v) :: m2 :: ms, hp => by
    simp only [PrintableM] at hp
    intro x hx
    simp only [encMembers, List.mem_append, List.mem_cons] at hx
    rcases hx with (h | rfl | h) | rfl | h
    · exact quote_noLF t k x h
    · decide
    · exact encS_noLF t canon v hp.2.1 x h
    · decide
    · exact encMembers_noLF t canon (m2 :: ms) hp.2.2 x h
end

theorem splitLines_line (l : List Char) (hl : ∀ x ∈ l, x ≠ '\n') (acc rest : List Char) :
    splitLines acc (l ++ '\n' :: rest) = (acc.reverse ++ l ++ ['\n']) :: splitLines [] rest := by
  induction l generalizing acc with
  | nil => simp [splitLines]
  | cons c cs ih =>
    have hc : c ≠ '\n' := hl c (by simp)
    simp only [List.cons_append, splitLines, hc, if_false]
    rw [ih (fun x hx => hl x (by simp [hx]))]
    simp

/-- lines that end in LF or CR LF and contain no other LF are found again -/
theorem splitLines_lines (lines : List (List Char)) (cr : Bool) (hl : ∀ l ∈ lines, ∀ x ∈ l, x ≠ '\n') :
    splitLines [] ((lines.map fun l => l ++ (if cr then ['\r', '\n'] else ['\n'])).flatten)
      = lines.map fun l => l ++ (if cr then ['\r', '\n'] else ['\n']) := by
  induction lines with
  | nil => simp [splitLines]
  | cons l ls ih =>
    simp only [List.map_cons, List.flatten_cons]
    cases cr with
    | false =>
      simp only [Bool.false_eq_true, if_false, List.append_assoc, List.cons_append, List.nil_append] at ih ⊢
      rw [splitLines_line l (hl l (by simp)), ih (fun x hx => hl x (by simp [hx]))]
      simp
    | true =>
      simp only [if_true, List.append_assoc, List.cons_append, List.nil_append] at ih ⊢
      have : l ++ '\r' :: '\n' :: (List.map (fun l => l ++ ['\r', '\n']) ls).flatten
          = (l ++ ['\r']) ++ '\n' :: (List.map (fun l => l ++ ['\r', '\n']) ls).flatten := by simp
      rw [this, splitLines_line (l ++ ['\r']) (by
        intro x hx
        rcases List.mem_append.mp hx with h | h
        · exact hl l (by simp) x h
        · simp only [List.mem_singleton] at h; subst h; decide),
        ih (fun x hx => hl x (by simp [hx]))]
      simp

end Csvq.Json
