/- Lemmas about the in-place shift of View.Offset (Model/Shift.lean): the state after the first `m` writes of the
   ascending schedule. -/
import Csvq.Model.Shift
namespace Csvq.Shift
variable {α : Type}

/-- the array after the writes 0 … m-1 in ascending order: the first `m` slots hold the rows `off … off+m-1`, the
    rest is untouched -/
def after (off : Nat) (a : List α) (m : Nat) : List α := (a.drop off).take m ++ a.drop m

theorem step_after (off : Nat) (a : List α) (m : Nat) (h : m + off < a.length) :
    step off (after off a m) m = after off a (m + 1) := by
  unfold step after
  have hlen : ((a.drop off).take m).length = m := by simp; omega
  have hread : ((a.drop off).take m ++ a.drop m)[m + off]? = some a[m + off] := by
    rw [List.getElem?_append_right (by omega), hlen, List.getElem?_drop]
    have : m + (m + off - m) = m + off := by omega
    rw [this]; exact List.getElem?_eq_getElem h
  rw [hread]
  apply List.ext_getElem?
  intro j
  simp only [List.getElem?_set, List.getElem?_append, List.getElem?_take, List.getElem?_drop, List.length_take,
    List.length_drop, List.length_append]
  have e1 : min m (a.length - off) = m := by omega
  have e2 : min (m + 1) (a.length - off) = m + 1 := by omega
  rw [e1, e2]
  by_cases hj : m = j
  · subst hj
    simp
    have h0 : 0 < a.length - m := by omega
    have h2 : off + m < a.length := by omega
    rw [if_pos h0, List.getElem?_eq_getElem h2]
    congr 2; omega
  · by_cases hlt : j < m
    · have : j < m + 1 := by omega
      simp [hj, hlt, this]
    · have h1 : ¬ j < m + 1 := by omega
      simp [hj, hlt, h1]
      congr 1; omega

theorem run_range_after (off : Nat) (a : List α) (m : Nat) (h : m + off ≤ a.length) :
    run off a (List.range m) = after off a m := by
  induction m with
  | zero => simp [run, after]
  | succ m ih =>
    have ih' := ih (by omega)
    unfold run at *
    rw [List.range_succ, List.foldl_append, ih']
    simp only [List.foldl_cons, List.foldl_nil]
    exact step_after off a m (by omega)

end Csvq.Shift
