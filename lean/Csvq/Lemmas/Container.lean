/- Lemmas about the container state machine (Model/Container.lean). -/
import Csvq.Model.Container
namespace Csvq.Container

/-- one handler per key -/
def Uniq (s : St) : Prop := ∀ k a b, (k, a) ∈ s.reg → (k, b) ∈ s.reg → a = b

def Good (s : St) : Prop := Inv s ∧ Uniq s

theorem lookup_mem (s : St) (key h : Nat) (hl : lookup s key = some h) : (key, h) ∈ s.reg := by
  unfold lookup at hl
  cases hf : s.reg.find? (·.1 = key) with
  | none => simp [hf] at hl
  | some x =>
    obtain ⟨a, b⟩ := x
    simp [hf] at hl
    have hm := List.mem_of_find?_eq_some hf
    have hp := List.find?_some hf
    simp at hp
    subst hl; subst hp
    exact hm

theorem lookup_none (s : St) (key : Nat) (hl : lookup s key = none) : ∀ h, (key, h) ∉ s.reg := by
  intro h hm
  unfold lookup at hl
  cases hf : s.reg.find? (·.1 = key) with
  | none =>
    have := List.find?_eq_none.mp hf (key, h) hm
    simp at this
  | some x => simp [hf] at hl

theorem good_drop (s : St) (key h : Nat) (hg : Good s) (hl : lookup s key = some h) : Good (drop s key h) := by
  obtain ⟨hi, hu⟩ := hg
  have hm := lookup_mem s key h hl
  constructor
  · intro x hx
    simp only [drop, List.mem_filter, decide_eq_true_eq] at hx
    obtain ⟨k, hkx⟩ := hi x hx.1
    refine ⟨k, ?_⟩
    simp only [drop, List.mem_filter, decide_eq_true_eq]
    refine ⟨hkx, ?_⟩
    intro hkk
    subst hkk
    exact hx.2 (hu k x h hkx hm)
  · intro k a b ha hb
    simp only [drop, List.mem_filter] at ha hb
    exact hu k a b ha.1 hb.1

theorem good_step (s : St) (op : Op) (hg : Good s) : Good (step s op) := by
  cases op with
  | create key h openOk =>
    simp only [step]
    cases openOk with
    | false => simpa using hg
    | true =>
      simp only [Bool.not_true, Bool.false_eq_true, if_false]
      cases hl : lookup s key with
      | some _ => exact hg
      | none =>
        obtain ⟨hi, hu⟩ := hg
        have hn := lookup_none s key hl
        constructor
        · intro x hx
          simp only [List.mem_append, List.mem_singleton] at hx
          rcases hx with hx | hx
          · obtain ⟨k, hk⟩ := hi x hx
            exact ⟨k, by simp [hk]⟩
          · subst hx; exact ⟨key, by simp⟩
        · intro k a b ha hb
          simp only [List.mem_append, List.mem_singleton, Prod.mk.injEq] at ha hb
          rcases ha with ha | ha <;> rcases hb with hb | hb
          · exact hu k a b ha hb
          · obtain ⟨rfl, rfl⟩ := hb; exact absurd ha (hn a)
          · obtain ⟨rfl, rfl⟩ := ha; exact absurd hb (hn b)
          · rw [ha.2, hb.2]
  | close key ok =>
    simp only [step]
    cases hl : lookup s key with
    | none => exact hg
    | some h => cases ok with
      | false => simpa using hg
      | true => simpa using good_drop s key h hg hl
  | commit key ok =>
    simp only [step]
    cases hl : lookup s key with
    | none => exact hg
    | some h => cases ok with
      | false => simpa using hg
      | true => simpa using good_drop s key h hg hl
  | closeWE key =>
    simp only [step]
    cases hl : lookup s key with
    | none => exact hg
    | some h => exact good_drop s key h hg hl
  | closeAllWE =>
    simp only [step]
    constructor
    · intro x hx
      simp only [List.mem_filter, Bool.not_eq_eq_eq_not, Bool.not_true, List.any_eq_false] at hx
      obtain ⟨k, hk⟩ := hg.1 x hx.1
      have := hx.2 (k, x) hk
      simp at this
    · intro k a b ha; cases ha

theorem good_run (ops : List Op) : ∀ s, Good s → Good (run s ops) := by
  induction ops with
  | nil => intro s h; exact h
  | cons op ops ih => intro s h; exact ih (step s op) (good_step s op h)

theorem good_init : Good init := by
  constructor
  · intro h hh; cases hh
  · intro k a b ha; cases ha

end Csvq.Container
