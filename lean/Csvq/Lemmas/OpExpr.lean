/-
  Helper definitions and lemmas for C18 (operator expressions): which trees the precedence-climbing parser builds,
  and that it reads every such tree back from its printed tokens.
-/
import Csvq.Model.OpExpr
namespace Csvq.OpExpr
variable {α : Type} [DecidableEq α] (tbl : Table α)
set_option linter.unusedSectionVars false

/-- the levels of the rules still pending along the right edge of a tree (outermost first) -/
def rctx : Expr α → List Nat
  | .bin _ t _ r => (match tbl.bin t with | some (l, _) => [l] | none => []) ++ rctx r
  | .pre t _ e => (match tbl.pre t with | some p => [p] | none => []) ++ rctx e
  | _ => []

/-- the operators applied along the left edge of a tree (outermost first): what a loop shifted to build it -/
def lops : Expr α → List (Nat × Assoc)
  | .bin l t _ _ => (match tbl.bin t with | some la => [la] | none => []) ++ lops l
  | .post e t _ _ => (match tbl.post t with | some la => [la] | none => []) ++ lops e
  | _ => []

/-- `e` can be the result of a loop whose pending rule has level `r`: every operator it applied was shifted -/
def Fits (r : Nat) (e : Expr α) : Prop := ∀ la ∈ lops tbl e, act la.1 la.2 r = .shift

/-- an operator of level `l` (declared `a`) is not taken by any of the pending rules `cs` -/
def Reduces (l : Nat) (a : Assoc) (cs : List Nat) : Prop := ∀ c ∈ cs, act l a c = .reduce

/-- the next token does not continue an expression whose pending rules are `cs` -/
def Stop (cs : List Nat) : List (Tok α) → Prop
  | .sym t _ :: _ =>
    match tbl.bin t with
    | some (l, a) => Reduces l a cs
    | none =>
      match tbl.post t with
      | some (l, a) => Reduces l a cs
      | none => True
  | _ => True

/-- the trees the parser builds: an operand whose root (or right edge) binds weaker than — or equal to, on the
    side that does not associate — the operator applied to it must be a `paren` node -/
def WF : Expr α → Prop
  | .atom _ => True
  | .paren e => WF e ∧ Fits tbl 0 e
  | .pre t _ e => ∃ p, tbl.pre t = some p ∧ WF e ∧ Fits tbl p e
  | .bin L t _ R => ∃ l a, tbl.bin t = some (l, a) ∧ WF L ∧ WF R ∧ Reduces l a (rctx tbl L) ∧ Fits tbl l R
  | .post e t _ _ => tbl.bin t = none ∧ ∃ l a, tbl.post t = some (l, a) ∧ WF e ∧ Reduces l a (rctx tbl e)

/-- a tree the parser can build at the top level (no rule pending) -/
def WellFormed (e : Expr α) : Prop := WF tbl e ∧ Fits tbl 0 e

def cost : Expr α → Nat
  | .atom _ => 1
  | .paren e => cost e + 3
  | .pre _ _ e => cost e + 3
  | .bin l _ _ r => cost l + cost r + 2
  | .post e _ _ _ => cost e + 1

theorem cost_le (e : Expr α) : cost e ≤ 3 * (print tbl e).length := by
  induction e with
  | atom n => simp [cost, print]
  | paren e ih => simp [cost, print]; omega
  | pre t v e ih => simp [cost, print]; omega
  | bin l t v r ihl ihr => simp [cost, print]; omega
  | post e t neg w ih => simp [cost, print]; split <;> simp <;> omega

theorem stop_nil (ts : List (Tok α)) : Stop tbl [] ts := by
  unfold Stop
  split
  · split
    · intro c hc; simp at hc
    · split
      · intro c hc; simp at hc
      · trivial
  · trivial

/-! ## more fuel never changes a result -/

theorem mono_step : ∀ n : Nat,
    (∀ r ts x, parseE tbl n r ts = some x → parseE tbl (n + 1) r ts = some x) ∧
    (∀ ts x, parseUnit tbl n ts = some x → parseUnit tbl (n + 1) ts = some x) ∧
    (∀ r lhs ts x, parseLoop tbl n r lhs ts = some x → parseLoop tbl (n + 1) r lhs ts = some x)
  | 0 => by simp [parseE, parseUnit, parseLoop]
  | n + 1 => by
    obtain ⟨ihE, ihU, ihL⟩ := mono_step n
    refine ⟨?_, ?_, ?_⟩
    · intro r ts x h
      rw [parseE] at h
      rw [parseE]
      cases hu : parseUnit tbl n ts with
      | none => simp [hu] at h
      | some p =>
        obtain ⟨u, ts1⟩ := p
        simp only [hu] at h
        simp only [ihU _ _ hu]
        exact ihL _ _ _ _ h
    · intro ts x h
      cases ts with
      | nil => simp [parseUnit] at h
      | cons t ts' =>
        cases t with
        | atom k => simpa [parseUnit] using h
        | rpar => simp [parseUnit] at h
        | lit w => simp [parseUnit] at h
        | kw k => simp [parseUnit] at h
        | lpar =>
          simp only [parseUnit] at h ⊢
          cases he : parseE tbl n 0 ts' with
          | none => simp [he] at h
          | some p => simp only [he] at h; simp only [ihE _ _ _ he]; exact h
        | sym t v =>
          simp only [parseUnit] at h ⊢
          cases hp : tbl.pre t with
          | none => simp [hp] at h
          | some p =>
            simp only [hp] at h ⊢
            cases he : parseE tbl n p ts' with
            | none => simp [he] at h
            | some q => simp only [he] at h; simp only [ihE _ _ _ he]; exact h
    · intro r lhs ts x h
      cases ts with
      | nil => simpa [parseLoop] using h
      | cons t ts' =>
        cases t with
        | atom k => simpa [parseLoop] using h
        | rpar => simpa [parseLoop] using h
        | lpar => simpa [parseLoop] using h
        | lit w => simpa [parseLoop] using h
        | kw k => simpa [parseLoop] using h
        | sym t v =>
          simp only [parseLoop] at h ⊢
          cases hb : tbl.bin t with
          | some la =>
            obtain ⟨l, a⟩ := la
            simp only [hb] at h ⊢
            cases ha : act l a r with
            | shift =>
              simp only [ha] at h ⊢
              cases he : parseE tbl n l ts' with
              | none => simp [he] at h
              | some q => simp only [he] at h; simp only [ihE _ _ _ he]; exact ihL _ _ _ _ h
            | reduce => simpa [ha] using h
            | error => simp [ha] at h
          | none =>
            simp only [hb] at h ⊢
            cases hp : tbl.post t with
            | none => simpa [hp] using h
            | some la =>
              obtain ⟨l, a⟩ := la
              simp only [hp] at h ⊢
              cases ha : act l a r with
              | shift =>
                simp only [ha] at h ⊢
                cases hpt : postTail tbl ts' with
                | none => simp [hpt] at h
                | some q => simp only [hpt] at h ⊢; exact ihL _ _ _ _ h
              | reduce => simpa [ha] using h
              | error => simp [ha] at h

theorem monoE {n m : Nat} (h : n ≤ m) {r : Nat} {ts : List (Tok α)} {x} (hx : parseE tbl n r ts = some x) :
    parseE tbl m r ts = some x := by
  induction h with
  | refl => exact hx
  | step _ ih => exact (mono_step tbl _).1 _ _ _ ih

theorem monoL {n m : Nat} (h : n ≤ m) {r : Nat} {lhs : Expr α} {ts : List (Tok α)} {x}
    (hx : parseLoop tbl n r lhs ts = some x) : parseLoop tbl m r lhs ts = some x := by
  induction h with
  | refl => exact hx
  | step _ ih => exact (mono_step tbl _).2.2 _ _ _ _ ih

theorem loop_pos {n r : Nat} {lhs : Expr α} {ts : List (Tok α)} {x} (h : parseLoop tbl n r lhs ts = some x) : 1 ≤ n := by
  cases n with
  | zero => simp [parseLoop] at h
  | succ n => omega

/-- a loop whose pending rule is not continued by the next token returns at once -/
theorem loop_return (r : Nat) (lhs : Expr α) (ts : List (Tok α)) (h : Stop tbl [r] ts) (n : Nat) :
    parseLoop tbl (n + 1) r lhs ts = some (lhs, ts) := by
  cases ts with
  | nil => simp [parseLoop]
  | cons t ts' =>
    cases t with
    | atom k => simp [parseLoop]
    | rpar => simp [parseLoop]
    | lpar => simp [parseLoop]
    | lit w => simp [parseLoop]
    | kw k => simp [parseLoop]
    | sym t v =>
      simp only [parseLoop]
      unfold Stop at h
      cases hb : tbl.bin t with
      | some la =>
        obtain ⟨l, a⟩ := la
        simp only [hb] at h ⊢
        have := h r (by simp)
        simp [this]
      | none =>
        simp only [hb] at h ⊢
        cases hp : tbl.post t with
        | none => simp
        | some la =>
          obtain ⟨l, a⟩ := la
          simp only [hp] at h ⊢
          have := h r (by simp)
          simp [this]

theorem stop_nonsym_rpar (cs : List Nat) (rest : List (Tok α)) : Stop tbl cs (.rpar :: rest) := by
  simp [Stop]

/-- reading a well-formed tree back: if the loop that holds `e` as its left operand goes on to `res`,
    then so does the parser started on the printed tokens of `e` (with enough fuel) -/
theorem parseE_print : ∀ (e : Expr α), WF tbl e → ∀ (r : Nat) (rest : List (Tok α)) (n : Nat) (res : Expr α × List (Tok α)),
    Fits tbl r e → Stop tbl (rctx tbl e) rest → parseLoop tbl n r e rest = some res →
    ∀ m, n + cost e ≤ m → parseE tbl m r (print tbl e ++ rest) = some res
  | .atom k, _, r, rest, n, res, _, _, h, m, hm => by
    have hn := loop_pos tbl h
    obtain ⟨m1, rfl⟩ : ∃ m1, m = m1 + 1 := ⟨m - 1, by simp [cost] at hm; omega⟩
    obtain ⟨m2, rfl⟩ : ∃ m2, m1 = m2 + 1 := ⟨m1 - 1, by simp [cost] at hm; omega⟩
    simp only [print, List.cons_append, List.nil_append, parseE, parseUnit]
    exact monoL tbl (by simp [cost] at hm; omega) h
  | .paren x, hwf, r, rest, n, res, _, _, h, m, hm => by
    have hn := loop_pos tbl h
    obtain ⟨hwx, hfx⟩ := hwf
    obtain ⟨m1, rfl⟩ : ∃ m1, m = m1 + 1 := ⟨m - 1, by simp [cost] at hm; omega⟩
    obtain ⟨m2, rfl⟩ : ∃ m2, m1 = m2 + 1 := ⟨m1 - 1, by simp [cost] at hm; omega⟩
    have hx : parseE tbl m2 0 (print tbl x ++ .rpar :: rest) = some (x, .rpar :: rest) :=
      parseE_print x hwx 0 (.rpar :: rest) 1 (x, .rpar :: rest) hfx (stop_nonsym_rpar tbl _ _)
        (loop_return tbl 0 x _ (stop_nonsym_rpar tbl _ _) 0) m2 (by simp [cost] at hm; omega)
    have e1 : print tbl (.paren x) ++ rest = .lpar :: (print tbl x ++ .rpar :: rest) := by simp [print]
    rw [e1]
    simp only [parseE, parseUnit, hx]
    exact monoL tbl (by simp [cost] at hm; omega) h
  | .pre t v x, hwf, r, rest, n, res, _, hstop, h, m, hm => by
    have hn := loop_pos tbl h
    obtain ⟨p, hp, hwx, hfx⟩ := hwf
    obtain ⟨m1, rfl⟩ : ∃ m1, m = m1 + 1 := ⟨m - 1, by simp [cost] at hm; omega⟩
    obtain ⟨m2, rfl⟩ : ∃ m2, m1 = m2 + 1 := ⟨m1 - 1, by simp [cost] at hm; omega⟩
    have hc : rctx tbl (.pre t v x) = p :: rctx tbl x := by simp [rctx, hp]
    rw [hc] at hstop
    have hstop1 : Stop tbl [p] rest := by
      unfold Stop at hstop ⊢
      split
      · rename_i t' v' ts'
        simp only at hstop
        cases hb : tbl.bin t' with
        | some la => obtain ⟨l, a⟩ := la; simp only [hb] at hstop ⊢; intro c hc; exact hstop c (by simp at hc; simp [hc])
        | none =>
          simp only [hb] at hstop ⊢
          cases hq : tbl.post t' with
          | none => trivial
          | some la => obtain ⟨l, a⟩ := la; simp only [hq] at hstop ⊢; intro c hc; exact hstop c (by simp at hc; simp [hc])
      · trivial
    have hstop2 : Stop tbl (rctx tbl x) rest := by
      unfold Stop at hstop ⊢
      split
      · rename_i t' v' ts'
        simp only at hstop
        cases hb : tbl.bin t' with
        | some la => obtain ⟨l, a⟩ := la; simp only [hb] at hstop ⊢; intro c hc; exact hstop c (by simp [hc])
        | none =>
          simp only [hb] at hstop ⊢
          cases hq : tbl.post t' with
          | none => trivial
          | some la => obtain ⟨l, a⟩ := la; simp only [hq] at hstop ⊢; intro c hc; exact hstop c (by simp [hc])
      · trivial
    have hx : parseE tbl m2 p (print tbl x ++ rest) = some (x, rest) :=
      parseE_print x hwx p rest 1 (x, rest) hfx hstop2 (loop_return tbl p x _ hstop1 0) m2 (by simp [cost] at hm; omega)
    have e1 : print tbl (.pre t v x) ++ rest = .sym t v :: (print tbl x ++ rest) := by simp [print]
    rw [e1]
    simp only [parseE, parseUnit, hp, hx]
    exact monoL tbl (by simp [cost] at hm; omega) h
  | .bin L t v R, hwf, r, rest, n, res, hfit, hstop, h, m, hm => by
    have hn := loop_pos tbl h
    obtain ⟨l, a, hb, hwL, hwR, hred, hfR⟩ := hwf
    have hc : rctx tbl (.bin L t v R) = l :: rctx tbl R := by simp [rctx, hb]
    rw [hc] at hstop
    have hstop1 : Stop tbl [l] rest := by
      unfold Stop at hstop ⊢
      split
      · rename_i t' v' ts'
        simp only at hstop
        cases hb' : tbl.bin t' with
        | some la => obtain ⟨l', a'⟩ := la; simp only [hb'] at hstop ⊢; intro c hc; exact hstop c (by simp at hc; simp [hc])
        | none =>
          simp only [hb'] at hstop ⊢
          cases hq : tbl.post t' with
          | none => trivial
          | some la => obtain ⟨l', a'⟩ := la; simp only [hq] at hstop ⊢; intro c hc; exact hstop c (by simp at hc; simp [hc])
      · trivial
    have hstop2 : Stop tbl (rctx tbl R) rest := by
      unfold Stop at hstop ⊢
      split
      · rename_i t' v' ts'
        simp only at hstop
        cases hb' : tbl.bin t' with
        | some la => obtain ⟨l', a'⟩ := la; simp only [hb'] at hstop ⊢; intro c hc; exact hstop c (by simp [hc])
        | none =>
          simp only [hb'] at hstop ⊢
          cases hq : tbl.post t' with
          | none => trivial
          | some la => obtain ⟨l', a'⟩ := la; simp only [hq] at hstop ⊢; intro c hc; exact hstop c (by simp [hc])
      · trivial
    -- the right operand, parsed with the operator's own level pending
    have hR : parseE tbl (n + cost R) l (print tbl R ++ rest) = some (R, rest) :=
      parseE_print R hwR l rest 1 (R, rest) hfR hstop2 (loop_return tbl l R _ hstop1 0) (n + cost R) (by omega)
    -- the operator is shifted by the loop that holds L
    have hshift : act l a r = .shift := hfit (l, a) (by simp [lops, hb])
    have hloop : parseLoop tbl (n + cost R + 1) r L (.sym t v :: (print tbl R ++ rest)) = some res := by
      simp only [parseLoop, hb, hshift, hR]
      exact monoL tbl (by omega) h
    have hfL : Fits tbl r L := fun la hla => hfit la (by simp [lops, hb, hla])
    have hstopL : Stop tbl (rctx tbl L) (.sym t v :: (print tbl R ++ rest)) := by
      simp only [Stop, hb]; exact hred
    have e1 : print tbl (.bin L t v R) ++ rest = print tbl L ++ .sym t v :: (print tbl R ++ rest) := by simp [print]
    rw [e1]
    exact parseE_print L hwL r _ (n + cost R + 1) res hfL hstopL hloop m (by simp [cost] at hm; omega)
  | .post x t neg w, hwf, r, rest, n, res, hfit, _, h, m, hm => by
    obtain ⟨hb, l, a, hp, hwx, hred⟩ := hwf
    have hshift : act l a r = .shift := hfit (l, a) (by simp [lops, hp])
    have hfx : Fits tbl r x := fun la hla => hfit la (by simp [lops, hp, hla])
    have htail : postTail tbl ((if neg then [.sym tbl.neg 0] else []) ++ [.lit w] ++ rest) = some (neg, w, rest) := by
      cases neg <;> simp [postTail]
    have hloop : parseLoop tbl (n + 1) r x (.sym t 0 :: ((if neg then [.sym tbl.neg 0] else []) ++ [.lit w] ++ rest)) = some res := by
      simp only [parseLoop, hb, hp, hshift, htail]
      exact h
    have hstopx : Stop tbl (rctx tbl x) (.sym t 0 :: ((if neg then [.sym tbl.neg 0] else []) ++ [.lit w] ++ rest)) := by
      simp only [Stop, hb, hp]; exact hred
    have e1 : print tbl (.post x t neg w) ++ rest =
        print tbl x ++ .sym t 0 :: ((if neg then [.sym tbl.neg 0] else []) ++ [.lit w] ++ rest) := by simp [print]
    rw [e1]
    exact parseE_print x hwx r _ (n + 1) res hfx hstopx hloop m (by simp [cost] at hm; omega)

/-! ## everything the parser returns is well formed -/

theorem stop_cons {l : Nat} {a : Assoc} {c : Nat} {cs : List Nat} (h1 : act l a c = .reduce) (h2 : Reduces l a cs) :
    Reduces l a (c :: cs) := by
  intro x hx
  simp at hx
  rcases hx with rfl | hx
  · exact h1
  · exact h2 x hx

theorem parse_inv : ∀ n : Nat,
    (∀ r ts e rest, parseE tbl n r ts = some (e, rest) → WF tbl e ∧ Fits tbl r e ∧ Stop tbl (r :: rctx tbl e) rest) ∧
    (∀ ts e rest, parseUnit tbl n ts = some (e, rest) → WF tbl e ∧ lops tbl e = [] ∧ Stop tbl (rctx tbl e) rest) ∧
    (∀ r lhs ts e rest, WF tbl lhs → Fits tbl r lhs → Stop tbl (rctx tbl lhs) ts →
      parseLoop tbl n r lhs ts = some (e, rest) → WF tbl e ∧ Fits tbl r e ∧ Stop tbl (r :: rctx tbl e) rest)
  | 0 => by simp [parseE, parseUnit, parseLoop]
  | n + 1 => by
    obtain ⟨ihE, ihU, ihL⟩ := parse_inv n
    refine ⟨?_, ?_, ?_⟩
    · intro r ts e rest h
      rw [parseE] at h
      cases hu : parseUnit tbl n ts with
      | none => simp [hu] at h
      | some p =>
        obtain ⟨u, ts1⟩ := p
        simp only [hu] at h
        obtain ⟨hw, hl, hs⟩ := ihU _ _ _ hu
        exact ihL r u ts1 e rest hw (by intro la hla; rw [hl] at hla; simp at hla) hs h
    · intro ts e rest h
      cases ts with
      | nil => simp [parseUnit] at h
      | cons t ts' =>
        cases t with
        | atom k =>
          simp only [parseUnit, Option.some.injEq, Prod.mk.injEq] at h
          obtain ⟨rfl, rfl⟩ := h
          exact ⟨trivial, rfl, stop_nil tbl _⟩
        | rpar => simp [parseUnit] at h
        | lit w => simp [parseUnit] at h
        | kw k => simp [parseUnit] at h
        | lpar =>
          simp only [parseUnit] at h
          cases he : parseE tbl n 0 ts' with
          | none => simp [he] at h
          | some p =>
            obtain ⟨x, ts2⟩ := p
            simp only [he] at h
            cases ts2 with
            | nil => simp at h
            | cons t2 ts3 =>
              cases t2 with
              | rpar =>
                simp only [Option.some.injEq, Prod.mk.injEq] at h
                obtain ⟨rfl, rfl⟩ := h
                obtain ⟨hw, hf, _⟩ := ihE _ _ _ _ he
                exact ⟨⟨hw, hf⟩, rfl, stop_nil tbl _⟩
              | atom k => simp at h
              | lpar => simp at h
              | lit w => simp at h
              | kw k => simp at h
              | sym t v => simp at h
        | sym t v =>
          simp only [parseUnit] at h
          cases hp : tbl.pre t with
          | none => simp [hp] at h
          | some p =>
            simp only [hp] at h
            cases he : parseE tbl n p ts' with
            | none => simp [he] at h
            | some q =>
              obtain ⟨x, ts2⟩ := q
              simp only [he, Option.some.injEq, Prod.mk.injEq] at h
              obtain ⟨rfl, rfl⟩ := h
              obtain ⟨hw, hf, hs⟩ := ihE _ _ _ _ he
              refine ⟨⟨p, hp, hw, hf⟩, rfl, ?_⟩
              simpa [rctx, hp] using hs
    · intro r lhs ts e rest hw hf hs h
      have ret : ∀ (hst : Stop tbl (r :: rctx tbl lhs) ts), some (lhs, ts) = some (e, rest) →
          WF tbl e ∧ Fits tbl r e ∧ Stop tbl (r :: rctx tbl e) rest := by
        intro hst heq
        simp only [Option.some.injEq, Prod.mk.injEq] at heq
        obtain ⟨rfl, rfl⟩ := heq
        exact ⟨hw, hf, hst⟩
      cases ts with
      | nil => exact ret (by simp [Stop]) (by simpa [parseLoop] using h)
      | cons t ts' =>
        cases t with
        | atom k => exact ret (by simp [Stop]) (by simpa [parseLoop] using h)
        | rpar => exact ret (by simp [Stop]) (by simpa [parseLoop] using h)
        | lpar => exact ret (by simp [Stop]) (by simpa [parseLoop] using h)
        | lit w => exact ret (by simp [Stop]) (by simpa [parseLoop] using h)
        | kw k => exact ret (by simp [Stop]) (by simpa [parseLoop] using h)
        | sym t v =>
          simp only [parseLoop] at h
          cases hb : tbl.bin t with
          | some la =>
            obtain ⟨l, a⟩ := la
            simp only [hb] at h
            have hred : Reduces l a (rctx tbl lhs) := by simpa [Stop, hb] using hs
            cases ha : act l a r with
            | shift =>
              simp only [ha] at h
              cases he : parseE tbl n l ts' with
              | none => simp [he] at h
              | some q =>
                obtain ⟨rhs, ts2⟩ := q
                simp only [he] at h
                obtain ⟨hwr, hfr, hsr⟩ := ihE _ _ _ _ he
                refine ihL r (.bin lhs t v rhs) ts2 e rest ⟨l, a, hb, hw, hwr, hred, hfr⟩ ?_ ?_ h
                · intro la hla
                  simp [lops, hb] at hla
                  rcases hla with rfl | hla
                  · exact ha
                  · exact hf la hla
                · simpa [rctx, hb] using hsr
            | reduce =>
              simp only [ha] at h
              exact ret (by simp only [Stop, hb]; exact stop_cons ha hred) h
            | error => simp [ha] at h
          | none =>
            simp only [hb] at h
            cases hp : tbl.post t with
            | none =>
              simp only [hp] at h
              exact ret (by simp [Stop, hb, hp]) h
            | some la =>
              obtain ⟨l, a⟩ := la
              simp only [hp] at h
              have hred : Reduces l a (rctx tbl lhs) := by simpa [Stop, hb, hp] using hs
              cases ha : act l a r with
              | shift =>
                simp only [ha] at h
                cases hpt : postTail tbl ts' with
                | none => simp [hpt] at h
                | some q =>
                  obtain ⟨neg, w, ts2⟩ := q
                  simp only [hpt] at h
                  refine ihL r (.post lhs t neg w) ts2 e rest ⟨hb, l, a, hp, hw, hred⟩ ?_ ?_ h
                  · intro la hla
                    simp [lops, hp] at hla
                    rcases hla with rfl | hla
                    · exact ha
                    · exact hf la hla
                  · simpa [rctx] using stop_nil tbl ts2
              | reduce =>
                simp only [ha] at h
                exact ret (by simp only [Stop, hb, hp]; exact stop_cons ha hred) h
              | error => simp [ha] at h

end Csvq.OpExpr
