/-
  Helper definitions and lemmas for C18 (operator expressions, the NOT forms, BETWEEN, IN lists, function calls, cursor
  status): which trees the precedence-climbing parser builds, and that it reads every such tree back from its printed tokens.
-/
import Csvq.Model.OpExpr
namespace Csvq.OpExpr
variable {α : Type} [DecidableEq α] (tbl : Table α)
set_option linter.unusedSectionVars false

/-! ## the one-token helpers -/

theorem expectLpar_some {ts r : List (Tok α)} (h : expectLpar ts = some r) : ts = .lpar :: r := by
  cases ts with
  | nil => simp [expectLpar] at h
  | cons a tl => cases a <;> simp [expectLpar] at h; subst h; rfl

theorem expectRpar_some {ts r : List (Tok α)} (h : expectRpar ts = some r) : ts = .rpar :: r := by
  cases ts with
  | nil => simp [expectRpar] at h
  | cons a tl => cases a <;> simp [expectRpar] at h; subst h; rfl

theorem takeComma_some {ts r : List (Tok α)} (h : takeComma ts = some r) : ts = .kw .comma :: r := by
  cases ts with
  | nil => simp [takeComma] at h
  | cons a tl =>
    cases a with
    | kw k => cases k <;> simp [takeComma] at h; subst h; rfl
    | _ => simp [takeComma] at h

theorem nextSym_some {ts r : List (Tok α)} {t : α} {v : Nat} (h : nextSym ts = some (t, v, r)) : ts = .sym t v :: r := by
  cases ts with
  | nil => simp [nextSym] at h
  | cons a tl => cases a <;> simp [nextSym] at h; obtain ⟨rfl, rfl, rfl⟩ := h; rfl

theorem expectSym_some {t : α} {ts r : List (Tok α)} (h : expectSym t ts = some r) : ∃ v, ts = .sym t v :: r := by
  cases ts with
  | nil => simp [expectSym] at h
  | cons a tl =>
    cases a with
    | sym t2 v => simp [expectSym] at h; obtain ⟨rfl, rfl⟩ := h; exact ⟨v, rfl⟩
    | _ => simp [expectSym] at h

/-! ## the shape of the trees the parser builds -/

/-- the token a loop decides on before it applies `[NOT] t …` -/
def trigTok (neg : Bool) (t : α) : α := if neg then tbl.neg else t

/-- the level with which a token met by a loop is compared with the pending rule (none: the loop returns) -/
def trigger (t : α) : Option (Nat × Assoc) :=
  match tbl.bin t with
  | some la => some la
  | none =>
    match tbl.post t with
    | some la => some la
    | none => if t = tbl.neg ∨ t = tbl.btw ∨ t = tbl.inn then tbl.lvl t else none

/-- the levels of the rules still pending along the right edge of a tree (outermost first) -/
def rctx : Expr α → List Nat
  | .bin _ t _ r => (match tbl.bin t with | some (l, _) => [l] | none => []) ++ rctx r
  | .pre t _ e => (match tbl.pre t with | some p => [p] | none => []) ++ rctx e
  | .nbin _ t _ r => (match tbl.bin t with | some (l, _) => [l] | none => []) ++ rctx r
  | .between _ _ _ hi => (match tbl.bin tbl.and_ with | some (l, _) => [l] | none => []) ++ rctx hi
  | _ => []

/-- the operators applied along the left edge of a tree (outermost first), each with the token the loop decided on and
    its level: what a loop shifted to build it -/
def lops : Expr α → List (α × Nat × Assoc)
  | .bin l t _ _ => (match trigger tbl t with | some la => [(t, la)] | none => []) ++ lops l
  | .post e t _ _ => (match trigger tbl t with | some la => [(t, la)] | none => []) ++ lops e
  | .nbin l _ _ _ => (match trigger tbl tbl.neg with | some la => [(tbl.neg, la)] | none => []) ++ lops l
  | .between e neg _ _ =>
    (match trigger tbl (trigTok tbl neg tbl.btw) with | some la => [(trigTok tbl neg tbl.btw, la)] | none => []) ++ lops e
  | .inl e neg _ =>
    (match trigger tbl (trigTok tbl neg tbl.inn) with | some la => [(trigTok tbl neg tbl.inn, la)] | none => []) ++ lops e
  | _ => []

/-- `e` can be the result of a loop whose pending rule has level `r` (and which, if `ba`, ends at AND): every operator it
    applied was shifted -/
def Fits (r : Nat) (ba : Bool) (e : Expr α) : Prop :=
  ∀ x ∈ lops tbl e, act x.2.1 x.2.2 r = .shift ∧ (ba = true → x.1 ≠ tbl.and_)

/-- an operator of level `l` (declared `a`) is not taken by any of the pending rules `cs` -/
def Reduces (l : Nat) (a : Assoc) (cs : List Nat) : Prop := ∀ c ∈ cs, act l a c = .reduce

/-- the next token does not continue an expression whose pending rules are `cs` -/
def Stop (cs : List Nat) : List (Tok α) → Prop
  | .sym t _ :: _ =>
    match trigger tbl t with
    | some (l, a) => Reduces l a cs
    | none => True
  | _ => True

/-- the next token is not `(` (which after an identifier would make a function call) -/
def NoLpar : List (Tok α) → Prop
  | .lpar :: _ => False
  | _ => True

/-- the next token is the AND that ends the lower bound of a BETWEEN -/
def AtAnd : List (Tok α) → Prop
  | .sym t _ :: _ => t = tbl.and_
  | _ => False

/-- the loop reaches the tail dispatcher with this token: it is neither a binary nor a postfix operator -/
def Plain (t : α) : Prop := tbl.bin t = none ∧ tbl.post t = none

mutual
/-- the trees the parser builds: an operand whose root (or right edge) binds weaker than — or equal to, on the
    side that does not associate — the operator applied to it must be a `paren` node -/
def WF : Expr α → Prop
  | .atom _ => True
  | .paren e => WF e ∧ Fits tbl 0 false e
  | .pre t _ e => ∃ p, tbl.pre t = some p ∧ WF e ∧ Fits tbl p false e
  | .bin L t _ R => ∃ l a, tbl.bin t = some (l, a) ∧ WF L ∧ WF R ∧ Reduces l a (rctx tbl L) ∧ Fits tbl l false R
  | .post e t _ w => tbl.bin t = none ∧ w < 4 ∧ ∃ l a, tbl.post t = some (l, a) ∧ WF e ∧ Reduces l a (rctx tbl e)
  | .nbin L t _ R => Plain tbl tbl.neg ∧ t ≠ tbl.btw ∧ t ≠ tbl.inn ∧ tbl.negable t = true ∧
      (∃ ln an, tbl.lvl tbl.neg = some (ln, an) ∧ Reduces ln an (rctx tbl L)) ∧
      ∃ l a, tbl.bin t = some (l, a) ∧ WF L ∧ WF R ∧ Fits tbl l false R
  | .between e neg lo hi => Plain tbl (trigTok tbl neg tbl.btw) ∧ (neg = false → tbl.btw ≠ tbl.neg) ∧
      (∃ lt at_, tbl.lvl (trigTok tbl neg tbl.btw) = some (lt, at_) ∧ Reduces lt at_ (rctx tbl e)) ∧
      ∃ la aa, tbl.bin tbl.and_ = some (la, aa) ∧ WF e ∧ WF lo ∧ WF hi ∧ Fits tbl 0 true lo ∧
        Reduces la aa (rctx tbl lo) ∧ Fits tbl la false hi
  | .inl e neg vs => Plain tbl (trigTok tbl neg tbl.inn) ∧ (neg = false → tbl.inn ≠ tbl.neg) ∧ tbl.inn ≠ tbl.btw ∧
      (∃ lt at_, tbl.lvl (trigTok tbl neg tbl.inn) = some (lt, at_) ∧ Reduces lt at_ (rctx tbl e)) ∧
      WF e ∧ vs ≠ .nil ∧ WFArgs vs
  | .call f as => isId f = true ∧ WFArgs as
  | .cstat c _ _ => isId c = true
  | .cattr c => isId c = true
def WFArgs : Args α → Prop
  | .nil => True
  | .cons e r => WF e ∧ Fits tbl 0 false e ∧ WFArgs r
end

/-- a tree the parser can build at the top level (no rule pending) -/
def WellFormed (e : Expr α) : Prop := WF tbl e ∧ Fits tbl 0 false e

mutual
def cost : Expr α → Nat
  | .atom _ => 1
  | .paren e => cost e + 3
  | .pre _ _ e => cost e + 3
  | .bin l _ _ r => cost l + cost r + 2
  | .post e _ _ _ => cost e + 1
  | .nbin l _ _ r => cost l + cost r + 3
  | .between e _ lo hi => cost e + cost lo + cost hi + 3
  | .inl e _ vs => cost e + costArgs vs + 3
  | .call _ as => costArgs as + 3
  | .cstat _ _ _ => 1
  | .cattr _ => 1
def costArgs : Args α → Nat
  | .nil => 0
  | .cons e r => cost e + costArgs r + 2
end

mutual
theorem cost_le : ∀ e : Expr α, cost e ≤ 4 * (print tbl e).length
  | .atom n => by simp [cost, print]
  | .paren e => by have := cost_le e; simp [cost, print]; omega
  | .pre t v e => by have := cost_le e; simp [cost, print]; omega
  | .bin l t v r => by have := cost_le l; have := cost_le r; simp [cost, print]; omega
  | .post e t neg w => by have := cost_le e; cases neg <;> simp [cost, print] <;> omega
  | .nbin l t v r => by have := cost_le l; have := cost_le r; simp [cost, print]; omega
  | .between e neg lo hi => by
    have := cost_le e; have := cost_le lo; have := cost_le hi
    cases neg <;> simp [cost, print, negToks] <;> omega
  | .inl e neg vs => by
    have := cost_le e; have := costArgs_le vs
    cases neg <;> simp [cost, print, negToks] <;> omega
  | .call f as => by have := costArgs_le as; simp [cost, print]; omega
  | .cstat c neg range => by cases neg <;> cases range <;> simp [cost, print, negToks]
  | .cattr c => by simp [cost, print]
theorem costArgs_le : ∀ as : Args α, costArgs as ≤ 4 * (printArgs tbl as).length + 2
  | .nil => by simp [costArgs, printArgs]
  | .cons e .nil => by have := cost_le e; simp [costArgs, printArgs]; omega
  | .cons e (.cons e2 r) => by
    have := cost_le e; have := costArgs_le (.cons e2 r)
    simp only [costArgs, printArgs, List.length_append, List.length_cons] at *; omega
end

/-- the first token of a printed expression: never `)`, `,` or a clause keyword -/
def HeadOK : Tok α → Prop
  | .rpar => False
  | .kw _ => False
  | _ => True

theorem print_head : ∀ e : Expr α, ∃ a tl, print tbl e = a :: tl ∧ HeadOK a
  | .atom n => ⟨_, _, rfl, trivial⟩
  | .paren e => ⟨_, _, rfl, trivial⟩
  | .pre t v e => ⟨_, _, rfl, trivial⟩
  | .bin l t v r => by obtain ⟨a, tl, h, ok⟩ := print_head l; exact ⟨a, _, by rw [print, h, List.cons_append], ok⟩
  | .post e t neg w => by obtain ⟨a, tl, h, ok⟩ := print_head e; exact ⟨a, _, by rw [print, h, List.cons_append], ok⟩
  | .nbin l t v r => by obtain ⟨a, tl, h, ok⟩ := print_head l; exact ⟨a, _, by rw [print, h, List.cons_append], ok⟩
  | .between e neg lo hi => by obtain ⟨a, tl, h, ok⟩ := print_head e; exact ⟨a, _, by rw [print, h, List.cons_append], ok⟩
  | .inl e neg vs => by obtain ⟨a, tl, h, ok⟩ := print_head e; exact ⟨a, _, by rw [print, h, List.cons_append], ok⟩
  | .call f as => ⟨_, _, rfl, trivial⟩
  | .cstat c neg range => ⟨_, _, rfl, trivial⟩
  | .cattr c => ⟨_, _, rfl, trivial⟩

theorem printArgs_head (as : Args α) (h : as ≠ .nil) : ∃ a tl, printArgs tbl as = a :: tl ∧ HeadOK a := by
  cases as with
  | nil => exact absurd rfl h
  | cons e r =>
    obtain ⟨a, tl, he, ok⟩ := print_head tbl e
    cases r with
    | nil => exact ⟨a, tl, by simp [printArgs, he], ok⟩
    | cons e2 r2 => exact ⟨a, _, by rw [printArgs, he, List.cons_append], ok⟩

theorem stop_nil (ts : List (Tok α)) : Stop tbl [] ts := by
  unfold Stop
  split
  · split
    · intro c hc; simp at hc
    · trivial
  · trivial

theorem stop_split {c : Nat} {cs : List Nat} {ts : List (Tok α)} (h : Stop tbl (c :: cs) ts) :
    Stop tbl [c] ts ∧ Stop tbl cs ts := by
  unfold Stop at h ⊢
  split
  · rename_i t v tl
    simp only at h
    cases ht : trigger tbl t with
    | none => simp
    | some la =>
      obtain ⟨l, a⟩ := la
      simp only [ht] at h ⊢
      exact ⟨fun x hx => h x (by simp at hx; simp [hx]), fun x hx => h x (by simp [hx])⟩
  · exact ⟨trivial, trivial⟩

theorem stop_sym {cs : List Nat} {t : α} {v : Nat} {tl : List (Tok α)} {l : Nat} {a : Assoc}
    (ht : trigger tbl t = some (l, a)) (h : Reduces l a cs) : Stop tbl cs (.sym t v :: tl) := by
  simp only [Stop, ht]; exact h

theorem expectLpar_noLpar {ts : List (Tok α)} (h : NoLpar ts) : expectLpar ts = none := by
  cases ts with
  | nil => rfl
  | cons a tl => cases a <;> simp_all [NoLpar, expectLpar]

theorem expectRpar_head {a : Tok α} {tl : List (Tok α)} (h : HeadOK a) : expectRpar (a :: tl) = none := by
  cases a <;> simp_all [HeadOK, expectRpar]

/-! ## more fuel never changes a result -/

theorem mono_step : ∀ n : Nat,
    (∀ r ba ts x, parseE tbl n r ba ts = some x → parseE tbl (n + 1) r ba ts = some x) ∧
    (∀ ts x, parseUnit tbl n ts = some x → parseUnit tbl (n + 1) ts = some x) ∧
    (∀ ts x, parseArgs tbl n ts = some x → parseArgs tbl (n + 1) ts = some x) ∧
    (∀ lhs neg t v ts x, parseTail tbl n lhs neg t v ts = some x → parseTail tbl (n + 1) lhs neg t v ts = some x) ∧
    (∀ r ba lhs ts x, parseLoop tbl n r ba lhs ts = some x → parseLoop tbl (n + 1) r ba lhs ts = some x)
  | 0 => by simp [parseE, parseUnit, parseLoop, parseArgs, parseTail]
  | n + 1 => by
    obtain ⟨ihE, ihU, ihA, ihT, ihL⟩ := mono_step n
    refine ⟨?_, ?_, ?_, ?_, ?_⟩
    · intro r ba ts x h
      rw [parseE] at h
      rw [parseE]
      cases hu : parseUnit tbl n ts with
      | none => simp [hu] at h
      | some p =>
        obtain ⟨u, ts1⟩ := p
        simp only [hu] at h
        simp only [ihU _ _ hu]
        exact ihL _ _ _ _ _ h
    · intro ts x h
      cases ts with
      | nil => simp [parseUnit] at h
      | cons t ts' =>
        cases t with
        | atom k =>
          simp only [parseUnit] at h ⊢
          cases hl : expectLpar ts' with
          | none => simpa [hl] using h
          | some ts1 =>
            simp only [hl] at h ⊢
            by_cases hk : isId k = true
            · simp only [hk, if_true] at h ⊢
              cases hr : expectRpar ts1 with
              | some ts2 => simpa [hr] using h
              | none =>
                simp only [hr] at h ⊢
                cases ha : parseArgs tbl n ts1 with
                | none => simp [ha] at h
                | some q => simp only [ha] at h; simp only [ihA _ _ ha]; exact h
            · simp [hk] at h
        | rpar => simp [parseUnit] at h
        | lit w => simpa [parseUnit] using h
        | kw k => simp [parseUnit] at h
        | lpar =>
          simp only [parseUnit] at h ⊢
          cases he : parseE tbl n 0 false ts' with
          | none => simp [he] at h
          | some p => simp only [he] at h; simp only [ihE _ _ _ _ he]; exact h
        | sym t v =>
          simp only [parseUnit] at h ⊢
          cases hp : tbl.pre t with
          | none => simp [hp] at h
          | some p =>
            simp only [hp] at h ⊢
            cases he : parseE tbl n p false ts' with
            | none => simp [he] at h
            | some q => simp only [he] at h; simp only [ihE _ _ _ _ he]; exact h
    · intro ts x h
      rw [parseArgs] at h
      rw [parseArgs]
      cases he : parseE tbl n 0 false ts with
      | none => simp [he] at h
      | some q =>
        obtain ⟨e, ts1⟩ := q
        simp only [he] at h
        simp only [ihE _ _ _ _ he]
        cases hc : takeComma ts1 with
        | none => simpa [hc] using h
        | some ts2 =>
          simp only [hc] at h ⊢
          cases ha : parseArgs tbl n ts2 with
          | none => simp [ha] at h
          | some q2 => simp only [ha] at h; simp only [ihA _ _ ha]; exact h
    · intro lhs neg t v ts x h
      simp only [parseTail] at h ⊢
      by_cases h1 : t = tbl.btw
      · simp only [h1, if_true] at h ⊢
        cases hb : tbl.bin tbl.and_ with
        | none => simp [hb] at h
        | some la =>
          obtain ⟨la, aa⟩ := la
          simp only [hb] at h ⊢
          cases he : parseE tbl n 0 true ts with
          | none => simp [he] at h
          | some q =>
            obtain ⟨lo, ts1⟩ := q
            simp only [he] at h
            simp only [ihE _ _ _ _ he]
            cases hs : expectSym tbl.and_ ts1 with
            | none => simp [hs] at h
            | some ts2 =>
              simp only [hs] at h ⊢
              cases he2 : parseE tbl n la false ts2 with
              | none => simp [he2] at h
              | some q2 => simp only [he2] at h; simp only [ihE _ _ _ _ he2]; exact h
      · simp only [h1, if_false] at h ⊢
        by_cases h2 : t = tbl.inn
        · simp only [h2, if_true] at h ⊢
          cases hl : expectLpar ts with
          | none => simp [hl] at h
          | some ts1 =>
            simp only [hl] at h ⊢
            cases ha : parseArgs tbl n ts1 with
            | none => simp [ha] at h
            | some q => simp only [ha] at h; simp only [ihA _ _ ha]; exact h
        · simp only [h2, if_false] at h ⊢
          by_cases h3 : (neg && tbl.negable t) = true
          · simp only [h3, if_true] at h ⊢
            cases hb : tbl.bin t with
            | none => simp [hb] at h
            | some la =>
              obtain ⟨l, a⟩ := la
              simp only [hb] at h ⊢
              cases he : parseE tbl n l false ts with
              | none => simp [he] at h
              | some q => simp only [he] at h; simp only [ihE _ _ _ _ he]; exact h
          · simp [h3] at h
    · intro r ba lhs ts x h
      cases ts with
      | nil => simpa [parseLoop] using h
      | cons t ts' =>
        cases t with
        | atom k => simpa [parseLoop] using h
        | rpar => simpa [parseLoop] using h
        | lpar => simpa [parseLoop] using h
        | lit w => simpa [parseLoop] using h
        | kw k => simpa [parseLoop] using h
        | sym t v =>
          simp only [parseLoop] at h ⊢
          by_cases h0 : (ba && decide (t = tbl.and_)) = true
          · simpa [h0] using h
          · simp only [h0] at h ⊢
            cases hb : tbl.bin t with
            | some la =>
              obtain ⟨l, a⟩ := la
              simp only [hb] at h ⊢
              cases ha : act l a r with
              | shift =>
                simp only [ha] at h ⊢
                cases he : parseE tbl n l false ts' with
                | none => simp [he] at h
                | some q => simp only [he] at h; simp only [ihE _ _ _ _ he]; exact ihL _ _ _ _ _ h
              | reduce => simpa [ha] using h
              | error => simp [ha] at h
            | none =>
              simp only [hb] at h ⊢
              cases hp : tbl.post t with
              | some la =>
                obtain ⟨l, a⟩ := la
                simp only [hp] at h ⊢
                cases ha : act l a r with
                | shift =>
                  simp only [ha] at h ⊢
                  cases hpt : postTail tbl ts' with
                  | none => simp [hpt] at h
                  | some q => simp only [hpt] at h ⊢; exact ihL _ _ _ _ _ h
                | reduce => simpa [ha] using h
                | error => simp [ha] at h
              | none =>
                simp only [hp] at h ⊢
                by_cases hn : t = tbl.neg
                · simp only [hn, if_true] at h ⊢
                  cases hl : tbl.lvl tbl.neg with
                  | none => simpa [hl] using h
                  | some la =>
                    obtain ⟨l, a⟩ := la
                    simp only [hl] at h ⊢
                    cases ha : act l a r with
                    | shift =>
                      simp only [ha] at h ⊢
                      cases hs : nextSym ts' with
                      | none => simp [hs] at h
                      | some q =>
                        obtain ⟨t2, v2, ts2⟩ := q
                        simp only [hs] at h ⊢
                        cases ht : parseTail tbl n lhs true t2 v2 ts2 with
                        | none => simp [ht] at h
                        | some q2 => simp only [ht] at h; simp only [ihT _ _ _ _ _ _ ht]; exact ihL _ _ _ _ _ h
                    | reduce => simpa [ha] using h
                    | error => simp [ha] at h
                · simp only [hn, if_false] at h ⊢
                  by_cases hbi : t = tbl.btw ∨ t = tbl.inn
                  · simp only [hbi, if_true] at h ⊢
                    cases hl : tbl.lvl t with
                    | none => simpa [hl] using h
                    | some la =>
                      obtain ⟨l, a⟩ := la
                      simp only [hl] at h ⊢
                      cases ha : act l a r with
                      | shift =>
                        simp only [ha] at h ⊢
                        cases ht : parseTail tbl n lhs false t v ts' with
                        | none => simp [ht] at h
                        | some q2 => simp only [ht] at h; simp only [ihT _ _ _ _ _ _ ht]; exact ihL _ _ _ _ _ h
                      | reduce => simpa [ha] using h
                      | error => simp [ha] at h
                  · simpa [hbi] using h

theorem monoE {n m : Nat} (h : n ≤ m) {r : Nat} {ba : Bool} {ts : List (Tok α)} {x} (hx : parseE tbl n r ba ts = some x) :
    parseE tbl m r ba ts = some x := by
  induction h with
  | refl => exact hx
  | step _ ih => exact (mono_step tbl _).1 _ _ _ _ ih

theorem monoA {n m : Nat} (h : n ≤ m) {ts : List (Tok α)} {x} (hx : parseArgs tbl n ts = some x) :
    parseArgs tbl m ts = some x := by
  induction h with
  | refl => exact hx
  | step _ ih => exact (mono_step tbl _).2.2.1 _ _ ih

theorem monoL {n m : Nat} (h : n ≤ m) {r : Nat} {ba : Bool} {lhs : Expr α} {ts : List (Tok α)} {x}
    (hx : parseLoop tbl n r ba lhs ts = some x) : parseLoop tbl m r ba lhs ts = some x := by
  induction h with
  | refl => exact hx
  | step _ ih => exact (mono_step tbl _).2.2.2.2 _ _ _ _ _ ih

theorem loop_pos {n r : Nat} {ba : Bool} {lhs : Expr α} {ts : List (Tok α)} {x} (h : parseLoop tbl n r ba lhs ts = some x) : 1 ≤ n := by
  cases n with
  | zero => simp [parseLoop] at h
  | succ n => omega

theorem trigger_bin {t : α} {la : Nat × Assoc} (h : tbl.bin t = some la) : trigger tbl t = some la := by
  simp [trigger, h]

theorem trigger_post {t : α} {la : Nat × Assoc} (hb : tbl.bin t = none) (h : tbl.post t = some la) :
    trigger tbl t = some la := by
  simp [trigger, hb, h]

theorem trigger_plain {t : α} (hp : Plain tbl t) (h : t = tbl.neg ∨ t = tbl.btw ∨ t = tbl.inn) :
    trigger tbl t = tbl.lvl t := by
  simp [trigger, hp.1, hp.2, h]

theorem trigTok_cases (neg : Bool) (t : α) : trigTok tbl neg t = tbl.neg ∨ trigTok tbl neg t = t := by
  cases neg <;> simp [trigTok]

/-- a loop whose pending rule is not continued by the next token returns at once -/
theorem loop_return (r : Nat) (lhs : Expr α) (ts : List (Tok α)) (h : Stop tbl [r] ts) (n : Nat) :
    parseLoop tbl (n + 1) r false lhs ts = some (lhs, ts) := by
  cases ts with
  | nil => simp [parseLoop]
  | cons t ts' =>
    cases t with
    | atom k => simp [parseLoop]
    | rpar => simp [parseLoop]
    | lpar => simp [parseLoop]
    | lit w => simp [parseLoop]
    | kw k => simp [parseLoop]
    | sym t v =>
      have hs : ∀ l a, trigger tbl t = some (l, a) → act l a r = .reduce := by
        intro l a ht
        simp only [Stop, ht] at h
        exact h r (by simp)
      simp only [parseLoop, Bool.false_and, Bool.false_eq_true, if_false]
      cases hb : tbl.bin t with
      | some la =>
        obtain ⟨l, a⟩ := la
        simp [hs l a (trigger_bin tbl hb)]
      | none =>
        cases hp : tbl.post t with
        | some la =>
          obtain ⟨l, a⟩ := la
          simp [hs l a (trigger_post tbl hb hp)]
        | none =>
          by_cases hn : t = tbl.neg
          · cases hl : tbl.lvl t with
            | none => subst hn; simp [hl]
            | some la =>
              obtain ⟨l, a⟩ := la
              have := hs l a (by rw [trigger_plain tbl ⟨hb, hp⟩ (Or.inl hn), hl])
              subst hn
              simp [hl, this]
          · by_cases hbi : t = tbl.btw ∨ t = tbl.inn
            · cases hl : tbl.lvl t with
              | none => simp [hn, hbi, hl]
              | some la =>
                obtain ⟨l, a⟩ := la
                have := hs l a (by rw [trigger_plain tbl ⟨hb, hp⟩ (Or.inr hbi), hl])
                simp [hn, hbi, hl, this]
            · simp [hn, hbi]

/-- the loop that reads the lower bound of a BETWEEN returns at the AND -/
theorem loop_return_and (r : Nat) (lhs : Expr α) (ts : List (Tok α)) (h : AtAnd tbl ts) (n : Nat) :
    parseLoop tbl (n + 1) r true lhs ts = some (lhs, ts) := by
  cases ts with
  | nil => simp [AtAnd] at h
  | cons t ts' =>
    cases t with
    | sym t v => simp only [AtAnd] at h; simp [parseLoop, h]
    | _ => simp [AtAnd] at h

theorem parseCursor_print (c : Nat) (hc : isId c = true) (neg range : Bool) (rest : List (Tok α)) :
    parseCursor tbl (.atom c :: .sym tbl.is_ 0 :: ((negToks tbl neg ++ (if range then [.sym tbl.inn 0, .lit 11] else [.lit 10])) ++ rest)) =
      some (.cstat c neg range, rest) := by
  cases neg <;> cases range <;> simp [negToks, parseCursor, hc]

theorem stop_rpar (cs : List Nat) (rest : List (Tok α)) : Stop tbl cs (.rpar :: rest) := by
  simp [Stop]

theorem stop_comma (cs : List Nat) (rest : List (Tok α)) : Stop tbl cs (.kw .comma :: rest) := by
  simp [Stop]

theorem noLpar_sym (t : α) (v : Nat) (tl : List (Tok α)) : NoLpar (.sym t v :: tl) := by simp [NoLpar]
theorem noLpar_rpar (tl : List (Tok α)) : NoLpar (Tok.rpar (α := α) :: tl) := by simp [NoLpar]
theorem noLpar_comma (tl : List (Tok α)) : NoLpar (Tok.kw (α := α) .comma :: tl) := by simp [NoLpar]

theorem negToks_append (neg : Bool) (t : α) (tl : List (Tok α)) :
    negToks tbl neg ++ .sym t 0 :: tl = .sym (trigTok tbl neg t) 0 :: (if neg then .sym t 0 :: tl else tl) := by
  cases neg <;> simp [negToks, trigTok]

/-- the loop step that applies `[NOT] t …` through the tail dispatcher, for t = BETWEEN or IN -/
theorem loop_tail_step (n r : Nat) (ba : Bool) (lhs e' : Expr α) (neg : Bool) (t : α) (tl rest : List (Tok α))
    (res : Expr α × List (Tok α)) (ht : t = tbl.btw ∨ t = tbl.inn)
    (hplain : Plain tbl (trigTok tbl neg t)) (hne : neg = false → t ≠ tbl.neg)
    {l : Nat} {a : Assoc} (hl : tbl.lvl (trigTok tbl neg t) = some (l, a)) (hshift : act l a r = .shift)
    (hba : ba = true → trigTok tbl neg t ≠ tbl.and_)
    (htail : parseTail tbl n lhs neg t 0 tl = some (e', rest))
    (hloop : parseLoop tbl n r ba e' rest = some res) :
    parseLoop tbl (n + 1) r ba lhs (negToks tbl neg ++ .sym t 0 :: tl) = some res := by
  have hba' : (ba && decide (trigTok tbl neg t = tbl.and_)) = false := by
    cases ba
    · simp
    · simp [hba rfl]
  cases neg with
  | false =>
    simp only [trigTok, Bool.false_eq_true, if_false] at hplain hl hba'
    have hn : t ≠ tbl.neg := hne rfl
    simp only [negToks, Bool.false_eq_true, if_false, List.nil_append, parseLoop, hba', hplain.1, hplain.2, hn, ht, if_true,
      hl, hshift, htail, hloop]
  | true =>
    simp only [trigTok, if_true] at hplain hl hba'
    simp only [negToks, if_true, List.cons_append, List.nil_append, parseLoop, hba', hplain.1, hplain.2, hl, hshift,
      nextSym, htail, hloop, Bool.false_eq_true, if_false]

mutual
/-- reading a well-formed tree back: if the loop that holds `e` as its left operand goes on to `res`,
    then so does the parser started on the printed tokens of `e` (with enough fuel) -/
theorem parseE_print : ∀ (e : Expr α), WF tbl e → ∀ (r : Nat) (ba : Bool) (rest : List (Tok α)) (n : Nat) (res : Expr α × List (Tok α)),
    Fits tbl r ba e → Stop tbl (rctx tbl e) rest → NoLpar rest → parseLoop tbl n r ba e rest = some res →
    ∀ m, n + cost e ≤ m → parseE tbl m r ba (print tbl e ++ rest) = some res
  | .atom k, _, r, ba, rest, n, res, _, _, hnl, h, m, hm => by
    have hn := loop_pos tbl h
    obtain ⟨m1, rfl⟩ : ∃ m1, m = m1 + 1 := ⟨m - 1, by simp [cost] at hm; omega⟩
    obtain ⟨m2, rfl⟩ : ∃ m2, m1 = m2 + 1 := ⟨m1 - 1, by simp [cost] at hm; omega⟩
    simp only [print, List.cons_append, List.nil_append, parseE, parseUnit, expectLpar_noLpar hnl]
    exact monoL tbl (by simp [cost] at hm; omega) h
  | .cattr c, hwf, r, ba, rest, n, res, _, _, _, h, m, hm => by
    have hn := loop_pos tbl h
    obtain ⟨m1, rfl⟩ : ∃ m1, m = m1 + 1 := ⟨m - 1, by simp [cost] at hm; omega⟩
    obtain ⟨m2, rfl⟩ : ∃ m2, m1 = m2 + 1 := ⟨m1 - 1, by simp [cost] at hm; omega⟩
    have hc : isId c = true := hwf
    simp only [print, List.cons_append, List.nil_append, parseE, parseUnit, if_true, parseCursor, hc]
    exact monoL tbl (by simp [cost] at hm; omega) h
  | .cstat c neg range, hwf, r, ba, rest, n, res, _, _, _, h, m, hm => by
    have hn := loop_pos tbl h
    obtain ⟨m1, rfl⟩ : ∃ m1, m = m1 + 1 := ⟨m - 1, by simp [cost] at hm; omega⟩
    obtain ⟨m2, rfl⟩ : ∃ m2, m1 = m2 + 1 := ⟨m1 - 1, by simp [cost] at hm; omega⟩
    have hc : isId c = true := hwf
    have hp := parseCursor_print tbl c hc neg range rest
    simp only [print, List.cons_append, parseE, parseUnit, if_true]
    rw [hp]
    exact monoL tbl (by simp [cost] at hm; omega) h
  | .call f as, hwf, r, ba, rest, n, res, _, _, _, h, m, hm => by
    have hn := loop_pos tbl h
    obtain ⟨hf, hwa⟩ := hwf
    obtain ⟨m1, rfl⟩ : ∃ m1, m = m1 + 1 := ⟨m - 1, by simp [cost] at hm; omega⟩
    obtain ⟨m2, rfl⟩ : ∃ m2, m1 = m2 + 1 := ⟨m1 - 1, by simp [cost] at hm; omega⟩
    by_cases hnil : as = .nil
    · subst hnil
      simp only [print, printArgs, List.cons_append, List.nil_append, parseE, parseUnit, expectLpar, expectRpar, hf, if_true]
      exact monoL tbl (by simp [cost] at hm; omega) h
    · obtain ⟨a, tl, ha, hok⟩ := printArgs_head tbl as hnil
      have hargs := parseArgs_print as hnil hwa rest m2 (by simp [cost] at hm; omega)
      have e1 : print tbl (.call f as) ++ rest = .atom f :: .lpar :: (printArgs tbl as ++ .rpar :: rest) := by simp [print]
      have e2 : expectRpar (printArgs tbl as ++ .rpar :: rest) = none := by
        rw [ha, List.cons_append]; exact expectRpar_head hok
      rw [e1]
      simp only [parseE, parseUnit, expectLpar, hf, if_true, e2, hargs]
      simp only [expectRpar]
      exact monoL tbl (by simp [cost] at hm; omega) h
  | .paren x, hwf, r, ba, rest, n, res, _, _, _, h, m, hm => by
    have hn := loop_pos tbl h
    obtain ⟨hwx, hfx⟩ := hwf
    obtain ⟨m1, rfl⟩ : ∃ m1, m = m1 + 1 := ⟨m - 1, by simp [cost] at hm; omega⟩
    obtain ⟨m2, rfl⟩ : ∃ m2, m1 = m2 + 1 := ⟨m1 - 1, by simp [cost] at hm; omega⟩
    have hx : parseE tbl m2 0 false (print tbl x ++ .rpar :: rest) = some (x, .rpar :: rest) :=
      parseE_print x hwx 0 false (.rpar :: rest) 1 (x, .rpar :: rest) hfx (stop_rpar tbl _ _) (noLpar_rpar _)
        (loop_return tbl 0 x _ (stop_rpar tbl _ _) 0) m2 (by simp [cost] at hm; omega)
    have e1 : print tbl (.paren x) ++ rest = .lpar :: (print tbl x ++ .rpar :: rest) := by simp [print]
    rw [e1]
    simp only [parseE, parseUnit, hx]
    exact monoL tbl (by simp [cost] at hm; omega) h
  | .pre t v x, hwf, r, ba, rest, n, res, _, hstop, hnl, h, m, hm => by
    have hn := loop_pos tbl h
    obtain ⟨p, hp, hwx, hfx⟩ := hwf
    obtain ⟨m1, rfl⟩ : ∃ m1, m = m1 + 1 := ⟨m - 1, by simp [cost] at hm; omega⟩
    obtain ⟨m2, rfl⟩ : ∃ m2, m1 = m2 + 1 := ⟨m1 - 1, by simp [cost] at hm; omega⟩
    have hc : rctx tbl (.pre t v x) = p :: rctx tbl x := by simp [rctx, hp]
    rw [hc] at hstop
    obtain ⟨hstop1, hstop2⟩ := stop_split tbl hstop
    have hx : parseE tbl m2 p false (print tbl x ++ rest) = some (x, rest) :=
      parseE_print x hwx p false rest 1 (x, rest) hfx hstop2 hnl (loop_return tbl p x _ hstop1 0) m2 (by simp [cost] at hm; omega)
    have e1 : print tbl (.pre t v x) ++ rest = .sym t v :: (print tbl x ++ rest) := by simp [print]
    rw [e1]
    simp only [parseE, parseUnit, hp, hx]
    exact monoL tbl (by simp [cost] at hm; omega) h
  | .bin L t v R, hwf, r, ba, rest, n, res, hfit, hstop, hnl, h, m, hm => by
    have hn := loop_pos tbl h
    obtain ⟨l, a, hb, hwL, hwR, hred, hfR⟩ := hwf
    have hc : rctx tbl (.bin L t v R) = l :: rctx tbl R := by simp [rctx, hb]
    rw [hc] at hstop
    obtain ⟨hstop1, hstop2⟩ := stop_split tbl hstop
    have hR : parseE tbl (n + cost R) l false (print tbl R ++ rest) = some (R, rest) :=
      parseE_print R hwR l false rest 1 (R, rest) hfR hstop2 hnl (loop_return tbl l R _ hstop1 0) (n + cost R) (by omega)
    have htr := trigger_bin tbl hb
    have hsh := hfit (t, l, a) (by simp [lops, htr])
    have hba : (ba && decide (t = tbl.and_)) = false := by
      cases ba
      · simp
      · simp [hsh.2 rfl]
    have hloop : parseLoop tbl (n + cost R + 1) r ba L (.sym t v :: (print tbl R ++ rest)) = some res := by
      simp only [parseLoop, hba, hb, hsh.1, hR]
      exact monoL tbl (by omega) h
    have hfL : Fits tbl r ba L := fun x hx => hfit x (by simp [lops, hx])
    have e1 : print tbl (.bin L t v R) ++ rest = print tbl L ++ .sym t v :: (print tbl R ++ rest) := by simp [print]
    rw [e1]
    exact parseE_print L hwL r ba _ (n + cost R + 1) res hfL (stop_sym tbl htr hred) (noLpar_sym _ _ _) hloop m
      (by simp [cost] at hm; omega)
  | .post x t neg w, hwf, r, ba, rest, n, res, hfit, _, _, h, m, hm => by
    obtain ⟨hb, hw4, l, a, hp, hwx, hred⟩ := hwf
    have htr := trigger_post tbl hb hp
    have hsh := hfit (t, l, a) (by simp [lops, htr])
    have hba : (ba && decide (t = tbl.and_)) = false := by
      cases ba
      · simp
      · simp [hsh.2 rfl]
    have hfx : Fits tbl r ba x := fun y hy => hfit y (by simp [lops, hy])
    have htail : postTail tbl ((if neg then [.sym tbl.neg 0] else []) ++ [.lit w] ++ rest) = some (neg, w, rest) := by
      cases neg <;> simp [postTail, hw4]
    have hloop : parseLoop tbl (n + 1) r ba x (.sym t 0 :: ((if neg then [.sym tbl.neg 0] else []) ++ [.lit w] ++ rest)) = some res := by
      simp only [parseLoop, hba, hb, hp, hsh.1, htail]
      exact h
    have e1 : print tbl (.post x t neg w) ++ rest =
        print tbl x ++ .sym t 0 :: ((if neg then [.sym tbl.neg 0] else []) ++ [.lit w] ++ rest) := by simp [print]
    rw [e1]
    exact parseE_print x hwx r ba _ (n + 1) res hfx (stop_sym tbl htr hred) (noLpar_sym _ _ _) hloop m (by simp [cost] at hm; omega)
  | .nbin L t v R, hwf, r, ba, rest, n, res, hfit, hstop, hnl, h, m, hm => by
    have hn := loop_pos tbl h
    obtain ⟨hplain, htb, hti, hneg, ⟨ln, an, hlv, hredL⟩, l, a, hb, hwL, hwR, hfR⟩ := hwf
    have hc : rctx tbl (.nbin L t v R) = l :: rctx tbl R := by simp [rctx, hb]
    rw [hc] at hstop
    obtain ⟨hstop1, hstop2⟩ := stop_split tbl hstop
    have hR : parseE tbl (n + cost R) l false (print tbl R ++ rest) = some (R, rest) :=
      parseE_print R hwR l false rest 1 (R, rest) hfR hstop2 hnl (loop_return tbl l R _ hstop1 0) (n + cost R) (by omega)
    have htail : parseTail tbl (n + cost R + 1) L true t v (print tbl R ++ rest) = some (.nbin L t v R, rest) := by
      simp only [parseTail, htb, hti, if_false, Bool.true_and, hneg, if_true, hb, hR]
    have htr : trigger tbl tbl.neg = some (ln, an) := by rw [trigger_plain tbl hplain (Or.inl rfl), hlv]
    have hsh := hfit (tbl.neg, ln, an) (by simp [lops, htr])
    have hba : (ba && decide (tbl.neg = tbl.and_)) = false := by
      cases ba
      · simp
      · simp [hsh.2 rfl]
    have hloop : parseLoop tbl (n + cost R + 2) r ba L (.sym tbl.neg 0 :: .sym t v :: (print tbl R ++ rest)) = some res := by
      rw [parseLoop]
      simp only [hba, hplain.1, hplain.2, if_true, hlv, hsh.1, nextSym, htail, Bool.false_eq_true, if_false]
      exact monoL tbl (by omega) h
    have hfL : Fits tbl r ba L := fun x hx => hfit x (by simp [lops, hx])
    have e1 : print tbl (.nbin L t v R) ++ rest = print tbl L ++ .sym tbl.neg 0 :: .sym t v :: (print tbl R ++ rest) := by simp [print]
    rw [e1]
    exact parseE_print L hwL r ba _ (n + cost R + 2) res hfL (stop_sym tbl htr hredL) (noLpar_sym _ _ _) hloop m
      (by simp [cost] at hm; omega)
  | .between x neg lo hi, hwf, r, ba, rest, n, res, hfit, hstop, hnl, h, m, hm => by
    have hn := loop_pos tbl h
    obtain ⟨hplain, hne, ⟨lt, at_, hlv, hredx⟩, la, aa, hand, hwx, hwlo, hwhi, hflo, hredlo, hfhi⟩ := hwf
    have hc : rctx tbl (.between x neg lo hi) = la :: rctx tbl hi := by simp [rctx, hand]
    rw [hc] at hstop
    obtain ⟨hstop1, hstop2⟩ := stop_split tbl hstop
    have hhi : parseE tbl (n + cost lo + cost hi) la false (print tbl hi ++ rest) = some (hi, rest) :=
      parseE_print hi hwhi la false rest 1 (hi, rest) hfhi hstop2 hnl (loop_return tbl la hi _ hstop1 0) _ (by omega)
    have hlo : parseE tbl (n + cost lo + cost hi) 0 true (print tbl lo ++ .sym tbl.and_ 0 :: (print tbl hi ++ rest)) =
        some (lo, .sym tbl.and_ 0 :: (print tbl hi ++ rest)) :=
      parseE_print lo hwlo 0 true _ 1 (lo, _) hflo (stop_sym tbl (trigger_bin tbl hand) hredlo) (noLpar_sym _ _ _)
        (loop_return_and tbl 0 lo _ (by simp [AtAnd]) 0) _ (by omega)
    have htail : parseTail tbl (n + cost lo + cost hi + 1) x neg tbl.btw 0
        (print tbl lo ++ .sym tbl.and_ 0 :: (print tbl hi ++ rest)) = some (.between x neg lo hi, rest) := by
      simp only [parseTail, if_true, hand, hlo, expectSym, hhi]
    have hK := trigTok_cases tbl neg tbl.btw
    have htr : trigger tbl (trigTok tbl neg tbl.btw) = some (lt, at_) := by
      rw [trigger_plain tbl hplain (by rcases hK with h | h <;> simp [h]), hlv]
    have hsh := hfit (trigTok tbl neg tbl.btw, lt, at_) (by simp [lops, htr])
    have hloop := loop_tail_step tbl (n + cost lo + cost hi + 1) r ba x (.between x neg lo hi) neg tbl.btw _ rest res
      (Or.inl rfl) hplain hne hlv hsh.1 hsh.2 htail (monoL tbl (by omega) h)
    have hfx : Fits tbl r ba x := fun y hy => hfit y (by simp [lops, hy])
    have e1 : print tbl (.between x neg lo hi) ++ rest =
        print tbl x ++ (negToks tbl neg ++ .sym tbl.btw 0 :: (print tbl lo ++ .sym tbl.and_ 0 :: (print tbl hi ++ rest))) := by
      simp [print]
    have hst : Stop tbl (rctx tbl x) (negToks tbl neg ++ .sym tbl.btw 0 :: (print tbl lo ++ .sym tbl.and_ 0 :: (print tbl hi ++ rest))) := by
      rw [negToks_append]; exact stop_sym tbl htr hredx
    have hnl' : NoLpar (negToks tbl neg ++ .sym tbl.btw 0 :: (print tbl lo ++ .sym tbl.and_ 0 :: (print tbl hi ++ rest))) := by
      rw [negToks_append]; exact noLpar_sym _ _ _
    rw [e1]
    exact parseE_print x hwx r ba _ (n + cost lo + cost hi + 2) res hfx hst hnl' hloop m (by simp [cost] at hm; omega)
  | .inl x neg vs, hwf, r, ba, rest, n, res, hfit, _, _, h, m, hm => by
    have hn := loop_pos tbl h
    obtain ⟨hplain, hne, hib, ⟨lt, at_, hlv, hredx⟩, hwx, hnil, hwvs⟩ := hwf
    have hargs := parseArgs_print vs hnil hwvs rest (n + costArgs vs + 1) (by omega)
    have htail : parseTail tbl (n + costArgs vs + 2) x neg tbl.inn 0 (.lpar :: (printArgs tbl vs ++ .rpar :: rest)) =
        some (.inl x neg vs, rest) := by
      simp only [parseTail, hib, if_false, if_true, expectLpar, hargs, expectRpar]
    have hK := trigTok_cases tbl neg tbl.inn
    have htr : trigger tbl (trigTok tbl neg tbl.inn) = some (lt, at_) := by
      rw [trigger_plain tbl hplain (by rcases hK with h | h <;> simp [h]), hlv]
    have hsh := hfit (trigTok tbl neg tbl.inn, lt, at_) (by simp [lops, htr])
    have hloop := loop_tail_step tbl (n + costArgs vs + 2) r ba x (.inl x neg vs) neg tbl.inn _ rest res
      (Or.inr rfl) hplain hne hlv hsh.1 hsh.2 htail (monoL tbl (by omega) h)
    have hfx : Fits tbl r ba x := fun y hy => hfit y (by simp [lops, hy])
    have e1 : print tbl (.inl x neg vs) ++ rest =
        print tbl x ++ (negToks tbl neg ++ .sym tbl.inn 0 :: (.lpar :: (printArgs tbl vs ++ .rpar :: rest))) := by
      simp [print]
    have hst : Stop tbl (rctx tbl x) (negToks tbl neg ++ .sym tbl.inn 0 :: (.lpar :: (printArgs tbl vs ++ .rpar :: rest))) := by
      rw [negToks_append]; exact stop_sym tbl htr hredx
    have hnl' : NoLpar (negToks tbl neg ++ .sym tbl.inn 0 :: (.lpar :: (printArgs tbl vs ++ .rpar :: rest))) := by
      rw [negToks_append]; exact noLpar_sym _ _ _
    rw [e1]
    exact parseE_print x hwx r ba _ (n + costArgs vs + 3) res hfx hst hnl' hloop m (by simp [cost] at hm; omega)
/-- a non-empty argument list in front of its closing parenthesis is read back -/
theorem parseArgs_print : ∀ (as : Args α), as ≠ .nil → WFArgs tbl as → ∀ (rest : List (Tok α)) (m : Nat), costArgs as + 1 ≤ m →
    parseArgs tbl m (printArgs tbl as ++ .rpar :: rest) = some (as, .rpar :: rest)
  | .nil, hne, _, _, _, _ => absurd rfl hne
  | .cons e .nil, _, hw, rest, m, hm => by
    obtain ⟨hwe, hfe, _⟩ := hw
    obtain ⟨m1, rfl⟩ : ∃ m1, m = m1 + 1 := ⟨m - 1, by omega⟩
    have he : parseE tbl m1 0 false (print tbl e ++ .rpar :: rest) = some (e, .rpar :: rest) :=
      parseE_print e hwe 0 false _ 1 (e, _) hfe (stop_rpar tbl _ _) (noLpar_rpar _) (loop_return tbl 0 e _ (stop_rpar tbl _ _) 0) m1
        (by simp [costArgs] at hm; omega)
    simp only [printArgs, parseArgs, he, takeComma]
  | .cons e (.cons e2 r2), _, hw, rest, m, hm => by
    obtain ⟨hwe, hfe, hw2⟩ := hw
    obtain ⟨m1, rfl⟩ : ∃ m1, m = m1 + 1 := ⟨m - 1, by omega⟩
    have he : parseE tbl m1 0 false (print tbl e ++ .kw .comma :: (printArgs tbl (.cons e2 r2) ++ .rpar :: rest)) =
        some (e, .kw .comma :: (printArgs tbl (.cons e2 r2) ++ .rpar :: rest)) :=
      parseE_print e hwe 0 false _ 1 (e, _) hfe (stop_comma tbl _ _) (noLpar_comma _) (loop_return tbl 0 e _ (stop_comma tbl _ _) 0) m1
        (by simp [costArgs] at hm; omega)
    have hr := parseArgs_print (.cons e2 r2) (by simp) hw2 rest m1 (by simp [costArgs] at hm ⊢; omega)
    have e1 : printArgs tbl (.cons e (.cons e2 r2)) ++ .rpar :: rest =
        print tbl e ++ .kw .comma :: (printArgs tbl (.cons e2 r2) ++ .rpar :: rest) := by simp [printArgs]
    rw [e1]
    simp only [parseArgs, he, takeComma, hr]
end

/-! ## everything the parser returns is well formed -/

theorem stop_cons' {c : Nat} {cs : List Nat} {ts : List (Tok α)} (h1 : Stop tbl [c] ts) (h2 : Stop tbl cs ts) :
    Stop tbl (c :: cs) ts := by
  unfold Stop at h1 h2 ⊢
  split
  · rename_i t v tl
    simp only at h1 h2
    cases ht : trigger tbl t with
    | none => simp
    | some la =>
      obtain ⟨l, a⟩ := la
      simp only [ht] at h1 h2 ⊢
      intro x hx
      simp at hx
      rcases hx with rfl | hx
      · exact h1 x (by simp)
      · exact h2 x hx
  · trivial

/-- how a loop with pending rule `r` (ending at AND if `ba`) may end -/
def End (r : Nat) (ba : Bool) (ts : List (Tok α)) : Prop := Stop tbl [r] ts ∨ (ba = true ∧ AtAnd tbl ts)

theorem end_false {r : Nat} {ts : List (Tok α)} (h : End tbl r false ts) : Stop tbl [r] ts := by
  rcases h with h | ⟨h, _⟩
  · exact h
  · simp at h

theorem postTail_some {ts : List (Tok α)} {neg : Bool} {w : Nat} {r : List (Tok α)}
    (h : postTail tbl ts = some (neg, w, r)) : w < 4 := by
  unfold postTail at h
  split at h
  · split at h
    · simp at h; omega
    · simp at h
  · split at h
    · rename_i hc; simp at h; omega
    · simp at h
  · simp at h

theorem parseCursor_inv {ts : List (Tok α)} {e : Expr α} {rest : List (Tok α)} (h : parseCursor tbl ts = some (e, rest)) :
    WF tbl e ∧ lops tbl e = [] ∧ rctx tbl e = [] := by
  unfold parseCursor at h
  split at h
  all_goals first
    | (simp at h; done)
    | (split at h
       · rename_i hc
         simp only [Option.some.injEq, Prod.mk.injEq] at h
         obtain ⟨rfl, _⟩ := h
         simp_all [WF, lops, rctx]
       · simp at h)

theorem reduces_of_stop {cs : List Nat} {t : α} {v : Nat} {tl : List (Tok α)} {l : Nat} {a : Assoc}
    (hs : Stop tbl cs (.sym t v :: tl)) (ht : trigger tbl t = some (l, a)) : Reduces l a cs := by
  simpa [Stop, ht] using hs

theorem parse_inv : ∀ n : Nat,
    (∀ r ba ts e rest, parseE tbl n r ba ts = some (e, rest) →
      WF tbl e ∧ Fits tbl r ba e ∧ Stop tbl (rctx tbl e) rest ∧ End tbl r ba rest) ∧
    (∀ ts e rest, parseUnit tbl n ts = some (e, rest) → WF tbl e ∧ lops tbl e = [] ∧ Stop tbl (rctx tbl e) rest) ∧
    (∀ ts as rest, parseArgs tbl n ts = some (as, rest) → WFArgs tbl as ∧ as ≠ .nil) ∧
    (∀ lhs neg t v ts e rest, parseTail tbl n lhs neg t v ts = some (e, rest) →
      (t = tbl.btw ∧ ∃ lo hi la aa, e = .between lhs neg lo hi ∧ tbl.bin tbl.and_ = some (la, aa) ∧ WF tbl lo ∧ WF tbl hi ∧
        Fits tbl 0 true lo ∧ Reduces la aa (rctx tbl lo) ∧ Fits tbl la false hi ∧ Stop tbl (la :: rctx tbl hi) rest) ∨
      (t ≠ tbl.btw ∧ t = tbl.inn ∧ ∃ vs, e = .inl lhs neg vs ∧ vs ≠ .nil ∧ WFArgs tbl vs) ∨
      (t ≠ tbl.btw ∧ t ≠ tbl.inn ∧ neg = true ∧ tbl.negable t = true ∧ ∃ l a R, e = .nbin lhs t v R ∧ tbl.bin t = some (l, a) ∧
        WF tbl R ∧ Fits tbl l false R ∧ Stop tbl (l :: rctx tbl R) rest)) ∧
    (∀ r ba lhs ts e rest, WF tbl lhs → Fits tbl r ba lhs → Stop tbl (rctx tbl lhs) ts →
      parseLoop tbl n r ba lhs ts = some (e, rest) →
      WF tbl e ∧ Fits tbl r ba e ∧ Stop tbl (rctx tbl e) rest ∧ End tbl r ba rest)
  | 0 => by simp [parseE, parseUnit, parseLoop, parseArgs, parseTail]
  | n + 1 => by
    obtain ⟨ihE, ihU, ihA, ihT, ihL⟩ := parse_inv n
    refine ⟨?_, ?_, ?_, ?_, ?_⟩
    · intro r ba ts e rest h
      rw [parseE] at h
      cases hu : parseUnit tbl n ts with
      | none => simp [hu] at h
      | some p =>
        obtain ⟨u, ts1⟩ := p
        simp only [hu] at h
        obtain ⟨hw, hl, hs⟩ := ihU _ _ _ hu
        exact ihL r ba u ts1 e rest hw (by intro x hx; rw [hl] at hx; simp at hx) hs h
    · intro ts e rest h
      cases ts with
      | nil => simp [parseUnit] at h
      | cons t ts' =>
        cases t with
        | atom k =>
          simp only [parseUnit] at h
          cases hl : expectLpar ts' with
          | none =>
            simp only [hl, Option.some.injEq, Prod.mk.injEq] at h
            obtain ⟨rfl, rfl⟩ := h
            exact ⟨trivial, rfl, stop_nil tbl _⟩
          | some ts1 =>
            simp only [hl] at h
            by_cases hk : isId k = true
            · simp only [hk, if_true] at h
              cases hr : expectRpar ts1 with
              | some ts2 =>
                simp only [hr, Option.some.injEq, Prod.mk.injEq] at h
                obtain ⟨rfl, rfl⟩ := h
                exact ⟨⟨hk, trivial⟩, rfl, stop_nil tbl _⟩
              | none =>
                simp only [hr] at h
                cases ha : parseArgs tbl n ts1 with
                | none => simp [ha] at h
                | some q =>
                  obtain ⟨as, ts2⟩ := q
                  simp only [ha] at h
                  cases hr2 : expectRpar ts2 with
                  | none => simp [hr2] at h
                  | some ts3 =>
                    simp only [hr2, Option.some.injEq, Prod.mk.injEq] at h
                    obtain ⟨rfl, rfl⟩ := h
                    exact ⟨⟨hk, (ihA _ _ _ ha).1⟩, rfl, stop_nil tbl _⟩
            · simp [hk] at h
        | rpar => simp [parseUnit] at h
        | lit w =>
          simp only [parseUnit] at h
          by_cases hw : w = 9
          · simp only [hw, if_true] at h
            obtain ⟨h1, h2, h3⟩ := parseCursor_inv tbl h
            exact ⟨h1, h2, by rw [h3]; exact stop_nil tbl _⟩
          · simp [hw] at h
        | kw k => simp [parseUnit] at h
        | lpar =>
          simp only [parseUnit] at h
          cases he : parseE tbl n 0 false ts' with
          | none => simp [he] at h
          | some p =>
            obtain ⟨x, ts2⟩ := p
            simp only [he] at h
            cases ts2 with
            | nil => simp at h
            | cons t2 ts3 =>
              cases t2 with
              | rpar =>
                simp only [Option.some.injEq, Prod.mk.injEq] at h
                obtain ⟨rfl, rfl⟩ := h
                obtain ⟨hw, hf, _⟩ := ihE _ _ _ _ _ he
                exact ⟨⟨hw, hf⟩, rfl, stop_nil tbl _⟩
              | atom k => simp at h
              | lpar => simp at h
              | lit w => simp at h
              | kw k => simp at h
              | sym t v => simp at h
        | sym t v =>
          simp only [parseUnit] at h
          cases hp : tbl.pre t with
          | none => simp [hp] at h
          | some p =>
            simp only [hp] at h
            cases he : parseE tbl n p false ts' with
            | none => simp [he] at h
            | some q =>
              obtain ⟨x, ts2⟩ := q
              simp only [he, Option.some.injEq, Prod.mk.injEq] at h
              obtain ⟨rfl, rfl⟩ := h
              obtain ⟨hw, hf, hs, hend⟩ := ihE _ _ _ _ _ he
              refine ⟨⟨p, hp, hw, hf⟩, rfl, ?_⟩
              simpa [rctx, hp] using stop_cons' tbl (end_false tbl hend) hs
    · intro ts as rest h
      rw [parseArgs] at h
      cases he : parseE tbl n 0 false ts with
      | none => simp [he] at h
      | some q =>
        obtain ⟨e, ts1⟩ := q
        simp only [he] at h
        obtain ⟨hw, hf, _, _⟩ := ihE _ _ _ _ _ he
        cases hc : takeComma ts1 with
        | none =>
          simp only [hc, Option.some.injEq, Prod.mk.injEq] at h
          obtain ⟨rfl, rfl⟩ := h
          exact ⟨⟨hw, hf, trivial⟩, by simp⟩
        | some ts2 =>
          simp only [hc] at h
          cases ha : parseArgs tbl n ts2 with
          | none => simp [ha] at h
          | some q2 =>
            obtain ⟨more, ts3⟩ := q2
            simp only [ha, Option.some.injEq, Prod.mk.injEq] at h
            obtain ⟨rfl, rfl⟩ := h
            exact ⟨⟨hw, hf, (ihA _ _ _ ha).1⟩, by simp⟩
    · intro lhs neg t v ts e rest h
      simp only [parseTail] at h
      by_cases h1 : t = tbl.btw
      · left
        simp only [h1, if_true] at h
        refine ⟨h1, ?_⟩
        cases hb : tbl.bin tbl.and_ with
        | none => simp [hb] at h
        | some la =>
          obtain ⟨la, aa⟩ := la
          simp only [hb] at h
          cases he : parseE tbl n 0 true ts with
          | none => simp [he] at h
          | some q =>
            obtain ⟨lo, ts1⟩ := q
            simp only [he] at h
            cases hs : expectSym tbl.and_ ts1 with
            | none => simp [hs] at h
            | some ts2 =>
              simp only [hs] at h
              cases he2 : parseE tbl n la false ts2 with
              | none => simp [he2] at h
              | some q2 =>
                obtain ⟨hi, ts3⟩ := q2
                simp only [he2, Option.some.injEq, Prod.mk.injEq] at h
                obtain ⟨rfl, rfl⟩ := h
                obtain ⟨hwlo, hflo, hslo, _⟩ := ihE _ _ _ _ _ he
                obtain ⟨hwhi, hfhi, hshi, hendhi⟩ := ihE _ _ _ _ _ he2
                obtain ⟨v2, rfl⟩ := expectSym_some hs
                exact ⟨lo, hi, la, aa, rfl, rfl, hwlo, hwhi, hflo, reduces_of_stop tbl hslo (trigger_bin tbl hb), hfhi,
                  stop_cons' tbl (end_false tbl hendhi) hshi⟩
      · right
        simp only [h1, if_false] at h
        by_cases h2 : t = tbl.inn
        · left
          simp only [h2, if_true] at h
          refine ⟨h1, h2, ?_⟩
          cases hl : expectLpar ts with
          | none => simp [hl] at h
          | some ts1 =>
            simp only [hl] at h
            cases ha : parseArgs tbl n ts1 with
            | none => simp [ha] at h
            | some q =>
              obtain ⟨vs, ts2⟩ := q
              simp only [ha] at h
              cases hr : expectRpar ts2 with
              | none => simp [hr] at h
              | some ts3 =>
                simp only [hr, Option.some.injEq, Prod.mk.injEq] at h
                obtain ⟨rfl, rfl⟩ := h
                obtain ⟨hwv, hne⟩ := ihA _ _ _ ha
                exact ⟨vs, rfl, hne, hwv⟩
        · right
          simp only [h2, if_false] at h
          by_cases h3 : (neg && tbl.negable t) = true
          · simp only [h3, if_true] at h
            simp only [Bool.and_eq_true] at h3
            refine ⟨h1, h2, h3.1, h3.2, ?_⟩
            cases hb : tbl.bin t with
            | none => simp [hb] at h
            | some la =>
              obtain ⟨l, a⟩ := la
              simp only [hb] at h
              cases he : parseE tbl n l false ts with
              | none => simp [he] at h
              | some q =>
                obtain ⟨R, ts1⟩ := q
                simp only [he, Option.some.injEq, Prod.mk.injEq] at h
                obtain ⟨rfl, rfl⟩ := h
                obtain ⟨hwR, hfR, hsR, hendR⟩ := ihE _ _ _ _ _ he
                exact ⟨l, a, R, rfl, rfl, hwR, hfR, stop_cons' tbl (end_false tbl hendR) hsR⟩
          · simp [h3] at h
    · intro r ba lhs ts e rest hw hf hs h
      have ret : ∀ (hend : End tbl r ba ts), some (lhs, ts) = some (e, rest) →
          WF tbl e ∧ Fits tbl r ba e ∧ Stop tbl (rctx tbl e) rest ∧ End tbl r ba rest := by
        intro hend heq
        simp only [Option.some.injEq, Prod.mk.injEq] at heq
        obtain ⟨rfl, rfl⟩ := heq
        exact ⟨hw, hf, hs, hend⟩
      cases ts with
      | nil => exact ret (Or.inl (by simp [Stop])) (by simpa [parseLoop] using h)
      | cons t ts' =>
        cases t with
        | atom k => exact ret (Or.inl (by simp [Stop])) (by simpa [parseLoop] using h)
        | rpar => exact ret (Or.inl (by simp [Stop])) (by simpa [parseLoop] using h)
        | lpar => exact ret (Or.inl (by simp [Stop])) (by simpa [parseLoop] using h)
        | lit w => exact ret (Or.inl (by simp [Stop])) (by simpa [parseLoop] using h)
        | kw k => exact ret (Or.inl (by simp [Stop])) (by simpa [parseLoop] using h)
        | sym t v =>
          simp only [parseLoop] at h
          by_cases h0 : (ba && decide (t = tbl.and_)) = true
          · simp only [h0, if_true] at h
            simp only [Bool.and_eq_true, decide_eq_true_eq] at h0
            exact ret (Or.inr ⟨h0.1, by simp [AtAnd, h0.2]⟩) h
          · simp only [h0, Bool.false_eq_true, if_false] at h
            have hnotand : ba = true → t ≠ tbl.and_ := by
              intro hb1 ht; apply h0; simp [hb1, ht]
            -- what the loop does with a node it has just built
            have next : ∀ (e' : Expr α) (ts2 : List (Tok α)) (l : Nat) (a : Assoc) (k : α), WF tbl e' →
                lops tbl e' = (k, l, a) :: lops tbl lhs → act l a r = .shift → (ba = true → k ≠ tbl.and_) →
                Stop tbl (rctx tbl e') ts2 → parseLoop tbl n r ba e' ts2 = some (e, rest) →
                WF tbl e ∧ Fits tbl r ba e ∧ Stop tbl (rctx tbl e) rest ∧ End tbl r ba rest := by
              intro e' ts2 l a k hwe hlo hsh hk hst hl
              refine ihL r ba e' ts2 e rest hwe ?_ hst hl
              intro x hx
              rw [hlo] at hx
              simp at hx
              rcases hx with rfl | hx
              · exact ⟨hsh, hk⟩
              · exact hf x hx
            cases hb : tbl.bin t with
            | some la =>
              obtain ⟨l, a⟩ := la
              simp only [hb] at h
              have htr := trigger_bin tbl hb
              have hred : Reduces l a (rctx tbl lhs) := reduces_of_stop tbl hs htr
              cases ha : act l a r with
              | shift =>
                simp only [ha] at h
                cases he : parseE tbl n l false ts' with
                | none => simp [he] at h
                | some q =>
                  obtain ⟨rhs, ts2⟩ := q
                  simp only [he] at h
                  obtain ⟨hwr, hfr, hsr, hendr⟩ := ihE _ _ _ _ _ he
                  exact next (.bin lhs t v rhs) ts2 l a t ⟨l, a, hb, hw, hwr, hred, hfr⟩ (by simp [lops, htr]) ha hnotand
                    (by simpa [rctx, hb] using stop_cons' tbl (end_false tbl hendr) hsr) h
              | reduce =>
                simp only [ha] at h
                exact ret (Or.inl (stop_sym tbl htr (by intro c hc; simp at hc; subst hc; exact ha))) h
              | error => simp [ha] at h
            | none =>
              simp only [hb] at h
              cases hp : tbl.post t with
              | some la =>
                obtain ⟨l, a⟩ := la
                simp only [hp] at h
                have htr := trigger_post tbl hb hp
                have hred : Reduces l a (rctx tbl lhs) := reduces_of_stop tbl hs htr
                cases ha : act l a r with
                | shift =>
                  simp only [ha] at h
                  cases hpt : postTail tbl ts' with
                  | none => simp [hpt] at h
                  | some q =>
                    obtain ⟨neg, w, ts2⟩ := q
                    simp only [hpt] at h
                    exact next (.post lhs t neg w) ts2 l a t ⟨hb, postTail_some tbl hpt, l, a, hp, hw, hred⟩ (by simp [lops, htr]) ha hnotand
                      (by simpa [rctx] using stop_nil tbl ts2) h
                | reduce =>
                  simp only [ha] at h
                  exact ret (Or.inl (stop_sym tbl htr (by intro c hc; simp at hc; subst hc; exact ha))) h
                | error => simp [ha] at h
              | none =>
                simp only [hp] at h
                have hplain : Plain tbl t := ⟨hb, hp⟩
                by_cases hn : t = tbl.neg
                · subst hn
                  simp only [if_true] at h
                  have hplainN : Plain tbl tbl.neg := hplain
                  cases hl : tbl.lvl tbl.neg with
                  | none =>
                    simp only [hl] at h
                    exact ret (Or.inl (by simp [Stop, trigger, hb, hp, hl])) h
                  | some la =>
                    obtain ⟨l, a⟩ := la
                    simp only [hl] at h
                    have htr : trigger tbl tbl.neg = some (l, a) := by rw [trigger_plain tbl hplainN (Or.inl rfl), hl]
                    have hred : Reduces l a (rctx tbl lhs) := reduces_of_stop tbl hs htr
                    cases ha : act l a r with
                    | shift =>
                      simp only [ha] at h
                      cases hsy : nextSym ts' with
                      | none => simp [hsy] at h
                      | some q =>
                        obtain ⟨t2, v2, ts2⟩ := q
                        simp only [hsy] at h
                        cases htl : parseTail tbl n lhs true t2 v2 ts2 with
                        | none => simp [htl] at h
                        | some q2 =>
                          obtain ⟨e', ts3⟩ := q2
                          simp only [htl] at h
                          have hk : ba = true → tbl.neg ≠ tbl.and_ := hnotand
                          rcases ihT _ _ _ _ _ _ _ htl with ⟨h1, lo, hi, la, aa, rfl, hand, hwlo, hwhi, hflo, hrlo, hfhi, hst⟩ |
                            ⟨h1, h2, vs, rfl, hne, hwv⟩ | ⟨h1, h2, _, hng, l2, a2, R, rfl, hb2, hwR, hfR, hst⟩
                          · refine next _ ts3 l a tbl.neg ?_ (by simp [lops, trigTok, htr]) ha hk (by simpa [rctx, hand] using hst) h
                            exact ⟨by simpa [trigTok] using hplainN, by simp, ⟨l, a, by simpa [trigTok] using hl, hred⟩, la, aa, hand, hw, hwlo, hwhi,
                              hflo, hrlo, hfhi⟩
                          · refine next _ ts3 l a tbl.neg ?_ (by simp [lops, trigTok, htr]) ha hk (by simpa [rctx] using stop_nil tbl ts3) h
                            exact ⟨by simpa [trigTok] using hplainN, by simp, h2 ▸ h1, ⟨l, a, by simpa [trigTok] using hl, hred⟩, hw, hne, hwv⟩
                          · refine next _ ts3 l a tbl.neg ?_ (by simp [lops, htr]) ha hk (by simpa [rctx, hb2] using hst) h
                            exact ⟨hplainN, h1, h2, hng, ⟨l, a, hl, hred⟩, l2, a2, hb2, hw, hwR, hfR⟩
                    | reduce =>
                      simp only [ha] at h
                      exact ret (Or.inl (stop_sym tbl htr (by intro c hc; simp at hc; subst hc; exact ha))) h
                    | error => simp [ha] at h
                · simp only [hn, if_false] at h
                  by_cases hbi : t = tbl.btw ∨ t = tbl.inn
                  · simp only [hbi, if_true] at h
                    cases hl : tbl.lvl t with
                    | none =>
                      simp only [hl] at h
                      exact ret (Or.inl (by simp [Stop, trigger, hb, hp, hbi, hl])) h
                    | some la =>
                      obtain ⟨l, a⟩ := la
                      simp only [hl] at h
                      have htr : trigger tbl t = some (l, a) := by rw [trigger_plain tbl hplain (Or.inr hbi), hl]
                      have hred : Reduces l a (rctx tbl lhs) := reduces_of_stop tbl hs htr
                      cases ha : act l a r with
                      | shift =>
                        simp only [ha] at h
                        cases htl : parseTail tbl n lhs false t v ts' with
                        | none => simp [htl] at h
                        | some q2 =>
                          obtain ⟨e', ts3⟩ := q2
                          simp only [htl] at h
                          rcases ihT _ _ _ _ _ _ _ htl with ⟨h1, lo, hi, la, aa, rfl, hand, hwlo, hwhi, hflo, hrlo, hfhi, hst⟩ |
                            ⟨h1, h2, vs, rfl, hne, hwv⟩ | ⟨_, _, hcontra, _⟩
                          · subst h1
                            refine next _ ts3 l a tbl.btw ?_ (by simp [lops, trigTok, htr]) ha hnotand (by simpa [rctx, hand] using hst) h
                            exact ⟨by simpa [trigTok] using hplain, fun _ => hn, ⟨l, a, by simpa [trigTok] using hl, hred⟩, la, aa, hand, hw, hwlo, hwhi,
                              hflo, hrlo, hfhi⟩
                          · subst h2
                            refine next _ ts3 l a tbl.inn ?_ (by simp [lops, trigTok, htr]) ha hnotand (by simpa [rctx] using stop_nil tbl ts3) h
                            exact ⟨by simpa [trigTok] using hplain, fun _ => hn, h1, ⟨l, a, by simpa [trigTok] using hl, hred⟩, hw, hne, hwv⟩
                          · simp at hcontra
                      | reduce =>
                        simp only [ha] at h
                        exact ret (Or.inl (stop_sym tbl htr (by intro c hc; simp at hc; subst hc; exact ha))) h
                      | error => simp [ha] at h
                  · simp only [hbi, if_false] at h
                    exact ret (Or.inl (by
                      have : ¬(t = tbl.neg ∨ t = tbl.btw ∨ t = tbl.inn) := by
                        intro hh; rcases hh with hh | hh | hh
                        · exact hn hh
                        · exact hbi (Or.inl hh)
                        · exact hbi (Or.inr hh)
                      simp [Stop, trigger, hb, hp, this])) h

end Csvq.OpExpr
