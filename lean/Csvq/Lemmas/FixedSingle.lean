/-
  Helper lemmas for single-line fixed-length files (Csvq.Model.Fixed, section "single-line files";
  theorems in Csvq.Props.C02Single).
-/
import Csvq.Lemmas.Fixed
namespace Csvq.Fixed
open Csvq.Csv (LB Err DCell DTable endingChars nullCell autoNames autofill autofillFrom)

/-! ## rectangular -/

theorem inv_norm (ps : List Nat) (σ : St) (h : Inv ps.length σ) : Inv ps.length (norm ps σ) := by
  unfold norm
  cases hc : σ.cols with
  | nil => exact inv_commit' ps σ h
  | cons e rest => exact h

theorem inv_stepS (wd : Char → Nat) (ps : List Nat) (σ σ' : St) (c : Char)
    (hs : stepS wd ps σ c = .ok σ') (h : Inv ps.length σ) : Inv ps.length σ' := by
  unfold stepS at hs
  cases hst : step wd ps σ c with
  | error e => rw [hst] at hs; cases hs
  | ok σ1 =>
    rw [hst] at hs
    injection hs with hs
    subst hs
    exact inv_norm ps σ1 (inv_step wd ps σ σ1 c hst h)

theorem inv_runS (wd : Char → Nat) (ps : List Nat) (inp : List Char) (σ σ' : St)
    (hs : runS wd ps σ inp = .ok σ') (h : Inv ps.length σ) : Inv ps.length σ' := by
  induction inp generalizing σ with
  | nil => simp only [runS] at hs; injection hs with hs; subst hs; exact h
  | cons c cs ih =>
    simp only [runS] at hs
    split at hs
    · rename_i σ'' hst
      exact ih σ'' hs (inv_stepS wd ps σ σ'' c hst h)
    · cases hs

theorem recs_readAllS (wd : Char → Nat) (ps : List Nat) (inp : List Char) (σ : St)
    (h : readAllS wd ps inp = .ok σ) : ∀ rec ∈ σ.recs, rec.length = ps.length := by
  unfold readAllS at h
  by_cases hv : validFrom 0 ps = false
  · rw [if_pos hv] at h
    split at h
    · split at h
      · injection h with h; subst h; simp
      · cases h
    · cases h
  · rw [if_neg hv] at h
    cases hr : runS wd ps { cols := ps } inp with
    | error e => rw [hr] at h; cases h
    | ok σ' =>
      rw [hr] at h
      simp only at h
      have hi := inv_runS wd ps inp _ σ' hr (inv_init ps)
      unfold finish at h
      by_cases hp : σ'.pcr = true
      · simp [hp] at h
      · simp only [hp] at h
        by_cases h0 : σ'.pos = 0
        · simp only [h0, if_true] at h
          injection h with h; subst h; exact hi.1
        · simp only [h0, if_false] at h
          injection h with h; subst h
          exact (inv_commit' ps σ' hi).1

/-! ## reading back what the writer produced -/

theorem runS_nil (wd : Char → Nat) (ps : List Nat) (σ : St) : runS wd ps σ [] = .ok σ := rfl

theorem runS_cons (wd : Char → Nat) (ps : List Nat) (σ : St) (c : Char) (cs : List Char) :
    runS wd ps σ (c :: cs) = match stepS wd ps σ c with
      | .ok σ' => runS wd ps σ' cs
      | .error e => .error e := rfl

theorem runS_append (wd : Char → Nat) (ps : List Nat) (a b : List Char) (σ : St) :
    runS wd ps σ (a ++ b) = match runS wd ps σ a with
      | .ok σ' => runS wd ps σ' b
      | .error e => .error e := by
  induction a generalizing σ with
  | nil => rfl
  | cons c cs ih =>
    simp only [List.cons_append, runS_cons]
    cases stepS wd ps σ c with
    | error e => rfl
    | ok σ' => exact ih σ'

theorem norm_cons (ps : List Nat) (b : St) (e : Nat) (rest : List Nat) (p : Nat) (buf : List Char)
    (fields : List (List Char)) : norm ps (S b (e :: rest) p buf fields) = S b (e :: rest) p buf fields := by
  simp [norm, S]

/-- one column in single-line mode: as `run_column`, then the record is returned if that was the last column -/
theorem runS_column (wd : Char → Nat) (hwd : ∀ c, 1 ≤ wd c) (ps : List Nat) (b : St) (e : Nat) (rest : List Nat)
    (fields : List (List Char)) (s : List Char) :
    ∀ (buf : List Char) (p : Nat), p + byteSize wd s = e → s ≠ [] → NoBreak s →
    runS wd ps (S b (e :: rest) p buf fields) s
      = .ok (norm ps (S b rest e [] (trim (buf.reverse ++ s) :: fields))) := by
  induction s with
  | nil => intro _ _ _ h; exact absurd rfl h
  | cons c cs ih =>
    intro buf p hsize _ hnb
    obtain ⟨h1, h2⟩ := hnb c (by simp)
    simp only [byteSize] at hsize
    rw [runS_cons]
    by_cases hcs : cs = []
    · subst hcs
      simp only [byteSize] at hsize
      have hpe : p + wd c = e := by omega
      have hstep : step wd ps (S b (e :: rest) p buf fields) c
          = .ok (S b rest e [] (trim (buf.reverse ++ [c]) :: fields)) := by
        simp [step, stepMain, S, h1, h2, hpe]
      simp only [stepS, hstep, runS_nil]
    · have hpos := byteSize_pos wd hwd cs hcs
      have hlt : ¬ (e < p + wd c) := by omega
      have hne : ¬ (p + wd c = e) := by omega
      have hstep : step wd ps (S b (e :: rest) p buf fields) c = .ok (S b (e :: rest) (p + wd c) (c :: buf) fields) := by
        simp [step, stepMain, S, h1, h2, hlt, hne]
      simp only [stepS, hstep, norm_cons]
      rw [ih (c :: buf) (p + wd c) (by omega) hcs (fun x hx => hnb x (by simp [hx]))]
      simp

/-- a whole record in single-line mode: after its last column the record is in `recs` and the next one begins -/
theorem runS_fields (wd : Char → Nat) (hwd : ∀ c, 1 ≤ wd c) (hw : wd ' ' = 1) (P : List Nat) (b : St) :
    ∀ (ps : List Nat) (fs : List Field) (first : Bool) (start : Nat) (acc : List (List Char)) (txt : List Char),
    ps ≠ [] → validFrom start ps = true → fs.length = ps.length → (∀ f ∈ fs, NoBreak f.contents) →
    writeFields wd false first start ps fs = .ok txt →
    runS wd P (S b ps start [] acc) txt
      = .ok (commit P (S b [] (endPos start ps) [] ((fs.map fun f => trim f.contents).reverse ++ acc))) := by
  intro ps
  induction ps with
  | nil => intro _ _ _ _ _ hne; exact absurd rfl hne
  | cons e ps ih =>
    intro fs first start acc txt _ hv hlen hnb hw'
    cases fs with
    | nil => simp at hlen
    | cons f fs =>
      simp only [validFrom, Bool.and_eq_true, decide_eq_true_eq] at hv
      unfold writeFields at hw'
      have hnle : ¬ (e ≤ start) := by omega
      simp only [hnle, if_false, Bool.false_and, List.tail_cons] at hw'
      cases ha : addField wd f (e - start) with
      | error err => rw [ha] at hw'; simp at hw'
      | ok s =>
        rw [ha] at hw'
        simp only at hw'
        cases hr : writeFields wd false false e ps fs with
        | error err => rw [hr] at hw'; simp at hw'
        | ok r =>
          rw [hr] at hw'
          simp only [Bool.false_eq_true, if_false, List.nil_append] at hw'
          injection hw' with hw'; subst hw'
          obtain ⟨hsz, htrim, hmem, _⟩ := addField_ok wd hw f (e - start) s ha
          have hsne : s ≠ [] := by
            intro h0; subst h0; simp [byteSize] at hsz; omega
          have hsnb : NoBreak s := by
            intro c hc
            rcases hmem c hc with h1 | h1
            · exact hnb f (by simp) c h1
            · subst h1; exact ⟨by decide, by decide⟩
          rw [runS_append, runS_column wd hwd P b e ps acc s [] start (by omega) hsne hsnb]
          simp only [List.reverse_nil, List.nil_append]
          cases ps with
          | nil =>
            cases fs with
            | nil =>
              simp only [writeFields] at hr
              injection hr with hr; subst hr
              simp [norm, S, runS_nil, endPos, htrim]
            | cons g gs => simp at hlen
          | cons e2 ps2 =>
            rw [norm_cons]
            rw [ih fs false e (trim s :: acc) r (by simp) hv.2 (by simpa using hlen)
              (fun g hg => hnb g (by simp [hg])) hr]
            simp [endPos, htrim]

theorem commit_end (P : List Nat) (b : St) (E : Nat) (row : List (List Char)) :
    commit P (S b [] E [] row.reverse) = S (nextBase b row) P 0 [] [] := by
  simp [commit, S, nextBase]

/-- all records, one after the other -/
theorem runS_rows (wd : Char → Nat) (hwd : ∀ c, 1 ≤ wd c) (hw : wd ' ' = 1) (P : List Nat) (hv : validFrom 0 P = true)
    (hP : P ≠ []) (rows : List (List Field)) :
    ∀ (b : St) (txt : List Char),
    (∀ x ∈ rows, x.length = P.length ∧ ∀ f ∈ x, NoBreak f.contents) →
    writeAllS wd P rows = .ok txt →
    ∃ σ, runS wd P (S b P 0 [] []) txt = .ok σ ∧ finish P σ = .ok σ ∧ σ.recs = (rows.map rowOf).reverse ++ b.recs := by
  induction rows with
  | nil =>
    intro b txt _ hw'
    simp only [writeAllS] at hw'
    injection hw' with hw'; subst hw'
    exact ⟨S b P 0 [] [], rfl, finish_start P b, by simp [S]⟩
  | cons r rs ih =>
    intro b txt hok hw'
    obtain ⟨hlen, hnb⟩ := hok r (by simp)
    simp only [writeAllS] at hw'
    cases hs : writeRecord wd false P r with
    | error err => rw [hs] at hw'; simp at hw'
    | ok s =>
      rw [hs] at hw'
      simp only at hw'
      cases hm : writeAllS wd P rs with
      | error err => rw [hm] at hw'; simp at hw'
      | ok rest =>
        rw [hm] at hw'
        simp only at hw'
        injection hw' with hw'; subst hw'
        have hrun := runS_fields wd hwd hw P b P r true 0 [] s hP hv hlen hnb hs
        simp only [List.append_nil] at hrun
        have hce := commit_end P b (endPos 0 P) (rowOf r)
        simp only [rowOf] at hce
        rw [hce] at hrun
        obtain ⟨σ, h1, h2, h3⟩ := ih (nextBase b (r.map fun f => trim f.contents)) rest
          (fun x hx => hok x (by simp [hx])) hm
        refine ⟨σ, ?_, h2, ?_⟩
        · rw [runS_append, hrun]
          exact h1
        · rw [h3]
          simp [nextBase, rowOf]

/-! ## when the writer refuses -/

theorem writeAllS_isOk (wd : Char → Nat) (ps : List Nat) (recs : List (List Field)) :
    (∃ s, writeAllS wd ps recs = .ok s) ↔ ∀ r ∈ recs, ∃ s, writeRecord wd false ps r = .ok s := by
  induction recs with
  | nil => simp [writeAllS]
  | cons r rs ih =>
    simp only [writeAllS, List.mem_cons, forall_eq_or_imp]
    cases hr : writeRecord wd false ps r with
    | error e => simp
    | ok s =>
      simp only [Except.ok.injEq, exists_eq', true_and]
      rw [← ih]
      cases writeAllS wd ps rs with
      | error e => simp
      | ok rest => simp

end Csvq.Fixed
