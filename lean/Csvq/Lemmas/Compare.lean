/- Helper lemmas for the comparison ladder (C06, C04, C07). -/
import Csvq.Model.Compare
namespace Csvq

theorem bytesLt_irrefl (x : Bytes) : bytesLt x x = false := by
  induction x with
  | nil => rfl
  | cons a as ih => simp [bytesLt, ih]

theorem bytesLt_asymm : ∀ (x y : Bytes), bytesLt x y = true → bytesLt y x = false
  | [], [], h => by simp [bytesLt] at h
  | [], _ :: _, _ => by simp [bytesLt]
  | _ :: _, [], h => by simp [bytesLt] at h
  | a :: as, b :: bs, h => by
      simp only [bytesLt] at h ⊢
      by_cases h1 : a < b
      · have : ¬ b < a := by omega
        simp [this, h1]
      · by_cases h2 : b < a
        · simp [h1, h2] at h
        · simp [h1, h2] at h ⊢
          exact bytesLt_asymm as bs h

theorem bytesLt_total : ∀ (x y : Bytes), x ≠ y → bytesLt x y = false → bytesLt y x = true
  | [], [], h, _ => by simp at h
  | [], _ :: _, _, h => by simp [bytesLt] at h
  | _ :: _, [], _, _ => by simp [bytesLt]
  | a :: as, b :: bs, hne, h => by
      simp only [bytesLt] at h ⊢
      by_cases h1 : a < b
      · simp [h1] at h
      · by_cases h2 : b < a
        · simp [h2]
        · have hab : a = b := by omega
          subst hab
          simp [h1] at h ⊢
          apply bytesLt_total as bs _ h
          intro e; apply hne; rw [e]

theorem cmpInt_flip (x y : Int) : cmpInt y x = (cmpInt x y).flip := by
  unfold cmpInt
  by_cases h1 : x = y
  · subst h1; simp [Cmp.flip]
  · have h1' : ¬ y = x := fun e => h1 e.symm
    by_cases h2 : x < y
    · have : ¬ y < x := by omega
      simp [h1, h1', h2, this, Cmp.flip]
    · have : y < x := by omega
      simp [h1, h1', h2, this, Cmp.flip]

theorem cmpBytes_flip (x y : Bytes) : cmpBytes y x = (cmpBytes x y).flip := by
  unfold cmpBytes
  by_cases h1 : x = y
  · subst h1; simp [Cmp.flip]
  · have h1' : ¬ y = x := fun e => h1 e.symm
    cases h2 : bytesLt x y
    · have := bytesLt_total x y h1 h2
      simp [h1, h1', this, Cmp.flip]
    · have := bytesLt_asymm x y h2
      simp [h1, h1', this, Cmp.flip]

theorem feq_symm (x y : FVal) : FVal.feq x y = FVal.feq y x := by
  cases x <;> cases y <;> simp [FVal.feq, FVal.num?, BEq.comm]

theorem flt_asymm (x y : FVal) : FVal.flt x y = true → FVal.flt y x = false := by
  cases x <;> cases y <;> simp [FVal.flt, FVal.num?] <;> omega

theorem flt_feq_false (x y : FVal) : FVal.flt x y = true → FVal.feq x y = false := by
  cases x <;> cases y <;> simp [FVal.flt, FVal.feq, FVal.num?] <;> omega

theorem flt_total (x y : FVal) (hx : x.isNaN = false) (hy : y.isNaN = false)
    (he : FVal.feq x y = false) (hl : FVal.flt x y = false) : FVal.flt y x = true := by
  cases x <;> cases y <;> simp_all [FVal.flt, FVal.feq, FVal.num?, FVal.isNaN] <;> omega

theorem cmpFloat_flip (x y : FVal) : cmpFloat y x = (cmpFloat x y).flip := by
  unfold cmpFloat
  cases hx : x.isNaN
  · cases hy : y.isNaN
    · simp only [Bool.or_self, Bool.false_eq_true, ↓reduceIte]
      rw [feq_symm y x]
      cases he : FVal.feq x y
      · cases hl : FVal.flt x y
        · have := flt_total x y hx hy he hl
          simp [this, Cmp.flip]
        · have := flt_asymm x y hl
          simp [this, Cmp.flip]
      · simp [Cmp.flip]
    · simp [Cmp.flip]
  · simp [Cmp.flip]

theorem rungStr_flip (a b : Profile) : rungStr b a = (rungStr a b).flip := by
  unfold rungStr
  cases a.strU? <;> cases b.strU? <;> simp only [Cmp.flip]
  exact cmpBytes_flip _ _

theorem rungBool_flip (a b : Profile) : rungBool b a = (rungBool a b).flip := by
  unfold rungBool
  cases ha : a.bool? <;> cases hb : b.bool? <;> simp only <;> try exact rungStr_flip a b
  rename_i x y
  cases x <;> cases y <;> simp [Cmp.flip]

theorem rungDt_flip (a b : Profile) : rungDt b a = (rungDt a b).flip := by
  unfold rungDt
  cases a.dt? <;> cases b.dt? <;> simp only <;> first | exact rungBool_flip a b | exact cmpInt_flip _ _

theorem rungFlt_flip (a b : Profile) : rungFlt b a = (rungFlt a b).flip := by
  unfold rungFlt
  cases a.flt? <;> cases b.flt? <;> simp only <;> first | exact rungDt_flip a b | exact cmpFloat_flip _ _

theorem rungInt_flip (a b : Profile) : rungInt b a = (rungInt a b).flip := by
  unfold rungInt
  cases a.int? <;> cases b.int? <;> simp only <;> first | exact rungFlt_flip a b | exact cmpInt_flip _ _

end Csvq
