/-
  Csvq.Lemmas.CursorBlocks — what a child block can and cannot do to the blocks below it (helper lemmas for the
  "DECLARE position" theorems of C16), and the checker over the regenerated block handling of processor.go.
-/
import Csvq.Lemmas.Cursor
import Csvq.Gen.ScopeFacts
namespace Csvq.Cursor
open Csvq

/-! ## keys are added by DECLARE only, and only to the innermost block -/

theorem lookup_update_none {α} (s : Scope α) (k k2 : String) (c : CState α) (h : lookup s k = none) :
    lookup (update s k2 c) k = none := by
  induction s with
  | nil => simp [lookup, update]
  | cons hd t ih =>
    obtain ⟨k', c'⟩ := hd
    by_cases hk : k' = k
    · simp [lookup, hk] at h
    · simp only [lookup, hk, if_false] at h
      by_cases hk2 : k' = k2
      · simp [update, lookup, hk2, hk2 ▸ hk, h]
      · simp [update, lookup, hk2, hk, ih h]

theorem lookup_erase_none {α} (s : Scope α) (k k2 : String) (h : lookup s k = none) :
    lookup (erase s k2) k = none := by
  induction s with
  | nil => simp [lookup, erase]
  | cons hd t ih =>
    obtain ⟨k', c'⟩ := hd
    by_cases hk : k' = k
    · simp [lookup, hk] at h
    · simp only [lookup, hk, if_false] at h
      by_cases hk2 : k' = k2
      · simp [erase, hk2, h]
      · simp [erase, lookup, hk2, hk, ih h]

/-- a statement other than DECLARE leaves a scope as it is, updates one entry or erases one -/
theorem step_shape {α} (s : Scope α) (op : Op α) (k' : String) (hk : op.chainKey = some k') :
    (step s op).1 = s ∨ (∃ c, (step s op).1 = update s k' c) ∨ (step s op).1 = erase s k' := by
  cases op <;> simp only [Op.chainKey, Option.some.injEq, reduceCtorEq] at hk <;> subst hk <;>
    simp only [step] <;> (repeat' split) <;> first | (simp; done) | exact Or.inr (Or.inl ⟨_, rfl⟩)

theorem step_no_new_key {α} (s : Scope α) (op : Op α) (k k' : String) (hk : op.chainKey = some k')
    (h : lookup s k = none) : lookup (step s op).1 k = none := by
  rcases step_shape s op k' hk with h1 | ⟨c, h1⟩ | h1 <;> rw [h1]
  · exact h
  · exact lookup_update_none s k k' c h
  · exact lookup_erase_none s k k' h

theorem lookupS_none_cons {α} (b : Scope α) (rest : Stack α) (k : String) :
    lookupS (b :: rest) k = none ↔ lookup b k = none ∧ lookupS rest k = none := by
  simp only [lookupS]
  cases hb : lookup b k <;> simp

theorem stepS_no_new_key {α} (st : Stack α) (op : Op α) (k k' : String) (hk : op.chainKey = some k')
    (h : lookupS st k = none) : lookupS (stepS st op).1 k = none := by
  induction st with
  | nil => simp [stepS, lookupS]
  | cons b rest ih =>
    obtain ⟨hb, hr⟩ := (lookupS_none_cons b rest k).mp h
    simp only [stepS, hk]
    cases hl : lookup b k' with
    | some c =>
      exact (lookupS_none_cons _ _ _).mpr ⟨step_no_new_key b op k k' hk hb, hr⟩
    | none =>
      exact (lookupS_none_cons _ _ _).mpr ⟨hb, ih hr⟩

/-- one statement on a stack with a block on top: the stack keeps its shape, and the blocks BELOW the top one gain
    no name (DECLARE adds to the top block only) -/
theorem stepS_cons {α} (b : Scope α) (rest : Stack α) (op : Op α) (k : String) (h : lookupS rest k = none) :
    ∃ b' rest', (stepS (b :: rest) op).1 = b' :: rest' ∧ lookupS rest' k = none := by
  cases hk : op.chainKey with
  | none => exact ⟨(step b op).1, rest, by simp only [stepS, hk], h⟩
  | some k' =>
    cases hl : lookup b k' with
    | some c => exact ⟨(step b op).1, rest, by simp only [stepS, hk, hl], h⟩
    | none => exact ⟨b, (stepS rest op).1, by simp only [stepS, hk, hl], stepS_no_new_key rest op k k' hk h⟩

theorem runOps_cons {α} (ops : List (Op α)) : ∀ (b : Scope α) (rest : Stack α) (k : String), lookupS rest k = none →
    ∃ b' rest', (runOps (b :: rest) ops).1 = b' :: rest' ∧ lookupS rest' k = none := by
  induction ops with
  | nil => intro b rest k h; exact ⟨b, rest, rfl, h⟩
  | cons op ops ih =>
    intro b rest k h
    obtain ⟨b1, rest1, h1, h2⟩ := stepS_cons b rest op k h
    simp only [runOps]
    generalize hs : stepS (b :: rest) op = sr at h1
    obtain ⟨st', r⟩ := sr
    simp only at h1
    subst h1
    cases r with
    | err e => exact ⟨b1, rest1, rfl, h2⟩
    | ok => exact ih b1 rest1 k h2
    | row x => exact ih b1 rest1 k h2
    | none => exact ih b1 rest1 k h2
    | tern t => exact ih b1 rest1 k h2
    | int n => exact ih b1 rest1 k h2
    | rows l => exact ih b1 rest1 k h2

/-! ## an intermediate block that declares nothing is invisible -/

/-- a second, empty block right under the top one -/
def insertEmpty {α} : Stack α → Stack α
  | [] => []
  | b :: rest => b :: [] :: rest

theorem stepS_nil_cons {α} (rest : Stack α) (op : Op α) (k' : String) (hk : op.chainKey = some k') :
    stepS ([] :: rest) op = ([] :: (stepS rest op).1, (stepS rest op).2) := by
  simp [stepS, hk, lookup]

theorem stepS_insertEmpty {α} (b : Scope α) (rest : Stack α) (op : Op α) :
    stepS (insertEmpty (b :: rest)) op = (insertEmpty (stepS (b :: rest) op).1, (stepS (b :: rest) op).2)
    ∧ ∃ b' rest', (stepS (b :: rest) op).1 = b' :: rest' := by
  cases hk : op.chainKey with
  | none => exact ⟨by simp only [insertEmpty, stepS, hk], (step b op).1, rest, by simp only [stepS, hk]⟩
  | some k' =>
    cases hl : lookup b k' with
    | some c => exact ⟨by simp only [insertEmpty, stepS, hk, hl], (step b op).1, rest, by simp only [stepS, hk, hl]⟩
    | none =>
      refine ⟨?_, b, (stepS rest op).1, by simp only [stepS, hk, hl]⟩
      have h0 := stepS_nil_cons rest op k' hk
      simp only [insertEmpty]
      rw [show stepS (b :: [] :: rest) op = (b :: (stepS ([] :: rest) op).1, (stepS ([] :: rest) op).2) by
        simp only [stepS, hk, hl]]
      rw [h0]
      simp only [stepS, hk, hl, insertEmpty]

theorem runOps_insertEmpty {α} (ops : List (Op α)) : ∀ (b : Scope α) (rest : Stack α),
    runOps (insertEmpty (b :: rest)) ops = (insertEmpty (runOps (b :: rest) ops).1, (runOps (b :: rest) ops).2) := by
  induction ops with
  | nil => intro b rest; rfl
  | cons op ops ih =>
    intro b rest
    obtain ⟨h1, b', rest', h2⟩ := stepS_insertEmpty b rest op
    simp only [runOps, h1]
    generalize hs : stepS (b :: rest) op = sr at h2
    obtain ⟨st', r⟩ := sr
    simp only at h2
    subst h2
    cases r <;> simp [ih b' rest']

theorem runOps_shape {α} (ops : List (Op α)) (b : Scope α) (rest : Stack α) :
    ∃ b' rest', (runOps (b :: rest) ops).1 = b' :: rest' := by
  have h := runOps_insertEmpty ops b rest
  cases hr : (runOps (b :: rest) ops).1 with
  | nil =>
    -- impossible: the run on the stack with the empty block inserted would end on an empty stack as well
    exfalso
    have hlen : ∀ (ops : List (Op α)) (b : Scope α) (rest : Stack α), (runOps (b :: rest) ops).1 ≠ [] := by
      intro ops
      induction ops with
      | nil => intro b rest; simp [runOps]
      | cons op ops ih =>
        intro b rest
        obtain ⟨_, b', rest', h2⟩ := stepS_insertEmpty b rest op
        simp only [runOps]
        generalize hs : stepS (b :: rest) op = sr at h2
        obtain ⟨st', r⟩ := sr
        simp only at h2
        subst h2
        cases r <;> simp [ih b' rest']
    exact hlen ops b rest hr
  | cons b' rest' => exact ⟨b', rest', rfl⟩

theorem stepS_length {α} (op : Op α) (st : Stack α) : (stepS st op).1.length = st.length := by
  induction st with
  | nil => simp [stepS]
  | cons b rest ihs =>
    cases hk : op.chainKey with
    | none => simp [stepS, hk]
    | some k' => cases hl : lookup b k' <;> simp [stepS, hk, hl, ihs]

theorem runOps_length {α} (ops : List (Op α)) : ∀ (st : Stack α), (runOps st ops).1.length = st.length := by
  induction ops with
  | nil => intro st; rfl
  | cons op ops ih =>
    intro st
    simp only [runOps]
    have := stepS_length op st
    generalize hs : stepS st op = sr at this
    obtain ⟨st', r⟩ := sr
    cases r <;> simp_all

/-! ## the block handling of processor.go (Gen.ScopeFacts.blockHandling, regenerated by extract/scopefacts) -/

/-- the ordered call list of one function -/
def blockCalls (fn : String) : List String := (Gen.Scope.blockHandling.lookup fn).getD []

def countTok (t : String) (l : List String) : Nat := (l.filter (fun x => x = t)).length

end Csvq.Cursor
