/-
  Lemmas for Csvq.Model.ParseFloat: the digit loop of readFloat on a plain digit string, the bound on the
  number of significant digits, and the absence of overflow when an int64 magnitude is rounded.
-/
import Csvq.Model.ParseFloat
import Csvq.Lemmas.Float
namespace Csvq
namespace PF
open FVal

theorem isDigit_iff (b : Nat) : isDigit b = true ↔ (48 ≤ b ∧ b ≤ 57) := by
  simp [isDigit]

/-- invariant of the digit loop: no significant digit yet ⇒ mantissa 0; otherwise the leading digit is not 0 -/
def ScanInv (st : Scan) : Prop :=
  (st.nd = 0 → st.mant = 0) ∧ (0 < st.nd → 10 ^ (st.nd - 1) ≤ st.mant)

theorem scanInv_init : ScanInv {} := by
  constructor <;> simp

/-- On a string of decimal digits the loop of readFloat consumes everything, sees neither point nor
    underscore, and its exact mantissa is the number `parseDigits` reads. -/
theorem scanMant_digits (t : Bytes) : ∀ (st : Scan) (v : Nat),
    parseDigits t st.mant = some v → ScanInv st →
    ∃ st', scanMant false t st = (st', []) ∧ st'.mant = v ∧ st'.sawdot = st.sawdot
      ∧ st'.underscores = st.underscores ∧ (t ≠ [] → st'.sawdigits = true) ∧ ScanInv st'
      ∧ (st.sawdigits = true → st'.sawdigits = true) := by
  induction t with
  | nil =>
    intro st v h hi
    refine ⟨st, rfl, ?_, rfl, rfl, by simp, hi, id⟩
    simpa [parseDigits] using h
  | cons c cs ih =>
    intro st v h hi
    unfold parseDigits at h
    by_cases hd : 48 ≤ c ∧ c ≤ 57
    · rw [if_pos hd] at h
      have hdig : isDigit c = true := (isDigit_iff c).2 hd
      have h95 : ¬ c = 95 := by omega
      have h46 : ¬ c = 46 := by omega
      unfold scanMant
      rw [if_neg h95, if_neg h46, if_pos hdig]
      by_cases hz : c = 48 ∧ st.nd = 0
      · rw [if_pos hz]
        have hm : st.mant = 0 := hi.1 hz.2
        have h' : parseDigits cs ({ st with sawdigits := true, dp := st.dp - 1 } : Scan).mant = some v := by
          simpa [hm, hz.1] using h
        obtain ⟨st', e, a, b, c', _, f, _⟩ := ih { st with sawdigits := true, dp := st.dp - 1 } v h' hi
        exact ⟨st', e, a, b, c', fun _ => by
          obtain ⟨st'', e2, _, _, _, _, _, g⟩ := ih { st with sawdigits := true, dp := st.dp - 1 } v h' hi
          rw [e] at e2; cases e2; exact g rfl, f, fun _ => by
          obtain ⟨st'', e2, _, _, _, _, _, g⟩ := ih { st with sawdigits := true, dp := st.dp - 1 } v h' hi
          rw [e] at e2; cases e2; exact g rfl⟩
      · rw [if_neg hz]
        have hinv : ScanInv { st with sawdigits := true, nd := st.nd + 1, mant := st.mant * (if false = true then 16 else 10) + (c - 48) } := by
          constructor
          · intro h0; simp at h0
          · intro _
            simp only [Nat.add_sub_cancel]
            by_cases hn : st.nd = 0
            · have hm := hi.1 hn
              have hc : c ≠ 48 := fun hc => hz ⟨hc, hn⟩
              simp [hn, hm]; omega
            · have := hi.2 (Nat.pos_of_ne_zero hn)
              have e : st.nd = (st.nd - 1) + 1 := by omega
              rw [e, Nat.pow_succ]
              simp; omega
        have h' : parseDigits cs ({ st with sawdigits := true, nd := st.nd + 1, mant := st.mant * (if false = true then 16 else 10) + (c - 48) } : Scan).mant = some v := by
          simpa using h
        obtain ⟨st', e, a, b, c', _, f, g⟩ := ih _ v h' hinv
        exact ⟨st', e, a, b, c', fun _ => g rfl, f, fun _ => g rfl⟩
    · rw [if_neg hd] at h; cases h

/-- a mantissa with `nd` significant digits that fits in 2^63 has at most 19 of them -/
theorem nd_le_19 (st : Scan) (hi : ScanInv st) (h : st.mant ≤ 2 ^ 63) : st.nd ≤ 19 := by
  by_cases hn : st.nd ≤ 19
  · exact hn
  · exfalso
    have h1 := hi.2 (by omega)
    have : 10 ^ 19 ≤ 10 ^ (st.nd - 1) := Nat.pow_le_pow_right (by decide) (by omega)
    have h3 : (2:Nat) ^ 63 < 10 ^ 19 := by decide
    omega

/-- rounding an integer magnitude (in units) never overflows below 2^2097 -/
theorem roundMag_one_some (a : Nat) (ha : 0 < a) (h : 2 * a < overflowAt) : ∃ n, roundMag a 1 = some n := by
  unfold roundMag
  simp only [Nat.div_one, Nat.one_mul]
  have hq : ¬ a = 0 := by omega
  simp only [hq, if_false]
  generalize hk : Nat.log2 a + 1 - 53 = k
  have hk2 : pow2 k ≤ a := by
    have h1 : 2 ^ Nat.log2 a ≤ a := Nat.log2_self_le hq
    have h2 : 2 ^ k ≤ 2 ^ Nat.log2 a := Nat.pow_le_pow_right (by decide) (by omega)
    unfold pow2; omega
  have hpos : 0 < pow2 k := pow2_pos k
  have hm : a / pow2 k * pow2 k ≤ a := Nat.div_mul_le_self a (pow2 k)
  have key : ∀ m', m' ≤ a / pow2 k + 1 → ¬ (m' * pow2 k ≥ overflowAt) := by
    intro m' hm'
    have : m' * pow2 k ≤ (a / pow2 k + 1) * pow2 k := Nat.mul_le_mul_right _ hm'
    rw [Nat.add_mul, Nat.one_mul] at this
    omega
  split
  · rename_i h1
    exact ⟨_, by rw [if_neg (key _ (Nat.le_refl _))]⟩
  · split
    · split
      · exact ⟨_, by rw [if_neg (key _ (Nat.le_succ _))]⟩
      · exact ⟨_, by rw [if_neg (key _ (Nat.le_refl _))]⟩
    · exact ⟨_, by rw [if_neg (key _ (Nat.le_succ _))]⟩

theorem roundMag_int64_some (m : Nat) (hm : 0 < m) (h : m ≤ 2 ^ 63) : ∃ n, roundMag (m * unit) 1 = some n := by
  apply roundMag_one_some
  · exact Nat.mul_pos hm unitNat_pos
  · have h1 : m * unit ≤ 2 ^ 63 * unit := Nat.mul_le_mul_right _ h
    have h2 : 2 * (2 ^ 63 * unit) < overflowAt := by
      unfold unit overflowAt pow2
      have : (2:Nat) * (2 ^ 63 * 2 ^ 1074) = 2 ^ 1138 := by
        rw [← Nat.pow_add, ← Nat.pow_succ']
      rw [this]
      exact Nat.pow_lt_pow_right (by decide) (by decide)
    omega

end PF
end Csvq

namespace Csvq
namespace PF
open FVal

theorem parseDigits_head_digit (c : Nat) (cs : Bytes) (acc v : Nat) (h : parseDigits (c :: cs) acc = some v) :
    48 ≤ c ∧ c ≤ 57 := by
  unfold parseDigits at h
  by_cases hd : 48 ≤ c ∧ c ≤ 57
  · exact hd
  · rw [if_neg hd] at h; cases h

theorem lowerB_digit (c : Nat) (h : 48 ≤ c ∧ c ≤ 57) : lowerB c = c := by
  unfold lowerB; rw [if_neg (by omega)]

theorem commonPrefixLen_digit (c : Nat) (cs p : Bytes) (h : 48 ≤ c ∧ c ≤ 57) (hp : ∀ x ∈ p.head?, 97 ≤ x) :
    commonPrefixLen (c :: cs) p = 0 := by
  cases p with
  | nil => rfl
  | cons x xs =>
    unfold commonPrefixLen
    have := hp x (by simp)
    rw [lowerB_digit c h, if_neg (by omega)]

/-- a text that starts (after an optional sign) with a decimal digit is none of the special values -/
theorem special_digit (c : Nat) (cs : Bytes) (h : 48 ≤ c ∧ c ≤ 57) :
    special (c :: cs) = none ∧ special (43 :: c :: cs) = none ∧ special (45 :: c :: cs) = none := by
  have hinf : commonPrefixLen (c :: cs) sInfinity = 0 := commonPrefixLen_digit c cs _ h (by simp [sInfinity])
  refine ⟨?_, ?_, ?_⟩
  · unfold special
    split
    · rename_i heq; cases heq
    · rename_i heq; cases heq; omega
    · rename_i heq; cases heq; omega
    · rename_i c' t _ _ heq
      cases heq
      rw [if_neg (by omega), if_neg (by omega)]
  · simp [special, hinf]
  · simp [special, hinf]

theorem stripSign_digit (c : Nat) (cs : Bytes) (h : 48 ≤ c ∧ c ≤ 57) : stripSign (c :: cs) = (false, c :: cs) := by
  unfold stripSign
  split
  · rename_i heq; cases heq; omega
  · rename_i heq; cases heq; omega
  · rfl

theorem stripHex_digits (t : Bytes) (v : Nat) (acc : Nat) (h : parseDigits t acc = some v) : stripHex t = (false, t) := by
  unfold stripHex
  split
  · rename_i x y r
    have h2 : parseDigits (x :: y :: r) (acc * 10 + (48 - 48)) = some v := by
      unfold parseDigits at h; rw [if_pos (by omega)] at h; exact h
    have := parseDigits_head_digit x (y :: r) _ v h2
    rw [lowerB_digit x this, if_neg (by omega)]
  · rfl

/-- readFloat on an optionally signed string of decimal digits -/
theorem readBody_digits (s t : Bytes) (neg : Bool) (n : Nat) (hne : t ≠ []) (h : parseDigits t 0 = some n) :
    ∃ k : Nat, readBody s neg false t = some { neg := neg, hex := false, mant := n, nd := k, dp := k }
      ∧ (0 < k → 10 ^ (k - 1) ≤ n) ∧ (k = 0 → n = 0) := by
  obtain ⟨st', e, hm, hdot, hus, hsd, hinv, _⟩ := scanMant_digits t {} n (by simpa using h) scanInv_init
  refine ⟨st'.nd, ?_, by rw [← hm]; exact hinv.2, by rw [← hm]; exact hinv.1⟩
  unfold readBody
  rw [e]
  have h1 : st'.sawdigits = true := hsd hne
  have h2 : st'.sawdot = false := by rw [hdot]
  have h3 : st'.underscores = false := by rw [hus]
  simp [h1, h2, h3, hm]

end PF
end Csvq

namespace Csvq
namespace PF
open FVal

theorem signed_zero (neg : Bool) : signed neg (some 0) = if neg then .negz else .fin 0 := by
  cases neg <;> rfl

/-- the value of a parsed plain decimal integer of int64 magnitude: no overflow, no underflow shortcut -/
theorem parsed_int_value (neg : Bool) (n k : Nat) (hk1 : 0 < k → 10 ^ (k - 1) ≤ n) (hn : n ≤ 2 ^ 63) :
    Parsed.value { neg := neg, hex := false, mant := n, nd := k, dp := k }
      = some (if n = 0 then (if neg then .negz else .fin 0) else signed neg (roundMag (n * unit) 1)) := by
  unfold Parsed.value
  by_cases h0 : n = 0
  · simp [h0, signed_zero]
  · have hk : k ≤ 19 := by
      by_cases hle : k ≤ 19
      · exact hle
      · exfalso
        have h1 := hk1 (by omega)
        have : 10 ^ 19 ≤ 10 ^ (k - 1) := Nat.pow_le_pow_right (by decide) (by omega)
        have h3 : (2:Nat) ^ 63 < 10 ^ 19 := by decide
        omega
    obtain ⟨m, hm⟩ := roundMag_int64_some n (Nat.pos_of_ne_zero h0) hn
    simp only [h0, if_false]
    have e1 : ¬ ((k : Int) > 310) := by omega
    have e2 : ¬ ((k : Int) < -330) := by omega
    simp only [e1, e2, if_false, Int.sub_self]
    simp [hm]

end PF
end Csvq
