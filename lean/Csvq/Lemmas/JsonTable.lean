/-
  Helper lemmas for the JSON / JSON Lines table round trip on tokens (Csvq.Props.C02):
  the parser reads back the tokens of a flat object, of an array of flat objects; the header and the
  cells of `tableOf`.
-/
import Csvq.Lemmas.Json
namespace Csvq.Json
open Csvq.Csv (DCell DTable Err)

/-! ## scalars and flat objects -/

theorem pValue_scalar (v : JS) (hv : isScalar v = true) (n : Nat) (rest : List Tok) :
    pValue (n + 1) (toksS v ++ rest) = some (v, rest) := by
  cases v with
  | null => simp [toksS, pValue]
  | bool b => cases b <;> simp [toksS, pValue]
  | str s => simp [toksS, pValue]
  | num a => simp [toksS, pValue]
  | arr is => simp [isScalar] at hv
  | obj ms => simp [isScalar] at hv

theorem toksS_scalar_length (v : JS) (hv : isScalar v = true) : (toksS v).length = 1 := by
  cases v with
  | null => rfl
  | bool b => cases b <;> rfl
  | str s => rfl
  | num a => rfl
  | arr is => simp [isScalar] at hv
  | obj ms => simp [isScalar] at hv

def Flat (ms : List (List Char × JS)) : Prop := ∀ m ∈ ms, isScalar m.2 = true

/-- the members of a flat object followed by the closing brace -/
theorem pMembers_flat (ms : List (List Char × JS)) (hf : Flat ms) :
    ∀ (n : Nat) (rest : List Tok), ms.length ≤ n →
    pMembers (n + 1) (toksMembers ms ++ .rbrace :: rest) = some (ms, rest) := by
  induction ms with
  | nil => intro n rest _; simp [toksMembers, pMembers]
  | cons m ms ih =>
    intro n rest hn
    obtain ⟨k, v⟩ := m
    have hv : isScalar v = true := hf (k, v) (by simp)
    cases n with
    | zero => simp at hn
    | succ n' =>
      cases ms with
      | nil =>
        simp only [toksMembers, List.cons_append, List.append_assoc]
        rw [pMembers, pValue_scalar v hv]
      | cons m2 ms2 =>
        simp only [toksMembers, List.cons_append, List.append_assoc]
        rw [pMembers, pValue_scalar v hv]
        simp only
        rw [ih (fun x hx => hf x (by simp [hx])) n' rest (by simpa using hn)]

theorem pValue_flat_obj (ms : List (List Char × JS)) (hf : Flat ms) (n : Nat) (rest : List Tok)
    (hn : ms.length + 1 ≤ n) :
    pValue (n + 1) (toksS (.obj ms) ++ rest) = some (.obj ms, rest) := by
  cases n with
  | zero => simp at hn
  | succ n' =>
    simp only [toksS, List.cons_append, List.append_assoc, List.nil_append]
    rw [pValue, pMembers_flat ms hf n' rest (by omega)]

/-- an array of flat objects; every object has at most `w` members -/
theorem pItems_flat (objs : List (List (List Char × JS))) (w : Nat)
    (hf : ∀ ms ∈ objs, Flat ms ∧ ms.length ≤ w) :
    ∀ (n : Nat) (rest : List Tok), objs.length + w + 2 ≤ n →
    pItems (n + 1) (toksItems (objs.map .obj) ++ .rbrack :: rest) = some (objs.map .obj, rest) := by
  induction objs with
  | nil => intro n rest _; simp [toksItems, pItems]
  | cons ms objs ih =>
    intro n rest hn
    obtain ⟨hfl, hw⟩ := hf ms (by simp)
    cases n with
    | zero => simp at hn
    | succ n' =>
      have hobj := fun r => pValue_flat_obj ms hfl n' r (by simp at hn; omega)
      have hne : ∀ r, toksS (.obj ms) ++ r ≠ .rbrack :: r := by intro r; simp [toksS]
      cases objs with
      | nil =>
        simp only [List.map_cons, List.map_nil, toksItems]
        rw [pItems]
        · rw [hobj]
        · intro ts h; simp [toksS] at h
      | cons ms2 objs2 =>
        simp only [List.map_cons, toksItems, List.append_assoc, List.cons_append]
        rw [pItems]
        · rw [hobj]
          simp only
          have := ih (fun x hx => hf x (by simp [hx])) n' rest (by simp at hn ⊢; omega)
          simp only [List.map_cons] at this
          rw [this]
        · intro ts h; simp [toksS] at h

/-! ## enough fuel: token counts -/

theorem toksS_length_pos (v : JS) : 1 ≤ (toksS v).length := by
  cases v with
  | null => simp [toksS]
  | bool b => cases b <;> simp [toksS]
  | str s => simp [toksS]
  | num a => simp [toksS]
  | arr is => simp [toksS]
  | obj ms => simp [toksS]

theorem toksMembers_length (ms : List (List Char × JS)) : ms.length ≤ (toksMembers ms).length := by
  induction ms with
  | nil => simp
  | cons m ms ih =>
    obtain ⟨k, v⟩ := m
    cases ms with
    | nil => simp [toksMembers]
    | cons m2 ms2 =>
      simp only [toksMembers, List.length_cons, List.length_append] at ih ⊢
      omega

theorem toksS_obj_length (ms : List (List Char × JS)) : ms.length + 2 ≤ (toksS (.obj ms)).length := by
  have := toksMembers_length ms
  simp only [toksS, List.length_cons, List.length_append, List.length_nil]
  omega

theorem toksItems_length (objs : List (List (List Char × JS))) (w : Nat) (hne : objs ≠ [])
    (hw : ∀ ms ∈ objs, ms.length = w) :
    objs.length + w + 1 ≤ (toksItems (objs.map .obj)).length := by
  induction objs with
  | nil => exact absurd rfl hne
  | cons ms objs ih =>
    have h1 := toksS_obj_length ms
    have hms := hw ms (by simp)
    cases objs with
    | nil => simp only [List.map_cons, List.map_nil, toksItems, List.length_cons, List.length_nil]; omega
    | cons ms2 objs2 =>
      have := ih (by simp) (fun x hx => hw x (by simp [hx]))
      simp only [List.map_cons, toksItems, List.length_cons, List.length_append] at this ⊢
      omega

/-- the whole array of flat objects of width `w`, read back by `parseToks` -/
theorem parseToks_flat_array (objs : List (List (List Char × JS))) (w : Nat) (hne : objs ≠ [])
    (hf : ∀ ms ∈ objs, Flat ms) (hw : ∀ ms ∈ objs, ms.length = w) :
    parseToks (toksS (.arr (objs.map .obj))) = .ok (some (.arr (objs.map .obj))) := by
  have hlen := toksItems_length objs w hne hw
  unfold parseToks
  simp only [toksS]
  have hit := pItems_flat objs w (fun ms hms => ⟨hf ms hms, by rw [hw ms hms]; exact Nat.le_refl _⟩)
    ((toksItems (objs.map .obj)).length + 1) [] (by omega)
  have hfuel : (Tok.lbrack :: (toksItems (objs.map .obj) ++ [Tok.rbrack])).length + 1
      = ((toksItems (objs.map .obj)).length + 1) + 1 + 1 := by simp
  rw [hfuel, pValue, hit]

theorem parseToks_flat_obj (ms : List (List Char × JS)) (hf : Flat ms) :
    parseToks (toksS (.obj ms)) = .ok (some (.obj ms)) := by
  have hl := toksS_obj_length ms
  unfold parseToks
  have h := pValue_flat_obj ms hf ((toksS (.obj ms)).length) [] (by omega)
  rw [List.append_nil] at h
  cases hts : toksS (.obj ms) with
  | nil => rw [hts] at hl; simp at hl
  | cons t ts =>
    rw [hts] at h
    simp only
    rw [h]

/-! ## header and cells of `tableOf` -/

theorem addKeys_fresh (ks : List (List Char)) :
    ∀ (vs : List JS) (pre : List (List Char)), vs.length = ks.length → (pre ++ ks).Nodup →
    addKeys pre (ks.zip vs) = pre ++ ks := by
  induction ks with
  | nil => intro vs pre _ _; simp [addKeys]
  | cons k ks ih =>
    intro vs pre hl hnd
    cases vs with
    | nil => simp at hl
    | cons v vs =>
      simp only [List.zip_cons_cons, addKeys]
      have hk : k ∉ pre := by
        intro hm
        have := List.nodup_append.mp hnd
        exact this.2.2 k hm k (by simp) rfl
      have : pre.contains k = false := by simpa using hk
      simp only [this, Bool.false_eq_true, if_false]
      rw [ih vs (pre ++ [k]) (by simpa using hl) (by simpa [List.append_assoc] using hnd)]
      simp

theorem addKeys_known (h0 : List (List Char)) (ms : List (List Char × JS)) (hk : ∀ m ∈ ms, m.1 ∈ h0) :
    addKeys h0 ms = h0 := by
  induction ms with
  | nil => rfl
  | cons m ms ih =>
    obtain ⟨k, v⟩ := m
    have : h0.contains k = true := by simpa using hk (k, v) (by simp)
    simp only [addKeys, this, if_true]
    exact ih (fun x hx => hk x (by simp [hx]))

theorem foldl_addKeys (h : List (List Char)) (hnd : h.Nodup) (rows : List (List JS))
    (hl : ∀ r ∈ rows, r.length = h.length) (hne : rows ≠ []) :
    (rows.map fun r => h.zip r).foldl addKeys [] = h := by
  cases rows with
  | nil => exact absurd rfl hne
  | cons r rs =>
    simp only [List.map_cons, List.foldl_cons]
    rw [addKeys_fresh h r [] (hl r (by simp)) (by simpa using hnd), List.nil_append]
    have : ∀ (rs : List (List JS)), (∀ r ∈ rs, r.length = h.length) →
        (rs.map fun r => h.zip r).foldl addKeys h = h := by
      intro rs
      induction rs with
      | nil => intro _; rfl
      | cons r2 rs2 ih =>
        intro hl2
        simp only [List.map_cons, List.foldl_cons]
        rw [addKeys_known h (h.zip r2) (fun m hm => (List.of_mem_zip hm).1)]
        exact ih (fun x hx => hl2 x (by simp [hx]))
    exact this rs (fun x hx => hl x (by simp [hx]))

theorem lookupKey_zip (ks : List (List Char)) (hnd : ks.Nodup) :
    ∀ (vs : List JS) (all : List (List Char × JS)), vs.length = ks.length →
    (∀ k ∈ ks, lookupKey k all = lookupKey k (ks.zip vs)) →
    ks.map (fun k => lookupKey k all) = vs.map some := by
  induction ks with
  | nil => intro vs all hl _; cases vs <;> simp at hl ⊢
  | cons k ks ih =>
    intro vs all hl hall
    cases vs with
    | nil => simp at hl
    | cons v vs =>
      simp only [List.nodup_cons] at hnd
      simp only [List.map_cons, List.cons.injEq]
      constructor
      · rw [hall k (by simp)]
        simp [lookupKey]
      · apply ih hnd.2 vs all (by simpa using hl)
        intro k' hk'
        rw [hall k' (by simp [hk'])]
        have : ¬ (k = k') := fun e => hnd.1 (e ▸ hk')
        simp [lookupKey, this]

/-- numbers the profile leaves as they are -/
def AtomOK (canon : List Char → Option (List Char)) : JVal → Prop
  | .int a => canon a = some a
  | .flt a => canon a = some a
  | _ => True

theorem cellOfJS_toStructure (canon : List Char → Option (List Char)) (v : JVal) (h : AtomOK canon v) :
    cellOfJS canon (toStructure v) = canonVal v := by
  cases v with
  | null => rfl
  | str s => rfl
  | int a => simp only [AtomOK] at h; simp [toStructure, cellOfJS, numText, h, canonVal]
  | flt a => simp only [AtomOK] at h; simp [toStructure, cellOfJS, numText, h, canonVal]
  | nonfinite => rfl
  | bool b => cases b <;> rfl
  | tern t =>
    cases t with
    | none => rfl
    | some b => cases b <;> rfl
  | dt s => rfl

theorem toStructure_scalar (v : JVal) : isScalar (toStructure v) = true := by
  cases v with
  | tern t => cases t <;> rfl
  | _ => rfl

/-- `tableOf` on the objects of a table with distinct column names -/
theorem tableOf_rows (canon : List Char → Option (List Char)) (tb : Table) (hnd : tb.header.Nodup)
    (hl : ∀ r ∈ tb.rows, r.length = tb.header.length) (hne : tb.rows ≠ [])
    (ha : ∀ r ∈ tb.rows, ∀ v ∈ r, AtomOK canon v) :
    tableOf canon (tb.rows.map fun r => tb.header.zip (r.map toStructure)) = canonTable tb := by
  unfold tableOf canonTable
  have hh : (tb.rows.map fun r => tb.header.zip (r.map toStructure)).foldl addKeys [] = tb.header := by
    have := foldl_addKeys tb.header hnd (tb.rows.map (·.map toStructure))
      (by intro r hr; obtain ⟨r', hr', rfl⟩ := List.mem_map.mp hr; simp [hl r' hr'])
      (by simpa using hne)
    rw [List.map_map] at this
    exact this
  simp only [hh, List.map_map]
  congr 1
  apply List.map_congr_left
  intro r hr
  simp only [Function.comp]
  have hlk := lookupKey_zip tb.header hnd (r.map toStructure) (tb.header.zip (r.map toStructure))
    (by simp [hl r hr]) (fun _ _ => rfl)
  have : tb.header.map (fun k => cellOpt canon (lookupKey k (tb.header.zip (r.map toStructure))))
      = (tb.header.map (fun k => lookupKey k (tb.header.zip (r.map toStructure)))).map (cellOpt canon) := by
    simp [List.map_map, Function.comp]
  rw [this, hlk]
  simp only [List.map_map]
  apply List.map_congr_left
  intro v hv
  simp only [Function.comp, cellOpt]
  exact cellOfJS_toStructure canon v (ha r hr v hv)

theorem rowObj_flat (h : List (List Char)) (r : List JVal) :
    Flat (h.zip (r.map toStructure)) := by
  intro m hm
  obtain ⟨v, _, hv⟩ := List.mem_map.mp (List.of_mem_zip hm).2
  rw [← hv]
  exact toStructure_scalar v

theorem objsOfLines_rows (objs : List (List (List Char × JS))) (hf : ∀ ms ∈ objs, Flat ms) :
    objsOfLines (objs.map fun ms => toksS (.obj ms)) = .ok objs := by
  induction objs with
  | nil => rfl
  | cons ms os ih =>
    simp only [List.map_cons, objsOfLines]
    rw [parseToks_flat_obj ms (hf ms (by simp))]
    simp only
    rw [ih (fun x hx => hf x (by simp [hx]))]

theorem tableOf_rectangular (canon : List Char → Option (List Char)) (objs : List (List (List Char × JS))) :
    ∀ row ∈ (tableOf canon objs).rows, row.length = (tableOf canon objs).header.length := by
  intro row hrow
  simp only [tableOf, List.mem_map] at hrow
  obtain ⟨ms, _, rfl⟩ := hrow
  simp [tableOf]

end Csvq.Json
