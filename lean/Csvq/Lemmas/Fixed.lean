/-
  Helper lemmas for the fixed-length model Csvq.Model.Fixed (used by Csvq.Props.C02).
-/
import Csvq.Model.Fixed
namespace Csvq.Fixed
open Csvq.Csv (LB Err DCell DTable endingChars nullCell autoNames autofill autofillFrom)

/-! ## every record the reader returns has one field per delimiter position -/

def Inv (n : Nat) (σ : St) : Prop :=
  (∀ rec ∈ σ.recs, rec.length = n) ∧
  (match σ.cols with
   | [] => σ.fields.length = n
   | _ :: rest => σ.fields.length + 1 + rest.length = n)

theorem inv_commit (ps : List Nat) (σ : St) (h : Inv ps.length σ) :
    (∀ rec ∈ (commit ps σ).recs, rec.length = ps.length) := by
  obtain ⟨h1, h2⟩ := h
  intro rec hrec
  unfold commit at hrec
  simp only at hrec
  rcases List.mem_cons.mp hrec with rfl | hm
  · cases hc : σ.cols with
    | nil => rw [hc] at h2; simp [h2]
    | cons e rest => rw [hc] at h2; simp; omega
  · exact h1 rec hm

theorem inv_commit' (ps : List Nat) (σ : St) (h : Inv ps.length σ) : Inv ps.length (commit ps σ) := by
  refine ⟨inv_commit ps σ h, ?_⟩
  unfold commit
  simp only
  cases ps with
  | nil => simp
  | cons e rest => simp; omega

theorem inv_setDlb (n : Nat) (σ : St) (lb : LB) (h : Inv n σ) : Inv n (setDlb σ lb) := by
  unfold setDlb
  cases σ.dlb <;> exact h

theorem inv_pcr (n : Nat) (σ : St) (b : Bool) (h : Inv n σ) : Inv n { σ with pcr := b } := h

theorem inv_onNl (ps : List Nat) (σ : St) (lb : LB) (h : Inv ps.length σ) : Inv ps.length (onNl ps σ lb) :=
  inv_commit' ps _ (inv_setDlb _ σ lb h)

theorem inv_stepMain (wd : Char → Nat) (ps : List Nat) (σ σ' : St) (c : Char)
    (hs : stepMain wd ps σ c = .ok σ') (h : Inv ps.length σ) : Inv ps.length σ' := by
  unfold stepMain at hs
  by_cases h1 : c = '\r'
  · simp only [h1, if_true] at hs
    injection hs with hs; subst hs; exact h
  · simp only [h1, if_false] at hs
    by_cases h2 : c = '\n'
    · simp only [h2, if_true] at hs
      injection hs with hs; subst hs; exact inv_onNl ps σ .lf h
    · simp only [h2, if_false] at hs
      obtain ⟨hr, hc⟩ := h
      cases hcols : σ.cols with
      | nil =>
        rw [hcols] at hs hc
        simp only at hs
        injection hs with hs; subst hs
        exact ⟨hr, by simp only [hcols]; exact hc⟩
      | cons e rest =>
        rw [hcols] at hs hc
        simp only at hs
        by_cases h3 : e < σ.pos + wd c
        · simp [h3] at hs
        · simp only [h3, if_false] at hs
          by_cases h4 : σ.pos + wd c = e
          · simp only [h4, if_true] at hs
            injection hs with hs; subst hs
            refine ⟨hr, ?_⟩
            simp only at hc ⊢
            cases rest with
            | nil => simp at hc ⊢; omega
            | cons e2 r2 => simp at hc ⊢; omega
          · simp only [h4, if_false] at hs
            injection hs with hs; subst hs
            exact ⟨hr, by simp only [hcols]; exact hc⟩

theorem inv_step (wd : Char → Nat) (ps : List Nat) (σ σ' : St) (c : Char)
    (hs : step wd ps σ c = .ok σ') (h : Inv ps.length σ) : Inv ps.length σ' := by
  unfold step at hs
  by_cases hp : σ.pcr = true
  · simp only [hp, if_true] at hs
    by_cases hc : c = '\n'
    · simp only [hc, if_true] at hs
      injection hs with hs; subst hs
      exact inv_onNl ps _ .crlf (inv_pcr _ σ false h)
    · simp only [hc, if_false] at hs
      exact inv_stepMain wd ps _ σ' c hs (inv_onNl ps _ .cr (inv_pcr _ σ false h))
  · simp only [hp] at hs
    exact inv_stepMain wd ps σ σ' c hs h

theorem inv_run (wd : Char → Nat) (ps : List Nat) (inp : List Char) (σ σ' : St)
    (hs : run wd ps σ inp = .ok σ') (h : Inv ps.length σ) : Inv ps.length σ' := by
  induction inp generalizing σ with
  | nil => simp only [run] at hs; injection hs with hs; subst hs; exact h
  | cons c cs ih =>
    simp only [run] at hs
    split at hs
    · rename_i σ'' hst
      exact ih σ'' hs (inv_step wd ps σ σ'' c hst h)
    · cases hs

theorem inv_init (ps : List Nat) : Inv ps.length { cols := ps } := by
  refine ⟨by simp, ?_⟩
  cases ps with
  | nil => simp
  | cons e rest => simp; omega

theorem recs_readAll (wd : Char → Nat) (ps : List Nat) (inp : List Char) (σ : St)
    (h : readAll wd ps inp = .ok σ) : ∀ rec ∈ σ.recs, rec.length = ps.length := by
  unfold readAll at h
  by_cases hv : validFrom 0 ps = false
  · rw [if_pos hv] at h
    split at h
    · split at h
      · injection h with h; subst h; simp
      · cases h
    · cases h
  · rw [if_neg hv] at h
    cases hr : run wd ps { cols := ps } inp with
    | error e => rw [hr] at h; cases h
    | ok σ' =>
      rw [hr] at h
      simp only at h
      have hi := inv_run wd ps inp _ σ' hr (inv_init ps)
      unfold finish at h
      by_cases hp : σ'.pcr = true
      · simp [hp] at h
      · simp only [hp] at h
        by_cases h0 : σ'.pos = 0
        · simp only [h0, if_true] at h
          injection h with h; subst h; exact hi.1
        · simp only [h0, if_false] at h
          injection h with h; subst h
          exact (inv_commit' ps σ' hi).1

theorem autofillFrom_length (l : List (List Char)) (i : Nat) : (autofillFrom i l).length = l.length := by
  induction l generalizing i with
  | nil => rfl
  | cons x xs ih => simp [autofillFrom, ih]

theorem assemble_rectangular (o : Opts) (n : Nat) (recs : List (List (List Char)))
    (h : ∀ rec ∈ recs, rec.length = n) :
    ∀ row ∈ (assemble o n recs).rows, row.length = (assemble o n recs).header.length := by
  intro row hrow
  unfold assemble at hrow ⊢
  simp only [autofill, autofillFrom_length]
  cases hw : o.withoutHeader with
  | true =>
    simp only [hw, if_true] at hrow ⊢
    obtain ⟨rec, hrec, rfl⟩ := List.mem_map.mp hrow
    simp [autoNames, h rec hrec]
  | false =>
    simp only [hw, Bool.false_eq_true, if_false] at hrow ⊢
    cases recs with
    | nil => simp at hrow
    | cons hd b =>
      simp only at hrow ⊢
      obtain ⟨rec, hrec, rfl⟩ := List.mem_map.mp hrow
      simp [h rec (by simp [hrec]), h hd (by simp)]

/-! ## trimming padded text -/

theorem isSpace_blank : isSpace ' ' = true := by decide

theorem trimLeft_pad (n : Nat) (s : List Char) : trimLeft (pad n ++ s) = trimLeft s := by
  induction n with
  | zero => simp [pad]
  | succ k ih =>
    have : pad (k + 1) ++ s = ' ' :: (pad k ++ s) := by simp [pad, List.replicate_succ]
    rw [this]
    simp only [trimLeft, isSpace_blank, if_true]
    exact ih

theorem trimLeft_append (s t : List Char) :
    trimLeft (s ++ t) = match trimLeft s with
      | [] => trimLeft t
      | x :: xs => (x :: xs) ++ t := by
  induction s with
  | nil => simp only [List.nil_append, trimLeft]
  | cons c cs ih =>
    simp only [List.cons_append, trimLeft]
    cases hc : isSpace c
    · simp
    · simp only [if_true]
      exact ih

theorem pad_reverse (n : Nat) : (pad n).reverse = pad n := by simp [pad]

theorem trimLeft_pad_only (n : Nat) : trimLeft (pad n) = [] := by
  have := trimLeft_pad n []
  simpa [trimLeft] using this

theorem trim_padded (a b : Nat) (s : List Char) : trim (pad a ++ s ++ pad b) = trim s := by
  unfold trim
  rw [List.append_assoc, trimLeft_pad, trimLeft_append]
  cases h : trimLeft s with
  | nil => simp [trimLeft_pad_only, trimLeft]
  | cons x xs =>
    simp only
    rw [List.reverse_append, pad_reverse, trimLeft_pad]

theorem byteSize_append (wd : Char → Nat) (a b : List Char) :
    byteSize wd (a ++ b) = byteSize wd a + byteSize wd b := by
  induction a with
  | nil => simp [byteSize]
  | cons c cs ih => simp [byteSize, ih]; omega

theorem byteSize_pad (wd : Char → Nat) (hw : wd ' ' = 1) (n : Nat) : byteSize wd (pad n) = n := by
  induction n with
  | zero => rfl
  | succ k ih =>
    have : pad (k + 1) = ' ' :: pad k := by simp [pad, List.replicate_succ]
    rw [this]
    simp [byteSize, hw, ih]; omega

theorem mem_pad (n : Nat) (c : Char) (h : c ∈ pad n) : c = ' ' := by
  simp [pad] at h; exact h.2

/-- what `addField` produces: exactly `size` bytes, the contents between blanks -/
theorem addField_ok (wd : Char → Nat) (hw : wd ' ' = 1) (f : Field) (size : Nat) (s : List Char)
    (h : addField wd f size = .ok s) :
    byteSize wd s = size ∧ trim s = trim f.contents ∧ (∀ c ∈ s, c ∈ f.contents ∨ c = ' ') ∧
    byteSize wd f.contents ≤ size := by
  unfold addField at h
  by_cases hl : size < byteSize wd f.contents
  · simp [hl] at h
  · simp only [hl, if_false] at h
    have hle : byteSize wd f.contents ≤ size := by omega
    cases ha : f.align with
    | left =>
      rw [ha] at h; simp only at h
      injection h with h; subst h
      refine ⟨by rw [byteSize_append, byteSize_pad wd hw]; omega, ?_, ?_, hle⟩
      · have := trim_padded 0 (size - byteSize wd f.contents) f.contents
        simpa [pad] using this
      · intro c hc
        rcases List.mem_append.mp hc with h1 | h1
        · exact Or.inl h1
        · exact Or.inr (mem_pad _ c h1)
    | right =>
      rw [ha] at h; simp only at h
      injection h with h; subst h
      refine ⟨by rw [byteSize_append, byteSize_pad wd hw]; omega, ?_, ?_, hle⟩
      · have := trim_padded (size - byteSize wd f.contents) 0 f.contents
        simpa [pad] using this
      · intro c hc
        rcases List.mem_append.mp hc with h1 | h1
        · exact Or.inr (mem_pad _ c h1)
        · exact Or.inl h1
    | center =>
      rw [ha] at h; simp only at h
      injection h with h; subst h
      refine ⟨?_, trim_padded _ _ _, ?_, hle⟩
      · rw [byteSize_append, byteSize_append, byteSize_pad wd hw, byteSize_pad wd hw]
        have : (size - byteSize wd f.contents) / 2 ≤ size - byteSize wd f.contents := Nat.div_le_self _ _
        omega
      · intro c hc
        rcases List.mem_append.mp hc with h1 | h1
        · rcases List.mem_append.mp h1 with h2 | h2
          · exact Or.inr (mem_pad _ c h2)
          · exact Or.inl h2
        · exact Or.inr (mem_pad _ c h1)

/-! ## reading back what the writer produced (explicit positions) -/

theorem run_nil (wd : Char → Nat) (ps : List Nat) (σ : St) : run wd ps σ [] = .ok σ := rfl

theorem run_cons (wd : Char → Nat) (ps : List Nat) (σ : St) (c : Char) (cs : List Char) :
    run wd ps σ (c :: cs) = match step wd ps σ c with
      | .ok σ' => run wd ps σ' cs
      | .error e => .error e := rfl

theorem run_append (wd : Char → Nat) (ps : List Nat) (a b : List Char) (σ : St) :
    run wd ps σ (a ++ b) = match run wd ps σ a with
      | .ok σ' => run wd ps σ' b
      | .error e => .error e := by
  induction a generalizing σ with
  | nil => rfl
  | cons c cs ih =>
    simp only [List.cons_append, run_cons]
    cases step wd ps σ c with
    | error e => rfl
    | ok σ' => exact ih σ'

/-- `base` carries the finished records and the detected line break -/
def S (base : St) (cols : List Nat) (pos : Nat) (buf : List Char) (fields : List (List Char)) : St :=
  { base with cols := cols, pos := pos, buf := buf, fields := fields, pcr := false }

def NoBreak (s : List Char) : Prop := ∀ c ∈ s, c ≠ '\r' ∧ c ≠ '\n'

theorem byteSize_pos (wd : Char → Nat) (hwd : ∀ c, 1 ≤ wd c) (s : List Char) (h : s ≠ []) : 1 ≤ byteSize wd s := by
  cases s with
  | nil => exact absurd rfl h
  | cons c cs => simp only [byteSize]; have := hwd c; omega

/-- one column: the characters up to the delimiter position are the field -/
theorem run_column (wd : Char → Nat) (hwd : ∀ c, 1 ≤ wd c) (ps : List Nat) (b : St) (e : Nat) (rest : List Nat)
    (fields : List (List Char)) (s : List Char) :
    ∀ (buf : List Char) (p : Nat), p + byteSize wd s = e → s ≠ [] → NoBreak s →
    run wd ps (S b (e :: rest) p buf fields) s = .ok (S b rest e [] (trim (buf.reverse ++ s) :: fields)) := by
  induction s with
  | nil => intro _ _ _ h; exact absurd rfl h
  | cons c cs ih =>
    intro buf p hsize _ hnb
    obtain ⟨h1, h2⟩ := hnb c (by simp)
    simp only [byteSize] at hsize
    rw [run_cons]
    by_cases hcs : cs = []
    · subst hcs
      simp only [byteSize] at hsize
      have hpe : p + wd c = e := by omega
      simp [step, stepMain, S, h1, h2, hpe, run_nil]
    · have hpos := byteSize_pos wd hwd cs hcs
      have hlt : ¬ (e < p + wd c) := by omega
      have hne : ¬ (p + wd c = e) := by omega
      have hstep : step wd ps (S b (e :: rest) p buf fields) c = .ok (S b (e :: rest) (p + wd c) (c :: buf) fields) := by
        simp [step, stepMain, S, h1, h2, hlt, hne]
      rw [hstep]
      simp only
      rw [ih (c :: buf) (p + wd c) (by omega) hcs (fun x hx => hnb x (by simp [hx]))]
      simp

def endPos : Nat → List Nat → Nat
  | s, [] => s
  | _, e :: ps => endPos e ps

/-- a whole record: all columns, ending in "skip the rest of the line" -/
theorem run_fields (wd : Char → Nat) (hwd : ∀ c, 1 ≤ wd c) (hw : wd ' ' = 1) (P : List Nat) (b : St) :
    ∀ (ps : List Nat) (fs : List Field) (first : Bool) (start : Nat) (acc : List (List Char)) (txt : List Char),
    validFrom start ps = true → fs.length = ps.length → (∀ f ∈ fs, NoBreak f.contents) →
    writeFields wd false first start ps fs = .ok txt →
    run wd P (S b ps start [] acc) txt
      = .ok (S b [] (endPos start ps) [] ((fs.map fun f => trim f.contents).reverse ++ acc)) := by
  intro ps
  induction ps with
  | nil =>
    intro fs first start acc txt _ hlen _ hw'
    cases fs with
    | nil =>
      simp only [writeFields] at hw'
      injection hw' with hw'; subst hw'
      simp [run_nil, endPos]
    | cons f fs => simp at hlen
  | cons e ps ih =>
    intro fs first start acc txt hv hlen hnb hw'
    cases fs with
    | nil => simp at hlen
    | cons f fs =>
      simp only [validFrom, Bool.and_eq_true, decide_eq_true_eq] at hv
      unfold writeFields at hw'
      have hnle : ¬ (e ≤ start) := by omega
      simp only [hnle, if_false, Bool.false_and, List.tail_cons] at hw'
      cases ha : addField wd f (e - start) with
      | error err => rw [ha] at hw'; simp at hw'
      | ok s =>
        rw [ha] at hw'
        simp only at hw'
        cases hr : writeFields wd false false e ps fs with
        | error err => rw [hr] at hw'; simp at hw'
        | ok r =>
          rw [hr] at hw'
          simp only [Bool.false_eq_true, if_false, List.nil_append] at hw'
          injection hw' with hw'; subst hw'
          obtain ⟨hsz, htrim, hmem, _⟩ := addField_ok wd hw f (e - start) s ha
          have hsne : s ≠ [] := by
            intro h0; subst h0; simp [byteSize] at hsz; omega
          have hsnb : NoBreak s := by
            intro c hc
            rcases hmem c hc with h1 | h1
            · exact hnb f (by simp) c h1
            · subst h1; exact ⟨by decide, by decide⟩
          rw [run_append, run_column wd hwd P b e ps acc s [] start (by omega) hsne hsnb]
          simp only [List.reverse_nil, List.nil_append]
          rw [ih fs false e (trim s :: acc) r hv.2 (by simpa using hlen) (fun g hg => hnb g (by simp [hg])) hr]
          simp [endPos, htrim]

theorem endPos_pos (ps : List Nat) (start : Nat) (h : validFrom start ps = true) (hne : ps ≠ []) :
    start < endPos start ps := by
  induction ps generalizing start with
  | nil => exact absurd rfl hne
  | cons e ps ih =>
    simp only [validFrom, Bool.and_eq_true, decide_eq_true_eq] at h
    simp only [endPos]
    cases ps with
    | nil => simpa [endPos] using h.1
    | cons e2 ps2 =>
      have := ih e h.2 (by simp)
      omega

/-! ## line breaks, all records -/

def nextBase (b : St) (row : List (List Char)) : St := { b with recs := row :: b.recs }

def rowOf (fs : List Field) : List (List Char) := fs.map fun f => trim f.contents

theorem setDlb_S (b : St) (cols pos buf fields) (lb : LB) :
    setDlb (S b cols pos buf fields) lb = S (setDlb b lb) cols pos buf fields := by
  obtain ⟨c, p, pcr, bf, fl, recs, dlb⟩ := b
  cases dlb <;> rfl

theorem setDlb_recs (b : St) (lb : LB) : (setDlb b lb).recs = b.recs := by
  unfold setDlb; cases b.dlb <;> rfl

theorem onNl_end (P : List Nat) (b : St) (E : Nat) (row : List (List Char)) (lb : LB) :
    onNl P (S b [] E [] row.reverse) lb = S (nextBase (setDlb b lb) row) P 0 [] [] := by
  unfold onNl
  rw [setDlb_S]
  simp [commit, S, nextBase]

def RestOK (lb : LB) (rest : List Char) : Prop :=
  lb = .cr → ∃ c cs, rest = c :: cs ∧ c ≠ '\n'

theorem run_lb_after_record (wd : Char → Nat) (P : List Nat) (b : St) (E : Nat) (row : List (List Char))
    (lb : LB) (rest : List Char) (hrest : RestOK lb rest) :
    run wd P (S b [] E [] row.reverse) (lb.chars ++ rest)
      = run wd P (S (nextBase (setDlb b lb) row) P 0 [] []) rest := by
  cases lb with
  | lf =>
    simp only [LB.chars, List.cons_append, List.nil_append]
    rw [run_cons]
    have : step wd P (S b [] E [] row.reverse) '\n' = .ok (onNl P (S b [] E [] row.reverse) .lf) := by
      simp [step, stepMain, S]
    rw [this, onNl_end]
  | crlf =>
    simp only [LB.chars, List.cons_append, List.nil_append]
    rw [run_cons]
    have h1 : step wd P (S b [] E [] row.reverse) '\r' = .ok { S b [] E [] row.reverse with pcr := true } := by
      simp [step, stepMain, S]
    rw [h1]
    simp only
    rw [run_cons]
    have h2 : step wd P { S b [] E [] row.reverse with pcr := true } '\n'
        = .ok (onNl P (S b [] E [] row.reverse) .crlf) := by
      simp [step, S]
    rw [h2, onNl_end]
  | cr =>
    obtain ⟨c, cs, hr, hc⟩ := hrest rfl
    subst hr
    simp only [LB.chars, List.cons_append, List.nil_append]
    rw [run_cons]
    have h1 : step wd P (S b [] E [] row.reverse) '\r' = .ok { S b [] E [] row.reverse with pcr := true } := by
      simp [step, stepMain, S]
    rw [h1]
    simp only
    rw [run_cons]
    have h2 : step wd P { S b [] E [] row.reverse with pcr := true } c
        = stepMain wd P (onNl P (S b [] E [] row.reverse) .cr) c := by
      simp [step, S, hc]
    rw [h2, onNl_end, run_cons]
    have h3 : step wd P (S (nextBase (setDlb b .cr) row) P 0 [] []) c
        = stepMain wd P (S (nextBase (setDlb b .cr) row) P 0 [] []) c := by
      simp [step, S]
    rw [h3]

theorem finish_end (P : List Nat) (b : St) (E : Nat) (hE : E ≠ 0) (row : List (List Char)) :
    finish P (S b [] E [] row.reverse) = .ok (S (nextBase b row) P 0 [] []) := by
  simp [finish, S, hE, commit, nextBase]

theorem finish_start (P : List Nat) (b : St) : finish P (S b P 0 [] []) = .ok (S b P 0 [] []) := by
  simp [finish, S]

/-- the first character of a written record is not a line feed -/
theorem writeFields_head (wd : Char → Nat) (hw : wd ' ' = 1) (ps : List Nat) (fs : List Field) (first : Bool)
    (start : Nat) (txt : List Char) (hne : ps ≠ []) (hlen : fs.length = ps.length)
    (hnb : ∀ f ∈ fs, NoBreak f.contents) (h : writeFields wd false first start ps fs = .ok txt) (tail : List Char) :
    ∃ c cs, txt ++ tail = c :: cs ∧ c ≠ '\n' := by
  cases ps with
  | nil => exact absurd rfl hne
  | cons e ps =>
    cases fs with
    | nil => simp at hlen
    | cons f fs =>
      unfold writeFields at h
      by_cases hle : e ≤ start
      · simp [hle] at h
      · simp only [hle, if_false, Bool.false_and, List.tail_cons] at h
        cases ha : addField wd f (e - start) with
        | error err => rw [ha] at h; simp at h
        | ok s =>
          rw [ha] at h
          simp only at h
          cases hr : writeFields wd false false e ps fs with
          | error err => rw [hr] at h; simp at h
          | ok r =>
            rw [hr] at h
            simp only [Bool.false_eq_true, if_false, List.nil_append] at h
            injection h with h; subst h
            obtain ⟨hsz, _, hmem, _⟩ := addField_ok wd hw f (e - start) s ha
            cases s with
            | nil => simp [byteSize] at hsz; omega
            | cons c cs =>
              refine ⟨c, cs ++ r ++ tail, by simp, ?_⟩
              rcases hmem c (by simp) with h1 | h1
              · exact (hnb f (by simp) c h1).2
              · subst h1; decide

theorem run_rows (wd : Char → Nat) (hwd : ∀ c, 1 ≤ wd c) (hw : wd ' ' = 1) (P : List Nat) (hv : validFrom 0 P = true)
    (hP : P ≠ []) (lb : LB) (e : Option LB) (he : e ≠ some .cr) (more : List (List Field)) :
    ∀ (r : List Field) (b : St) (s rest : List Char),
    (∀ x ∈ r :: more, x.length = P.length ∧ ∀ f ∈ x, NoBreak f.contents) →
    writeRecord wd false P r = .ok s → writeMore wd false lb P more = .ok rest →
    ∃ σ, (match run wd P (S b P 0 [] []) (s ++ (rest ++ endingChars e)) with
          | .ok σ' => finish P σ'
          | .error err => .error err) = .ok σ
       ∧ σ.recs = ((r :: more).map rowOf).reverse ++ b.recs := by
  have hE : endPos 0 P ≠ 0 := by have := endPos_pos P 0 hv hP; omega
  induction more with
  | nil =>
    intro r b s rest hok hs hrest
    simp only [writeMore] at hrest
    injection hrest with hrest; subst hrest
    obtain ⟨hlen, hnb⟩ := hok r (by simp)
    have hrun := run_fields wd hwd hw P b P r true 0 [] s hv hlen hnb hs
    simp only [List.append_nil] at hrun
    cases e with
    | none =>
      simp only [endingChars, List.append_nil]
      rw [hrun]
      simp only
      have := finish_end P b (endPos 0 P) hE (rowOf r)
      simp only [rowOf] at this ⊢
      rw [this]
      exact ⟨_, rfl, by simp [S, nextBase, rowOf]⟩
    | some lbE =>
      have hr : RestOK lbE [] := fun h => absurd (by rw [h]) he
      simp only [endingChars, List.nil_append]
      rw [run_append, hrun]
      simp only
      have := run_lb_after_record wd P b (endPos 0 P) (rowOf r) lbE [] hr
      rw [List.append_nil] at this
      simp only [rowOf] at this
      rw [this, run_nil]
      simp only
      rw [finish_start]
      exact ⟨_, rfl, by simp [S, nextBase, setDlb_recs, rowOf]⟩
  | cons r2 more' ih =>
    intro r b s rest hok hs hrest
    obtain ⟨hlen, hnb⟩ := hok r (by simp)
    obtain ⟨hlen2, hnb2⟩ := hok r2 (by simp)
    simp only [writeMore] at hrest
    cases hs2 : writeRecord wd false P r2 with
    | error err => rw [hs2] at hrest; simp at hrest
    | ok s2 =>
      rw [hs2] at hrest
      simp only at hrest
      cases hm : writeMore wd false lb P more' with
      | error err => rw [hm] at hrest; simp at hrest
      | ok rest' =>
        rw [hm] at hrest
        simp only at hrest
        injection hrest with hrest; subst hrest
        have hrun := run_fields wd hwd hw P b P r true 0 [] s hv hlen hnb hs
        simp only [List.append_nil] at hrun
        have hr : RestOK lb (s2 ++ (rest' ++ endingChars e)) := by
          intro _
          exact writeFields_head wd hw P r2 true 0 s2 hP hlen2 hnb2 hs2 _
        have hassoc : s ++ (lb.chars ++ (s2 ++ rest') ++ endingChars e)
            = s ++ (lb.chars ++ (s2 ++ (rest' ++ endingChars e))) := by simp [List.append_assoc]
        rw [hassoc, run_append, hrun]
        simp only
        have := run_lb_after_record wd P b (endPos 0 P) (rowOf r) lb _ hr
        simp only [rowOf] at this
        rw [this]
        obtain ⟨σ, h1, h2⟩ := ih r2 (nextBase (setDlb b lb) (rowOf r)) s2 rest'
          (fun x hx => hok x (by simp [hx])) hs2 hm
        simp only [rowOf] at h1
        refine ⟨σ, h1, ?_⟩
        rw [h2]
        simp [nextBase, setDlb_recs]

/-! ## when the writer refuses -/

/-- every field fits between its delimiter positions -/
def Fits (wd : Char → Nat) : Nat → List Nat → List Field → Prop
  | _, [], _ => True
  | _, _ :: _, [] => True
  | start, e :: ps, f :: fs => byteSize wd f.contents ≤ e - start ∧ Fits wd e ps fs

theorem addField_isOk (wd : Char → Nat) (f : Field) (size : Nat) :
    (∃ s, addField wd f size = .ok s) ↔ byteSize wd f.contents ≤ size := by
  unfold addField
  by_cases h : size < byteSize wd f.contents
  · simp [h]
  · simp only [h, if_false]
    constructor
    · intro _; omega
    · intro _; cases f.align <;> exact ⟨_, rfl⟩

theorem writeFields_isOk (wd : Char → Nat) (ins : Bool) (ps : List Nat) :
    ∀ (fs : List Field) (first : Bool) (start : Nat), fs.length = ps.length →
    ((∃ txt, writeFields wd ins first start ps fs = .ok txt) ↔ (validFrom start ps = true ∧ Fits wd start ps fs)) := by
  induction ps with
  | nil => intro fs first start _; simp [writeFields, validFrom, Fits]
  | cons e ps ih =>
    intro fs first start hlen
    cases fs with
    | nil => simp at hlen
    | cons f fs =>
      have hlen' : fs.length = ps.length := by simpa using hlen
      unfold writeFields
      simp only [validFrom, Fits, Bool.and_eq_true, decide_eq_true_eq, List.tail_cons]
      by_cases hle : e ≤ start
      · simp only [hle, if_true]
        constructor
        · rintro ⟨_, h⟩; cases h
        · rintro ⟨⟨h, _⟩, _⟩; omega
      · simp only [hle, if_false]
        have hlt : start < e := by omega
        cases ha : addField wd f (e - start) with
        | error err =>
          simp only
          constructor
          · rintro ⟨_, h⟩; cases h
          · rintro ⟨_, hfit, _⟩
            have := (addField_isOk wd f (e - start)).mpr hfit
            rw [ha] at this
            obtain ⟨_, h⟩ := this; cases h
        | ok s =>
          simp only
          have hfit : byteSize wd f.contents ≤ e - start := (addField_isOk wd f (e - start)).mp ⟨s, ha⟩
          cases hr : writeFields wd ins false e ps fs with
          | error err =>
            simp only
            constructor
            · rintro ⟨_, h⟩; cases h
            · rintro ⟨⟨_, hv⟩, _, hf⟩
              have := (ih fs false e hlen').mpr ⟨hv, hf⟩
              rw [hr] at this
              obtain ⟨_, h⟩ := this; cases h
          | ok r =>
            simp only
            have := (ih fs false e hlen').mp ⟨r, hr⟩
            constructor
            · intro _; exact ⟨⟨hlt, this.1⟩, hfit, this.2⟩
            · intro _; exact ⟨_, rfl⟩

theorem writeMore_isOk (wd : Char → Nat) (ins : Bool) (lb : LB) (ps : List Nat) (recs : List (List Field)) :
    (∃ txt, writeMore wd ins lb ps recs = .ok txt) ↔ ∀ r ∈ recs, ∃ s, writeRecord wd ins ps r = .ok s := by
  induction recs with
  | nil => simp [writeMore]
  | cons r rs ih =>
    simp only [writeMore, List.mem_cons, forall_eq_or_imp]
    cases hr : writeRecord wd ins ps r with
    | error e => simp
    | ok s =>
      simp only
      cases hm : writeMore wd ins lb ps rs with
      | error e =>
        rw [hm] at ih
        simp only
        constructor
        · rintro ⟨_, h⟩; cases h
        · rintro ⟨_, h⟩
          have := ih.mpr h
          obtain ⟨_, h'⟩ := this; cases h'
      | ok rest =>
        rw [hm] at ih
        simp only
        constructor
        · intro _; exact ⟨⟨_, rfl⟩, ih.mp ⟨_, rfl⟩⟩
        · intro _; exact ⟨_, rfl⟩

theorem writeAll_isOk (wd : Char → Nat) (ins : Bool) (lb : LB) (ps : List Nat) (recs : List (List Field)) :
    (∃ txt, writeAll wd ins lb ps recs = .ok txt) ↔ ∀ r ∈ recs, ∃ s, writeRecord wd ins ps r = .ok s := by
  cases recs with
  | nil => simp [writeAll]
  | cons r rs =>
    simp only [writeAll, List.mem_cons, forall_eq_or_imp]
    cases hr : writeRecord wd ins ps r with
    | error e => simp
    | ok s =>
      simp only
      have ih := writeMore_isOk wd ins lb ps rs
      cases hm : writeMore wd ins lb ps rs with
      | error e =>
        rw [hm] at ih
        simp only
        constructor
        · rintro ⟨_, h⟩; cases h
        · rintro ⟨_, h⟩
          have := ih.mpr h
          obtain ⟨_, h'⟩ := this; cases h'
      | ok rest =>
        rw [hm] at ih
        simp only
        constructor
        · intro _; exact ⟨⟨_, rfl⟩, ih.mp ⟨_, rfl⟩⟩
        · intro _; exact ⟨_, rfl⟩

end Csvq.Fixed
