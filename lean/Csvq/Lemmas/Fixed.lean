/-
  Helper lemmas for the fixed-length model Csvq.Model.Fixed (used by Csvq.Props.C02).
-/
import Csvq.Model.Fixed
namespace Csvq.Fixed
open Csvq.Csv (LB Err DCell DTable endingChars nullCell autoNames autofill autofillFrom)

/-! ## every record the reader returns has one field per delimiter position -/

def Inv (n : Nat) (σ : St) : Prop :=
  (∀ rec ∈ σ.recs, rec.length = n) ∧
  (match σ.cols with
   | [] => σ.fields.length = n
   | _ :: rest => σ.fields.length + 1 + rest.length = n)

theorem inv_commit (ps : List Nat) (σ : St) (h : Inv ps.length σ) (hps : ps ≠ [] ∨ True) :
    (∀ rec ∈ (commit ps σ).recs, rec.length = ps.length) := by
  obtain ⟨h1, h2⟩ := h
  intro rec hrec
  unfold commit at hrec
  simp only at hrec
  rcases List.mem_cons.mp hrec with rfl | hm
  · cases hc : σ.cols with
    | nil => rw [hc] at h2; simp [h2]
    | cons e rest => rw [hc] at h2; simp; omega
  · exact h1 rec hm

theorem inv_commit' (ps : List Nat) (σ : St) (h : Inv ps.length σ) : Inv ps.length (commit ps σ) := by
  refine ⟨inv_commit ps σ h (Or.inr trivial), ?_⟩
  unfold commit
  simp only
  cases ps with
  | nil => simp
  | cons e rest => simp

theorem inv_setDlb (n : Nat) (σ : St) (lb : LB) (h : Inv n σ) : Inv n (setDlb σ lb) := by
  unfold setDlb
  cases σ.dlb <;> exact h

theorem inv_pcr (n : Nat) (σ : St) (b : Bool) (h : Inv n σ) : Inv n { σ with pcr := b } := h

theorem inv_onNl (ps : List Nat) (σ : St) (lb : LB) (h : Inv ps.length σ) : Inv ps.length (onNl ps σ lb) :=
  inv_commit' ps _ (inv_setDlb _ σ lb h)

theorem inv_stepMain (wd : Char → Nat) (ps : List Nat) (σ σ' : St) (c : Char)
    (hs : stepMain wd ps σ c = .ok σ') (h : Inv ps.length σ) : Inv ps.length σ' := by
  unfold stepMain at hs
  by_cases h1 : c = '\r'
  · simp only [h1, if_true] at hs
    injection hs with hs; subst hs; exact h
  · simp only [h1, if_false] at hs
    by_cases h2 : c = '\n'
    · simp only [h2, if_true] at hs
      injection hs with hs; subst hs; exact inv_onNl ps σ .lf h
    · simp only [h2, if_false] at hs
      obtain ⟨hr, hc⟩ := h
      cases hcols : σ.cols with
      | nil =>
        rw [hcols] at hs hc
        simp only at hs
        injection hs with hs; subst hs
        exact ⟨hr, by simp only [hcols]; exact hc⟩
      | cons e rest =>
        rw [hcols] at hs hc
        simp only at hs
        by_cases h3 : e < σ.pos + wd c
        · simp [h3] at hs
        · simp only [h3, if_false] at hs
          by_cases h4 : σ.pos + wd c = e
          · simp only [h4, if_true] at hs
            injection hs with hs; subst hs
            refine ⟨hr, ?_⟩
            simp only at hc ⊢
            cases rest with
            | nil => simp at hc ⊢; omega
            | cons e2 r2 => simp at hc ⊢; omega
          · simp only [h4, if_false] at hs
            injection hs with hs; subst hs
            exact ⟨hr, by simp only [hcols]; exact hc⟩

theorem inv_step (wd : Char → Nat) (ps : List Nat) (σ σ' : St) (c : Char)
    (hs : step wd ps σ c = .ok σ') (h : Inv ps.length σ) : Inv ps.length σ' := by
  unfold step at hs
  by_cases hp : σ.pcr = true
  · simp only [hp, if_true] at hs
    by_cases hc : c = '\n'
    · simp only [hc, if_true] at hs
      injection hs with hs; subst hs
      exact inv_onNl ps _ .crlf (inv_pcr _ σ false h)
    · simp only [hc, if_false] at hs
      exact inv_stepMain wd ps _ σ' c hs (inv_onNl ps _ .cr (inv_pcr _ σ false h))
  · simp only [hp] at hs
    exact inv_stepMain wd ps σ σ' c hs h

theorem inv_run (wd : Char → Nat) (ps : List Nat) (inp : List Char) (σ σ' : St)
    (hs : run wd ps σ inp = .ok σ') (h : Inv ps.length σ) : Inv ps.length σ' := by
  induction inp generalizing σ with
  | nil => simp only [run] at hs; injection hs with hs; subst hs; exact h
  | cons c cs ih =>
    simp only [run] at hs
    split at hs
    · rename_i σ'' hst
      exact ih σ'' hs (inv_step wd ps σ σ'' c hst h)
    · cases hs

theorem inv_init (ps : List Nat) : Inv ps.length { cols := ps } := by
  refine ⟨by simp, ?_⟩
  cases ps <;> simp

theorem recs_readAll (wd : Char → Nat) (ps : List Nat) (inp : List Char) (σ : St)
    (h : readAll wd ps inp = .ok σ) : ∀ rec ∈ σ.recs, rec.length = ps.length := by
  unfold readAll at h
  by_cases hv : validFrom 0 ps = false
  · simp only [hv, if_true] at h
    split at h
    · split at h
      · injection h with h; subst h; simp
      · cases h
    · cases h
  · simp only [hv] at h
    split at h
    · rename_i σ' hr
      have hi := inv_run wd ps inp _ σ' hr (inv_init ps)
      unfold finish at h
      by_cases hp : σ'.pcr = true
      · simp [hp] at h
      · simp only [hp] at h
        by_cases h0 : σ'.pos = 0
        · simp only [h0, if_true] at h
          injection h with h; subst h; exact hi.1
        · simp only [h0, if_false] at h
          injection h with h; subst h
          exact (inv_commit' ps σ' hi).1
    · cases h

theorem autofillFrom_length (l : List (List Char)) (i : Nat) : (autofillFrom i l).length = l.length := by
  induction l generalizing i with
  | nil => rfl
  | cons x xs ih => simp [autofillFrom, ih]

theorem assemble_rectangular (o : Opts) (n : Nat) (recs : List (List (List Char)))
    (h : ∀ rec ∈ recs, rec.length = n) :
    ∀ row ∈ (assemble o n recs).rows, row.length = (assemble o n recs).header.length := by
  intro row hrow
  unfold assemble at hrow ⊢
  simp only [autofill, autofillFrom_length]
  cases hw : o.withoutHeader with
  | true =>
    simp only [hw, if_true] at hrow ⊢
    obtain ⟨rec, hrec, rfl⟩ := List.mem_map.mp hrow
    simp [autoNames, h rec hrec]
  | false =>
    simp only [hw, Bool.false_eq_true, if_false] at hrow ⊢
    cases recs with
    | nil => simp at hrow
    | cons hd b =>
      simp only at hrow ⊢
      obtain ⟨rec, hrec, rfl⟩ := List.mem_map.mp hrow
      simp [h rec (by simp [hrec]), h hd (by simp)]

end Csvq.Fixed
