/-
  Lemmas for Props/C17Flags.lean: `keepFirst` (the loop of utils.go Distinguish) against the definitional
  "first occurrence of every key class" (`firstsFrom`), and two keys one of which refines the other.
-/
import Csvq.Model.AnalyticFlags
import Csvq.Lemmas.Group
import Csvq.Lemmas.AggEval
namespace Csvq.Analytic
open Csvq

section firsts
variable {α κ : Type} [DecidableEq κ]

theorem any_key_iff (key : α → κ) (pre : List α) (k : κ) :
    pre.any (fun y => key y = k) = true ↔ ∃ y ∈ pre, key y = k := by
  simp [List.any_eq_true]

/-- the loop of Distinguish started with the keys `seen` of the cells `pre` already passed -/
theorem keepFirstAux_firstsFrom (key : α → κ) : ∀ (l pre : List α) (seen : List κ) (kept : List (κ × α)),
    (∀ k, k ∈ seen ↔ ∃ y ∈ pre, key y = k) →
    (keepFirstAux (seen, kept) (l.map fun p => (key p, p))).2.map Prod.snd
      = kept.map Prod.snd ++ firstsFrom key pre l
  | [], pre, seen, kept, _ => by simp [keepFirstAux, firstsFrom]
  | x :: xs, pre, seen, kept, h => by
    by_cases hm : key x ∈ seen
    · have hany : pre.any (fun y => key y = key x) = true := (any_key_iff key pre (key x)).2 ((h _).1 hm)
      have h' : ∀ k, k ∈ seen ↔ ∃ y ∈ pre ++ [x], key y = k := by
        intro k
        constructor
        · intro hk
          obtain ⟨y, hy, e⟩ := (h k).1 hk
          exact ⟨y, List.mem_append_left _ hy, e⟩
        · rintro ⟨y, hy, e⟩
          rcases List.mem_append.1 hy with hy | hy
          · exact (h k).2 ⟨y, hy, e⟩
          · have : y = x := by simpa using hy
            subst this; rw [← e]; exact hm
      have ih := keepFirstAux_firstsFrom key xs (pre ++ [x]) seen kept h'
      simp only [List.map_cons, keepFirstAux, hm, if_true, firstsFrom, hany]
      exact ih
    · have hany : pre.any (fun y => key y = key x) = false := by
        cases hb : pre.any (fun y => key y = key x) with
        | false => rfl
        | true => exact absurd ((h _).2 ((any_key_iff key pre (key x)).1 hb)) hm
      have h' : ∀ k, k ∈ seen ++ [key x] ↔ ∃ y ∈ pre ++ [x], key y = k := by
        intro k
        constructor
        · intro hk
          rcases List.mem_append.1 hk with hk | hk
          · obtain ⟨y, hy, e⟩ := (h k).1 hk
            exact ⟨y, List.mem_append_left _ hy, e⟩
          · have : k = key x := by simpa using hk
            exact ⟨x, by simp, this.symm⟩
        · rintro ⟨y, hy, e⟩
          rcases List.mem_append.1 hy with hy | hy
          · exact List.mem_append_left _ ((h k).2 ⟨y, hy, e⟩)
          · have : y = x := by simpa using hy
            subst this; rw [← e]; simp
      have ih := keepFirstAux_firstsFrom key xs (pre ++ [x]) (seen ++ [key x]) (kept ++ [(key x, x)]) h'
      simp only [List.map_cons, keepFirstAux, hm, if_false, firstsFrom, hany]
      rw [ih]; simp

/-- Distinguish = the first occurrence of every key class, in list order -/
theorem keepFirst_firstsFrom (key : α → κ) (l : List α) :
    (keepFirst (l.map fun p => (key p, p))).map Prod.snd = firstsFrom key [] l := by
  unfold keepFirst
  have := keepFirstAux_firstsFrom key l [] [] [] (by simp)
  simpa using this

theorem firstsFrom_sublist (key : α → κ) : ∀ (l pre : List α), (firstsFrom key pre l).Sublist l
  | [], _ => by simp [firstsFrom]
  | x :: xs, pre => by
    unfold firstsFrom
    split
    · exact List.Sublist.cons _ (firstsFrom_sublist key xs _)
    · exact List.Sublist.cons_cons _ (firstsFrom_sublist key xs _)

/-- a cell that is kept has no earlier cell of its class; a cell that is dropped has one -/
theorem firstsFrom_cons (key : α → κ) (pre : List α) (x : α) (xs : List α) :
    firstsFrom key pre (x :: xs)
      = (if ∃ y ∈ pre, key y = key x then [] else [x]) ++ firstsFrom key (pre ++ [x]) xs := by
  rw [firstsFrom]
  by_cases h : ∃ y ∈ pre, key y = key x
  · rw [if_pos ((any_key_iff key pre _).2 h), if_pos h]; rfl
  · have : pre.any (fun y => key y = key x) = false := by
      cases hb : pre.any (fun y => key y = key x) with
      | false => rfl
      | true => exact absurd ((any_key_iff key pre _).1 hb) h
    rw [this, if_neg h]; simp

/-- if identical (`k2`) values are loosely equal (`k1`), everything the loose mode keeps the strict mode keeps -/
theorem firstsFrom_sublist_of_refines (k1 k2 : α → κ) : ∀ (l pre : List α),
    (∀ a ∈ pre ++ l, ∀ b ∈ pre ++ l, k2 a = k2 b → k1 a = k1 b) →
    (firstsFrom k1 pre l).Sublist (firstsFrom k2 pre l)
  | [], _, _ => by simp [firstsFrom]
  | x :: xs, pre, R => by
    have R' : ∀ a ∈ (pre ++ [x]) ++ xs, ∀ b ∈ (pre ++ [x]) ++ xs, k2 a = k2 b → k1 a = k1 b := by
      intro a ha b hb; exact R a (by simpa using ha) b (by simpa using hb)
    have ih := firstsFrom_sublist_of_refines k1 k2 xs (pre ++ [x]) R'
    rw [firstsFrom_cons, firstsFrom_cons]
    by_cases h2 : ∃ y ∈ pre, k2 y = k2 x
    · have h1 : ∃ y ∈ pre, k1 y = k1 x := by
        obtain ⟨y, hy, e⟩ := h2
        exact ⟨y, hy, R y (List.mem_append_left _ hy) x (by simp) e⟩
      rw [if_pos h1, if_pos h2]; simpa using ih
    · rw [if_neg h2]
      by_cases h1 : ∃ y ∈ pre, k1 y = k1 x
      · rw [if_pos h1]; simpa using List.Sublist.cons _ ih
      · rw [if_neg h1]; simpa using ih

/-- the two modes keep the same cells iff no two cells are loosely equal without being identical -/
theorem firstsFrom_eq_iff (k1 k2 : α → κ) : ∀ (l pre : List α),
    (∀ a ∈ pre ++ l, ∀ b ∈ pre ++ l, k2 a = k2 b → k1 a = k1 b) →
    (∀ a ∈ pre, ∀ b ∈ pre, k1 a = k1 b → k2 a = k2 b) →
    (firstsFrom k1 pre l = firstsFrom k2 pre l ↔ ∀ a ∈ pre ++ l, ∀ b ∈ pre ++ l, k1 a = k1 b → k2 a = k2 b)
  | [], pre, _, G => by simp only [firstsFrom, List.append_nil, true_iff]; exact G
  | x :: xs, pre, R, G => by
    have R' : ∀ a ∈ (pre ++ [x]) ++ xs, ∀ b ∈ (pre ++ [x]) ++ xs, k2 a = k2 b → k1 a = k1 b := by
      intro a ha b hb; exact R a (by simpa using ha) b (by simpa using hb)
    have hsub := firstsFrom_sublist_of_refines k1 k2 xs (pre ++ [x]) R'
    rw [firstsFrom_cons, firstsFrom_cons]
    by_cases h1 : ∃ y ∈ pre, k1 y = k1 x
    · by_cases h2 : ∃ y ∈ pre, k2 y = k2 x
      · -- dropped by both
        have G' : ∀ a ∈ pre ++ [x], ∀ b ∈ pre ++ [x], k1 a = k1 b → k2 a = k2 b := by
          obtain ⟨c, hc, ec⟩ := h2
          have ec1 : k1 c = k1 x := R c (List.mem_append_left _ hc) x (by simp) ec
          intro a ha b hb e
          rcases List.mem_append.1 ha with ha1 | ha1
          · rcases List.mem_append.1 hb with hb1 | hb1
            · exact G a ha1 b hb1 e
            · have hbx : b = x := by simpa using hb1
              rw [hbx, ← ec]; exact G a ha1 c hc (by rw [e, hbx, ec1])
          · have hax : a = x := by simpa using ha1
            rcases List.mem_append.1 hb with hb1 | hb1
            · rw [hax, ← ec]; exact G c hc b hb1 (by rw [ec1, ← hax, e])
            · have hbx : b = x := by simpa using hb1
              rw [hax, hbx]
        have ih := firstsFrom_eq_iff k1 k2 xs (pre ++ [x]) R' G'
        rw [if_pos h1, if_pos h2]
        simp only [List.nil_append]
        rw [ih]
        constructor
        · intro H a ha b hb; exact H a (by simpa using ha) b (by simpa using hb)
        · intro H a ha b hb; exact H a (by simpa using ha) b (by simpa using hb)
      · -- dropped by the loose key, kept by the strict one: the lists differ, and a twin pair exists
        rw [if_pos h1, if_neg h2]
        constructor
        · intro e
          have hl := congrArg List.length e
          have := hsub.length_le
          simp at hl
          omega
        · intro H
          obtain ⟨y, hy, ey⟩ := h1
          exact absurd ⟨y, hy, H y (List.mem_append_left _ hy) x (by simp) ey⟩ h2
    · have h2 : ¬ ∃ y ∈ pre, k2 y = k2 x := by
        rintro ⟨y, hy, e⟩
        exact h1 ⟨y, hy, R y (List.mem_append_left _ hy) x (by simp) e⟩
      have G' : ∀ a ∈ pre ++ [x], ∀ b ∈ pre ++ [x], k1 a = k1 b → k2 a = k2 b := by
        intro a ha b hb e
        rcases List.mem_append.1 ha with ha1 | ha1
        · rcases List.mem_append.1 hb with hb1 | hb1
          · exact G a ha1 b hb1 e
          · have hbx : b = x := by simpa using hb1
            exact absurd ⟨a, ha1, by rw [e, hbx]⟩ h1
        · have hax : a = x := by simpa using ha1
          rcases List.mem_append.1 hb with hb1 | hb1
          · exact absurd ⟨b, hb1, by rw [← e, hax]⟩ h1
          · have hbx : b = x := by simpa using hb1
            rw [hax, hbx]
      have ih := firstsFrom_eq_iff k1 k2 xs (pre ++ [x]) R' G'
      rw [if_neg h1, if_neg h2]
      simp only [List.cons_append, List.nil_append, List.cons.injEq, true_and]
      rw [ih]
      constructor
      · intro H a ha b hb; exact H a (by simpa using ha) b (by simpa using hb)
      · intro H a ha b hb; exact H a (by simpa using ha) b (by simpa using hb)

end firsts

end Csvq.Analytic
