/- Lemmas: the decimal text of an integer parses back to it; it is injective and contains only
   '-' and digits (so neither the key separator nor the escape byte). -/
import Csvq.Model.Text
import Csvq.Lemmas.Keys
namespace Csvq

theorem parseDigits_natDigits : ∀ (n fuel : Nat) (acc : Bytes), n < fuel →
    parseDigits (natDigits fuel n acc) 0 = parseDigits acc n := by
  intro n
  induction n using Nat.strongRecOn with
  | _ n ih =>
    intro fuel acc hf
    cases fuel with
    | zero => omega
    | succ f =>
      unfold natDigits
      by_cases h : n < 10
      · simp only [h, if_true, parseDigits]
        have : 48 ≤ 48 + n ∧ 48 + n ≤ 57 := by omega
        simp [this]
      · simp only [h, if_false]
        rw [ih (n / 10) (by omega) f _ (by omega)]
        simp only [parseDigits]
        have : 48 ≤ 48 + n % 10 ∧ 48 + n % 10 ≤ 57 := by omega
        simp only [this, and_self, if_true]
        congr 1; omega

theorem natDigits_head : ∀ (n fuel : Nat) (acc : Bytes), n < fuel →
    ∃ h t, natDigits fuel n acc = h :: t ∧ 48 ≤ h ∧ h ≤ 57 := by
  intro n
  induction n using Nat.strongRecOn with
  | _ n ih =>
    intro fuel acc hf
    cases fuel with
    | zero => omega
    | succ f =>
      unfold natDigits
      by_cases h : n < 10
      · simp only [h, if_true]; exact ⟨48 + n, acc, rfl, by omega, by omega⟩
      · simp only [h, if_false]; exact ih (n / 10) (by omega) f _ (by omega)

theorem natDigits_bytes : ∀ (n fuel : Nat) (acc : Bytes), n < fuel →
    ∀ b ∈ natDigits fuel n acc, (48 ≤ b ∧ b ≤ 57) ∨ b ∈ acc := by
  intro n
  induction n using Nat.strongRecOn with
  | _ n ih =>
    intro fuel acc hf b hb
    cases fuel with
    | zero => omega
    | succ f =>
      unfold natDigits at hb
      by_cases h : n < 10
      · simp only [h, if_true, List.mem_cons] at hb
        rcases hb with rfl | hb
        · left; omega
        · right; exact hb
      · simp only [h, if_false] at hb
        rcases ih (n / 10) (by omega) f _ (by omega) b hb with h1 | h1
        · left; exact h1
        · rcases List.mem_cons.mp h1 with rfl | h2
          · left; omega
          · right; exact h2

theorem parseNat_natDigits (n : Nat) : parseNat (natDigits (n + 1) n []) = some n := by
  obtain ⟨h, t, e, _, _⟩ := natDigits_head n (n + 1) [] (by omega)
  unfold parseNat
  have hne : (natDigits (n + 1) n []).isEmpty = false := by rw [e]; rfl
  simp only [hne, Bool.false_eq_true, if_false]
  rw [parseDigits_natDigits n (n + 1) [] (by omega)]; rfl

theorem parseSigned_decText (i : Int) : parseSigned (decText i) = some i := by
  unfold decText
  by_cases h : i < 0
  · simp only [h, if_true, parseSigned, parseNat_natDigits]
    simp; omega
  · simp only [h, if_false]
    obtain ⟨hd, t, e, h1, h2⟩ := natDigits_head i.natAbs (i.natAbs + 1) [] (by omega)
    have hp := parseNat_natDigits i.natAbs
    rw [e] at hp ⊢
    unfold parseSigned
    split
    · rename_i heq; injection heq with a _; omega
    · rename_i heq; injection heq with a _; omega
    · rw [hp]; simp; omega

theorem decText_injective (i j : Int) (h : decText i = decText j) : i = j := by
  have a := parseSigned_decText i
  have b := parseSigned_decText j
  rw [h] at a; rw [a] at b; injection b

/-- FormatInt's text parses back (ParseInt) to the same int64 -/
theorem parseIntStrict_decText (i : Int) (h : inI64 i) : parseIntStrict (decText i) = some i := by
  unfold parseIntStrict
  rw [parseSigned_decText i]
  unfold inI64 at h
  simp [h]

theorem decText_clean (i : Int) : Clean (decText i) := by
  intro b hb
  unfold decText at hb
  have key : ∀ b ∈ natDigits (i.natAbs + 1) i.natAbs [], 48 ≤ b ∧ b ≤ 57 := by
    intro b hb
    rcases natDigits_bytes i.natAbs (i.natAbs + 1) [] (by omega) b hb with h | h
    · exact h
    · simp at h
  unfold sepByte escByte
  by_cases h : i < 0
  · simp only [h, if_true, List.mem_cons] at hb
    rcases hb with rfl | hb
    · decide
    · have := key b hb; omega
  · simp only [h, if_false] at hb
    have := key b hb; omega

end Csvq
