/-
  Csvq.Lemmas.Like — helper lemmas for Props/C03Like.lean: `matchCondition` cuts a pattern into the run of
  wildcards, the literal word and the rest exactly as the specification reads it (`itemsOf`); what a run of
  wildcards / a word means for `matchItems`; `indexOf` finds the first occurrence.
-/
import Csvq.Model.Like
namespace Csvq
namespace Like

/-! ## the two phases of `matchCondition`, as functions of the pattern -/

/-- the leading unescaped wildcards and what follows them -/
def wildRun : Runes → List Item × Runes
  | [] => ([], [])
  | r :: rest =>
    if r = pct then (.many :: (wildRun rest).1, (wildRun rest).2)
    else if r = und then (.one :: (wildRun rest).1, (wildRun rest).2)
    else ([], r :: rest)

/-- the literal word (escapes resolved) up to the next unescaped wildcard, and the rest from that wildcard on -/
def wordRun : Runes → Bool → Runes × Runes
  | [], esc => (if esc then [bsl] else [], [])
  | r :: rest, true => ((if r = pct ∨ r = und then [r] else [bsl, r]) ++ (wordRun rest false).1, (wordRun rest false).2)
  | r :: rest, false =>
    if r = pct ∨ r = und then ([], r :: rest)
    else if r = bsl then wordRun rest true
    else (r :: (wordRun rest false).1, (wordRun rest false).2)

def countOne : List Item → Nat
  | [] => 0
  | .one :: ws => countOne ws + 1
  | _ :: ws => countOne ws

def hasMany : List Item → Bool
  | [] => false
  | .many :: _ => true
  | _ :: ws => hasMany ws

def allWild : List Item → Bool
  | [] => true
  | .lit _ :: _ => false
  | _ :: ws => allWild ws

def startsWild : Runes → Prop
  | [] => False
  | r :: _ => r = pct ∨ r = und

theorem pct_ne_und : pct ≠ und := by decide
theorem pct_ne_bsl : pct ≠ bsl := by decide
theorem und_ne_bsl : und ≠ bsl := by decide
theorem und_ne_pct : und ≠ pct := by decide
theorem bsl_ne_pct : bsl ≠ pct := by decide
theorem bsl_ne_und : bsl ≠ und := by decide

theorem condLoop_word (p : Runes) : ∀ (esc : Bool) (w0 : Runes) (mn : Nat) (mx : Option Nat),
    (w0 ≠ [] ∨ esc = true) →
    condLoop p mn mx w0 esc = ⟨mn, mx, w0 ++ (wordRun p esc).1, (wordRun p esc).2⟩ := by
  induction p with
  | nil =>
    intro esc w0 mn mx _
    cases esc <;> simp [condLoop, wordRun]
  | cons r rest ih =>
    intro esc w0 mn mx h
    cases esc with
    | true =>
      by_cases hw : r = pct ∨ r = und
      · simp only [condLoop, wordRun, hw, if_true]
        rw [ih false (w0 ++ [r]) mn mx (Or.inl (by simp))]
        simp
      · simp only [condLoop, wordRun, hw, if_true, if_false]
        rw [ih false (w0 ++ [bsl, r]) mn mx (Or.inl (by simp))]
        simp
    | false =>
      have hw0 : w0 ≠ [] := by
        cases h with
        | inl h => exact h
        | inr h => cases h
      by_cases hw : r = pct ∨ r = und
      · simp [condLoop, wordRun, hw, hw0]
      · have h1 : r ≠ pct := fun e => hw (Or.inl e)
        have h2 : r ≠ und := fun e => hw (Or.inr e)
        by_cases hb : r = bsl
        · subst hb
          have := ih true w0 mn mx (Or.inr rfl)
          simpa [condLoop, wordRun, bsl_ne_pct, bsl_ne_und] using this
        · simp only [condLoop, wordRun, hw, h1, h2, hb, false_and, if_false, Bool.false_eq_true]
          rw [ih false (w0 ++ [r]) mn mx (Or.inl (by simp))]
          simp

theorem condLoop_word_start (p : Runes) (mn : Nat) (mx : Option Nat) (h : ¬ startsWild p) :
    condLoop p mn mx [] false = ⟨mn, mx, (wordRun p false).1, (wordRun p false).2⟩ := by
  cases p with
  | nil => simp [condLoop, wordRun]
  | cons r rest =>
    have hw : ¬ (r = pct ∨ r = und) := h
    have h1 : r ≠ pct := fun e => hw (Or.inl e)
    have h2 : r ≠ und := fun e => hw (Or.inr e)
    by_cases hb : r = bsl
    · subst hb
      have := condLoop_word rest true [] mn mx (Or.inr rfl)
      simpa [condLoop, wordRun, bsl_ne_pct, bsl_ne_und] using this
    · simp only [condLoop, wordRun, hw, h1, h2, hb, false_and, if_false, Bool.false_eq_true]
      rw [List.nil_append, condLoop_word rest false [r] mn mx (Or.inl (by simp))]
      simp

theorem wildRun_not_wild (p : Runes) : ¬ startsWild (wildRun p).2 := by
  induction p with
  | nil => simp [wildRun, startsWild]
  | cons r rest ih =>
    by_cases h1 : r = pct
    · simpa [wildRun, h1] using ih
    · by_cases h2 : r = und
      · subst h2; simpa [wildRun, und_ne_pct] using ih
      · simp [wildRun, h1, h2, startsWild]

theorem wildRun_allWild (p : Runes) : allWild (wildRun p).1 = true := by
  induction p with
  | nil => simp [wildRun, allWild]
  | cons r rest ih =>
    by_cases h1 : r = pct
    · simpa [wildRun, h1, allWild] using ih
    · by_cases h2 : r = und
      · subst h2; simpa [wildRun, und_ne_pct, allWild] using ih
      · simp [wildRun, h1, h2, allWild]

theorem wildRun_rest_le (p : Runes) : (wildRun p).2.length ≤ p.length := by
  induction p with
  | nil => simp [wildRun]
  | cons r rest ih =>
    by_cases h1 : r = pct
    · simp only [wildRun, h1, if_true, List.length_cons]; omega
    · by_cases h2 : r = und
      · subst h2; simp only [wildRun, und_ne_pct, if_true, if_false, List.length_cons]; omega
      · simp [wildRun, h1, h2]

theorem condLoop_wild (p : Runes) : ∀ (mn : Nat) (mx : Option Nat),
    condLoop p mn mx [] false =
      condLoop (wildRun p).2 (mn + countOne (wildRun p).1)
        (if hasMany (wildRun p).1 then none else mx.map (· + countOne (wildRun p).1)) [] false := by
  induction p with
  | nil =>
    intro mn mx
    cases mx <;> simp [wildRun, countOne, hasMany, condLoop]
  | cons r rest ih =>
    intro mn mx
    by_cases h1 : r = pct
    · subst h1
      have : condLoop (pct :: rest) mn mx [] false = condLoop rest mn none [] false := by
        simp [condLoop]
      rw [this, ih mn none]
      simp [wildRun, countOne, hasMany]
    · by_cases h2 : r = und
      · subst h2
        have : condLoop (und :: rest) mn mx [] false = condLoop rest (mn + 1) (mx.map (· + 1)) [] false := by
          simp [condLoop, und_ne_pct]
        rw [this, ih (mn + 1) (mx.map (· + 1))]
        have e1 : mn + 1 + countOne (wildRun rest).1 = mn + (countOne (wildRun rest).1 + 1) := by omega
        have e2 : Option.map (· + countOne (wildRun rest).1) (Option.map (· + 1) mx) =
            Option.map (· + (countOne (wildRun rest).1 + 1)) mx := by
          cases mx with
          | none => rfl
          | some m => simp only [Option.map_some]; congr 1; omega
        simp [wildRun, und_ne_pct, countOne, hasMany, e1, e2]
      · cases mx <;> simp [wildRun, h1, h2, countOne, hasMany]

/-- `matchCondition` = the run of wildcards, then the word, then the rest -/
theorem matchCondition_eq (p : Runes) :
    matchCondition p =
      ⟨countOne (wildRun p).1,
       if hasMany (wildRun p).1 then none else some (countOne (wildRun p).1),
       (wordRun (wildRun p).2 false).1, (wordRun (wildRun p).2 false).2⟩ := by
  unfold matchCondition
  rw [condLoop_wild, condLoop_word_start _ _ _ (wildRun_not_wild p)]
  simp

/-! ## the specification reads the pattern the same way -/

theorem itemsOf_wild (p : Runes) : itemsOfE p false = (wildRun p).1 ++ itemsOfE (wildRun p).2 false := by
  induction p with
  | nil => simp [wildRun]
  | cons r rest ih =>
    by_cases h1 : r = pct
    · subst h1
      simp only [itemsOfE, pct_ne_bsl, if_false, wildRun, if_true, List.cons_append, ← ih]
      simp [itemOf]
    · by_cases h2 : r = und
      · subst h2
        simp only [itemsOfE, und_ne_bsl, und_ne_pct, if_false, wildRun, if_true, List.cons_append, ← ih]
        simp [itemOf, und_ne_pct]
      · simp [wildRun, h1, h2]

theorem itemsOf_word (p : Runes) : ∀ esc : Bool,
    itemsOfE p esc = (wordRun p esc).1.map Item.lit ++ itemsOfE (wordRun p esc).2 false := by
  induction p with
  | nil => intro esc; cases esc <;> simp [itemsOfE, wordRun]
  | cons r rest ih =>
    intro esc
    cases esc with
    | true =>
      by_cases hw : r = pct ∨ r = und
      · simp only [itemsOfE, wordRun, hw, if_true]
        rw [ih false]; simp
      · simp only [itemsOfE, wordRun, hw, if_false]
        rw [ih false]; simp
    | false =>
      by_cases hw : r = pct ∨ r = und
      · simp [wordRun, hw]
      · have h1 : r ≠ pct := fun e => hw (Or.inl e)
        have h2 : r ≠ und := fun e => hw (Or.inr e)
        by_cases hb : r = bsl
        · subst hb
          have := ih true
          simpa [itemsOfE, wordRun, bsl_ne_pct, bsl_ne_und] using this
        · simp only [itemsOfE, wordRun, hw, hb, if_false]
          rw [ih false]
          simp [itemOf, h1, h2]

theorem wordRun_esc_ne_nil (p : Runes) : (wordRun p true).1 ≠ [] := by
  cases p with
  | nil => simp [wordRun]
  | cons r rest =>
    by_cases hw : r = pct ∨ r = und <;> simp [wordRun, hw]

theorem wordRun_rest_le (p : Runes) : ∀ esc : Bool, (wordRun p esc).2.length ≤ p.length := by
  induction p with
  | nil => intro esc; simp [wordRun]
  | cons r rest ih =>
    intro esc
    cases esc with
    | true => simp only [wordRun, List.length_cons]; have := ih false; omega
    | false =>
      by_cases hw : r = pct ∨ r = und
      · simp [wordRun, hw]
      · by_cases hb : r = bsl
        · subst hb
          simp only [wordRun, bsl_ne_pct, bsl_ne_und, or_self, if_true, if_false, List.length_cons]; have := ih true; omega
        · simp only [wordRun, hw, hb, if_false, List.length_cons]; have := ih false; omega

/-- a word was read: the rest is strictly shorter -/
theorem wordRun_rest_lt (p : Runes) (h : (wordRun p false).1 ≠ []) : (wordRun p false).2.length < p.length := by
  cases p with
  | nil => simp [wordRun] at h
  | cons r rest =>
    by_cases hw : r = pct ∨ r = und
    · simp [wordRun, hw] at h
    · by_cases hb : r = bsl
      · subst hb
        simp only [wordRun, bsl_ne_pct, bsl_ne_und, or_self, if_true, if_false, List.length_cons]
        have := wordRun_rest_le rest true; omega
      · simp only [wordRun, hw, hb, if_false, List.length_cons]
        have := wordRun_rest_le rest false; omega

/-- no word after the wildcards: the pattern is at its end -/
theorem wordRun_nil (p : Runes) (hs : ¬ startsWild p) (h : (wordRun p false).1 = []) : p = [] := by
  cases p with
  | nil => rfl
  | cons r rest =>
    have hw : ¬ (r = pct ∨ r = und) := hs
    by_cases hb : r = bsl
    · subst hb
      simp only [wordRun, bsl_ne_pct, bsl_ne_und, or_self, if_true, if_false] at h
      exact absurd h (wordRun_esc_ne_nil rest)
    · simp [wordRun, hw, hb] at h

/-! ## what wildcards and words mean -/

theorem existsSuffix_self (f : Runes → Bool) (t : Runes) (h : f t = true) : existsSuffix f t = true := by
  cases t <;> simp [existsSuffix, h]

theorem existsSuffix_iff (f : Runes → Bool) (t : Runes) :
    existsSuffix f t = true ↔ ∃ n, n ≤ t.length ∧ f (t.drop n) = true := by
  induction t with
  | nil =>
    constructor
    · intro h; exact ⟨0, Nat.le_refl _, by simpa [existsSuffix] using h⟩
    · rintro ⟨n, _, h⟩; simpa [existsSuffix] using h
  | cons x t ih =>
    simp only [existsSuffix, Bool.or_eq_true, ih]
    constructor
    · rintro (h | ⟨n, hn, h⟩)
      · exact ⟨0, Nat.zero_le _, by simpa using h⟩
      · exact ⟨n + 1, by simp; omega, by simpa using h⟩
    · rintro ⟨n, hn, h⟩
      cases n with
      | zero => left; simpa using h
      | succ m => right; exact ⟨m, by simp at hn; omega, by simpa using h⟩

/-- `k` runes, then (`unb`) any run of runes, then `f` -/
def wildsSem (k : Nat) (unb : Bool) (f : Runes → Bool) (t : Runes) : Bool :=
  if k ≤ t.length then (if unb then existsSuffix f (t.drop k) else f (t.drop k)) else false

theorem drop_drop' (t : Runes) (a b : Nat) : (t.drop a).drop b = t.drop (a + b) := by
  rw [List.drop_drop]

theorem existsSuffix_wildsSem (k : Nat) (unb : Bool) (f : Runes → Bool) (t : Runes) :
    existsSuffix (wildsSem k unb f) t = wildsSem k true f t := by
  rw [Bool.eq_iff_iff, existsSuffix_iff]
  constructor
  · rintro ⟨n, hn, h⟩
    unfold wildsSem at h ⊢
    have hl : (t.drop n).length = t.length - n := List.length_drop ..
    by_cases hk : k ≤ (t.drop n).length
    · rw [if_pos hk] at h
      have hk' : k ≤ t.length := by omega
      rw [if_pos hk', if_pos rfl, existsSuffix_iff]
      cases unb with
      | true =>
        rw [if_pos rfl, existsSuffix_iff] at h
        obtain ⟨m, hm, h⟩ := h
        have hm' : m ≤ t.length - n - k := by simp only [List.length_drop] at hm; omega
        refine ⟨n + m, by rw [List.length_drop]; omega, ?_⟩
        rw [drop_drop', drop_drop'] at h
        rw [drop_drop', show k + (n + m) = n + (k + m) by omega]
        exact h
      | false =>
        rw [if_neg Bool.false_ne_true] at h
        refine ⟨n, by rw [List.length_drop]; omega, ?_⟩
        rw [drop_drop'] at h
        rw [drop_drop', show k + n = n + k by omega]
        exact h
    · rw [if_neg hk] at h
      cases h
  · intro h
    unfold wildsSem at h
    by_cases hk : k ≤ t.length
    · rw [if_pos hk, if_pos rfl, existsSuffix_iff] at h
      obtain ⟨j, hj, h⟩ := h
      have hj' : j ≤ t.length - k := by simp only [List.length_drop] at hj; omega
      refine ⟨j, by omega, ?_⟩
      have hk2 : k ≤ (t.drop j).length := by rw [List.length_drop]; omega
      unfold wildsSem
      rw [if_pos hk2]
      rw [drop_drop'] at h
      cases unb with
      | true =>
        rw [if_pos rfl]
        apply existsSuffix_self
        rw [drop_drop', show j + k = k + j by omega]
        exact h
      | false =>
        rw [if_neg Bool.false_ne_true, drop_drop', show j + k = k + j by omega]
        exact h
    · rw [if_neg hk] at h
      cases h

theorem matchItems_wilds (ps : List Item) (ws : List Item) (hw : allWild ws = true) : ∀ t : Runes,
    matchItems (ws ++ ps) t = wildsSem (countOne ws) (hasMany ws) (matchItems ps) t := by
  induction ws with
  | nil => intro t; simp [wildsSem, countOne, hasMany]
  | cons w ws ih =>
    cases w with
    | lit c => simp [allWild] at hw
    | one =>
      have ih := ih (by simpa [allWild] using hw)
      intro t
      cases t with
      | nil => simp [matchItems, wildsSem, countOne]
      | cons x t' =>
        simp only [List.cons_append, matchItems, ih t', wildsSem, countOne, hasMany, List.length_cons,
          List.drop_succ_cons, Nat.add_le_add_iff_right]
    | many =>
      have ih := ih (by simpa [allWild] using hw)
      intro t
      have hf : matchItems (ws ++ ps) = wildsSem (countOne ws) (hasMany ws) (matchItems ps) := funext ih
      simp only [List.cons_append, matchItems, hf, existsSuffix_wildsSem, countOne, hasMany]

theorem matchItems_lits (ps : List Item) (w : Runes) : ∀ t : Runes,
    matchItems (w.map Item.lit ++ ps) t = (hasPrefix w t && matchItems ps (t.drop w.length)) := by
  induction w with
  | nil => intro t; simp [hasPrefix]
  | cons a w ih =>
    intro t
    cases t with
    | nil => simp [matchItems, hasPrefix]
    | cons x t' =>
      simp only [List.map_cons, List.cons_append, matchItems, ih t', hasPrefix, List.length_cons,
        List.drop_succ_cons, Bool.and_assoc]

/-! ## `indexOf` -/

theorem hasPrefix_length (w t : Runes) (h : hasPrefix w t = true) : w.length ≤ t.length := by
  induction w generalizing t with
  | nil => simp
  | cons a w ih =>
    cases t with
    | nil => simp [hasPrefix] at h
    | cons b t =>
      simp only [hasPrefix, Bool.and_eq_true] at h
      have := ih t h.2
      simp only [List.length_cons]; omega

theorem indexOf_none (w : Runes) (t : Runes) (h : indexOf w t = none) : ∀ n, hasPrefix w (t.drop n) = false := by
  induction t with
  | nil =>
    intro n
    by_cases hp : hasPrefix w [] = true
    · simp [indexOf, hp] at h
    · simpa using hp
  | cons x t ih =>
    by_cases hp : hasPrefix w (x :: t) = true
    · simp [indexOf, hp] at h
    · simp only [indexOf, hp, Bool.false_eq_true, if_false, Option.map_eq_none_iff] at h
      intro n
      cases n with
      | zero => simpa using hp
      | succ m => simpa using ih h m

theorem indexOf_some (w : Runes) (t : Runes) : ∀ j, indexOf w t = some j →
    hasPrefix w (t.drop j) = true ∧ (∀ n, n < j → hasPrefix w (t.drop n) = false) ∧ j ≤ t.length := by
  induction t with
  | nil =>
    intro j h
    by_cases hp : hasPrefix w [] = true
    · simp only [indexOf, hp, if_true, Option.some.injEq] at h
      subst h
      exact ⟨by simpa using hp, by intro n hn; omega, Nat.le_refl _⟩
    · simp [indexOf, hp] at h
  | cons x t ih =>
    intro j h
    by_cases hp : hasPrefix w (x :: t) = true
    · simp only [indexOf, hp, if_true, Option.some.injEq] at h
      subst h
      exact ⟨by simpa using hp, by intro n hn; omega, Nat.zero_le _⟩
    · simp only [indexOf, hp, Bool.false_eq_true, if_false, Option.map_eq_some_iff] at h
      obtain ⟨j', hj', rfl⟩ := h
      obtain ⟨h1, h2, h3⟩ := ih j' hj'
      refine ⟨by simpa using h1, ?_, by simp; omega⟩
      intro n hn
      cases n with
      | zero => simpa using hp
      | succ m => simpa using h2 m (by omega)

/-- a predicate that needs the word at the front: its suffixes are searched from the first occurrence on -/
theorem existsSuffix_from_first (w : Runes) (G : Runes → Bool) (hG : ∀ s, hasPrefix w s = false → G s = false)
    (s : Runes) : ∀ j, indexOf w s = some j →
      existsSuffix G s = (G (s.drop j) || existsSuffix G (s.drop (j + 1))) := by
  induction s with
  | nil =>
    intro j h
    by_cases hp : hasPrefix w [] = true
    · simp only [indexOf, hp, if_true, Option.some.injEq] at h
      subst h
      simp [existsSuffix]
    · simp [indexOf, hp] at h
  | cons x t ih =>
    intro j h
    by_cases hp : hasPrefix w (x :: t) = true
    · simp only [indexOf, hp, if_true, Option.some.injEq] at h
      subst h
      simp [existsSuffix]
    · simp only [indexOf, hp, Bool.false_eq_true, if_false, Option.map_eq_some_iff] at h
      obtain ⟨j', hj', rfl⟩ := h
      have hg : G (x :: t) = false := hG _ (by simpa using hp)
      simp only [existsSuffix, hg, Bool.false_or, ih j' hj', List.drop_succ_cons]

theorem existsSuffix_no_occurrence (w : Runes) (G : Runes → Bool) (hG : ∀ s, hasPrefix w s = false → G s = false)
    (s : Runes) (h : indexOf w s = none) : existsSuffix G s = false := by
  have hn := indexOf_none w s h
  cases hE : existsSuffix G s with
  | false => rfl
  | true =>
    rw [existsSuffix_iff] at hE
    obtain ⟨n, _, hg⟩ := hE
    rw [hG _ (hn n)] at hg
    cases hg

end Like
end Csvq
