/-
  Csvq.Lemmas.ScannerPlaceholder — every PLACEHOLDER token the scanner model returns has a non-empty literal
  ("?" or the holder name that starts with ':'): what the semantic action of `placeholder: PLACEHOLDER` relies on
  when it reads `yyDollar[1].token.Literal[0]` (the one index site of the actions without a length guard).
-/
import Csvq.Lemmas.Scanner
namespace Csvq.Scan

/-- a `Scan()` step never returns a PLACEHOLDER token with an empty literal -/
def NoEmptyPlaceholder : Step → Prop
  | .tok t _ _ _ => t.kind = .placeholder → t.lit ≠ []
  | .comment _ => True

theorem scanNumber_kind (hd : Char) (st : St) : (scanNumber hd st).1 ≠ .placeholder := by
  unfold scanNumber
  simp only []
  split
  · simp
  · split <;> simp

theorem wordKind_kind {lit : List Char} {k : Kind} (h : wordKind lit = some k) : k ≠ .placeholder := by
  unfold wordKind at h
  split at h
  · simp at h; subst h; simp
  · split at h
    · simp at h; subst h; simp
    · repeat' split at h
      all_goals (first | (simp at h; subst h; simp) | simp at h)

theorem operatorKind_kind (hd : Char) (lit : List Char) : operatorKind hd lit ≠ .placeholder := by
  unfold operatorKind
  repeat' split
  all_goals simp

theorem variableKind_kind (st : St) : (variableKind st).1 ≠ .placeholder := by
  unfold variableKind
  split
  · repeat' split
    all_goals simp
  · simp

theorem stepNumber_ph (ch : Char) (st : St) (h : Holders) (line col : Nat) :
    NoEmptyPlaceholder (stepNumber ch st h line col) := by
  unfold stepNumber
  simp only [NoEmptyPlaceholder]
  intro hk; exact absurd hk (scanNumber_kind ch st)

theorem stepWord_ph (cls : Classes) (ch : Char) (st : St) (h : Holders) (line col : Nat) :
    NoEmptyPlaceholder (stepWord cls ch st h line col) := by
  unfold stepWord
  simp only []
  split
  · rename_i k hk
    simp only [NoEmptyPlaceholder]
    intro hp; exact absurd hp (wordKind_kind hk)
  · repeat' split
    all_goals simp [NoEmptyPlaceholder]

theorem stepOperator_ph (ch : Char) (st : St) (h : Holders) (line col : Nat) :
    NoEmptyPlaceholder (stepOperator ch st h line col) := by
  unfold stepOperator
  simp only [NoEmptyPlaceholder]
  intro hp; exact absurd hp (operatorKind_kind _ _)

theorem stepVariable_ph (cls : Classes) (st : St) (h : Holders) (line col : Nat) :
    NoEmptyPlaceholder (stepVariable cls st h line col) := by
  unfold stepVariable
  dsimp only
  split
  · intro hp; exact absurd hp (variableKind_kind st)
  · split
    · split
      · intro hp; exact absurd hp (variableKind_kind st)
      · intro hp; exact absurd hp (variableKind_kind st)
    · intro hp; exact absurd hp (variableKind_kind st)

theorem dispatch_ph (cls : Classes) (m : Mode) (ch : Char) (st : St) (h : Holders) :
    NoEmptyPlaceholder (dispatch cls m ch st h) := by
  unfold dispatch
  simp only []
  by_cases c1 : m.forPrepared = true ∧ ch = '?'
  · rw [if_pos c1]; intro _; simp
  rw [if_neg c1]
  by_cases c2 : m.forPrepared = true ∧ ch = ':' ∧ peekIs st (isIdentRune cls) = true
  · rw [if_pos c2]; unfold stepNamedPlaceholder scanIdentifier; intro _; simp
  rw [if_neg c2]
  by_cases c3 : isDecimal ch = true
  · rw [if_pos c3]; exact stepNumber_ph ch st h _ _
  rw [if_neg c3]
  by_cases c4 : isIdentRune cls ch = true
  · rw [if_pos c4]; exact stepWord_ph cls ch st h _ _
  rw [if_neg c4]
  by_cases c5 : isOperatorRune ch = true
  · rw [if_pos c5]; exact stepOperator_ph ch st h _ _
  rw [if_neg c5]
  by_cases c6 : ch = '@'
  · rw [if_pos c6]; exact stepVariable_ph cls st h _ _
  rw [if_neg c6]
  by_cases c7 : ch = '$'
  · rw [if_pos c7]; unfold stepExternal; intro hk; simp at hk
  rw [if_neg c7]
  by_cases c8 : ch = '/' ∧ peek st = some '*'
  · rw [if_pos c8]; trivial
  rw [if_neg c8]
  by_cases c9 : ch = '-' ∧ peek st = some '-'
  · rw [if_pos c9]; trivial
  rw [if_neg c9]
  by_cases c10 : ch = '\'' ∨ ((!m.ansiQuotes) = true ∧ ch = '"')
  · rw [if_pos c10]; unfold stepString; intro hk; simp at hk
  rw [if_neg c10]
  by_cases c11 : ch = '`' ∨ (m.ansiQuotes = true ∧ ch = '"')
  · rw [if_pos c11]; unfold stepQuotedIdent; intro hk; simp at hk
  rw [if_neg c11]
  by_cases c12 : 127 < ch.toNat
  · rw [if_pos c12]; intro hk; simp at hk
  rw [if_neg c12]
  intro hk; simp at hk

theorem scanStep_ph (cls : Classes) (m : Mode) (st0 : St) (h : Holders) :
    NoEmptyPlaceholder (scanStep cls m st0 h) := by
  unfold scanStep
  simp only []
  split
  · simp [NoEmptyPlaceholder]
  · exact dispatch_ph cls m _ _ h

/-- every PLACEHOLDER token the scanner returns has a non-empty literal -/
theorem scanAll_placeholder_nonempty (cls : Classes) (m : Mode) : ∀ (n : Nat) (st : St) (h : Holders),
    ∀ t ∈ (scanAll cls m n st h).toks, t.kind = .placeholder → t.lit ≠ []
  | 0, st, h => by simp [scanAll]
  | n + 1, st, h => by
    have hs := scanStep_ph cls m st h
    unfold scanAll
    split
    · exact scanAll_placeholder_nonempty cls m n _ h
    · rename_i t e st' h' heq
      rw [heq] at hs
      split
      · intro t' ht'; simp at ht'; subst ht'; exact hs
      · split
        · intro t' ht'; simp at ht'; subst ht'; exact hs
        · intro t' ht'
          simp at ht'
          rcases ht' with rfl | ht'
          · exact hs
          · exact scanAll_placeholder_nonempty cls m n st' h' t' ht'

end Csvq.Scan
