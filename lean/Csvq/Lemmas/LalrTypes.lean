/-
  Csvq.Lemmas.LalrTypes — the typing of the semantic values (Csvq/Model/LalrTypes.lean) is an invariant of the driver:

    every stack entry's tag is one of the tags of the symbol its state was entered on (`yyChk`),

  so that no type assertion of any action meets a value it does not accept.  Built on the stack-step description of
  Csvq/Lemmas/Lalr.lean (`StackStep`: a reduction by `p` pops states entered on the symbols of `p`, last symbol on
  top, and pushes a state entered on `p`'s nonterminal — facts about the TABLES, re-checked by the kernel) and on a
  Bool checker of the regenerated typing (`typingOK`): the productions are those of the tables, the certificate
  `types` is closed under every source of every action, and every assertion is satisfied by every tag of its
  operand's symbol.
-/
import Csvq.Lemmas.Lalr
import Csvq.Model.LalrTypes
namespace Csvq.Lalr

/-- the tags a symbol (stored form of its yyChk code) can have, from the certificate -/
def Grammar.typesOf (G : Grammar) (sym : Nat) : Option (List Nat) :=
  match G.types.find? (fun e => e.1 == sym) with
  | some e => some e.2
  | none => none

/-- may a value of symbol `sym` have tag `t`?  (symbols without an entry — only the bottom of the stack, state 0 —
    carry no value anybody reads: anything goes) -/
def Grammar.hasType (G : Grammar) (sym : Nat) (t : Nat) : Bool :=
  match G.typesOf sym with
  | some l => l.contains t
  | none => true

/-- the symbol has an entry and `t` is in it -/
def Grammar.hasTypeStrict (G : Grammar) (sym : Nat) (t : Nat) : Bool :=
  match G.typesOf sym with
  | some l => l.contains t
  | none => false

variable (P : PTables) (C : Cert) (G : Grammar)

/-- production `p` of the typing is production `p` of the tables; the certificate is closed under its sources; its
    assertions accept every tag of their operands -/
noncomputable def prodTyped (p : Nat) (pr : Prod) : Bool :=
  decide (pr.lhs = unb (P.r1.raw p)) && decide (pr.rhs.reverse = nthL C.rhsTop p) && decide (pr.lhs ≤ 32768) &&
  pr.srcs.all (fun s =>
    if s < copyBase then G.hasTypeStrict (32768 - pr.lhs) s
    else match pr.rhs[s - copyBase - 1]? with
      | some sym => (match G.typesOf sym with
        | some l => l.all (fun t => G.hasTypeStrict (32768 - pr.lhs) t)
        | none => false)
      | none => false) &&
  pr.asserts.all (fun a =>
    match pr.rhs[a.1 - 1]? with
    | some sym => (match G.typesOf sym with
      | some l => l.all (fun t => a.2.1.contains t || (a.2.2 && t == nilTag))
      | none => false)
    | none => false)

noncomputable def allProds : Nat → List Prod → Bool
  | _, [] => true
  | p, pr :: rest => prodTyped P C G p pr && allProds (p + 1) rest

noncomputable def typingOK : Bool :=
  decide (G.prods.length = P.r2.size) && allProds P C G 1 (G.prods.drop 1) &&
  (List.range (C.maxTok + 1)).all (fun tk => G.hasType (tk + 32768) G.tokTag) &&
  G.hasType (P.chk.raw 0) unknownTag

variable {P C G}

theorem allProds_spec : ∀ {l : List Prod} {p0 : Nat}, allProds P C G p0 l = true →
    ∀ i pr, l[i]? = some pr → prodTyped P C G (p0 + i) pr = true := by
  intro l
  induction l with
  | nil => intro p0 _ i pr h; simp at h
  | cons x l ih =>
    intro p0 h i pr hi
    unfold allProds at h
    rw [Bool.and_eq_true] at h
    cases i with
    | zero =>
      have hx : x = pr := by simpa using hi
      subst hx
      simpa using h.1
    | succ i =>
      simp only [List.getElem?_cons_succ] at hi
      have := ih h.2 i pr hi
      rw [show p0 + (i + 1) = p0 + 1 + i by omega]; exact this

/-- the tags beside the stack: each is a tag of the symbol its state was entered on -/
def TagInv (P : PTables) (G : Grammar) (L tags : List Nat) : Prop :=
  tags.length = L.length ∧ ∀ (i st t : Nat), L[i]? = some st → tags[i]? = some t → G.hasType (P.chk.raw st) t = true

theorem hasTypeStrict_imp {sym t : Nat} (h : G.hasTypeStrict sym t = true) : G.hasType sym t = true := by
  unfold Grammar.hasTypeStrict at h
  unfold Grammar.hasType
  cases hl : G.typesOf sym with
  | none => simp [hl] at h
  | some l => simp only [hl] at h ⊢; exact h

theorem mem_of_hasType {sym t : Nat} {l : List Nat} (hl : G.typesOf sym = some l) (h : G.hasType sym t = true) : t ∈ l := by
  unfold Grammar.hasType at h
  rw [hl] at h
  simpa using h

/-- the arguments of a reduction are typed by the right-hand side -/
theorem args_typed {L tags : List Nat} (hT : TagInv P G L tags) {k : Nat} (hk : k < L.length) :
    ∀ (j sym t : Nat), (((L.take k).map P.chk.raw).reverse)[j]? = some sym → ((tags.take k).reverse)[j]? = some t →
      G.hasType sym t = true := by
  intro j sym t h1 h2
  have hlenL : (L.take k).length = k := by rw [List.length_take]; omega
  have hlenT : (tags.take k).length = k := by rw [List.length_take, hT.1]; omega
  have hj : j < k := by
    by_cases hj : j < k
    · exact hj
    · have : (tags.take k).reverse.length ≤ j := by rw [List.length_reverse, hlenT]; omega
      rw [List.getElem?_eq_none_iff.mpr this] at h2
      exact absurd h2 (by simp)
  rw [List.getElem?_reverse (by rw [List.length_map, hlenL]; exact hj), List.length_map, hlenL, List.getElem?_map,
    List.getElem?_take, if_pos (by omega)] at h1
  rw [List.getElem?_reverse (by rw [hlenT]; exact hj), hlenT, List.getElem?_take, if_pos (by omega)] at h2
  cases hst : L[k - 1 - j]? with
  | none => rw [hst] at h1; simp at h1
  | some st =>
    rw [hst] at h1
    simp only [Option.map_some, Option.some.injEq] at h1
    rw [← h1]
    exact hT.2 _ st t hst h2

theorem tagInv_drop_cons {L tags : List Nat} (hT : TagInv P G L tags) (k u res : Nat)
    (h : G.hasType (P.chk.raw u) res = true) : TagInv P G (u :: L.drop k) (res :: tags.drop k) := by
  refine ⟨by simp [hT.1], ?_⟩
  intro i st t h1 h2
  cases i with
  | zero =>
    rw [List.getElem?_cons_zero, Option.some.injEq] at h1 h2
    subst h1; subst h2; exact h
  | succ i =>
    simp only [List.getElem?_cons_succ, List.getElem?_drop] at h1 h2
    exact hT.2 _ st t h1 h2

theorem tagInv_cons {L tags : List Nat} (hT : TagInv P G L tags) (u res : Nat)
    (h : G.hasType (P.chk.raw u) res = true) : TagInv P G (u :: L) (res :: tags) := by
  have := tagInv_drop_cons hT 0 u res h
  simpa using this

theorem assertFails_some {args : List Nat} {a : Nat × List Nat × Bool} {t : Nat} (h : args[a.1 - 1]? = some t) :
    assertFails args a = !(a.2.1.contains t || (a.2.2 && t == nilTag)) := by
  unfold assertFails; rw [h]

/-- the outcomes the typed run can have with `fuel` rounds from a state of measure `m`: it runs out of fuel only when
    the fuel is not more than the measure -/
def SafeV (N fuel m : Nat) (r : ResultV) : Prop :=
  r = .accept ∨ (∃ i, r = .syntaxError i ∧ i ≤ N) ∨ (∃ p, r = .impossibleAction p) ∨ (r = .outOfFuel ∧ fuel ≤ m)

theorem SafeV.lift {N fuel m m' : Nat} {r : ResultV} (h : SafeV N fuel m' r) (hm : m' < m) : SafeV N (fuel + 1) m r := by
  rcases h with h | h | h | ⟨h, hf⟩
  · exact Or.inl h
  · exact Or.inr (Or.inl h)
  · exact Or.inr (Or.inr (Or.inl h))
  · exact Or.inr (Or.inr (Or.inr ⟨h, by omega⟩))

/-- the typed stack invariant along every run: no index panic, no failing assertion, and the loop ends -/
theorem runV_safe (F : Facts P C) (hG : typingOK P C G = true) (orc : Nat → Nat) {N : Nat} :
    ∀ (fuel : Nat) (s : St) (L tags : List Nat), Inv P C N s L → TagInv P G L tags →
      SafeV N fuel (loopMeasure C s L) (runV P.toTables G orc fuel s tags) := by
  unfold typingOK at hG
  simp only [Bool.and_eq_true, decide_eq_true_eq] at hG
  obtain ⟨⟨⟨hlen, hprods⟩, htoks⟩, _⟩ := hG
  intro fuel
  induction fuel with
  | zero => intro s L tags _ _; exact Or.inr (Or.inr (Or.inr ⟨rfl, Nat.zero_le _⟩))
  | succ fuel ih =>
    intro s L tags I hT
    unfold runV
    rcases step_spec F I with h | ⟨i, h, hi⟩ | ⟨s', e, L', h, hI, hm, hstep⟩
    · rw [h]; exact Or.inl rfl
    · rw [h]; exact Or.inr (Or.inl ⟨i, rfl, hi⟩)
    · rw [h]
      cases e with
      | errShift u => exact absurd hstep (by simp [StackStep])
      | discard => exact absurd hstep (by simp [StackStep])
      | shift u =>
        obtain ⟨un, tk, _, hL', hchk, htk⟩ := hstep
        simp only []
        refine SafeV.lift (ih s' L' _ hI ?_) hm
        rw [hL']
        apply tagInv_cons hT
        rw [hchk]
        have := (List.all_eq_true.mp htoks) tk (by simp; omega)
        exact this
      | reduce p st =>
        obtain ⟨pn, stn, u, hp, _, _, hp0, hplt, hk, hL', hsyms, hchku⟩ := hstep
        simp only []
        have hpn : p.toNat = pn := by rw [hp]; exact Int.toNat_natCast pn
        rw [hpn]
        have hidx : pn < G.prods.length := by rw [hlen]; exact hplt
        have hget : G.prods[pn]? = some G.prods[pn] := List.getElem?_eq_getElem hidx
        rw [hget]
        simp only []
        have hget1 : (G.prods.drop 1)[pn - 1]? = some G.prods[pn] := by
          rw [List.getElem?_drop, show 1 + (pn - 1) = pn from Nat.add_sub_cancel' hp0]; exact hget
        have hpt := allProds_spec hprods (pn - 1) _ hget1
        rw [show 1 + (pn - 1) = pn from Nat.add_sub_cancel' hp0] at hpt
        unfold prodTyped at hpt
        simp only [Bool.and_eq_true, decide_eq_true_eq] at hpt
        obtain ⟨⟨⟨⟨hlhs, hrhs⟩, hlhs32⟩, hsrcs⟩, hasserts⟩ := hpt
        -- the production's right-hand side, as the popped states spell it
        have hrhs' : G.prods[pn].rhs = ((L.take (unb (P.r2.raw pn))).map P.chk.raw).reverse := by
          rw [hsyms, ← hrhs, List.reverse_reverse]
        have hklen : G.prods[pn].rhs.length = unb (P.r2.raw pn) := by
          rw [hrhs', List.length_reverse, List.length_map, List.length_take]
          exact Nat.min_eq_left (Nat.le_of_lt hk)
        rw [hklen]
        have hargs := args_typed hT hk
        rw [← hrhs'] at hargs
        -- no assertion fails
        have hnone : G.prods[pn].asserts.find? (assertFails (tags.take (unb (P.r2.raw pn))).reverse) = none := by
          rw [List.find?_eq_none]
          intro a ha hf
          have hok := (List.all_eq_true.mp hasserts) a ha
          cases hsym : G.prods[pn].rhs[a.1 - 1]? with
          | none => simp only [hsym] at hok; exact absurd hok (by simp)
          | some sym =>
            simp only [hsym] at hok
            cases hl : G.typesOf sym with
            | none => simp only [hl] at hok; exact absurd hok (by simp)
            | some l =>
              simp only [hl] at hok
              cases harg : ((tags.take (unb (P.r2.raw pn))).reverse)[a.1 - 1]? with
              | none =>
                -- the tags are as many as the symbols
                have h1 : a.1 - 1 < G.prods[pn].rhs.length := by
                  rcases List.getElem?_eq_some_iff.mp hsym with ⟨hh, _⟩; exact hh
                have h2 := List.getElem?_eq_none_iff.mp harg
                rw [List.length_reverse, List.length_take, hT.1, Nat.min_eq_left (Nat.le_of_lt hk), ← hklen] at h2
                exact absurd h1 (Nat.not_lt.mpr h2)
              | some t =>
                rw [assertFails_some harg] at hf
                have ht := hargs (a.1 - 1) sym t hsym harg
                have hmem := mem_of_hasType hl ht
                have := (List.all_eq_true.mp hok) t hmem
                rw [this] at hf
                exact absurd hf (by simp)
        rw [hnone]
        simp only []
        split
        · rename_i hall
          refine SafeV.lift (ih s' L' _ hI ?_) hm
          rw [hL']
          apply tagInv_drop_cons hT
          -- the pushed state was entered on the production's nonterminal
          have hsymu : P.chk.raw u = 32768 - G.prods[pn].lhs := by
            rw [hlhs]; exact (Nat.sub_eq_of_eq_add hchku.symm).symm
          rw [hsymu]
          unfold Prod.allowed at hall
          rw [List.any_eq_true] at hall
          obtain ⟨src, hsrc, hres⟩ := hall
          have hcl := (List.all_eq_true.mp hsrcs) src hsrc
          by_cases hlt : src < copyBase
          · rw [if_pos hlt] at hcl hres
            have : orc fuel = src := by simpa using hres
            rw [this]; exact hasTypeStrict_imp hcl
          · rw [if_neg hlt] at hcl hres
            cases hsym : G.prods[pn].rhs[src - copyBase - 1]? with
            | none => simp only [hsym] at hcl; exact absurd hcl (by simp)
            | some sym =>
              simp only [hsym] at hcl
              cases hl : G.typesOf sym with
              | none => simp only [hl] at hcl; exact absurd hcl (by simp)
              | some l =>
                simp only [hl] at hcl
                have harg : ((tags.take (unb (P.r2.raw pn))).reverse)[src - copyBase - 1]? = some (orc fuel) := by
                  simpa using hres
                have ht := hargs _ sym _ hsym harg
                exact hasTypeStrict_imp ((List.all_eq_true.mp hcl) _ (mem_of_hasType hl ht))
        · exact Or.inr (Or.inr (Or.inl ⟨pn, rfl⟩))

theorem init_tagInv (hG : typingOK P C G = true) : TagInv P G [0] [unknownTag] := by
  unfold typingOK at hG
  simp only [Bool.and_eq_true] at hG
  refine ⟨rfl, ?_⟩
  intro i st t h1 h2
  cases i with
  | zero =>
    rw [List.getElem?_cons_zero, Option.some.injEq] at h1 h2
    subst h1; subst h2; exact hG.2
  | succ i => simp at h1

/-- the typed run is the plain run with more to watch: whenever it ends without an assertion / oracle verdict, the
    plain run (what the correspondence stream compares with the real parser) ends the same way -/
def Erases (r : ResultV) (r0 : Result) : Prop :=
  match r with
  | .accept => r0 = .accept
  | .syntaxError i => r0 = .syntaxError i
  | .indexPanic w => r0 = .indexPanic w
  | .outOfFuel => r0 = .outOfFuel
  | .assertPanic _ _ => True
  | .impossibleAction _ => True

theorem runV_erases (T : Tables) (G : Grammar) (orc : Nat → Nat) : ∀ (fuel : Nat) (s : St) (tags : List Nat),
    Erases (runV T G orc fuel s tags) (run T fuel s) := by
  intro fuel
  induction fuel with
  | zero => intro s tags; simp [runV, run, Erases]
  | succ fuel ih =>
    intro s tags
    unfold runV run
    cases hs : step T s with
    | accept => simp [Erases]
    | abort i => simp [Erases]
    | panic w => simp [Erases]
    | next s' e =>
      cases e with
      | shift u => exact ih s' _
      | errShift u => exact ih s' _
      | discard => exact ih s' _
      | reduce p st =>
        simp only []
        cases hp : G.prods[p.toNat]? with
        | none => simp [Erases]
        | some pr =>
          simp only []
          cases hf : pr.asserts.find? (assertFails (tags.take pr.rhs.length).reverse) with
          | some a => simp [Erases]
          | none =>
            simp only []
            split
            · exact ih s' _
            · simp [Erases]

end Csvq.Lalr
