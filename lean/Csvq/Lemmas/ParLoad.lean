/- The inductive invariant of the concurrent loader machine (Model/ParLoad.lean) for the reviewed step order
   `refProg`, and the history lemma about the ghost read log; used by Props/C20Par. -/
import Csvq.Model.ParLoad
namespace Csvq.ParLoad
open Csvq.Session (Cached setFn)
variable {C : Type}

/-- for a plain access the regenerated condition of the load branch is "the lookup found nothing" -/
theorem needLoad_iff (wk : Worker C) : needLoad wk = true ↔ wk.seen = none := by
  unfold needLoad Csvq.Gen.reloadCond
  cases wk.seen <;> simp

theorem setFn_self {β} (f : Nat → β) (p : Nat) (b : β) : setFn f p b p = b := by simp [setFn]
theorem setFn_ne {β} (f : Nat → β) (p q : Nat) (b : β) (h : q ≠ p) : setFn f p b q = f q := by simp [setFn, h]

/-- what holds in every state any interleaving can reach, for `refProg = [lock, lookup, load, store, unlock, get]` -/
structure Inv (s : PState C) : Prop where
  /-- the holder of the mutex is the one worker between its Lock and its Unlock -/
  mutex_iff : ∀ i, s.mutex = some i ↔ (1 ≤ (s.w i).pc ∧ (s.w i).pc ≤ 4)
  /-- a cached view is the one thing that was ever read -/
  cache_some : ∀ c, s.cache = some c → c.forUpdate = false ∧ s.readLog = [c.content]
  /-- nothing cached: nothing read yet, or the reader stands before its store -/
  cache_none : s.cache = none → s.readLog = [] ∨
    ∃ i, (s.w i).pc = 3 ∧ (s.w i).seen = none ∧ ∃ d, (s.w i).view = some ⟨d, false⟩ ∧ s.readLog = [d]
  /-- inside the critical section the lookup's answer is still true -/
  at2 : ∀ i, (s.w i).pc = 2 → (s.w i).seen = s.cache
  at3 : ∀ i, (s.w i).pc = 3 → (s.w i).seen = s.cache ∧
    ((s.w i).seen = none → ∃ d, (s.w i).view = some ⟨d, false⟩ ∧ s.readLog = [d])
  /-- after the call the table is cached -/
  at4 : ∀ i, 4 ≤ (s.w i).pc → s.cache ≠ none
  /-- what a statement was handed is what is cached -/
  res : ∀ i r, (s.w i).result = some r → ∃ c, s.cache = some c ∧ c.content = r

theorem inv_init (d : C) : Inv (init d) := by
  refine ⟨?_, ?_, ?_, ?_, ?_, ?_, ?_⟩ <;> simp [init]

/-! ## one event, by the instruction the worker stands at -/

def bump (wk : Worker C) : Worker C := { wk with pc := wk.pc + 1 }

theorem stepEv_other (prog) (s : PState C) (c : C) :
    stepEv prog s (.other c) = if fileLocked s then s else { s with disk := c } := by
  simp only [stepEv, exec]; split <;> rfl

theorem stepEv_done (prog) (s : PState C) (i : Nat) (h : prog[(s.w i).pc]? = none) :
    stepEv prog s (.work i) = s := by
  simp only [stepEv, exec, h]; rfl

theorem stepEv_lock (prog) (s : PState C) (i : Nat) (h : prog[(s.w i).pc]? = some .lock) :
    stepEv prog s (.work i) = match s.mutex with
      | none => { s with mutex := some i, w := setFn s.w i (bump (s.w i)) }
      | some _ => s := by
  simp only [stepEv, exec, h]; cases s.mutex <;> rfl

theorem stepEv_unlock (prog) (s : PState C) (i : Nat) (h : prog[(s.w i).pc]? = some .unlock) :
    stepEv prog s (.work i) = { s with mutex := none, w := setFn s.w i (bump (s.w i)) } := by
  simp only [stepEv, exec, h]; rfl

theorem stepEv_lookup (prog) (s : PState C) (i : Nat) (h : prog[(s.w i).pc]? = some .lookup) :
    stepEv prog s (.work i) =
      { s with w := setFn s.w i (bump { s.w i with seen := s.cache, view := s.cache }) } := by
  simp only [stepEv, exec, h]; rfl

theorem stepEv_load (prog) (s : PState C) (i : Nat) (h : prog[(s.w i).pc]? = some .load) :
    stepEv prog s (.work i) =
      if needLoad (s.w i) then
        { s with readLog := s.disk :: s.readLog, w := setFn s.w i (bump { s.w i with view := some ⟨s.disk, false⟩ }) }
      else { s with w := setFn s.w i (bump (s.w i)) } := by
  simp only [stepEv, exec, h]; split <;> rfl

theorem stepEv_store (prog) (s : PState C) (i : Nat) (h : prog[(s.w i).pc]? = some .store) :
    stepEv prog s (.work i) =
      if needLoad (s.w i) then { s with cache := (s.w i).view, w := setFn s.w i (bump (s.w i)) }
      else { s with w := setFn s.w i (bump (s.w i)) } := by
  simp only [stepEv, exec, h]; split <;> rfl

theorem stepEv_get (prog) (s : PState C) (i : Nat) (h : prog[(s.w i).pc]? = some .get) :
    stepEv prog s (.work i) =
      { s with w := setFn s.w i (bump { s.w i with result := s.cache.map (·.content) }) } := by
  simp only [stepEv, exec, h]; rfl

theorem inv_other (s : PState C) (h : Inv s) (c : C) : Inv (stepEv refProg s (.other c)) := by
  rw [stepEv_other]
  split
  · exact h
  · exact ⟨h.1, h.2, h.3, h.4, h.5, h.6, h.7⟩

theorem holder_unique {s : PState C} (hm : ∀ i, s.mutex = some i ↔ (1 ≤ (s.w i).pc ∧ (s.w i).pc ≤ 4))
    {i j : Nat} (hi : 1 ≤ (s.w i).pc ∧ (s.w i).pc ≤ 4) (hj : 1 ≤ (s.w j).pc ∧ (s.w j).pc ≤ 4) : j = i := by
  have a := (hm i).2 hi
  have b := (hm j).2 hj
  rw [a] at b; cases b; rfl

theorem inv_work (s : PState C) (h : Inv s) (i : Nat) : Inv (stepEv refProg s (.work i)) := by
  obtain ⟨hm, hcs, hcn, h2, h3, h4, hr⟩ := h
  match hpc : (s.w i).pc with
  | 0 =>
    rw [stepEv_lock _ _ _ (by rw [hpc]; rfl)]
    cases hmx : s.mutex with
    | some j => exact ⟨hm, hcs, hcn, h2, h3, h4, hr⟩
    | none =>
      have nohold : ∀ j, ¬ (1 ≤ (s.w j).pc ∧ (s.w j).pc ≤ 4) := fun j hj => by
        have := (hm j).2 hj; rw [hmx] at this; cases this
      refine ⟨?_, hcs, ?_, ?_, ?_, ?_, ?_⟩
      · intro j
        by_cases hj : j = i
        · subst hj; simp [setFn_self, bump, hpc]
        · simp only [setFn_ne _ _ _ _ hj]
          constructor
          · intro e; cases e; exact absurd rfl hj
          · intro e; exact absurd e (nohold j)
      · intro hc
        rcases hcn hc with h | ⟨k, hk, _⟩
        · exact Or.inl h
        · exact absurd ⟨by omega, by omega⟩ (nohold k)
      · intro j
        by_cases hj : j = i
        · subst hj; simp [setFn_self, bump, hpc]
        · simp only [setFn_ne _ _ _ _ hj]; exact h2 j
      · intro j
        by_cases hj : j = i
        · subst hj; simp [setFn_self, bump, hpc]
        · simp only [setFn_ne _ _ _ _ hj]; exact h3 j
      · intro j
        by_cases hj : j = i
        · subst hj; simp [setFn_self, bump, hpc]
        · simp only [setFn_ne _ _ _ _ hj]; exact h4 j
      · intro j
        by_cases hj : j = i
        · subst hj; simp only [setFn_self, bump]; exact hr j
        · simp only [setFn_ne _ _ _ _ hj]; exact hr j
  | 1 =>
    rw [stepEv_lookup _ _ _ (by rw [hpc]; rfl)]
    refine ⟨?_, hcs, ?_, ?_, ?_, ?_, ?_⟩
    · intro j
      by_cases hj : j = i
      · subst hj; simp only [setFn_self, bump, hpc]
        have := hm j; rw [hpc] at this; simpa using this
      · simp only [setFn_ne _ _ _ _ hj]; exact hm j
    · intro hc
      rcases hcn hc with h | ⟨k, hk, hk2⟩
      · exact Or.inl h
      · refine Or.inr ⟨k, ?_⟩
        have hki : k ≠ i := by intro e; subst e; omega
        simp only [setFn_ne _ _ _ _ hki]; exact ⟨hk, hk2⟩
    · intro j
      by_cases hj : j = i
      · subst hj; simp [setFn_self, bump]
      · simp only [setFn_ne _ _ _ _ hj]; exact h2 j
    · intro j
      by_cases hj : j = i
      · subst hj; simp [setFn_self, bump, hpc]
      · simp only [setFn_ne _ _ _ _ hj]; exact h3 j
    · intro j
      by_cases hj : j = i
      · subst hj; simp [setFn_self, bump, hpc]
      · simp only [setFn_ne _ _ _ _ hj]; exact h4 j
    · intro j
      by_cases hj : j = i
      · subst hj; simp only [setFn_self, bump]; exact hr j
      · simp only [setFn_ne _ _ _ _ hj]; exact hr j
  | 2 =>
    have hold : s.mutex = some i := (hm i).2 (by omega)
    have only : ∀ j, (1 ≤ (s.w j).pc ∧ (s.w j).pc ≤ 4) → j = i := fun j hj =>
      holder_unique hm (by omega) hj
    have hseen := h2 i hpc
    rw [stepEv_load _ _ _ (by rw [hpc]; rfl)]
    by_cases hn : needLoad (s.w i) = true
    · rw [if_pos hn]
      have hsn : (s.w i).seen = none := (needLoad_iff _).1 hn
      have hc0 : s.cache = none := by rw [← hseen]; exact hsn
      have hlog : s.readLog = [] := by
        rcases hcn hc0 with h | ⟨k, hk, _⟩
        · exact h
        · have := only k (by omega); subst this; omega
      refine ⟨?_, ?_, ?_, ?_, ?_, ?_, ?_⟩
      · intro j
        by_cases hj : j = i
        · subst hj; simp only [setFn_self, bump, hpc]
          have := hm j; rw [hpc] at this; simpa using this
        · simp only [setFn_ne _ _ _ _ hj]; exact hm j
      · intro c hc; simp only at hc; rw [hc0] at hc; cases hc
      · intro _
        refine Or.inr ⟨i, ?_, ?_, s.disk, ?_, ?_⟩ <;> simp [setFn_self, bump, hpc, hlog, hsn]
      · intro j
        by_cases hj : j = i
        · subst hj; simp [setFn_self, bump, hpc]
        · simp only [setFn_ne _ _ _ _ hj]; exact h2 j
      · intro j
        by_cases hj : j = i
        · subst hj; simp only [setFn_self, bump, hpc, hlog]
          intro _; exact ⟨hseen, fun _ => ⟨s.disk, rfl, rfl⟩⟩
        · simp only [setFn_ne _ _ _ _ hj]
          intro h; exact absurd (only j (by omega)) hj
      · intro j
        by_cases hj : j = i
        · subst hj; simp only [setFn_self, bump, hpc]; intro h; omega
        · simp only [setFn_ne _ _ _ _ hj]; exact h4 j
      · intro j
        by_cases hj : j = i
        · subst hj; simp only [setFn_self, bump]; exact hr j
        · simp only [setFn_ne _ _ _ _ hj]; exact hr j
    · rw [if_neg hn]
      have hsn : (s.w i).seen ≠ none := fun e => hn ((needLoad_iff _).2 e)
      refine ⟨?_, hcs, ?_, ?_, ?_, ?_, ?_⟩
      · intro j
        by_cases hj : j = i
        · subst hj; simp only [setFn_self, bump, hpc]
          have := hm j; rw [hpc] at this; simpa using this
        · simp only [setFn_ne _ _ _ _ hj]; exact hm j
      · intro hc; exact absurd (hseen.trans hc) hsn
      · intro j
        by_cases hj : j = i
        · subst hj; simp [setFn_self, bump, hpc]
        · simp only [setFn_ne _ _ _ _ hj]; exact h2 j
      · intro j
        by_cases hj : j = i
        · subst hj; simp only [setFn_self, bump, hpc]
          intro _; exact ⟨hseen, fun e => absurd e hsn⟩
        · simp only [setFn_ne _ _ _ _ hj]; exact h3 j
      · intro j
        by_cases hj : j = i
        · subst hj; simp only [setFn_self, bump, hpc]; intro h; omega
        · simp only [setFn_ne _ _ _ _ hj]; exact h4 j
      · intro j
        by_cases hj : j = i
        · subst hj; simp only [setFn_self, bump]; exact hr j
        · simp only [setFn_ne _ _ _ _ hj]; exact hr j
  | 3 =>
    have only : ∀ j, (1 ≤ (s.w j).pc ∧ (s.w j).pc ≤ 4) → j = i := fun j hj =>
      holder_unique hm (by omega) hj
    obtain ⟨hseen, hview⟩ := h3 i hpc
    rw [stepEv_store _ _ _ (by rw [hpc]; rfl)]
    by_cases hn : needLoad (s.w i) = true
    · rw [if_pos hn]
      have hsn : (s.w i).seen = none := (needLoad_iff _).1 hn
      have hc0 : s.cache = none := by rw [← hseen]; exact hsn
      obtain ⟨d, hv, hlog⟩ := hview hsn
      have nores : ∀ j r, (s.w j).result = some r → False := fun j r h => by
        obtain ⟨c, hc, _⟩ := hr j r h; rw [hc0] at hc; cases hc
      refine ⟨?_, ?_, ?_, ?_, ?_, ?_, ?_⟩
      · intro j
        by_cases hj : j = i
        · subst hj; simp only [setFn_self, bump, hpc]
          have := hm j; rw [hpc] at this; simpa using this
        · simp only [setFn_ne _ _ _ _ hj]; exact hm j
      · intro c hc; simp only [hv] at hc; cases hc; exact ⟨rfl, hlog⟩
      · intro hc; simp only [hv] at hc; cases hc
      · intro j
        by_cases hj : j = i
        · subst hj; simp [setFn_self, bump, hpc]
        · simp only [setFn_ne _ _ _ _ hj]
          intro h; exact absurd (only j (by omega)) hj
      · intro j
        by_cases hj : j = i
        · subst hj; simp [setFn_self, bump, hpc]
        · simp only [setFn_ne _ _ _ _ hj]
          intro h; exact absurd (only j (by omega)) hj
      · intro j _; simp [hv]
      · intro j r
        by_cases hj : j = i
        · subst hj; simp only [setFn_self, bump]; intro h; exact (nores j r h).elim
        · simp only [setFn_ne _ _ _ _ hj]; intro h; exact (nores j r h).elim
    · rw [if_neg hn]
      have hsn : (s.w i).seen ≠ none := fun e => hn ((needLoad_iff _).2 e)
      have hcne : s.cache ≠ none := by rw [← hseen]; exact hsn
      refine ⟨?_, hcs, ?_, ?_, ?_, ?_, ?_⟩
      · intro j
        by_cases hj : j = i
        · subst hj; simp only [setFn_self, bump, hpc]
          have := hm j; rw [hpc] at this; simpa using this
        · simp only [setFn_ne _ _ _ _ hj]; exact hm j
      · intro hc; exact absurd hc hcne
      · intro j
        by_cases hj : j = i
        · subst hj; simp [setFn_self, bump, hpc]
        · simp only [setFn_ne _ _ _ _ hj]; exact h2 j
      · intro j
        by_cases hj : j = i
        · subst hj; simp [setFn_self, bump, hpc]
        · simp only [setFn_ne _ _ _ _ hj]; exact h3 j
      · intro j _; exact hcne
      · intro j
        by_cases hj : j = i
        · subst hj; simp only [setFn_self, bump]; exact hr j
        · simp only [setFn_ne _ _ _ _ hj]; exact hr j
  | 4 =>
    have only : ∀ j, (1 ≤ (s.w j).pc ∧ (s.w j).pc ≤ 4) → j = i := fun j hj =>
      holder_unique hm (by omega) hj
    have hcne := h4 i (by omega)
    rw [stepEv_unlock _ _ _ (by rw [hpc]; rfl)]
    refine ⟨?_, hcs, ?_, ?_, ?_, ?_, ?_⟩
    · intro j
      by_cases hj : j = i
      · subst hj; simp [setFn_self, bump, hpc]
      · simp only [setFn_ne _ _ _ _ hj]
        constructor
        · intro e; cases e
        · intro h; exact absurd (only j h) hj
    · intro hc; exact absurd hc hcne
    · intro j
      by_cases hj : j = i
      · subst hj; simp [setFn_self, bump, hpc]
      · simp only [setFn_ne _ _ _ _ hj]; exact h2 j
    · intro j
      by_cases hj : j = i
      · subst hj; simp [setFn_self, bump, hpc]
      · simp only [setFn_ne _ _ _ _ hj]; exact h3 j
    · intro j _; exact hcne
    · intro j
      by_cases hj : j = i
      · subst hj; simp only [setFn_self, bump]; exact hr j
      · simp only [setFn_ne _ _ _ _ hj]; exact hr j
  | 5 =>
    have hcne := h4 i (by omega)
    rw [stepEv_get _ _ _ (by rw [hpc]; rfl)]
    refine ⟨?_, hcs, ?_, ?_, ?_, ?_, ?_⟩
    · intro j
      by_cases hj : j = i
      · subst hj; simp only [setFn_self, bump, hpc]
        have := hm j; rw [hpc] at this; simpa using this
      · simp only [setFn_ne _ _ _ _ hj]; exact hm j
    · intro hc; exact absurd hc hcne
    · intro j
      by_cases hj : j = i
      · subst hj; simp [setFn_self, bump, hpc]
      · simp only [setFn_ne _ _ _ _ hj]; exact h2 j
    · intro j
      by_cases hj : j = i
      · subst hj; simp [setFn_self, bump, hpc]
      · simp only [setFn_ne _ _ _ _ hj]; exact h3 j
    · intro j _; exact hcne
    · intro j r
      by_cases hj : j = i
      · subst hj; simp only [setFn_self, bump]
        intro h
        cases hc : s.cache with
        | none => exact absurd hc hcne
        | some c => rw [hc] at h; simp at h; exact ⟨c, rfl, h⟩
      · simp only [setFn_ne _ _ _ _ hj]; exact hr j r
  | n + 6 =>
    rw [stepEv_done _ _ _ (by rw [hpc]; simp [refProg])]
    exact ⟨hm, hcs, hcn, h2, h3, h4, hr⟩

theorem inv_step (s : PState C) (h : Inv s) (e : Ev C) : Inv (stepEv refProg s e) := by
  cases e with
  | work i => exact inv_work s h i
  | other c => exact inv_other s h c

/-- the invariant holds after ANY schedule -/
theorem inv_run (evs : List (Ev C)) : ∀ (s : PState C), Inv s → Inv (runEvs refProg s evs) := by
  induction evs with
  | nil => intro s h; exact h
  | cons e evs ih => intro s h; exact ih _ (inv_step s h e)

/-! ## the ghost read log only ever records what the file held at that moment (any program) -/

theorem readLog_step (prog : List Instr) (s : PState C) (e : Ev C) (d : C)
    (h : d ∈ (stepEv prog s e).readLog) : d ∈ s.readLog ∨ d = s.disk := by
  cases e with
  | other c => rw [stepEv_other] at h; split at h <;> exact Or.inl h
  | work i =>
    cases hi : prog[(s.w i).pc]? with
    | none => rw [stepEv_done _ _ _ hi] at h; exact Or.inl h
    | some ins =>
      cases ins with
      | lock => rw [stepEv_lock _ _ _ hi] at h; split at h <;> exact Or.inl h
      | unlock => rw [stepEv_unlock _ _ _ hi] at h; exact Or.inl h
      | lookup => rw [stepEv_lookup _ _ _ hi] at h; exact Or.inl h
      | store => rw [stepEv_store _ _ _ hi] at h; split at h <;> exact Or.inl h
      | get => rw [stepEv_get _ _ _ hi] at h; exact Or.inl h
      | load =>
        rw [stepEv_load _ _ _ hi] at h
        split at h
        · simp only [List.mem_cons] at h
          rcases h with h | h
          · exact Or.inr h
          · exact Or.inl h
        · exact Or.inl h

theorem readLog_hist (prog : List Instr) : ∀ (evs : List (Ev C)) (s : PState C) (d : C),
    d ∈ (runEvs prog s evs).readLog →
      d ∈ s.readLog ∨ ∃ pre, pre <+: evs ∧ (runEvs prog s pre).disk = d := by
  intro evs
  induction evs with
  | nil => intro s d h; exact Or.inl h
  | cons e evs ih =>
    intro s d h
    rcases ih (stepEv prog s e) d h with h1 | ⟨pre, hp, hd⟩
    · rcases readLog_step prog s e d h1 with h2 | h2
      · exact Or.inl h2
      · exact Or.inr ⟨[], List.nil_prefix, h2.symm⟩
    · exact Or.inr ⟨e :: pre, by simpa using hp, hd⟩

end Csvq.ParLoad
