/- Lemmas for key serialisation: the escaped, `:`-joined key is uniquely decodable. -/
import Csvq.Model.Keys
namespace Csvq

/-- no separator and no escape byte -/
def Clean (bs : Bytes) : Prop := ∀ b ∈ bs, b ≠ sepByte ∧ b ≠ escByte

/-- scanning (state `e` = pending escape) never meets a bare separator and ends unescaped -/
def scanOK : Bool → Bytes → Bool
  | e, [] => !e
  | true, _ :: bs => scanOK false bs
  | false, b :: bs =>
    if b = escByte then scanOK true bs
    else if b = sepByte then false
    else scanOK false bs

theorem scanOK_cons_false (b : Nat) (bs : Bytes) : scanOK false (b :: bs) =
    (if b = escByte then scanOK true bs else if b = sepByte then false else scanOK false bs) := by
  simp [scanOK]
theorem scanOK_cons_true (b : Nat) (bs : Bytes) : scanOK true (b :: bs) = scanOK false bs := by
  simp [scanOK]
theorem splitKeys_cons_false (b : Nat) (bs cur : Bytes) : splitKeys false (b :: bs) cur =
    (if b = escByte then splitKeys true bs (b :: cur)
     else if b = sepByte then cur.reverse :: splitKeys false bs []
     else splitKeys false bs (b :: cur)) := by
  simp [splitKeys]
theorem splitKeys_cons_true (b : Nat) (bs cur : Bytes) : splitKeys true (b :: bs) cur = splitKeys false bs (b :: cur) := by
  simp [splitKeys]

theorem scanOK_clean_append (x y : Bytes) (hx : Clean x) : scanOK false (x ++ y) = scanOK false y := by
  induction x with
  | nil => rfl
  | cons b bs ih =>
    have hb := hx b (by simp)
    have hbs : Clean bs := fun c hc => hx c (by simp [hc])
    show scanOK false (b :: (bs ++ y)) = _
    rw [scanOK_cons_false]
    simp only [hb.1, hb.2, if_false]
    exact ih hbs

theorem scanOK_clean (x : Bytes) (hx : Clean x) : scanOK false x = true := by
  have := scanOK_clean_append x [] hx
  simpa [scanOK] using this

theorem scanOK_escKey (s : Bytes) : scanOK false (escKey s) = true := by
  induction s with
  | nil => rfl
  | cons b bs ih =>
    unfold escKey
    by_cases h : b = sepByte ∨ b = escByte
    · simp only [h, if_true]
      rw [scanOK_cons_false]; simp only [if_true]; rw [scanOK_cons_true]; exact ih
    · have h1 : b ≠ sepByte := fun e => h (Or.inl e)
      have h2 : b ≠ escByte := fun e => h (Or.inr e)
      simp only [h, if_false]
      rw [scanOK_cons_false]; simp only [h1, h2, if_false]; exact ih

theorem escKey_injective : ∀ (s t : Bytes), escKey s = escKey t → s = t
  | [], [], _ => rfl
  | [], b :: bs, h => by
      unfold escKey at h; split at h <;> simp [escKey] at h
  | a :: as, [], h => by
      unfold escKey at h; split at h <;> simp [escKey] at h
  | a :: as, b :: bs, h => by
      simp only [escKey] at h
      by_cases ha : a = sepByte ∨ a = escByte <;> by_cases hb : b = sepByte ∨ b = escByte
      · simp only [ha, hb, if_true] at h
        injection h with _ h; injection h with h1 h2
        rw [h1, escKey_injective as bs h2]
      · simp only [ha, hb, if_true, if_false] at h
        injection h with h1 _
        exact absurd (Or.inr h1.symm) hb
      · simp only [ha, hb, if_true, if_false] at h
        injection h with h1 _
        exact absurd (Or.inr h1) ha
      · simp only [ha, hb, if_false] at h
        injection h with h1 h2
        rw [h1, escKey_injective as bs h2]

/-- splitting a well-escaped chunk followed by a separator yields that chunk first -/
theorem splitKeys_chunk_sep (x : Bytes) : ∀ (e : Bool) (rest cur : Bytes), scanOK e x = true →
    splitKeys e (x ++ sepByte :: rest) cur = (cur.reverse ++ x) :: splitKeys false rest [] := by
  induction x with
  | nil =>
    intro e rest cur h
    cases e
    · simp [splitKeys, sepByte, escByte]
    · simp [scanOK] at h
  | cons b bs ih =>
    intro e rest cur h
    cases e
    · rw [scanOK_cons_false] at h
      simp only [List.cons_append]
      rw [splitKeys_cons_false]
      by_cases h1 : b = escByte
      · simp only [h1, if_true] at h ⊢
        rw [ih true rest _ h]; simp
      · by_cases h2 : b = sepByte
        · rw [if_neg h1, if_pos h2] at h; exact absurd h (by decide)
        · simp only [h1, h2, if_false] at h ⊢
          rw [ih false rest _ h]; simp
    · rw [scanOK_cons_true] at h
      simp only [List.cons_append]
      rw [splitKeys_cons_true]
      rw [ih false rest _ h]; simp

theorem splitKeys_chunk_end (x : Bytes) : ∀ (e : Bool) (cur : Bytes), scanOK e x = true →
    splitKeys e x cur = [cur.reverse ++ x] := by
  induction x with
  | nil => intro e cur _; cases e <;> simp [splitKeys]
  | cons b bs ih =>
    intro e cur h
    cases e
    · rw [scanOK_cons_false] at h
      rw [splitKeys_cons_false]
      by_cases h1 : b = escByte
      · simp only [h1, if_true] at h ⊢
        rw [ih true _ h]; simp
      · by_cases h2 : b = sepByte
        · rw [if_neg h1, if_pos h2] at h; exact absurd h (by decide)
        · simp only [h1, h2, if_false] at h ⊢
          rw [ih false _ h]; simp
    · rw [scanOK_cons_true] at h
      rw [splitKeys_cons_true]
      rw [ih false _ h]; simp

/-- the texts strconv produces for integers and floats: injective, free of `:` and `\` -/
structure KeyTextOK (kt : KeyText) : Prop where
  iinj : ∀ i j, kt.itext i = kt.itext j → i = j
  finj : ∀ f g, kt.ftext f = kt.ftext g → f = g
  iclean : ∀ i, Clean (kt.itext i)
  fclean : ∀ f, Clean (kt.ftext f)

theorem scanOK_serKey (kt : KeyText) (ok : KeyTextOK kt) (k : NKey) : scanOK false (serKey kt k) = true := by
  have hpre : ∀ t, t ≠ sepByte → t ≠ escByte → ∀ y, scanOK false (91 :: t :: 93 :: y) = scanOK false y := by
    intro t h1 h2 y
    have : Clean [91, t, 93] := by
      intro b hb; simp at hb
      rcases hb with rfl | rfl | rfl
      · decide
      · exact ⟨h1, h2⟩
      · decide
    exact scanOK_clean_append [91, t, 93] y this
  unfold serKey
  cases k <;> simp only [tagOf, payload] <;> rw [hpre _ (by decide) (by decide)]
  · rfl
  · exact scanOK_clean _ (ok.iclean _)
  · exact scanOK_clean _ (ok.fclean _)
  · exact scanOK_clean _ (ok.iclean _)
  · exact scanOK_escKey _
  · rename_i b; cases b <;> rfl
  · rename_i t; cases t <;> rfl

theorem splitKeys_serKeys (kt : KeyText) (ok : KeyTextOK kt) (k : NKey) (ks : List NKey) :
    splitKeys false (serKeys kt (k :: ks)) [] = (k :: ks).map (serKey kt) := by
  induction ks generalizing k with
  | nil => simp [serKeys, splitKeys_chunk_end _ false [] (scanOK_serKey kt ok k)]
  | cons k' ks ih =>
    simp only [serKeys]
    rw [splitKeys_chunk_sep _ false _ [] (scanOK_serKey kt ok k)]
    rw [ih k']; simp

theorem serKey_injective (kt : KeyText) (ok : KeyTextOK kt) (a b : NKey) (h : serKey kt a = serKey kt b) : a = b := by
  unfold serKey at h
  injection h with _ h; injection h with ht h; injection h with _ hp
  cases a <;> cases b <;> simp [tagOf] at ht <;> simp only [payload] at hp
  · rfl
  · rw [ok.iinj _ _ hp]
  · rw [ok.finj _ _ hp]
  · rw [ok.iinj _ _ hp]
  · rw [escKey_injective _ _ hp]
  · rename_i x y; cases x <;> cases y <;> simp at hp <;> rfl
  · rename_i x y; cases x <;> cases y <;> simp at hp <;> rfl

end Csvq
