/- Invariants of the locking protocol (any number of processes, every interleaving). -/
import Csvq.Model.Lock
namespace Csvq.Lock

structure Inv (s : State) : Prop where
  owner : ∀ p, s.lockOwner = some p ↔ ownsLockPc (s.pc p) = true
  rl : ∀ p, s.rlock p = true ↔ hasRLockPc (s.pc p) = true
  hold : ∀ p, (s.pc p = .wHold ∨ s.pc p = .wUnlock) → ∀ q, s.rlock q = false

theorem inv_init : Inv init := by
  constructor <;> intro p <;> simp [init, ownsLockPc, hasRLockPc]

theorem owner_unique {s : State} (h : Inv s) (p q : Pid)
    (hp : ownsLockPc (s.pc p) = true) (hq : ownsLockPc (s.pc q) = true) : p = q := by
  have a := (h.owner p).mpr hp
  have b := (h.owner q).mpr hq
  rw [a] at b; injection b

theorem no_owner {s : State} (h : Inv s) (hn : s.lockOwner = none) (q : Pid) : ownsLockPc (s.pc q) = false := by
  cases hc : ownsLockPc (s.pc q)
  · rfl
  · have := (h.owner q).mpr hc; rw [hn] at this; exact absurd this (by simp)

end Csvq.Lock
