import Csvq.Model.FileBytes
namespace Csvq.FileBytes

/-- at the end of the file, a write appends -/
theorem write_at_end (f : F) (w : List Byte) (h : f.pos = f.bytes.length) :
    write f w = { bytes := f.bytes ++ w, pos := f.bytes.length + w.length } := by
  cases w with
  | nil => cases f; simp_all [write]
  | cons x xs =>
    simp only [write, h, Nat.le_refl, if_true, List.take_length, List.isEmpty_cons, Bool.false_eq_true, if_false]
    have : List.drop (f.bytes.length + (x :: xs).length) f.bytes = [] := List.drop_eq_nil_of_le (by omega)
    rw [this, List.append_nil]

theorem writes_at_end (ws : List (List Byte)) : ∀ (f : F), f.pos = f.bytes.length →
    writes f ws = { bytes := f.bytes ++ ws.flatten, pos := f.bytes.length + ws.flatten.length } := by
  induction ws with
  | nil => intro f h; cases f; simp_all [writes]
  | cons w ws ih =>
    intro f h
    have h1 := write_at_end f w h
    have := ih (write f w) (by rw [h1]; simp)
    simp only [writes, List.foldl_cons] at this ⊢
    rw [this, h1]
    simp [Nat.add_assoc]

end Csvq.FileBytes

namespace Csvq.FileBytes

/-- what the scanner's phase says about the file -/
def Inv (enc : List (List Byte)) (lb : List Byte) : Phase → F → Prop
  | .none, _ => True
  | .truncated, f => f.bytes = []
  | .sought, f => f.pos = 0
  | .ready, f => f.bytes = [] ∧ f.pos = 0
  | .encoded, f => f.bytes = enc.flatten ∧ f.pos = f.bytes.length
  | .written, f => f.bytes = enc.flatten ++ lb ∧ f.pos = f.bytes.length

theorem interp_skip (enc : List (List Byte)) (lb : List Byte) (t : String) (rest : List String) (f : F)
    (h1 : t ≠ "truncate") (h2 : t ≠ "seek") (h3 : t ≠ "encode") (h4 : t ≠ "write") :
    interp enc lb (t :: rest) f = interp enc lb rest f := by
  conv => lhs; unfold interp
  split <;> simp_all

theorem next_skip (ph : Phase) (t : String)
    (h1 : t ≠ "truncate") (h2 : t ≠ "seek") (h3 : t ≠ "encode") (h4 : t ≠ "write") :
    next ph t = some ph := by
  unfold next
  split <;> simp_all

/-- soundness of the scanner: whatever the file held and wherever its position was, a body the scanner
    accepts leaves the file in the state its final phase describes -/
theorem scan_sound (enc : List (List Byte)) (lb : List Byte) (body : List String) :
    ∀ (ph ph' : Phase) (f : F), Inv enc lb ph f → scan ph body = some ph' →
      Inv enc lb ph' (interp enc lb body f) := by
  induction body with
  | nil => intro ph ph' f hi hs; simp only [scan] at hs; cases hs; exact hi
  | cons t rest ih =>
    intro ph ph' f hi hs
    simp only [scan] at hs
    cases hn : next ph t with
    | none => rw [hn] at hs; cases hs
    | some ph1 =>
      rw [hn] at hs
      by_cases h1 : t = "truncate"
      · subst h1
        have : interp enc lb ("truncate" :: rest) f = interp enc lb rest (truncate0 f) := by simp [interp]
        rw [this]
        apply ih ph1 ph' _ _ hs
        cases ph <;> simp [next] at hn <;> subst hn <;> simp_all [Inv, truncate0]
      · by_cases h2 : t = "seek"
        · subst h2
          have : interp enc lb ("seek" :: rest) f = interp enc lb rest (seek0 f) := by simp [interp]
          rw [this]
          apply ih ph1 ph' _ _ hs
          cases ph <;> simp [next] at hn <;> subst hn <;> simp_all [Inv, seek0]
        · by_cases h3 : t = "encode"
          · subst h3
            have : interp enc lb ("encode" :: rest) f = interp enc lb rest (writes f enc) := by simp [interp]
            rw [this]
            apply ih ph1 ph' _ _ hs
            cases ph <;> simp [next] at hn
            subst hn
            obtain ⟨hb, hp⟩ := hi
            have := writes_at_end enc f (by rw [hb, hp]; rfl)
            rw [this, hb]; simp [Inv]
          · by_cases h4 : t = "write"
            · subst h4
              have : interp enc lb ("write" :: rest) f = interp enc lb rest (write f lb) := by simp [interp]
              rw [this]
              apply ih ph1 ph' _ _ hs
              cases ph <;> simp [next] at hn
              subst hn
              obtain ⟨hb, hp⟩ := hi
              have := write_at_end f lb hp
              rw [this, hb]; simp [Inv]
            · rw [interp_skip enc lb t rest f h1 h2 h3 h4]
              rw [next_skip ph t h1 h2 h3 h4] at hn
              cases hn
              exact ih ph ph' f hi hs

end Csvq.FileBytes
