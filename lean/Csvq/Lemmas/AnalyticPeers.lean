/-
  Csvq.Lemmas.AnalyticPeers — RANK / DENSE_RANK / CUME_DIST / PERCENT_RANK as readings of the groups of
  perseCumulativeGroups (no hypothesis on the peer relation), and the groups as runs of adjacent equivalent rows.
  Specification-side definitions (`groupCols`, `adjacentRuns`) and helper lemmas for Props/C17Peers.lean.
-/
import Csvq.Lemmas.Analytic
namespace Csvq.Analytic
open Csvq

/-- for every record of every group: (record, rows in the groups before it, rows of its group, 0-based number of
    its group); `c` / `k` are the rows / groups already passed -/
def groupCols : List (List Nat) → Nat → Nat → List (Nat × Nat × Nat × Nat)
  | [], _, _ => []
  | g :: gs, c, k => g.map (fun idx => (idx, c, g.length, k)) ++ groupCols gs (c + g.length) (k + 1)

theorem rankLoop_groups (eqv : Nat → Nat → Bool) : ∀ (rest : List Nat) (h : Nat) (g : List Nat) (c k : Nat),
    g.map (fun i => (i, c + 1)) ++ rankLoop eqv rest (c + g.length) (c + 1) (some h)
      = (groupCols (openLoop eqv rest h g) c k).map (fun r => (r.1, r.2.1 + 1))
  | [], h, g, c, k => by
    simp [rankLoop, openLoop, groupCols, List.map_map, Function.comp_def]
  | idx :: rest, h, g, c, k => by
    simp only [rankLoop, sameRank, openLoop]
    by_cases hx : eqv idx h = true
    · simp only [hx, if_true]
      have := rankLoop_groups eqv rest h (g ++ [idx]) c k
      simp only [List.map_append, List.length_append, List.length_cons, List.length_nil, List.map_cons,
        List.map_nil, Nat.zero_add, List.append_assoc, List.singleton_append] at this
      rw [← this, Nat.add_assoc]
    · have hx' : eqv idx h = false := by simpa using hx
      simp only [hx', Bool.false_eq_true, if_false, groupCols, List.map_append, List.map_map, Function.comp_def]
      have := rankLoop_groups eqv rest idx [idx] (c + g.length) (k + 1)
      simp only [List.map_cons, List.map_nil, List.length_cons, List.length_nil, Nat.zero_add,
        List.singleton_append] at this
      rw [← this]

theorem denseLoop_groups (eqv : Nat → Nat → Bool) : ∀ (rest : List Nat) (h : Nat) (g : List Nat) (c k : Nat),
    g.map (fun i => (i, k + 1)) ++ denseLoop eqv rest (k + 1) (some h)
      = (groupCols (openLoop eqv rest h g) c k).map (fun r => (r.1, r.2.2.2 + 1))
  | [], h, g, c, k => by
    simp [denseLoop, openLoop, groupCols, List.map_map, Function.comp_def]
  | idx :: rest, h, g, c, k => by
    simp only [denseLoop, sameRank, openLoop]
    by_cases hx : eqv idx h = true
    · simp only [hx, if_true]
      have := denseLoop_groups eqv rest h (g ++ [idx]) c k
      simp only [List.map_append, List.map_cons, List.map_nil, List.append_assoc, List.singleton_append] at this
      rw [← this]
    · have hx' : eqv idx h = false := by simpa using hx
      simp only [hx', Bool.false_eq_true, if_false, groupCols, List.map_append, List.map_map, Function.comp_def]
      have := denseLoop_groups eqv rest idx [idx] (c + g.length) (k + 1)
      simp only [List.map_cons, List.map_nil, List.singleton_append] at this
      rw [← this]

theorem cumeLoop_groups (total : Nat) : ∀ (G : List (List Nat)) (c k : Nat),
    cumeLoop total G c = (groupCols G c k).map (fun r => (r.1, (r.2.1 + r.2.2.1, total)))
  | [], _, _ => rfl
  | g :: gs, c, k => by
    simp only [cumeLoop, groupCols, List.map_append, List.map_map, Function.comp_def]
    rw [cumeLoop_groups total gs (c + g.length) (k + 1)]

theorem percentLoop_groups (len : Nat) : ∀ (G : List (List Nat)) (c k : Nat),
    percentLoop len G c = (groupCols G c k).map (fun r => (r.1, if 1 < len then (r.2.1, len - 1) else (1, 1)))
  | [], _, _ => rfl
  | g :: gs, c, k => by
    simp only [percentLoop, groupCols, List.map_append, List.map_map, Function.comp_def]
    rw [percentLoop_groups len gs (c + g.length) (k + 1)]

/-- the textbook division of a sorted partition into peer groups: cut between two ADJACENT rows iff the later
    one is not equivalent to the earlier one -/
def adjLoop (eqv : Nat → Nat → Bool) : List Nat → Nat → List Nat → List (List Nat)
  | [], _, g => [g]
  | idx :: rest, prev, g => if eqv idx prev then adjLoop eqv rest idx (g ++ [idx]) else g :: adjLoop eqv rest idx [idx]

def adjacentRuns (eqv : Nat → Nat → Bool) : List Nat → List (List Nat)
  | [] => []
  | x :: rest => adjLoop eqv rest x [x]

theorem adjLoop_flatten (eqv : Nat → Nat → Bool) : ∀ (rest : List Nat) (prev : Nat) (g : List Nat),
    (adjLoop eqv rest prev g).flatten = g ++ rest
  | [], _, g => by simp [adjLoop]
  | idx :: rest, prev, g => by
    simp only [adjLoop]
    split
    · rw [adjLoop_flatten eqv rest idx (g ++ [idx])]; simp
    · rw [List.flatten_cons, adjLoop_flatten eqv rest idx [idx]]; simp

theorem openLoop_eq_adjLoop (eqv : Nat → Nat → Bool)
    (symm : ∀ a b, eqv a b = true → eqv b a = true)
    (trans : ∀ a b c, eqv a b = true → eqv b c = true → eqv a c = true) :
    ∀ (rest : List Nat) (h prev : Nat) (g : List Nat), (prev = h ∨ eqv prev h = true) →
    openLoop eqv rest h g = adjLoop eqv rest prev g
  | [], _, _, _, _ => rfl
  | idx :: rest, h, prev, g, hp => by
    have hb : eqv idx h = eqv idx prev := by
      rcases hp with rfl | hp
      · rfl
      · cases h1 : eqv idx h with
        | true => exact (trans idx h prev h1 (symm _ _ hp)).symm
        | false =>
          cases h2 : eqv idx prev with
          | false => rfl
          | true => rw [trans idx prev h h2 hp] at h1; exact absurd h1 (by simp)
    simp only [openLoop, adjLoop, ← hb]
    by_cases hx : eqv idx h = true
    · simp only [hx, if_true]
      exact openLoop_eq_adjLoop eqv symm trans rest h idx (g ++ [idx]) (Or.inr hx)
    · simp only [hx, Bool.false_eq_true, if_false]
      rw [openLoop_eq_adjLoop eqv symm trans rest idx idx [idx] (Or.inl rfl)]

end Csvq.Analytic
