/-
  Helper lemmas for C18 (SELECT clause skeleton): every printer's output is read back by its parser, given a condition
  on the token that follows; every parser consumes tokens.
-/
import Csvq.Model.Clause
import Csvq.Lemmas.OpExpr
namespace Csvq.Clause
open Csvq.OpExpr
variable {α : Type} [DecidableEq α] (tbl : Table α)
set_option linter.unusedSectionVars false

/-! ## facts about expressions -/

/-- the next token is neither an operator nor `(`: an expression with no rule pending ends here -/
def NotSym : List (Tok α) → Prop
  | .sym _ _ :: _ => False
  | .lpar :: _ => False
  | _ => True

theorem stop_of_notSym (cs : List Nat) (rest : List (Tok α)) (h : NotSym rest) : Stop tbl cs rest := by
  cases rest with
  | nil => simp [Stop]
  | cons t tl => cases t <;> simp_all [Stop, NotSym]

theorem noLpar_of_notSym (rest : List (Tok α)) (h : NotSym rest) : NoLpar rest := by
  cases rest with
  | nil => simp [NoLpar]
  | cons t tl => cases t <;> simp_all [NoLpar, NotSym]

/-- an expression the parser can build, followed by a non-operator, is read back -/
theorem parseExpr_print (e : Expr α) (hw : WellFormed tbl e) (rest : List (Tok α)) (hr : NotSym rest) :
    parseExpr tbl (print tbl e ++ rest) = some (e, rest) := by
  unfold parseExpr
  have hc := cost_le tbl e
  exact parseE_print tbl e hw.1 0 false rest 1 (e, rest) hw.2 (stop_of_notSym tbl _ rest hr) (noLpar_of_notSym rest hr)
    (loop_return tbl 0 e rest (stop_of_notSym tbl _ rest hr) 0) _ (by simp [fuelFor]; omega)

def isKw : Tok α → Bool
  | .kw _ => true
  | _ => false

/-- the first token of a printed expression is not a clause keyword -/
theorem print_head_noKw (e : Expr α) : ∃ a tl, print tbl e = a :: tl ∧ isKw a = false := by
  obtain ⟨a, tl, h, ok⟩ := print_head tbl e
  exact ⟨a, tl, h, by cases a <;> simp_all [HeadOK, isKw]⟩

/-- an expression that begins with an identifier continues with an operator, `(` or nothing — not with `.` -/
theorem print_second : ∀ (e : Expr α) (k : Nat) (b : Tok α) (tl : List (Tok α)), print tbl e = .atom k :: b :: tl → isKw b = false
  | .atom n, k, b, tl, h => by simp [print] at h
  | .paren e, k, b, tl, h => by simp [print] at h
  | .pre t v e, k, b, tl, h => by simp [print] at h
  | .call f as, k, b, tl, h => by simp [print] at h; obtain ⟨_, h2⟩ := h; cases hp : printArgs tbl as <;> simp [hp] at h2 <;> (obtain ⟨rfl, _⟩ := h2; rfl)
  | .cstat c neg range, k, b, tl, h => by simp [print] at h
  | .cattr c, k, b, tl, h => by simp [print] at h
  | .bin l t v r, k, b, tl, h => by
    cases hl : print tbl l with
    | nil => exact absurd hl (by obtain ⟨a, tl', h', _⟩ := print_head tbl l; simp [h'])
    | cons a tl' =>
      cases tl' with
      | nil => simp [print, hl] at h; obtain ⟨_, rfl, _⟩ := h; rfl
      | cons b' tl'' => simp [print, hl] at h; obtain ⟨rfl, rfl, _⟩ := h; exact print_second l k b' tl'' hl
  | .post l t neg w, k, b, tl, h => by
    cases hl : print tbl l with
    | nil => exact absurd hl (by obtain ⟨a, tl', h', _⟩ := print_head tbl l; simp [h'])
    | cons a tl' =>
      cases tl' with
      | nil => simp [print, hl] at h; obtain ⟨_, rfl, _⟩ := h; rfl
      | cons b' tl'' => simp [print, hl] at h; obtain ⟨rfl, rfl, _⟩ := h; exact print_second l k b' tl'' hl
  | .nbin l t v r, k, b, tl, h => by
    cases hl : print tbl l with
    | nil => exact absurd hl (by obtain ⟨a, tl', h', _⟩ := print_head tbl l; simp [h'])
    | cons a tl' =>
      cases tl' with
      | nil => simp [print, hl] at h; obtain ⟨_, rfl, _⟩ := h; rfl
      | cons b' tl'' => simp [print, hl] at h; obtain ⟨rfl, rfl, _⟩ := h; exact print_second l k b' tl'' hl
  | .between l neg lo hi, k, b, tl, h => by
    cases hl : print tbl l with
    | nil => exact absurd hl (by obtain ⟨a, tl', h', _⟩ := print_head tbl l; simp [h'])
    | cons a tl' =>
      cases tl' with
      | nil => cases neg <;> (simp [print, hl, negToks] at h; obtain ⟨_, rfl, _⟩ := h; rfl)
      | cons b' tl'' => simp [print, hl] at h; obtain ⟨rfl, rfl, _⟩ := h; exact print_second l k b' tl'' hl
  | .inl l neg vs, k, b, tl, h => by
    cases hl : print tbl l with
    | nil => exact absurd hl (by obtain ⟨a, tl', h', _⟩ := print_head tbl l; simp [h'])
    | cons a tl' =>
      cases tl' with
      | nil => cases neg <;> (simp [print, hl, negToks] at h; obtain ⟨_, rfl, _⟩ := h; rfl)
      | cons b' tl'' => simp [print, hl] at h; obtain ⟨rfl, rfl, _⟩ := h; exact print_second l k b' tl'' hl

theorem print_ne_nil (e : Expr α) : print tbl e ≠ [] := by
  obtain ⟨a, tl, h, _⟩ := print_head tbl e
  simp [h]

/-! ## every successful parse consumes tokens -/

theorem postTail_len {ts : List (Tok α)} {neg : Bool} {w : Nat} {r : List (Tok α)}
    (h : postTail tbl ts = some (neg, w, r)) : r.length < ts.length := by
  unfold postTail at h
  split at h
  · split at h
    · simp at h; obtain ⟨_, _, rfl⟩ := h; simp
    · simp at h
  · split at h
    · simp at h; obtain ⟨_, _, rfl⟩ := h; simp; omega
    · simp at h
  · simp at h

theorem parseCursor_len {ts : List (Tok α)} {e : Expr α} {r : List (Tok α)} (h : parseCursor tbl ts = some (e, r)) :
    r.length < ts.length := by
  unfold parseCursor at h
  split at h
  all_goals first
    | (simp at h; done)
    | (split at h
       · simp only [Option.some.injEq, Prod.mk.injEq] at h
         obtain ⟨_, rfl⟩ := h
         simp; try omega
       · simp at h)

theorem parse_len : ∀ n : Nat,
    (∀ r ba ts e rest, parseE tbl n r ba ts = some (e, rest) → rest.length < ts.length) ∧
    (∀ ts e rest, parseUnit tbl n ts = some (e, rest) → rest.length < ts.length) ∧
    (∀ ts as rest, parseArgs tbl n ts = some (as, rest) → rest.length < ts.length) ∧
    (∀ lhs neg t v ts e rest, parseTail tbl n lhs neg t v ts = some (e, rest) → rest.length < ts.length) ∧
    (∀ r ba lhs ts e rest, parseLoop tbl n r ba lhs ts = some (e, rest) → rest.length ≤ ts.length)
  | 0 => by simp [parseE, parseUnit, parseLoop, parseArgs, parseTail]
  | n + 1 => by
    obtain ⟨ihE, ihU, ihA, ihT, ihL⟩ := parse_len n
    refine ⟨?_, ?_, ?_, ?_, ?_⟩
    · intro r ba ts e rest h
      rw [parseE] at h
      cases hu : parseUnit tbl n ts with
      | none => simp [hu] at h
      | some p =>
        obtain ⟨u, ts1⟩ := p
        simp only [hu] at h
        have := ihU _ _ _ hu
        have := ihL _ _ _ _ _ _ h
        omega
    · intro ts e rest h
      cases ts with
      | nil => simp [parseUnit] at h
      | cons t ts' =>
        cases t with
        | atom k =>
          simp only [parseUnit] at h
          cases hl : expectLpar ts' with
          | none => simp only [hl, Option.some.injEq, Prod.mk.injEq] at h; obtain ⟨_, rfl⟩ := h; simp
          | some ts1 =>
            simp only [hl] at h
            have e1 := expectLpar_some hl
            by_cases hk : isId k = true
            · simp only [hk, if_true] at h
              cases hr : expectRpar ts1 with
              | some ts2 =>
                simp only [hr, Option.some.injEq, Prod.mk.injEq] at h
                obtain ⟨_, rfl⟩ := h
                have e2 := expectRpar_some hr
                subst e1 e2; simp; omega
              | none =>
                simp only [hr] at h
                cases ha : parseArgs tbl n ts1 with
                | none => simp [ha] at h
                | some q =>
                  obtain ⟨as, ts2⟩ := q
                  simp only [ha] at h
                  cases hr2 : expectRpar ts2 with
                  | none => simp [hr2] at h
                  | some ts3 =>
                    simp only [hr2, Option.some.injEq, Prod.mk.injEq] at h
                    obtain ⟨_, rfl⟩ := h
                    have := ihA _ _ _ ha
                    have e2 := expectRpar_some hr2
                    subst e1 e2; simp at this ⊢; omega
            · simp [hk] at h
        | rpar => simp [parseUnit] at h
        | lit w =>
          simp only [parseUnit] at h
          by_cases hw : w = 9
          · simp only [hw, if_true] at h
            have := parseCursor_len tbl h
            simp; omega
          · simp [hw] at h
        | kw k => simp [parseUnit] at h
        | lpar =>
          simp only [parseUnit] at h
          cases he : parseE tbl n 0 false ts' with
          | none => simp [he] at h
          | some p =>
            obtain ⟨x, ts2⟩ := p
            simp only [he] at h
            have := ihE _ _ _ _ _ he
            cases ts2 with
            | nil => simp at h
            | cons t2 ts3 =>
              cases t2 <;> simp at h
              obtain ⟨_, rfl⟩ := h
              simp at this ⊢; omega
        | sym t v =>
          simp only [parseUnit] at h
          cases hp : tbl.pre t with
          | none => simp [hp] at h
          | some p =>
            simp only [hp] at h
            cases he : parseE tbl n p false ts' with
            | none => simp [he] at h
            | some q =>
              obtain ⟨x, ts2⟩ := q
              simp only [he, Option.some.injEq, Prod.mk.injEq] at h
              obtain ⟨_, rfl⟩ := h
              have := ihE _ _ _ _ _ he
              simp; omega
    · intro ts as rest h
      rw [parseArgs] at h
      cases he : parseE tbl n 0 false ts with
      | none => simp [he] at h
      | some q =>
        obtain ⟨e, ts1⟩ := q
        simp only [he] at h
        have := ihE _ _ _ _ _ he
        cases hc : takeComma ts1 with
        | none => simp only [hc, Option.some.injEq, Prod.mk.injEq] at h; obtain ⟨_, rfl⟩ := h; exact this
        | some ts2 =>
          simp only [hc] at h
          have e1 := takeComma_some hc
          cases ha : parseArgs tbl n ts2 with
          | none => simp [ha] at h
          | some q2 =>
            obtain ⟨more, ts3⟩ := q2
            simp only [ha, Option.some.injEq, Prod.mk.injEq] at h
            obtain ⟨_, rfl⟩ := h
            have := ihA _ _ _ ha
            subst e1; simp at *; omega
    · intro lhs neg t v ts e rest h
      simp only [parseTail] at h
      by_cases h1 : t = tbl.btw
      · simp only [h1, if_true] at h
        cases hb : tbl.bin tbl.and_ with
        | none => simp [hb] at h
        | some la =>
          obtain ⟨la, aa⟩ := la
          simp only [hb] at h
          cases he : parseE tbl n 0 true ts with
          | none => simp [he] at h
          | some q =>
            obtain ⟨lo, ts1⟩ := q
            simp only [he] at h
            cases hs : expectSym tbl.and_ ts1 with
            | none => simp [hs] at h
            | some ts2 =>
              simp only [hs] at h
              cases he2 : parseE tbl n la false ts2 with
              | none => simp [he2] at h
              | some q2 =>
                obtain ⟨hi, ts3⟩ := q2
                simp only [he2, Option.some.injEq, Prod.mk.injEq] at h
                obtain ⟨_, rfl⟩ := h
                have := ihE _ _ _ _ _ he
                have := ihE _ _ _ _ _ he2
                obtain ⟨v2, rfl⟩ := expectSym_some hs
                simp at *; omega
      · simp only [h1, if_false] at h
        by_cases h2 : t = tbl.inn
        · simp only [h2, if_true] at h
          cases hl : expectLpar ts with
          | none => simp [hl] at h
          | some ts1 =>
            simp only [hl] at h
            have e1 := expectLpar_some hl
            cases ha : parseArgs tbl n ts1 with
            | none => simp [ha] at h
            | some q =>
              obtain ⟨vs, ts2⟩ := q
              simp only [ha] at h
              cases hr : expectRpar ts2 with
              | none => simp [hr] at h
              | some ts3 =>
                simp only [hr, Option.some.injEq, Prod.mk.injEq] at h
                obtain ⟨_, rfl⟩ := h
                have := ihA _ _ _ ha
                have e2 := expectRpar_some hr
                subst e1 e2; simp at *; omega
        · simp only [h2, if_false] at h
          by_cases h3 : (neg && tbl.negable t) = true
          · simp only [h3, if_true] at h
            cases hb : tbl.bin t with
            | none => simp [hb] at h
            | some la =>
              obtain ⟨l, a⟩ := la
              simp only [hb] at h
              cases he : parseE tbl n l false ts with
              | none => simp [he] at h
              | some q =>
                obtain ⟨R, ts1⟩ := q
                simp only [he, Option.some.injEq, Prod.mk.injEq] at h
                obtain ⟨_, rfl⟩ := h
                exact ihE _ _ _ _ _ he
          · simp [h3] at h
    · intro r ba lhs ts e rest h
      cases ts with
      | nil => simp [parseLoop] at h; obtain ⟨_, rfl⟩ := h; simp
      | cons t ts' =>
        cases t with
        | atom k => simp [parseLoop] at h; obtain ⟨_, rfl⟩ := h; simp
        | rpar => simp [parseLoop] at h; obtain ⟨_, rfl⟩ := h; simp
        | lpar => simp [parseLoop] at h; obtain ⟨_, rfl⟩ := h; simp
        | lit w => simp [parseLoop] at h; obtain ⟨_, rfl⟩ := h; simp
        | kw k => simp [parseLoop] at h; obtain ⟨_, rfl⟩ := h; simp
        | sym t v =>
          simp only [parseLoop] at h
          have ret : some (lhs, Tok.sym t v :: ts') = some (e, rest) → rest.length ≤ (Tok.sym t v :: ts').length := by
            intro hh; simp only [Option.some.injEq, Prod.mk.injEq] at hh; obtain ⟨_, rfl⟩ := hh; simp
          by_cases h0 : (ba && decide (t = tbl.and_)) = true
          · simp only [h0, if_true] at h; exact ret h
          · simp only [h0, Bool.false_eq_true, if_false] at h
            cases hb : tbl.bin t with
            | some la =>
              obtain ⟨l, a⟩ := la
              simp only [hb] at h
              cases ha : act l a r with
              | shift =>
                simp only [ha] at h
                cases he : parseE tbl n l false ts' with
                | none => simp [he] at h
                | some q =>
                  obtain ⟨rhs, ts2⟩ := q
                  simp only [he] at h
                  have := ihE _ _ _ _ _ he
                  have := ihL _ _ _ _ _ _ h
                  simp; omega
              | reduce => simp only [ha] at h; exact ret h
              | error => simp [ha] at h
            | none =>
              simp only [hb] at h
              cases hp : tbl.post t with
              | some la =>
                obtain ⟨l, a⟩ := la
                simp only [hp] at h
                cases ha : act l a r with
                | shift =>
                  simp only [ha] at h
                  cases hpt : postTail tbl ts' with
                  | none => simp [hpt] at h
                  | some q =>
                    obtain ⟨neg, w, ts2⟩ := q
                    simp only [hpt] at h
                    have := postTail_len tbl hpt
                    have := ihL _ _ _ _ _ _ h
                    simp; omega
                | reduce => simp only [ha] at h; exact ret h
                | error => simp [ha] at h
              | none =>
                simp only [hp] at h
                by_cases hn : t = tbl.neg
                · subst hn
                  simp only [if_true] at h
                  cases hl : tbl.lvl tbl.neg with
                  | none => simp only [hl] at h; exact ret h
                  | some la =>
                    obtain ⟨l, a⟩ := la
                    simp only [hl] at h
                    cases ha : act l a r with
                    | shift =>
                      simp only [ha] at h
                      cases hsy : nextSym ts' with
                      | none => simp [hsy] at h
                      | some q =>
                        obtain ⟨t2, v2, ts2⟩ := q
                        simp only [hsy] at h
                        have e1 := nextSym_some hsy
                        cases htl : parseTail tbl n lhs true t2 v2 ts2 with
                        | none => simp [htl] at h
                        | some q2 =>
                          obtain ⟨e', ts3⟩ := q2
                          simp only [htl] at h
                          have := ihT _ _ _ _ _ _ _ htl
                          have := ihL _ _ _ _ _ _ h
                          subst e1; simp at *; omega
                    | reduce => simp only [ha] at h; exact ret h
                    | error => simp [ha] at h
                · simp only [hn, if_false] at h
                  by_cases hbi : t = tbl.btw ∨ t = tbl.inn
                  · simp only [hbi, if_true] at h
                    cases hl : tbl.lvl t with
                    | none => simp only [hl] at h; exact ret h
                    | some la =>
                      obtain ⟨l, a⟩ := la
                      simp only [hl] at h
                      cases ha : act l a r with
                      | shift =>
                        simp only [ha] at h
                        cases htl : parseTail tbl n lhs false t v ts' with
                        | none => simp [htl] at h
                        | some q2 =>
                          obtain ⟨e', ts3⟩ := q2
                          simp only [htl] at h
                          have := ihT _ _ _ _ _ _ _ htl
                          have := ihL _ _ _ _ _ _ h
                          simp at *; omega
                      | reduce => simp only [ha] at h; exact ret h
                      | error => simp [ha] at h
                  · simp only [hbi, if_false] at h; exact ret h

theorem parseExpr_len {ts : List (Tok α)} {e : Expr α} {rest : List (Tok α)}
    (h : parseExpr tbl ts = some (e, rest)) : rest.length < ts.length :=
  (parse_len tbl _).1 _ _ _ _ _ h

/-! ## where a clause or a list element may end -/

/-- the position of a clause keyword in a query (0: not a clause keyword) -/
def rank : Kw → Nat
  | .from => 1 | .where => 2 | .group => 3 | .having => 4 | .order => 5 | .limit => 6 | .offset => 7
  | .union => 8 | .except => 8 | .intersect => 8 | .for_ => 9
  | _ => 0

/-- the rest begins with nothing, a closing parenthesis, or a clause keyword of position ≥ i -/
def After (i : Nat) : List (Tok α) → Prop
  | [] => True
  | .rpar :: _ => True
  | .kw k :: _ => 0 < rank k ∧ i ≤ rank k
  | _ => False

/-- … or with a comma: where an element of a list may end -/
def Sep : List (Tok α) → Prop
  | .kw .comma :: _ => True
  | ts => After 1 ts

theorem after_mono {i j : Nat} (h : i ≤ j) {ts : List (Tok α)} (ha : After j ts) : After i ts := by
  cases ts with
  | nil => trivial
  | cons t tl => cases t <;> simp_all [After]; omega

theorem sep_of_after {i : Nat} (hi : 1 ≤ i) {ts : List (Tok α)} (ha : After i ts) : Sep ts := by
  have := after_mono hi ha
  cases ts with
  | nil => exact this
  | cons t tl =>
    cases t with
    | kw k => cases k <;> simp_all [Sep, After, rank]
    | _ => simp_all [Sep, After]

theorem sep_comma (tl : List (Tok α)) : Sep (.kw .comma :: tl) := by simp [Sep]

theorem notSym_of_sep {ts : List (Tok α)} (h : Sep ts) : NotSym ts := by
  cases ts with
  | nil => trivial
  | cons t tl => cases t <;> simp_all [Sep, After, NotSym]

/-- a keyword that is not a clause keyword and not a comma cannot begin the rest -/
theorem sep_kw {ts : List (Tok α)} (h : Sep ts) {k : Kw} {tl : List (Tok α)} (e : ts = .kw k :: tl) :
    k = .comma ∨ 0 < rank k := by
  subst e
  cases k <;> simp_all [Sep, After, rank]

theorem sep_not_atom {ts : List (Tok α)} (h : Sep ts) (x : Nat) (tl : List (Tok α)) : ts ≠ .atom x :: tl := by
  intro e; subst e; simp [Sep, After] at h

theorem after_not_comma {i : Nat} {ts : List (Tok α)} (h : After i ts) (tl : List (Tok α)) : ts ≠ .kw .comma :: tl := by
  intro e; subst e; simp [After, rank] at h

/-! ## comma lists -/

theorem parseSep_print {β : Type} (p : List (Tok α) → Option (β × List (Tok α))) (pr : β → List (Tok α)) :
    ∀ (xs : List β), xs ≠ [] → (∀ x ∈ xs, ∀ rest, Sep rest → p (pr x ++ rest) = some (x, rest)) →
    ∀ (rest : List (Tok α)) (i : Nat), 1 ≤ i → After i rest → ∀ n, xs.length ≤ n →
      parseSep p n (printSep pr xs ++ rest) = some (xs, rest)
  | [], h, _, _, _, _, _, _, _ => absurd rfl h
  | [x], _, hp, rest, i, hi, hr, n, hn => by
    obtain ⟨m, rfl⟩ : ∃ m, n = m + 1 := ⟨n - 1, by simp at hn; omega⟩
    simp only [printSep, parseSep, hp x (by simp) rest (sep_of_after hi hr)]
    cases rest with
    | nil => rfl
    | cons t tl =>
      cases t with
      | kw k =>
        cases k <;> first | rfl | exact absurd rfl (after_not_comma hr tl)
      | _ => rfl
  | x :: y :: xs, _, hp, rest, i, hi, hr, n, hn => by
    obtain ⟨m, rfl⟩ : ∃ m, n = m + 1 := ⟨n - 1, by simp at hn; omega⟩
    have ih := parseSep_print p pr (y :: xs) (by simp) (fun z hz => hp z (by simp [hz])) rest i hi hr m (by simp at hn ⊢; omega)
    have e : printSep pr (x :: y :: xs) ++ rest = pr x ++ (.kw .comma :: (printSep pr (y :: xs) ++ rest)) := by simp [printSep]
    rw [e]
    simp only [parseSep, hp x (by simp) _ (sep_comma _), ih]

theorem printSep_length_pos {β : Type} (pr : β → List (Tok α)) (hpr : ∀ x, pr x ≠ []) :
    ∀ xs : List β, xs.length ≤ (printSep pr xs).length
  | [] => by simp [printSep]
  | [x] => by
    have := hpr x
    cases h : pr x with
    | nil => exact absurd h this
    | cons a b => simp [printSep, h]
  | x :: y :: xs => by
    have := printSep_length_pos pr hpr (y :: xs)
    simp [printSep] at this ⊢
    omega

/-! ## tables -/

/-- Table nodes the grammar builds: identifiers, AS only with an alias -/
def WFAtom (a : TableAtom) : Prop :=
  isId a.name = true ∧ (∀ x, a.alias = some x → isId x = true) ∧ (a.as = true → a.alias ≠ none)

/-- what may follow a table without alias: not an identifier or number, not AS -/
def NoAtomAs : List (Tok α) → Prop
  | .atom _ :: _ => False
  | .kw .as :: _ => False
  | _ => True

theorem noAtomAs_of_sep {ts : List (Tok α)} (h : Sep ts) : NoAtomAs (α := α) ts := by
  cases ts with
  | nil => trivial
  | cons t tl =>
    cases t with
    | kw k => cases k <;> simp_all [Sep, After, rank, NoAtomAs]
    | _ => simp_all [Sep, After, NoAtomAs]

theorem parseTableAtom_print (a : TableAtom) (hw : WFAtom a) (rest : List (Tok α)) (hr : NoAtomAs rest) :
    parseTableAtom (printTableAtom a ++ rest) = some (a, rest) := by
  obtain ⟨t, as, al⟩ := a
  obtain ⟨h1, h2, h3⟩ := hw
  simp only at h1 h2 h3
  cases al with
  | some x =>
    have hx := h2 x rfl
    cases as <;> simp [printTableAtom, printOptAtom, parseTableAtom, h1, hx]
  | none =>
    cases as with
    | true => exact absurd rfl (h3 rfl)
    | false =>
      cases rest with
      | nil => simp [printTableAtom, printOptAtom, parseTableAtom, h1]
      | cons u tl =>
        cases u with
        | atom x => simp [NoAtomAs] at hr
        | kw k => cases k <;> simp_all [printTableAtom, printOptAtom, parseTableAtom, NoAtomAs]
        | _ => simp [printTableAtom, printOptAtom, parseTableAtom, h1]

/-! ## select items -/

def WFItem : Item α → Prop
  | .star => True
  | .tstar t => isId t = true
  | .expr e al => WellFormed tbl e ∧ (∀ x, al = some x → isId x = true) ∧ (∀ v r, print tbl e ≠ .sym tbl.star v :: r)

theorem parseItemExpr_print (e : Expr α) (al : Option Nat) (hw : WFItem tbl (.expr e al)) (rest : List (Tok α)) (hr : Sep rest) :
    parseItemExpr tbl (printItem tbl (.expr e al) ++ rest) = some (.expr e al, rest) := by
  obtain ⟨hwe, hal, _⟩ := hw
  cases al with
  | some x =>
    have hx := hal x rfl
    have e1 : printItem tbl (.expr e (some x)) ++ rest = print tbl e ++ (.kw .as :: .atom x :: rest) := by simp [printItem]
    rw [e1]
    have hns : NotSym (Tok.kw (α := α) .as :: .atom x :: rest) := by simp [NotSym]
    simp [parseItemExpr, parseExpr_print tbl e hwe _ hns, hx]
  | none =>
    have e1 : printItem tbl (.expr e none) ++ rest = print tbl e ++ rest := by simp [printItem]
    rw [e1]
    simp only [parseItemExpr, parseExpr_print tbl e hwe _ (notSym_of_sep hr)]
    cases rest with
    | nil => rfl
    | cons t tl =>
      cases t with
      | kw k =>
        rcases sep_kw hr rfl with rfl | hk
        · rfl
        · cases k <;> first | rfl | simp [rank] at hk
      | _ => rfl

theorem parseItem_print (it : Item α) (hw : WFItem tbl it) (rest : List (Tok α)) (hr : Sep rest) :
    parseItem tbl (printItem tbl it ++ rest) = some (it, rest) := by
  cases it with
  | star => simp [printItem, parseItem]
  | tstar t => simp [printItem, parseItem, WFItem] at hw ⊢; exact hw
  | expr e al =>
    have hx := parseItemExpr_print tbl e al hw rest hr
    obtain ⟨_, _, hstar⟩ := hw
    -- the first tokens of the text decide which alternative `parseItem` takes
    have hne := print_ne_nil tbl e
    cases hp : print tbl e with
    | nil => exact absurd hp hne
    | cons a tl =>
      have e1 : printItem tbl (.expr e al) ++ rest = a :: (tl ++ ((match al with | some x => [Tok.kw .as, .atom x] | none => []) ++ rest)) := by
        cases al <;> simp [printItem, hp]
      rw [e1] at hx ⊢
      cases a with
      | sym t v =>
        have : t ≠ tbl.star := by intro h; subst h; exact hstar v tl hp
        simp only [parseItem, this, if_false]
        exact hx
      | atom k =>
        -- the second token is not `.`
        cases tl with
        | cons b tl' =>
          have hb : isKw b = false := print_second tbl e k b tl' hp
          cases b with
          | kw k' => simp [isKw] at hb
          | _ => simpa [parseItem] using hx
        | nil =>
          cases al with
          | some x => simpa [parseItem] using hx
          | none =>
            cases rest with
            | nil => simpa [parseItem] using hx
            | cons c tl'' =>
              cases c with
              | kw k' =>
                rcases sep_kw hr rfl with rfl | hk
                · simpa [parseItem] using hx
                · cases k' <;> first | (simpa [parseItem] using hx) | simp [rank] at hk
              | _ => simpa [parseItem] using hx
      | lpar => simpa [parseItem] using hx
      | rpar => simpa [parseItem] using hx
      | lit w => simpa [parseItem] using hx
      | kw k => simpa [parseItem] using hx

/-! ## ORDER BY items, LIMIT, OFFSET -/

theorem parseDir_skip {ts : List (Tok α)} (h : Sep ts) : parseDir ts = (.none, ts) := by
  cases ts with
  | nil => rfl
  | cons t tl =>
    cases t with
    | kw k =>
      rcases sep_kw h rfl with rfl | hk
      · rfl
      · cases k <;> first | rfl | simp [rank] at hk
    | _ => rfl

theorem parseNulls_skip {ts : List (Tok α)} (h : Sep ts) : parseNulls ts = some (.none, ts) := by
  cases ts with
  | nil => rfl
  | cons t tl =>
    cases t with
    | kw k =>
      rcases sep_kw h rfl with rfl | hk
      · rfl
      · cases k <;> first | rfl | simp [rank] at hk
    | _ => rfl

@[simp] theorem parseDir_asc (r : List (Tok α)) : parseDir (.kw .asc :: r) = (.asc, r) := rfl
@[simp] theorem parseDir_desc (r : List (Tok α)) : parseDir (.kw .desc :: r) = (.desc, r) := rfl
@[simp] theorem parseDir_nulls (r : List (Tok α)) : parseDir (.kw .nulls :: r) = (.none, .kw .nulls :: r) := rfl
@[simp] theorem parseNulls_first (r : List (Tok α)) : parseNulls (.kw .nulls :: .kw .first :: r) = some (.first, r) := rfl
@[simp] theorem parseNulls_last (r : List (Tok α)) : parseNulls (.kw .nulls :: .kw .last :: r) = some (.last, r) := rfl

theorem parseOrderItem_print (o : OrderItem α) (hw : WellFormed tbl o.e) (rest : List (Tok α)) (hr : Sep rest) :
    parseOrderItem tbl (printOrderItem tbl o ++ rest) = some (o, rest) := by
  obtain ⟨e, d, nl⟩ := o
  have e1 : printOrderItem tbl ⟨e, d, nl⟩ ++ rest = print tbl e ++ (printDir d ++ (printNulls nl ++ rest)) := by
    simp [printOrderItem]
  rw [e1]
  have hns : NotSym (printDir (α := α) d ++ (printNulls nl ++ rest)) := by
    cases d <;> cases nl <;> simp [printDir, printNulls, NotSym] <;> exact notSym_of_sep hr
  simp only [parseOrderItem, parseExpr_print tbl e hw _ hns]
  cases d <;> cases nl <;>
    simp [printDir, printNulls, parseDir_skip hr, parseNulls_skip hr]

theorem parseLimUnit_skip {ts : List (Tok α)} (h : Sep ts) : parseLimUnit ts = (.none, ts) := by
  cases ts with
  | nil => rfl
  | cons t tl =>
    cases t with
    | kw k =>
      rcases sep_kw h rfl with rfl | hk
      · rfl
      · cases k <;> first | rfl | simp [rank] at hk
    | _ => rfl

theorem parseLimRestr_skip {ts : List (Tok α)} (h : Sep ts) : parseLimRestr ts = some (.none, ts) := by
  cases ts with
  | nil => rfl
  | cons t tl =>
    cases t with
    | kw k =>
      rcases sep_kw h rfl with rfl | hk
      · rfl
      · cases k <;> first | rfl | simp [rank] at hk
    | _ => rfl

theorem parseOffUnit_skip {ts : List (Tok α)} (h : Sep ts) : parseOffUnit ts = (.none, ts) := by
  cases ts with
  | nil => rfl
  | cons t tl =>
    cases t with
    | kw k =>
      rcases sep_kw h rfl with rfl | hk
      · rfl
      · cases k <;> first | rfl | simp [rank] at hk
    | _ => rfl

@[simp] theorem parseLimUnit_percent (r : List (Tok α)) : parseLimUnit (.kw .percent :: r) = (.percent, r) := rfl
@[simp] theorem parseLimUnit_row (r : List (Tok α)) : parseLimUnit (.kw .row :: r) = (.row, r) := rfl
@[simp] theorem parseLimUnit_rows (r : List (Tok α)) : parseLimUnit (.kw .rows :: r) = (.rows, r) := rfl
@[simp] theorem parseLimUnit_only (r : List (Tok α)) : parseLimUnit (.kw .only :: r) = (.none, .kw .only :: r) := rfl
@[simp] theorem parseLimUnit_with (r : List (Tok α)) : parseLimUnit (.kw .with :: r) = (.none, .kw .with :: r) := rfl
@[simp] theorem parseLimRestr_only (r : List (Tok α)) : parseLimRestr (.kw .only :: r) = some (.only, r) := rfl
@[simp] theorem parseLimRestr_ties (r : List (Tok α)) : parseLimRestr (.kw .with :: .kw .ties :: r) = some (.ties, r) := rfl
@[simp] theorem parseOffUnit_row (r : List (Tok α)) : parseOffUnit (.kw .row :: r) = (.row, r) := rfl
@[simp] theorem parseOffUnit_rows (r : List (Tok α)) : parseOffUnit (.kw .rows :: r) = (.rows, r) := rfl

theorem parseOptLimit_print (l : Limit) (hw : isNum l.value = true) (rest : List (Tok α)) (hr : Sep rest) :
    parseOptLimit (printLimit l ++ rest) = some (some l, rest) := by
  obtain ⟨v, u, x⟩ := l
  simp only at hw
  cases u <;> cases x <;>
    simp [printLimit, printLimUnit, printLimRestr, parseOptLimit, hw, parseLimUnit_skip hr, parseLimRestr_skip hr]

theorem parseOptLimit_skip {ts : List (Tok α)} (h : After 7 ts) : parseOptLimit ts = some (none, ts) := by
  cases ts with
  | nil => rfl
  | cons t tl =>
    cases t with
    | kw k => cases k <;> first | rfl | simp [After, rank] at h
    | _ => rfl

theorem parseOptOffset_print (o : Offset) (hw : isNum o.value = true) (rest : List (Tok α)) (hr : Sep rest) :
    parseOptOffset (printOffset o ++ rest) = some (some o, rest) := by
  obtain ⟨v, u⟩ := o
  simp only at hw
  cases u <;> simp [printOffset, printOffUnit, parseOptOffset, hw, parseOffUnit_skip hr]

theorem parseOptOffset_skip {ts : List (Tok α)} (h : After 8 ts) : parseOptOffset ts = some (none, ts) := by
  cases ts with
  | nil => rfl
  | cons t tl =>
    cases t with
    | kw k => cases k <;> first | rfl | simp [After, rank] at h
    | _ => rfl

/-! ## joins -/

/-- `[INNER]` with no direction, or a direction with `[OUTER]` -/
def WFKind (d : JDir) (k : JTyp) : Prop :=
  (d = .none ∧ (k = .none ∨ k = .inner)) ∨ (d ≠ .none ∧ (k = .none ∨ k = .outer))

def WFCond : JoinCond α → Prop
  | .none => False
  | .on e => WellFormed tbl e
  | .cols cols => cols ≠ [] ∧ ∀ c ∈ cols, isId c = true

/-- the Join nodes the grammar builds: CROSS JOIN without condition; NATURAL joins without condition; the others with one -/
def WFJoin (j : JoinStep α) : Prop :=
  WFAtom j.table ∧
  ((j.typ = .cross ∧ j.natural = false ∧ j.dir = .none ∧ j.cond = .none) ∨
   (WFKind j.dir j.typ ∧ ((j.natural = true ∧ j.cond = .none) ∨ (j.natural = false ∧ WFCond tbl j.cond))))

theorem parseJoinKind_print (d : JDir) (k : JTyp) (h : WFKind d k) (r : List (Tok α)) :
    parseJoinKind (printJDir d ++ (printJTyp k ++ (.kw .join :: r))) = some ((d, k), r) := by
  rcases h with ⟨rfl, rfl | rfl⟩ | ⟨hd, rfl | rfl⟩
  · rfl
  · rfl
  · cases d <;> first | rfl | exact absurd rfl hd
  · cases d <;> first | rfl | exact absurd rfl hd

theorem parseAtomTok_print (c : Nat) (hc : isId c = true) (rest : List (Tok α)) :
    parseAtomTok ([Tok.atom c] ++ rest) = some (c, rest) := by
  simp [parseAtomTok, hc]

theorem parseJoinCond_print (c : JoinCond α) (hw : WFCond tbl c) (rest : List (Tok α)) (hr : NotSym rest) :
    parseJoinCond tbl (printJoinCond tbl c ++ rest) = some (c, rest) := by
  cases c with
  | none => exact absurd hw (by simp [WFCond])
  | on e =>
    have e1 : printJoinCond tbl (.on e) ++ rest = .kw .on :: (print tbl e ++ rest) := by simp [printJoinCond]
    rw [e1]
    simp [parseJoinCond, parseExpr_print tbl e hw rest hr]
  | cols cols =>
    obtain ⟨hne, hid⟩ := hw
    have e1 : printJoinCond tbl (.cols cols) ++ rest =
        .kw .using :: .lpar :: (printSep (fun c => [Tok.atom c]) cols ++ (.rpar :: rest)) := by simp [printJoinCond]
    rw [e1]
    have hl := printSep_length_pos (α := α) (fun c => [Tok.atom c]) (by intro x; simp) cols
    have := parseSep_print (α := α) parseAtomTok (fun c => [Tok.atom c]) cols hne
      (fun c hc rest' _ => parseAtomTok_print c (hid c hc) rest') (Tok.rpar :: rest) 1 (Nat.le_refl 1) (by simp [After])
      ((printSep (fun c => [Tok.atom c]) cols).length + (rest.length + 1)) (by omega)
    simp [parseJoinCond, this]

theorem joinStarts_print (j : JoinStep α) (hw : WFJoin tbl j) (r : List (Tok α)) :
    joinStarts (printJoinStep tbl j ++ r) = true := by
  obtain ⟨nat, d, k, t, c⟩ := j
  obtain ⟨_, h⟩ := hw
  simp only at h
  rcases h with ⟨rfl, rfl, rfl, rfl⟩ | ⟨hk, _⟩
  · simp [printJoinStep, printJDir, printJTyp, joinStarts]
  · cases nat
    · rcases hk with ⟨rfl, rfl | rfl⟩ | ⟨hd, rfl | rfl⟩
      · simp [printJoinStep, printJDir, printJTyp, joinStarts]
      · simp [printJoinStep, printJDir, printJTyp, joinStarts]
      · cases d <;> first | exact absurd rfl hd | simp [printJoinStep, printJDir, printJTyp, joinStarts]
      · cases d <;> first | exact absurd rfl hd | simp [printJoinStep, printJDir, printJTyp, joinStarts]
    · simp [printJoinStep, joinStarts]

theorem joinStarts_sep {ts : List (Tok α)} (h : Sep ts) : joinStarts ts = false := by
  cases ts with
  | nil => rfl
  | cons t tl =>
    cases t with
    | kw k =>
      rcases sep_kw h rfl with rfl | hk
      · rfl
      · cases k <;> first | rfl | simp [rank] at hk
    | _ => rfl

/-- what may follow a join: not an operator (after ON expr), not an identifier or AS (after a table) -/
def JoinFollow (ts : List (Tok α)) : Prop := NotSym ts ∧ NoAtomAs ts

theorem joinFollow_of_sep {ts : List (Tok α)} (h : Sep ts) : JoinFollow ts := ⟨notSym_of_sep h, noAtomAs_of_sep h⟩

theorem parseJoinStep_print (j : JoinStep α) (hw : WFJoin tbl j) (rest : List (Tok α)) (hr : JoinFollow rest) :
    parseJoinStep tbl (printJoinStep tbl j ++ rest) = some (j, rest) := by
  obtain ⟨nat, d, k, t, c⟩ := j
  obtain ⟨ht, h⟩ := hw
  simp only at ht h
  rcases h with ⟨rfl, rfl, rfl, rfl⟩ | ⟨hk, hc⟩
  · -- CROSS JOIN table
    have e1 : printJoinStep tbl ⟨false, .none, .cross, t, .none⟩ ++ rest = .kw .cross :: .kw .join :: (printTableAtom t ++ rest) := by
      simp [printJoinStep, printJDir, printJTyp, printJoinCond]
    rw [e1]
    simp [parseJoinStep, parseTableAtom_print t ht rest hr.2]
  · rcases hc with ⟨rfl, rfl⟩ | ⟨rfl, hcw⟩
    · -- NATURAL … JOIN table
      have e1 : printJoinStep tbl ⟨true, d, k, t, .none⟩ ++ rest =
          .kw .natural :: (printJDir d ++ (printJTyp k ++ (.kw .join :: (printTableAtom t ++ rest)))) := by
        simp [printJoinStep, printJoinCond]
      rw [e1]
      simp [parseJoinStep, parseJoinKind_print d k hk, parseTableAtom_print t ht rest hr.2]
    · -- … JOIN table condition
      have hcf : NoAtomAs (printJoinCond tbl c ++ rest) := by
        cases c with
        | none => exact absurd hcw (by simp [WFCond])
        | on e => simp [printJoinCond, NoAtomAs]
        | cols cols => simp [printJoinCond, NoAtomAs]
      have e1 : printJoinStep tbl ⟨false, d, k, t, c⟩ ++ rest =
          printJDir d ++ (printJTyp k ++ (.kw .join :: (printTableAtom t ++ (printJoinCond tbl c ++ rest)))) := by
        simp [printJoinStep]
      rw [e1]
      have hkind := parseJoinKind_print (α := α) d k hk (printTableAtom t ++ (printJoinCond tbl c ++ rest))
      have htab := parseTableAtom_print (α := α) t ht (printJoinCond tbl c ++ rest) hcf
      have hcond := parseJoinCond_print tbl c hcw rest hr.1
      rcases hk with ⟨rfl, rfl | rfl⟩ | ⟨hd, rfl | rfl⟩
      · simp only [printJDir, printJTyp, List.nil_append] at hkind ⊢
        simp [parseJoinStep, hkind, htab, hcond]
      · simp only [printJDir, printJTyp, List.nil_append, List.cons_append] at hkind ⊢
        simp [parseJoinStep, hkind, htab, hcond]
      · cases d with
        | none => exact absurd rfl hd
        | left => simp only [printJDir, printJTyp, List.nil_append, List.cons_append] at hkind ⊢; simp [parseJoinStep, hkind, htab, hcond]
        | right => simp only [printJDir, printJTyp, List.nil_append, List.cons_append] at hkind ⊢; simp [parseJoinStep, hkind, htab, hcond]
        | full => simp only [printJDir, printJTyp, List.nil_append, List.cons_append] at hkind ⊢; simp [parseJoinStep, hkind, htab, hcond]
      · cases d with
        | none => exact absurd rfl hd
        | left => simp only [printJDir, printJTyp, List.nil_append, List.cons_append] at hkind ⊢; simp [parseJoinStep, hkind, htab, hcond]
        | right => simp only [printJDir, printJTyp, List.nil_append, List.cons_append] at hkind ⊢; simp [parseJoinStep, hkind, htab, hcond]
        | full => simp only [printJDir, printJTyp, List.nil_append, List.cons_append] at hkind ⊢; simp [parseJoinStep, hkind, htab, hcond]

theorem joinFollow_joinStep (j : JoinStep α) (hw : WFJoin tbl j) (r : List (Tok α)) :
    JoinFollow (printJoinStep tbl j ++ r) := by
  have h := joinStarts_print tbl j hw r
  generalize printJoinStep tbl j ++ r = ts at h
  cases ts with
  | nil => simp [joinStarts] at h
  | cons t tl =>
    cases t with
    | kw k => cases k <;> simp_all [joinStarts, JoinFollow, NotSym, NoAtomAs]
    | _ => simp [joinStarts] at h

theorem parseJoins_print : ∀ (js : List (JoinStep α)), (∀ j ∈ js, WFJoin tbl j) →
    ∀ (rest : List (Tok α)), Sep rest → ∀ n, js.length + 1 ≤ n →
      parseJoins tbl n (printJoins tbl js ++ rest) = some (js, rest)
  | [], _, rest, hr, n, hn => by
    obtain ⟨m, rfl⟩ : ∃ m, n = m + 1 := ⟨n - 1, by omega⟩
    simp [printJoins, parseJoins, joinStarts_sep hr]
  | j :: js, hw, rest, hr, n, hn => by
    obtain ⟨m, rfl⟩ : ∃ m, n = m + 1 := ⟨n - 1, by omega⟩
    have ih := parseJoins_print js (fun x hx => hw x (by simp [hx])) rest hr m (by simp at hn ⊢; omega)
    have hf : JoinFollow (printJoins tbl js ++ rest) := by
      cases js with
      | nil => simpa [printJoins] using joinFollow_of_sep hr
      | cons j2 js2 =>
        have := joinFollow_joinStep tbl j2 (hw j2 (by simp)) (printJoins tbl js2 ++ rest)
        simpa [printJoins] using this
    have e1 : printJoins tbl (j :: js) ++ rest = printJoinStep tbl j ++ (printJoins tbl js ++ rest) := by simp [printJoins]
    rw [e1]
    simp only [parseJoins, joinStarts_print tbl j (hw j (by simp)), if_true,
      parseJoinStep_print tbl j (hw j (by simp)) _ hf, ih]

theorem printJoinStep_ne_nil (j : JoinStep α) : printJoinStep tbl j ≠ [] := by
  obtain ⟨nat, d, k, t, c⟩ := j
  cases nat <;> cases d <;> cases k <;> simp [printJoinStep, printJDir, printJTyp]

theorem printJoins_length (js : List (JoinStep α)) : js.length ≤ (printJoins tbl js).length := by
  induction js with
  | nil => simp [printJoins]
  | cons j js ih =>
    have := printJoinStep_ne_nil tbl j
    cases h : printJoinStep tbl j with
    | nil => exact absurd h this
    | cons a b => simp [printJoins, h]; omega

def WFRef (r : TableRef α) : Prop := WFAtom r.base ∧ ∀ j ∈ r.joins, WFJoin tbl j

theorem parseTableRef_print (r : TableRef α) (hw : WFRef tbl r) (rest : List (Tok α)) (hr : Sep rest) :
    parseTableRef tbl (printTableRef tbl r ++ rest) = some (r, rest) := by
  obtain ⟨b, js⟩ := r
  obtain ⟨hb, hj⟩ := hw
  simp only at hb hj
  have hf : NoAtomAs (printJoins tbl js ++ rest) := by
    cases js with
    | nil => simpa [printJoins] using noAtomAs_of_sep hr
    | cons j2 js2 =>
      have := (joinFollow_joinStep tbl j2 (hj j2 (by simp)) (printJoins tbl js2 ++ rest)).2
      simpa [printJoins] using this
  have e1 : printTableRef tbl ⟨b, js⟩ ++ rest = printTableAtom b ++ (printJoins tbl js ++ rest) := by simp [printTableRef]
  rw [e1]
  have hl := printJoins_length tbl js
  simp only [parseTableRef, parseTableAtom_print b hb _ hf,
    parseJoins_print tbl js hj rest hr ((printJoins tbl js ++ rest).length + 1) (by simp; omega)]

/-! ## the optional clauses -/

theorem parseOptExprClause_print (k : Kw) (e : Expr α) (hw : WellFormed tbl e) (rest : List (Tok α)) (hr : Sep rest) :
    parseOptExprClause tbl k (printOptClause [.kw k] tbl (some e) ++ rest) = some (some e, rest) := by
  have e1 : printOptClause [Tok.kw k] tbl (some e) ++ rest = .kw k :: (print tbl e ++ rest) := by simp [printOptClause]
  rw [e1]
  simp [parseOptExprClause, parseExpr_print tbl e hw rest (notSym_of_sep hr)]

theorem parseOptExprClause_skip (k : Kw) {ts : List (Tok α)} {i : Nat} (h : After i ts) (hk : rank k < i) :
    parseOptExprClause tbl k ts = some (none, ts) := by
  cases ts with
  | nil => rfl
  | cons t tl =>
    cases t with
    | kw k' =>
      have : k' ≠ k := by
        intro e; subst e; simp [After] at h; omega
      simp [parseOptExprClause, this]
    | _ => rfl

def WFSelect (s : Select α) : Prop :=
  s.items ≠ [] ∧ (∀ it ∈ s.items, WFItem tbl it) ∧
  s.tables.length ≤ 2 ∧ (∀ r ∈ s.tables, WFRef tbl r) ∧
  (∀ e, s.where_ = some e → WellFormed tbl e) ∧
  (∀ e ∈ s.groupBy, WellFormed tbl e) ∧
  (∀ e, s.having = some e → WellFormed tbl e) ∧
  (∀ o ∈ s.orderBy, WellFormed tbl o.e) ∧
  (∀ l, s.limit = some l → isNum l.value = true) ∧
  (∀ o, s.offset = some o → isNum o.value = true)

theorem after_kw (k : Kw) (i : Nat) (tl : List (Tok α)) (h1 : 0 < rank k) (h2 : i ≤ rank k) : After i (.kw k :: tl) := by
  simp [After, h1, h2]

theorem printItem_ne_nil (it : Item α) : printItem tbl it ≠ [] := by
  cases it with
  | star => simp [printItem]
  | tstar t => simp [printItem]
  | expr e al =>
    have := print_ne_nil tbl e
    cases h : print tbl e with
    | nil => exact absurd h this
    | cons a b => simp [printItem, h]

theorem printOrderItem_ne_nil (o : OrderItem α) : printOrderItem tbl o ≠ [] := by
  have := print_ne_nil tbl o.e
  cases h : print tbl o.e with
  | nil => exact absurd h this
  | cons a b => simp [printOrderItem, h]

/-! ## the clause tails: each optional clause either starts with its keyword or is absent -/

theorem after_optOffset (o : Option Offset) {rest : List (Tok α)} (h : After 8 rest) : After 7 (printOptOffset (α := α) o ++ rest) := by
  cases o with
  | none => simpa [printOptOffset] using after_mono (by omega) h
  | some o => simp [printOptOffset, printOffset, After, rank]

theorem after_optLimit (l : Option Limit) {rest : List (Tok α)} (h : After 7 rest) : After 6 (printOptLimit (α := α) l ++ rest) := by
  cases l with
  | none => simpa [printOptLimit] using after_mono (by omega) h
  | some l => simp [printOptLimit, printLimit, After, rank]

theorem after_listClause {β : Type} (k : Kw) (kws : List (Tok α)) (pr : β → List (Tok α)) (xs : List β) (i : Nat)
    (h1 : 0 < rank k) (h2 : i ≤ rank k) {rest : List (Tok α)} (h : After (i + 1) rest) :
    After i (printListClause (.kw k :: kws) pr xs ++ rest) := by
  cases xs with
  | nil => simpa [printListClause] using after_mono (by omega) h
  | cons x xs => simp [printListClause, After, h1, h2]

theorem after_optClause (k : Kw) (e : Option (Expr α)) (i : Nat)
    (h1 : 0 < rank k) (h2 : i ≤ rank k) {rest : List (Tok α)} (h : After (i + 1) rest) :
    After i (printOptClause [.kw k] tbl e ++ rest) := by
  cases e with
  | none => simpa [printOptClause] using after_mono (by omega) h
  | some e => simp [printOptClause, After, h1, h2]

theorem parseOptOffset_tail (o : Option Offset) (hw : ∀ x, o = some x → isNum x.value = true) (rest : List (Tok α))
    (hr : After 8 rest) : parseOptOffset (printOptOffset o ++ rest) = some (o, rest) := by
  cases o with
  | none => simpa [printOptOffset] using parseOptOffset_skip hr
  | some x => simpa [printOptOffset] using parseOptOffset_print x (hw x rfl) rest (sep_of_after (by omega) hr)

theorem parseOptLimit_tail (l : Option Limit) (hw : ∀ x, l = some x → isNum x.value = true) (rest : List (Tok α))
    (hr : After 7 rest) : parseOptLimit (printOptLimit l ++ rest) = some (l, rest) := by
  cases l with
  | none => simpa [printOptLimit] using parseOptLimit_skip hr
  | some x => simpa [printOptLimit] using parseOptLimit_print x (hw x rfl) rest (sep_of_after (by omega) hr)

theorem parseOptExprClause_tail (k : Kw) (e : Option (Expr α)) (hw : ∀ x, e = some x → WellFormed tbl x)
    (rest : List (Tok α)) (i : Nat) (hi : rank k < i) (hr : After i rest) :
    parseOptExprClause tbl k (printOptClause [.kw k] tbl e ++ rest) = some (e, rest) := by
  cases e with
  | none => simpa [printOptClause] using parseOptExprClause_skip tbl k hr hi
  | some x => exact parseOptExprClause_print tbl k x (hw x rfl) rest (sep_of_after (by omega) hr)

theorem parseOptOrderBy_tail (xs : List (OrderItem α)) (hw : ∀ o ∈ xs, WellFormed tbl o.e) (rest : List (Tok α))
    (hr : After 6 rest) :
    parseOptOrderBy tbl (printListClause [.kw .order, .kw .by] (printOrderItem tbl) xs ++ rest) = some (xs, rest) := by
  cases xs with
  | nil =>
    simp only [printListClause, List.nil_append]
    cases rest with
    | nil => rfl
    | cons t tl =>
      cases t with
      | kw k => cases k <;> first | rfl | simp [After, rank] at hr
      | _ => rfl
  | cons x xs =>
    have hl := printSep_length_pos (printOrderItem tbl) (printOrderItem_ne_nil tbl) (x :: xs)
    have := parseSep_print (parseOrderItem tbl) (printOrderItem tbl) (x :: xs) (by simp)
      (fun o ho rest' hs => parseOrderItem_print tbl o (hw o ho) rest' hs) rest 6 (by omega) hr
      ((printSep (printOrderItem tbl) (x :: xs)).length + rest.length) (by omega)
    simp [printListClause, parseOptOrderBy, this]

theorem parseOptGroupBy_tail (xs : List (Expr α)) (hw : ∀ e ∈ xs, WellFormed tbl e) (rest : List (Tok α))
    (hr : After 4 rest) :
    parseOptGroupBy tbl (printListClause [.kw .group, .kw .by] (print tbl) xs ++ rest) = some (xs, rest) := by
  cases xs with
  | nil =>
    simp only [printListClause, List.nil_append]
    cases rest with
    | nil => rfl
    | cons t tl =>
      cases t with
      | kw k => cases k <;> first | rfl | simp [After, rank] at hr
      | _ => rfl
  | cons x xs =>
    have hl := printSep_length_pos (print tbl) (print_ne_nil tbl) (x :: xs)
    have := parseSep_print (parseExpr tbl) (print tbl) (x :: xs) (by simp)
      (fun e he rest' hs => parseExpr_print tbl e (hw e he) rest' (notSym_of_sep hs)) rest 4 (by omega) hr
      ((printSep (print tbl) (x :: xs)).length + rest.length) (by omega)
    simp [printListClause, parseOptGroupBy, this]

theorem parseOptFrom_tail (xs : List (TableRef α)) (hlen : xs.length ≤ 2) (hw : ∀ r ∈ xs, WFRef tbl r)
    (rest : List (Tok α)) (hr : After 2 rest) :
    parseOptFrom tbl (printListClause [.kw .from] (printTableRef tbl) xs ++ rest) = some (xs, rest) := by
  have hsep : Sep rest := sep_of_after (by omega) hr
  match xs, hlen, hw with
  | [], _, _ =>
    simp only [printListClause, List.nil_append]
    cases rest with
    | nil => rfl
    | cons t tl =>
      cases t with
      | kw k => cases k <;> first | rfl | simp [After, rank] at hr
      | _ => rfl
  | [a], _, hw =>
    have ha := parseTableRef_print tbl a (hw a (by simp)) rest hsep
    simp only [printListClause, printSep, List.cons_append, List.nil_append, parseOptFrom, ha]
    cases rest with
    | nil => rfl
    | cons t tl =>
      cases t with
      | kw k => cases k <;> first | rfl | exact absurd rfl (after_not_comma hr tl)
      | _ => rfl
  | [a, b], _, hw =>
    have hb := parseTableRef_print tbl b (hw b (by simp)) rest hsep
    have ha := parseTableRef_print tbl a (hw a (by simp)) (.kw .comma :: (printTableRef tbl b ++ rest)) (sep_comma _)
    have e1 : printListClause [Tok.kw .from] (printTableRef tbl) [a, b] ++ rest =
        .kw .from :: (printTableRef tbl a ++ (.kw .comma :: (printTableRef tbl b ++ rest))) := by
      simp [printListClause, printSep]
    rw [e1]
    simp only [parseOptFrom, ha, hb]
  | _ :: _ :: _ :: _, hlen, _ => simp at hlen

theorem items_head_not_distinct (xs : List (Item α)) (hne : xs ≠ []) (hw : ∀ it ∈ xs, WFItem tbl it) (r : List (Tok α)) :
    parseDistinct (printSep (printItem tbl) xs ++ r) = (false, printSep (printItem tbl) xs ++ r) := by
  cases xs with
  | nil => exact absurd rfl hne
  | cons x xs =>
    have hx : ∃ a tl, printItem tbl x = a :: tl ∧ isKw a = false := by
      cases x with
      | star => exact ⟨_, _, rfl, rfl⟩
      | tstar t => exact ⟨_, _, rfl, rfl⟩
      | expr e al =>
        obtain ⟨a, tl, hp, hk⟩ := print_head_noKw tbl e
        refine ⟨a, tl ++ (match al with | some x => [Tok.kw .as, .atom x] | none => []), ?_, hk⟩
        cases al <;> simp [printItem, hp]
    obtain ⟨a, tl, ha, hk⟩ := hx
    have : ∃ tl', printSep (printItem tbl) (x :: xs) ++ r = a :: tl' := by
      cases xs with
      | nil => exact ⟨tl ++ r, by simp [printSep, ha]⟩
      | cons y ys => exact ⟨tl ++ (.kw .comma :: printSep (printItem tbl) (y :: ys)) ++ r, by simp [printSep, ha]⟩
    obtain ⟨tl', e⟩ := this
    rw [e]
    cases a with
    | kw k => simp [isKw] at hk
    | _ => rfl

/-- the SELECT skeleton is read back: `parseSelect (printSelect s ++ rest) = some (s, rest)` whenever the rest cannot
    continue the query (nothing, `)`, or a set operator) -/
theorem parseSelect_print (s : Select α) (hw : WFSelect tbl s) (rest : List (Tok α)) (hr : After 8 rest) :
    parseSelect tbl (printSelect tbl s ++ rest) = some (s, rest) := by
  obtain ⟨dist, items, tabs, wh, gb, hv, ob, lim, off⟩ := s
  obtain ⟨hne, hit, hlen, htab, hwh, hgb, hhv, hob, hlim, hoff⟩ := hw
  simp only at hne hit hlen htab hwh hgb hhv hob hlim hoff
  -- the tails, innermost first
  have a7 := after_optOffset off hr
  have a6 := after_optLimit lim a7
  have a5 := after_listClause .order [Tok.kw .by] (printOrderItem tbl) ob 5 (by simp [rank]) (by simp [rank]) a6
  have a4 := after_optClause tbl .having hv 4 (by simp [rank]) (by simp [rank]) a5
  have a3 := after_listClause .group [Tok.kw .by] (print tbl) gb 3 (by simp [rank]) (by simp [rank]) a4
  have a2 := after_optClause tbl .where wh 2 (by simp [rank]) (by simp [rank]) a3
  have a1 := after_listClause .from [] (printTableRef tbl) tabs 1 (by simp [rank]) (by simp [rank]) a2
  have p8 := parseOptOffset_tail off hoff rest hr
  have p7 := parseOptLimit_tail lim hlim _ a7
  have p6 := parseOptOrderBy_tail tbl ob hob _ a6
  have p5 := parseOptExprClause_tail tbl .having hv hhv _ 5 (by simp [rank]) a5
  have p4 := parseOptGroupBy_tail tbl gb hgb _ a4
  have p3 := parseOptExprClause_tail tbl .where wh hwh _ 3 (by simp [rank]) a3
  have p2 := parseOptFrom_tail tbl tabs hlen htab _ a2
  have hl := printSep_length_pos (printItem tbl) (printItem_ne_nil tbl) items
  have p1 := parseSep_print (parseItem tbl) (printItem tbl) items hne
    (fun it h rest' hs => parseItem_print tbl it (hit it h) rest' hs) _ 1 (Nat.le_refl 1) a1
  have e1 : printSelect tbl ⟨dist, items, tabs, wh, gb, hv, ob, lim, off⟩ ++ rest =
      .kw .select :: ((if dist then [Tok.kw .distinct] else []) ++ (printSep (printItem tbl) items ++
        (printListClause [Tok.kw .from] (printTableRef tbl) tabs ++ (printOptClause [Tok.kw .where] tbl wh ++
        (printListClause [Tok.kw .group, Tok.kw .by] (print tbl) gb ++ (printOptClause [Tok.kw .having] tbl hv ++
        (printListClause [Tok.kw .order, Tok.kw .by] (printOrderItem tbl) ob ++ (printOptLimit lim ++ (printOptOffset off ++ rest))))))))) := by
    simp [printSelect]
  rw [e1]
  have hd : parseDistinct ((if dist then [Tok.kw (α := α) .distinct] else []) ++ (printSep (printItem tbl) items ++
        (printListClause [Tok.kw .from] (printTableRef tbl) tabs ++ (printOptClause [Tok.kw .where] tbl wh ++
        (printListClause [Tok.kw .group, Tok.kw .by] (print tbl) gb ++ (printOptClause [Tok.kw .having] tbl hv ++
        (printListClause [Tok.kw .order, Tok.kw .by] (printOrderItem tbl) ob ++ (printOptLimit lim ++ (printOptOffset off ++ rest)))))))))
      = (dist, printSep (printItem tbl) items ++
        (printListClause [Tok.kw .from] (printTableRef tbl) tabs ++ (printOptClause [Tok.kw .where] tbl wh ++
        (printListClause [Tok.kw .group, Tok.kw .by] (print tbl) gb ++ (printOptClause [Tok.kw .having] tbl hv ++
        (printListClause [Tok.kw .order, Tok.kw .by] (printOrderItem tbl) ob ++ (printOptLimit lim ++ (printOptOffset off ++ rest)))))))) := by
    cases dist with
    | true => rfl
    | false => simpa using items_head_not_distinct tbl items hne hit _
  simp only [parseSelect, hd]
  rw [p1 _ (by simp; omega)]
  simp only [p2, p3, p4, p5, p6, p7, p8]

/-! ## every parser consumes tokens (`parse_total`) -/

theorem parseSep_len {β : Type} (p : List (Tok α) → Option (β × List (Tok α)))
    (hp : ∀ ts x r, p ts = some (x, r) → r.length < ts.length) :
    ∀ n ts xs r, parseSep p n ts = some (xs, r) → r.length < ts.length
  | 0, _, _, _, h => by simp [parseSep] at h
  | n + 1, ts, xs, r, h => by
    rw [parseSep] at h
    cases hx : p ts with
    | none => simp [hx] at h
    | some q =>
      obtain ⟨x, ts1⟩ := q
      simp only [hx] at h
      have h1 := hp _ _ _ hx
      split at h
      · rename_i ts2
        cases hr : parseSep p n ts2 with
        | none => simp [hr] at h
        | some q2 =>
          obtain ⟨ys, r2⟩ := q2
          simp only [hr, Option.some.injEq, Prod.mk.injEq] at h
          obtain ⟨_, rfl⟩ := h
          have := parseSep_len p hp n ts2 ys _ hr
          simp at h1; omega
      · simp only [Option.some.injEq, Prod.mk.injEq] at h
        obtain ⟨_, rfl⟩ := h
        exact h1

theorem parseTableAtom_len {ts : List (Tok α)} {a : TableAtom} {r : List (Tok α)}
    (h : parseTableAtom ts = some (a, r)) : r.length < ts.length := by
  unfold parseTableAtom at h
  split at h
  · split at h <;> simp at h; obtain ⟨_, rfl⟩ := h; simp; omega
  · simp at h
  · split at h <;> simp at h; obtain ⟨_, rfl⟩ := h; simp; omega
  · split at h <;> simp at h; obtain ⟨_, rfl⟩ := h; simp
  · simp at h

theorem parseItemExpr_len {ts : List (Tok α)} {x : Item α} {r : List (Tok α)}
    (h : parseItemExpr tbl ts = some (x, r)) : r.length < ts.length := by
  unfold parseItemExpr at h
  cases he : parseExpr tbl ts with
  | none => simp [he] at h
  | some q =>
    obtain ⟨e, r1⟩ := q
    have h1 := parseExpr_len tbl he
    simp only [he] at h
    split at h
    · split at h <;> simp at h; obtain ⟨_, rfl⟩ := h; simp at h1; omega
    · simp at h
    · simp at h; obtain ⟨_, rfl⟩ := h; exact h1

theorem parseItem_len {ts : List (Tok α)} {x : Item α} {r : List (Tok α)}
    (h : parseItem tbl ts = some (x, r)) : r.length < ts.length := by
  unfold parseItem at h
  split at h
  · split at h
    · simp at h; obtain ⟨_, rfl⟩ := h; simp
    · exact parseItemExpr_len tbl h
  · split at h <;> simp at h; obtain ⟨_, rfl⟩ := h; simp; omega
  · exact parseItemExpr_len tbl h

theorem parseDir_len (ts : List (Tok α)) : (parseDir ts).2.length ≤ ts.length := by
  unfold parseDir; split <;> simp

theorem parseNulls_len {ts : List (Tok α)} {x : NullsPos} {r : List (Tok α)} (h : parseNulls ts = some (x, r)) :
    r.length ≤ ts.length := by
  unfold parseNulls at h
  split at h <;> simp at h <;> (try (obtain ⟨_, rfl⟩ := h)) <;> simp <;> omega

theorem parseOrderItem_len {ts : List (Tok α)} {x : OrderItem α} {r : List (Tok α)}
    (h : parseOrderItem tbl ts = some (x, r)) : r.length < ts.length := by
  unfold parseOrderItem at h
  cases he : parseExpr tbl ts with
  | none => simp [he] at h
  | some q =>
    obtain ⟨e, r1⟩ := q
    have h1 := parseExpr_len tbl he
    simp only [he] at h
    cases hn : parseNulls (parseDir r1).2 with
    | none => simp [hn] at h
    | some q2 =>
      obtain ⟨n, r2⟩ := q2
      simp only [hn, Option.some.injEq, Prod.mk.injEq] at h
      obtain ⟨_, rfl⟩ := h
      have := parseNulls_len hn
      have := parseDir_len r1
      omega

theorem parseLimUnit_len (ts : List (Tok α)) : (parseLimUnit ts).2.length ≤ ts.length := by
  unfold parseLimUnit; split <;> simp

theorem parseLimRestr_len {ts : List (Tok α)} {x : LimRestr} {r : List (Tok α)} (h : parseLimRestr ts = some (x, r)) :
    r.length ≤ ts.length := by
  unfold parseLimRestr at h
  split at h <;> simp at h <;> (try (obtain ⟨_, rfl⟩ := h)) <;> simp <;> omega

theorem parseOptLimit_len {ts : List (Tok α)} {x : Option Limit} {r : List (Tok α)} (h : parseOptLimit ts = some (x, r)) :
    r.length ≤ ts.length := by
  unfold parseOptLimit at h
  split at h
  · rename_i v r0
    split at h
    · cases hx : parseLimRestr (parseLimUnit r0).2 with
      | none => simp [hx] at h
      | some q =>
        obtain ⟨y, r1⟩ := q
        simp only [hx, Option.some.injEq, Prod.mk.injEq] at h
        obtain ⟨_, rfl⟩ := h
        have := parseLimRestr_len hx
        have := parseLimUnit_len r0
        simp; omega
    · simp at h
  · simp at h
  · simp at h; obtain ⟨_, rfl⟩ := h; simp

theorem parseOffUnit_len (ts : List (Tok α)) : (parseOffUnit ts).2.length ≤ ts.length := by
  unfold parseOffUnit; split <;> simp

theorem parseOptOffset_len {ts : List (Tok α)} {x : Option Offset} {r : List (Tok α)} (h : parseOptOffset ts = some (x, r)) :
    r.length ≤ ts.length := by
  unfold parseOptOffset at h
  split at h
  · rename_i v r0
    split at h
    · simp at h; obtain ⟨_, rfl⟩ := h
      have := parseOffUnit_len r0
      simp; omega
    · simp at h
  · simp at h
  · simp at h; obtain ⟨_, rfl⟩ := h; simp

theorem parseJoinKind_len {ts : List (Tok α)} {x : JDir × JTyp} {r : List (Tok α)} (h : parseJoinKind ts = some (x, r)) :
    r.length < ts.length := by
  unfold parseJoinKind at h
  split at h <;> simp at h <;> (try (obtain ⟨_, rfl⟩ := h)) <;> simp <;> omega

theorem parseAtomTok_len {ts : List (Tok α)} {x : Nat} {r : List (Tok α)} (h : parseAtomTok ts = some (x, r)) :
    r.length < ts.length := by
  unfold parseAtomTok at h
  split at h
  · split at h <;> simp at h; obtain ⟨_, rfl⟩ := h; simp
  · simp at h

theorem parseJoinCond_len {ts : List (Tok α)} {x : JoinCond α} {r : List (Tok α)} (h : parseJoinCond tbl ts = some (x, r)) :
    r.length < ts.length := by
  unfold parseJoinCond at h
  split at h
  · rename_i r0
    cases he : parseExpr tbl r0 with
    | none => simp [he] at h
    | some q =>
      obtain ⟨e, r1⟩ := q
      simp only [he, Option.some.injEq, Prod.mk.injEq] at h
      obtain ⟨_, rfl⟩ := h
      have := parseExpr_len tbl he
      simp; omega
  · rename_i r0
    cases hs : parseSep parseAtomTok r0.length r0 with
    | none => simp [hs] at h
    | some q =>
      obtain ⟨cs, r1⟩ := q
      have := parseSep_len (α := α) parseAtomTok (fun _ _ _ hh => parseAtomTok_len hh) _ _ _ _ hs
      simp only [hs] at h
      split at h
      · rename_i hq
        simp only [Option.some.injEq, Prod.mk.injEq] at hq h
        obtain ⟨_, rfl⟩ := h
        obtain ⟨_, rfl⟩ := hq
        simp at this ⊢; omega
      · simp at h
  · simp at h

theorem parseJoinStep_len {ts : List (Tok α)} {x : JoinStep α} {r : List (Tok α)} (h : parseJoinStep tbl ts = some (x, r)) :
    r.length < ts.length := by
  unfold parseJoinStep at h
  split at h
  · rename_i r0
    cases ht : parseTableAtom r0 with
    | none => simp [ht] at h
    | some q =>
      obtain ⟨t, r1⟩ := q
      simp only [ht, Option.some.injEq, Prod.mk.injEq] at h
      obtain ⟨_, rfl⟩ := h
      have := parseTableAtom_len ht
      simp; omega
  · rename_i r0
    cases hk : parseJoinKind r0 with
    | none => simp [hk] at h
    | some q =>
      obtain ⟨⟨d, k⟩, r1⟩ := q
      simp only [hk] at h
      cases ht : parseTableAtom r1 with
      | none => simp [ht] at h
      | some q2 =>
        obtain ⟨t, r2⟩ := q2
        simp only [ht, Option.some.injEq, Prod.mk.injEq] at h
        obtain ⟨_, rfl⟩ := h
        have := parseJoinKind_len hk
        have := parseTableAtom_len ht
        simp; omega
  · cases hk : parseJoinKind ts with
    | none => simp [hk] at h
    | some q =>
      obtain ⟨⟨d, k⟩, r1⟩ := q
      simp only [hk] at h
      cases ht : parseTableAtom r1 with
      | none => simp [ht] at h
      | some q2 =>
        obtain ⟨t, r2⟩ := q2
        simp only [ht] at h
        cases hc : parseJoinCond tbl r2 with
        | none => simp [hc] at h
        | some q3 =>
          obtain ⟨c, r3⟩ := q3
          simp only [hc, Option.some.injEq, Prod.mk.injEq] at h
          obtain ⟨_, rfl⟩ := h
          have := parseJoinKind_len hk
          have := parseTableAtom_len ht
          have := parseJoinCond_len tbl hc
          omega

theorem parseJoins_len : ∀ n (ts : List (Tok α)) xs r, parseJoins tbl n ts = some (xs, r) → r.length ≤ ts.length
  | 0, _, _, _, h => by simp [parseJoins] at h
  | n + 1, ts, xs, r, h => by
    rw [parseJoins] at h
    split at h
    · cases hj : parseJoinStep tbl ts with
      | none => simp [hj] at h
      | some q =>
        obtain ⟨j, r1⟩ := q
        simp only [hj] at h
        cases hr : parseJoins tbl n r1 with
        | none => simp [hr] at h
        | some q2 =>
          obtain ⟨js, r2⟩ := q2
          simp only [hr, Option.some.injEq, Prod.mk.injEq] at h
          obtain ⟨_, rfl⟩ := h
          have := parseJoinStep_len tbl hj
          have := parseJoins_len n r1 js _ hr
          omega
    · simp at h; obtain ⟨_, rfl⟩ := h; simp

theorem parseTableRef_len {ts : List (Tok α)} {x : TableRef α} {r : List (Tok α)} (h : parseTableRef tbl ts = some (x, r)) :
    r.length < ts.length := by
  unfold parseTableRef at h
  cases ht : parseTableAtom ts with
  | none => simp [ht] at h
  | some q =>
    obtain ⟨b, r1⟩ := q
    simp only [ht] at h
    cases hj : parseJoins tbl (r1.length + 1) r1 with
    | none => simp [hj] at h
    | some q2 =>
      obtain ⟨js, r2⟩ := q2
      simp only [hj, Option.some.injEq, Prod.mk.injEq] at h
      obtain ⟨_, rfl⟩ := h
      have := parseTableAtom_len ht
      have := parseJoins_len tbl _ _ _ _ hj
      omega

theorem parseOptExprClause_len {k : Kw} {ts : List (Tok α)} {x : Option (Expr α)} {r : List (Tok α)}
    (h : parseOptExprClause tbl k ts = some (x, r)) : r.length ≤ ts.length := by
  unfold parseOptExprClause at h
  split at h
  · rename_i k' r0
    split at h
    · cases he : parseExpr tbl r0 with
      | none => simp [he] at h
      | some q =>
        obtain ⟨e, r1⟩ := q
        simp only [he, Option.some.injEq, Prod.mk.injEq] at h
        obtain ⟨_, rfl⟩ := h
        have := parseExpr_len tbl he
        simp; omega
    · simp at h; obtain ⟨_, rfl⟩ := h; simp
  · simp at h; obtain ⟨_, rfl⟩ := h; simp

theorem parseOptFrom_len {ts : List (Tok α)} {x : List (TableRef α)} {r : List (Tok α)}
    (h : parseOptFrom tbl ts = some (x, r)) : r.length ≤ ts.length := by
  unfold parseOptFrom at h
  split at h
  · rename_i r0
    cases h1 : parseTableRef tbl r0 with
    | none => simp [h1] at h
    | some q =>
      obtain ⟨t1, r1⟩ := q
      have l1 := parseTableRef_len tbl h1
      simp only [h1] at h
      have single : some ([t1], r1) = some (x, r) → r.length ≤ (Tok.kw (α := α) .from :: r0).length := by
        intro hh
        simp only [Option.some.injEq, Prod.mk.injEq] at hh
        obtain ⟨_, rfl⟩ := hh
        simp; omega
      cases r1 with
      | nil => exact single h
      | cons t tl =>
        cases t with
        | kw k =>
          by_cases hk : k = .comma
          · subst hk
            simp only at h
            cases h2 : parseTableRef tbl tl with
            | none => simp [h2] at h
            | some q2 =>
              obtain ⟨t2, r3⟩ := q2
              simp only [h2, Option.some.injEq, Prod.mk.injEq] at h
              obtain ⟨_, rfl⟩ := h
              have := parseTableRef_len tbl h2
              simp at l1 ⊢; omega
          · cases k <;> first | exact absurd rfl hk | exact single h
        | _ => exact single h
  · simp at h; obtain ⟨_, rfl⟩ := h; simp

theorem parseOptGroupBy_len {ts : List (Tok α)} {x : List (Expr α)} {r : List (Tok α)}
    (h : parseOptGroupBy tbl ts = some (x, r)) : r.length ≤ ts.length := by
  unfold parseOptGroupBy at h
  split at h
  · rename_i r0
    have := parseSep_len (parseExpr tbl) (fun _ _ _ hh => parseExpr_len tbl hh) _ _ _ _ h
    simp; omega
  · simp at h
  · simp at h; obtain ⟨_, rfl⟩ := h; simp

theorem parseOptOrderBy_len {ts : List (Tok α)} {x : List (OrderItem α)} {r : List (Tok α)}
    (h : parseOptOrderBy tbl ts = some (x, r)) : r.length ≤ ts.length := by
  unfold parseOptOrderBy at h
  split at h
  · rename_i r0
    have := parseSep_len (parseOrderItem tbl) (fun _ _ _ hh => parseOrderItem_len tbl hh) _ _ _ _ h
    simp; omega
  · simp at h
  · simp at h; obtain ⟨_, rfl⟩ := h; simp

theorem parseDistinct_len (ts : List (Tok α)) : (parseDistinct ts).2.length ≤ ts.length := by
  unfold parseDistinct; split <;> simp

/-- `parseSelect` is a total function, and whenever it succeeds it has consumed at least two tokens -/
theorem parseSelect_len {ts : List (Tok α)} {s : Select α} {r : List (Tok α)} (h : parseSelect tbl ts = some (s, r)) :
    r.length + 2 ≤ ts.length := by
  unfold parseSelect at h
  split at h
  · rename_i r0
    cases h1 : parseSep (parseItem tbl) (parseDistinct r0).2.length (parseDistinct r0).2 with
    | none => simp [h1] at h
    | some q1 =>
      obtain ⟨items, r1⟩ := q1
      simp only [h1] at h
      cases h2 : parseOptFrom tbl r1 with
      | none => simp [h2] at h
      | some q2 =>
        obtain ⟨tabs, r2⟩ := q2
        simp only [h2] at h
        cases h3 : parseOptExprClause tbl .where r2 with
        | none => simp [h3] at h
        | some q3 =>
          obtain ⟨wh, r3⟩ := q3
          simp only [h3] at h
          cases h4 : parseOptGroupBy tbl r3 with
          | none => simp [h4] at h
          | some q4 =>
            obtain ⟨gb, r4⟩ := q4
            simp only [h4] at h
            cases h5 : parseOptExprClause tbl .having r4 with
            | none => simp [h5] at h
            | some q5 =>
              obtain ⟨hv, r5⟩ := q5
              simp only [h5] at h
              cases h6 : parseOptOrderBy tbl r5 with
              | none => simp [h6] at h
              | some q6 =>
                obtain ⟨ob, r6⟩ := q6
                simp only [h6] at h
                cases h7 : parseOptLimit r6 with
                | none => simp [h7] at h
                | some q7 =>
                  obtain ⟨lim, r7⟩ := q7
                  simp only [h7] at h
                  cases h8 : parseOptOffset r7 with
                  | none => simp [h8] at h
                  | some q8 =>
                    obtain ⟨off, r8⟩ := q8
                    simp only [h8, Option.some.injEq, Prod.mk.injEq] at h
                    obtain ⟨_, rfl⟩ := h
                    have l1 := parseSep_len (parseItem tbl) (fun _ _ _ hh => parseItem_len tbl hh) _ _ _ _ h1
                    have l0 := parseDistinct_len r0
                    have l2 := parseOptFrom_len tbl h2
                    have l3 := parseOptExprClause_len tbl h3
                    have l4 := parseOptGroupBy_len tbl h4
                    have l5 := parseOptExprClause_len tbl h5
                    have l6 := parseOptOrderBy_len tbl h6
                    have l7 := parseOptLimit_len h7
                    have l8 := parseOptOffset_len h8
                    simp; omega
  · simp at h

end Csvq.Clause
