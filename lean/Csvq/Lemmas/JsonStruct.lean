/-
  Helper lemmas for the JSON structure mapping (Csvq.Model.JsonStruct, theorems in Csvq.Props.C02 section S):
  the code-shaped loaders `convertToTableValue` / `loadJsonLines` are the specification-shaped `tableOf` of
  Csvq.Model.Json; header facts (no repetition, exactly the keys that occur); rectangularity.
-/
import Csvq.Model.JsonStruct
import Csvq.Lemmas.JsonTable
import Csvq.Lemmas.JsonPath
namespace Csvq.Json
open Csvq.Csv (DCell DTable Err)

/-! ## `Object.Exists` / `Object.Value` / `exists` are the searches of the specification -/

theorem objValue_eq_lookupKey (k : List Char) (ms : List (List Char × JS)) : objValue k ms = lookupKey k ms := by
  induction ms with
  | nil => rfl
  | cons m ms ih => obtain ⟨k', v⟩ := m; simp only [objValue, lookupKey, ih]

theorem objExists_eq_isSome (k : List Char) (ms : List (List Char × JS)) :
    objExists k ms = (lookupKey k ms).isSome := by
  induction ms with
  | nil => rfl
  | cons m ms ih =>
    obtain ⟨k', v⟩ := m
    simp only [objExists, lookupKey]
    split
    · rfl
    · exact ih

theorem objExists_iff_mem (k : List Char) (ms : List (List Char × JS)) :
    objExists k ms = true ↔ k ∈ objKeys ms := by
  induction ms with
  | nil => simp [objExists, objKeys]
  | cons m ms ih =>
    obtain ⟨k', v⟩ := m
    simp only [objExists, objKeys, List.map_cons, List.mem_cons]
    split
    · next h => simp [h]
    · next h =>
      rw [ih]
      simp only [objKeys]
      constructor
      · intro hm; exact Or.inr hm
      · intro hm
        rcases hm with rfl | hm
        · exact absurd rfl h
        · exact hm

theorem existsIn_iff_mem (s : List Char) (l : List (List Char)) : existsIn s l = true ↔ s ∈ l := by
  induction l with
  | nil => simp [existsIn]
  | cons v vs ih =>
    simp only [existsIn, List.mem_cons]
    split
    · next h => simp [h]
    · next h => rw [ih]; simp [h]

theorem existsIn_eq_contains (s : List Char) (l : List (List Char)) : existsIn s l = l.contains s := by
  rw [Bool.eq_iff_iff, existsIn_iff_mem]
  simp

/-- a field of the loaders is the cell of the first member of that key, NULL when there is none -/
theorem fieldOf_eq (canon : List Char → Option (List Char)) (ms : List (List Char × JS)) (k : List Char) :
    fieldOf canon ms k = cellOpt canon (lookupKey k ms) := by
  simp only [fieldOf, objExists_eq_isSome, objValue_eq_lookupKey]
  cases lookupKey k ms with
  | none => rfl
  | some v => rfl

/-! ## the header -/

theorem collectKeys_eq_addKeys (h : List (List Char)) (ms : List (List Char × JS)) :
    collectKeys h (objKeys ms) = addKeys h ms := by
  induction ms generalizing h with
  | nil => rfl
  | cons m ms ih =>
    obtain ⟨k, v⟩ := m
    simp only [objKeys, List.map_cons, collectKeys, addKeys, existsIn_eq_contains]
    exact ih _

theorem collectKeys_nodup (h : List (List Char)) (ks : List (List Char)) (hn : h.Nodup) :
    (collectKeys h ks).Nodup := by
  induction ks generalizing h with
  | nil => exact hn
  | cons k ks ih =>
    simp only [collectKeys]
    apply ih
    split
    · exact hn
    · next hk =>
      have : k ∉ h := fun hm => hk ((existsIn_iff_mem k h).mpr hm)
      rw [List.nodup_append]
      refine ⟨hn, by simp, ?_⟩
      intro a ha b hb
      simp at hb
      subst hb
      intro e
      exact this (e ▸ ha)

theorem mem_collectKeys (h : List (List Char)) (ks : List (List Char)) (x : List Char) :
    x ∈ collectKeys h ks ↔ x ∈ h ∨ x ∈ ks := by
  induction ks generalizing h with
  | nil => simp [collectKeys]
  | cons k ks ih =>
    simp only [collectKeys, List.mem_cons]
    rw [ih]
    split
    · next hk =>
      have hm := (existsIn_iff_mem k h).mp hk
      constructor
      · rintro (hx | hx)
        · exact Or.inl hx
        · exact Or.inr (Or.inr hx)
      · rintro (hx | rfl | hx)
        · exact Or.inl hx
        · exact Or.inl hm
        · exact Or.inr hx
    · simp only [List.mem_append, List.mem_singleton]
      constructor
      · rintro ((hx | rfl) | hx)
        · exact Or.inl hx
        · exact Or.inr (Or.inl rfl)
        · exact Or.inr (Or.inr hx)
      · rintro (hx | rfl | hx)
        · exact Or.inl (Or.inl hx)
        · exact Or.inl (Or.inr rfl)
        · exact Or.inr hx

/-- the keys of a list of elements (objects only) -/
def keysOfItems : List JS → List (List Char)
  | [] => []
  | .obj ms :: rest => objKeys ms ++ keysOfItems rest
  | _ :: rest => keysOfItems rest

theorem collectHeader_nodup (h : List (List Char)) (items : List JS) (hd : List (List Char))
    (hn : h.Nodup) (hc : collectHeader h items = some hd) : hd.Nodup := by
  induction items generalizing h with
  | nil => simp only [collectHeader] at hc; injection hc with hc; subst hc; exact hn
  | cons x xs ih =>
    cases x with
    | obj ms => simp only [collectHeader] at hc; exact ih _ (collectKeys_nodup h _ hn) hc
    | null => simp [collectHeader] at hc
    | bool b => simp [collectHeader] at hc
    | str s => simp [collectHeader] at hc
    | num a => simp [collectHeader] at hc
    | arr is => simp [collectHeader] at hc

theorem mem_collectHeader (h : List (List Char)) (items : List JS) (hd : List (List Char))
    (hc : collectHeader h items = some hd) (x : List Char) : x ∈ hd ↔ x ∈ h ∨ x ∈ keysOfItems items := by
  induction items generalizing h with
  | nil => simp only [collectHeader] at hc; injection hc with hc; subst hc; simp [keysOfItems]
  | cons y ys ih =>
    cases y with
    | obj ms =>
      simp only [collectHeader] at hc
      rw [ih _ hc, mem_collectKeys]
      simp only [keysOfItems, List.mem_append]
      constructor
      · rintro ((hx | hx) | hx)
        · exact Or.inl hx
        · exact Or.inr (Or.inl hx)
        · exact Or.inr (Or.inr hx)
      · rintro (hx | hx | hx)
        · exact Or.inl (Or.inl hx)
        · exact Or.inl (Or.inr hx)
        · exact Or.inr hx
    | null => simp [collectHeader] at hc
    | bool b => simp [collectHeader] at hc
    | str s => simp [collectHeader] at hc
    | num a => simp [collectHeader] at hc
    | arr is => simp [collectHeader] at hc

/-- loop 1 succeeds exactly when every element is an object -/
theorem collectHeader_isSome_iff (h : List (List Char)) (items : List JS) :
    (collectHeader h items).isSome = true ↔ ∀ x ∈ items, ∃ ms, x = .obj ms := by
  induction items generalizing h with
  | nil => simp [collectHeader]
  | cons y ys ih =>
    cases y with
    | obj ms =>
      simp only [collectHeader, List.mem_cons]
      rw [ih]
      constructor
      · intro hall x hx
        rcases hx with rfl | hx
        · exact ⟨ms, rfl⟩
        · exact hall x hx
      · intro hall x hx
        exact hall x (Or.inr hx)
    | null => simp [collectHeader]
    | bool b => simp [collectHeader]
    | str s => simp [collectHeader]
    | num a => simp [collectHeader]
    | arr is => simp [collectHeader]

/-- loop 1 = "all elements are objects" + the fold of the specification -/
theorem collectHeader_eq (h : List (List Char)) (items : List JS) :
    collectHeader h items = (mapMOpt membersOf items).map fun objs => objs.foldl addKeys h := by
  induction items generalizing h with
  | nil => rfl
  | cons y ys ih =>
    cases y with
    | obj ms =>
      simp only [collectHeader, mapMOpt, membersOf, collectKeys_eq_addKeys]
      rw [ih]
      cases mapMOpt membersOf ys with
      | none => rfl
      | some objs => rfl
    | null => simp [collectHeader, mapMOpt, membersOf]
    | bool b => simp [collectHeader, mapMOpt, membersOf]
    | str s => simp [collectHeader, mapMOpt, membersOf]
    | num a => simp [collectHeader, mapMOpt, membersOf]
    | arr is => simp [collectHeader, mapMOpt, membersOf]

theorem mapMOpt_eq_mapM {α β : Type} (f : α → Option β) (xs : List α) : mapMOpt f xs = xs.mapM f := by
  induction xs with
  | nil => rfl
  | cons x xs ih =>
    simp only [mapMOpt, List.mapM_cons, ih]
    cases f x with
    | none => rfl
    | some y =>
      cases xs.mapM f with
      | none => rfl
      | some ys => rfl

theorem mapMOpt_membersOf_objs (items : List JS) (objs : List (List (List Char × JS)))
    (h : mapMOpt membersOf items = some objs) : items = objs.map JS.obj := by
  induction items generalizing objs with
  | nil => simp only [mapMOpt] at h; injection h with h; subst h; rfl
  | cons y ys ih =>
    simp only [mapMOpt] at h
    cases hy : membersOf y with
    | none => simp [hy] at h
    | some ms =>
      cases hr : mapMOpt membersOf ys with
      | none => simp [hy, hr] at h
      | some os =>
        simp [hy, hr] at h
        subst h
        cases y with
        | obj ms' => simp only [membersOf] at hy; injection hy with hy; subst hy; simp [ih os hr]
        | null => simp [membersOf] at hy
        | bool b => simp [membersOf] at hy
        | str s => simp [membersOf] at hy
        | num a => simp [membersOf] at hy
        | arr is => simp [membersOf] at hy

theorem mapMOpt_membersOf_map_obj (objs : List (List (List Char × JS))) :
    mapMOpt membersOf (objs.map JS.obj) = some objs := by
  induction objs with
  | nil => rfl
  | cons o os ih => simp [mapMOpt, membersOf, ih]

/-- **`ConvertToTableValue` is `tableOf`** on the members of the elements, an error when an element is no object -/
theorem convertToTableValue_eq (canon : List Char → Option (List Char)) (items : List JS) :
    convertToTableValue canon items
      = match mapMOpt membersOf items with
        | some objs => .ok (tableOf canon objs)
        | none => .error .parse := by
  unfold convertToTableValue
  rw [collectHeader_eq]
  cases hm : mapMOpt membersOf items with
  | none => rfl
  | some objs =>
    have hi := mapMOpt_membersOf_objs items objs hm
    subst hi
    simp only [Option.map, tableOf, List.map_map]
    congr 2
    apply List.map_congr_left
    intro ms _
    simp only [Function.comp, recordOf]
    apply List.map_congr_left
    intro k _
    exact fieldOf_eq canon ms k

/-- the text loader of Csvq.Model.Json = the grammar, then the structure loader -/
theorem decodeJsonToks_factors (canon : List Char → Option (List Char)) (ts : List Tok) :
    decodeJsonToks canon ts
      = match parseToks ts with
        | .ok v => loadTable canon v
        | .error e => .error e := by
  unfold decodeJsonToks
  cases hp : parseToks ts with
  | error e => cases e; rfl
  | ok v =>
    cases v with
    | none => rfl
    | some j =>
      cases j with
      | arr items =>
        simp only [loadTable, convertToTableValue_eq, ← mapMOpt_eq_mapM]
        cases mapMOpt membersOf items <;> rfl
      | null => rfl
      | bool b => rfl
      | str s => rfl
      | num a => rfl
      | obj ms => rfl

/-! ## JSON Lines -/

/-- the objects of the lines: blank lines skipped, `none` = a value that is no object -/
def objsOfVals : List (Option JS) → Option (List (List (List Char × JS)))
  | [] => some []
  | none :: ls => objsOfVals ls
  | some (.obj ms) :: ls => (objsOfVals ls).map (ms :: ·)
  | some _ :: _ => none

theorem jlRun_eq (st : JlState) (ls : List (Option JS)) :
    jlRun st ls = match objsOfVals ls with
      | some objs => .ok ⟨objs.foldl addKeys st.header, st.objs ++ objs⟩
      | none => .error .parse := by
  induction ls generalizing st with
  | nil => simp [jlRun, objsOfVals]
  | cons l ls ih =>
    cases l with
    | none => simp only [jlRun, jlStep, objsOfVals]; exact ih st
    | some j =>
      cases j with
      | obj ms =>
        simp only [jlRun, jlStep, objsOfVals]
        rw [ih]
        cases objsOfVals ls with
        | none => rfl
        | some objs => simp [collectKeys_eq_addKeys]
      | null => rfl
      | bool b => rfl
      | str s => rfl
      | num a => rfl
      | arr is => rfl

/-- **`loadViewFromJsonLinesFile` is `tableOf`** on the objects of the lines -/
theorem loadJsonLines_eq (canon : List Char → Option (List Char)) (ls : List (Option JS)) :
    loadJsonLines canon ls
      = match objsOfVals ls with
        | some objs => .ok (tableOf canon objs)
        | none => .error .parse := by
  unfold loadJsonLines
  rw [jlRun_eq]
  cases objsOfVals ls with
  | none => rfl
  | some objs =>
    simp only [tableOf, List.nil_append]
    congr 2
    apply List.map_congr_left
    intro ms _
    apply List.map_congr_left
    intro k _
    exact fieldOf_eq canon ms k

/-- the values of the lines (`none` = a line without a token), an error when a line does not parse -/
def parseLines : List (List Tok) → Except Err (List (Option JS))
  | [] => .ok []
  | l :: ls =>
    match parseToks l with
    | .error e => .error e
    | .ok v =>
      match parseLines ls with
      | .ok vs => .ok (v :: vs)
      | .error e => .error e

theorem decodeJsonlToks_factors (canon : List Char → Option (List Char)) (lines : List (List Tok)) :
    decodeJsonlToks canon lines
      = match parseLines lines with
        | .ok vs => loadJsonLines canon vs
        | .error e => .error e := by
  have key : ∀ lines : List (List Tok),
      objsOfLines lines = match parseLines lines with
        | .ok vs => (match objsOfVals vs with | some objs => .ok objs | none => .error .parse)
        | .error e => .error e := by
    intro lines
    induction lines with
    | nil => rfl
    | cons l ls ih =>
      simp only [objsOfLines, parseLines]
      cases hp : parseToks l with
      | error e => rfl
      | ok v =>
        simp only
        rw [ih]
        cases hq : parseLines ls with
        | error e =>
          cases e
          cases v with
          | none => rfl
          | some j => cases j <;> rfl
        | ok vs =>
          cases v with
          | none => simp [objsOfVals]
          | some j =>
            cases j with
            | obj ms =>
              simp only [objsOfVals]
              cases objsOfVals vs <;> rfl
            | null => rfl
            | bool b => rfl
            | str s => rfl
            | num a => rfl
            | arr is => rfl
  unfold decodeJsonlToks
  rw [key]
  cases parseLines lines with
  | error e => rfl
  | ok vs =>
    simp only [loadJsonLines_eq]
    cases objsOfVals vs <;> rfl

/-! ## rectangularity, directly on the code-shaped loaders -/

theorem recordOf_length (canon : List Char → Option (List Char)) (header : List (List Char)) (x : JS) :
    (recordOf canon header x).length = header.length := by
  cases x <;> simp [recordOf]

/-! ## plain names -/

/-- a column name that is one path segment spelling itself -/
abbrev PlainName (s : List Char) : Prop := parsePath s = some [s]

theorem mapMOpt_parsePath_plain (hd : List (List Char)) (h : ∀ s ∈ hd, PlainName s) :
    mapMOpt parsePath hd = some (hd.map fun s => [s]) := by
  induction hd with
  | nil => rfl
  | cons s ss ih =>
    have hs : parsePath s = some [s] := h s (by simp)
    simp [mapMOpt, hs, ih (fun x hx => h x (by simp [hx]))]

theorem tableStructure_plain (tb : Table) (hn : ∀ s ∈ tb.header, PlainName s)
    (hr : ∀ r ∈ tb.rows, r.length = tb.header.length) :
    tableStructure tb = some (tb.rows.map (rowObj tb.header)) := by
  simp only [tableStructure, mapMOpt_parsePath_plain tb.header hn, mapMOpt_rowObjP_flat tb.header tb.rows hr]

theorem objsOfVals_objs (objs : List (List (List Char × JS))) :
    objsOfVals (objs.map fun ms => some (JS.obj ms)) = some objs := by
  induction objs with
  | nil => rfl
  | cons o os ih => simp [objsOfVals, ih]

theorem objsOfVals_isSome_iff (ls : List (Option JS)) :
    (objsOfVals ls).isSome = true ↔ ∀ l ∈ ls, l = none ∨ ∃ ms, l = some (.obj ms) := by
  induction ls with
  | nil => simp [objsOfVals]
  | cons l ls ih =>
    cases l with
    | none =>
      simp only [objsOfVals, ih, List.mem_cons]
      constructor
      · intro h x hx
        rcases hx with rfl | hx
        · exact Or.inl rfl
        · exact h x hx
      · intro h x hx; exact h x (Or.inr hx)
    | some j =>
      cases j with
      | obj ms =>
        simp only [objsOfVals, Option.isSome_map, ih, List.mem_cons]
        constructor
        · intro h x hx
          rcases hx with rfl | hx
          · exact Or.inr ⟨ms, rfl⟩
          · exact h x hx
        · intro h x hx; exact h x (Or.inr hx)
      | null => simp [objsOfVals]
      | bool b => simp [objsOfVals]
      | str s => simp [objsOfVals]
      | num a => simp [objsOfVals]
      | arr is => simp [objsOfVals]

theorem pairwise_unrelated_singletons (hd : List (List Char))
    (h : (hd.map fun s => [s]).Pairwise Unrelated) : hd.Nodup := by
  induction hd with
  | nil => simp
  | cons s ss ih =>
    simp only [List.map_cons, List.pairwise_cons] at h
    rw [List.nodup_cons]
    refine ⟨?_, ih h.2⟩
    intro hm
    have := h.1 [s] (List.mem_map.mpr ⟨s, hm, rfl⟩)
    exact this.1 (List.prefix_refl _)

end Csvq.Json
