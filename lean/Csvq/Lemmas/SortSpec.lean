/- Lemmas: insertion sort by a relation that is a strict weak order ON THE MEMBERS of the list yields a
   sorted permutation; two sorted permutations agree after mapping to keys in a strict total order. -/
import Csvq.Lemmas.Sort
namespace Csvq

/-- "no row precedes another that must sort before it" -/
def SortedBy {α} (lt : α → α → Bool) (l : List α) : Prop := l.Pairwise (fun a b => lt b a = false)

theorem insertBy_perm {α} (lt : α → α → Bool) (x : α) : ∀ l : List α, (insertBy lt x l).Perm (x :: l)
  | [] => List.Perm.refl _
  | y :: ys => by
    unfold insertBy
    split
    · exact ((insertBy_perm lt x ys).cons y).trans (List.Perm.swap x y ys)
    · exact List.Perm.refl _

theorem sortBy_perm {α} (lt : α → α → Bool) : ∀ l : List α, (sortBy lt l).Perm l
  | [] => List.Perm.refl _
  | x :: xs => (insertBy_perm lt x (sortBy lt xs)).trans ((sortBy_perm lt xs).cons x)

theorem insertBy_sorted {α} (lt : α → α → Bool) (P : α → Prop)
    (asymm : ∀ a b, P a → P b → lt a b = true → lt b a = false)
    (negtrans : ∀ a b c, P a → P b → P c → lt b a = false → lt c b = false → lt c a = false)
    (x : α) (hx : P x) : ∀ l : List α, (∀ a ∈ l, P a) → SortedBy lt l → SortedBy lt (insertBy lt x l)
  | [], _, _ => by simp [insertBy, SortedBy]
  | y :: ys, hP, hs => by
    have hy : P y := hP y (List.mem_cons_self)
    have hPs : ∀ a ∈ ys, P a := fun a ha => hP a (List.mem_cons_of_mem _ ha)
    unfold SortedBy at hs ⊢
    rw [List.pairwise_cons] at hs
    unfold insertBy
    by_cases h : lt y x = true
    · simp only [h, if_true]
      rw [List.pairwise_cons]
      refine ⟨?_, insertBy_sorted lt P asymm negtrans x hx ys hPs hs.2⟩
      intro z hz
      have hz' : z ∈ x :: ys := (insertBy_perm lt x ys).subset hz
      rcases List.mem_cons.mp hz' with e | hz''
      · subst e; exact asymm y z hy hx h
      · exact hs.1 z hz''
    · have h' : lt y x = false := by simpa using h
      simp only [h', Bool.false_eq_true, if_false]
      rw [List.pairwise_cons, List.pairwise_cons]
      refine ⟨?_, hs⟩
      intro z hz
      rcases List.mem_cons.mp hz with e | hz'
      · subst e; exact h'
      · -- x ≤ y (¬ y < x) and y ≤ z (¬ z < y) give x ≤ z
        exact negtrans x y z hx hy (hPs z hz') h' (hs.1 z hz')

theorem sortBy_sorted {α} (lt : α → α → Bool) (P : α → Prop)
    (asymm : ∀ a b, P a → P b → lt a b = true → lt b a = false)
    (negtrans : ∀ a b c, P a → P b → P c → lt b a = false → lt c b = false → lt c a = false) :
    ∀ l : List α, (∀ a ∈ l, P a) → SortedBy lt (sortBy lt l)
  | [], _ => by simp [sortBy, SortedBy]
  | x :: xs, hP => by
    unfold sortBy
    have hPs : ∀ a ∈ xs, P a := fun a ha => hP a (List.mem_cons_of_mem _ ha)
    refine insertBy_sorted lt P asymm negtrans x (hP x List.mem_cons_self) _ ?_ (sortBy_sorted lt P asymm negtrans xs hPs)
    intro a ha
    exact hPs a ((sortBy_perm lt xs).subset ha)

/-- two sorted permutations of the same rows carry the same key sequence, when `lt` is the pull-back
    along `key` of a relation `klt` whose incomparable members are equal -/
theorem sorted_perm_keys_eq {α κ} (lt : α → α → Bool) (klt : κ → κ → Bool) (key : α → κ)
    (l₁ l₂ : List α) (hperm : l₁.Perm l₂)
    (hkey : ∀ a ∈ l₁, ∀ b ∈ l₁, lt a b = klt (key a) (key b))
    (hanti : ∀ a ∈ l₁, ∀ b ∈ l₁, klt (key a) (key b) = false → klt (key b) (key a) = false → key a = key b)
    (h₁ : SortedBy lt l₁) (h₂ : SortedBy lt l₂) : l₁.map key = l₂.map key := by
  have mem2 : ∀ a, a ∈ l₂ → a ∈ l₁ := fun a h => hperm.symm.subset h
  refine List.Perm.eq_of_pairwise (le := fun x y => klt y x = false) ?_ ?_ ?_ (hperm.map key)
  · intro x y hx hy hxy hyx
    obtain ⟨a, ha, rfl⟩ := List.mem_map.mp hx
    obtain ⟨b, hb, rfl⟩ := List.mem_map.mp hy
    exact hanti a ha b (mem2 b hb) hyx hxy
  · rw [List.pairwise_map]
    exact List.Pairwise.imp_of_mem (fun {a b} ha hb h => by rw [← hkey b hb a ha]; exact h) h₁
  · rw [List.pairwise_map]
    exact List.Pairwise.imp_of_mem (fun {a b} ha hb h => by rw [← hkey b (mem2 b hb) a (mem2 a ha)]; exact h) h₂

end Csvq

namespace Csvq

theorem ofB_ne_U (b : Bool) : ofB b ≠ .U := by cases b <;> simp [ofB]

theorem feq_iff_fltLess_U_of_not_nan (f g : FVal) (hf : f.isNaN = false) :
    FVal.feq f g = true ↔ fltLess f g = .U := by
  cases g <;> cases f <;> simp [FVal.isNaN] at hf <;>
    simp [fltLess, FVal.isNaN, FVal.feq, ofB_ne_U] <;>
    (split <;> simp_all [ofB_ne_U])

theorem flt_equiv_iff_fltLess_U (f g : FVal) :
    ((f.isNaN && g.isNaN) || FVal.feq f g) = true ↔ fltLess f g = .U := by
  cases g <;> cases f <;>
    simp [fltLess, FVal.isNaN, FVal.feq, ofB_ne_U] <;>
    (split <;> simp_all [ofB_ne_U])

/-- SortValue.EquivalentTo says "tie" exactly when SortValue.Less does, on comparable non-NULL values -/
theorem equiv_iff_tie (a b : SortVal) (h : Compat a b) (ha : a ≠ .null) (hb : b ≠ .null) :
    a.equiv b = true ↔ a.less b = .U := by
  rcases h with h | h | ⟨h1, h2⟩ | ⟨x, y, rfl, rfl⟩ | ⟨x, y, rfl, rfl⟩
  · exact absurd h ha
  · exact absurd h hb
  · cases a <;> cases b <;> simp only [SortVal.isNum] at h1 h2 <;> try exact absurd h1 id
    all_goals try exact absurd h2 id
    · rename_i i f s j g t
      simp only [SortVal.equiv, SortVal.less]
      by_cases e : i = j
      · simp [e]
      · simp [e, ofB_ne_U]
    · rename_i i f s g t
      obtain ⟨rfl, _⟩ := h1
      simp only [SortVal.equiv, SortVal.less]
      exact feq_iff_fltLess_U_of_not_nan _ _ rfl
    · rename_i f s j g t
      obtain ⟨rfl, _⟩ := h2
      simp only [SortVal.equiv, SortVal.less]
      cases f <;> simp [fltLess, FVal.isNaN, FVal.feq, ofB_ne_U] <;> (split <;> simp_all [ofB_ne_U])
    · rename_i f s g t
      simp only [SortVal.equiv, SortVal.less]
      exact flt_equiv_iff_fltLess_U f g
  · simp only [SortVal.equiv, SortVal.less]
    by_cases e : x = y
    · simp [e]
    · simp [e, ofB_ne_U]
  · simp only [SortVal.equiv, SortVal.less, strLess]
    by_cases e : x = y
    · simp [e]
    · simp [e, ofB_ne_U]

/-- … and therefore exactly when the sort keys are equal -/
theorem equiv_iff_key_eq (np : NullPos) (a b : SortVal) (h : Compat a b) :
    a.equiv b = true ↔ sk np a = sk np b := by
  by_cases ha : a = .null
  · subst ha
    cases b <;> cases np <;> simp [SortVal.equiv, sk]
  · by_cases hb : b = .null
    · subst hb
      cases a <;> cases np <;> simp_all [SortVal.equiv, sk]
    · rw [equiv_iff_tie a b h ha hb]
      exact (less_key np a b h ha hb).2.2

theorem rowsEquiv_iff_keys_eq : ∀ (its : List OrdItem) (r s : List SortVal),
    r.length = its.length → s.length = its.length → RowsCompat r s →
    (rowsEquiv r s = true ↔ keysOf its r = keysOf its s)
  | [], [], [], _, _, _ => by simp [rowsEquiv, keysOf]
  | [], _ :: _, _, hr, _, _ => by simp at hr
  | [], [], _ :: _, _, hs, _ => by simp at hs
  | _ :: _, [], _, hr, _, _ => by simp at hr
  | _ :: _, _ :: _, [], _, hs, _ => by simp at hs
  | it :: its, a :: as, b :: bs, hr, hs, hc => by
    simp only [List.length_cons, Nat.add_right_cancel_iff] at hr hs
    simp only [rowsEquiv, keysOf, Bool.and_eq_true, List.cons.injEq]
    rw [equiv_iff_key_eq it.np a b hc.1, rowsEquiv_iff_keys_eq its as bs hr hs hc.2]

end Csvq

namespace Csvq

theorem tiesLoop_map {α κ} [DecidableEq κ] (eqv : α → α → Bool) (key : α → κ) (bottom : α) :
    ∀ (rest : List α) (k : Nat), (∀ r ∈ rest, eqv bottom r = decide (key bottom = key r)) →
    tiesLoop eqv bottom rest k = tiesLoop (fun x y => decide (x = y)) (key bottom) (rest.map key) k
  | [], _, _ => by simp [tiesLoop]
  | r :: rest, k, h => by
    simp only [tiesLoop, List.map_cons]
    rw [h r List.mem_cons_self, tiesLoop_map eqv key bottom rest (k + 1) (fun x hx => h x (List.mem_cons_of_mem _ hx))]

/-- View.Limit commutes with taking sort keys, when EquivalentTo is equality of keys on the rows -/
theorem limitRows_map {α κ} [DecidableEq κ] (eqv : α → α → Bool) (key : α → κ) (wt : Bool) (k : Nat) (l : List α)
    (h : ∀ a ∈ l, ∀ b ∈ l, eqv a b = decide (key a = key b)) :
    (limitRows eqv wt k l).map key = limitRows (fun x y => decide (x = y)) wt k (l.map key) := by
  unfold limitRows
  simp only [List.length_map]
  by_cases h1 : l.length ≤ k
  · simp [h1]
  · simp only [h1, if_false]
    by_cases h2 : (wt && decide (0 < k)) = true
    · simp only [h2, if_true, List.getElem?_map]
      cases hb : l[k - 1]? with
      | none => simp [List.map_take]
      | some bottom =>
        have hm : bottom ∈ l := List.mem_of_getElem? hb
        simp only [Option.map_some, List.map_take, List.map_drop]
        rw [tiesLoop_map eqv key bottom (l.drop k) k (fun r hr => h bottom hm r (List.mem_of_mem_drop hr)), List.map_drop]
    · simp [h2, List.map_take]

end Csvq
