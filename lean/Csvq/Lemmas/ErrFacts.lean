/-
  Soundness of the index-guard checker of Csvq/Model/ErrFacts.lean (property C19):
  if `IndexSite.ok` accepts a site, the index is in range for EVERY length that meets the path conditions.
-/
import Csvq.Model.ErrFacts
namespace Csvq.ErrFacts

theorem lbStep_le (lb len : Nat) (c : LenCond) (hlb : lb ≤ len) (hc : c.holds len) : lbStep lb c ≤ len := by
  cases c with
  | ge k => simp only [LenCond.holds] at hc; simp only [lbStep]; omega
  | lt k => exact hlb
  | eq k => simp only [LenCond.holds] at hc; simp only [lbStep]; omega
  | notLt k => simp only [LenCond.holds] at hc; simp only [lbStep]; omega
  | notEq k =>
    simp only [LenCond.holds] at hc
    simp only [lbStep]
    split <;> omega

theorem foldl_lbStep_le (conds : List LenCond) (len : Nat) :
    ∀ lb, lb ≤ len → (∀ c ∈ conds, c.holds len) → conds.foldl lbStep lb ≤ len := by
  induction conds with
  | nil => intro lb h _; exact h
  | cons c cs ih =>
    intro lb hlb h
    simp only [List.foldl_cons]
    exact ih _ (lbStep_le lb len c hlb (h c (List.mem_cons_self ..)))
      (fun d hd => h d (List.mem_cons_of_mem _ hd))

/-- the computed bound is a lower bound of every length that meets the conditions -/
theorem lowerBound_le (conds : List LenCond) (len : Nat) (h : ∀ c ∈ conds, c.holds len) :
    lowerBound conds ≤ len :=
  foldl_lbStep_le conds len 0 (Nat.zero_le _) h

/-- **checker soundness**: an accepted site cannot index out of range, whatever the length -/
theorem IndexSite.ok_sound (s : IndexSite) (hok : s.ok = true) (len : Nat)
    (h : ∀ c ∈ s.conds, c.holds len) : s.idx.inRange len := by
  have hb := lowerBound_le s.conds len h
  unfold IndexSite.ok at hok
  cases hidx : s.idx with
  | const k =>
    rw [hidx] at hok
    simp only [decide_eq_true_eq] at hok
    simp only [Idx.inRange]; omega
  | fromEnd k =>
    rw [hidx] at hok
    simp only [Bool.and_eq_true, decide_eq_true_eq] at hok
    simp only [Idx.inRange]; omega

/-! generic: a list all of whose elements lie in an EMPTY exception list is empty / meets the predicate -/

theorem all_contains_nil {α β} [BEq β] (l : List α) (g : α → β)
    (h : l.all (fun f => ([] : List β).contains (g f)) = true) : l = [] := by
  cases l with
  | nil => rfl
  | cons a as => simp at h

theorem all_or_contains_nil {α β} [BEq β] (l : List α) (p : α → Bool) (g : α → β)
    (h : l.all (fun f => p f || ([] : List β).contains (g f)) = true) : l.all p = true := by
  rw [List.all_eq_true] at h ⊢
  intro x hx
  have := h x hx
  simpa using this

end Csvq.ErrFacts
