/-
  Soundness of the index-guard checker of Csvq/Model/ErrFacts.lean (property C19):
  if `IndexSite.ok` accepts a site, the index is in range for EVERY length that meets the path conditions.
-/
import Csvq.Model.ErrFacts
namespace Csvq.ErrFacts

theorem lbStep_le (lb len : Nat) (c : LenCond) (hlb : lb ≤ len) (hc : c.holds len) : lbStep lb c ≤ len := by
  cases c with
  | ge k => simp only [LenCond.holds] at hc; simp only [lbStep]; omega
  | lt k => exact hlb
  | eq k => simp only [LenCond.holds] at hc; simp only [lbStep]; omega
  | notLt k => simp only [LenCond.holds] at hc; simp only [lbStep]; omega
  | notEq k =>
    simp only [LenCond.holds] at hc
    simp only [lbStep]
    split <;> omega

theorem foldl_lbStep_le (conds : List LenCond) (len : Nat) :
    ∀ lb, lb ≤ len → (∀ c ∈ conds, c.holds len) → conds.foldl lbStep lb ≤ len := by
  induction conds with
  | nil => intro lb h _; exact h
  | cons c cs ih =>
    intro lb hlb h
    simp only [List.foldl_cons]
    exact ih _ (lbStep_le lb len c hlb (h c (List.mem_cons_self ..)))
      (fun d hd => h d (List.mem_cons_of_mem _ hd))

/-- the computed bound is a lower bound of every length that meets the conditions -/
theorem lowerBound_le (conds : List LenCond) (len : Nat) (h : ∀ c ∈ conds, c.holds len) :
    lowerBound conds ≤ len :=
  foldl_lbStep_le conds len 0 (Nat.zero_le _) h

/-- **checker soundness**: an accepted site cannot index out of range, whatever the length -/
theorem IndexSite.ok_sound (s : IndexSite) (hok : s.ok = true) (len : Nat)
    (h : ∀ c ∈ s.conds, c.holds len) : s.idx.inRange len := by
  have hb := lowerBound_le s.conds len h
  unfold IndexSite.ok at hok
  cases hidx : s.idx with
  | const k =>
    rw [hidx] at hok
    simp only [decide_eq_true_eq] at hok
    simp only [Idx.inRange]; omega
  | fromEnd k =>
    rw [hidx] at hok
    simp only [Bool.and_eq_true, decide_eq_true_eq] at hok
    simp only [Idx.inRange]; omega

/-! ## argument slices: soundness of `ArgIndexSite.ok` -/

theorem LenCond.eval_iff (c : LenCond) (len : Nat) : c.eval len = true ↔ c.holds len := by
  cases c <;> simp [LenCond.eval, LenCond.holds]

theorem LenProp.eval_iff (p : LenProp) (len i : Nat) :
    p.eval len (decide (i < len)) = true ↔ p.holds len i := by
  induction p with
  | atom c => simp only [LenProp.eval, LenProp.holds]; exact LenCond.eval_iff c len
  | varLt => simp [LenProp.eval, LenProp.holds]
  | and a b iha ihb => simp only [LenProp.eval, LenProp.holds, Bool.and_eq_true, iha, ihb]
  | or a b iha ihb => simp only [LenProp.eval, LenProp.holds, Bool.or_eq_true, iha, ihb]

/-- beyond its constant a comparison no longer changes -/
theorem LenCond.eval_stable (c : LenCond) (L len : Nat) (h1 : c.bound < L) (h2 : L ≤ len) :
    c.eval len = c.eval L := by
  cases c with
  | ge k => simp only [LenCond.bound] at h1; simp only [LenCond.eval]; rw [decide_eq_decide]; omega
  | lt k => simp only [LenCond.bound] at h1; simp only [LenCond.eval]; rw [decide_eq_decide]; omega
  | eq k => simp only [LenCond.bound] at h1; simp only [LenCond.eval]; rw [decide_eq_decide]; omega
  | notLt k =>
    simp only [LenCond.bound] at h1; simp only [LenCond.eval]
    congr 1; rw [decide_eq_decide]; omega
  | notEq k =>
    simp only [LenCond.bound] at h1; simp only [LenCond.eval]
    congr 1; rw [decide_eq_decide]; omega

theorem LenProp.eval_stable (p : LenProp) (L len : Nat) (vlt : Bool) (h1 : p.bound < L) (h2 : L ≤ len) :
    p.eval len vlt = p.eval L vlt := by
  induction p with
  | atom c => exact LenCond.eval_stable c L len h1 h2
  | varLt => rfl
  | and a b iha ihb =>
    simp only [LenProp.bound] at h1
    simp only [LenProp.eval, iha (by omega), ihb (by omega)]
  | or a b iha ihb =>
    simp only [LenProp.bound] at h1
    simp only [LenProp.eval, iha (by omega), ihb (by omega)]

theorem foldl_max_bound_ge (conds : List LenProp) :
    ∀ b0, b0 ≤ conds.foldl (fun b c => max b c.bound) b0 ∧
      ∀ c ∈ conds, c.bound ≤ conds.foldl (fun b c => max b c.bound) b0 := by
  induction conds with
  | nil => intro b0; exact ⟨Nat.le_refl _, fun c hc => by cases hc⟩
  | cons d ds ih =>
    intro b0
    simp only [List.foldl_cons]
    have h := ih (max b0 d.bound)
    refine ⟨by have := h.1; omega, ?_⟩
    intro c hc
    cases hc with
    | head => have := h.1; omega
    | tail _ hm => exact h.2 c hm

theorem bound_le_condsBound (conds : List LenProp) (c : LenProp) (hc : c ∈ conds) : c.bound ≤ condsBound conds :=
  (foldl_max_bound_ge conds 0).2 c hc

/-- an index check that passes at a length passes at every greater one -/
theorem ArgIdx.eval_mono (idx : ArgIdx) (L len : Nat) (vlt : Bool) (hL : L ≤ len)
    (h : idx.eval L vlt = true) : idx.eval len vlt = true := by
  cases idx with
  | const k => simp only [ArgIdx.eval, decide_eq_true_eq] at h ⊢; omega
  | fromEnd k => simp only [ArgIdx.eval, Bool.and_eq_true, decide_eq_true_eq] at h ⊢; omega
  | var => exact h
  | sliceFrom a => simp only [ArgIdx.eval, decide_eq_true_eq] at h ⊢; omega
  | sliceTo b => simp only [ArgIdx.eval, decide_eq_true_eq] at h ⊢; omega
  | slice a b => simp only [ArgIdx.eval, Bool.and_eq_true, decide_eq_true_eq] at h ⊢; omega

theorem ArgIdx.eval_iff (idx : ArgIdx) (len i : Nat) :
    idx.eval len (decide (i < len)) = true ↔ idx.inRange len i := by
  cases idx <;> simp [ArgIdx.eval, ArgIdx.inRange]

/-- **checker soundness**: a site the checker accepts cannot index (or slice) out of range, whatever the length
    and whatever the value of the index variable -/
theorem ArgIndexSite.ok_sound (s : ArgIndexSite) (hok : s.ok = true) (len i : Nat)
    (h : ∀ c ∈ s.conds, c.holds len i) : s.idx.inRange len i := by
  rw [← ArgIdx.eval_iff]
  -- the conditions evaluate to true at (len, i < len)
  have hall : s.conds.all (·.eval len (decide (i < len))) = true := by
    rw [List.all_eq_true]; intro c hc; exact (LenProp.eval_iff c len i).mpr (h c hc)
  unfold ArgIndexSite.ok at hok
  rw [List.all_eq_true] at hok
  -- the length the checker looked at: len itself, or one past the largest constant
  let L := min len (condsBound s.conds + 1)
  have hLmem : L ∈ List.range (condsBound s.conds + 2) := by
    rw [List.mem_range]; show min len (condsBound s.conds + 1) < _; omega
  have hLle : L ≤ len := Nat.min_le_left _ _
  have hat := hok L hLmem
  rw [Bool.and_eq_true] at hat
  have hallL : s.conds.all (·.eval L (decide (i < len))) = true := by
    rw [List.all_eq_true] at hall ⊢
    intro c hc
    have hcb := bound_le_condsBound s.conds c hc
    by_cases hlen : len ≤ condsBound s.conds + 1
    · have : L = len := Nat.min_eq_left hlen
      rw [this]; exact hall c hc
    · have hLe : L = condsBound s.conds + 1 := Nat.min_eq_right (by omega)
      rw [← LenProp.eval_stable c L len _ (by omega) hLle]
      exact hall c hc
  have hidxL : s.idx.eval L (decide (i < len)) = true := by
    cases hv : decide (i < len) with
    | true =>
      have := hat.1
      unfold ArgIndexSite.okAt at this
      rw [hv] at hallL
      simpa [hallL] using this
    | false =>
      have := hat.2
      unfold ArgIndexSite.okAt at this
      rw [hv] at hallL
      simpa [hallL] using this
  exact ArgIdx.eval_mono s.idx L len _ hLle hidxL

/-! ## unchecked type assertions: soundness of `AssertSite.ok` -/

theorem canAssert_succeeds (impl : List (String × String)) (dyn typ : String) (h : canAssert impl dyn typ = true) :
    Succeeds impl dyn typ := by
  unfold canAssert at h
  simp only [Bool.and_eq_true, Bool.or_eq_true, bne_iff_ne, ne_eq, beq_iff_eq, List.contains_eq_mem, decide_eq_true_eq] at h
  exact ⟨h.1.1, h.2⟩

/-- **checker soundness**: at a site the checker accepts, whatever dynamic type the guard leaves possible, `x.(T)` succeeds -/
theorem AssertSite.ok_sound (sources : List (String × List String)) (keyed : KeyedTable) (impl : List (String × String)) (s : AssertSite)
    (hok : s.ok sources keyed impl = true) (dyn : String) (h : s.admits sources keyed impl dyn) : Succeeds impl dyn s.typ := by
  unfold AssertSite.ok at hok
  unfold AssertSite.admits at h
  cases hg : s.guard with
  | inCase => rw [hg] at h; exact h
  | afterOk => rw [hg] at h; exact h
  | unknown w => rw [hg] at hok; exact absurd hok (by simp)
  | keyed src keys =>
    rw [hg] at hok h
    simp only [Bool.and_eq_true] at hok h
    obtain ⟨k, hk, hts⟩ := h
    have hall := List.all_eq_true.mp hok.2 k hk
    cases hl : lookupKeyed keyed src k with
    | none => rw [hl] at hall; exact absurd hall (by simp)
    | some ts =>
      rw [hl] at hall
      simp only at hall
      exact canAssert_succeeds impl dyn s.typ (List.all_eq_true.mp hall dyn (hts ts hl))
  | oneOf src excl =>
    rw [hg] at hok h
    simp only at hok h
    cases hl : lookupSrc sources src with
    | none => rw [hl] at hok; exact absurd hok (by simp)
    | some ts =>
      rw [hl] at hok h
      simp only at hok h
      rw [List.all_eq_true] at hok
      have := hok dyn h.1
      rw [Bool.or_eq_true] at this
      cases this with
      | inl hx => exact absurd (by simpa using hx) h.2
      | inr hc => exact canAssert_succeeds impl dyn s.typ hc

/-! generic: a list all of whose elements lie in an EMPTY exception list is empty / meets the predicate -/

theorem all_contains_nil {α β} [BEq β] (l : List α) (g : α → β)
    (h : l.all (fun f => ([] : List β).contains (g f)) = true) : l = [] := by
  cases l with
  | nil => rfl
  | cons a as => simp at h

theorem all_or_contains_nil {α β} [BEq β] (l : List α) (p : α → Bool) (g : α → β)
    (h : l.all (fun f => p f || ([] : List β).contains (g f)) = true) : l.all p = true := by
  rw [List.all_eq_true] at h ⊢
  intro x hx
  have := h x hx
  simpa using this

end Csvq.ErrFacts
