/-
  Csvq.Lemmas.LalrGen — the checker of Lemmas/LalrCheck.lean evaluated by the kernel on the regenerated tables and
  certificates (Csvq/Gen/LalrTables.lean).  In its own module: the evaluation takes about a minute and a half and is
  redone only when the tables change.
-/
import Csvq.Lemmas.LalrCheck
import Csvq.Model.LalrTables
namespace Csvq.Lalr
open Csvq.Gen.Lalr

/-- the regenerated certificates -/
def genC : Cert where
  chunks := belowChunks
  depth := ⟨depthBits, yyPactSize⟩
  weight := ⟨weightBits, yyPactSize⟩
  rank := ⟨rankBits, yyPactSize⟩
  maxTok := maxTok
  bound := measureBound
  lowMod := lowBitMod
  lowTab := ⟨lowBitTable, lowBitMod⟩
  rhsTop := prodRhsTop

theorem gen_check : check genP genC = true := by decide +kernel

end Csvq.Lalr
