/-
  Helper lemmas for C03 (relational operators over worker chunks).
-/
import Csvq.Model.Rel
import Csvq.Lemmas.Unicode
namespace Csvq.Rel
open Csvq

/-! ## strings.EqualFold on names (Model/Unicode.lean) -/

@[simp] theorem eqFold_self (a : String) : eqFold a a = true := Uni.runesFoldEq_refl _

theorem eqFold_comm (a b : String) : eqFold a b = eqFold b a := Uni.runesFoldEq_comm _ _

/-! ## generic list facts -/

theorem flatten_map_map {α β} (f : α → β) (chunks : List (List α)) :
    (chunks.map (fun c => c.map f)).flatten = chunks.flatten.map f := by
  induction chunks with
  | nil => rfl
  | cons c cs ih => simp only [List.map_cons, List.flatten_cons, List.map_append, ih]

theorem flatten_map_flatMap {α β} (f : α → List β) (chunks : List (List α)) :
    (chunks.map (fun c => c.flatMap f)).flatten = chunks.flatten.flatMap f := by
  induction chunks with
  | nil => rfl
  | cons c cs ih => simp only [List.map_cons, List.flatten_cons, List.flatMap_append, ih]

theorem flatten_flatten_map {α β} (f : α → List β) (chunks : List (List α)) :
    ((chunks.map (fun c => c.map f)).flatten).flatten = chunks.flatten.flatMap f := by
  rw [flatten_map_map]; rfl

theorem filter_isEmpty_eq {α} (p : α → Bool) (l : List α) : (l.filter p).isEmpty = !l.any p := by
  induction l with
  | nil => rfl
  | cons a as ih =>
    simp only [List.filter_cons, List.any_cons]
    cases h : p a
    · simpa using ih
    · simp

theorem not_any_eq_all_not {α} (p : α → Bool) (l : List α) : (!l.any p) = l.all (fun x => !p x) := by
  induction l with
  | nil => rfl
  | cons a as ih =>
    simp only [List.any_cons, List.all_cons, Bool.not_or, ih]

theorem any_flatten' {α} (p : α → Bool) (chunks : List (List α)) :
    chunks.any (fun c => c.any p) = chunks.flatten.any p := by
  induction chunks with
  | nil => rfl
  | cons c cs ih => simp only [List.any_cons, List.flatten_cons, List.any_append, ih]

/-! ## `holds` -/

theorem holds_iff (c : Cond) (r : Row) : holds c r = true ↔ c r = .T := by
  unfold holds; cases c r <;> simp

theorem holds_eq_decide (c : Cond) (r : Row) : holds c r = decide (c r = .T) := by
  unfold holds; cases c r <;> simp

/-! ## filter -/

theorem compact_map (p : Cond) (rows : List Row) :
    compact (rows.map (holds p)) rows = rows.filter (holds p) := by
  induction rows with
  | nil => rfl
  | cons r rs ih =>
    simp only [List.map_cons, List.filter_cons]
    cases h : holds p r
    · simp only [compact, ih]; simp
    · simp only [compact, ih]; simp

/-! ## inner join -/

theorem innerRow_eq (c : Cond) (l : Row) (R : List Row) :
    innerRow c l R = (R.filter (fun r => c (l ++ r) = .T)).map (fun r => l ++ r) := by
  induction R with
  | nil => rfl
  | cons r rs ih =>
    simp only [innerRow, List.filter_cons, ih, holds_eq_decide]
    split <;> simp

theorem innerWorker_eq (c : Cond) (R : List Row) (ch : List Row) :
    innerWorker c R ch = ch.flatMap (fun l => (R.filter (fun r => c (l ++ r) = .T)).map (fun r => l ++ r)) := by
  induction ch with
  | nil => rfl
  | cons l ls ih => simp only [innerWorker, List.flatMap_cons, innerRow_eq, ih]

/-! ## outer join -/

/-- the partner test of the nested loop -/
def hit (dir : Dir) (c : Cond) (o j : Row) : Bool := holds c (mergeRec dir o j)

/-- what one outer-loop record contributes -/
def blockOf (dir : Dir) (c : Cond) (wj : Nat) (other : List Row) (o : Row) : List Row :=
  ((other.filter (hit dir c o)).map (mergeRec dir o)) ++ (if other.any (hit dir c o) then [] else [padRec dir wj o])

theorem outerInner_recs (dir : Dir) (c : Cond) (o : Row) (fl : List (Row × Bool)) :
    (outerInner dir c o fl).1 = (((fl.map Prod.fst).filter (hit dir c o)).map (mergeRec dir o)) := by
  induction fl with
  | nil => rfl
  | cons p ps ih =>
    obtain ⟨j, f⟩ := p
    simp only [outerInner, List.map_cons, List.filter_cons, hit] at ih ⊢
    by_cases h : holds c (mergeRec dir o j) = true
    · simp only [h, if_true, List.map_cons, ih]
    · simp only [h, Bool.false_eq_true, if_false, ih]

theorem outerInner_match (dir : Dir) (c : Cond) (o : Row) (fl : List (Row × Bool)) :
    (outerInner dir c o fl).2.2 = (fl.map Prod.fst).any (hit dir c o) := by
  induction fl with
  | nil => rfl
  | cons p ps ih =>
    obtain ⟨j, f⟩ := p
    simp only [outerInner, List.map_cons, List.any_cons, hit] at ih ⊢
    by_cases h : holds c (mergeRec dir o j) = true
    · simp only [h, if_true, Bool.true_or]
    · simp only [Bool.not_eq_true] at h
      simp only [h, Bool.false_eq_true, if_false, ih, Bool.false_or]

theorem outerInner_flags (dir : Dir) (c : Cond) (o : Row) (fl : List (Row × Bool)) :
    (outerInner dir c o fl).2.1 = fl.map (fun p => (p.1, if hit dir c o p.1 then setFlag dir p.2 else p.2)) := by
  induction fl with
  | nil => rfl
  | cons p ps ih =>
    obtain ⟨j, f⟩ := p
    simp only [outerInner, List.map_cons, hit] at ih ⊢
    by_cases h : holds c (mergeRec dir o j) = true
    · simp only [h, if_true, ih]
    · simp only [h, Bool.false_eq_true, if_false, ih]

theorem outerInner_fst (dir : Dir) (c : Cond) (o : Row) (fl : List (Row × Bool)) :
    (outerInner dir c o fl).2.1.map Prod.fst = fl.map Prod.fst := by
  rw [outerInner_flags, List.map_map]; rfl

theorem outerWorker_recs (dir : Dir) (c : Cond) (wj : Nat) (ch : List Row) (fl : List (Row × Bool)) :
    (outerWorker dir c wj ch fl).1 = ch.flatMap (blockOf dir c wj (fl.map Prod.fst)) := by
  induction ch generalizing fl with
  | nil => rfl
  | cons o os ih =>
    simp only [outerWorker, List.flatMap_cons, ih, outerInner_fst, outerInner_recs, outerInner_match, blockOf,
      List.append_assoc]

/-- the flag of inner record `j` after a worker went through chunk `ch` -/
def flagAfter (dir : Dir) (c : Cond) (ch : List Row) (j : Row) (f : Bool) : Bool :=
  match dir with
  | .full => f || ch.any (fun o => hit dir c o j)
  | _ => f

theorem outerWorker_flags (dir : Dir) (c : Cond) (wj : Nat) (ch : List Row) (fl : List (Row × Bool)) :
    (outerWorker dir c wj ch fl).2 = fl.map (fun p => (p.1, flagAfter dir c ch p.1 p.2)) := by
  induction ch generalizing fl with
  | nil =>
    simp only [outerWorker, flagAfter]
    cases dir <;> simp
  | cons o os ih =>
    simp only [outerWorker, ih, outerInner_flags, List.map_map]
    apply List.map_congr_left
    intro p _
    simp only [Function.comp]
    cases dir <;> simp only [flagAfter, setFlag, List.any_cons]
    · cases hit Dir.left c o p.1 <;> rfl
    · cases hit Dir.right c o p.1 <;> rfl
    · cases hit Dir.full c o p.1 <;> cases p.2 <;> simp

theorem zipWith_or_map {α} (a g : α → Bool) (l : List α) :
    List.zipWith (fun x y => x || y) (l.map a) (l.map g) = l.map (fun j => a j || g j) := by
  induction l with
  | nil => rfl
  | cons x xs ih => simp only [List.map_cons, List.zipWith_cons_cons, ih]

theorem foldl_or_flags {α β} (G : β → α → Bool) (other : List α) (xs : List β) (a : α → Bool) :
    (xs.map (fun x => other.map (G x))).foldl (fun acc l => List.zipWith (fun a b => a || b) acc l) (other.map a)
      = other.map (fun j => a j || xs.any (fun x => G x j)) := by
  induction xs generalizing a with
  | nil => simp
  | cons x xs ih =>
    simp only [List.map_cons, List.foldl_cons, zipWith_or_map, ih, List.any_cons, Bool.or_assoc]

theorem replicate_false_eq {α} (other : List α) :
    List.replicate other.length false = other.map (fun _ => false) := by
  induction other with
  | nil => rfl
  | cons x xs ih => simp only [List.length_cons, List.replicate_succ, List.map_cons, ih]

theorem orFlags_chunks {α β} (G : β → α → Bool) (other : List α) (xs : List β) :
    orFlags other.length (xs.map (fun x => other.map (G x))) = other.map (fun j => xs.any (fun x => G x j)) := by
  unfold orFlags
  rw [replicate_false_eq, foldl_or_flags]
  simp

theorem unmatchedOther_map (g : Row → Bool) (other : List Row) :
    unmatchedOther other (other.map g) = other.filter (fun j => !g j) := by
  induction other with
  | nil => rfl
  | cons j js ih =>
    simp only [List.map_cons, List.filter_cons]
    cases h : g j
    · simp [unmatchedOther, ih]
    · simp [unmatchedOther, ih]

/-! ## `mapOpt` -/

theorem mapOpt_append {α β} (f : α → Option β) (xs ys : List α) :
    mapOpt f (xs ++ ys) =
      match mapOpt f xs, mapOpt f ys with
      | some a, some b => some (a ++ b)
      | _, _ => none := by
  induction xs with
  | nil => simp only [List.nil_append, mapOpt]; cases mapOpt f ys <;> rfl
  | cons x xs ih =>
    simp only [List.cons_append, mapOpt, ih]
    cases f x <;> cases mapOpt f xs <;> cases mapOpt f ys <;> rfl

theorem mapOpt_chunks {α β} (f : α → Option β) (chunks : List (List α)) :
    (mapOpt (mapOpt f) chunks).map List.flatten = mapOpt f chunks.flatten := by
  induction chunks with
  | nil => rfl
  | cons c cs ih =>
    simp only [mapOpt, List.flatten_cons, mapOpt_append, ← ih]
    cases mapOpt f c <;> cases mapOpt (mapOpt f) cs <;> rfl

theorem mapOpt_congr {α β} (f g : α → Option β) (l : List α) (h : ∀ x ∈ l, f x = g x) :
    mapOpt f l = mapOpt g l := by
  induction l with
  | nil => rfl
  | cons x xs ih =>
    simp only [mapOpt, h x (List.mem_cons_self ..), ih (fun y hy => h y (List.mem_cons_of_mem _ hy))]

theorem mapOpt_map {α β γ} (f : β → Option γ) (g : α → β) (l : List α) :
    mapOpt f (l.map g) = mapOpt (fun x => f (g x)) l := by
  induction l with
  | nil => rfl
  | cons x xs ih => simp only [List.map_cons, mapOpt, ih]

theorem mapOpt_length {α β} (f : α → Option β) (l : List α) (out : List β) (h : mapOpt f l = some out) :
    out.length = l.length := by
  induction l generalizing out with
  | nil => simp only [mapOpt, Option.some.injEq] at h; subst h; rfl
  | cons x xs ih =>
    simp only [mapOpt] at h
    cases hx : f x with
    | none => simp [hx] at h
    | some b =>
      cases hxs : mapOpt f xs with
      | none => simp [hx, hxs] at h
      | some bs =>
        simp only [hx, hxs, Option.some.injEq] at h
        subst h
        simp [ih bs hxs]

/-! ## USING merge -/

theorem altOf_none (pairs : List (Nat × Nat)) (idx : Nat) (h : idx ∉ includes pairs) : altOf pairs idx = none := by
  induction pairs with
  | nil => rfl
  | cons p ps ih =>
    obtain ⟨i, e⟩ := p
    simp only [includes, List.map_cons, List.mem_cons, not_or] at h
    have := ih (by simpa [includes] using h.2)
    simp only [altOf, this]
    rw [if_neg (fun hh => h.1 hh.symm)]

theorem altOf_mem (pairs : List (Nat × Nat)) (hnd : (includes pairs).Nodup) (p : Nat × Nat) (hp : p ∈ pairs) :
    altOf pairs p.1 = some p.2 := by
  induction pairs with
  | nil => cases hp
  | cons q qs ih =>
    obtain ⟨i, e⟩ := q
    simp only [includes, List.map_cons, List.nodup_cons] at hnd
    cases hp with
    | head =>
      have := altOf_none qs i (by simpa [includes] using hnd.1)
      simp [altOf, this]
    | tail _ hmem =>
      have := ih (by simpa [includes] using hnd.2) hmem
      simp [altOf, this]

theorem usingCell_include (pairs : List (Nat × Nat)) (hnd : (includes pairs).Nodup) (r : Row) (p : Nat × Nat)
    (hp : p ∈ pairs) : usingCell pairs r p.1 = coalesceAt r p := by
  unfold usingCell coalesceAt
  cases h : r[p.1]? with
  | none => rfl
  | some v =>
    have hc : (includes pairs).contains p.1 = true := by
      simp only [List.contains_iff_mem, includes, List.mem_map]
      exact ⟨p, hp, rfl⟩
    simp only [hc, Bool.true_and, altOf_mem pairs hnd p hp]

theorem usingCell_rest (w : Nat) (pairs : List (Nat × Nat)) (r : Row) (i : Nat) (hi : i ∈ restIndices w pairs) :
    usingCell pairs r i = r[i]? := by
  unfold restIndices at hi
  simp only [List.mem_filter, Bool.not_eq_true', Bool.or_eq_false_iff] at hi
  unfold usingCell
  cases h : r[i]? with
  | none => rfl
  | some v =>
    have hc : (includes pairs).contains i = false := hi.2.2
    simp only [hc, Bool.false_and, Bool.false_eq_true, if_false]

theorem usingRow_eq (w : Nat) (pairs : List (Nat × Nat)) (hnd : (includes pairs).Nodup) (r : Row) :
    usingRow w pairs r = usingSpecRow w pairs r := by
  unfold usingRow usingSpecRow fieldIndices pick
  rw [mapOpt_append]
  have h1 : mapOpt (usingCell pairs r) (includes pairs) = mapOpt (coalesceAt r) pairs := by
    unfold includes
    rw [mapOpt_map]
    exact mapOpt_congr _ _ _ (fun p hp => usingCell_include pairs hnd r p hp)
  have h2 : mapOpt (usingCell pairs r) (restIndices w pairs) = mapOpt (fun i => r[i]?) (restIndices w pairs) :=
    mapOpt_congr _ _ _ (fun i hi => usingCell_rest w pairs r i hi)
  rw [h1, h2]
  cases mapOpt (coalesceAt r) pairs <;> cases mapOpt (fun i => r[i]?) (restIndices w pairs) <;> rfl

/-! ## recursive CTE -/

theorem generation_shift (step : List Row → List Row) (g : List Row) (j : Nat) :
    generation step (step g) j = generation step g (j + 1) := by
  induction j with
  | zero => rfl
  | succ j ih => simp only [generation, ih]

theorem gens_shift (step : List Row → List Row) (g : List Row) (k : Nat) :
    ((List.range (k + 1)).map (fun j => generation step g (j + 1))).flatten
      = step g ++ ((List.range k).map (fun j => generation step (step g) (j + 1))).flatten := by
  rw [List.range_succ_eq_map, List.map_cons, List.map_map, List.flatten_cons]
  congr 2
  apply List.map_congr_left
  intro j _
  simp only [Function.comp]
  rw [generation_shift]

theorem recLoop_some (step : List Row → List Row) (fuel : Nat) (acc g out : List Row) :
    recLoop step fuel acc g = some out ↔
      ∃ k, k < fuel ∧ (∀ j, j < k → generation step g (j + 1) ≠ []) ∧ generation step g (k + 1) = [] ∧
        out = acc ++ ((List.range k).map (fun j => generation step g (j + 1))).flatten := by
  induction fuel generalizing acc g with
  | zero => simp [recLoop]
  | succ fuel ih =>
    simp only [recLoop]
    by_cases he : step g = []
    · simp only [he, List.isEmpty_nil, if_true, Option.some.injEq]
      constructor
      · intro h
        exact ⟨0, Nat.succ_pos _, fun j hj => absurd hj (Nat.not_lt_zero _), by simpa [generation] using he, by simp [h]⟩
      · rintro ⟨k, _, hne, _, hout⟩
        cases k with
        | zero => simpa using hout.symm
        | succ k => exact absurd (by simpa [generation] using he) (hne 0 (Nat.succ_pos _))
    · have hne' : (step g).isEmpty = false := by
        cases h : step g with
        | nil => exact absurd h he
        | cons _ _ => rfl
      simp only [hne', Bool.false_eq_true, if_false]
      rw [ih]
      constructor
      · rintro ⟨k, hk, hne, hemp, hout⟩
        refine ⟨k + 1, Nat.succ_lt_succ hk, ?_, ?_, ?_⟩
        · intro j hj
          cases j with
          | zero => simpa [generation] using he
          | succ j =>
            have := hne j (Nat.lt_of_succ_lt_succ hj)
            rwa [generation_shift] at this
        · rwa [generation_shift] at hemp
        · rw [hout, gens_shift, List.append_assoc]
      · rintro ⟨k, hk, hne, hemp, hout⟩
        cases k with
        | zero => exact absurd (by simpa [generation] using hemp) he
        | succ k =>
          refine ⟨k, Nat.lt_of_succ_lt_succ hk, ?_, ?_, ?_⟩
          · intro j hj
            rw [generation_shift]
            exact hne (j + 1) (Nat.succ_lt_succ hj)
          · rw [generation_shift]; exact hemp
          · rw [hout, gens_shift, List.append_assoc]

theorem recLoop_none (step : List Row → List Row) (fuel : Nat) (acc g : List Row) :
    recLoop step fuel acc g = none ↔ ∀ j, j < fuel → generation step g (j + 1) ≠ [] := by
  induction fuel generalizing acc g with
  | zero => simp [recLoop]
  | succ fuel ih =>
    simp only [recLoop]
    by_cases he : step g = []
    · simp only [he, List.isEmpty_nil, if_true]
      constructor
      · intro h; cases h
      · intro h; exact absurd (by simpa [generation] using he) (h 0 (Nat.succ_pos _))
    · have hne' : (step g).isEmpty = false := by
        cases h : step g with
        | nil => exact absurd h he
        | cons _ _ => rfl
      simp only [hne', Bool.false_eq_true, if_false]
      rw [ih]
      constructor
      · intro h j hj
        cases j with
        | zero => simpa [generation] using he
        | succ j =>
          have := h j (Nat.lt_of_succ_lt_succ hj)
          rwa [generation_shift] at this
      · intro h j hj
        rw [generation_shift]
        exact h (j + 1) (Nat.succ_lt_succ hj)

/-! ## outer join, assembled -/

theorem map_fst_pair (other : List Row) : (other.map (fun j => (j, false))).map Prod.fst = other := by
  induction other with
  | nil => rfl
  | cons j js ih => simp only [List.map_cons, ih]

theorem outer_recs_eq (dir : Dir) (c : Cond) (wj : Nat) (chunks : List (List Row)) (other : List Row) :
    ((chunks.map (fun ch => outerWorker dir c wj ch (other.map (fun j => (j, false))))).map (fun w => w.1)).flatten
      = chunks.flatten.flatMap (blockOf dir c wj other) := by
  rw [List.map_map]
  have : ((fun w : List Row × List (Row × Bool) => w.1) ∘ fun ch => outerWorker dir c wj ch (other.map (fun j => (j, false))))
      = fun ch => ch.flatMap (blockOf dir c wj other) := by
    funext ch
    simp only [Function.comp, outerWorker_recs, map_fst_pair]
  rw [this, flatten_map_flatMap]

theorem outer_flags_eq (c : Cond) (wj : Nat) (chunks : List (List Row)) (other : List Row) :
    orFlags other.length ((chunks.map (fun ch => outerWorker .full c wj ch (other.map (fun j => (j, false))))).map
        (fun w => w.2.map (fun p => p.2)))
      = other.map (fun j => chunks.flatten.any (fun o => hit .full c o j)) := by
  rw [List.map_map]
  have : ((fun w : List Row × List (Row × Bool) => w.2.map (fun p => p.2)) ∘
        fun ch => outerWorker .full c wj ch (other.map (fun j => (j, false))))
      = fun ch => other.map (fun j => ch.any (fun o => hit .full c o j)) := by
    funext ch
    simp only [Function.comp, outerWorker_flags, List.map_map, flagAfter]
    apply List.map_congr_left
    intro j _
    simp only [Function.comp, Bool.false_or]
  rw [this]
  have hor := orFlags_chunks (fun (ch : List Row) (j : Row) => ch.any (fun o => hit .full c o j)) other chunks
  rw [hor]
  apply List.map_congr_left
  intro j _
  exact any_flatten' _ _

theorem block_cases {α β} (p : α → Bool) (f : α → β) (pad : β) (l : List α) :
    (l.filter p).map f ++ (if l.any p then [] else [pad])
      = if (l.filter p).isEmpty then [pad] else (l.filter p).map f := by
  have he := filter_isEmpty_eq p l
  cases h : l.any p
  · rw [h] at he
    have hnil : l.filter p = [] := List.isEmpty_iff.mp (by simpa using he)
    simp [hnil]
  · rw [h] at he
    simp only [Bool.not_true] at he
    simp [he]

theorem blockOf_left (c : Cond) (wj : Nat) (R : List Row) (l : Row) (dir : Dir) (hd : dir ≠ .right) :
    blockOf dir c wj R l =
      (let m := R.filter (fun r => c (l ++ r) = .T)
       if m.isEmpty then [l ++ nulls wj] else m.map (fun r => l ++ r)) := by
  have hm : ∀ j, mergeRec dir l j = l ++ j := by intro j; cases dir <;> first | rfl | exact absurd rfl hd
  have hp : padRec dir wj l = l ++ nulls wj := by cases dir <;> first | rfl | exact absurd rfl hd
  have hf : hit dir c l = fun r => decide (c (l ++ r) = .T) := by
    funext r; simp only [hit, hm, holds_eq_decide]
  have hmm : mergeRec dir l = fun r => l ++ r := by funext r; exact hm r
  unfold blockOf
  rw [hf, hp, hmm, block_cases]

theorem blockOf_right (c : Cond) (wj : Nat) (L : List Row) (r : Row) :
    blockOf .right c wj L r =
      (let m := L.filter (fun l => c (l ++ r) = .T)
       if m.isEmpty then [nulls wj ++ r] else m.map (fun l => l ++ r)) := by
  have hf : hit .right c r = fun l => decide (c (l ++ r) = .T) := by
    funext l; simp only [hit, mergeRec, holds_eq_decide]
  have hmm : mergeRec .right r = fun l => l ++ r := by funext l; rfl
  unfold blockOf
  rw [hf, hmm, block_cases]
  rfl

/-! ## membership in the LEFT OUTER specification -/

theorem mem_leftBlock (wr : Nat) (R : List Row) (c : Cond) (l x : Row) :
    x ∈ (let m := R.filter (fun r => c (l ++ r) = .T)
         if m.isEmpty then [l ++ nulls wr] else m.map (fun r => l ++ r)) ↔
      (∃ r, r ∈ R ∧ c (l ++ r) = .T ∧ x = l ++ r) ∨ ((∀ r, r ∈ R → c (l ++ r) ≠ .T) ∧ x = l ++ nulls wr) := by
  simp only
  cases hm : R.filter (fun r => c (l ++ r) = .T) with
  | nil =>
    have hall : ∀ r, r ∈ R → c (l ++ r) ≠ .T := by
      intro r hr hT
      have : r ∈ R.filter (fun r => c (l ++ r) = .T) := List.mem_filter.mpr ⟨hr, by simpa using hT⟩
      rw [hm] at this; cases this
    simp only [List.isEmpty_nil, if_true, List.mem_singleton]
    constructor
    · intro h; exact Or.inr ⟨hall, h⟩
    · rintro (⟨r, hr, hT, _⟩ | ⟨_, h⟩)
      · exact absurd hT (hall r hr)
      · exact h
  | cons a as =>
    have ha : a ∈ R ∧ c (l ++ a) = .T := by
      have : a ∈ R.filter (fun r => c (l ++ r) = .T) := by rw [hm]; exact List.mem_cons_self ..
      have := List.mem_filter.mp this
      exact ⟨this.1, by simpa using this.2⟩
    simp only [List.isEmpty_cons, Bool.false_eq_true, if_false]
    rw [← hm]
    simp only [List.mem_map, List.mem_filter, decide_eq_true_eq]
    constructor
    · rintro ⟨r, ⟨hr, hT⟩, rfl⟩; exact Or.inl ⟨r, hr, hT, rfl⟩
    · rintro (⟨r, hr, hT, rfl⟩ | ⟨hall, _⟩)
      · exact ⟨r, ⟨hr, hT⟩, rfl⟩
      · exact absurd ha.2 (hall a ha.1)

theorem mem_leftSpec (wr : Nat) (L R : List Row) (c : Cond) (x : Row) :
    x ∈ leftSpec wr L R c ↔
      ∃ l, l ∈ L ∧ ((∃ r, r ∈ R ∧ c (l ++ r) = .T ∧ x = l ++ r) ∨ ((∀ r, r ∈ R → c (l ++ r) ≠ .T) ∧ x = l ++ nulls wr)) := by
  unfold leftSpec
  rw [List.mem_flatMap]
  constructor
  · rintro ⟨l, hl, hx⟩; exact ⟨l, hl, (mem_leftBlock wr R c l x).mp hx⟩
  · rintro ⟨l, hl, hx⟩; exact ⟨l, hl, (mem_leftBlock wr R c l x).mpr hx⟩

theorem nulls_length (n : Nat) : (nulls n).length = n := by simp [nulls]

theorem generationsUpTo_eq (step : List Row → List Row) (a : List Row) (k : Nat) :
    generationsUpTo step a k = a ++ ((List.range k).map (fun j => generation step a (j + 1))).flatten := by
  unfold generationsUpTo
  rw [List.range_succ_eq_map, List.map_cons, List.flatten_cons, List.map_map]
  rfl

theorem mapOpt_get {α β} (f : α → Option β) (l : List α) (out : List β) (h : mapOpt f l = some out)
    (k : Nat) (hk : k < l.length) : out[k]? = f l[k] := by
  induction l generalizing out k with
  | nil => cases hk
  | cons x xs ih =>
    simp only [mapOpt] at h
    cases hx : f x with
    | none => simp [hx] at h
    | some b =>
      cases hxs : mapOpt f xs with
      | none => simp [hx, hxs] at h
      | some bs =>
        simp only [hx, hxs, Option.some.injEq] at h
        subst h
        cases k with
        | zero => simp [hx]
        | succ k =>
          simp only [List.getElem?_cons_succ, List.getElem_cons_succ]
          exact ih bs hxs k (Nat.lt_of_succ_lt_succ hk)

/-! ## exact multiplicities of merged rows -/

theorem count_map_append_left (l r : Row) (M : List Row) :
    (M.map (fun x => l ++ x)).count (l ++ r) = M.count r := by
  induction M with
  | nil => rfl
  | cons m ms ih =>
    simp only [List.map_cons, List.count_cons, ih]
    congr 1
    by_cases h : m = r
    · subst h; simp
    · have : ¬ (l ++ m = l ++ r) := fun hh => h (List.append_cancel_left hh)
      simp [h, this]

theorem count_map_append_other (l l' r : Row) (hlen : l'.length = l.length) (hne : l' ≠ l) (M : List Row) :
    (M.map (fun x => l' ++ x)).count (l ++ r) = 0 := by
  apply List.count_eq_zero.mpr
  intro hm
  obtain ⟨x, _, hx⟩ := List.mem_map.mp hm
  exact hne (List.append_inj hx hlen).1

theorem count_filter_ite {α} [BEq α] [LawfulBEq α] (p : α → Bool) (a : α) (l : List α) :
    (l.filter p).count a = if p a then l.count a else 0 := by
  by_cases h : p a = true
  · rw [if_pos h]; exact List.count_filter h
  · rw [if_neg h]
    apply List.count_eq_zero.mpr
    intro hm
    exact h (List.mem_filter.mp hm).2

/-! ## recursive UNION (distinct) -/

theorem dedupAux_absorb {κ : Type} [DecidableEq κ] (key : Row → κ) (seen : List κ) (a r : List Row) :
    dedupAux key seen (dedupAux key seen a ++ r) = dedupAux key seen (a ++ r) := by
  induction a generalizing seen with
  | nil => rfl
  | cons x xs ih =>
    by_cases h : key x ∈ seen
    · simp only [dedupAux, h, if_true, List.cons_append]
      exact ih seen
    · simp only [dedupAux, h, if_false, List.cons_append]
      rw [ih (key x :: seen)]

theorem dedupBy_absorb {κ : Type} [DecidableEq κ] (key : Row → κ) (a r : List Row) :
    dedupBy key (dedupBy key a ++ r) = dedupBy key (a ++ r) := dedupAux_absorb key [] a r

/-- no two kept records share a key, and nothing with a seen key is kept -/
theorem dedupAux_keys {κ : Type} [DecidableEq κ] (key : Row → κ) (seen : List κ) (l : List Row) :
    ((dedupAux key seen l).map key).Nodup ∧ ∀ x, x ∈ dedupAux key seen l → key x ∉ seen := by
  induction l generalizing seen with
  | nil => exact ⟨List.nodup_nil, fun _ h => by cases h⟩
  | cons x xs ih =>
    by_cases h : key x ∈ seen
    · simp only [dedupAux, h, if_true]; exact ih seen
    · simp only [dedupAux, h, if_false, List.map_cons, List.nodup_cons, List.mem_cons]
      have ih' := ih (key x :: seen)
      refine ⟨⟨?_, ih'.1⟩, ?_⟩
      · intro hm
        obtain ⟨y, hy, hk⟩ := List.mem_map.mp hm
        exact (ih'.2 y hy) (by rw [hk]; exact List.mem_cons_self ..)
      · rintro y (rfl | hy)
        · exact h
        · exact fun hs => (ih'.2 y hy) (List.mem_cons_of_mem _ hs)

/-- every key of the input survives (unless it was already seen) -/
theorem dedupAux_complete {κ : Type} [DecidableEq κ] (key : Row → κ) (seen : List κ) (l : List Row) (x : Row)
    (hx : x ∈ l) (hs : key x ∉ seen) : ∃ y, y ∈ dedupAux key seen l ∧ key y = key x := by
  induction l generalizing seen with
  | nil => cases hx
  | cons z zs ih =>
    by_cases h : key z ∈ seen
    · simp only [dedupAux, h, if_true]
      rcases List.mem_cons.mp hx with rfl | hz
      · exact absurd h hs
      · exact ih seen hz hs
    · simp only [dedupAux, h, if_false, List.mem_cons]
      by_cases hk : key z = key x
      · exact ⟨z, Or.inl rfl, hk⟩
      · rcases List.mem_cons.mp hx with rfl | hz
        · exact absurd rfl hk
        · obtain ⟨y, hy, hky⟩ := ih (key z :: seen) hz (by
            intro hm
            rcases List.mem_cons.mp hm with e | e
            · exact hk e.symm
            · exact hs e)
          exact ⟨y, Or.inr hy, hky⟩

theorem dedupAux_sublist {κ : Type} [DecidableEq κ] (key : Row → κ) (seen : List κ) (l : List Row) :
    (dedupAux key seen l).Sublist l := by
  induction l generalizing seen with
  | nil => exact List.Sublist.slnil
  | cons x xs ih =>
    by_cases h : key x ∈ seen
    · simp only [dedupAux, h, if_true]; exact (ih seen).cons _
    · simp only [dedupAux, h, if_false]; exact (ih _).cons_cons _

theorem recLoopU_some {κ : Type} [DecidableEq κ] (key : Row → κ) (step : List Row → List Row) (fuel : Nat)
    (acc g out : List Row) :
    recLoopU key step fuel acc g = some out ↔
      ∃ k, k < fuel ∧ (∀ j, j < k → generation step g (j + 1) ≠ []) ∧ generation step g (k + 1) = [] ∧
        out = (if k = 0 then acc
               else dedupBy key (acc ++ ((List.range k).map (fun j => generation step g (j + 1))).flatten)) := by
  induction fuel generalizing acc g with
  | zero => simp [recLoopU]
  | succ fuel ih =>
    simp only [recLoopU]
    by_cases he : step g = []
    · simp only [he, List.isEmpty_nil, if_true, Option.some.injEq]
      constructor
      · intro h
        exact ⟨0, Nat.succ_pos _, fun j hj => absurd hj (Nat.not_lt_zero _), by simpa [generation] using he, by simp [h]⟩
      · rintro ⟨k, _, hne, _, hout⟩
        cases k with
        | zero => simpa using hout.symm
        | succ k => exact absurd (by simpa [generation] using he) (hne 0 (Nat.succ_pos _))
    · have hne' : (step g).isEmpty = false := by
        cases h : step g with
        | nil => exact absurd h he
        | cons _ _ => rfl
      simp only [hne', Bool.false_eq_true, if_false]
      rw [ih]
      have key_eq : ∀ k, (if k = 0 then dedupBy key (acc ++ step g)
            else dedupBy key (dedupBy key (acc ++ step g) ++
              ((List.range k).map (fun j => generation step (step g) (j + 1))).flatten))
          = dedupBy key (acc ++ ((List.range (k + 1)).map (fun j => generation step g (j + 1))).flatten) := by
        intro k
        rw [gens_shift]
        cases k with
        | zero => simp
        | succ k =>
          rw [if_neg (Nat.succ_ne_zero k), dedupBy_absorb, List.append_assoc]
      constructor
      · rintro ⟨k, hk, hne, hemp, hout⟩
        refine ⟨k + 1, Nat.succ_lt_succ hk, ?_, ?_, ?_⟩
        · intro j hj
          cases j with
          | zero => simpa [generation] using he
          | succ j =>
            have := hne j (Nat.lt_of_succ_lt_succ hj)
            rwa [generation_shift] at this
        · rwa [generation_shift] at hemp
        · rw [if_neg (Nat.succ_ne_zero k), ← key_eq k]; exact hout
      · rintro ⟨k, hk, hne, hemp, hout⟩
        cases k with
        | zero => exact absurd (by simpa [generation] using hemp) he
        | succ k =>
          refine ⟨k, Nat.lt_of_succ_lt_succ hk, ?_, ?_, ?_⟩
          · intro j hj
            rw [generation_shift]
            exact hne (j + 1) (Nat.succ_lt_succ hj)
          · rw [generation_shift]; exact hemp
          · rw [key_eq k]; rw [if_neg (Nat.succ_ne_zero k)] at hout; exact hout

theorem recLoopU_none {κ : Type} [DecidableEq κ] (key : Row → κ) (step : List Row → List Row) (fuel : Nat)
    (acc g : List Row) :
    recLoopU key step fuel acc g = none ↔ ∀ j, j < fuel → generation step g (j + 1) ≠ [] := by
  induction fuel generalizing acc g with
  | zero => simp [recLoopU]
  | succ fuel ih =>
    simp only [recLoopU]
    by_cases he : step g = []
    · simp only [he, List.isEmpty_nil, if_true]
      constructor
      · intro h; cases h
      · intro h; exact absurd (by simpa [generation] using he) (h 0 (Nat.succ_pos _))
    · have hne' : (step g).isEmpty = false := by
        cases h : step g with
        | nil => exact absurd h he
        | cons _ _ => rfl
      simp only [hne', Bool.false_eq_true, if_false]
      rw [ih]
      constructor
      · intro h j hj
        cases j with
        | zero => simpa [generation] using he
        | succ j =>
          have := h j (Nat.lt_of_succ_lt_succ hj)
          rwa [generation_shift] at this
      · intro h j hj
        rw [generation_shift]
        exact h (j + 1) (Nat.succ_lt_succ hj)

/-! ## outer joins against an empty other side / with an always-true condition -/

theorem leftSpec_empty_right (wr : Nat) (L : List Row) (c : Cond) :
    leftSpec wr L [] c = L.map (fun l => l ++ nulls wr) := by
  unfold leftSpec
  simp only [List.filter_nil, List.isEmpty_nil, if_true]
  induction L with
  | nil => rfl
  | cons l ls ih => simp only [List.flatMap_cons, List.map_cons, ih, List.singleton_append]

theorem rightSpec_empty_left (wl : Nat) (R : List Row) (c : Cond) :
    rightSpec wl [] R c = R.map (fun r => nulls wl ++ r) := by
  unfold rightSpec
  simp only [List.filter_nil, List.isEmpty_nil, if_true]
  induction R with
  | nil => rfl
  | cons r rs ih => simp only [List.flatMap_cons, List.map_cons, ih, List.singleton_append]

/-! ## field resolution -/

theorem fieldIndexGo_sound (view : Option String) (name : String) (fs : List HField) (i : Nat) (idx : Option Nat) (k : Nat)
    (h : fieldIndexGo view name fs i idx = .ok k) :
    idx = some k ∨ ∃ j f, fs[j]? = some f ∧ k = i + j ∧ fieldMatches view name f = true := by
  induction fs generalizing i idx with
  | nil =>
    cases idx with
    | none => simp [fieldIndexGo] at h
    | some m => simp only [fieldIndexGo, Except.ok.injEq] at h; exact Or.inl (by rw [h])
  | cons f fs ih =>
    simp only [fieldIndexGo] at h
    by_cases hm : fieldMatches view name f = true
    · simp only [hm, if_true] at h
      by_cases hj : joinWins view name f = true
      · simp only [hj, if_true, Except.ok.injEq] at h
        exact Or.inr ⟨0, f, rfl, by omega, hm⟩
      · simp only [hj, Bool.false_eq_true, if_false] at h
        cases idx with
        | some m => simp at h
        | none =>
          simp only at h
          rcases ih (i + 1) (some i) h with h1 | ⟨j, g, hg, hk, hmg⟩
          · simp only [Option.some.injEq] at h1
            exact Or.inr ⟨0, f, rfl, by omega, hm⟩
          · exact Or.inr ⟨j + 1, g, by simpa using hg, by omega, hmg⟩
    · simp only [hm, Bool.false_eq_true, if_false] at h
      rcases ih (i + 1) idx h with h1 | ⟨j, g, hg, hk, hmg⟩
      · exact Or.inl h1
      · exact Or.inr ⟨j + 1, g, by simpa using hg, by omega, hmg⟩

/-- two candidates and no join column among the fields (or a qualified reference): AMBIGUOUS -/
theorem fieldIndexGo_ambiguous (view : Option String) (name : String) (fs : List HField) (i : Nat) (idx : Option Nat)
    (hnj : view.isSome = true ∨ ∀ f, f ∈ fs → f.isJoin = false)
    (hc : 2 ≤ fs.countP (fieldMatches view name) + (if idx.isSome then 1 else 0)) :
    fieldIndexGo view name fs i idx = .error .ambiguous := by
  induction fs generalizing i idx with
  | nil =>
    simp only [List.countP_nil, Nat.zero_add] at hc
    split at hc <;> omega
  | cons f fs ih =>
    have hnj' : view.isSome = true ∨ ∀ g, g ∈ fs → g.isJoin = false := by
      rcases hnj with h | h
      · exact Or.inl h
      · exact Or.inr (fun g hg => h g (List.mem_cons_of_mem _ hg))
    have hj : joinWins view name f = false := by
      unfold joinWins
      rcases hnj with h | h
      · cases view with
        | none => simp at h
        | some _ => rfl
      · simp [h f (List.mem_cons_self ..)]
    simp only [fieldIndexGo]
    by_cases hm : fieldMatches view name f = true
    · simp only [hm, if_true, hj, Bool.false_eq_true, if_false]
      cases idx with
      | some m => rfl
      | none =>
        simp only
        apply ih (i + 1) (some i) hnj'
        simp only [List.countP_cons, hm, if_true, Option.isSome_none, Bool.false_eq_true, if_false] at hc
        simp only [Option.isSome_some, if_true]
        omega
    · simp only [hm, Bool.false_eq_true, if_false]
      apply ih (i + 1) idx hnj'
      simpa [List.countP_cons, hm] using hc

/-- an unqualified reference stops at the first join column of that name when nothing before it matches -/
theorem fieldIndexGo_join_wins (name : String) (pre : List HField) (f : HField) (post : List HField) (i : Nat)
    (idx : Option Nat) (hpre : ∀ g, g ∈ pre → fieldMatches none name g = false)
    (hf : colEq f name = true) (hj : f.isJoin = true) :
    fieldIndexGo none name (pre ++ f :: post) i idx = .ok (i + pre.length) := by
  induction pre generalizing i with
  | nil => simp [fieldIndexGo, fieldMatches, joinWins, hf, hj]
  | cons g gs ih =>
    have hg := hpre g (List.mem_cons_self ..)
    simp only [List.cons_append, fieldIndexGo, hg, Bool.false_eq_true, if_false]
    rw [ih (i + 1) (fun x hx => hpre x (List.mem_cons_of_mem _ hx))]
    simp only [List.length_cons]
    congr 1
    omega

theorem fixHeader_isJoin (labels : List String) (h : List HField) (f : HField) (hf : f ∈ fixHeader labels h) :
    f.isJoin = false := by
  unfold fixHeader at hf
  induction h generalizing labels with
  | nil => simp at hf
  | cons x xs ih =>
    cases labels with
    | nil => simp at hf
    | cons l ls =>
      simp only [List.zipWith_cons_cons, List.mem_cons] at hf
      rcases hf with rfl | hf
      · rfl
      · exact ih ls hf

/-! ## lazy evaluation agrees with the total one where no reference is open -/

theorem evalExprE_pure (subs : SubEnv) (lw : Nat) (r : Row) (e : Expr) (h : exprPure e = true) :
    evalExprE subs lw r e = .ok (evalExpr lw r e) := by
  cases e <;> simp_all [exprPure, evalExprE]

theorem evalBetween_low_false (neg : Bool) (v lo hi hi' : Profile) (h : opGe v lo = .F) :
    evalBetween neg v lo hi = evalBetween neg v lo hi' := by
  unfold evalBetween
  simp [h]

theorem evalCondE_pure (subs : SubEnv) (lw : Nat) (r : Row) (c : CondE) (h : condPure c = true) :
    evalCondE subs lw r c = .ok (evalCond lw r c) := by
  induction c with
  | cmp op a b =>
    simp only [condPure, Bool.and_eq_true] at h
    simp only [evalCondE, evalCond, evalExprE_pure subs lw r a h.1, evalExprE_pure subs lw r b h.2]
    by_cases hn : (evalExpr lw r a).isNull = true
    · simp [hn, evalComparison]
    · simp [hn]
  | and a b iha ihb =>
    simp only [condPure, Bool.and_eq_true] at h
    simp only [evalCondE, evalCond, iha h.1, ihb h.2]
    by_cases hf : (ternP (evalCond lw r a)).tern = .F
    · simp [hf, evalAnd]
    · simp [hf]
  | or a b iha ihb =>
    simp only [condPure, Bool.and_eq_true] at h
    simp only [evalCondE, evalCond, iha h.1, ihb h.2]
    by_cases hf : (ternP (evalCond lw r a)).tern = .T
    · simp [hf, evalOr]
    · simp [hf]
  | not a iha =>
    simp only [condPure] at h
    simp only [evalCondE, evalCond, iha h]
  | isNull neg a =>
    simp only [condPure] at h
    simp only [evalCondE, evalCond, evalExprE_pure subs lw r a h]
  | between neg a lo hi =>
    simp only [condPure, Bool.and_eq_true] at h
    simp only [evalCondE, evalCond, evalExprE_pure subs lw r a h.1.1, evalExprE_pure subs lw r lo h.1.2, evalExprE_pure subs lw r hi h.2]
    by_cases hn : (evalExpr lw r a).isNull = true
    · simp [hn, evalBetween]
    · simp only [hn, Bool.false_eq_true, if_false]
      by_cases hl : opGe (evalExpr lw r a) (evalExpr lw r lo) = .F
      · simp only [hl, if_true]
        rw [evalBetween_low_false neg _ _ nullP (evalExpr lw r hi) hl]
      · simp [hl]
  | inList neg a l =>
    simp only [condPure] at h
    simp only [evalCondE, evalCond, evalExprE_pure subs lw r a h]
  | truth a =>
    simp only [condPure] at h
    simp only [evalCondE, evalCond, evalExprE_pure subs lw r a h]
  | like neg a p =>
    simp only [condPure, Bool.and_eq_true] at h
    simp only [evalCondE, evalCond, evalExprE_pure subs lw r a h.1, evalExprE_pure subs lw r p h.2]
  | «exists» s => simp [condPure] at h
  | inSub neg a s => simp [condPure] at h
  | anySub op a s => simp [condPure] at h
  | allSub op a s => simp [condPure] at h

/-! ## de-duplication: more absorption -/

theorem dedupAux_idem_sub {κ : Type} [DecidableEq κ] (key : Row → κ) (s t : List κ) (X : List Row)
    (hts : ∀ k, k ∈ t → k ∈ s) : dedupAux key s (dedupAux key t X) = dedupAux key s X := by
  induction X generalizing s t with
  | nil => rfl
  | cons x xs ih =>
    by_cases ht : key x ∈ t
    · have hs := hts _ ht
      simp only [dedupAux, ht, hs, if_true]
      exact ih s t hts
    · by_cases hs : key x ∈ s
      · simp only [dedupAux, ht, hs, if_true, if_false]
        exact ih s (key x :: t) (fun k hk => by
          rcases List.mem_cons.mp hk with rfl | h
          · exact hs
          · exact hts k h)
      · simp only [dedupAux, ht, hs, if_false]
        rw [ih (key x :: s) (key x :: t) (fun k hk => by
          rcases List.mem_cons.mp hk with rfl | h
          · exact List.mem_cons_self ..
          · exact List.mem_cons_of_mem _ (hts k h))]

theorem dedupAux_absorb_right {κ : Type} [DecidableEq κ] (key : Row → κ) (s : List κ) (A X : List Row) :
    dedupAux key s (A ++ dedupAux key [] X) = dedupAux key s (A ++ X) := by
  induction A generalizing s with
  | nil => exact dedupAux_idem_sub key s [] X (fun _ h => by cases h)
  | cons a as ih =>
    by_cases h : key a ∈ s
    · simp only [List.cons_append, dedupAux, h, if_true]; exact ih s
    · simp only [List.cons_append, dedupAux, h, if_false]; rw [ih]

theorem dedupBy_absorb_right {κ : Type} [DecidableEq κ] (key : Row → κ) (A X : List Row) :
    dedupBy key (A ++ dedupBy key X) = dedupBy key (A ++ X) := dedupAux_absorb_right key [] A X

theorem keyIn_filter {κ : Type} [DecidableEq κ] (key : Row → κ) (B C : List Row) (r : Row) :
    keyIn key (B.filter (fun b => keyIn key C b)) r = (keyIn key B r && keyIn key C r) := by
  unfold keyIn
  rw [Bool.eq_iff_iff]
  simp only [List.contains_iff_mem, List.mem_map, List.mem_filter, Bool.and_eq_true]
  constructor
  · rintro ⟨b, ⟨hb, c, hc, hcb⟩, hk⟩
    exact ⟨⟨b, hb, hk⟩, ⟨c, hc, by rw [hcb, hk]⟩⟩
  · rintro ⟨⟨b, hb, hk⟩, ⟨c, hc, hck⟩⟩
    exact ⟨b, ⟨hb, c, hc, by rw [hck, hk]⟩, hk⟩

/-! ## Kleene logic: NOT IN is the negation of IN -/

theorem tern_foldl_and_not (l : List Tern) (a : Tern) :
    (l.map Tern.not).foldl Tern.and a.not = (l.foldl Tern.or a).not := by
  induction l generalizing a with
  | nil => rfl
  | cons x xs ih =>
    simp only [List.map_cons, List.foldl_cons]
    have : Tern.and a.not x.not = (Tern.or a x).not := by cases a <;> cases x <;> rfl
    rw [this, ih]

theorem evalComparison_ne_not (v p : Profile) : evalComparison .ne v p = (evalComparison .eq v p).not := by
  unfold evalComparison
  by_cases h : v.isNull = true
  · simp [h, Tern.not]
  · simp only [h, Bool.false_eq_true, if_false, compare, opNe, opEq]
    cases cmp v p <;> rfl

/-! ## positions in merged records -/

theorem getElem?_append_nulls (l : Row) (wr j : Nat) (hj : j < wr) :
    ((l ++ nulls wr)[l.length + j]?).getD nullP = nullP := by
  rw [List.getElem?_append_right (by omega)]
  simp [nulls, hj]

theorem getElem?_append_right' (l r : Row) (j : Nat) : (l ++ r)[l.length + j]? = r[j]? := by
  rw [List.getElem?_append_right (by omega)]
  congr 1
  omega

/-! ## field resolution, characterised -/

/-- without a join column in play (qualified reference, or no flagged field) the loop of `FieldIndex` counts the
    matching fields: none = NOT FOUND, one = that field, more = AMBIGUOUS -/
theorem fieldIndexGo_char (view : Option String) (name : String) (fs : List HField) (i : Nat) (idx : Option Nat)
    (hnj : view.isSome = true ∨ ∀ f, f ∈ fs → f.isJoin = false) :
    fieldIndexGo view name fs i idx =
      match idx, fs.countP (fieldMatches view name) with
      | none, 0 => .error .notExist
      | none, 1 => .ok (i + fs.findIdx (fieldMatches view name))
      | some k, 0 => .ok k
      | _, _ => .error .ambiguous := by
  induction fs generalizing i idx with
  | nil => cases idx <;> simp [fieldIndexGo]
  | cons f fs ih =>
    have hnj' : view.isSome = true ∨ ∀ g, g ∈ fs → g.isJoin = false := by
      rcases hnj with h | h
      · exact Or.inl h
      · exact Or.inr (fun g hg => h g (List.mem_cons_of_mem _ hg))
    have hj : joinWins view name f = false := by
      unfold joinWins
      rcases hnj with h | h
      · cases view with
        | none => simp at h
        | some _ => rfl
      · simp [h f (List.mem_cons_self ..)]
    simp only [fieldIndexGo]
    by_cases hm : fieldMatches view name f = true
    · simp only [hm, if_true, hj, Bool.false_eq_true, if_false, List.countP_cons, List.findIdx_cons]
      cases idx with
      | some k => simp
      | none =>
        simp only
        rw [ih (i + 1) (some i) hnj']
        cases hc : fs.countP (fieldMatches view name) with
        | zero => simp
        | succ n => simp
    · simp only [hm, Bool.false_eq_true, if_false, List.countP_cons, List.findIdx_cons, Nat.add_zero]
      rw [ih (i + 1) idx hnj']
      simp only [cond_false]
      cases idx with
      | some k => cases fs.countP (fieldMatches view name) <;> rfl
      | none =>
        cases hc : fs.countP (fieldMatches view name) with
        | zero => rfl
        | succ n =>
          cases n with
          | zero => simp only; congr 1; omega
          | succ m => rfl

/-- exactly one element satisfies `p`, at position `k` -/
theorem countP_one_findIdx {α} (p : α → Bool) (l : List α) (k : Nat) :
    (l.countP p = 1 ∧ k = l.findIdx p) ↔
      (∃ x, l[k]? = some x ∧ p x = true) ∧ ∀ j y, l[j]? = some y → p y = true → j = k := by
  induction l generalizing k with
  | nil => simp
  | cons a as ih =>
    by_cases ha : p a = true
    · simp only [List.countP_cons, ha, if_true, List.findIdx_cons, cond_true]
      constructor
      · rintro ⟨hc, rfl⟩
        have hc0 : as.countP p = 0 := by omega
        refine ⟨⟨a, rfl, ha⟩, ?_⟩
        intro j y hj hy
        cases j with
        | zero => rfl
        | succ j =>
          simp only [List.getElem?_cons_succ] at hj
          have := List.countP_eq_zero.mp hc0 y (List.mem_of_getElem? hj)
          simp [hy] at this
      · rintro ⟨_, huniq⟩
        have hk : k = 0 := (huniq 0 a rfl ha).symm
        refine ⟨?_, hk⟩
        have : as.countP p = 0 := by
          apply List.countP_eq_zero.mpr
          intro y hy hpy
          obtain ⟨j, hj⟩ := List.getElem?_of_mem hy
          have := huniq (j + 1) y (by simpa using hj) (by simpa using hpy)
          omega
        omega
    · simp only [List.countP_cons, ha, Bool.false_eq_true, if_false, Nat.add_zero, List.findIdx_cons, cond_false]
      cases k with
      | zero =>
        simp only [List.getElem?_cons_zero, Option.some.injEq]
        constructor
        · rintro ⟨_, h⟩; omega
        · rintro ⟨⟨x, rfl, hx⟩, _⟩; exact absurd hx ha
      | succ k =>
        have := ih k
        simp only [List.getElem?_cons_succ]
        constructor
        · rintro ⟨hc, hk⟩
          have h' := this.mp ⟨hc, by omega⟩
          refine ⟨h'.1, ?_⟩
          intro j y hj hy
          cases j with
          | zero => simp only [List.getElem?_cons_zero, Option.some.injEq] at hj; subst hj; exact absurd hy ha
          | succ j =>
            simp only [List.getElem?_cons_succ] at hj
            have := h'.2 j y hj hy
            omega
        · rintro ⟨hex, huniq⟩
          have h' := this.mpr ⟨hex, fun j y hj hy => by
            have := huniq (j + 1) y (by simpa using hj) hy
            omega⟩
          exact ⟨h'.1, by omega⟩

/-! ## the other loops of header.go -/

theorem runLoop_find (p : HField → Bool) (fs : List HField) (i : Nat) (idx : Int) :
    runLoopShape p fs i idx = (match fs.findIdx? p with | some k => ((i + k : Nat) : Int) | none => idx) := by
  induction fs generalizing i with
  | nil => rfl
  | cons f fs ih =>
    simp only [runLoopShape, List.findIdx?_cons]
    by_cases h : p f = true
    · simp [h]
    · simp only [h, Bool.false_eq_true, if_false, cond_false]
      rw [ih (i + 1)]
      cases fs.findIdx? p with
      | none => rfl
      | some k => simp only [Option.map_some]; congr 1; omega

end Csvq.Rel
