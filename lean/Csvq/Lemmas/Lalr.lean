/-
  Csvq.Lemmas.Lalr — what `check P C = true` (Lemmas/LalrCheck.lean) means, and the invariant of the goyacc driver
  loop (Model/Lalr.lean) built on it:

    every table read and every stack read of `step` is in range, the invariant is preserved, and a loopMeasure
    (tokens left, then Σ weight + rank of the top state) strictly decreases with every round.

  The proofs never look inside the certificates: `Cert.row`, `Cert.lowIdx`, depth / weight / rank are arbitrary
  functions that happen to pass the checker.
-/
import Csvq.Lemmas.LalrCheck
namespace Csvq.Lalr

/-! ## the evaluation helpers -/

theorem allLt_spec {N : Nat} {f : Nat → Bool} (h : allLt N f = true) : ∀ i, i < N → f i = true := by
  induction N with
  | zero => intro i hi; omega
  | succ n ih =>
    have h' : (f n && allLt n f) = true := h
    rw [Bool.and_eq_true] at h'
    intro i hi
    by_cases hin : i = n
    · subst hin; exact h'.1
    · exact ih h'.2 i (by omega)

theorem cond_true_of {b : Bool} {x y : Bool} (hb : b = true) (h : cond b x y = true) : x = true := by
  subst hb; exact h

theorem cond_false_of {b : Bool} {x y : Bool} (hb : b = false) (h : cond b x y = true) : y = true := by
  subst hb; exact h

theorem blt_iff {a b : Nat} : blt a b = true ↔ a < b := by
  unfold blt
  rw [Nat.ble_eq]
  exact Nat.succ_le_iff

theorem tbit_eq_testBit (x i : Nat) : tbit x i = x.testBit i := by
  unfold tbit Nat.testBit
  show Nat.beq ((x >>> i) &&& 1) 1 = (1 &&& x >>> i != 0)
  rw [Nat.and_comm 1, Nat.and_one_is_mod]
  rcases Nat.mod_two_eq_zero_or_one (x >>> i) with h | h <;> rw [h] <;> rfl

/-- `S % 2^(i+1) = 2^i`: bit `i` is the lowest set bit of `S` -/
theorem lowest_bit {S i : Nat} (h : S % 2 ^ (i + 1) = 2 ^ i) :
    S.testBit i = true ∧ (∀ j, j < i → S.testBit j = false) ∧
    (∀ j, i < j → (S - 2 ^ i).testBit j = S.testBit j) := by
  have hS : 2 ^ (i + 1) * (S / 2 ^ (i + 1)) + 2 ^ i = S := by
    have := Nat.div_add_mod S (2 ^ (i + 1)); rw [h] at this; exact this
  have hlt : 2 ^ i < 2 ^ (i + 1) := Nat.pow_lt_pow_right (by omega) (by omega)
  have hbit : ∀ j, S.testBit j = if j < i + 1 then (2 ^ i).testBit j else (S / 2 ^ (i + 1)).testBit (j - (i + 1)) := by
    intro j
    rw [← hS]
    rw [Nat.testBit_two_pow_mul_add _ hlt]
    congr 1
    rw [hS]
  refine ⟨?_, ?_, ?_⟩
  · rw [hbit i, if_pos (by omega), Nat.testBit_two_pow_self]
  · intro j hj
    rw [hbit j, if_pos (by omega), Nat.testBit_two_pow]
    simp; omega
  · intro j hj
    have hsub : S - 2 ^ i = 2 ^ (i + 1) * (S / 2 ^ (i + 1)) := by omega
    rw [hsub, Nat.testBit_two_pow_mul, hbit j, if_neg (by omega)]
    simp; omega

variable {C : Cert}

theorem allBits_spec {n : Nat} {f : Nat → Bool} : ∀ {fuel S : Nat}, allBits C n f fuel S = true →
    ∀ j, S.testBit j = true → f j = true := by
  intro fuel
  induction fuel with
  | zero =>
    intro S h j hj
    have h0 : Nat.beq S 0 = true := h
    rw [Nat.beq_eq] at h0
    subst h0
    simp at hj
  | succ fuel ih =>
    intro S h j hj
    have h' : force S (fun S => cond (Nat.beq S 0) true
        (force (C.lowIdx n S) fun i =>
          and (Nat.beq (Nat.mod S (Nat.pow 2 (Nat.succ i))) (Nat.pow 2 i))
            (and (f i) (allBits C n f fuel (Nat.sub S (Nat.pow 2 i)))))) = true := h
    rw [force_eq] at h'
    by_cases hS : S = 0
    · subst hS; simp at hj
    · have hb : Nat.beq S 0 = false := by
        cases hb : Nat.beq S 0
        · rfl
        · rw [Nat.beq_eq] at hb; exact absurd hb hS
      rw [hb, force_eq] at h'
      simp only [cond_false, Bool.and_eq_true] at h'
      obtain ⟨hv, hf, hr⟩ := h'
      rw [Nat.beq_eq] at hv
      have hv' : S % 2 ^ (C.lowIdx n S + 1) = 2 ^ C.lowIdx n S := hv
      obtain ⟨_, hlow, hhigh⟩ := lowest_bit hv'
      rcases Nat.lt_trichotomy j (C.lowIdx n S) with hlt | heq | hgt
      · rw [hlow j hlt] at hj; exact absurd hj (by simp)
      · rw [heq]; exact hf
      · exact ih hr j (by
          have := hhigh j hgt
          show (S - 2 ^ C.lowIdx n S).testBit j = true
          rw [this]; exact hj)

theorem foldBits_spec {n : Nat} {p : Nat → Bool} {f : Nat → Nat → Nat} {k : Nat → Bool} : ∀ {fuel S acc : Nat},
    foldBits C n p f fuel S acc k = true →
    ∃ L : List Nat, (∀ j, S.testBit j = true → j ∈ L ∧ p j = true) ∧ k (L.foldl f acc) = true := by
  intro fuel
  induction fuel with
  | zero =>
    intro S acc h
    have h0 : (Nat.beq S 0 && k acc) = true := h
    rw [Bool.and_eq_true, Nat.beq_eq] at h0
    refine ⟨[], ?_, h0.2⟩
    intro j hj; rw [h0.1] at hj; simp at hj
  | succ fuel ih =>
    intro S acc h
    have h' : force S (fun S => cond (Nat.beq S 0) (k acc)
        (force (C.lowIdx n S) fun i =>
          and (Nat.beq (Nat.mod S (Nat.pow 2 (Nat.succ i))) (Nat.pow 2 i))
            (and (p i) (force (f acc i) fun acc' => foldBits C n p f fuel (Nat.sub S (Nat.pow 2 i)) acc' k)))) = true := h
    rw [force_eq] at h'
    by_cases hS : S = 0
    · subst hS
      refine ⟨[], ?_, ?_⟩
      · intro j hj; simp at hj
      · simpa using h'
    · have hb : Nat.beq S 0 = false := by
        cases hb : Nat.beq S 0
        · rfl
        · rw [Nat.beq_eq] at hb; exact absurd hb hS
      rw [hb, force_eq] at h'
      simp only [cond_false, Bool.and_eq_true] at h'
      obtain ⟨hv, hp, hr⟩ := h'
      rw [force_eq] at hr
      rw [Nat.beq_eq] at hv
      have hv' : S % 2 ^ (C.lowIdx n S + 1) = 2 ^ C.lowIdx n S := hv
      obtain ⟨_, hlow, hhigh⟩ := lowest_bit hv'
      obtain ⟨L, hL, hk⟩ := ih hr
      refine ⟨C.lowIdx n S :: L, ?_, ?_⟩
      · intro j hj
        rcases Nat.lt_trichotomy j (C.lowIdx n S) with hlt | heq | hgt
        · rw [hlow j hlt] at hj; exact absurd hj (by simp)
        · rw [heq]; exact ⟨List.mem_cons_self, hp⟩
        · have := hhigh j hgt
          have hj' : (S - 2 ^ C.lowIdx n S).testBit j = true := by rw [this]; exact hj
          exact ⟨List.mem_cons_of_mem _ (hL j hj').1, (hL j hj').2⟩
      · simpa using hk

/-- folding `|||` of rows: a member's row is inside the result -/
theorem foldl_lor_mem {row : Nat → Nat} : ∀ (L : List Nat) (acc u t : Nat),
    (acc.testBit t = true ∨ (u ∈ L ∧ (row u).testBit t = true)) →
    (L.foldl (fun acc u => Nat.lor acc (row u)) acc).testBit t = true := by
  intro L
  induction L with
  | nil => intro acc u t h; rcases h with h | ⟨h, _⟩; exact h; exact absurd h (by simp)
  | cons x L ih =>
    intro acc u t h
    simp only [List.foldl_cons]
    apply ih (Nat.lor acc (row x)) u t
    have hor : (Nat.lor acc (row x)).testBit t = (acc.testBit t || (row x).testBit t) := Nat.testBit_or acc (row x) t
    rcases h with h | ⟨hm, ht⟩
    · left; rw [hor, h]; rfl
    · rcases List.mem_cons.mp hm with rfl | hm'
      · left; rw [hor, ht]; simp
      · right; exact ⟨hm', ht⟩

/-- folding the minimum of weights: the result is at most the start value and every member's weight -/
theorem foldl_min_le {w : Nat → Nat} : ∀ (L : List Nat) (acc : Nat),
    L.foldl (fun acc x => cond (Nat.ble acc (w x)) acc (w x)) acc ≤ acc ∧
    ∀ x ∈ L, L.foldl (fun acc x => cond (Nat.ble acc (w x)) acc (w x)) acc ≤ w x := by
  intro L
  induction L with
  | nil => intro acc; exact ⟨Nat.le_refl _, by simp⟩
  | cons y L ih =>
    intro acc
    simp only [List.foldl_cons]
    have hstep : cond (Nat.ble acc (w y)) acc (w y) ≤ acc ∧ cond (Nat.ble acc (w y)) acc (w y) ≤ w y := by
      cases hb : Nat.ble acc (w y)
      · have : ¬ acc ≤ w y := by rw [← Nat.ble_eq, hb]; simp
        simp only [cond_false]; omega
      · have : acc ≤ w y := by rw [← Nat.ble_eq, hb]
        simp only [cond_true]; omega
    obtain ⟨h1, h2⟩ := ih (cond (Nat.ble acc (w y)) acc (w y))
    refine ⟨Nat.le_trans h1 hstep.1, ?_⟩
    intro x hx
    rcases List.mem_cons.mp hx with rfl | hx'
    · exact Nat.le_trans h1 hstep.2
    · exact h2 x hx'

/-! ## reads of the packed tables -/

theorem Packed.get_eq (p : Packed) (i : Nat) : p.get i = (p.raw i : Int) - 32768 := rfl

theorem Packed.size_toArray (p : Packed) : p.arrayTab.size = p.size := by
  rw [Packed.arrayTab_eq]; rfl

theorem rd_packed (w : Where) (p : Packed) (i : Int) :
    rd w p.arrayTab i = if 0 ≤ i ∧ i.toNat < p.size then .ok (p.get i.toNat) else .error w := by
  rw [Packed.arrayTab_eq]
  unfold rd Packed.tab
  by_cases h0 : 0 ≤ i
  · rw [if_pos h0]
    by_cases h1 : i.toNat < p.size
    · simp only [if_pos h1, if_pos (And.intro h0 h1)]
    · simp only [if_neg h1, if_neg (fun h : 0 ≤ i ∧ i.toNat < p.size => h1 h.2)]
  · rw [if_neg h0, if_neg (fun h => h0 h.1)]

theorem rd_ok {w : Where} {p : Packed} {i : Int} (h0 : 0 ≤ i) (h1 : i.toNat < p.size) :
    rd w p.arrayTab i = .ok (p.get i.toNat) := by
  rw [rd_packed, if_pos ⟨h0, h1⟩]

theorem rd_ok_nat {w : Where} {p : Packed} {i : Nat} (h1 : i < p.size) :
    rd w p.arrayTab (i : Int) = .ok (p.get i) := by
  have := rd_ok (w := w) (p := p) (i := (i : Int)) (by omega) (by simpa using h1)
  simpa using this

/-! ## what the checker establishes -/

variable (P : PTables) (C : Cert)

/-- the per-state part of `statesOK` -/
noncomputable def stateOK (s : Nat) : Bool :=
  cond (Nat.beq (P.dflt.raw s) 32766)
    (findBlock P s (fun b => blockAll P (actionOK P C s) P.exca.size (Nat.add b 2)) P.exca.size 0)
    (and (Nat.ble 32768 (P.dflt.raw s)) (actionOK P C s (P.dflt.raw s)))

structure Facts : Prop where
  dfltSize : P.dflt.size = P.n
  chkSize : P.chk.size = P.n
  r1Size : P.r1.size = P.r2.size
  last : P.last = P.act.size
  nPos : 1 ≤ P.n
  tok1Size : 1 ≤ P.tok1.size
  tok2Size : 2 ≤ P.tok2.size
  errLo : 0 ≤ P.errCode
  errHi : P.errCode ≤ C.maxTok
  eofNeg : P.scanEOF < 0
  actSmall : P.act.size < 32768
  maxTokSmall : C.maxTok < 32768
  depth0 : C.depth.raw 0 = 0
  act : ∀ i, i < P.act.size → 32768 ≤ P.act.raw i ∧ P.act.raw i < 32768 + P.n
  prod : ∀ p, p < P.r2.size → 32768 ≤ P.r2.raw p ∧ 32768 ≤ P.r1.raw p ∧ P.r1.raw p < 32768 + P.pgo.size
  pgo : ∀ a, a < P.pgo.size → 32768 ≤ P.pgo.raw a ∧ P.pgo.raw a < 32768 + P.act.size
  tok1 : ∀ i, i < P.tok1.size → 32768 ≤ P.tok1.raw i ∧ P.tok1.raw i ≤ 32768 + C.maxTok
  tok2 : ∀ i, i < P.tok2.size → 32768 ≤ P.tok2.raw i ∧ P.tok2.raw i ≤ 32768 + C.maxTok
  tok3 : ∀ i, i < P.tok3.size → 32768 ≤ P.tok3.raw i ∧ P.tok3.raw i ≤ 32768 + C.maxTok
  tok3Pair : ∀ i, i < P.tok3.size → P.tok3.raw i ≤ 32768 ∨ i + 1 < P.tok3.size
  noErrShift : ∀ s, s < P.n → shiftK P s P.errCode.toNat (fun _ => false) = true
  noEofShift : ∀ s, s < P.n → shiftK P s (eofTok P) (fun _ => false) = true
  shiftClosed : ∀ s, s < P.n → ∀ t, t ≤ C.maxTok → shiftK P s t (fun u => C.isBelow P.n u s) = true
  states : ∀ s, s < P.n → stateOK P C s = true
  depthStep : ∀ u, u < P.n → ∀ t, (C.row P.n u).testBit t = true → C.depth.raw u ≤ C.depth.raw t + 1
  bounded : ∀ u, u < P.n → C.weight.raw u + C.rank.raw u ≤ C.bound
  gotoDefault : ∀ p, 0 < p → p < P.r2.size →
    P.chk.raw (unb (P.act.raw (unb (P.pgo.raw (unb (P.r1.raw p)))))) + unb (P.r1.raw p) = 32768

theorem tokTab_spec {t : Packed} (h : tokTabOK C t = true) :
    ∀ i, i < t.size → 32768 ≤ t.raw i ∧ t.raw i ≤ 32768 + C.maxTok := by
  intro i hi
  have := allLt_spec h i hi
  rw [force_eq, Bool.and_eq_true, Nat.ble_eq, Nat.ble_eq] at this
  exact ⟨this.1, by have := this.2; simpa [Nat.add_eq] using this⟩

theorem facts_of_check (h : check P C = true) : Facts P C := by
  unfold check at h
  simp only [Bool.and_eq_true] at h
  obtain ⟨⟨⟨⟨⟨⟨⟨⟨⟨⟨⟨⟨hsz, hact⟩, hprod⟩, hpgo⟩, ht1⟩, ht2⟩, ht3⟩, ht3p⟩, hns⟩, hsc⟩, hst⟩, hd⟩, hgd⟩ := h
  unfold sizesOK at hsz
  simp only [Bool.and_eq_true, decide_eq_true_eq] at hsz
  obtain ⟨⟨⟨⟨⟨⟨⟨⟨⟨⟨⟨⟨z1, z2⟩, z3⟩, z4⟩, z5⟩, z6⟩, z7⟩, z8⟩, z9⟩, z10⟩, z11⟩, z12⟩, z13⟩ := hsz
  refine ⟨z1, z2, z3, z4, z5, z6, z7, z8, z9, z10, z11, z12, z13, ?_, ?_, ?_,
    tokTab_spec C ht1, tokTab_spec C ht2, tokTab_spec C ht3, ?_, ?_, ?_, ?_, ?_, ?_, ?_, ?_⟩
  · -- act
    intro i hi
    have := allLt_spec hact i hi
    rw [force_eq, Bool.and_eq_true, Nat.ble_eq, blt_iff] at this
    exact ⟨this.1, by have := this.2; simpa [Nat.add_eq] using this⟩
  · -- prod
    intro p hp
    have := allLt_spec hprod p hp
    rw [force_eq, Bool.and_eq_true, Bool.and_eq_true, Nat.ble_eq, Nat.ble_eq, blt_iff] at this
    exact ⟨this.1, this.2.1, by have := this.2.2; simpa [Nat.add_eq] using this⟩
  · -- pgo
    intro a ha
    have := allLt_spec hpgo a ha
    rw [force_eq, Bool.and_eq_true, Nat.ble_eq, blt_iff] at this
    exact ⟨this.1, by have := this.2; simpa [Nat.add_eq] using this⟩
  · -- tok3Pair
    intro i hi
    have := allLt_spec ht3p i hi
    rw [Bool.or_eq_true, Nat.ble_eq, blt_iff] at this
    rcases this with h | h
    · exact Or.inl h
    · exact Or.inr (by simpa using h)
  · intro s hs
    have := allLt_spec hns s hs
    rw [Bool.and_eq_true] at this
    exact this.1
  · intro s hs
    have := allLt_spec hns s hs
    rw [Bool.and_eq_true] at this
    exact this.2
  · -- shiftClosed
    intro s hs t ht
    have := allLt_spec hsc s hs
    rw [force_eq] at this
    cases hskip : (blt (Nat.add (P.pact.raw s) C.maxTok) 32768 || Nat.ble (Nat.add 32768 P.act.size) (P.pact.raw s))
    · rw [show (or (blt (Nat.add (P.pact.raw s) C.maxTok) 32768) (Nat.ble (Nat.add 32768 P.act.size) (P.pact.raw s))) = false from hskip] at this
      simp only [cond_false] at this
      exact allLt_spec this t (by simpa using Nat.lt_succ_of_le ht)
    · -- the skipped rows shift nothing
      rw [Bool.or_eq_true, blt_iff, Nat.ble_eq] at hskip
      unfold shiftK
      rw [force_eq]
      have : (Nat.ble 32768 (Nat.add (P.pact.raw s) t) && blt (Nat.add (P.pact.raw s) t) (Nat.add 32768 P.act.size)) = false := by
        rw [Bool.and_eq_false_iff]
        rcases hskip with h | h
        · left
          cases hb : Nat.ble 32768 (Nat.add (P.pact.raw s) t)
          · rfl
          · rw [Nat.ble_eq] at hb
            simp only [Nat.add_eq] at hb h
            omega
        · right
          cases hb : blt (Nat.add (P.pact.raw s) t) (Nat.add 32768 P.act.size)
          · rfl
          · rw [blt_iff] at hb
            simp only [Nat.add_eq] at hb h
            omega
      rw [show (and (Nat.ble 32768 (Nat.add (P.pact.raw s) t)) (blt (Nat.add (P.pact.raw s) t) (Nat.add 32768 P.act.size))) = false from this]
      rfl
  · -- states
    intro s hs
    have := allLt_spec hst s hs
    rw [force_eq] at this
    exact this
  · -- depthStep
    intro u hu t ht
    have := allLt_spec hd u hu
    rw [force_eq, Bool.and_eq_true] at this
    have h2 := allBits_spec this.1 t ht
    rw [Nat.ble_eq] at h2
    exact h2
  · intro u hu
    have := allLt_spec hd u hu
    rw [force_eq, Bool.and_eq_true, Nat.ble_eq] at this
    exact this.2
  · -- gotoDefault
    intro p hp0 hp
    have := allLt_spec hgd p hp
    have hb : Nat.beq p 0 = false := by
      cases hb : Nat.beq p 0
      · rfl
      · rw [Nat.beq_eq] at hb; omega
    have h2 := cond_false_of hb this
    rw [force_eq, Nat.beq_eq] at h2
    exact h2

/-! ## the table functions of the checker, read back -/

section specs
variable {P C}

/-- `omega` after unfolding `unb` everywhere (only to close a goal: the unfolded form must not meet the unifier) -/
macro "uomega" : tactic => `(tactic| ((try simp only [unb_def] at *) <;> omega))

/-- a shift the driver can make satisfies the continuation of `shiftK` -/
theorem shiftK_spec {s t : Nat} {k : Nat → Bool} (h : shiftK P s t k = true)
    (h1 : 32768 ≤ P.pact.raw s + t) (h2 : P.pact.raw s + t < 32768 + P.act.size)
    (h3 : P.chk.raw (unb (P.act.raw (unb (P.pact.raw s + t)))) = t + 32768) :
    k (unb (P.act.raw (unb (P.pact.raw s + t)))) = true := by
  unfold shiftK at h
  rw [force_eq] at h
  have hc : (Nat.ble 32768 (Nat.add (P.pact.raw s) t) && blt (Nat.add (P.pact.raw s) t) (Nat.add 32768 P.act.size)) = true := by
    rw [Bool.and_eq_true, Nat.ble_eq, blt_iff]
    exact ⟨h1, h2⟩
  have h' := cond_true_of hc h
  rw [force_eq] at h'
  have hc2 : Nat.beq (P.chk.raw (unb (P.act.raw (unb (Nat.add (P.pact.raw s) t))))) (Nat.add t 32768) = true := by
    rw [Nat.beq_eq]; exact h3
  exact cond_true_of hc2 h'

/-- `gotoK` unfolded with the usual operations -/
theorem gotoK_eq (t nt : Nat) : gotoK P t nt =
    (if P.act.size ≤ unb (P.pgo.raw nt) + t + 1 then unb (P.act.raw (unb (P.pgo.raw nt)))
     else if P.chk.raw (unb (P.act.raw (unb (P.pgo.raw nt) + t + 1))) + nt = 32768
       then unb (P.act.raw (unb (P.pgo.raw nt) + t + 1))
       else unb (P.act.raw (unb (P.pgo.raw nt)))) := by
  unfold gotoK
  simp only [force_eq, Nat.add_eq]
  by_cases h1 : P.act.size ≤ unb (P.pgo.raw nt) + t + 1
  · rw [if_pos h1]
    have : Nat.ble P.act.size (unb (P.pgo.raw nt) + t + 1) = true := by rw [Nat.ble_eq]; exact h1
    rw [this, cond_true]
  · rw [if_neg h1]
    have : Nat.ble P.act.size (unb (P.pgo.raw nt) + t + 1) = false := by
      cases hb : Nat.ble P.act.size (unb (P.pgo.raw nt) + t + 1)
      · rfl
      · rw [Nat.ble_eq] at hb; exact absurd hb h1
    rw [this, cond_false]
    by_cases h2 : P.chk.raw (unb (P.act.raw (unb (P.pgo.raw nt) + t + 1))) + nt = 32768
    · rw [if_pos h2]
      have : Nat.beq (P.chk.raw (unb (P.act.raw (unb (P.pgo.raw nt) + t + 1))) + nt) 32768 = true := by
        rw [Nat.beq_eq]; exact h2
      rw [this, cond_true]
    · rw [if_neg h2]
      have : Nat.beq (P.chk.raw (unb (P.act.raw (unb (P.pgo.raw nt) + t + 1))) + nt) 32768 = false := by
        cases hb : Nat.beq (P.chk.raw (unb (P.act.raw (unb (P.pgo.raw nt) + t + 1))) + nt) 32768
        · rfl
        · rw [Nat.beq_eq] at hb; exact absurd hb h2
      rw [this, cond_false]

theorem gotoK_lt (F : Facts P C) {t nt : Nat} (hnt : nt < P.pgo.size) : gotoK P t nt < P.n := by
  rw [gotoK_eq]
  have hg := F.pgo nt hnt
  have hag := F.act (unb (P.pgo.raw nt)) (by uomega)
  split
  · uomega
  · rename_i h1
    have haj := F.act (unb (P.pgo.raw nt) + t + 1) (by uomega)
    split <;> uomega

/-- the state a goto leads to was entered on the nonterminal of the production -/
theorem gotoK_chk (F : Facts P C) {p : Nat} (hp0 : 0 < p) (hp : p < P.r2.size) (t : Nat) :
    P.chk.raw (gotoK P t (unb (P.r1.raw p))) + unb (P.r1.raw p) = 32768 := by
  rw [gotoK_eq]
  split
  · exact F.gotoDefault p hp0 hp
  · split
    · rename_i h2; exact h2
    · exact F.gotoDefault p hp0 hp

/-- the stack: each entry lists the one below it among its possible lower neighbours -/
def Chain (C : Cert) (n : Nat) : List Nat → Prop
  | [] => True
  | [_] => True
  | x :: y :: l => C.isBelow n x y = true ∧ Chain C n (y :: l)

theorem Chain.tail {n : Nat} {x : Nat} {l : List Nat} (h : Chain C n (x :: l)) : Chain C n l := by
  cases l with
  | nil => trivial
  | cons y l => exact h.2

theorem Chain.drop {n : Nat} : ∀ (k : Nat) {l : List Nat}, Chain C n l → Chain C n (l.drop k)
  | 0, _, h => by simpa using h
  | k + 1, [], _ => by simp [Chain]
  | k + 1, _ :: l, h => by
    simp only [List.drop_succ_cons]
    exact Chain.drop k h.tail

def wsum (C : Cert) (l : List Nat) : Nat := (l.map C.weight.raw).sum

theorem reduceGo_zero_nil (s nt S w : Nat) : reduceGo P C s nt 0 S w [] =
    force (Nat.add (C.rank.raw s) w) fun budget =>
      allBits C P.n (fun t =>
        force (gotoK P t nt) fun u =>
          and (C.isBelow P.n u t) (blt (Nat.add (C.weight.raw u) (C.rank.raw u)) budget)) P.n S := rfl

theorem reduceGo_zero_cons (s nt S w e : Nat) (rest : List Nat) : reduceGo P C s nt 0 S w (e :: rest) = false := rfl

theorem reduceGo_succ_nil (s nt l S w : Nat) : reduceGo P C s nt (l + 1) S w [] = false := rfl

theorem reduceGo_succ_cons (s nt l S w e : Nat) (rest : List Nat) : reduceGo P C s nt (l + 1) S w (e :: rest) =
    force S fun S => force w fun w =>
      foldBits C P.n (fun _ => true) (fun acc u => Nat.lor acc (C.row P.n u)) P.n S 0 fun S' =>
        foldBits C P.n (fun x => Nat.beq (P.chk.raw x) e)
          (fun acc x => cond (Nat.ble acc (C.weight.raw x)) acc (C.weight.raw x)) P.n S (Nat.succ C.bound) fun w' =>
            reduceGo P C s nt l S' (Nat.add w w') rest := rfl

/-- what `reduceGo` guarantees for every stack the invariant allows: the exposed state `t` records … (as before), and
    the popped states were entered on the symbols `exp` -/
theorem reduceGo_spec {s nt : Nat} : ∀ {levels S w : Nat} {exp : List Nat}, reduceGo P C s nt levels S w exp = true →
    ∀ (x : Nat) (l : List Nat), Chain C P.n (x :: l) → S.testBit x = true → levels ≤ l.length →
      (∃ t, ((x :: l).drop levels).head? = some t ∧ C.isBelow P.n (gotoK P t nt) t = true ∧
        C.weight.raw (gotoK P t nt) + C.rank.raw (gotoK P t nt) <
          C.rank.raw s + w + wsum C ((x :: l).take levels)) ∧
      ((x :: l).take levels).map P.chk.raw = exp := by
  intro levels
  induction levels with
  | zero =>
    intro S w exp h x l _ hx _
    cases exp with
    | cons e rest => rw [reduceGo_zero_cons] at h; exact absurd h (by simp)
    | nil =>
      rw [reduceGo_zero_nil, force_eq] at h
      have := allBits_spec h x hx
      rw [force_eq, Bool.and_eq_true, blt_iff] at this
      refine ⟨⟨x, by simp, this.1, ?_⟩, by simp⟩
      have h2 := this.2
      simp only [Nat.add_eq] at h2
      simp [wsum]
      omega
  | succ levels ih =>
    intro S w exp h x l hc hx hlen
    cases exp with
    | nil => rw [reduceGo_succ_nil] at h; exact absurd h (by simp)
    | cons e rest =>
      rw [reduceGo_succ_cons, force_eq, force_eq] at h
      obtain ⟨L1, hL1, h1⟩ := foldBits_spec h
      obtain ⟨L2, hL2, h2⟩ := foldBits_spec h1
      cases l with
      | nil => simp at hlen
      | cons y l =>
        have hxy : C.isBelow P.n x y = true := hc.1
        have hy : (L1.foldl (fun acc u => Nat.lor acc (C.row P.n u)) 0).testBit y = true := by
          apply foldl_lor_mem (row := C.row P.n) L1 0 x y
          right
          refine ⟨(hL1 x hx).1, ?_⟩
          unfold Cert.isBelow at hxy
          rw [tbit_eq_testBit] at hxy
          exact hxy
        obtain ⟨⟨t, ht, hb, hlt⟩, hexp⟩ := ih h2 y l hc.2 hy (by simpa using hlen)
        have hxe : P.chk.raw x = e := by
          have := (hL2 x hx).2
          rw [Nat.beq_eq] at this; exact this
        refine ⟨⟨t, by simpa using ht, hb, ?_⟩, ?_⟩
        · have hmin := (foldl_min_le (w := C.weight.raw) L2 (Nat.succ C.bound)).2 x (hL2 x hx).1
          simp only [Nat.add_eq] at hlt
          simp only [List.take_succ_cons, wsum, List.map_cons, List.sum_cons] at hlt ⊢
          omega
        · simp only [List.take_succ_cons, List.map_cons]
          rw [hxe, hexp]

/-- an action that is a reduction: the production exists, the stack is deep enough, `reduceGo` holds -/
theorem actionOK_spec {s y : Nat} (h : actionOK P C s y = true) (hy : 32768 < y) :
    unb y < P.r2.size ∧ unb (P.r2.raw (unb y)) ≤ C.depth.raw s ∧
    reduceGo P C s (unb (P.r1.raw (unb y))) (unb (P.r2.raw (unb y))) (2 ^ s) 0 (nthL C.rhsTop (unb y)) = true := by
  unfold actionOK at h
  have hc : Nat.ble y 32768 = false := by
    cases hb : Nat.ble y 32768
    · rfl
    · rw [Nat.ble_eq] at hb; omega
  have h' := cond_false_of hc h
  rw [force_eq, Bool.and_eq_true, force_eq, Bool.and_eq_true, blt_iff, Nat.ble_eq] at h'
  exact ⟨h'.1, h'.2.1, h'.2.2⟩

/-- the depth bound holds along every stack -/
theorem depth_le (F : Facts P C) : ∀ (l : List Nat) (x : Nat), (∀ z ∈ x :: l, z < P.n) → Chain C P.n (x :: l) →
    (x :: l).getLast? = some 0 → C.depth.raw x + 1 ≤ l.length + 1 := by
  intro l
  induction l with
  | nil =>
    intro x _ _ hb
    simp at hb
    subst hb
    rw [F.depth0]; simp
  | cons y l ih =>
    intro x hv hc hb
    have hxy : C.isBelow P.n x y = true := hc.1
    unfold Cert.isBelow at hxy
    rw [tbit_eq_testBit] at hxy
    have hd := F.depthStep x (hv x (by simp)) y hxy
    have := ih y (fun z hz => hv z (List.mem_cons_of_mem _ hz)) hc.2 (by simpa using hb)
    simp only [List.length_cons] at this ⊢
    omega

end specs

/-! ## the lexer side of the model -/

section model
variable {P C}

@[simp] theorem toTables_tok1 : P.toTables.tok1 = P.tok1.arrayTab := rfl
@[simp] theorem toTables_tok2 : P.toTables.tok2 = P.tok2.arrayTab := rfl
@[simp] theorem toTables_tok3 : P.toTables.tok3 = P.tok3.arrayTab := rfl
@[simp] theorem toTables_exca : P.toTables.exca = P.exca.arrayTab := rfl
@[simp] theorem toTables_act : P.toTables.act = P.act.arrayTab := rfl
@[simp] theorem toTables_pact : P.toTables.pact = P.pact.arrayTab := rfl
@[simp] theorem toTables_pgo : P.toTables.pgo = P.pgo.arrayTab := rfl
@[simp] theorem toTables_r1 : P.toTables.r1 = P.r1.arrayTab := rfl
@[simp] theorem toTables_r2 : P.toTables.r2 = P.r2.arrayTab := rfl
@[simp] theorem toTables_chk : P.toTables.chk = P.chk.arrayTab := rfl
@[simp] theorem toTables_dflt : P.toTables.dflt = P.dflt.arrayTab := rfl
@[simp] theorem toTables_last : P.toTables.last = P.last := rfl
@[simp] theorem toTables_priv : P.toTables.priv = P.priv := rfl
@[simp] theorem toTables_flag : P.toTables.flag = P.flag := rfl
@[simp] theorem toTables_eofCode : P.toTables.eofCode = P.eofCode := rfl
@[simp] theorem toTables_errCode : P.toTables.errCode = P.errCode := rfl
@[simp] theorem toTables_unknownChar : P.toTables.unknownChar = P.unknownChar := rfl
@[simp] theorem toTables_scanEOF : P.toTables.scanEOF = P.scanEOF := rfl
@[simp] theorem toTables_scanUncategorized : P.toTables.scanUncategorized = P.scanUncategorized := rfl

/-- a token number: `0 … maxTok` -/
def TokOK (C : Cert) (t : Int) : Prop := 0 ≤ t ∧ t ≤ C.maxTok

theorem tokOK_get1 (F : Facts P C) {i : Nat} (hi : i < P.tok1.size) : TokOK C (P.tok1.get i) := by
  have := F.tok1 i hi; rw [Packed.get_eq]; unfold TokOK; omega
theorem tokOK_get2 (F : Facts P C) {i : Nat} (hi : i < P.tok2.size) : TokOK C (P.tok2.get i) := by
  have := F.tok2 i hi; rw [Packed.get_eq]; unfold TokOK; omega
theorem tokOK_get3 (F : Facts P C) {i : Nat} (hi : i < P.tok3.size) : TokOK C (P.tok3.get i) := by
  have := F.tok3 i hi; rw [Packed.get_eq]; unfold TokOK; omega

theorem lexOut_spec (F : Facts P C) {tk : Int} (h : TokOK C tk) :
    ∃ t, lexOut P.toTables tk = .ok t ∧ TokOK C t ∧ (tk = 0 → t = P.tok2.get 1) ∧ (tk ≠ 0 → t = tk) := by
  unfold lexOut
  by_cases h0 : tk = 0
  · rw [if_pos h0, toTables_tok2]
    have := rd_ok_nat (w := .tok2) (p := P.tok2) (i := 1) (by have := F.tok2Size; omega)
    refine ⟨P.tok2.get 1, by simpa using this, tokOK_get2 F (by have := F.tok2Size; omega), fun _ => rfl, fun h => absurd h0 h⟩
  · rw [if_neg h0]
    exact ⟨tk, rfl, h, fun h => absurd h h0, fun _ => rfl⟩

theorem tok3Loop_spec (F : Facts P C) {c : Int} (hc : 1 ≤ c) : ∀ (fuel i : Nat) (tk : Int), TokOK C tk →
    ∃ t, tok3Loop P.toTables c fuel (i : Int) tk = .ok t ∧ TokOK C t := by
  intro fuel
  induction fuel with
  | zero => intro i tk h; exact ⟨tk, rfl, h⟩
  | succ fuel ih =>
    intro i tk h
    unfold tok3Loop
    simp only [toTables_tok3, Packed.size_toArray]
    by_cases hi : (i : Int) < (P.tok3.size : Int)
    · rw [if_pos hi]
      have hi' : i < P.tok3.size := by omega
      rw [rd_ok_nat hi', andThen_ok]
      by_cases heq : P.tok3.get i = c
      · rw [if_pos heq]
        have hpair := F.tok3Pair i hi'
        have hlo := F.tok3 i hi'
        rw [Packed.get_eq] at heq
        have h1 : i + 1 < P.tok3.size := by omega
        have := rd_ok_nat (w := .tok3) (p := P.tok3) h1
        refine ⟨P.tok3.get (i + 1), by simpa using this, tokOK_get3 F h1⟩
      · rw [if_neg heq]
        have := ih (i + 2) (P.tok3.get i) (tokOK_get3 F hi')
        simpa using this
    · rw [if_neg hi]
      exact ⟨tk, rfl, h⟩

/-- the token number of the end of input, as the checker computes it -/
theorem eofTok_eq (F : Facts P C) : ((eofTok P : Nat) : Int) = if P.tok1.get 0 = 0 then P.tok2.get 1 else P.tok1.get 0 := by
  unfold eofTok
  have h1 := F.tok1 0 (by have := F.tok1Size; omega)
  have h2 := F.tok2 1 (by have := F.tok2Size; omega)
  rw [Packed.get_eq, Packed.get_eq]
  by_cases h : P.tok1.raw 0 = 32768
  · have : Nat.beq (P.tok1.raw 0) 32768 = true := by rw [Nat.beq_eq]; exact h
    rw [this, cond_true, if_pos (by omega)]
    uomega
  · have : Nat.beq (P.tok1.raw 0) 32768 = false := by
      cases hb : Nat.beq (P.tok1.raw 0) 32768
      · rfl
      · rw [Nat.beq_eq] at hb; exact absurd hb h
    rw [this, cond_false, if_neg (by omega)]
    uomega

theorem lex1_spec (F : Facts P C) (c : Int) :
    ∃ t, lex1 P.toTables c = .ok t ∧ TokOK C t ∧ (c ≤ 0 → t = (eofTok P : Nat)) := by
  unfold lex1
  simp only [toTables_tok1, toTables_tok2, toTables_tok3, toTables_priv, Packed.size_toArray]
  have hs1 := F.tok1Size
  by_cases h0 : c ≤ 0
  · rw [if_pos h0]
    have := rd_ok_nat (w := .tok1) (p := P.tok1) (i := 0) (by omega)
    simp only [Int.natCast_zero] at this
    rw [this, andThen_ok]
    obtain ⟨t, ht, hok, hz, hnz⟩ := lexOut_spec F (tokOK_get1 F (i := 0) (by omega))
    refine ⟨t, ht, hok, fun _ => ?_⟩
    rw [eofTok_eq F]
    by_cases hg : P.tok1.get 0 = 0
    · rw [if_pos hg]; exact hz hg
    · rw [if_neg hg]; exact hnz hg
  · rw [if_neg h0]
    by_cases h1 : c < (P.tok1.size : Int)
    · rw [if_pos h1]
      have hc : c.toNat < P.tok1.size := by omega
      rw [rd_ok (by omega) hc, andThen_ok]
      obtain ⟨t, ht, hok, _, _⟩ := lexOut_spec F (tokOK_get1 F hc)
      exact ⟨t, ht, hok, fun h => absurd h h0⟩
    · rw [if_neg h1]
      by_cases h2 : c ≥ P.priv ∧ c < P.priv + (P.tok2.size : Int)
      · rw [if_pos h2]
        have hc : (c - P.priv).toNat < P.tok2.size := by omega
        rw [rd_ok (by omega) hc, andThen_ok]
        obtain ⟨t, ht, hok, _, _⟩ := lexOut_spec F (tokOK_get2 F hc)
        exact ⟨t, ht, hok, fun h => absurd h h0⟩
      · rw [if_neg h2]
        obtain ⟨tk, htk, hok⟩ := tok3Loop_spec F (c := c) (by omega) P.tok3.size 0 0 (by unfold TokOK; omega)
        simp only [Int.natCast_zero] at htk
        rw [htk, andThen_ok]
        obtain ⟨t, ht, hok', _, _⟩ := lexOut_spec F hok
        exact ⟨t, ht, hok', fun h => absurd h h0⟩

/-! ## the invariant of the loop -/

/-- `L`: the state stack as natural numbers, top first -/
structure Inv (P : PTables) (C : Cert) (N : Nat) (s : St) (L : List Nat) : Prop where
  stack : s.state :: s.below = L.map Int.ofNat
  valid : ∀ x ∈ L, x < P.n
  chain : Chain C P.n L
  bottom : L.getLast? = some 0
  errflag : s.errflag = 0
  tok : s.char < 0 ∨ TokOK C s.token
  count : s.pos + s.rest.length = N
  cur : s.cur ≤ N
  lastErr : s.lastErr = none

/-- tokens still to be shifted: the unread ones and a held lookahead -/
def tokCount (s : St) : Nat := s.rest.length + (if 0 ≤ s.char then 1 else 0)

/-- the part of the measure that lives on the stack -/
def phi (C : Cert) : List Nat → Nat
  | [] => 0
  | x :: l => wsum C (x :: l) + C.rank.raw x

theorem ensureTok_spec (F : Facts P C) {N : Nat} {s : St} {L : List Nat} (I : Inv P C N s L) :
    ∃ s1, ensureTok P.toTables s = .ok s1 ∧ Inv P C N s1 L ∧ tokCount s1 ≤ tokCount s ∧ TokOK C s1.token ∧
      (s1.char < 0 → s1.token = (eofTok P : Nat)) ∧ s1.state = s.state ∧ s1.below = s.below := by
  unfold ensureTok
  by_cases hc : s.char < 0
  · rw [if_pos hc]
    cases hr : s.rest with
    | nil =>
      simp only [toTables_scanEOF]
      obtain ⟨t, ht, hok, he⟩ := lex1_spec F P.scanEOF
      rw [ht, andThen_ok]
      have hneg := F.eofNeg
      refine ⟨_, rfl, ?_, ?_, hok, fun _ => he (by omega), rfl, rfl⟩
      · refine ⟨I.stack, I.valid, I.chain, I.bottom, I.errflag, Or.inl hneg, ?_, ?_, I.lastErr⟩
        · have := I.count; simpa [hr] using this
        · have := I.count; simp [hr] at this; show s.pos ≤ N; omega
      · unfold tokCount
        simp only [hr, List.length_nil]
        have hn : ¬ (0 ≤ P.scanEOF) := by omega
        rw [if_neg hn]; omega
    | cons k r =>
      simp only []
      obtain ⟨t, ht, hok, he⟩ := lex1_spec F (lexWrap P.toTables k)
      rw [ht, andThen_ok]
      refine ⟨_, rfl, ?_, ?_, hok, fun h => he (Int.le_of_lt h), rfl, rfl⟩
      · refine ⟨I.stack, I.valid, I.chain, I.bottom, I.errflag, Or.inr hok, ?_, ?_, I.lastErr⟩
        · have := I.count; simp [hr] at this; show s.pos + 1 + r.length = N; omega
        · have := I.count; simp [hr] at this; show s.pos ≤ N; omega
      · unfold tokCount
        simp only [hr, List.length_cons]
        have hn : ¬ (0 ≤ s.char) := by omega
        rw [if_neg hn]
        split <;> omega
  · rw [if_neg hc]
    refine ⟨s, rfl, I, Nat.le_refl _, ?_, fun h => absurd h hc, rfl, rfl⟩
    rcases I.tok with h | h
    · exact absurd h hc
    · exact h

/-- a stored entry that is not negative, as an `Int` value -/
theorem get_unb {p : Packed} {i : Nat} (h : 32768 ≤ p.raw i) : p.get i = ((unb (p.raw i) : Nat) : Int) := by
  rw [Packed.get_eq]; uomega

theorem gotoState_spec (F : Facts P C) {t nt : Nat} (hnt : nt < P.pgo.size) :
    gotoState P.toTables (t : Int) (nt : Int) = .ok ((gotoK P t nt : Nat) : Int) := by
  unfold gotoState
  have hlast : P.toTables.last = (P.act.size : Int) := F.last
  simp only [toTables_pgo, toTables_act, toTables_chk, hlast]
  rw [rd_ok_nat hnt, andThen_ok]
  have hg := F.pgo nt hnt
  have hgl : unb (P.pgo.raw nt) < P.act.size := by uomega
  have hag := F.act (unb (P.pgo.raw nt)) hgl
  rw [gotoK_eq, get_unb hg.1]
  by_cases h1 : P.act.size ≤ unb (P.pgo.raw nt) + t + 1
  · rw [if_pos h1, if_pos (by omega)]
    rw [rd_ok_nat hgl, get_unb hag.1]
  · rw [if_neg h1, if_neg (by omega)]
    have hj : (((unb (P.pgo.raw nt) : Nat) : Int) + (t : Int) + 1) = ((unb (P.pgo.raw nt) + t + 1 : Nat) : Int) := by omega
    rw [hj, rd_ok_nat (by omega), andThen_ok]
    have haj := F.act (unb (P.pgo.raw nt) + t + 1) (by omega)
    have hachk : unb (P.act.raw (unb (P.pgo.raw nt) + t + 1)) < P.chk.size := by
      have e := unb_def (P.act.raw (unb (P.pgo.raw nt) + t + 1))
      rw [F.chkSize]; omega
    rw [get_unb haj.1, rd_ok_nat hachk, andThen_ok]
    by_cases h2 : P.chk.raw (unb (P.act.raw (unb (P.pgo.raw nt) + t + 1))) + nt = 32768
    · rw [if_pos h2, if_neg (by rw [Packed.get_eq]; omega)]
    · rw [if_neg h2, if_pos (by rw [Packed.get_eq]; omega)]
      rw [rd_ok_nat hgl, get_unb hag.1]

theorem getLast?_drop {l : List Nat} {k : Nat} (h : k < l.length) : (l.drop k).getLast? = l.getLast? := by
  induction k generalizing l with
  | zero => simp
  | succ k ih =>
    cases l with
    | nil => simp at h
    | cons x l =>
      simp only [List.drop_succ_cons]
      rw [ih (by simpa using h)]
      cases l with
      | nil => simp at h
      | cons y l => simp [List.getLast?_cons_cons]

theorem wsum_take_drop (C : Cert) (l : List Nat) (k : Nat) : wsum C (l.take k) + wsum C (l.drop k) = wsum C l := by
  unfold wsum
  rw [← List.sum_append, ← List.map_append, List.take_append_drop]

/-- how one round changes the state stack `L` (top first), by its event: a shift pushes a state entered on the
    token; a reduction by `p` pops `yyR2[p]` states that were entered on the symbols of `p`'s right-hand side (last
    symbol on top) and pushes a state entered on `p`'s nonterminal.  (No state of these tables shifts `error`.) -/
def StackStep (P : PTables) (C : Cert) (L : List Nat) (e : Event) (L' : List Nat) : Prop :=
  match e with
  | .shift u => ∃ un tk : Nat, u = (un : Int) ∧ L' = un :: L ∧ P.chk.raw un = tk + 32768 ∧ tk ≤ C.maxTok
  | .reduce p st => ∃ pn stn u : Nat, p = (pn : Int) ∧ st = (stn : Int) ∧ L.head? = some stn ∧ 0 < pn ∧ pn < P.r2.size ∧
      unb (P.r2.raw pn) < L.length ∧ L' = u :: L.drop (unb (P.r2.raw pn)) ∧
      (L.take (unb (P.r2.raw pn))).map P.chk.raw = nthL C.rhsTop pn ∧
      P.chk.raw u + unb (P.r1.raw pn) = 32768
  | .errShift _ => False
  | .discard => False

/-- a reduction keeps the invariant and lowers `phi` -/
theorem reduce_spec (F : Facts P C) {N : Nat} {s : St} {st : Nat} {L0 : List Nat} (I : Inv P C N s (st :: L0))
    {y : Nat} (hact : actionOK P C st y = true) (hy : 32768 < y) :
    ∃ s' e L', reduce P.toTables s ((y : Int) - 32768) = .ok (.next s' e) ∧ Inv P C N s' L' ∧
      phi C L' < phi C (st :: L0) ∧ tokCount s' = tokCount s ∧ StackStep P C (st :: L0) e L' := by
  obtain ⟨hp, hdepth, hgo⟩ := actionOK_spec hact hy
  have hprod := F.prod (unb y) hp
  have hst : st < P.n := I.valid st (by simp)
  have hd := depth_le F L0 st I.valid I.chain I.bottom
  -- name the numbers of the production, so that no `- 32768` is left in the goal
  obtain ⟨p, hpe⟩ : ∃ p, p = unb y := ⟨_, rfl⟩
  obtain ⟨k, hke⟩ : ∃ k, k = unb (P.r2.raw p) := ⟨_, rfl⟩
  obtain ⟨nt, hnte⟩ : ∃ nt, nt = unb (P.r1.raw p) := ⟨_, rfl⟩
  rw [← hpe] at hp hdepth hgo hprod
  rw [← hke] at hdepth hgo
  rw [← hnte] at hgo
  have hk : k ≤ L0.length := by omega
  obtain ⟨⟨t, ht, hbelow, hlt⟩, hsyms⟩ := reduceGo_spec hgo st L0 I.chain (by
      rw [Nat.testBit_two_pow_self]) hk
  have hp0 : 0 < p := by rw [hpe]; have := unb_def y; omega
  have hstack := I.stack
  simp only [List.map_cons, List.cons.injEq] at hstack
  have hyy : ((y : Int) - 32768) = ((p : Nat) : Int) := by uomega
  unfold reduce
  simp only [toTables_r2, toTables_r1]
  rw [hyy, rd_ok_nat hp, andThen_ok]
  have hkk : P.r2.get p = ((k : Nat) : Int) := by rw [hke]; exact get_unb hprod.1
  have hlen : s.below.length = L0.length := by rw [hstack.2]; simp
  rw [hkk, hlen]
  rw [if_neg (by omega)]
  rw [rd_ok_nat (by rw [F.r1Size]; exact hp), andThen_ok]
  rw [if_neg (by omega)]
  have hnt : P.r1.get p = ((nt : Nat) : Int) := by rw [hnte]; exact get_unb hprod.2.1
  have hntlt : nt < P.pgo.size := by uomega
  have hdrop : (s.state :: s.below).drop k = ((st :: L0).drop k).map Int.ofNat := by
    rw [I.stack, List.map_drop]
  rw [Int.toNat_natCast, hdrop]
  cases hdl : (st :: L0).drop k with
  | nil => rw [hdl] at ht; simp at ht
  | cons t' rest =>
    rw [hdl] at ht
    simp only [List.head?_cons, Option.some.injEq] at ht
    subst ht
    simp only [List.map_cons]
    rw [hnt]
    have hgs := gotoState_spec (C := C) F (t := t') (nt := nt) hntlt
    rw [show (Int.ofNat t') = (t' : Int) from rfl, hgs, andThen_ok]
    rw [if_neg (by omega)]
    refine ⟨_, _, gotoK P t' nt :: t' :: rest, rfl, ?_, ?_, rfl, ?_⟩
    rotate_left 2
    · -- the stack step
      refine ⟨p, st, gotoK P t' nt, rfl, hstack.1, rfl, hp0, hp, ?_, ?_, ?_, ?_⟩
      · rw [← hke]; simp; omega
      · rw [← hke, hdl]
      · rw [← hke]; exact hsyms
      · rw [hnte]; exact gotoK_chk F hp0 hp t'
    · have hsub : ∀ z ∈ t' :: rest, z ∈ st :: L0 := by
        intro z hz; rw [← hdl] at hz; exact List.mem_of_mem_drop hz
      refine ⟨by simp, ?_, ⟨hbelow, ?_⟩, ?_, I.errflag, I.tok, I.count, I.cur, I.lastErr⟩
      · intro z hz
        rcases List.mem_cons.mp hz with rfl | hz
        · exact gotoK_lt F hntlt
        · exact I.valid z (hsub z hz)
      · rw [← hdl]; exact Chain.drop _ I.chain
      · rw [List.getLast?_cons_cons, ← hdl, getLast?_drop (by simp; omega)]
        exact I.bottom
    · have hsplit := wsum_take_drop C (st :: L0) k
      rw [hdl] at hsplit
      unfold phi
      simp only [wsum, List.map_cons, List.sum_cons] at hsplit hlt ⊢
      omega

/-! ## yyExca -/

theorem findBlock_zero (st : Nat) (k : Nat → Bool) (xi : Nat) : findBlock P st k 0 xi = false := rfl

theorem findBlock_succ (st : Nat) (k : Nat → Bool) (fuel xi : Nat) : findBlock P st k (fuel + 1) xi =
    cond (blt (Nat.succ xi) P.exca.size)
      (cond (and (Nat.beq (P.exca.raw xi) 32767) (Nat.beq (P.exca.raw (Nat.succ xi)) (Nat.add st 32768)))
        (k xi) (findBlock P st k fuel (Nat.add xi 2)))
      false := rfl

theorem findBlock_spec {st : Nat} {k : Nat → Bool} : ∀ {fuel xi : Nat}, findBlock P st k fuel xi = true →
    ∃ b : Nat, excaFind P.toTables (st : Int) fuel (xi : Int) = .ok (b : Int) ∧ k b = true := by
  intro fuel
  induction fuel with
  | zero => intro xi h; rw [findBlock_zero] at h; exact absurd h (by simp)
  | succ fuel ih =>
    intro xi h
    rw [findBlock_succ] at h
    have hlt : xi + 1 < P.exca.size := by
      cases hb : blt (Nat.succ xi) P.exca.size
      · rw [hb] at h; exact absurd h (by simp)
      · exact blt_iff.mp hb
    have hb : blt (Nat.succ xi) P.exca.size = true := blt_iff.mpr hlt
    have h' := cond_true_of hb h
    unfold excaFind
    simp only [toTables_exca]
    rw [rd_ok_nat (by omega), andThen_ok]
    have hx1 : ((xi : Int) + 1) = ((xi + 1 : Nat) : Int) := by omega
    have hx2 : ((xi : Int) + 2) = ((xi + 2 : Nat) : Int) := by omega
    cases hc : (Nat.beq (P.exca.raw xi) 32767 && Nat.beq (P.exca.raw (Nat.succ xi)) (Nat.add st 32768))
    · have hr := cond_false_of (show (and (Nat.beq (P.exca.raw xi) 32767) (Nat.beq (P.exca.raw (Nat.succ xi)) (Nat.add st 32768))) = false from hc) h'
      obtain ⟨b, hb1, hb2⟩ := ih hr
      refine ⟨b, ?_, hb2⟩
      rw [Bool.and_eq_false_iff] at hc
      by_cases ha : P.exca.get xi = -1
      · rw [if_pos ha, hx1, rd_ok_nat hlt, andThen_ok]
        have hne : ¬ P.exca.get (xi + 1) = (st : Int) := by
          intro hbe
          rw [Packed.get_eq] at ha hbe
          rcases hc with hc | hc
          · have : Nat.beq (P.exca.raw xi) 32767 = true := by rw [Nat.beq_eq]; omega
            rw [this] at hc; exact absurd hc (by simp)
          · have : Nat.beq (P.exca.raw (Nat.succ xi)) (Nat.add st 32768) = true := by
              rw [Nat.beq_eq]; show P.exca.raw (xi + 1) = st + 32768; omega
            rw [this] at hc; exact absurd hc (by simp)
        rw [if_neg hne, hx2]
        exact hb1
      · rw [if_neg ha, hx2]
        exact hb1
    · have hr := cond_true_of (show (and (Nat.beq (P.exca.raw xi) 32767) (Nat.beq (P.exca.raw (Nat.succ xi)) (Nat.add st 32768))) = true from hc) h'
      rw [Bool.and_eq_true, Nat.beq_eq, Nat.beq_eq] at hc
      have hc2 : P.exca.raw (xi + 1) = st + 32768 := hc.2
      refine ⟨xi, ?_, hr⟩
      rw [if_pos (by rw [Packed.get_eq]; omega), hx1, rd_ok_nat hlt, andThen_ok]
      rw [if_pos (by rw [Packed.get_eq]; omega)]

theorem blockAll_zero (f : Nat → Bool) (xi : Nat) : blockAll P f 0 xi = false := rfl

theorem blockAll_succ (f : Nat → Bool) (fuel xi : Nat) : blockAll P f (fuel + 1) xi =
    cond (blt (Nat.succ xi) P.exca.size)
      (and (f (P.exca.raw (Nat.succ xi))) (cond (blt (P.exca.raw xi) 32768) true (blockAll P f fuel (Nat.add xi 2))))
      false := rfl

theorem blockAll_spec {f : Nat → Bool} (tok : Int) : ∀ {fuel xi : Nat}, blockAll P f fuel xi = true →
    ∃ r : Nat, excaScan P.toTables tok fuel (xi : Int) = .ok ((r : Int) - 32768) ∧ f r = true := by
  intro fuel
  induction fuel with
  | zero => intro xi h; rw [blockAll_zero] at h; exact absurd h (by simp)
  | succ fuel ih =>
    intro xi h
    rw [blockAll_succ] at h
    have hlt : xi + 1 < P.exca.size := by
      cases hb : blt (Nat.succ xi) P.exca.size
      · rw [hb] at h; exact absurd h (by simp)
      · exact blt_iff.mp hb
    have hb : blt (Nat.succ xi) P.exca.size = true := blt_iff.mpr hlt
    have h' := cond_true_of hb h
    rw [Bool.and_eq_true] at h'
    unfold excaScan
    simp only [toTables_exca]
    rw [rd_ok_nat (by omega), andThen_ok]
    have hx1 : ((xi : Int) + 1) = ((xi + 1 : Nat) : Int) := by omega
    have hx2 : ((xi : Int) + 2) = ((xi + 2 : Nat) : Int) := by omega
    by_cases hstop : P.exca.get xi < 0 ∨ P.exca.get xi = tok
    · rw [if_pos hstop, hx1, rd_ok_nat hlt]
      exact ⟨P.exca.raw (xi + 1), by rw [Packed.get_eq], h'.1⟩
    · rw [if_neg hstop, hx2]
      have hge : ¬ P.exca.raw xi < 32768 := by
        intro hlt'; apply hstop; left; rw [Packed.get_eq]; omega
      have : blt (P.exca.raw xi) 32768 = false := by
        cases hb : blt (P.exca.raw xi) 32768
        · rfl
        · exact absurd (blt_iff.mp hb) hge
      have hr := cond_false_of this h'.2
      exact ih hr

/-! ## error handling: no state of these tables shifts `error` -/

/-- the index the driver reports: `Lexer.token` at the last `yylex.Error` -/
def errIndex (s : St) : Nat := match s.lastErr with | some i => i | none => s.cur

theorem recoverLoop_spec (F : Facts P C) (s : St) : ∀ (l : List Nat), (∀ x ∈ l, x < P.n) →
    recoverLoop P.toTables s (l.map Int.ofNat) = .ok (.abort (errIndex s)) := by
  intro l
  induction l with
  | nil => intro _; rfl
  | cons x l ih =>
    intro hv
    have hx : x < P.n := hv x (by simp)
    have hrest := ih (fun z hz => hv z (List.mem_cons_of_mem _ hz))
    simp only [List.map_cons]
    unfold recoverLoop
    have hlast : P.toTables.last = (P.act.size : Int) := F.last
    simp only [toTables_pact, toTables_act, toTables_chk, hlast]
    rw [toTables_errCode]
    rw [show (Int.ofNat x) = (x : Int) from rfl, rd_ok_nat hx, andThen_ok]
    by_cases hr : P.pact.get x + P.errCode ≥ 0 ∧ P.pact.get x + P.errCode < (P.act.size : Int)
    · rw [if_pos hr]
      have he := F.errLo
      obtain ⟨e, hee⟩ : ∃ e : Nat, P.errCode = (e : Int) := ⟨P.errCode.toNat, by omega⟩
      have hetn : P.errCode.toNat = e := by omega
      have hget := Packed.get_eq P.pact x
      have h1 : 32768 ≤ P.pact.raw x + e := by omega
      have h2 : P.pact.raw x + e < 32768 + P.act.size := by omega
      have hidx : P.pact.get x + P.errCode = ((unb (P.pact.raw x + e) : Nat) : Int) := by
        have := unb_def (P.pact.raw x + e); omega
      have hil : unb (P.pact.raw x + e) < P.act.size := by
        have := unb_def (P.pact.raw x + e); omega
      have hact := F.act _ hil
      rw [hidx, rd_ok_nat hil, andThen_ok, get_unb hact.1]
      have hchk : unb (P.act.raw (unb (P.pact.raw x + e))) < P.chk.size := by
        have := unb_def (P.act.raw (unb (P.pact.raw x + e))); rw [F.chkSize]; omega
      rw [rd_ok_nat hchk, andThen_ok]
      split
      · rename_i hc
        exfalso
        have hc' : P.chk.get (unb (P.act.raw (unb (P.pact.raw x + e)))) = P.errCode := hc
        have hns := F.noErrShift x hx
        rw [hetn] at hns
        have := shiftK_spec hns h1 h2 (by rw [Packed.get_eq] at hc'; clear hget hidx hil hact hchk hr h1 h2 hns; omega)
        exact absurd this (by simp)
      · exact hrest
    · rw [if_neg hr]; exact hrest

theorem errorStep_spec (F : Facts P C) {N : Nat} {s : St} {L : List Nat} (I : Inv P C N s L) :
    errorStep P.toTables s = .ok (.abort s.cur) := by
  unfold errorStep
  rw [if_pos I.errflag, I.stack]
  exact recoverLoop_spec F _ L I.valid

/-! ## one round of the loop -/

/-- the measure: tokens still to shift (weighted so that a shift pays for the state it pushes), then `phi` -/
def loopMeasure (C : Cert) (s : St) (L : List Nat) : Nat := (C.bound + 1) * tokCount s + phi C L

/-- what a round that started with stack `L` and measure below `m0` may produce -/
def Good (P : PTables) (C : Cert) (N m0 : Nat) (L : List Nat) (o : M Outcome) : Prop :=
  o = .ok .accept ∨ (∃ i, o = .ok (.abort i) ∧ i ≤ N) ∨
  ∃ s' e L', o = .ok (.next s' e) ∧ Inv P C N s' L' ∧ loopMeasure C s' L' < m0 ∧ StackStep P C L e L'

theorem Good.mono {N m m' : Nat} {L : List Nat} {o : M Outcome} (h : Good P C N m L o) (hm : m ≤ m') : Good P C N m' L o := by
  rcases h with h | h | ⟨s', e, L', h1, h2, h3, h4⟩
  · exact Or.inl h
  · exact Or.inr (Or.inl h)
  · exact Or.inr (Or.inr ⟨s', e, L', h1, h2, Nat.lt_of_lt_of_le h3 hm, h4⟩)

/-- the part of `dfltStep` after the action `yyn` (stored form `r`) is known -/
theorem action_spec (F : Facts P C) {N : Nat} {s : St} {st : Nat} {L0 : List Nat} (I : Inv P C N s (st :: L0))
    {r : Nat} (hact : actionOK P C st r = true) (hr : 32768 ≤ r) :
    Good P C N (loopMeasure C s (st :: L0)) (st :: L0)
      (if (r : Int) - 32768 = 0 then errorStep P.toTables s else reduce P.toTables s ((r : Int) - 32768)) := by
  by_cases h0 : (r : Int) - 32768 = 0
  · rw [if_pos h0, errorStep_spec F I]
    exact Or.inr (Or.inl ⟨s.cur, rfl, I.cur⟩)
  · rw [if_neg h0]
    obtain ⟨s', e, L', h1, h2, h3, h4, h5⟩ := reduce_spec F I hact (by omega)
    refine Or.inr (Or.inr ⟨s', e, L', h1, h2, ?_, h5⟩)
    unfold loopMeasure
    rw [h4]; omega

theorem dfltStep_spec (F : Facts P C) {N : Nat} {s : St} {st : Nat} {L0 : List Nat} (I : Inv P C N s (st :: L0)) :
    Good P C N (loopMeasure C s (st :: L0)) (st :: L0) (dfltStep P.toTables s) := by
  have hstack := I.stack
  simp only [List.map_cons, List.cons.injEq] at hstack
  have hst : st < P.n := I.valid st (by simp)
  unfold dfltStep
  simp only [toTables_dflt, toTables_exca, Packed.size_toArray]
  rw [hstack.1, show (Int.ofNat st) = (st : Int) from rfl, rd_ok_nat (by rw [F.dfltSize]; exact hst), andThen_ok]
  have hS := F.states st hst
  unfold stateOK at hS
  by_cases hd : P.dflt.raw st = 32766
  · have hb : Nat.beq (P.dflt.raw st) 32766 = true := by rw [Nat.beq_eq]; exact hd
    have hfind := cond_true_of hb hS
    rw [if_pos (by rw [Packed.get_eq]; omega)]
    obtain ⟨s1, he1, I1, htc, _, _, hs1, _⟩ := ensureTok_spec F I
    rw [he1, andThen_ok]
    obtain ⟨b, hb1, hb2⟩ := findBlock_spec hfind
    rw [hs1, hstack.1, show (Int.ofNat st) = (st : Int) from rfl]
    simp only [Int.natCast_zero] at hb1
    rw [hb1, andThen_ok]
    obtain ⟨r, hr1, hr2⟩ := blockAll_spec s1.token hb2
    have hx : ((b : Int) + 2) = ((Nat.add b 2 : Nat) : Int) := by simp only [Nat.add_eq]; omega
    rw [hx, hr1, andThen_ok]
    by_cases hneg : (r : Int) - 32768 < 0
    · rw [if_pos hneg]; exact Or.inl rfl
    · rw [if_neg hneg]
      have := action_spec F I1 hr2 (by omega)
      refine this.mono ?_
      unfold loopMeasure; have := Nat.mul_le_mul_left (C.bound + 1) htc; omega
  · have hb : Nat.beq (P.dflt.raw st) 32766 = false := by
      cases hb : Nat.beq (P.dflt.raw st) 32766
      · rfl
      · rw [Nat.beq_eq] at hb; exact absurd hb hd
    have hB := cond_false_of hb hS
    rw [Bool.and_eq_true, Nat.ble_eq] at hB
    rw [if_neg (by rw [Packed.get_eq]; omega), Packed.get_eq]
    exact action_spec F I hB.2 hB.1

theorem stepM_spec (F : Facts P C) {N : Nat} {s : St} {st : Nat} {L0 : List Nat} (I : Inv P C N s (st :: L0)) :
    Good P C N (loopMeasure C s (st :: L0)) (st :: L0) (stepM P.toTables s) := by
  have hstack := I.stack
  simp only [List.map_cons, List.cons.injEq] at hstack
  have hst : st < P.n := I.valid st (by simp)
  unfold stepM
  have hlast : P.toTables.last = (P.act.size : Int) := F.last
  simp only [toTables_pact, toTables_act, toTables_chk, hlast]
  rw [hstack.1, show (Int.ofNat st) = (st : Int) from rfl, rd_ok_nat hst, andThen_ok]
  split
  · exact dfltStep_spec F I
  · obtain ⟨s1, he1, I1, htc, htok, heof, hs1, hb1⟩ := ensureTok_spec F I
    rw [he1, andThen_ok]
    have hmono : loopMeasure C s1 (st :: L0) ≤ loopMeasure C s (st :: L0) := by
      unfold loopMeasure; have := Nat.mul_le_mul_left (C.bound + 1) htc; omega
    split
    · exact (dfltStep_spec F I1).mono hmono
    · rename_i hrange
      -- the token as a natural number
      obtain ⟨tk, htk⟩ : ∃ tk : Nat, s1.token = (tk : Int) := ⟨s1.token.toNat, by have := htok.1; omega⟩
      have htkle : tk ≤ C.maxTok := by have := htok.2; omega
      have hget := Packed.get_eq P.pact st
      have h1 : 32768 ≤ P.pact.raw st + tk := by omega
      have h2 : P.pact.raw st + tk < 32768 + P.act.size := by omega
      have hidx : P.pact.get st + s1.token = ((unb (P.pact.raw st + tk) : Nat) : Int) := by
        have := unb_def (P.pact.raw st + tk); omega
      have hil : unb (P.pact.raw st + tk) < P.act.size := by
        have := unb_def (P.pact.raw st + tk); omega
      have hact := F.act _ hil
      have hu : unb (P.act.raw (unb (P.pact.raw st + tk))) < P.n := by
        have := unb_def (P.act.raw (unb (P.pact.raw st + tk))); omega
      rw [hidx, rd_ok_nat hil, andThen_ok, get_unb hact.1, rd_ok_nat (by rw [F.chkSize]; exact hu), andThen_ok]
      split
      · rename_i hc
        -- a shift
        have hc3 : P.chk.raw (unb (P.act.raw (unb (P.pact.raw st + tk)))) = tk + 32768 := by
          rw [Packed.get_eq] at hc
          clear hget hidx hil hact hu h1 h2 hrange hmono
          omega
        have hbelow := shiftK_spec (F.shiftClosed st hst tk htkle) h1 h2 hc3
        have hchar : 0 ≤ s1.char := by
          apply Int.not_lt.mp
          intro hneg
          have hte := heof hneg
          have : tk = eofTok P := Int.ofNat.inj (htk.symm.trans hte)
          have hns := F.noEofShift st hst
          rw [← this] at hns
          have := shiftK_spec hns h1 h2 hc3
          exact absurd this (by simp)
        have hbound := F.bounded _ hu
        refine Or.inr (Or.inr ⟨_, _, unb (P.act.raw (unb (P.pact.raw st + tk))) :: st :: L0, rfl, ?_, ?_, ?_⟩)
        rotate_left 2
        · exact ⟨unb (P.act.raw (unb (P.pact.raw st + tk))), tk, rfl, rfl, hc3, htkle⟩
        · refine ⟨?_, ?_, ⟨hbelow, I.chain⟩, ?_, ?_, Or.inl (by show (-1 : Int) < 0; omega), I1.count, I1.cur, I1.lastErr⟩
          · show _ :: (s1.state :: s1.below) = _
            rw [I1.stack]; rfl
          · intro z hz
            rcases List.mem_cons.mp hz with rfl | hz
            · exact hu
            · exact I.valid z hz
          · rw [List.getLast?_cons_cons]; exact I.bottom
          · show (if s1.errflag > 0 then s1.errflag - 1 else s1.errflag) = 0
            rw [I1.errflag]; rfl
        · -- the measure: the lookahead is used up
          unfold loopMeasure tokCount phi
          simp only [wsum, List.map_cons, List.sum_cons]
          have hneg : ¬ (0 ≤ (-1 : Int)) := by omega
          show (C.bound + 1) * (s1.rest.length + if 0 ≤ (-1 : Int) then 1 else 0) + _ < _
          rw [if_neg hneg]
          have htc1 : tokCount s1 = s1.rest.length + 1 := by unfold tokCount; rw [if_pos hchar]
          have hm := Nat.mul_le_mul_left (C.bound + 1) htc
          rw [htc1] at hm
          have hexp : (C.bound + 1) * (s1.rest.length + 1) = (C.bound + 1) * s1.rest.length + (C.bound + 1) := by
            rw [Nat.mul_add, Nat.mul_one]
          unfold tokCount at hm
          rw [hexp] at hm
          simp only [Nat.add_zero]
          clear hget hidx hil hact hu h1 h2 hrange hmono hbelow hc3 hexp
          omega
      · exact (dfltStep_spec F I1).mono hmono

/-- the invariant always has a top state -/
theorem Inv.cons {N : Nat} {s : St} {L : List Nat} (I : Inv P C N s L) : ∃ st L0, L = st :: L0 := by
  cases L with
  | nil => have := I.stack; simp at this
  | cons st L0 => exact ⟨st, L0, rfl⟩

/-- one round of the loop: in range, invariant kept, loopMeasure strictly smaller -/
theorem step_spec (F : Facts P C) {N : Nat} {s : St} {L : List Nat} (I : Inv P C N s L) :
    step P.toTables s = .accept ∨ (∃ i, step P.toTables s = .abort i ∧ i ≤ N) ∨
    ∃ s' e L', step P.toTables s = .next s' e ∧ Inv P C N s' L' ∧ loopMeasure C s' L' < loopMeasure C s L ∧
      StackStep P C L e L' := by
  obtain ⟨st, L0, rfl⟩ := I.cons
  unfold step
  rcases stepM_spec F I with h | ⟨i, h, hi⟩ | ⟨s', e, L', h, hI, hm, hs⟩
  · rw [h]; exact Or.inl rfl
  · rw [h]; exact Or.inr (Or.inl ⟨i, rfl, hi⟩)
  · rw [h]; exact Or.inr (Or.inr ⟨s', e, L', rfl, hI, hm, hs⟩)

/-! ## the whole loop -/

theorem init_inv (F : Facts P C) (toks : List Int) : Inv P C toks.length (init toks) [0] := by
  refine ⟨rfl, ?_, trivial, rfl, rfl, Or.inl (by show (-1 : Int) < 0; omega), by simp [init], Nat.zero_le _, rfl⟩
  intro x hx
  simp at hx
  subst hx
  exact F.nPos

/-- whatever the fuel: no index panic, and a syntax error names a token of the input (or its end) -/
theorem run_safe (F : Facts P C) {N : Nat} : ∀ (fuel : Nat) (s : St) (L : List Nat), Inv P C N s L →
    run P.toTables fuel s = .accept ∨ (∃ i, run P.toTables fuel s = .syntaxError i ∧ i ≤ N) ∨
    run P.toTables fuel s = .outOfFuel := by
  intro fuel
  induction fuel with
  | zero => intro s L _; exact Or.inr (Or.inr rfl)
  | succ fuel ih =>
    intro s L I
    unfold run
    rcases step_spec F I with h | ⟨i, h, hi⟩ | ⟨s', e, L', h, hI, _, _⟩
    · rw [h]; exact Or.inl rfl
    · rw [h]; exact Or.inr (Or.inl ⟨i, rfl, hi⟩)
    · rw [h]; exact ih s' L' hI

/-- enough fuel: the loop ends by itself -/
theorem run_terminates (F : Facts P C) {N : Nat} : ∀ (fuel : Nat) (s : St) (L : List Nat), Inv P C N s L →
    loopMeasure C s L < fuel → run P.toTables fuel s ≠ .outOfFuel := by
  intro fuel
  induction fuel with
  | zero => intro s L _ h; omega
  | succ fuel ih =>
    intro s L I hm
    unfold run
    rcases step_spec F I with h | ⟨i, h, _⟩ | ⟨s', e, L', h, hI, hlt, _⟩
    · rw [h]; simp
    · rw [h]; simp
    · rw [h]; exact ih s' L' hI (by omega)

/-- more fuel than needed changes nothing -/
theorem run_fuel_irrelevant (T : Tables) : ∀ (fuel extra : Nat) (s : St), run T fuel s ≠ .outOfFuel →
    run T (fuel + extra) s = run T fuel s := by
  intro fuel
  induction fuel with
  | zero => intro extra s h; exact absurd rfl h
  | succ fuel ih =>
    intro extra s h
    rw [show fuel + 1 + extra = (fuel + extra) + 1 by omega]
    unfold run at h ⊢
    cases hs : step T s with
    | next s' e => rw [hs] at h; exact ih extra s' h
    | accept => rfl
    | abort i => rfl
    | panic w => rfl

end model

end Csvq.Lalr
