/-
  Lemmas about the definitions REGENERATED from /repo by extract/encfacts (Csvq.Gen.EncFacts), used by
  Csvq.Props.C02: the generated quoting decision against the model's, the generated line break detector
  against a specification.  The proofs unfold the generated definitions: when the Go code changes shape
  the extractor fails or these proofs fail, which is the point.
-/
import Csvq.Gen.EncFacts
import Csvq.Model.Csv
import Csvq.Model.Json
namespace Csvq.EncFacts
open Csvq.Gen.Enc
open Csvq.Csv (includesLineBreak)
open Csvq.Json (firstBreak)

theorem containsAny_crlf (s : List Char) :
    containsAny s [Char.ofNat 13, Char.ofNat 10] = includesLineBreak s := by
  have h13 : Char.ofNat 13 = '\r' := by decide
  have h10 : Char.ofNat 10 = '\n' := by decide
  rw [h13, h10]
  induction s with
  | nil => rfl
  | cons c cs ih =>
    unfold containsAny at ih ⊢
    simp only [List.any_cons, includesLineBreak]
    rw [ih]
    by_cases h1 : c = '\r'
    · simp [h1]
    · by_cases h2 : c = '\n'
      · simp [h2]
      · simp [h1, h2]

/-! ## the line break detector -/

/-- states the scan can be in while nothing has been found and no CR is pending -/
def Scanning (d : Det) : Prop :=
  d.detected = "" ∧ d.pendingCR = false ∧ (d.inString = false → d.escaped = false)

/-- a pending CR is resolved by the next byte -/
theorem scanLoop_pending (d : Det) (hd : d.detected = "") (hp : d.pendingCR = true) (b : List Nat) :
    lineBreak (scanLoop d b) = match b with
      | 10 :: _ => "CRLF"
      | _ => "CR" := by
  cases b with
  | nil => simp [scanLoop, lineBreak, hd, hp]
  | cons c cs =>
    by_cases hc : c = 10
    · subst hc
      simp [scanLoop, scanStep, hp, lineBreak]
    · have : (match c :: cs with | 10 :: _ => "CRLF" | _ => "CR") = "CR" := by
        split
        · rename_i h; simp at h; exact absurd h.1 hc
        · rfl
      rw [this]
      simp [scanLoop, scanStep, hp, hc, lineBreak]

theorem scanLoop_step_false (d d' : Det) (c : Nat) (cs : List Nat) (h : scanStep d c = (d', false)) :
    scanLoop d (c :: cs) = scanLoop d' cs := by
  rw [scanLoop, h]

theorem scanLoop_step_true (d d' : Det) (c : Nat) (cs : List Nat) (h : scanStep d c = (d', true)) :
    scanLoop d (c :: cs) = d' := by
  rw [scanLoop, h]

theorem scanLoop_spec (b : List Nat) : ∀ (d : Det), Scanning d →
    lineBreak (scanLoop d b) = firstBreak d.inString d.escaped b := by
  induction b with
  | nil =>
    intro d ⟨h1, h2, _⟩
    cases hi : d.inString <;> cases he : d.escaped <;> simp [scanLoop, lineBreak, firstBreak, h1, h2]
  | cons c cs ih =>
    intro d ⟨h1, h2, h3⟩
    cases hi : d.inString with
    | true =>
      cases he : d.escaped with
      | true =>
        have hs : scanStep d c = ({ d with escaped := false }, false) := by
          simp [scanStep, h2, hi, he]
        rw [scanLoop_step_false d _ c cs hs, ih { d with escaped := false } ⟨h1, h2, by simp [hi]⟩]
        simp [firstBreak, hi]
      | false =>
        by_cases hc1 : c = 92
        · have hs : scanStep d c = ({ d with escaped := true }, false) := by
            simp [scanStep, h2, hi, he, hc1]
          rw [scanLoop_step_false d _ c cs hs, ih { d with escaped := true } ⟨h1, h2, by simp [hi]⟩]
          simp [firstBreak, hi, hc1]
        · by_cases hc2 : c = 34
          · have hs : scanStep d c = ({ d with inString := false }, false) := by
              simp [scanStep, h2, hi, he, hc1, hc2]
            rw [scanLoop_step_false d _ c cs hs, ih { d with inString := false } ⟨h1, h2, by simp [he]⟩]
            simp [firstBreak, he, hc2]
          · have hs : scanStep d c = (d, false) := by
              simp [scanStep, h2, hi, he, hc1, hc2]
            rw [scanLoop_step_false d _ c cs hs, ih d ⟨h1, h2, h3⟩]
            simp [firstBreak, hi, he, hc1, hc2]
    | false =>
      have he : d.escaped = false := h3 hi
      by_cases hc1 : c = 34
      · have hs : scanStep d c = ({ d with inString := true }, false) := by
          simp [scanStep, h2, hi, hc1]
        rw [scanLoop_step_false d _ c cs hs, ih { d with inString := true } ⟨h1, h2, by simp⟩]
        simp [firstBreak, he, hc1]
      · by_cases hc2 : c = 10
        · have hs : scanStep d c = ({ d with detected := "LF" }, true) := by
            simp [scanStep, h2, hi, hc1, hc2]
          rw [scanLoop_step_true d _ c cs hs]
          simp [firstBreak, hc2, lineBreak]
        · by_cases hc3 : c = 13
          · have hs : scanStep d c = ({ d with pendingCR := true }, false) := by
              simp [scanStep, h2, hi, hc1, hc2, hc3]
            rw [scanLoop_step_false d _ c cs hs, scanLoop_pending { d with pendingCR := true } h1 rfl]
            simp only [firstBreak, hc3, if_true, if_false, Nat.reduceEqDiff]
            cases cs with
            | nil => rfl
            | cons x xs =>
              by_cases hx : x = 10
              · subst hx; rfl
              · split <;> split <;> simp_all
          · have hs : scanStep d c = (d, false) := by
              simp [scanStep, h2, hi, hc1, hc2, hc3]
            rw [scanLoop_step_false d _ c cs hs, ih d ⟨h1, h2, h3⟩]
            simp [firstBreak, hi, he, hc1, hc2, hc3]

/-! ## scanning in pieces (the detector sits in an io.Reader: it sees the file chunk by chunk) -/

/-- `return` is reached exactly when a line break has been recorded -/
theorem scanStep_return (d : Det) (c : Nat) (hd : d.detected = "") :
    ((scanStep d c).2 = true → (scanStep d c).1.detected ≠ "") ∧
    ((scanStep d c).2 = false → (scanStep d c).1.detected = "") := by
  unfold scanStep
  cases d.pendingCR <;> cases d.inString <;> cases d.escaped <;>
    by_cases h1 : c = 10 <;> by_cases h2 : c = 92 <;> by_cases h3 : c = 34 <;> by_cases h4 : c = 13 <;>
    simp_all

theorem scanLoop_append (a b : List Nat) : ∀ (d : Det), d.detected = "" →
    scanLoop d (a ++ b) = if (scanLoop d a).detected != "" then scanLoop d a else scanLoop (scanLoop d a) b := by
  induction a with
  | nil => intro d hd; simp [scanLoop, hd]
  | cons c cs ih =>
    intro d hd
    have hr := scanStep_return d c hd
    obtain ⟨d', r, hs⟩ : ∃ d' r, scanStep d c = (d', r) := ⟨_, _, rfl⟩
    rw [hs] at hr
    cases r with
    | true =>
      rw [List.cons_append, scanLoop_step_true d d' c _ hs, scanLoop_step_true d d' c cs hs]
      have := hr.1 rfl
      simp [this]
    | false =>
      rw [List.cons_append, scanLoop_step_false d d' c _ hs, scanLoop_step_false d d' c cs hs]
      exact ih d' (hr.2 rfl)

theorem scan_append (d : Det) (a b : List Nat) : scan (scan d a) b = scan d (a ++ b) := by
  unfold scan
  by_cases hd : d.detected = ""
  · simp only [hd, bne_self_eq_false, Bool.false_eq_true, if_false]
    rw [scanLoop_append a b d hd]
  · simp [hd]

/-! ## what the fixed-length loader hands to the position detection and to the record reader

  `LoaderSrc` (regenerated) names where the bytes of a reader come from.  Its meaning for a file: the
  `file.Reader` replays the head it keeps, so reading `fp` yields the file from its first byte; `HeadBytes` is a
  copy of the first `headLen` bytes; `io.ReadAll` and `bytes.NewReader` pass the bytes on. -/

def _root_.Csvq.Gen.Enc.LoaderSrc.bytes (headLen : Nat) (file : List Nat) : LoaderSrc → List Nat
  | .file => file
  | .head => file.take headLen
  | .readAll s => s.bytes headLen file
  | .bytesReader s => s.bytes headLen file

/-- what a reader gets out of a source that has (not) been read to its end before without being rewound -/
def readerBytes (headLen : Nat) (file : List Nat) (e : String × LoaderSrc × Bool) : List Nat :=
  if e.2.2 then [] else e.2.1.bytes headLen file

/-- a source that is the whole file whatever the file is: no `head` in it -/
def _root_.Csvq.Gen.Enc.LoaderSrc.whole : LoaderSrc → Bool
  | .file => true
  | .head => false
  | .readAll s => s.whole
  | .bytesReader s => s.whole

theorem _root_.Csvq.Gen.Enc.LoaderSrc.bytes_of_whole (headLen : Nat) (file : List Nat) (s : LoaderSrc)
    (h : s.whole = true) : s.bytes headLen file = file := by
  induction s with
  | file => rfl
  | head => simp [LoaderSrc.whole] at h
  | readAll s ih => simpa [LoaderSrc.bytes] using ih (by simpa [LoaderSrc.whole] using h)
  | bytesReader s ih => simpa [LoaderSrc.bytes] using ih (by simpa [LoaderSrc.whole] using h)

/-- the head is NOT the whole file: a source through `head` loses everything behind `headLen` -/
theorem _root_.Csvq.Gen.Enc.LoaderSrc.head_loses (headLen : Nat) :
    ∃ file : List Nat, LoaderSrc.head.bytes headLen file ≠ file :=
  ⟨List.replicate (headLen + 1) 0, by
    intro h
    have := congrArg List.length h
    simp [LoaderSrc.bytes] at this⟩

end Csvq.EncFacts
