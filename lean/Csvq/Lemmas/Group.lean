/- Lemmas for bucketing: the chunked, per-worker grouping equals the sequential specification. -/
import Csvq.Model.Group
namespace Csvq
universe u
variable {κ : Type u} [DecidableEq κ]

theorem addKeys_cons_mem (acc ks : List κ) (k : κ) (h : k ∈ acc) : addKeys acc (k :: ks) = addKeys acc ks := by
  simp [addKeys, h]
theorem addKeys_cons_not_mem (acc ks : List κ) (k : κ) (h : k ∉ acc) :
    addKeys acc (k :: ks) = addKeys (acc ++ [k]) ks := by
  simp [addKeys, h]

theorem mem_addKeys (x : κ) : ∀ (ks acc : List κ), x ∈ addKeys acc ks ↔ x ∈ acc ∨ x ∈ ks
  | [], acc => by simp [addKeys]
  | k :: ks, acc => by
    by_cases h : k ∈ acc
    · rw [addKeys_cons_mem _ _ _ h, mem_addKeys x ks acc]
      constructor
      · rintro (h1 | h1)
        · exact Or.inl h1
        · exact Or.inr (List.mem_cons_of_mem _ h1)
      · rintro (h1 | h1)
        · exact Or.inl h1
        · rcases List.mem_cons.mp h1 with rfl | h2
          · exact Or.inl h
          · exact Or.inr h2
    · rw [addKeys_cons_not_mem _ _ _ h, mem_addKeys x ks (acc ++ [k])]
      constructor
      · rintro (h1 | h1)
        · rcases List.mem_append.mp h1 with h2 | h2
          · exact Or.inl h2
          · have : x = k := by simpa using h2
            subst this; exact Or.inr (List.mem_cons_self ..)
        · exact Or.inr (List.mem_cons_of_mem _ h1)
      · rintro (h1 | h1)
        · exact Or.inl (List.mem_append_left _ h1)
        · rcases List.mem_cons.mp h1 with rfl | h2
          · exact Or.inl (List.mem_append_right _ (by simp))
          · exact Or.inr h2

theorem addKeys_append : ∀ (a b acc : List κ), addKeys acc (a ++ b) = addKeys (addKeys acc a) b
  | [], b, acc => by simp [addKeys]
  | k :: a, b, acc => by
    simp only [List.cons_append]
    by_cases h : k ∈ acc
    · rw [addKeys_cons_mem _ _ _ h, addKeys_cons_mem _ _ _ h]; exact addKeys_append a b acc
    · rw [addKeys_cons_not_mem _ _ _ h, addKeys_cons_not_mem _ _ _ h]; exact addKeys_append a b (acc ++ [k])

theorem addKeys_snoc (acc ks : List κ) (k : κ) :
    addKeys acc (ks ++ [k]) = if k ∈ addKeys acc ks then addKeys acc ks else addKeys acc ks ++ [k] := by
  rw [addKeys_append]
  simp [addKeys]

/-- adding an already de-duplicated list is adding the list -/
theorem addKeys_addKeys : ∀ (c acc p : List κ), addKeys acc (addKeys p c) = addKeys (addKeys acc p) c
  | [], acc, p => by simp [addKeys]
  | k :: ks, acc, p => by
    by_cases h : k ∈ p
    · have h' : k ∈ addKeys acc p := (mem_addKeys k p acc).mpr (Or.inr h)
      rw [show addKeys p (k :: ks) = addKeys p ks by simp [addKeys, h]]
      rw [show addKeys (addKeys acc p) (k :: ks) = addKeys (addKeys acc p) ks by simp [addKeys, h']]
      exact addKeys_addKeys ks acc p
    · rw [show addKeys p (k :: ks) = addKeys (p ++ [k]) ks by simp [addKeys, h]]
      rw [addKeys_addKeys ks acc (p ++ [k]), addKeys_snoc]
      by_cases h' : k ∈ addKeys acc p
      · simp only [h', if_true]
        rw [show addKeys (addKeys acc p) (k :: ks) = addKeys (addKeys acc p) ks by simp [addKeys, h']]
      · simp only [h', if_false]
        rw [show addKeys (addKeys acc p) (k :: ks) = addKeys (addKeys acc p ++ [k]) ks by simp [addKeys, h']]

theorem nodup_addKeys : ∀ (ks acc : List κ), acc.Nodup → (addKeys acc ks).Nodup
  | [], acc, h => by simpa [addKeys] using h
  | k :: ks, acc, h => by
    by_cases hk : k ∈ acc
    · rw [addKeys_cons_mem _ _ _ hk]; exact nodup_addKeys ks acc h
    · rw [addKeys_cons_not_mem _ _ _ hk]
      apply nodup_addKeys ks
      rw [List.nodup_append]
      refine ⟨h, by simp, ?_⟩
      intro a ha b hb
      simp at hb; subst hb
      intro e; subst e; exact hk ha

theorem firstOcc_nodup (ks : List κ) : (firstOcc ks).Nodup := nodup_addKeys ks [] (by simp)

theorem mem_firstOcc (x : κ) (ks : List κ) : x ∈ firstOcc ks ↔ x ∈ ks := by
  unfold firstOcc; rw [mem_addKeys]; simp

theorem members_append (k : κ) (a b : List (κ × Nat)) : members k (a ++ b) = members k a ++ members k b := by
  simp [members]

theorem members_nil_of_not_mem (k : κ) (rows : List (κ × Nat)) (h : k ∉ rows.map Prod.fst) :
    members k rows = [] := by
  unfold members
  rw [List.map_eq_nil_iff, List.filter_eq_nil_iff]
  intro r hr
  simp only [decide_eq_true_eq]
  intro e; apply h; rw [← e]; exact List.mem_map_of_mem hr

/-- adding one row to a bucket list that is in "specification form" -/
theorem addToGroups_map (k : κ) (i : Nat) (m : κ → List Nat) : ∀ (L : List κ), L.Nodup →
    addToGroups k i (L.map fun k' => (k', m k')) =
      if k ∈ L then L.map (fun k' => (k', if k' = k then m k' ++ [i] else m k'))
      else L.map (fun k' => (k', m k')) ++ [(k, [i])]
  | [], _ => by simp [addToGroups]
  | a :: L, hn => by
    have hnL : L.Nodup := (List.nodup_cons.mp hn).2
    have haL : a ∉ L := (List.nodup_cons.mp hn).1
    simp only [List.map_cons, addToGroups]
    by_cases ha : a = k
    · subst ha
      simp only [if_true, List.mem_cons, true_or]
      congr 1
      apply List.map_congr_left
      intro k' hk'
      have : k' ≠ a := fun e => haL (e ▸ hk')
      simp [this]
    · simp only [ha, if_false]
      rw [addToGroups_map k i m L hnL]
      have hka : ¬ k = a := fun e => ha e.symm
      by_cases hk : k ∈ L
      · simp [hk, ha]
      · simp [hk, hka]

theorem groupSpec_snoc (rows : List (κ × Nat)) (r : κ × Nat) :
    addToGroups r.1 r.2 (groupSpec rows) = groupSpec (rows ++ [r]) := by
  unfold groupSpec
  rw [addToGroups_map r.1 r.2 (fun k => members k rows) _ (firstOcc_nodup _)]
  simp only [List.map_append, List.map_cons, List.map_nil]
  unfold firstOcc
  rw [addKeys_snoc]
  have hm : ∀ k', members k' (rows ++ [r]) = members k' rows ++ (if r.1 = k' then [r.2] else []) := by
    intro k'; rw [members_append]; simp [members, List.filter_cons]; split <;> simp
  by_cases h : r.1 ∈ addKeys [] (rows.map Prod.fst)
  · simp only [h, if_true]
    apply List.map_congr_left
    intro k' _
    rw [hm k']
    by_cases e : k' = r.1
    · subst e; simp
    · have e' : ¬ r.1 = k' := fun x => e x.symm
      simp [e, e']
  · simp only [h, if_false, List.map_append, List.map_cons, List.map_nil]
    congr 1
    · apply List.map_congr_left
      intro k' hk'
      rw [hm k']
      have e' : ¬ r.1 = k' := fun x => h (x ▸ hk')
      simp [e']
    · rw [hm r.1]
      have : members r.1 rows = [] := by
        apply members_nil_of_not_mem
        intro hx; exact h ((mem_addKeys _ _ _).mpr (Or.inr hx))
      simp [this]

theorem foldl_groups (rows : List (κ × Nat)) : ∀ (pre : List (κ × Nat)),
    rows.foldl (fun g r => addToGroups r.1 r.2 g) (groupSpec pre) = groupSpec (pre ++ rows) := by
  induction rows with
  | nil => intro pre; simp
  | cons r rows ih =>
    intro pre
    simp only [List.foldl_cons]
    rw [groupSpec_snoc, ih]; simp

/-- one worker's grouping is the specification on its chunk -/
theorem localGroups_eq_spec (rows : List (κ × Nat)) : localGroups rows = groupSpec rows := by
  have := foldl_groups rows []
  simpa [localGroups, groupSpec, firstOcc, addKeys] using this

theorem lookupGroup_map (k : κ) (m : κ → List Nat) : ∀ (L : List κ),
    lookupGroup k (L.map fun k' => (k', m k')) = if k ∈ L then m k else []
  | [] => by simp [lookupGroup]
  | a :: L => by
    simp only [List.map_cons, lookupGroup]
    by_cases ha : a = k
    · subst ha; simp
    · have hka : ¬ k = a := fun e => ha e.symm
      simp only [ha, if_false, lookupGroup_map k m L, List.mem_cons, hka, false_or]

theorem lookupGroup_spec (k : κ) (rows : List (κ × Nat)) : lookupGroup k (groupSpec rows) = members k rows := by
  unfold groupSpec
  rw [lookupGroup_map]
  by_cases h : k ∈ firstOcc (rows.map Prod.fst)
  · simp [h]
  · simp only [h, if_false]
    symm; apply members_nil_of_not_mem
    intro hx; exact h ((mem_firstOcc _ _).mpr hx)

theorem keys_fold (chunks : List (List (κ × Nat))) : ∀ (acc : List κ),
    (chunks.map groupSpec).foldl (fun acc l => addKeys acc (l.map Prod.fst)) acc
      = addKeys acc (chunks.flatten.map Prod.fst) := by
  induction chunks with
  | nil => intro acc; simp [addKeys]
  | cons c cs ih =>
    intro acc
    simp only [List.map_cons, List.foldl_cons, List.flatten_cons, List.map_append]
    rw [ih, addKeys_append]
    congr 1
    have : (groupSpec c).map Prod.fst = firstOcc (c.map Prod.fst) := by
      unfold groupSpec; simp [List.map_map, Function.comp_def]
    rw [this]; unfold firstOcc
    rw [addKeys_addKeys]; simp [addKeys]

theorem members_flatten (k : κ) (chunks : List (List (κ × Nat))) :
    (chunks.map groupSpec).flatMap (lookupGroup k) = members k chunks.flatten := by
  induction chunks with
  | nil => simp [members]
  | cons c cs ih =>
    simp only [List.map_cons, List.flatMap_cons, List.flatten_cons, members_append]
    rw [ih, lookupGroup_spec]


/-! ### keepFirst -/

theorem keepFirstAux_spec {ρ : Type} : ∀ (l : List (κ × ρ)) (seen : List κ) (kept : List (κ × ρ)),
    kept.map Prod.fst = seen →
    (keepFirstAux (seen, kept) l).1 = addKeys seen (l.map Prod.fst) ∧
    (keepFirstAux (seen, kept) l).2.map Prod.fst = (keepFirstAux (seen, kept) l).1 ∧
    ∃ extra, (keepFirstAux (seen, kept) l).2 = kept ++ extra ∧ extra.Sublist l
  | [], seen, kept, h => by simp [keepFirstAux, addKeys, h]
  | r :: rs, seen, kept, h => by
    by_cases hm : r.1 ∈ seen
    · have ih := keepFirstAux_spec rs seen kept h
      simp only [keepFirstAux, hm, if_true, List.map_cons]
      rw [addKeys_cons_mem _ _ _ hm]
      obtain ⟨h1, h2, extra, h3, h4⟩ := ih
      exact ⟨h1, h2, extra, h3, List.Sublist.cons _ h4⟩
    · have ih := keepFirstAux_spec rs (seen ++ [r.1]) (kept ++ [r]) (by simp [h])
      simp only [keepFirstAux, hm, if_false, List.map_cons]
      rw [addKeys_cons_not_mem _ _ _ hm]
      obtain ⟨h1, h2, extra, h3, h4⟩ := ih
      refine ⟨h1, h2, r :: extra, ?_, List.Sublist.cons₂ _ h4⟩
      rw [h3]; simp

/-- the kept rows carry exactly the distinct keys, each once, in order of first occurrence -/
theorem keepFirst_keys {ρ : Type} (l : List (κ × ρ)) : (keepFirst l).map Prod.fst = firstOcc (l.map Prod.fst) := by
  obtain ⟨h1, h2, _⟩ := keepFirstAux_spec l [] [] rfl
  unfold keepFirst firstOcc
  rw [h2, h1]

/-- and they are rows of the input, in input order -/
theorem keepFirst_sublist {ρ : Type} (l : List (κ × ρ)) : (keepFirst l).Sublist l := by
  obtain ⟨_, _, extra, h3, h4⟩ := keepFirstAux_spec l [] [] rfl
  unfold keepFirst
  rw [h3]; simpa using h4

end Csvq
