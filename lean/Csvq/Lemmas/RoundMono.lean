/-
  Rounding to binary64 is monotone: a ≤ b ⇒ round a ≤ round b (`FVal.roundMag · 1`, Model/Float.lean), and a
  positive magnitude rounds to a positive one.  Used for: float64(i) ≤ float64(j) for integers i ≤ j.
-/
import Csvq.Lemmas.Float
namespace Csvq
namespace FVal

/-- `roundMag` without the overflow test -/
def rndD (a d : Nat) : Nat :=
  let q0 := a / d
  let bits := if q0 = 0 then 0 else Nat.log2 q0 + 1
  let k := bits - 53
  let dd := d * pow2 k
  let m := a / dd
  let rem := a - m * dd
  let m' := if 2 * rem > dd then m + 1
            else if 2 * rem = dd then (if m % 2 = 0 then m else m + 1)
            else m
  m' * pow2 k

theorem roundMag_rndD (a d : Nat) : roundMag a d = if rndD a d ≥ overflowAt then none else some (rndD a d) := rfl

/-- the value `roundMag a 1` returns when it does not overflow -/
def rnd (a : Nat) : Nat := rndD a 1

theorem roundMag_eq_rnd (a n : Nat) (h : roundMag a 1 = some n) : n = rnd a := by
  rw [roundMag_rndD] at h
  split at h
  · cases h
  · injection h with h; exact h.symm

/-- the shape of `rnd`: with k = bits − 53, m = ⌊a / 2^k⌋, r = a − m·2^k -/
theorem rnd_shape (a k m r p : Nat) (hk : k = (if a = 0 then 0 else Nat.log2 a + 1) - 53) (hp : p = pow2 k)
    (hm : m = a / p) (hr : r = a - m * p) :
    rnd a = (if 2 * r > p then m + 1 else if 2 * r = p then (if m % 2 = 0 then m else m + 1) else m) * p := by
  unfold rnd rndD
  simp only [Nat.div_one, Nat.one_mul]
  subst hk; subst hp; subst hm; subst hr; rfl

theorem bits_bounds (a : Nat) (h : a ≠ 0) : 2 ^ Nat.log2 a ≤ a ∧ a < 2 ^ (Nat.log2 a + 1) :=
  ⟨Nat.log2_self_le h, Nat.lt_log2_self⟩

theorem log2_mono (a b : Nat) (ha : a ≠ 0) (h : a ≤ b) : Nat.log2 a ≤ Nat.log2 b := by
  have hb : b ≠ 0 := by omega
  by_cases c : Nat.log2 a ≤ Nat.log2 b
  · exact c
  · exfalso
    have h1 : b < 2 ^ (Nat.log2 b + 1) := Nat.lt_log2_self
    have h2 : 2 ^ (Nat.log2 b + 1) ≤ 2 ^ Nat.log2 a := Nat.pow_le_pow_right (by decide) (by omega)
    have h3 := Nat.log2_self_le ha
    omega

/-- m·2^k ≤ rnd a ≤ (m+1)·2^k -/
theorem rnd_between (a k m p : Nat) (hk : k = (if a = 0 then 0 else Nat.log2 a + 1) - 53) (hp : p = pow2 k) (hm : m = a / p) :
    m * p ≤ rnd a ∧ rnd a ≤ (m + 1) * p := by
  rw [rnd_shape a k m (a - m * p) p hk hp hm rfl]
  have e : (m + 1) * p = m * p + p := Nat.succ_mul m p
  split
  · omega
  · split
    · split <;> omega
    · omega

theorem sel_mono (m p a b mp : Nat) (hmp : mp = m * p) (h : a ≤ b) (hra : mp ≤ a) :
    (if 2 * (a - mp) > p then m + 1 else if 2 * (a - mp) = p then (if m % 2 = 0 then m else m + 1) else m) * p
      ≤ (if 2 * (b - mp) > p then m + 1 else if 2 * (b - mp) = p then (if m % 2 = 0 then m else m + 1) else m) * p := by
  apply Nat.mul_le_mul_right
  split <;> split <;> (try split) <;> (try split) <;> (try split) <;> omega

theorem rnd_mono (a b : Nat) (h : a ≤ b) : rnd a ≤ rnd b := by
  by_cases ha0 : a = 0
  · subst ha0
    have : rnd 0 = 0 := by decide
    omega
  have hb0 : b ≠ 0 := by omega
  obtain ⟨la1, la2⟩ := bits_bounds a ha0
  obtain ⟨lb1, lb2⟩ := bits_bounds b hb0
  have hlog := log2_mono a b ha0 h
  -- names
  generalize hka : (if a = 0 then 0 else Nat.log2 a + 1) - 53 = ka
  generalize hkb : (if b = 0 then 0 else Nat.log2 b + 1) - 53 = kb
  have hka' : ka = Nat.log2 a + 1 - 53 := by rw [← hka, if_neg ha0]
  have hkb' : kb = Nat.log2 b + 1 - 53 := by rw [← hkb, if_neg hb0]
  have hpa : 0 < pow2 ka := pow2_pos ka
  have hpb : 0 < pow2 kb := pow2_pos kb
  obtain ⟨a1, a2⟩ := rnd_between a ka (a / pow2 ka) (pow2 ka) hka.symm rfl rfl
  obtain ⟨b1, b2⟩ := rnd_between b kb (b / pow2 kb) (pow2 kb) hkb.symm rfl rfl
  by_cases hk : ka = kb
  · -- same spacing
    subst hk
    have hm : a / pow2 ka ≤ b / pow2 ka := Nat.div_le_div_right h
    by_cases hlt : a / pow2 ka < b / pow2 ka
    · have : (a / pow2 ka + 1) * pow2 ka ≤ b / pow2 ka * pow2 ka := Nat.mul_le_mul_right _ hlt
      omega
    · have hmeq : a / pow2 ka = b / pow2 ka := by omega
      rw [rnd_shape a ka (a / pow2 ka) (a - a / pow2 ka * pow2 ka) (pow2 ka) hka.symm rfl rfl rfl,
          rnd_shape b ka (a / pow2 ka) (b - a / pow2 ka * pow2 ka) (pow2 ka) hkb.symm rfl hmeq rfl]
      have hra : a / pow2 ka * pow2 ka ≤ a := Nat.div_mul_le_self a (pow2 ka)
      exact sel_mono (a / pow2 ka) (pow2 ka) a b _ rfl h hra
  · -- b has more bits than a
    have hlt : ka < kb := by omega
    have hbits : Nat.log2 a + 1 ≤ Nat.log2 b := by omega
    -- rnd a ≤ 2^(bits a)
    have hUa : rnd a ≤ 2 ^ (Nat.log2 a + 1) := by
      by_cases hs : Nat.log2 a + 1 ≤ 53
      · have hk0 : ka = 0 := by omega
        subst hk0
        have hp1 : pow2 0 = 1 := rfl
        rw [hp1, Nat.div_one] at a2
        omega
      · have hbk : Nat.log2 a + 1 = 53 + ka := by omega
        have hmlt : a / pow2 ka < 2 ^ 53 := by
          rw [hbk, Nat.pow_add] at la2
          exact Nat.div_lt_of_lt_mul (by unfold pow2; rw [Nat.mul_comm]; exact la2)
        have : (a / pow2 ka + 1) * pow2 ka ≤ 2 ^ 53 * pow2 ka := Nat.mul_le_mul_right _ hmlt
        have e : 2 ^ 53 * pow2 ka = 2 ^ (Nat.log2 a + 1) := by unfold pow2; rw [hbk, Nat.pow_add]
        omega
    -- 2^(bits b − 1) ≤ rnd b
    have hLb : 2 ^ Nat.log2 b ≤ rnd b := by
      have hbk : Nat.log2 b = 52 + kb := by omega
      have hmge : 2 ^ 52 ≤ b / pow2 kb := by
        rw [Nat.le_div_iff_mul_le hpb]
        have : 2 ^ 52 * pow2 kb = 2 ^ Nat.log2 b := by unfold pow2; rw [hbk, Nat.pow_add]
        omega
      have : 2 ^ 52 * pow2 kb ≤ b / pow2 kb * pow2 kb := Nat.mul_le_mul_right _ hmge
      have e : 2 ^ 52 * pow2 kb = 2 ^ Nat.log2 b := by unfold pow2; rw [hbk, Nat.pow_add]
      omega
    have : 2 ^ (Nat.log2 a + 1) ≤ 2 ^ Nat.log2 b := Nat.pow_le_pow_right (by decide) hbits
    omega

theorem rnd_pos (a : Nat) (h : 0 < a) : 0 < rnd a := by
  have ha0 : a ≠ 0 := by omega
  obtain ⟨la1, _⟩ := bits_bounds a ha0
  generalize hka : (if a = 0 then 0 else Nat.log2 a + 1) - 53 = ka
  have hka' : ka = Nat.log2 a + 1 - 53 := by rw [← hka, if_neg ha0]
  obtain ⟨a1, _⟩ := rnd_between a ka (a / pow2 ka) (pow2 ka) hka.symm rfl rfl
  have hp := pow2_pos ka
  have hle : pow2 ka ≤ a := by
    have : 2 ^ ka ≤ 2 ^ Nat.log2 a := Nat.pow_le_pow_right (by decide) (by omega)
    unfold pow2; omega
  have hm : 1 ≤ a / pow2 ka := (Nat.le_div_iff_mul_le hp).mpr (by omega)
  have : 1 * pow2 ka ≤ a / pow2 ka * pow2 ka := Nat.mul_le_mul_right _ hm
  omega

end FVal
end Csvq
