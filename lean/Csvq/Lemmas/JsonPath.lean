/-
  Lemmas for Csvq.Model.JsonPath (used by Csvq.Props.C02): what `addPathValueToRowStructure` builds.
-/
import Csvq.Model.JsonPath
namespace Csvq.Json

def isObj : JS → Bool
  | .obj _ => true
  | _ => false

mutual
/-- objects as the writer builds them: distinct keys, no empty sub-object — hereditarily -/
def wfMembers : List (List Char × JS) → Prop
  | [] => True
  | (k, v) :: ms => lookupKey k ms = none ∧ wfVal v ∧ wfMembers ms

def wfVal : JS → Prop
  | .obj ms => ms ≠ [] ∧ wfMembers ms
  | _ => True
end

theorem wfVal_leaf (v : JS) (h : isObj v = false) : wfVal v := by
  cases v <;> simp_all [wfVal, isObj]

theorem flattenVal_leaf (v : JS) (h : isObj v = false) : flattenVal v = [([], v)] := by
  cases v <;> simp_all [flattenVal, isObj]

theorem flattenMembers_append (a b : List (List Char × JS)) :
    flattenMembers (a ++ b) = flattenMembers a ++ flattenMembers b := by
  induction a with
  | nil => simp [flattenMembers]
  | cons x xs ih =>
    obtain ⟨k, v⟩ := x
    simp [flattenMembers, ih]

/-! ## lookups -/

theorem lookupKey_append (k : List Char) (a b : List (List Char × JS)) :
    lookupKey k (a ++ b) = match lookupKey k a with
      | some x => some x
      | none => lookupKey k b := by
  induction a with
  | nil => simp [lookupKey]
  | cons x xs ih =>
    obtain ⟨k', v⟩ := x
    simp only [List.cons_append, lookupKey]
    by_cases h : k' = k
    · simp [h]
    · simp [h, ih]

theorem lookupKey_updateFirst (k k' : List Char) (y : JS) (ms : List (List Char × JS)) :
    lookupKey k' (updateFirst k y ms) =
      if k' = k then (match lookupKey k ms with | some _ => some y | none => none) else lookupKey k' ms := by
  induction ms with
  | nil => simp [updateFirst, lookupKey]
  | cons x xs ih =>
    obtain ⟨k2, v⟩ := x
    simp only [updateFirst]
    by_cases h : k2 = k
    · subst h
      by_cases h' : k' = k2
      · subst h'; simp [lookupKey]
      · have : ¬ k2 = k' := fun e => h' e.symm
        simp [lookupKey, h', this]
    · simp only [h, if_false, lookupKey]
      by_cases h' : k' = k
      · subst h'
        simp only [h, if_false, if_true] at ih ⊢
        exact ih
      · simp only [h', if_false] at ih ⊢
        by_cases h3 : k2 = k'
        · simp [h3]
        · simp [h3, ih]

/-- with distinct keys, the paths below an object are found by looking up the first segment -/
theorem mem_flatten_iff (ms : List (List Char × JS)) (hw : wfMembers ms) (q : List (List Char)) (w : JS) :
    (q, w) ∈ flattenMembers ms ↔
      ∃ k q' x, q = k :: q' ∧ lookupKey k ms = some x ∧ (q', w) ∈ flattenVal x := by
  induction ms with
  | nil => simp [flattenMembers, lookupKey]
  | cons m ms ih =>
    obtain ⟨k0, v0⟩ := m
    simp only [wfMembers] at hw
    obtain ⟨hn, _, hw'⟩ := hw
    simp only [flattenMembers, List.mem_append, List.mem_map, Prod.mk.injEq, Prod.exists]
    constructor
    · rintro (⟨a, b, hab, rfl, rfl⟩ | h)
      · exact ⟨k0, a, v0, rfl, by simp [lookupKey], hab⟩
      · obtain ⟨k, q', x, rfl, hl, hx⟩ := (ih hw').mp h
        refine ⟨k, q', x, rfl, ?_, hx⟩
        have hne : ¬ k0 = k := by
          intro e; subst e; rw [hn] at hl; cases hl
        simp [lookupKey, hne, hl]
    · rintro ⟨k, q', x, rfl, hl, hx⟩
      by_cases hk : k0 = k
      · subst hk
        simp only [lookupKey, if_true, Option.some.injEq] at hl
        subst hl
        exact Or.inl ⟨q', w, hx, rfl, rfl⟩
      · simp only [lookupKey, hk, if_false] at hl
        exact Or.inr ((ih hw').mpr ⟨k, q', x, rfl, hl, hx⟩)

theorem wf_lookup (ms : List (List Char × JS)) (hw : wfMembers ms) (k : List Char) (x : JS)
    (h : lookupKey k ms = some x) : wfVal x := by
  induction ms with
  | nil => simp [lookupKey] at h
  | cons m ms ih =>
    obtain ⟨k0, v0⟩ := m
    simp only [wfMembers] at hw
    by_cases hk : k0 = k
    · simp only [lookupKey, hk, if_true, Option.some.injEq] at h
      subst h; exact hw.2.1
    · simp only [lookupKey, hk, if_false] at h
      exact ih hw.2.2 h

theorem wf_append (ms : List (List Char × JS)) (hw : wfMembers ms) (k : List Char) (y : JS)
    (hk : lookupKey k ms = none) (hy : wfVal y) : wfMembers (ms ++ [(k, y)]) := by
  induction ms with
  | nil => simp [wfMembers, lookupKey, hy]
  | cons m ms ih =>
    obtain ⟨k0, v0⟩ := m
    simp only [wfMembers] at hw
    have hne : ¬ k0 = k := by
      intro e; subst e; simp [lookupKey] at hk
    have hk' : lookupKey k ms = none := by simpa [lookupKey, hne] using hk
    simp only [List.cons_append, wfMembers]
    refine ⟨?_, hw.2.1, ih hw.2.2 hk'⟩
    rw [lookupKey_append, hw.1]
    have : ¬ k = k0 := fun e => hne e.symm
    simp [lookupKey, this]

theorem wf_update (ms : List (List Char × JS)) (hw : wfMembers ms) (k : List Char) (y : JS) (hy : wfVal y) :
    wfMembers (updateFirst k y ms) := by
  induction ms with
  | nil => simp [updateFirst, wfMembers]
  | cons m ms ih =>
    obtain ⟨k0, v0⟩ := m
    simp only [wfMembers] at hw
    simp only [updateFirst]
    by_cases hk : k0 = k
    · simp only [hk, if_true, wfMembers]
      exact ⟨by rw [← hk]; exact hw.1, hy, hw.2.2⟩
    · simp only [hk, if_false, wfMembers]
      refine ⟨?_, hw.2.1, ih hw.2.2⟩
      rw [lookupKey_updateFirst]
      simp [hk, hw.1]

mutual
theorem flattenMembers_ne (ms : List (List Char × JS)) (hw : wfMembers ms) (hne : ms ≠ []) :
    flattenMembers ms ≠ [] := by
  match ms, hw, hne with
  | [], _, hne => exact absurd rfl hne
  | (k, v) :: ms, hw, _ =>
    simp only [wfMembers] at hw
    have := flattenVal_ne v hw.2.1
    simp only [flattenMembers]
    intro h
    have h1 := (List.append_eq_nil_iff.mp h).1
    simp at h1
    exact this h1

theorem flattenVal_ne (v : JS) (hw : wfVal v) : flattenVal v ≠ [] := by
  match v, hw with
  | .obj ms, hw =>
    simp only [wfVal] at hw
    simp only [flattenVal]
    exact flattenMembers_ne ms hw.2 hw.1
  | .null, _ => simp [flattenVal]
  | .bool _, _ => simp [flattenVal]
  | .str _, _ => simp [flattenVal]
  | .num _, _ => simp [flattenVal]
  | .arr _, _ => simp [flattenVal]
end

/-! ## one column added -/

def Unrelated (p q : List (List Char)) : Prop := ¬ p <+: q ∧ ¬ q <+: p

theorem addPath_none (v : JS) (p : List (List Char)) : addPath v p none = addPath v p (some (.obj [])) := by
  match p with
  | [] => rfl
  | [_] => rfl
  | _ :: _ :: _ => simp [addPath, parentMembers]

/-- a key that is present contradicts "no path below `ms` is related to a path that starts with it" -/
theorem lookup_related (ms : List (List Char × JS)) (hw : wfMembers ms) (k : List Char) (x : JS)
    (h : lookupKey k ms = some x) :
    (isObj x = false → ([k], x) ∈ flattenMembers ms) ∧
    (∀ sub, x = .obj sub → ∃ q w, (q, w) ∈ flattenMembers sub ∧ (k :: q, w) ∈ flattenMembers ms) := by
  constructor
  · intro hx
    exact (mem_flatten_iff ms hw [k] x).mpr ⟨k, [], x, rfl, h, by simp [flattenVal_leaf x hx]⟩
  · intro sub hs
    subst hs
    have hwx := wf_lookup ms hw k _ h
    simp only [wfVal] at hwx
    have hne := flattenMembers_ne sub hwx.2 hwx.1
    cases hf : flattenMembers sub with
    | nil => exact absurd hf hne
    | cons pw rest =>
      obtain ⟨q, w⟩ := pw
      refine ⟨q, w, by simp, ?_⟩
      exact (mem_flatten_iff ms hw (k :: q) w).mpr ⟨k, q, _, rfl, h, by simp [flattenVal, hf]⟩

theorem addPath_spec (v : JS) (hv : isObj v = false) :
    ∀ (p : List (List Char)) (ms : List (List Char × JS)), p ≠ [] → wfMembers ms →
      (∀ q w, (q, w) ∈ flattenMembers ms → Unrelated q p) →
      ∃ ms', addPath v p (some (.obj ms)) = some (.obj ms') ∧ wfMembers ms' ∧ ms' ≠ [] ∧
        ∀ q w, (q, w) ∈ flattenMembers ms' ↔ ((q, w) = (p, v) ∨ (q, w) ∈ flattenMembers ms) := by
  intro p
  induction p with
  | nil => intro ms h; exact absurd rfl h
  | cons k rest ih =>
    intro ms _ hw hun
    cases rest with
    | nil =>
      -- a leaf: the key cannot be there
      have hk : lookupKey k ms = none := by
        cases hl : lookupKey k ms with
        | none => rfl
        | some x =>
          exfalso
          obtain ⟨h1, h2⟩ := lookup_related ms hw k x hl
          cases hx : isObj x with
          | false => exact (hun _ _ (h1 hx)).1 (List.prefix_refl _)
          | true =>
            cases x with
            | obj sub =>
              obtain ⟨q, w, _, hm⟩ := h2 sub rfl
              exact (hun _ _ hm).2 (by simp)
            | _ => simp [isObj] at hx
      refine ⟨ms ++ [(k, v)], by simp [addPath, parentMembers, hk], wf_append ms hw k v hk (wfVal_leaf v hv), by simp, ?_⟩
      intro q w
      rw [flattenMembers_append]
      simp only [flattenMembers, flattenVal_leaf v hv, List.map_cons, List.map_nil, List.append_nil, List.mem_append,
        List.mem_singleton]
      constructor
      · rintro (h | h)
        · exact Or.inr h
        · exact Or.inl h
      · rintro (h | h)
        · exact Or.inr h
        · exact Or.inl h
    | cons k2 rest2 =>
      have hstep : addPath v (k :: k2 :: rest2) (some (.obj ms)) =
          match addPath v (k2 :: rest2) (lookupKey k ms) with
          | none => none
          | some sub => some (.obj (if (lookupKey k ms).isSome then updateFirst k sub ms else ms ++ [(k, sub)])) := rfl
      rw [hstep]
      cases hl : lookupKey k ms with
      | none =>
        obtain ⟨sub', hs1, hs2, hs3, hs4⟩ := ih [] (by simp) (by simp [wfMembers]) (by simp [flattenMembers])
        rw [addPath_none, hs1]
        simp only [Option.isSome_none, Bool.false_eq_true, if_false]
        refine ⟨_, rfl, wf_append ms hw k _ hl (by simp only [wfVal]; exact ⟨hs3, hs2⟩), by simp, ?_⟩
        intro q w
        rw [flattenMembers_append]
        simp only [flattenMembers, flattenVal, List.append_nil, List.mem_append, List.mem_map, Prod.mk.injEq, Prod.exists]
        constructor
        · rintro (h | ⟨a, b, hab, rfl, rfl⟩)
          · exact Or.inr h
          · have := (hs4 a b).mp hab
            simp only [flattenMembers, List.not_mem_nil, or_false, Prod.mk.injEq] at this
            exact Or.inl ⟨by rw [this.1], this.2⟩
        · rintro (⟨rfl, rfl⟩ | h)
          · exact Or.inr ⟨k2 :: rest2, _, (hs4 _ _).mpr (Or.inl rfl), rfl, rfl⟩
          · exact Or.inl h
      | some x =>
        obtain ⟨h1, h2⟩ := lookup_related ms hw k x hl
        cases x with
        | obj sub =>
          have hwx := wf_lookup ms hw k _ hl
          simp only [wfVal] at hwx
          have hun' : ∀ q w, (q, w) ∈ flattenMembers sub → Unrelated q (k2 :: rest2) := by
            intro q w hq
            have hm : (k :: q, w) ∈ flattenMembers ms :=
              (mem_flatten_iff ms hw (k :: q) w).mpr ⟨k, q, _, rfl, hl, by simpa [flattenVal] using hq⟩
            obtain ⟨u1, u2⟩ := hun _ _ hm
            exact ⟨fun h => u1 (by simpa using h), fun h => u2 (by simpa using h)⟩
          obtain ⟨sub', hs1, hs2, hs3, hs4⟩ := ih sub (by simp) hwx.2 hun'
          rw [hs1]
          simp only [Option.isSome_some, if_true]
          have hw' := wf_update ms hw k (.obj sub') (by simp only [wfVal]; exact ⟨hs3, hs2⟩)
          refine ⟨_, rfl, hw', ?_, ?_⟩
          · intro h0
            have := lookupKey_updateFirst k k (.obj sub') ms
            rw [h0, hl] at this
            simp [lookupKey] at this
          · intro q w
            rw [mem_flatten_iff _ hw', mem_flatten_iff ms hw]
            constructor
            · rintro ⟨k', q', y, rfl, hly, hy⟩
              rw [lookupKey_updateFirst] at hly
              by_cases hk : k' = k
              · subst hk
                simp only [if_true, hl, Option.some.injEq] at hly
                subst hly
                simp only [flattenVal] at hy
                rcases (hs4 q' w).mp hy with h | h
                · simp only [Prod.mk.injEq] at h
                  obtain ⟨rfl, rfl⟩ := h
                  exact Or.inl rfl
                · exact Or.inr ⟨k', q', _, rfl, hl, by simpa [flattenVal] using h⟩
              · simp only [hk, if_false] at hly
                exact Or.inr ⟨k', q', y, rfl, hly, hy⟩
            · rintro (h | ⟨k', q', y, rfl, hly, hy⟩)
              · simp only [Prod.mk.injEq] at h
                obtain ⟨rfl, rfl⟩ := h
                refine ⟨k, k2 :: rest2, .obj sub', rfl, ?_, ?_⟩
                · rw [lookupKey_updateFirst]; simp [hl]
                · simp only [flattenVal]; exact (hs4 _ _).mpr (Or.inl rfl)
              · by_cases hk : k' = k
                · subst hk
                  rw [hl] at hly
                  simp only [Option.some.injEq] at hly
                  subst hly
                  refine ⟨k', q', .obj sub', rfl, ?_, ?_⟩
                  · rw [lookupKey_updateFirst]; simp [hl]
                  · simp only [flattenVal] at hy ⊢
                    exact (hs4 _ _).mpr (Or.inr hy)
                · refine ⟨k', q', y, rfl, ?_, hy⟩
                  rw [lookupKey_updateFirst]; simp [hk, hly]
        | null => exact absurd (List.prefix_iff_eq_append.mpr (by simp)) (hun _ _ (h1 rfl)).1
        | bool b => exact absurd (List.prefix_iff_eq_append.mpr (by simp)) (hun _ _ (h1 rfl)).1
        | str s => exact absurd (List.prefix_iff_eq_append.mpr (by simp)) (hun _ _ (h1 rfl)).1
        | num a => exact absurd (List.prefix_iff_eq_append.mpr (by simp)) (hun _ _ (h1 rfl)).1
        | arr is => exact absurd (List.prefix_iff_eq_append.mpr (by simp)) (hun _ _ (h1 rfl)).1

/-! ## all columns -/

theorem buildRow_spec :
    ∀ (ps : List (List (List Char))) (vs : List JS) (ms : List (List Char × JS)),
      ps.length = vs.length → (∀ p ∈ ps, p ≠ []) → (∀ v ∈ vs, isObj v = false) → wfMembers ms →
      ps.Pairwise Unrelated → (∀ p ∈ ps, ∀ q w, (q, w) ∈ flattenMembers ms → Unrelated q p) →
      ∃ ms', buildRow ps vs ms = some ms' ∧ wfMembers ms' ∧
        ∀ q w, (q, w) ∈ flattenMembers ms' ↔ ((q, w) ∈ ps.zip vs ∨ (q, w) ∈ flattenMembers ms) := by
  intro ps
  induction ps with
  | nil =>
    intro vs ms hlen _ _ hw _ _
    cases vs with
    | nil => exact ⟨ms, rfl, hw, by simp⟩
    | cons v vs => simp at hlen
  | cons p ps ih =>
    intro vs ms hlen hne hvs hw hpw hun
    cases vs with
    | nil => simp at hlen
    | cons v vs =>
      obtain ⟨ms1, h1, h2, _, h4⟩ := addPath_spec v (hvs v (by simp)) p ms (hne p (by simp)) hw
        (fun q w hq => hun p (by simp) q w hq)
      simp only [buildRow, h1]
      have hpw' := List.pairwise_cons.mp hpw
      obtain ⟨ms2, g1, g2, g3⟩ := ih vs ms1 (by simpa using hlen) (fun x hx => hne x (by simp [hx]))
        (fun x hx => hvs x (by simp [hx])) h2 hpw'.2
        (by
          intro p' hp' q w hq
          rcases (h4 q w).mp hq with h | h
          · simp only [Prod.mk.injEq] at h
            obtain ⟨rfl, rfl⟩ := h
            exact hpw'.1 p' hp'
          · exact hun p' (by simp [hp']) q w h)
      refine ⟨ms2, g1, g2, ?_⟩
      intro q w
      rw [g3, h4]
      simp only [List.zip_cons_cons, List.mem_cons]
      constructor
      · rintro (h | h | h)
        · exact Or.inl (Or.inr h)
        · exact Or.inl (Or.inl h)
        · exact Or.inr h
      · rintro ((h | h) | h)
        · exact Or.inr (Or.inl h)
        · exact Or.inl h
        · exact Or.inr (Or.inr h)

/-- a value of the table is found where its column name points -/
theorem getPath_of_mem :
    ∀ (q : List (List Char)) (ms : List (List Char × JS)) (w : JS), wfMembers ms → isObj w = false →
      (q, w) ∈ flattenMembers ms → getPath q ms = some w := by
  intro q
  induction q with
  | nil =>
    intro ms w hw _ h
    obtain ⟨k, q', x, hq, _, _⟩ := (mem_flatten_iff ms hw [] w).mp h
    cases hq
  | cons k rest ih =>
    intro ms w hw hleaf h
    obtain ⟨k', q', x, hq, hl, hx⟩ := (mem_flatten_iff ms hw (k :: rest) w).mp h
    simp only [List.cons.injEq] at hq
    obtain ⟨rfl, rfl⟩ := hq
    have hwx := wf_lookup ms hw k x hl
    cases x with
    | obj sub =>
      simp only [flattenVal] at hx
      simp only [wfVal] at hwx
      cases rest with
      | nil =>
        obtain ⟨_, _, _, hq, _, _⟩ := (mem_flatten_iff sub hwx.2 [] w).mp hx
        cases hq
      | cons k2 r2 =>
        simp only [getPath, hl]
        exact ih sub w hwx.2 hleaf hx
    | null => simp [flattenVal] at hx; obtain ⟨rfl, rfl⟩ := hx; simp [getPath, hl]
    | bool b => simp [flattenVal] at hx; obtain ⟨rfl, rfl⟩ := hx; simp [getPath, hl]
    | str s => simp [flattenVal] at hx; obtain ⟨rfl, rfl⟩ := hx; simp [getPath, hl]
    | num a => simp [flattenVal] at hx; obtain ⟨rfl, rfl⟩ := hx; simp [getPath, hl]
    | arr is => simp [flattenVal] at hx; obtain ⟨rfl, rfl⟩ := hx; simp [getPath, hl]

/-! ## path syntax, flat names -/

theorem toStructure_not_obj (v : JVal) : isObj (toStructure v) = false := by
  cases v with
  | tern t => cases t with
    | none => rfl
    | some b => rfl
  | _ => rfl

theorem parseMember_ne (n : Nat) (s : List Char) (segs : List (List Char)) (h : parseMember n s = some segs) :
    segs ≠ [] := by
  cases n with
  | zero => simp [parseMember] at h
  | succ n =>
    cases s with
    | nil => simp [parseMember] at h
    | cons c rest =>
      simp only [parseMember] at h
      split at h
      · cases h
      · split at h
        · injection h with h; subst h; simp
        · split at h
          · injection h with h; subst h; simp
          · cases h

/-- a name without '.' and backslash -/
def FlatName (s : List Char) : Prop := ∀ c ∈ s, c ≠ '.' ∧ c ≠ '\\'

theorem scanSegTail_plain (c : Char) (rest : List Char) (h1 : c ≠ '.') (h2 : c ≠ '\\') :
    scanSegTail (c :: rest) = ((c :: (scanSegTail rest).1), (scanSegTail rest).2) := by
  cases rest with
  | nil => simp [scanSegTail, h1, h2]
  | cons d r => simp [scanSegTail, h1, h2]

theorem unescSeg_plain (c : Char) (rest : List Char) (h2 : c ≠ '\\') : unescSeg (c :: rest) = c :: unescSeg rest := by
  cases rest with
  | nil => simp [unescSeg, h2]
  | cons d r => simp [unescSeg, h2]

theorem scanSegTail_flat (s : List Char) (h : FlatName s) : scanSegTail s = (s, []) := by
  induction s with
  | nil => rfl
  | cons c cs ih =>
    obtain ⟨h1, h2⟩ := h c (by simp)
    rw [scanSegTail_plain c cs h1 h2, ih (fun x hx => h x (by simp [hx]))]

theorem unescSeg_flat (s : List Char) (h : FlatName s) : unescSeg s = s := by
  induction s with
  | nil => rfl
  | cons c cs ih =>
    obtain ⟨_, h2⟩ := h c (by simp)
    rw [unescSeg_plain c cs h2, ih (fun x hx => h x (by simp [hx]))]

theorem parsePath_flat (s : List Char) (h : FlatName s) : parsePath s = some [s] := by
  cases s with
  | nil => rfl
  | cons c cs =>
    obtain ⟨h1, _⟩ := h c (by simp)
    have ht := scanSegTail_flat cs (fun x hx => h x (by simp [hx]))
    simp [parsePath, parseMember, h1, ht, unescSeg_flat (c :: cs) h]

theorem mapMOpt_parsePath_flat (hd : List (List Char)) (h : ∀ s ∈ hd, FlatName s) :
    mapMOpt parsePath hd = some (hd.map fun s => [s]) := by
  induction hd with
  | nil => rfl
  | cons s ss ih =>
    simp [mapMOpt, parsePath_flat s (h s (by simp)), ih (fun x hx => h x (by simp [hx]))]

theorem lookupKey_not_obj (k : List Char) (ms : List (List Char × JS)) (h : ∀ p ∈ ms, isObj p.2 = false) :
    ∀ x, lookupKey k ms = some x → isObj x = false := by
  induction ms with
  | nil => intro x hx; simp [lookupKey] at hx
  | cons m ms ih =>
    intro x hx
    obtain ⟨k', v'⟩ := m
    simp only [lookupKey] at hx
    split at hx
    · cases hx; exact h (k', x) (by simp)
    · exact ih (fun p hp => h p (by simp [hp])) x hx

/-- a leaf under a key that holds no object is appended (the refusal of `addPath` needs an object there) -/
theorem addPath_leaf_append (v : JS) (k : List Char) (ms : List (List Char × JS)) (h : ∀ p ∈ ms, isObj p.2 = false) :
    addPath v [k] (some (.obj ms)) = some (.obj (ms ++ [(k, v)])) := by
  simp only [addPath, parentMembers]
  cases hl : lookupKey k ms with
  | none => rfl
  | some x =>
    have := lookupKey_not_obj k ms h x hl
    cases x <;> simp_all [isObj]

theorem buildRow_flat (ks : List (List Char)) :
    ∀ (vs : List JS) (ms : List (List Char × JS)), ks.length = vs.length →
      (∀ p ∈ ms, isObj p.2 = false) → (∀ v ∈ vs, isObj v = false) →
      buildRow (ks.map fun s => [s]) vs ms = some (ms ++ ks.zip vs) := by
  induction ks with
  | nil =>
    intro vs ms hlen _ _
    cases vs with
    | nil => simp [buildRow]
    | cons v vs => simp at hlen
  | cons k ks ih =>
    intro vs ms hlen hms hvs
    cases vs with
    | nil => simp at hlen
    | cons v vs =>
      simp only [List.map_cons, buildRow, addPath_leaf_append v k ms hms]
      rw [ih vs _ (by simpa using hlen)
        (by intro p hp; rcases List.mem_append.mp hp with h | h
            · exact hms p h
            · simp at h; subst h; exact hvs v (by simp))
        (fun w hw => hvs w (by simp [hw]))]
      simp

theorem mapMOpt_rowObjP_flat (hd : List (List Char)) (rows : List (List JVal))
    (hr : ∀ r ∈ rows, r.length = hd.length) :
    mapMOpt (rowObjP (hd.map fun s => [s])) rows = some (rows.map (rowObj hd)) := by
  induction rows with
  | nil => rfl
  | cons r rs ih =>
    have h1 : rowObjP (hd.map fun s => [s]) r = some (rowObj hd r) := by
      simp [rowObjP, rowObj, buildRow_flat hd (r.map toStructure) [] (by simp [hr r (by simp)]) (by simp) (by intro v hv; simp only [List.mem_map] at hv; obtain ⟨x, _, rfl⟩ := hv; exact toStructure_not_obj x)]
    simp [mapMOpt, h1, ih (fun x hx => hr x (by simp [hx]))]

end Csvq.Json
