/-
  Helper lemmas for C14: every allowed operation preserves the pool invariant.
-/
import Csvq.Model.Pool

namespace Csvq.C14
open Csvq.Pool

theorem inv_init : PoolInv init where
  freeNotLive := by intro a h; cases h
  expected := by intro c a h; cases h
  freeBelow := by intro a h; cases h
  liveBelow := by intro c a h; cases h
  freeNodup := List.nodup_nil

/-- what `alloc` hands out is referenced by nobody, not in the remaining free list, below the new frontier -/
theorem alloc_spec (s : State) (h : PoolInv s) :
    (∀ c, (alloc s).1 ∉ s.refs c) ∧ (alloc s).1 ∉ (alloc s).2.1 ∧
    (∀ x, x ∈ (alloc s).2.1 → x ∈ s.free) ∧ (alloc s).2.1.Nodup ∧
    (alloc s).1 < (alloc s).2.2 ∧ s.next ≤ (alloc s).2.2 := by
  unfold alloc
  cases hf : s.free with
  | nil =>
    refine ⟨?_, by simp, by simp, List.nodup_nil, by simp, by simp⟩
    intro c hc
    have := h.liveBelow c _ hc
    simp at this
  | cons a rest =>
    have hnd : (a :: rest).Nodup := hf ▸ h.freeNodup
    refine ⟨?_, (List.nodup_cons.mp hnd).1, ?_, (List.nodup_cons.mp hnd).2, ?_, Nat.le_refl _⟩
    · intro c
      exact h.freeNotLive a (by rw [hf]; simp) c
    · intro x hx
      simp [hx]
    · exact h.freeBelow a (by rw [hf]; simp)

theorem step_new (s : State) (c : Client) (v : Val) (h : PoolInv s) : PoolInv (step s (.new c v)) := by
  obtain ⟨hfresh, hnotin, hsub, hnd, hlt, hle⟩ := alloc_spec s h
  constructor
  · intro a ha d
    simp only [step] at ha ⊢
    have hafree := hsub a ha
    by_cases hd : d = c
    · simp only [hd, if_true, List.mem_cons, not_or]
      refine ⟨?_, h.freeNotLive a hafree c⟩
      intro heq; rw [heq] at ha; exact hnotin ha
    · simp only [hd, if_false]
      exact h.freeNotLive a hafree d
  · intro d a ha
    simp only [step] at ha ⊢
    by_cases hd : d = c
    · simp only [hd, if_true, List.mem_cons] at ha
      by_cases haa : a = (alloc s).1
      · simp [hd, haa]
      · rcases ha with ha | ha
        · exact absurd ha haa
        · simp only [haa, if_false, hd, and_false]
          exact h.expected c a ha
    · simp only [hd, if_false] at ha
      have hne : a ≠ (alloc s).1 := by intro heq; rw [heq] at ha; exact hfresh d ha
      simp only [hne, if_false, hd, false_and]
      exact h.expected d a ha
  · intro a ha
    simp only [step] at ha ⊢
    exact Nat.lt_of_lt_of_le (h.freeBelow a (hsub a ha)) hle
  · intro d a ha
    simp only [step] at ha ⊢
    by_cases hd : d = c
    · simp only [hd, if_true, List.mem_cons] at ha
      rcases ha with ha | ha
      · rw [ha]; exact hlt
      · exact Nat.lt_of_lt_of_le (h.liveBelow c a ha) hle
    · simp only [hd, if_false] at ha
      exact Nat.lt_of_lt_of_le (h.liveBelow d a ha) hle
  · simp only [step]
    exact hnd

theorem step_discard (s : State) (c : Client) (a : Addr) (h : PoolInv s)
    (hown : a ∈ s.refs c) (hexcl : ∀ d, d ≠ c → a ∉ s.refs d) : PoolInv (step s (.discard c a)) := by
  constructor
  · intro x hx d
    simp only [step, List.mem_cons] at hx ⊢
    by_cases hd : d = c
    · simp only [hd, if_true, List.mem_filter, decide_eq_true_eq, not_and, Decidable.not_not]
      intro hxin
      rcases hx with hx | hx
      · exact hx
      · exact absurd hxin (h.freeNotLive x hx c)
    · simp only [hd, if_false]
      rcases hx with hx | hx
      · rw [hx]; exact hexcl d hd
      · exact h.freeNotLive x hx d
  · intro d x hx
    simp only [step] at hx ⊢
    by_cases hd : d = c
    · subst hd
      simp only [if_true, List.mem_filter] at hx
      exact h.expected d x hx.1
    · simp only [hd, if_false] at hx
      exact h.expected d x hx
  · intro x hx
    simp only [step, List.mem_cons] at hx ⊢
    rcases hx with hx | hx
    · rw [hx]; exact h.liveBelow c a hown
    · exact h.freeBelow x hx
  · intro d x hx
    simp only [step] at hx ⊢
    by_cases hd : d = c
    · simp only [hd, if_true, List.mem_filter] at hx
      exact h.liveBelow c x hx.1
    · simp only [hd, if_false] at hx
      exact h.liveBelow d x hx
  · simp only [step]
    exact List.nodup_cons.mpr ⟨fun hin => h.freeNotLive a hin c hown, h.freeNodup⟩

theorem step_share (s : State) (c d : Client) (a : Addr) (h : PoolInv s) (hown : a ∈ s.refs c) :
    PoolInv (step s (.share c d a)) := by
  constructor
  · intro x hx e
    simp only [step] at hx ⊢
    by_cases he : e = d
    · simp only [he, if_true, List.mem_cons, not_or]
      refine ⟨?_, h.freeNotLive x hx d⟩
      intro heq; rw [heq] at hx; exact h.freeNotLive a hx c hown
    · simp only [he, if_false]
      exact h.freeNotLive x hx e
  · intro e x hx
    simp only [step] at hx ⊢
    by_cases he : e = d
    · simp only [he, if_true, List.mem_cons] at hx
      by_cases hxa : x = a
      · simp only [he, hxa, and_self, if_true]
        exact h.expected c a hown
      · rcases hx with hx | hx
        · exact absurd hx hxa
        · simp only [hxa, and_false, if_false]
          rw [he]
          exact h.expected d x hx
    · simp only [he, if_false] at hx
      simp only [he, false_and, if_false]
      exact h.expected e x hx
  · intro x hx
    exact h.freeBelow x hx
  · intro e x hx
    simp only [step] at hx ⊢
    by_cases he : e = d
    · simp only [he, if_true, List.mem_cons] at hx
      rcases hx with hx | hx
      · rw [hx]; exact h.liveBelow c a hown
      · exact h.liveBelow d x hx
    · simp only [he, if_false] at hx
      exact h.liveBelow e x hx
  · exact h.freeNodup

theorem step_drop (s : State) (c : Client) (a : Addr) (h : PoolInv s) : PoolInv (step s (.drop c a)) := by
  constructor
  · intro x hx d
    simp only [step] at hx ⊢
    by_cases hd : d = c
    · simp only [hd, if_true, List.mem_filter, not_and]
      intro hin
      exact absurd hin (h.freeNotLive x hx c)
    · simp only [hd, if_false]
      exact h.freeNotLive x hx d
  · intro d x hx
    simp only [step] at hx ⊢
    by_cases hd : d = c
    · subst hd
      simp only [if_true, List.mem_filter] at hx
      exact h.expected d x hx.1
    · simp only [hd, if_false] at hx
      exact h.expected d x hx
  · intro x hx
    exact h.freeBelow x hx
  · intro d x hx
    simp only [step] at hx ⊢
    by_cases hd : d = c
    · simp only [hd, if_true, List.mem_filter] at hx
      exact h.liveBelow c x hx.1
    · simp only [hd, if_false] at hx
      exact h.liveBelow d x hx
  · exact h.freeNodup

theorem step_inv (s : State) (op : Op) (h : PoolInv s) (ha : Allowed s op) : PoolInv (step s op) := by
  cases op with
  | new c v => exact step_new s c v h
  | discard c a => exact step_discard s c a h ha.1 ha.2
  | read c a => exact h
  | share c d a => exact step_share s c d a h ha
  | drop c a => exact step_drop s c a h

theorem run_inv (ops : List Op) : ∀ s, PoolInv s → Disciplined s ops → PoolInv (run s ops) := by
  induction ops with
  | nil => intro s h _; exact h
  | cons op rest ih =>
    intro s h hd
    exact ih (step s op) (step_inv s op h hd.1) hd.2

theorem run_append (a b : List Op) : ∀ s, run s (a ++ b) = run (run s a) b := by
  induction a with
  | nil => intro s; rfl
  | cons op rest ih => intro s; exact ih (step s op)

theorem disciplined_append (a b : List Op) : ∀ s, Disciplined s (a ++ b) → Disciplined s a ∧ Disciplined (run s a) b := by
  induction a with
  | nil => intro s h; exact ⟨trivial, h⟩
  | cons op rest ih =>
    intro s h
    have := ih (step s op) h.2
    exact ⟨⟨h.1, this.1⟩, this.2⟩

end Csvq.C14
