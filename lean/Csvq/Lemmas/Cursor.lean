/-
  Csvq.Lemmas.Cursor — specification vocabulary and helper lemmas for C16 (cursors).
-/
import Csvq.Model.Cursor
import Csvq.Gen.CursorFetch
import Csvq.Gen.CursorOps
import Csvq.Gen.CursorLocks
namespace Csvq.Cursor
open Csvq

/-! ## specification vocabulary -/

/-- the *mathematical* (unbounded) position a FETCH addresses -/
def target (p : Pos) (index len : Int) : Int :=
  match p with
  | .next => index + 1
  | .prior => index - 1
  | .first => 0
  | .last => len - 1
  | .absolute n => n
  | .relative n => index + n

def clamp (lo hi x : Int) : Int := if x < lo then lo else if hi < x then hi else x

/-- what the manual says a FETCH does: move to the addressed position, return the record there if
    it exists, otherwise return nothing and rest before the first / after the last record -/
def specFetch {α} (rows : List α) (index : Int) (p : Pos) : CState α × Option α :=
  let tgt := target p index rows.length
  (.opened rows (clamp (-1) rows.length tgt) true,
   if 0 ≤ tgt ∧ tgt < rows.length then rows[tgt.toNat]? else none)

/-- pointer invariant -/
def PtrInv {α} : CState α → Prop
  | .closed => True
  | .opened rows index _ => -1 ≤ index ∧ index ≤ rows.length

/-- a Go slice of records has fewer than 2^63 - 1 elements (`RecordLen()` is an `int`, a Record is 24 bytes) -/
def LenOK {α} (rows : List α) : Prop := (rows.length : Int) < maxI64

/-- the number of FETCH RELATIVE is a Go `int` (`int(i.Raw())` in FetchCursor); ABSOLUTE needs no bound -/
def NumberOK (p : Pos) : Prop :=
  match p with
  | .relative n => inI64 n
  | _ => True

def ScopeInv {α} (s : Scope α) : Prop := ∀ p ∈ s, PtrInv p.2

/-- operations that can replace the view of the cursor stored under key `k` -/
def Op.discards {α} (k : String) : Op α → Prop
  | .close n => key n = k
  | .dispose n => key n = k
  | _ => False

/-! ## bridge to the generated code -/

open Gen.CursorFetch in
def Pos.tok : Pos → PosTok
  | .next => .other
  | .prior => .PRIOR
  | .first => .FIRST
  | .last => .LAST
  | .absolute _ => .ABSOLUTE
  | .relative _ => .RELATIVE

/-- the `number` FetchCursor passes (−1 when the statement has none) -/
def Pos.number : Pos → Int
  | .absolute n => n
  | .relative n => n
  | _ => -1

open Gen.CursorFetch in
def interpFetch {α} (rows : List α) : FetchOut → Except Err (CState α × Option α)
  | .closedError => .error .closed
  | .noRow i f => .ok (.opened rows i f, none)
  | .row i f => .ok (.opened rows i f, rows[i.toNat]?)

open Gen.CursorFetch in
def interpRange : RangeOut → Except Err Tern
  | .closedError => .error .closed
  | .unknown => .ok .U
  | .bool b => .ok (Tern.ofBool b)

open Gen.CursorFetch in
def interpCount : CountOut → Except Err Int
  | .closedError => .error .closed
  | .value n => .ok n

/-- the fields of a cursor as the Go code sees them -/
def CState.viewNil {α} : CState α → Bool
  | .closed => true
  | .opened _ _ _ => false

/-- Close leaves index = 0 in a closed cursor; the value is unobservable (every reader checks view == nil first) -/
def CState.indexField {α} : CState α → Int
  | .closed => 0
  | .opened _ i _ => i

def CState.fetchedField {α} : CState α → Bool
  | .closed => false
  | .opened _ _ f => f

open Gen.CursorOps in
/-- read the outcome of a generated state function back as a model result; `rows`: the view assigned by
    `c.view = view` (the query result); `none`: an error the model has no cursor for (pseudo cursors, a failing query) -/
def interpState {α} (rows : List α) : StateOut → Option (Except Err (CState α))
  | .err "NewCursorOpenError" => some (.error .alreadyOpen)
  | .err _ => none
  | .ok true _ _ => some (.ok .closed)
  | .ok false i f => some (.ok (.opened rows i f))

def exceptToOption {ε β} : Except ε β → Option β
  | .ok b => some b
  | .error _ => none

/-! ## lock discipline (checker over the paths regenerated from cursor.go) -/

/-- one control-flow path, as the mutex operations met: `held` — the mutex is locked, `deferred` — an
    Unlock is deferred.  Refused: locking a held mutex (self-deadlock), unlocking a free one, deferring
    twice, and a `return` / end of body with `held ≠ deferred` (the lock leaks, or the deferred Unlock hits a
    free mutex). -/
def lockPathGo (held deferred : Bool) : List String → Bool
  | [] => held == deferred
  | "lock" :: rest => !held && lockPathGo true deferred rest
  | "unlock" :: rest => held && lockPathGo false deferred rest
  | "defer-unlock" :: rest => held && !deferred && lockPathGo held true rest
  | "return" :: _ => held == deferred
  | _ :: _ => false

def lockPathOK (p : List String) : Bool := lockPathGo false false p

def locksBalanced (ps : List (List String)) : Bool := ps.all lockPathOK

/-- the paths of one function of cursor.go -/
def lockPathsOf (fn : String) : Option (List (List String)) := Gen.CursorLocks.paths.lookup fn

/-! ## arithmetic -/

theorem wrap64_of_inI64 {x : Int} (h : inI64 x) : wrap64 x = x := by
  unfold inI64 minI64 maxI64 at h
  unfold wrap64
  omega

theorem wrap64_inI64 (x : Int) : inI64 (wrap64 x) := by
  unfold inI64 minI64 maxI64 wrap64
  omega

theorem wrap64_add_over {x : Int} (h1 : maxI64 < x) (h2 : x < 18446744073709551616 - minI64) :
    wrap64 x = x - 18446744073709551616 := by
  unfold minI64 maxI64 at *
  unfold wrap64
  omega

theorem wrap64_add_under {x : Int} (h1 : x < minI64) (h2 : minI64 - 18446744073709551616 ≤ x) :
    wrap64 x = x + 18446744073709551616 := by
  unfold minI64 at *
  unfold wrap64
  omega

instance {α} (rows : List α) : Decidable (LenOK rows) := by unfold LenOK; infer_instance

theorem clamp_below {len t : Int} (h : t < 0) (hl : 0 ≤ len) : clamp (-1) len t = -1 := by
  unfold clamp; split <;> (try split) <;> omega
theorem clamp_above {len t : Int} (h : len ≤ t) (hl : 0 ≤ len) : clamp (-1) len t = len := by
  unfold clamp; split <;> (try split) <;> omega
theorem clamp_in {len t : Int} (h0 : 0 ≤ t) (h : t < len) : clamp (-1) len t = t := by
  unfold clamp; split <;> (try split) <;> omega

/-! ## one FETCH -/

theorem fetch_opened_eq {α} (rows : List α) (index : Int) (f : Bool) (p : Pos) :
    (CState.opened rows index f).fetch p =
      if moveIndex p index (recordLen rows) < 0 then .ok (.opened rows (-1) true, none)
      else if recordLen rows ≤ moveIndex p index (recordLen rows) then .ok (.opened rows (recordLen rows) true, none)
      else .ok (.opened rows (moveIndex p index (recordLen rows)) true, rows[(moveIndex p index (recordLen rows)).toNat]?) := rfl

/-- the three outcomes of a FETCH on an open cursor, by where the (wrapped) new pointer `m` falls -/
theorem fetch_cases {α} (rows : List α) (index : Int) (f : Bool) (p : Pos) (m : Int)
    (hm : moveIndex p index (recordLen rows) = m) :
    (m < 0 ∧ (CState.opened rows index f).fetch p = .ok (.opened rows (-1) true, none)) ∨
    (0 ≤ m ∧ recordLen rows ≤ m ∧ (CState.opened rows index f).fetch p = .ok (.opened rows (recordLen rows) true, none)) ∨
    (0 ≤ m ∧ m < recordLen rows ∧ (CState.opened rows index f).fetch p = .ok (.opened rows m true, rows[m.toNat]?)) := by
  rw [fetch_opened_eq, hm]
  by_cases h1 : m < 0
  · left; exact ⟨h1, by simp [h1]⟩
  · by_cases h2 : recordLen rows ≤ m
    · right; left
      exact ⟨by omega, h2, by simp [h1, h2]⟩
    · right; right
      exact ⟨by omega, by omega, by simp [h1, h2]⟩

/-- the new pointer the code computes (wrapped / saturated int64 arithmetic) falls on the same side of
    the result as the mathematical target, and equals it inside the result -/
theorem moveIndex_vs_target {α} (rows : List α) (index : Int) (p : Pos)
    (hinv : -1 ≤ index ∧ index ≤ rows.length) (hlen : LenOK rows) (hn : NumberOK p) :
    (moveIndex p index (recordLen rows) < 0 ↔ target p index rows.length < 0) ∧
    (recordLen rows ≤ moveIndex p index (recordLen rows) ↔ (rows.length : Int) ≤ target p index rows.length) ∧
    (0 ≤ moveIndex p index (recordLen rows) → moveIndex p index (recordLen rows) < recordLen rows →
      moveIndex p index (recordLen rows) = target p index rows.length) := by
  unfold LenOK maxI64 at hlen
  cases p
  case relative n =>
    simp only [NumberOK, inI64, minI64, maxI64] at hn
    have h1 : wrap64 (9223372036854775807 - n) = 9223372036854775807 - n ∨ n < 0 := by
      by_cases h : n < 0
      · right; exact h
      · left; apply wrap64_of_inI64; unfold inI64 minI64 maxI64; omega
    have h2 : wrap64 (-9223372036854775808 - n) = -9223372036854775808 - n ∨ 0 ≤ n := by
      by_cases h : 0 ≤ n
      · right; exact h
      · left; apply wrap64_of_inI64; unfold inI64 minI64 maxI64; omega
    simp only [moveIndex, target, recordLen]
    split
    · rename_i hA
      rcases h1 with h1 | h1
      · rw [h1] at hA; omega
      · omega
    · rename_i hA
      split
      · rename_i hB
        rcases h2 with h2 | h2
        · rw [h2] at hB; omega
        · omega
      · rename_i hB
        have hw : wrap64 (index + n) = index + n := by
          apply wrap64_of_inI64
          unfold inI64 minI64 maxI64
          rcases h1 with h1 | h1 <;> rcases h2 with h2 | h2
          · rw [h1] at hA; rw [h2] at hB; omega
          · rw [h1] at hA; omega
          · rw [h2] at hB; omega
          · omega
        rw [hw]; omega
  all_goals
    simp only [moveIndex, target, recordLen]
    first
      | omega
      | (simp; done)
      | (have hw : ∀ x : Int, -9223372036854775808 ≤ x → x ≤ 9223372036854775807 → wrap64 x = x := by
           intro x h1 h2; apply wrap64_of_inI64; unfold inI64 minI64 maxI64; omega
         rw [hw _ (by omega) (by omega)]; omega)

/-! ## the cursor map -/

theorem lookup_update_same {α} (s : Scope α) (k : String) (c : CState α) (h : (lookup s k).isSome) :
    lookup (update s k c) k = some c := by
  induction s with
  | nil => simp [lookup] at h
  | cons hd t ih =>
    obtain ⟨k', c'⟩ := hd
    by_cases hk : k' = k
    · simp [update, lookup, hk]
    · simp [update, lookup, hk] at h ⊢
      exact ih h

theorem lookup_update_ne {α} (s : Scope α) (k k2 : String) (c : CState α) (h : k ≠ k2) :
    lookup (update s k c) k2 = lookup s k2 := by
  induction s with
  | nil => simp [lookup, update]
  | cons hd t ih =>
    obtain ⟨k', c'⟩ := hd
    by_cases hk : k' = k
    · subst hk
      simp [update, lookup, h]
    · by_cases hk2 : k' = k2
      · subst hk2
        simp [update, lookup, hk]
      · simp [update, lookup, hk, hk2, ih]

theorem lookup_erase_ne {α} (s : Scope α) (k k2 : String) (h : k ≠ k2) :
    lookup (erase s k) k2 = lookup s k2 := by
  induction s with
  | nil => simp [lookup, erase]
  | cons hd t ih =>
    obtain ⟨k', c'⟩ := hd
    by_cases hk : k' = k
    · subst hk
      simp [erase, lookup, h]
    · by_cases hk2 : k' = k2
      · subst hk2
        simp [erase, lookup, hk]
      · simp [erase, lookup, hk, hk2, ih]

theorem lookup_mem {α} (s : Scope α) (k : String) (c : CState α) (h : lookup s k = some c) :
    (k, c) ∈ s := by
  induction s with
  | nil => simp [lookup] at h
  | cons hd t ih =>
    obtain ⟨k', c'⟩ := hd
    by_cases hk : k' = k
    · simp [lookup, hk] at h
      simp [hk, h]
    · simp [lookup, hk] at h
      exact List.mem_cons_of_mem _ (ih h)

theorem mem_update {α} (s : Scope α) (k : String) (c : CState α) (p : String × CState α)
    (h : p ∈ update s k c) : p ∈ s ∨ p.2 = c := by
  induction s with
  | nil => simp [update] at h
  | cons hd t ih =>
    obtain ⟨k', c'⟩ := hd
    by_cases hk : k' = k
    · simp [update, hk] at h
      rcases h with h | h
      · right; simp [h]
      · left; exact List.mem_cons_of_mem _ h
    · simp [update, hk] at h
      rcases h with h | h
      · left; simp [h]
      · rcases ih h with h | h
        · left; exact List.mem_cons_of_mem _ h
        · right; exact h

theorem mem_erase {α} (s : Scope α) (k : String) (p : String × CState α)
    (h : p ∈ erase s k) : p ∈ s := by
  induction s with
  | nil => simp [erase] at h
  | cons hd t ih =>
    obtain ⟨k', c'⟩ := hd
    by_cases hk : k' = k
    · simp [erase, hk] at h
      exact List.mem_cons_of_mem _ h
    · simp [erase, hk] at h
      rcases h with h | h
      · simp [h]
      · exact List.mem_cons_of_mem _ (ih h)

/-! ## WHILE IN -/

/-- FETCH NEXT from pointer i (−1 ≤ i < len) returns row i+1 -/
theorem fetch_next_some {α} (rows : List α) (i : Int) (f : Bool) (hl : LenOK rows)
    (h0 : -1 ≤ i) (h1 : i + 1 < rows.length) :
    (CState.opened rows i f).fetch .next = .ok (.opened rows (i + 1) true, rows[(i + 1).toNat]?) := by
  have hm : moveIndex .next i (recordLen rows) = i + 1 := by
    unfold LenOK maxI64 at hl
    simp only [moveIndex]; apply wrap64_of_inI64; unfold inI64 minI64 maxI64; omega
  rcases fetch_cases rows i f .next _ hm with ⟨h, _⟩ | ⟨_, h, _⟩ | ⟨_, _, h⟩
  · omega
  · simp only [recordLen] at h; omega
  · exact h

theorem fetch_next_none {α} (rows : List α) (i : Int) (f : Bool) (hl : LenOK rows)
    (h0 : -1 ≤ i) (h1 : i ≤ rows.length) (h2 : (rows.length : Int) ≤ i + 1) :
    (CState.opened rows i f).fetch .next = .ok (.opened rows rows.length true, none) := by
  have hm : moveIndex .next i (recordLen rows) = i + 1 := by
    unfold LenOK maxI64 at hl
    simp only [moveIndex]; apply wrap64_of_inI64; unfold inI64 minI64 maxI64; omega
  rcases fetch_cases rows i f .next _ hm with ⟨h, _⟩ | ⟨_, _, h⟩ | ⟨_, h, _⟩
  · omega
  · exact h
  · simp only [recordLen] at h; omega

/-- the loop, without BREAK, from any pointer: sees exactly the rows after the pointer, in order -/
theorem whileIn_none_general {α} (rows : List α) (hl : LenOK rows) :
    ∀ (fuel : Nat) (i : Int) (f : Bool) (acc : List α), -1 ≤ i → i ≤ rows.length →
      rows.length + 2 ≤ fuel + (i + 1).toNat →
      whileIn fuel none (CState.opened rows i f) acc
        = .ok (.opened rows rows.length true, acc.reverse ++ rows.drop (i + 1).toNat) := by
  intro fuel
  induction fuel with
  | zero =>
    intro i f acc h0 h1 hf
    omega
  | succ fuel ih =>
    intro i f acc h0 h1 hf
    by_cases hlast : (rows.length : Int) ≤ i + 1
    · simp only [whileIn, fetch_next_none rows i f hl h0 h1 hlast]
      have : rows.drop (i + 1).toNat = [] := by
        apply List.drop_eq_nil_of_le; omega
      simp [this]
    · have hlt : i + 1 < rows.length := by omega
      have hget : rows[(i + 1).toNat]? = some (rows[(i + 1).toNat]'(by omega)) := by
        simp
      simp only [whileIn, fetch_next_some rows i f hl h0 hlt, hget]
      rw [ih (i + 1) true _ (by omega) (by omega) (by omega)]
      have hd : rows.drop (i + 1).toNat = rows[(i + 1).toNat]'(by omega) :: rows.drop ((i + 1).toNat + 1) := by
        simp
      have he : (i + 1 + 1).toNat = (i + 1).toNat + 1 := by omega
      rw [hd, he]
      simp

/-- the loop with BREAK in the k-th iteration (k ≥ 1) -/
theorem whileIn_break_general {α} (rows : List α) (hl : LenOK rows) :
    ∀ (fuel k : Nat) (i : Int) (f : Bool) (acc : List α), 1 ≤ k → -1 ≤ i → i ≤ rows.length →
      rows.length + 2 ≤ fuel + (i + 1).toNat →
      whileIn fuel (some k) (CState.opened rows i f) acc
        = .ok (.opened rows (if i + k < rows.length then i + k else rows.length) true,
               acc.reverse ++ (rows.drop (i + 1).toNat).take k) := by
  intro fuel
  induction fuel with
  | zero =>
    intro k i f acc hk h0 h1 hf
    omega
  | succ fuel ih =>
    intro k i f acc hk h0 h1 hf
    by_cases hlast : (rows.length : Int) ≤ i + 1
    · simp only [whileIn, fetch_next_none rows i f hl h0 h1 hlast]
      have : rows.drop (i + 1).toNat = [] := by
        apply List.drop_eq_nil_of_le; omega
      have hif : ¬ (i + (k : Int) < rows.length) := by omega
      simp [this, hif]
    · have hlt : i + 1 < rows.length := by omega
      have hget : rows[(i + 1).toNat]? = some (rows[(i + 1).toNat]'(by omega)) := by
        simp
      have hd : rows.drop (i + 1).toNat = rows[(i + 1).toNat]'(by omega) :: rows.drop ((i + 1).toNat + 1) := by
        simp
      match k, hk with
      | 1, _ =>
        simp only [whileIn, fetch_next_some rows i f hl h0 hlt, hget]
        have hif : i + ((1 : Nat) : Int) < rows.length := by omega
        rw [hd, List.take_succ_cons, List.take_zero, if_pos hif]
        simp
      | k' + 2, _ =>
        simp only [whileIn, fetch_next_some rows i f hl h0 hlt, hget]
        rw [ih (k' + 1) (i + 1) true _ (by omega) (by omega) (by omega) (by omega)]
        have he : (i + 1 + 1).toNat = (i + 1).toNat + 1 := by omega
        have hi : i + 1 + ((k' + 1 : Nat) : Int) = i + ((k' + 2 : Nat) : Int) := by omega
        rw [he, hi]
        conv => rhs; rw [hd, List.take_succ_cons]
        simp

/-! ## invariants over histories -/

theorem fetch_opened_inv {α} (rows : List α) (index : Int) (f : Bool) (p : Pos)
    (c' : CState α) (r : Option α) (h : (CState.opened rows index f).fetch p = .ok (c', r)) : PtrInv c' := by
  rcases fetch_cases rows index f p _ rfl with ⟨_, h'⟩ | ⟨_, _, h'⟩ | ⟨h0, h1, h'⟩
  all_goals
    rw [h'] at h
    simp only [Except.ok.injEq, Prod.mk.injEq] at h
    obtain ⟨rfl, _⟩ := h
    simp only [PtrInv, recordLen] at *
    omega

theorem fetch_inv {α} (c c' : CState α) (p : Pos) (r : Option α) (h : c.fetch p = .ok (c', r)) : PtrInv c' := by
  cases c with
  | closed => simp [CState.fetch] at h
  | opened rows i f => exact fetch_opened_inv rows i f p c' r h

theorem whileIn_inv {α} : ∀ (fuel : Nat) (brk : Option Nat) (c c' : CState α) (acc seen : List α),
    PtrInv c → whileIn fuel brk c acc = .ok (c', seen) → PtrInv c' := by
  intro fuel
  induction fuel with
  | zero =>
    intro brk c c' acc seen hc h
    simp only [whileIn, Except.ok.injEq, Prod.mk.injEq] at h
    rw [← h.1]; exact hc
  | succ fuel ih =>
    intro brk c c' acc seen hc h
    unfold whileIn at h
    split at h
    · cases h
    · rename_i c1 hf
      simp only [Except.ok.injEq, Prod.mk.injEq] at h
      rw [← h.1]; exact fetch_inv _ _ _ _ hf
    · rename_i c1 r hf
      have hc1 := fetch_inv _ _ _ _ hf
      split at h
      · simp only [Except.ok.injEq, Prod.mk.injEq] at h
        rw [← h.1]; exact hc1
      · exact ih _ _ _ _ _ hc1 h
      · exact ih _ _ _ _ _ hc1 h

theorem scopeInv_update {α} (s : Scope α) (k : String) (c : CState α) (hs : ScopeInv s) (hc : PtrInv c) :
    ScopeInv (update s k c) := by
  intro p hp
  rcases mem_update s k c p hp with h | h
  · exact hs p h
  · rw [h]; exact hc

theorem step_inv {α} (s : Scope α) (op : Op α) (hs : ScopeInv s) : ScopeInv (step s op).1 := by
  cases op <;> simp only [step]
  case declare n =>
    split
    · exact hs
    · intro p hp
      simp only [List.mem_cons] at hp
      rcases hp with rfl | hp
      · trivial
      · exact hs p hp
  case dispose n =>
    split
    · intro p hp; exact hs p (mem_erase _ _ _ hp)
    · exact hs
  case «open» n rows =>
    split
    · exact hs
    · rename_i c hl
      cases c with
      | closed =>
        simp only [CState.open]
        apply scopeInv_update _ _ _ hs
        simp [PtrInv]
      | opened r i f => simp only [CState.open]; exact hs
  case close n =>
    split
    · exact hs
    · exact scopeInv_update _ _ _ hs (by simp [CState.close, PtrInv])
  case fetch n p =>
    split
    · exact hs
    · split
      · exact hs
      · rename_i hf; exact scopeInv_update _ _ _ hs (fetch_inv _ _ _ _ hf)
      · rename_i hf; exact scopeInv_update _ _ _ hs (fetch_inv _ _ _ _ hf)
  case fetchBad n => exact hs
  case isOpen n => split <;> exact hs
  case isInRange n =>
    split
    · exact hs
    · split <;> exact hs
  case count n =>
    split
    · exact hs
    · split <;> exact hs
  case whileIn n brk =>
    split
    · exact hs
    · rename_i c hl
      split
      · exact hs
      · rename_i hw
        exact scopeInv_update _ _ _ hs (whileIn_inv _ _ _ _ _ _ (hs _ (lookup_mem _ _ _ hl)) hw)
  case dml => exact hs

theorem run_inv {α} (ops : List (Op α)) : ∀ (s : Scope α), ScopeInv s → ScopeInv (run s ops).1 := by
  induction ops with
  | nil => intro s hs; exact hs
  | cons op rest ih =>
    intro s hs
    simp only [run]
    exact ih _ (step_inv s op hs)


/-! ## the view of an open cursor stays in place -/

theorem fetch_keeps_rows {α} (rows : List α) (i : Int) (f : Bool) (p : Pos) (c' : CState α) (r : Option α)
    (h : (CState.opened rows i f).fetch p = .ok (c', r)) :
    (∃ i', c' = .opened rows i' true) ∧ (∀ x, r = some x → x ∈ rows) := by
  rcases fetch_cases rows i f p _ rfl with ⟨h0, h'⟩ | ⟨h0, h1, h'⟩ | ⟨h0, h1, h'⟩
  all_goals
    rw [h'] at h
    simp only [Except.ok.injEq, Prod.mk.injEq] at h
    obtain ⟨rfl, rfl⟩ := h
  · exact ⟨⟨_, rfl⟩, by simp⟩
  · exact ⟨⟨_, rfl⟩, by simp⟩
  · refine ⟨⟨_, rfl⟩, ?_⟩
    intro x hx
    exact List.mem_of_getElem? hx

theorem whileIn_keeps_rows {α} (rows : List α) : ∀ (fuel : Nat) (brk : Option Nat) (i : Int) (f : Bool) (acc seen : List α)
    (c' : CState α), whileIn fuel brk (CState.opened rows i f) acc = .ok (c', seen) →
    (∃ i' f', c' = .opened rows i' f') ∧ (∀ x ∈ seen, x ∈ acc ∨ x ∈ rows) := by
  intro fuel
  induction fuel with
  | zero =>
    intro brk i f acc seen c' h
    simp only [whileIn, Except.ok.injEq, Prod.mk.injEq] at h
    obtain ⟨rfl, rfl⟩ := h
    exact ⟨⟨_, _, rfl⟩, by intro x hx; left; simpa using hx⟩
  | succ fuel ih =>
    intro brk i f acc seen c' h
    unfold whileIn at h
    split at h
    · cases h
    · rename_i c1 hf
      simp only [Except.ok.injEq, Prod.mk.injEq] at h
      obtain ⟨rfl, rfl⟩ := h
      obtain ⟨⟨i', rfl⟩, _⟩ := fetch_keeps_rows rows i f .next _ _ hf
      exact ⟨⟨_, _, rfl⟩, by intro x hx; left; simpa using hx⟩
    · rename_i c1 r hf
      obtain ⟨⟨i', rfl⟩, hr⟩ := fetch_keeps_rows rows i f .next _ _ hf
      have hr := hr r rfl
      split at h
      · simp only [Except.ok.injEq, Prod.mk.injEq] at h
        obtain ⟨rfl, rfl⟩ := h
        refine ⟨⟨_, _, rfl⟩, ?_⟩
        intro x hx
        simp only [List.reverse_cons, List.mem_append, List.mem_reverse, List.mem_singleton] at hx
        rcases hx with hx | hx
        · left; exact hx
        · right; rw [hx]; exact hr
      all_goals
        obtain ⟨h1, h2⟩ := ih _ _ _ _ _ _ h
        refine ⟨h1, ?_⟩
        intro x hx
        rcases h2 x hx with hx | hx
        · simp only [List.mem_cons] at hx
          rcases hx with hx | hx
          · right; rw [hx]; exact hr
          · left; exact hx
        · right; exact hx

/-- one statement that neither closes nor disposes cursor `k` leaves its view (the OPEN-time rows) in place -/
theorem step_keeps_view {α} (s : Scope α) (op : Op α) (k : String) (rows : List α) (i : Int) (f : Bool)
    (h : lookup s k = some (.opened rows i f)) (hd : ¬ op.discards k) :
    ∃ i' f', lookup (step s op).1 k = some (.opened rows i' f') := by
  have same : ∃ i' f', lookup s k = some (.opened rows i' f') := ⟨i, f, h⟩
  have upd : ∀ (n : String) (c0 c' : CState α), lookup s (key n) = some c0 →
      (key n = k → ∃ i' f', c' = .opened rows i' f') →
      ∃ i' f', lookup (update s (key n) c') k = some (.opened rows i' f') := by
    intro n c0 c' hl hc
    by_cases hk : key n = k
    · obtain ⟨i', f', rfl⟩ := hc hk
      rw [← hk]
      exact ⟨i', f', lookup_update_same _ _ _ (by simp [hl])⟩
    · rw [lookup_update_ne _ _ _ _ hk]; exact same
  cases op <;> simp only [step]
  case declare n =>
    split
    · exact same
    · rename_i hn
      have hk : key n ≠ k := by intro hk; rw [hk, h] at hn; cases hn
      simp only [lookup, hk, if_false]; exact same
  case dispose n =>
    have hk : key n ≠ k := by simpa [Op.discards] using hd
    split
    · rw [lookup_erase_ne _ _ _ hk]; exact same
    · exact same
  case «open» n rows' =>
    split
    · exact same
    · rename_i c hl
      cases c with
      | opened r i0 f0 => simp only [CState.open]; exact same
      | closed =>
        simp only [CState.open]
        apply upd n _ _ hl
        intro hk; rw [hk, h] at hl; cases hl
  case close n =>
    have hk : key n ≠ k := by simpa [Op.discards] using hd
    split
    · exact same
    · rw [lookup_update_ne _ _ _ _ hk]; exact same
  case fetch n p =>
    split
    · exact same
    · rename_i c hl
      split
      · exact same
      all_goals
        rename_i hf
        apply upd n _ _ hl
        intro hk
        rw [hk, h] at hl
        injection hl with hl
        subst hl
        obtain ⟨⟨i', rfl⟩, _⟩ := fetch_keeps_rows _ _ _ _ _ _ hf
        exact ⟨_, _, rfl⟩
  case fetchBad n => exact same
  case isOpen n => split <;> exact same
  case isInRange n =>
    split
    · exact same
    · split <;> exact same
  case count n =>
    split
    · exact same
    · split <;> exact same
  case whileIn n brk =>
    split
    · exact same
    · rename_i c hl
      split
      · exact same
      · rename_i hw
        apply upd n _ _ hl
        intro hk
        rw [hk, h] at hl
        injection hl with hl
        subst hl
        exact (whileIn_keeps_rows _ _ _ _ _ _ _ _ hw).1
  case dml => exact same

/-- what a statement on cursor `k` returns comes from the rows `k` was opened with -/
theorem step_result_from_view {α} (s : Scope α) (op : Op α) (rows : List α) (i : Int) (f : Bool)
    (n : String) (h : lookup s (key n) = some (.opened rows i f)) :
    (∀ p x, op = .fetch n p → (step s op).2 = .row x → x ∈ rows) ∧
    (∀ brk seen, op = .whileIn n brk → (step s op).2 = .rows seen → ∀ x ∈ seen, x ∈ rows) := by
  constructor
  · intro p x hop hr
    subst hop
    simp only [step, h] at hr
    split at hr
    · cases hr
    · rename_i c' r hf
      injection hr with hr
      subst hr
      exact (fetch_keeps_rows _ _ _ _ _ _ hf).2 _ rfl
    · cases hr
  · intro brk seen hop hr
    subst hop
    simp only [step, h] at hr
    split at hr
    · cases hr
    · rename_i c' seen' hw
      injection hr with hr
      subst hr
      intro x hx
      rcases (whileIn_keeps_rows _ _ _ _ _ _ _ _ hw).2 x hx with h | h
      · cases h
      · exact h

def Op.names {α} (n : String) : Op α → Prop
  | .dispose m | .open m _ | .close m | .fetch m _ | .isOpen m | .isInRange m | .count m | .whileIn m _ => m = n
  | _ => False


/-! unique keys -/
def Uniq {α} (s : Scope α) : Prop := (s.map Prod.fst).Nodup

theorem lookup_none_of_not_mem {α} (s : Scope α) (k : String) (h : k ∉ s.map Prod.fst) : lookup s k = none := by
  induction s with
  | nil => rfl
  | cons hd t ih =>
    obtain ⟨k', c'⟩ := hd
    simp only [List.map_cons, List.mem_cons, not_or] at h
    have : k' ≠ k := fun e => h.1 e.symm
    simp [lookup, this, ih h.2]

theorem not_mem_of_lookup_none {α} (s : Scope α) (k : String) (h : lookup s k = none) : k ∉ s.map Prod.fst := by
  induction s with
  | nil => simp
  | cons hd t ih =>
    obtain ⟨k', c'⟩ := hd
    by_cases hk : k' = k
    · simp [lookup, hk] at h
    · simp only [lookup, hk, if_false] at h
      simp only [List.map_cons, List.mem_cons, not_or]
      exact ⟨fun e => hk e.symm, ih h⟩

theorem keys_update {α} (s : Scope α) (k : String) (c : CState α) :
    (update s k c).map Prod.fst = s.map Prod.fst := by
  induction s with
  | nil => rfl
  | cons hd t ih =>
    obtain ⟨k', c'⟩ := hd
    by_cases hk : k' = k <;> simp [update, hk, ih]

theorem keys_erase_sub {α} (s : Scope α) (k : String) :
    ((erase s k).map Prod.fst).Sublist (s.map Prod.fst) := by
  induction s with
  | nil => simp [erase]
  | cons hd t ih =>
    obtain ⟨k', c'⟩ := hd
    by_cases hk : k' = k
    · simp [erase, hk]
    · simp [erase, hk, ih]

theorem erase_removes {α} (s : Scope α) (k : String) (h : Uniq s) : lookup (erase s k) k = none := by
  induction s with
  | nil => rfl
  | cons hd t ih =>
    obtain ⟨k', c'⟩ := hd
    simp only [Uniq, List.map_cons, List.nodup_cons] at h
    by_cases hk : k' = k
    · subst hk
      simp only [erase, if_true]
      exact lookup_none_of_not_mem _ _ h.1
    · simp only [erase, hk, if_false, lookup]
      exact ih h.2

theorem step_uniq {α} (s : Scope α) (op : Op α) (h : Uniq s) : Uniq (step s op).1 := by
  cases op <;> simp only [step]
  case declare n =>
    split
    · exact h
    · rename_i hn
      simp only [Uniq, List.map_cons, List.nodup_cons]
      exact ⟨not_mem_of_lookup_none _ _ hn, h⟩
  case dispose n =>
    split
    · exact List.Nodup.sublist (keys_erase_sub _ _) h
    · exact h
  case «open» n rows =>
    split
    · exact h
    · split
      · exact h
      · simp only [Uniq, keys_update]; exact h
  case close n =>
    split
    · exact h
    · simp only [Uniq, keys_update]; exact h
  case fetch n p =>
    split
    · exact h
    · split
      · exact h
      all_goals simp only [Uniq, keys_update]; exact h
  case fetchBad n => exact h
  case isOpen n => split <;> exact h
  case isInRange n =>
    split
    · exact h
    · split <;> exact h
  case count n =>
    split
    · exact h
    · split <;> exact h
  case whileIn n brk =>
    split
    · exact h
    · split
      · exact h
      · simp only [Uniq, keys_update]; exact h
  case dml => exact h

theorem run_uniq {α} (ops : List (Op α)) : ∀ (s : Scope α), Uniq s → Uniq (run s ops).1 := by
  induction ops with
  | nil => intro s hs; exact hs
  | cons op rest ih => intro s hs; simp only [run]; exact ih _ (step_uniq s op hs)


/-! ## blocks -/

/-- what `step` does to a scope that does not know the name -/
theorem step_unknown {α} (s : Scope α) (op : Op α) (k : String) (hk : op.chainKey = some k)
    (h : lookup s k = none) : step s op = (s, .err .undeclared) := by
  cases op <;> simp only [Op.chainKey, Option.some.injEq, reduceCtorEq] at hk <;> subst hk <;> simp [step, h]

theorem stepS_undeclared {α} (st : Stack α) (op : Op α) (k : String) (hk : op.chainKey = some k)
    (h : lookupS st k = none) : stepS st op = (st, .err .undeclared) := by
  induction st with
  | nil => simp [stepS, step_unknown ([] : Scope α) op k hk rfl]
  | cons b rest ih =>
    simp only [lookupS] at h
    split at h
    · cases h
    · rename_i hl
      simp only [stepS, hk, hl]
      rw [ih h]

/-- a statement acts on the innermost binding of its name, leaving every other block alone -/
theorem stepS_acts_on_innermost {α} (st : Stack α) (op : Op α) (k : String) (hk : op.chainKey = some k)
    (c : CState α) (h : lookupS st k = some c) :
    ∃ (pre : List (Scope α)) (b : Scope α) (post : List (Scope α)),
      st = pre ++ b :: post ∧ (∀ b' ∈ pre, lookup b' k = none) ∧ lookup b k = some c ∧
      stepS st op = (pre ++ (step b op).1 :: post, (step b op).2) := by
  induction st with
  | nil => simp [lookupS] at h
  | cons b rest ih =>
    simp only [lookupS] at h
    split at h
    · rename_i c' hl
      injection h with h; subst h
      exact ⟨[], b, rest, rfl, by simp, hl, by simp [stepS, hk, hl]⟩
    · rename_i hl
      obtain ⟨pre, b0, post, h1, h2, h3, h4⟩ := ih h
      refine ⟨b :: pre, b0, post, by simp [h1], ?_, h3, ?_⟩
      · intro b' hb'
        simp only [List.mem_cons] at hb'
        rcases hb' with rfl | hb'
        · exact hl
        · exact h2 b' hb'
      · simp [stepS, hk, hl, h4]

theorem lookupS_push {α} (st : Stack α) (k : String) : lookupS ([] :: st) k = lookupS st k := by
  simp [lookupS, lookup]

theorem update_update {α} (s : Scope α) (k : String) (c1 c2 : CState α) :
    update (update s k c1) k c2 = update s k c2 := by
  induction s with
  | nil => rfl
  | cons hd t ih =>
    obtain ⟨k', c'⟩ := hd
    by_cases hk : k' = k <;> simp [update, hk, ih]


end Csvq.Cursor
