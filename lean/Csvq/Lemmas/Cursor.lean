/-
  Csvq.Lemmas.Cursor — specification vocabulary and helper lemmas for C16 (cursors).
-/
import Csvq.Model.Cursor
import Csvq.Gen.CursorFetch
namespace Csvq.Cursor
open Csvq

/-! ## specification vocabulary -/

/-- the *mathematical* (unbounded) position a FETCH addresses -/
def target (p : Pos) (index len : Int) : Int :=
  match p with
  | .next => index + 1
  | .prior => index - 1
  | .first => 0
  | .last => len - 1
  | .absolute n => n
  | .relative n => index + n

def clamp (lo hi x : Int) : Int := if x < lo then lo else if hi < x then hi else x

/-- what the manual says a FETCH does: move to the addressed position, return the record there if
    it exists, otherwise return nothing and rest before the first / after the last record -/
def specFetch {α} (rows : List α) (index : Int) (p : Pos) : CState α × Option α :=
  let tgt := target p index rows.length
  (.opened rows (clamp (-1) rows.length tgt) true,
   if 0 ≤ tgt ∧ tgt < rows.length then rows[tgt.toNat]? else none)

/-- pointer invariant -/
def PtrInv {α} : CState α → Prop
  | .closed => True
  | .opened rows index _ => -1 ≤ index ∧ index ≤ rows.length

/-- a Go slice of records has fewer than 2^63 - 1 elements (`RecordLen()` is an `int`, a Record is 24 bytes) -/
def LenOK {α} (rows : List α) : Prop := (rows.length : Int) < maxI64

/-- the Go addition `c.index + number` does not leave int64 -/
def NoOverflow (p : Pos) (index : Int) : Prop :=
  match p with
  | .relative n => inI64 (index + n)
  | _ => True

def ScopeInv {α} (s : Scope α) : Prop := ∀ p ∈ s, PtrInv p.2

/-- operations that can replace the view of the cursor stored under key `k` -/
def Op.discards {α} (k : String) : Op α → Prop
  | .close n => key n = k
  | .dispose n => key n = k
  | _ => False

/-! ## bridge to the generated code -/

open Gen.CursorFetch in
def Pos.tok : Pos → PosTok
  | .next => .other
  | .prior => .PRIOR
  | .first => .FIRST
  | .last => .LAST
  | .absolute _ => .ABSOLUTE
  | .relative _ => .RELATIVE

/-- the `number` FetchCursor passes (−1 when the statement has none) -/
def Pos.number : Pos → Int
  | .absolute n => n
  | .relative n => n
  | _ => -1

open Gen.CursorFetch in
def interpFetch {α} (rows : List α) : FetchOut → Except Err (CState α × Option α)
  | .closedError => .error .closed
  | .noRow i f => .ok (.opened rows i f, none)
  | .row i f => .ok (.opened rows i f, rows[i.toNat]?)

open Gen.CursorFetch in
def interpRange : RangeOut → Except Err Tern
  | .closedError => .error .closed
  | .unknown => .ok .U
  | .bool b => .ok (Tern.ofBool b)

open Gen.CursorFetch in
def interpCount : CountOut → Except Err Int
  | .closedError => .error .closed
  | .value n => .ok n

/-! ## arithmetic -/

theorem wrap64_of_inI64 {x : Int} (h : inI64 x) : wrap64 x = x := by
  unfold inI64 minI64 maxI64 at h
  unfold wrap64
  omega

theorem wrap64_inI64 (x : Int) : inI64 (wrap64 x) := by
  unfold inI64 minI64 maxI64 wrap64
  omega

theorem wrap64_add_over {x : Int} (h1 : maxI64 < x) (h2 : x < 18446744073709551616 - minI64) :
    wrap64 x = x - 18446744073709551616 := by
  unfold minI64 maxI64 at *
  unfold wrap64
  omega

theorem wrap64_add_under {x : Int} (h1 : x < minI64) (h2 : minI64 - 18446744073709551616 ≤ x) :
    wrap64 x = x + 18446744073709551616 := by
  unfold minI64 at *
  unfold wrap64
  omega

instance {α} (rows : List α) : Decidable (LenOK rows) := by unfold LenOK; infer_instance

theorem clamp_below {len t : Int} (h : t < 0) (hl : 0 ≤ len) : clamp (-1) len t = -1 := by
  unfold clamp; split <;> (try split) <;> omega
theorem clamp_above {len t : Int} (h : len ≤ t) (hl : 0 ≤ len) : clamp (-1) len t = len := by
  unfold clamp; split <;> (try split) <;> omega
theorem clamp_in {len t : Int} (h0 : 0 ≤ t) (h : t < len) : clamp (-1) len t = t := by
  unfold clamp; split <;> (try split) <;> omega

/-! ## one FETCH -/

theorem fetch_opened_eq {α} (rows : List α) (index : Int) (f : Bool) (p : Pos) :
    (CState.opened rows index f).fetch p =
      if moveIndex p index (recordLen rows) < 0 then .ok (.opened rows (-1) true, none)
      else if recordLen rows ≤ moveIndex p index (recordLen rows) then .ok (.opened rows (recordLen rows) true, none)
      else .ok (.opened rows (moveIndex p index (recordLen rows)) true, rows[(moveIndex p index (recordLen rows)).toNat]?) := rfl

/-- the three outcomes of a FETCH on an open cursor, by where the (wrapped) new pointer `m` falls -/
theorem fetch_cases {α} (rows : List α) (index : Int) (f : Bool) (p : Pos) (m : Int)
    (hm : moveIndex p index (recordLen rows) = m) :
    (m < 0 ∧ (CState.opened rows index f).fetch p = .ok (.opened rows (-1) true, none)) ∨
    (0 ≤ m ∧ recordLen rows ≤ m ∧ (CState.opened rows index f).fetch p = .ok (.opened rows (recordLen rows) true, none)) ∨
    (0 ≤ m ∧ m < recordLen rows ∧ (CState.opened rows index f).fetch p = .ok (.opened rows m true, rows[m.toNat]?)) := by
  rw [fetch_opened_eq, hm]
  by_cases h1 : m < 0
  · left; exact ⟨h1, by simp [h1]⟩
  · by_cases h2 : recordLen rows ≤ m
    · right; left
      exact ⟨by omega, h2, by simp [h1, h2]⟩
    · right; right
      exact ⟨by omega, by omega, by simp [h1, h2]⟩

theorem moveIndex_eq_target {α} (rows : List α) (index : Int) (p : Pos)
    (hinv : -1 ≤ index ∧ index ≤ rows.length) (hlen : LenOK rows) (hno : NoOverflow p index) :
    moveIndex p index (recordLen rows) = target p index rows.length := by
  unfold LenOK maxI64 at hlen
  cases p <;> simp only [moveIndex, target, recordLen]
  case relative n => exact wrap64_of_inI64 hno
  all_goals (apply wrap64_of_inI64; unfold inI64 minI64 maxI64; omega)

/-! ## the cursor map -/

theorem lookup_update_same {α} (s : Scope α) (k : String) (c : CState α) (h : (lookup s k).isSome) :
    lookup (update s k c) k = some c := by
  induction s with
  | nil => simp [lookup] at h
  | cons hd t ih =>
    obtain ⟨k', c'⟩ := hd
    by_cases hk : k' = k
    · simp [update, lookup, hk]
    · simp [update, lookup, hk] at h ⊢
      exact ih h

theorem lookup_update_ne {α} (s : Scope α) (k k2 : String) (c : CState α) (h : k ≠ k2) :
    lookup (update s k c) k2 = lookup s k2 := by
  induction s with
  | nil => simp [lookup, update]
  | cons hd t ih =>
    obtain ⟨k', c'⟩ := hd
    by_cases hk : k' = k
    · subst hk
      simp [update, lookup, h]
    · by_cases hk2 : k' = k2
      · subst hk2
        simp [update, lookup, hk]
      · simp [update, lookup, hk, hk2, ih]

theorem lookup_erase_ne {α} (s : Scope α) (k k2 : String) (h : k ≠ k2) :
    lookup (erase s k) k2 = lookup s k2 := by
  induction s with
  | nil => simp [lookup, erase]
  | cons hd t ih =>
    obtain ⟨k', c'⟩ := hd
    by_cases hk : k' = k
    · subst hk
      simp [erase, lookup, h]
    · by_cases hk2 : k' = k2
      · subst hk2
        simp [erase, lookup, hk]
      · simp [erase, lookup, hk, hk2, ih]

theorem lookup_mem {α} (s : Scope α) (k : String) (c : CState α) (h : lookup s k = some c) :
    (k, c) ∈ s := by
  induction s with
  | nil => simp [lookup] at h
  | cons hd t ih =>
    obtain ⟨k', c'⟩ := hd
    by_cases hk : k' = k
    · simp [lookup, hk] at h
      simp [hk, h]
    · simp [lookup, hk] at h
      exact List.mem_cons_of_mem _ (ih h)

theorem mem_update {α} (s : Scope α) (k : String) (c : CState α) (p : String × CState α)
    (h : p ∈ update s k c) : p ∈ s ∨ p.2 = c := by
  induction s with
  | nil => simp [update] at h
  | cons hd t ih =>
    obtain ⟨k', c'⟩ := hd
    by_cases hk : k' = k
    · simp [update, hk] at h
      rcases h with h | h
      · right; simp [h]
      · left; exact List.mem_cons_of_mem _ h
    · simp [update, hk] at h
      rcases h with h | h
      · left; simp [h]
      · rcases ih h with h | h
        · left; exact List.mem_cons_of_mem _ h
        · right; exact h

theorem mem_erase {α} (s : Scope α) (k : String) (p : String × CState α)
    (h : p ∈ erase s k) : p ∈ s := by
  induction s with
  | nil => simp [erase] at h
  | cons hd t ih =>
    obtain ⟨k', c'⟩ := hd
    by_cases hk : k' = k
    · simp [erase, hk] at h
      exact List.mem_cons_of_mem _ h
    · simp [erase, hk] at h
      rcases h with h | h
      · simp [h]
      · exact List.mem_cons_of_mem _ (ih h)

end Csvq.Cursor
