/-
  Csvq.Lemmas.SharedCursor — helper lemmas for Props/C12Stateful (no property statements here).
-/
import Csvq.Model.SharedCursor
namespace Csvq.Shapes

/-- steps of other workers leave what worker `k` has read untouched -/
theorem curRun_other {α : Type} (file : List α) (k : Nat) : ∀ (tr : List (Nat × FStep)) (s : Nat × (Nat → List (Option α))),
    (∀ e ∈ tr, e.1 ≠ k) → (curRun file s tr).2 k = s.2 k := by
  intro tr
  induction tr with
  | nil => intro s _; rfl
  | cons e tr ih =>
    intro s h
    have he : e.1 ≠ k := h e (List.mem_cons_self ..)
    have := ih (curStep file s e) (fun e' he' => h e' (List.mem_cons_of_mem _ he'))
    simp only [curRun, List.foldl_cons] at this ⊢
    rw [this]
    cases e with
    | mk w c =>
      cases c with
      | seek => rfl
      | read =>
        simp only [curStep]
        have : k ≠ w := fun h => he h.symm
        simp [this]

/-- a run of worker `k`'s steps without anybody in between behaves like a handle of its own -/
theorem curRun_own {α : Type} (file : List α) (k : Nat) : ∀ (l : List FStep) (s : Nat × (Nat → List (Option α))),
    (curRun file s (l.map fun c => (k, c))).1 = (l.foldl (seqStep file) (s.1, s.2 k)).1 ∧
    (curRun file s (l.map fun c => (k, c))).2 k = (l.foldl (seqStep file) (s.1, s.2 k)).2 := by
  intro l
  induction l with
  | nil => intro s; exact ⟨rfl, rfl⟩
  | cons c l ih =>
    intro s
    have := ih (curStep file s (k, c))
    simp only [curRun, List.map_cons, List.foldl_cons] at this ⊢
    cases c with
    | seek => simpa [curStep, seqStep] using this
    | read => simpa [curStep, seqStep] using this

end Csvq.Shapes
