/- Helper lemmas for the aggregate functions (Model/Aggregate.lean); the property theorems are in Props/C04Agg.lean. -/
import Csvq.Model.Aggregate
import Csvq.Lemmas.Float
import Csvq.Lemmas.Compare
import Csvq.Lemmas.SortSpec
import Csvq.Lemmas.Group
namespace Csvq.Agg
open Csvq

/-! ### COUNT -/

theorem countLoop_spec (l : List Profile) (c : Int) :
    countLoop l c = c + ((l.filter fun p => !p.isNull).length : Int) := by
  induction l generalizing c with
  | nil => simp [countLoop]
  | cons v vs ih =>
    unfold countLoop
    cases h : v.isNull
    · simp only [Bool.false_eq_true, if_false, ih, List.filter_cons, h, Bool.not_false, if_true, List.length_cons]
      omega
    · simp only [if_true, ih, List.filter_cons, h, Bool.not_true, Bool.false_eq_true, if_false]

/-! ### floatList / medianList / textList as filterMap -/

theorem floatList_eq_filterMap (l : List Profile) : floatList l = l.filterMap (·.flt?) := by
  induction l with
  | nil => rfl
  | cons v vs ih =>
    unfold floatList
    cases h : v.flt? <;> simp [List.filterMap_cons, h, ih]

/-- the float Median reads from one cell -/
def medianVal (p : Profile) : Option FVal :=
  match p.flt? with
  | some f => some f
  | none => match p.dt? with
    | some ns => some (dtSeconds ns)
    | none => none

theorem medianList_eq_filterMap (l : List Profile) : medianList l = l.filterMap medianVal := by
  induction l with
  | nil => rfl
  | cons v vs ih =>
    unfold medianList
    cases h : v.flt? <;> cases h2 : v.dt? <;> simp [List.filterMap_cons, medianVal, h, h2, ih]

theorem textList_eq_filterMap (kt : KeyText) (l : List Profile) : textList kt l = l.filterMap (cellText kt) := by
  induction l with
  | nil => rfl
  | cons v vs ih =>
    unfold textList
    cases h : cellText kt v <;> simp [List.filterMap_cons, h, ih]

/-! ### MAX / MIN -/

/-- one iteration of the loop of Max / Min -/
def extStep (b : Profile → Profile → Tern) (v : Profile) (res : Option Profile) : Option Profile :=
  if v.isNull then res
  else match res with
    | none => some v
    | some r => if b v r = .T then some v else some r

theorem extLoop_cons (b : Profile → Profile → Tern) (v : Profile) (vs : List Profile) (res : Option Profile) :
    extLoop b (v :: vs) res = extLoop b vs (extStep b v res) := by
  cases hv : v.isNull
  · cases res with
    | none => simp [extLoop, extStep, hv]
    | some r =>
      by_cases hb : b v r = .T
      · simp [extLoop, extStep, hv, hb]
      · simp [extLoop, extStep, hv, hb]
  · simp [extLoop, extStep, hv]

theorem extLoop_append (b : Profile → Profile → Tern) (l1 l2 : List Profile) (res : Option Profile) :
    extLoop b (l1 ++ l2) res = extLoop b l2 (extLoop b l1 res) := by
  induction l1 generalizing res with
  | nil => rfl
  | cons v vs ih => rw [List.cons_append, extLoop_cons, extLoop_cons, ih]

/-- once a result is held, the loop ends with a result -/
theorem extLoop_some (b : Profile → Profile → Tern) (l : List Profile) (r : Profile) :
    ∃ r', extLoop b l (some r) = some r' := by
  induction l generalizing r with
  | nil => exact ⟨r, rfl⟩
  | cons v vs ih =>
    unfold extLoop
    cases hv : v.isNull
    · simp only [Bool.false_eq_true, if_false]
      split <;> exact ih _
    · simp only [if_true]; exact ih _

theorem extLoop_none_iff (b : Profile → Profile → Tern) (l : List Profile) :
    extLoop b l none = none ↔ ∀ p ∈ l, p.isNull = true := by
  induction l with
  | nil => simp [extLoop]
  | cons v vs ih =>
    unfold extLoop
    cases hv : v.isNull
    · simp only [Bool.false_eq_true, if_false]
      obtain ⟨r', hr'⟩ := extLoop_some b vs v
      rw [hr']
      simp only [reduceCtorEq, false_iff]
      intro h
      have := h v List.mem_cons_self
      rw [hv] at this; exact absurd this (by decide)
    · simp only [if_true, ih, List.mem_cons, forall_eq_or_imp, hv, true_and]

/-- the result is the starting result or a non-null cell of the list -/
theorem extLoop_mem (b : Profile → Profile → Tern) (l : List Profile) (res : Option Profile) (r : Profile)
    (h : extLoop b l res = some r) : res = some r ∨ (r ∈ l ∧ r.isNull = false) := by
  induction l generalizing res with
  | nil => left; exact h
  | cons v vs ih =>
    unfold extLoop at h
    cases hv : v.isNull
    · simp only [hv, Bool.false_eq_true, if_false] at h
      have step : ∀ res', extLoop b vs res' = some r → (res' = some v ∨ res' = res) →
          res = some r ∨ (r ∈ v :: vs ∧ r.isNull = false) := by
        intro res' h' hres'
        rcases ih res' h' with e | ⟨hm, hn⟩
        · rcases hres' with e' | e'
          · rw [e'] at e; injection e with e; subst e
            right; exact ⟨List.mem_cons_self, hv⟩
          · left; rw [← e', e]
        · right; exact ⟨List.mem_cons_of_mem _ hm, hn⟩
      cases res with
      | none => exact step _ h (Or.inl rfl)
      | some r0 =>
        simp only at h
        split at h
        · exact step _ h (Or.inl rfl)
        · exact step _ h (Or.inr rfl)
    · simp only [hv, if_true] at h
      rcases ih res h with e | ⟨hm, hn⟩
      · left; exact e
      · right; exact ⟨List.mem_cons_of_mem _ hm, hn⟩

/-- `better` is transitive (as a TRUE answer) on the non-null members of `l` and on `r0` -/
def TransOn (b : Profile → Profile → Tern) (l : List Profile) : Prop :=
  ∀ x ∈ l, ∀ y ∈ l, ∀ z ∈ l, b x y = .T → b y z = .T → b x z = .T

/-- invariant of the loop: nothing seen so far beats the held result -/
theorem extLoop_best (b : Profile → Profile → Tern) (irr : ∀ x, b x x ≠ .T)
    (all : List Profile) (htr : TransOn b all)
    (l : List Profile) (seen : List Profile) (hall : ∀ x, x ∈ seen ∨ x ∈ l → x ∈ all)
    (res : Option Profile)
    (hres : match res with
      | none => ∀ x ∈ seen, x.isNull = true
      | some r0 => r0 ∈ all ∧ ∀ x ∈ seen, x.isNull = false → b x r0 ≠ .T)
    (r : Profile) (h : extLoop b l res = some r) :
    ∀ x, x ∈ seen ∨ x ∈ l → x.isNull = false → b x r ≠ .T := by
  induction l generalizing seen res with
  | nil =>
    simp only [extLoop] at h
    subst h
    intro x hx hn
    rcases hx with hx | hx
    · exact hres.2 x hx hn
    · cases hx
  | cons v vs ih =>
    have hvall : v ∈ all := hall v (Or.inr List.mem_cons_self)
    have hall' : ∀ x, x ∈ seen ++ [v] ∨ x ∈ vs → x ∈ all := by
      intro x hx
      rcases hx with hx | hx
      · rcases List.mem_append.mp hx with hx | hx
        · exact hall x (Or.inl hx)
        · simp only [List.mem_singleton] at hx; subst hx; exact hvall
      · exact hall x (Or.inr (List.mem_cons_of_mem _ hx))
    have fin : (∀ x, x ∈ seen ++ [v] ∨ x ∈ vs → x.isNull = false → b x r ≠ .T) →
        ∀ x, x ∈ seen ∨ x ∈ v :: vs → x.isNull = false → b x r ≠ .T := by
      intro hh x hx hn
      apply hh x _ hn
      rcases hx with hx | hx
      · left; exact List.mem_append_left _ hx
      · rcases List.mem_cons.mp hx with e | hx
        · left; rw [e]; exact List.mem_append_right _ List.mem_cons_self
        · right; exact hx
    unfold extLoop at h
    cases hv : v.isNull
    · simp only [hv, Bool.false_eq_true, if_false] at h
      cases res with
      | none =>
        simp only at h hres
        apply fin
        apply ih (seen ++ [v]) hall' (some v) _ h
        refine ⟨hvall, ?_⟩
        intro x hx hn
        rcases List.mem_append.mp hx with hx | hx
        · have := hres x hx; rw [hn] at this; exact absurd this (by decide)
        · simp only [List.mem_singleton] at hx; subst hx; exact irr x
      | some r0 =>
        simp only at h hres
        by_cases hb : b v r0 = .T
        · simp only [hb, if_true] at h
          apply fin
          apply ih (seen ++ [v]) hall' (some v) _ h
          refine ⟨hvall, ?_⟩
          intro x hx hn
          rcases List.mem_append.mp hx with hx | hx
          · intro hxv
            exact hres.2 x hx hn (htr x (hall x (Or.inl hx)) v hvall r0 hres.1 hxv hb)
          · simp only [List.mem_singleton] at hx; subst hx; exact irr x
        · simp only [hb, if_false] at h
          apply fin
          apply ih (seen ++ [v]) hall' (some r0) _ h
          refine ⟨hres.1, ?_⟩
          intro x hx hn
          rcases List.mem_append.mp hx with hx | hx
          · exact hres.2 x hx hn
          · simp only [List.mem_singleton] at hx; subst hx; exact hb
    · simp only [hv, if_true] at h
      apply fin
      apply ih (seen ++ [v]) hall' res _ h
      cases res with
      | none =>
        simp only at hres ⊢
        intro x hx
        rcases List.mem_append.mp hx with hx | hx
        · exact hres x hx
        · simp only [List.mem_singleton] at hx; subst hx; exact hv
      | some r0 =>
        simp only at hres ⊢
        refine ⟨hres.1, ?_⟩
        intro x hx hn
        rcases List.mem_append.mp hx with hx | hx
        · exact hres.2 x hx hn
        · simp only [List.mem_singleton] at hx; subst hx; rw [hv] at hn; exact absurd hn (by decide)

/-- a held result that no later cell beats stays -/
theorem extLoop_keeps (b : Profile → Profile → Tern) (l : List Profile) (r : Profile)
    (h : ∀ x ∈ l, x.isNull = true ∨ b x r ≠ .T) : extLoop b l (some r) = some r := by
  induction l with
  | nil => rfl
  | cons v vs ih =>
    unfold extLoop
    have hvs : ∀ x ∈ vs, x.isNull = true ∨ b x r ≠ .T := fun x hx => h x (List.mem_cons_of_mem _ hx)
    rcases h v List.mem_cons_self with hv | hv
    · simp only [hv, if_true]; exact ih hvs
    · cases hn : v.isNull
      · simp only [Bool.false_eq_true, if_false, hv]; exact ih hvs
      · simp only [if_true]; exact ih hvs

/-! ### classes of cells on which `>` / `<` are transitive -/

theorem opGt_T_iff (a b : Profile) : opGt a b = .T ↔ cmp a b = .gt := by
  unfold opGt; cases cmp a b <;> simp

theorem opLt_T_iff (a b : Profile) : opLt a b = .T ↔ cmp a b = .lt := by
  unfold opLt; cases cmp a b <;> simp

theorem cmp_self_ne_gt (a : Profile) : cmp a a ≠ .gt ∧ cmp a a ≠ .lt := by
  have hflip : cmp a a = (cmp a a).flip := by
    unfold cmp
    cases a.isNull
    · simp only [Bool.or_self, Bool.false_eq_true, if_false]; exact rungInt_flip a a
    · simp [Cmp.flip]
  constructor <;> intro h <;> rw [h] at hflip <;> simp [Cmp.flip] at hflip

theorem opGt_irrefl (a : Profile) : opGt a a ≠ .T := by
  rw [Ne, opGt_T_iff]; exact (cmp_self_ne_gt a).1

theorem opLt_irrefl (a : Profile) : opLt a a ≠ .T := by
  rw [Ne, opLt_T_iff]; exact (cmp_self_ne_gt a).2

theorem cmpInt_gt_iff (x y : Int) : cmpInt x y = .gt ↔ y < x := by
  unfold cmpInt
  by_cases h1 : x = y
  · subst h1; simp
  · by_cases h2 : x < y
    · simp [h1, h2]; omega
    · simp [h1, h2]; omega

theorem cmpInt_lt_iff (x y : Int) : cmpInt x y = .lt ↔ x < y := by
  unfold cmpInt
  by_cases h1 : x = y
  · subst h1; simp
  · by_cases h2 : x < y
    · simp [h1, h2]
    · simp [h1, h2]

theorem flt_trans (x y z : FVal) : FVal.flt x y = true → FVal.flt y z = true → FVal.flt x z = true := by
  cases x <;> cases y <;> cases z <;> simp [FVal.flt, FVal.num?] <;> omega

theorem flt_not_nan (x y : FVal) (h : FVal.flt x y = true) : x.isNaN = false ∧ y.isNaN = false := by
  cases x <;> cases y <;> simp_all [FVal.flt, FVal.isNaN]

theorem cmpFloat_lt_iff (x y : FVal) : cmpFloat x y = .lt ↔ FVal.flt x y = true := by
  unfold cmpFloat
  constructor
  · intro h
    cases hn : (x.isNaN || y.isNaN) <;> simp only [hn, if_true, Bool.false_eq_true, if_false] at h
    · cases he : FVal.feq x y <;> simp only [he, if_true, Bool.false_eq_true, if_false] at h
      · cases hl : FVal.flt x y <;> simp_all
      · cases h
    · cases h
  · intro h
    obtain ⟨hx, hy⟩ := flt_not_nan x y h
    simp [hx, hy, flt_feq_false x y h, h]

theorem cmpFloat_gt_iff (x y : FVal) : cmpFloat x y = .gt ↔ FVal.flt y x = true := by
  rw [← cmpFloat_lt_iff, cmpFloat_flip x y]
  cases cmpFloat x y <;> simp [Cmp.flip]

theorem cmpFloat_gt_trans (x y z : FVal) (h1 : cmpFloat x y = .gt) (h2 : cmpFloat y z = .gt) : cmpFloat x z = .gt := by
  rw [cmpFloat_gt_iff] at *; exact flt_trans _ _ _ h2 h1

theorem cmpFloat_lt_trans (x y z : FVal) (h1 : cmpFloat x y = .lt) (h2 : cmpFloat y z = .lt) : cmpFloat x z = .lt := by
  rw [cmpFloat_lt_iff] at *; exact flt_trans _ _ _ h1 h2

theorem bytesLt_trans : ∀ (x y z : Bytes), bytesLt x y = true → bytesLt y z = true → bytesLt x z = true
  | [], [], _, h, _ => by simp [bytesLt] at h
  | [], _ :: _, [], _, h => by simp [bytesLt] at h
  | [], _ :: _, _ :: _, _, _ => by simp [bytesLt]
  | _ :: _, [], _, h, _ => by simp [bytesLt] at h
  | _ :: _, _ :: _, [], _, h => by simp [bytesLt] at h
  | a :: as, b :: bs, c :: cs, h1, h2 => by
    simp only [bytesLt] at h1 h2 ⊢
    by_cases hab : a < b
    · by_cases hbc : b < c
      · have : a < c := by omega
        simp [this]
      · by_cases hcb : c < b
        · simp [hbc, hcb] at h2
        · have : b = c := by omega
          subst this; simp [hab]
    · by_cases hba : b < a
      · simp [hab, hba] at h1
      · have hab' : a = b := by omega
        subst hab'
        simp only [hab, if_false] at h1
        by_cases hbc : a < c
        · simp [hbc]
        · by_cases hcb : c < a
          · simp [hbc, hcb] at h2
          · simp only [hbc, hcb, if_false] at h2 ⊢
            exact bytesLt_trans as bs cs h1 h2

theorem cmpBytes_lt_iff (x y : Bytes) : cmpBytes x y = .lt ↔ bytesLt x y = true := by
  unfold cmpBytes
  by_cases h : x = y
  · subst h; simp [bytesLt_irrefl]
  · cases hb : bytesLt x y <;> simp [h]

theorem cmpBytes_gt_iff (x y : Bytes) : cmpBytes x y = .gt ↔ bytesLt y x = true := by
  rw [← cmpBytes_lt_iff, cmpBytes_flip x y]
  cases cmpBytes x y <;> simp [Cmp.flip]

/-- the cell is read as an integer (integers, integer texts) -/
def IsIntCell (p : Profile) : Prop := p.isNull = false ∧ p.int?.isSome
/-- the cell is read as a float and not as an integer (floats, float texts; NaN included) -/
def IsFloatCell (p : Profile) : Prop := p.isNull = false ∧ p.int? = none ∧ p.flt?.isSome
/-- the cell is read as a datetime only -/
def IsDtCell (p : Profile) : Prop := p.isNull = false ∧ p.int? = none ∧ p.flt? = none ∧ p.dt?.isSome
/-- the cell is a text that is neither number, datetime nor boolean -/
def IsTextCell (p : Profile) : Prop :=
  p.isNull = false ∧ p.int? = none ∧ p.flt? = none ∧ p.dt? = none ∧ p.bool? = none ∧ p.strU?.isSome

/-- all non-null cells of the list are of one class -/
def Uniform (l : List Profile) : Prop :=
  (∀ p ∈ l, p.isNull = true ∨ IsIntCell p) ∨ (∀ p ∈ l, p.isNull = true ∨ IsFloatCell p) ∨
  (∀ p ∈ l, p.isNull = true ∨ IsDtCell p) ∨ (∀ p ∈ l, p.isNull = true ∨ IsTextCell p)

theorem cmp_of_null (a b : Profile) (h : a.isNull = true ∨ b.isNull = true) : cmp a b = .incomm := by
  unfold cmp; rcases h with h | h <;> simp [h]

theorem cmp_int_cells (a b : Profile) (ha : IsIntCell a) (hb : IsIntCell b) :
    ∃ i j, a.int? = some i ∧ b.int? = some j ∧ cmp a b = cmpInt i j := by
  obtain ⟨i, hi⟩ := Option.isSome_iff_exists.mp ha.2
  obtain ⟨j, hj⟩ := Option.isSome_iff_exists.mp hb.2
  exact ⟨i, j, hi, hj, by simp [cmp, ha.1, hb.1, rungInt, hi, hj]⟩

theorem cmp_float_cells (a b : Profile) (ha : IsFloatCell a) (hb : IsFloatCell b) :
    ∃ x y, a.flt? = some x ∧ b.flt? = some y ∧ cmp a b = cmpFloat x y := by
  obtain ⟨x, hx⟩ := Option.isSome_iff_exists.mp ha.2.2
  obtain ⟨y, hy⟩ := Option.isSome_iff_exists.mp hb.2.2
  exact ⟨x, y, hx, hy, by simp [cmp, ha.1, hb.1, rungInt, ha.2.1, rungFlt, hx, hy]⟩

theorem cmp_dt_cells (a b : Profile) (ha : IsDtCell a) (hb : IsDtCell b) :
    ∃ x y, a.dt? = some x ∧ b.dt? = some y ∧ cmp a b = cmpInt x y := by
  obtain ⟨x, hx⟩ := Option.isSome_iff_exists.mp ha.2.2.2
  obtain ⟨y, hy⟩ := Option.isSome_iff_exists.mp hb.2.2.2
  exact ⟨x, y, hx, hy, by simp [cmp, ha.1, hb.1, rungInt, ha.2.1, rungFlt, ha.2.2.1, rungDt, hx, hy]⟩

theorem cmp_text_cells (a b : Profile) (ha : IsTextCell a) (hb : IsTextCell b) :
    ∃ x y, a.strU? = some x ∧ b.strU? = some y ∧ cmp a b = cmpBytes x y := by
  obtain ⟨x, hx⟩ := Option.isSome_iff_exists.mp ha.2.2.2.2.2
  obtain ⟨y, hy⟩ := Option.isSome_iff_exists.mp hb.2.2.2.2.2
  exact ⟨x, y, hx, hy, by
    simp [cmp, ha.1, hb.1, rungInt, ha.2.1, rungFlt, ha.2.2.1, rungDt, ha.2.2.2.1, rungBool, ha.2.2.2.2.1, rungStr, hx, hy]⟩

/-- `cmp x y = c` (c = gt or lt) is transitive on every uniform list -/
theorem cmp_trans_uniform (l : List Profile) (hu : Uniform l) (c : Cmp) (hc : c = .gt ∨ c = .lt) :
    ∀ x ∈ l, ∀ y ∈ l, ∀ z ∈ l, cmp x y = c → cmp y z = c → cmp x z = c := by
  intro x hx y hy z hz h1 h2
  have nn : ∀ a b : Profile, cmp a b = c → a.isNull = false ∧ b.isNull = false := by
    intro a b h
    cases ha : a.isNull <;> cases hb : b.isNull <;> simp_all [cmp] <;> rcases hc with e | e <;> simp_all
  have hxn := (nn x y h1).1
  have hyn := (nn x y h1).2
  have hzn := (nn y z h2).2
  have pick : ∀ (P : Profile → Prop), (∀ p ∈ l, p.isNull = true ∨ P p) → P x ∧ P y ∧ P z := by
    intro P hP
    refine ⟨?_, ?_, ?_⟩
    · rcases hP x hx with e | e
      · rw [hxn] at e; exact absurd e (by decide)
      · exact e
    · rcases hP y hy with e | e
      · rw [hyn] at e; exact absurd e (by decide)
      · exact e
    · rcases hP z hz with e | e
      · rw [hzn] at e; exact absurd e (by decide)
      · exact e
  rcases hu with hu | hu | hu | hu
  · obtain ⟨px, py, pz⟩ := pick _ hu
    obtain ⟨i, j, hi, hj, e1⟩ := cmp_int_cells x y px py
    obtain ⟨j', k, hj', hk, e2⟩ := cmp_int_cells y z py pz
    obtain ⟨i', k', hi', hk', e3⟩ := cmp_int_cells x z px pz
    rw [hj] at hj'; injection hj' with hj'; subst hj'
    rw [hi] at hi'; injection hi' with hi'; subst hi'
    rw [hk] at hk'; injection hk' with hk'; subst hk'
    rw [e1] at h1; rw [e2] at h2; rw [e3]
    rcases hc with e | e <;> subst e
    · rw [cmpInt_gt_iff] at *; omega
    · rw [cmpInt_lt_iff] at *; omega
  · obtain ⟨px, py, pz⟩ := pick _ hu
    obtain ⟨i, j, hi, hj, e1⟩ := cmp_float_cells x y px py
    obtain ⟨j', k, hj', hk, e2⟩ := cmp_float_cells y z py pz
    obtain ⟨i', k', hi', hk', e3⟩ := cmp_float_cells x z px pz
    rw [hj] at hj'; injection hj' with hj'; subst hj'
    rw [hi] at hi'; injection hi' with hi'; subst hi'
    rw [hk] at hk'; injection hk' with hk'; subst hk'
    rw [e1] at h1; rw [e2] at h2; rw [e3]
    rcases hc with e | e <;> subst e
    · exact cmpFloat_gt_trans _ _ _ h1 h2
    · exact cmpFloat_lt_trans _ _ _ h1 h2
  · obtain ⟨px, py, pz⟩ := pick _ hu
    obtain ⟨i, j, hi, hj, e1⟩ := cmp_dt_cells x y px py
    obtain ⟨j', k, hj', hk, e2⟩ := cmp_dt_cells y z py pz
    obtain ⟨i', k', hi', hk', e3⟩ := cmp_dt_cells x z px pz
    rw [hj] at hj'; injection hj' with hj'; subst hj'
    rw [hi] at hi'; injection hi' with hi'; subst hi'
    rw [hk] at hk'; injection hk' with hk'; subst hk'
    rw [e1] at h1; rw [e2] at h2; rw [e3]
    rcases hc with e | e <;> subst e
    · rw [cmpInt_gt_iff] at *; omega
    · rw [cmpInt_lt_iff] at *; omega
  · obtain ⟨px, py, pz⟩ := pick _ hu
    obtain ⟨i, j, hi, hj, e1⟩ := cmp_text_cells x y px py
    obtain ⟨j', k, hj', hk, e2⟩ := cmp_text_cells y z py pz
    obtain ⟨i', k', hi', hk', e3⟩ := cmp_text_cells x z px pz
    rw [hj] at hj'; injection hj' with hj'; subst hj'
    rw [hi] at hi'; injection hi' with hi'; subst hi'
    rw [hk] at hk'; injection hk' with hk'; subst hk'
    rw [e1] at h1; rw [e2] at h2; rw [e3]
    rcases hc with e | e <;> subst e
    · rw [cmpBytes_gt_iff] at *; exact bytesLt_trans _ _ _ h2 h1
    · rw [cmpBytes_lt_iff] at *; exact bytesLt_trans _ _ _ h1 h2

theorem transOn_opGt_uniform (l : List Profile) (hu : Uniform l) : TransOn opGt l := by
  intro x hx y hy z hz h1 h2
  rw [opGt_T_iff] at *
  exact cmp_trans_uniform l hu .gt (Or.inl rfl) x hx y hy z hz h1 h2

theorem transOn_opLt_uniform (l : List Profile) (hu : Uniform l) : TransOn opLt l := by
  intro x hx y hy z hz h1 h2
  rw [opLt_T_iff] at *
  exact cmp_trans_uniform l hu .lt (Or.inr rfl) x hx y hy z hz h1 h2

/-! ### signs: squares, their sums, variance and standard deviation are never negative -/

/-- "not negative": +0, a positive number, +Inf — or NaN -/
def NonNeg (f : FVal) : Prop := f = .nan ∨ f.isNeg = false

theorem signed_false_isNeg (m : Option Nat) : (FVal.signed false m).isNeg = false := by
  cases m with
  | none => rfl
  | some n => cases n with
    | zero => rfl
    | succ k => simp only [FVal.signed, Bool.false_eq_true, if_false, FVal.isNeg]; exact decide_eq_false (by omega)

theorem powTwo_nonNeg (x : FVal) : NonNeg (FVal.powTwo x) := by
  cases x with
  | nan => left; rfl
  | pinf => right; rfl
  | ninf => right; rfl
  | negz => right; rfl
  | fin n => right; simp only [FVal.powTwo]; exact signed_false_isNeg _

theorem add_nonNeg (x y : FVal) (hx : NonNeg x) (hy : NonNeg y) : NonNeg (FVal.add x y) := by
  rcases hx with hx | hx
  · subst hx; left; cases y <;> rfl
  rcases hy with hy | hy
  · subst hy; left; cases x <;> rfl
  cases x with
  | nan => left; cases y <;> rfl
  | pinf => cases y <;> first | (left; rfl) | (right; rfl) | simp [FVal.isNeg] at hy
  | ninf => simp [FVal.isNeg] at hx
  | negz => simp [FVal.isNeg] at hx
  | fin p =>
    cases y with
    | nan => left; rfl
    | pinf => right; rfl
    | ninf => simp [FVal.isNeg] at hy
    | negz => simp [FVal.isNeg] at hy
    | fin q =>
      right
      simp only [FVal.isNeg, decide_eq_false_iff_not] at hx hy
      simp only [FVal.add, FVal.num?]
      by_cases hs : p + q = 0
      · simp [hs, FVal.isNeg]
      · simp only [hs, if_false]
        have : ¬ (p + q < 0) := by omega
        simp only [this, decide_false]
        exact signed_false_isNeg _

theorem sqDevSum_nonNeg (avg : FVal) (l : List FVal) : NonNeg (sqDevSum avg l) := by
  unfold sqDevSum
  have gen : ∀ (l : List FVal) (s : FVal), NonNeg s →
      NonNeg (l.foldl (fun s v => FVal.add s (FVal.powTwo (FVal.sub v avg))) s) := by
    intro l
    induction l with
    | nil => intro s hs; exact hs
    | cons v vs ih => intro s hs; exact ih _ (add_nonNeg _ _ hs (powTwo_nonNeg _))
  exact gen l _ (Or.inr rfl)

/-- dividing by a positive finite number keeps the sign -/
theorem div_nonNeg_pos (x : FVal) (q : Int) (hq : 0 < q) (hx : NonNeg x) : NonNeg (FVal.div x (.fin q)) := by
  rcases hx with hx | hx
  · subst hx; left; rfl
  have hqn : ¬ q < 0 := by omega
  have hq0 : ¬ q = 0 := by omega
  cases x with
  | nan => left; rfl
  | pinf => right; simp [FVal.div, FVal.isNaN, FVal.isNeg, FVal.isInf, hqn]
  | ninf => simp [FVal.isNeg] at hx
  | negz => simp [FVal.isNeg] at hx
  | fin p =>
    right
    simp only [FVal.isNeg, decide_eq_false_iff_not] at hx
    have e : ((FVal.fin p).isNeg != (FVal.fin q).isNeg) = false := by simp [FVal.isNeg, hx, hqn]
    simp only [FVal.div, FVal.isNaN, FVal.isInf, FVal.isZero, FVal.num?, Bool.or_self, Bool.false_eq_true,
      if_false, beq_iff_eq, hq0, e]
    exact signed_false_isNeg _

theorem sqrt_nonNeg (x : FVal) (hx : NonNeg x) : NonNeg (FVal.sqrt x) := by
  rcases hx with hx | hx
  · subst hx; left; rfl
  cases x with
  | nan => left; rfl
  | pinf => right; rfl
  | ninf => left; rfl
  | negz => simp [FVal.isNeg] at hx
  | fin n =>
    simp only [FVal.isNeg, decide_eq_false_iff_not] at hx
    right
    simp only [FVal.sqrt, hx, if_false]
    by_cases h0 : n = 0
    · simp [h0, FVal.isNeg]
    · simp only [h0, if_false]; exact signed_false_isNeg _

theorem pow2_53 : FVal.pow2 53 = 9007199254740992 := by decide

/-- exact image of an integer -/
def intF (i : Int) : FVal := .fin (i * (FVal.unit : Int))

theorem ofInt_eq_intF (i : Int) (h : i.natAbs < FVal.pow2 53) : FVal.ofInt i = intF i := FVal.ofInt_exact i h

theorem isZeroF_intF (i : Int) : isZeroF (intF i) = decide (i = 0) := by
  have hu := FVal.unit_int_pos
  by_cases h : i = 0
  · subst h; simp [isZeroF, intF, FVal.feq, FVal.num?]
  · have : i * (FVal.unit : Int) ≠ 0 := Int.mul_ne_zero h (Int.ne_of_gt hu)
    simp [isZeroF, intF, FVal.feq, FVal.num?, this, h]

/-- `variance` is never negative (for every list shorter than 2^53 cells) -/
theorem variance_nonNeg (l : List FVal) (isP : Bool) (hlen : l.length < FVal.pow2 53) : NonNeg (variance l isP) := by
  unfold variance
  simp only
  have hn : FVal.ofInt (l.length : Int) = intF l.length := ofInt_eq_intF _ (by simpa using hlen)
  have h1 : FVal.ofInt 1 = intF 1 := ofInt_eq_intF 1 (by rw [pow2_53]; decide)
  have hsub : FVal.sub (intF l.length) (intF 1) = intF ((l.length : Int) - 1) := by
    apply FVal.sub_int_exact
    have : ((l.length : Int) - 1).natAbs ≤ l.length + 1 := by omega
    rw [pow2_53] at hlen ⊢
    omega
  rw [hn, h1, hsub]
  have key : ∀ d : Int, 0 ≤ d → NonNeg (if (isZeroF (intF d) || isZeroF (sqDevSum (average l) l)) = true then FVal.fin 0
      else FVal.div (sqDevSum (average l) l) (intF d)) := by
    intro d hd
    rw [isZeroF_intF]
    by_cases h0 : d = 0
    · simp [h0]; right; rfl
    · simp only [h0, decide_false, Bool.false_or]
      split
      · right; rfl
      · have hu := FVal.unit_int_pos
        exact div_nonNeg_pos _ _ (Int.mul_pos (by omega) hu) (sqDevSum_nonNeg _ _)
  cases isP
  · simp only [Bool.false_eq_true, if_false]
    by_cases hl : l.length = 0
    · -- an empty list: denom = -1; the squares sum to +0, so the shortcut answers
      have : l = [] := List.length_eq_zero_iff.mp hl
      subst this
      right; simp [sqDevSum, isZeroF, FVal.feq, FVal.num?, FVal.isNeg]
    · exact key _ (by omega)
  · simp only [if_true]
    exact key _ (by omega)

/-! ### the integer square root, math.Sqrt on exact squares -/

theorem isqrtAux_spec : ∀ (k n : Nat), n < 4 ^ k →
    FVal.isqrtAux k n * FVal.isqrtAux k n ≤ n ∧ n < (FVal.isqrtAux k n + 1) * (FVal.isqrtAux k n + 1)
  | 0, n, h => by
    have : n = 0 := by simpa using h
    subst this; simp [FVal.isqrtAux]
  | k + 1, n, h => by
    have hq : n / 4 < 4 ^ k := by
      rw [Nat.pow_succ] at h
      omega
    obtain ⟨h1, h2⟩ := isqrtAux_spec k (n / 4) hq
    simp only [FVal.isqrtAux]
    generalize FVal.isqrtAux k (n / 4) = s at h1 h2
    have e0 : (2 * s) * (2 * s) = 4 * (s * s) := by grind
    have e2 : (2 * s + 1 + 1) * (2 * s + 1 + 1) = 4 * ((s + 1) * (s + 1)) := by grind
    have e1 : (2 * s + 1) * (2 * s + 1) = 4 * (s * s) + 4 * s + 1 := by grind
    by_cases hc : (2 * s + 1) * (2 * s + 1) ≤ n
    · rw [if_pos hc]
      refine ⟨hc, ?_⟩
      rw [e2]; omega
    · rw [if_neg hc]
      refine ⟨by rw [e0]; omega, by omega⟩

theorem sqrt_unique (s t n : Nat) (h1 : s * s ≤ n) (h2 : n < (s + 1) * (s + 1)) (h3 : t * t ≤ n)
    (h4 : n < (t + 1) * (t + 1)) : s = t := by
  rcases Nat.lt_trichotomy s t with h | h | h
  · have : (s + 1) * (s + 1) ≤ t * t := Nat.mul_le_mul h h
    omega
  · exact h
  · have : (t + 1) * (t + 1) ≤ s * s := Nat.mul_le_mul h h
    omega

/-- `isqrt n` is ⌊√n⌋ -/
theorem isqrt_spec (n : Nat) : FVal.isqrt n * FVal.isqrt n ≤ n ∧ n < (FVal.isqrt n + 1) * (FVal.isqrt n + 1) := by
  unfold FVal.isqrt
  simp only
  split
  · assumption
  · apply isqrtAux_spec
    have h1 : n < 2 ^ (n.log2 + 1) := Nat.lt_log2_self
    have h2 : (4 : Nat) ^ (n.log2 / 2 + 1) = 2 ^ (2 * (n.log2 / 2 + 1)) := by
      rw [Nat.pow_mul]
    rw [h2]
    exact Nat.lt_of_lt_of_le h1 (Nat.pow_le_pow_right (by decide) (by omega))

theorem isqrt_sq (x : Nat) : FVal.isqrt (x * x) = x := by
  obtain ⟨h1, h2⟩ := isqrt_spec (x * x)
  generalize FVal.isqrt (x * x) = s at h1 h2
  have h4 : x * x < (x + 1) * (x + 1) := Nat.mul_self_lt_mul_self (Nat.lt_succ_self x)
  exact sqrt_unique s x (x * x) h1 h2 (Nat.le_refl _) h4

/-- math.Sqrt of the exact square of an integer below 2^53 is that integer -/
theorem sqrt_sq_exact (x : Nat) (h : x < FVal.pow2 53) : FVal.sqrt (intF ((x : Int) * x)) = intF x := by
  by_cases h0 : x = 0
  · subst h0; simp [intF, FVal.sqrt]
  have hxpos : 0 < x := Nat.pos_of_ne_zero h0
  have hu := FVal.unitNat_pos
  have hnn : ¬ ((x : Int) * x * (FVal.unit : Int) < 0) := by
    have : (0 : Int) ≤ (x : Int) * x * (FVal.unit : Int) := by
      apply Int.mul_nonneg (Int.mul_nonneg (by omega) (by omega)) (by omega)
    omega
  have hne : ¬ ((x : Int) * x * (FVal.unit : Int) = 0) := by
    have hx : (x : Int) ≠ 0 := by omega
    have hui : (FVal.unit : Int) ≠ 0 := by omega
    exact Int.mul_ne_zero (Int.mul_ne_zero hx hx) hui
  have habs : ((x : Int) * x * (FVal.unit : Int)).natAbs * FVal.unit = (x * FVal.unit) * (x * FVal.unit) := by
    rw [Int.natAbs_mul, Int.natAbs_mul, Int.natAbs_natCast, Int.natAbs_natCast]
    generalize FVal.unit = u
    grind
  simp only [intF, FVal.sqrt, hnn, hne, if_false, habs, isqrt_sq]
  rw [if_pos True.intro, Nat.add_zero]
  rw [Nat.mul_comm 2 (x * FVal.unit), FVal.roundMag_scale _ _ (by decide), FVal.roundMag_int_unit x hxpos h]
  have hne2 : x * FVal.unit ≠ 0 := Nat.ne_of_gt (Nat.mul_pos hxpos hu)
  rw [FVal.signed_some _ _ hne2]
  simp

/-! ### math.Pow(x, 2) on integers -/

/-- a number with at most 53 significant bits is left unchanged by `round53` -/
theorem round53_exact (a : Nat) (ha : 0 < a) (hlt : a < FVal.pow2 53) (e : Nat) :
    FVal.round53 (a * FVal.pow2 e) = a * FVal.pow2 e := by
  unfold FVal.round53
  have hpos : 0 < a * FVal.pow2 e := Nat.mul_pos ha (FVal.pow2_pos e)
  have hq0 : ¬ a * FVal.pow2 e = 0 := by omega
  simp only [hq0, if_false]
  have hbound : a * FVal.pow2 e < FVal.pow2 (53 + e) := by
    unfold FVal.pow2 at *; rw [Nat.pow_add]; exact Nat.mul_lt_mul_of_pos_right hlt (Nat.pow_pos (by decide))
  have hlog : Nat.log2 (a * FVal.pow2 e) < 53 + e :=
    (Nat.log2_lt hq0).mpr (by unfold FVal.pow2 at hbound; exact hbound)
  have hk : Nat.log2 (a * FVal.pow2 e) + 1 - 53 ≤ e := by omega
  have hdvd : FVal.pow2 (Nat.log2 (a * FVal.pow2 e) + 1 - 53) ∣ a * FVal.pow2 e := by
    unfold FVal.pow2; exact Nat.dvd_trans (Nat.pow_dvd_pow 2 hk) (Nat.dvd_mul_left _ _)
  generalize Nat.log2 (a * FVal.pow2 e) + 1 - 53 = k at *
  obtain ⟨c, hc⟩ := hdvd
  have hkp := FVal.pow2_pos k
  have hm : a * FVal.pow2 e / FVal.pow2 k = c := by rw [hc]; exact Nat.mul_div_cancel_left c hkp
  have hrem : a * FVal.pow2 e - c * FVal.pow2 k = 0 := by rw [hc, Nat.mul_comm]; exact Nat.sub_self _
  simp only [hm, hrem, Nat.mul_zero]
  have h1 : ¬ (0 > FVal.pow2 k) := by omega
  have h2 : ¬ (0 = FVal.pow2 k) := by omega
  simp only [h1, h2, if_false]
  rw [hc, Nat.mul_comm]

/-- math.Pow(x, 2) of an integer whose square is below 2^53 is the exact square -/
theorem powTwo_int_exact (x : Int) (h : (x * x).natAbs < FVal.pow2 53) : FVal.powTwo (intF x) = intF (x * x) := by
  by_cases h0 : x = 0
  · subst h0
    have hov : FVal.overflowAt ≠ 0 := Nat.ne_of_gt (FVal.pow2_pos _)
    simp [intF, FVal.powTwo, FVal.round53, FVal.roundMag, FVal.signed, FVal.pow2, hov]
  have hxx : x * x ≠ 0 := Int.mul_ne_zero h0 h0
  have ha : 0 < (x * x).natAbs := Int.natAbs_pos.mpr hxx
  have hu := FVal.unitNat_pos
  have hsq : (x * (FVal.unit : Int)).natAbs * (x * (FVal.unit : Int)).natAbs
      = ((x * x).natAbs * FVal.unit) * FVal.pow2 1074 := by
    rw [Int.natAbs_mul, Int.natAbs_mul, Int.natAbs_natCast]
    show _ = _ * FVal.unit
    generalize FVal.unit = u
    grind
  have h53 : (x * x).natAbs * FVal.unit * FVal.pow2 1074 = (x * x).natAbs * FVal.pow2 2148 := by
    show (x * x).natAbs * FVal.pow2 1074 * FVal.pow2 1074 = _
    unfold FVal.pow2
    rw [Nat.mul_assoc, ← Nat.pow_add]
  simp only [intF, FVal.powTwo, hsq]
  rw [h53, round53_exact _ ha h, ← h53]
  rw [show (x * x).natAbs * FVal.unit * FVal.pow2 1074 = ((x * x).natAbs * FVal.unit) * FVal.unit from rfl]
  rw [FVal.roundMag_scale _ _ hu, FVal.roundMag_int_unit _ ha h]
  have hne : (x * x).natAbs * FVal.unit ≠ 0 := Nat.ne_of_gt (Nat.mul_pos ha hu)
  rw [FVal.signed_some _ _ hne]
  have hpos : 0 ≤ x * x := by
    rcases Int.lt_or_gt_of_ne h0 with l | g
    · exact Int.le_of_lt (Int.mul_pos_of_neg_of_neg l l)
    · exact Int.le_of_lt (Int.mul_pos g g)
  have e : ((x * x).natAbs : Int) = x * x := by omega
  simp only [Bool.false_eq_true, if_false, Int.natCast_mul, e]

/-! ### sums of integers -/

/-- every partial sum, started from `a`, stays below 2^53 in magnitude -/
def PartialSumsExact : Int → List Int → Prop
  | _, [] => True
  | a, i :: is => (a + i).natAbs < FVal.pow2 53 ∧ PartialSumsExact (a + i) is

theorem int_sum_cons_acc (a : Int) (is : List Int) : (is.foldl (· + ·) a) = a + is.foldl (· + ·) 0 := by
  induction is generalizing a with
  | nil => simp
  | cons i is ih => simp only [List.foldl_cons]; rw [ih (a + i), ih (0 + i)]; omega

/-- Σ of an integer list (left fold) -/
def isum (is : List Int) : Int := is.foldl (· + ·) 0

theorem isum_cons (i : Int) (is : List Int) : isum (i :: is) = i + isum is := by
  unfold isum; simp only [List.foldl_cons]; rw [int_sum_cons_acc]; omega

theorem fold_add_int_exact (is : List Int) (a : Int) (h : PartialSumsExact a is) :
    (is.map intF).foldl FVal.add (intF a) = intF (a + isum is) := by
  induction is generalizing a with
  | nil => simp [isum]
  | cons i is ih =>
    obtain ⟨h1, h2⟩ := h
    simp only [List.map_cons, List.foldl_cons]
    have : FVal.add (intF a) (intF i) = intF (a + i) := FVal.add_int_exact a i h1
    rw [this, ih (a + i) h2, isum_cons]
    congr 1; omega

theorem fsum_int_exact (is : List Int) (h : PartialSumsExact 0 is) : fsum (is.map intF) = intF (isum is) := by
  have := fold_add_int_exact is 0 h
  simp only [Int.zero_add] at this
  unfold fsum
  have e : (FVal.fin 0) = intF 0 := by simp [intF]
  rw [e]; exact this

/-- Σ|i| -/
def absSum (is : List Int) : Nat := (is.map Int.natAbs).sum

theorem partialSumsExact_of_absSum (is : List Int) (a : Int) (h : a.natAbs + absSum is < FVal.pow2 53) :
    PartialSumsExact a is := by
  induction is generalizing a with
  | nil => trivial
  | cons i is ih =>
    simp only [absSum, List.map_cons, List.sum_cons] at h
    have hb : (a + i).natAbs ≤ a.natAbs + i.natAbs := Int.natAbs_add_le a i
    refine ⟨by omega, ih (a + i) ?_⟩
    unfold absSum; omega

theorem natAbs_le_absSum (is : List Int) (i : Int) (h : i ∈ is) : i.natAbs ≤ absSum is := by
  induction is with
  | nil => cases h
  | cons j js ih =>
    simp only [absSum, List.map_cons, List.sum_cons]
    rcases List.mem_cons.mp h with e | e
    · subst e; omega
    · have := ih e; unfold absSum at this; omega

theorem isum_perm (l1 l2 : List Int) (h : l1.Perm l2) : isum l1 = isum l2 := by
  induction h with
  | nil => rfl
  | cons x _ ih => rw [isum_cons, isum_cons, ih]
  | swap x y l => rw [isum_cons, isum_cons, isum_cons, isum_cons]; omega
  | trans _ _ ih1 ih2 => rw [ih1, ih2]

theorem absSum_perm (l1 l2 : List Int) (h : l1.Perm l2) : absSum l1 = absSum l2 :=
  List.Perm.sum_nat (h.map _)

/-! ### AVG: the denominator is never zero -/

theorem roundMag_pos (a : Nat) (ha : 0 < a) : FVal.roundMag a 1 = none ∨ ∃ n, 0 < n ∧ FVal.roundMag a 1 = some n := by
  unfold FVal.roundMag
  simp only [Nat.div_one, Nat.one_mul]
  have hq0 : ¬ a = 0 := by omega
  simp only [hq0, if_false]
  have hk : Nat.log2 a + 1 - 53 ≤ Nat.log2 a := by omega
  have hle : FVal.pow2 (Nat.log2 a + 1 - 53) ≤ a := by
    unfold FVal.pow2
    exact Nat.le_trans (Nat.pow_le_pow_right (by decide) hk) (Nat.log2_self_le hq0)
  generalize Nat.log2 a + 1 - 53 = k at *
  have hkp := FVal.pow2_pos k
  have hm : 1 ≤ a / FVal.pow2 k := (Nat.le_div_iff_mul_le hkp).mpr (by omega)
  generalize a / FVal.pow2 k = m at *
  generalize a - m * FVal.pow2 k = r
  have hm' : 1 ≤ (if 2 * r > FVal.pow2 k then m + 1 else if 2 * r = FVal.pow2 k then (if m % 2 = 0 then m else m + 1) else m) := by
    split
    · omega
    · split
      · split <;> omega
      · exact hm
  generalize (if 2 * r > FVal.pow2 k then m + 1 else if 2 * r = FVal.pow2 k then (if m % 2 = 0 then m else m + 1) else m) = m' at *
  split
  · left; rfl
  · right; exact ⟨_, Nat.mul_pos (by omega) hkp, rfl⟩

theorem isZeroF_ofInt_pos (n : Nat) (hn : 0 < n) : isZeroF (FVal.ofInt (n : Int)) = false := by
  unfold FVal.ofInt
  have h0 : ¬ ((n : Int) = 0) := by omega
  have hlt : ¬ ((n : Int) < 0) := by omega
  simp only [h0, if_false, hlt, decide_false, Int.natAbs_natCast]
  rcases roundMag_pos (n * FVal.unit) (Nat.mul_pos hn FVal.unitNat_pos) with e | ⟨m, hm, e⟩
  · rw [e]; rfl
  · rw [e, FVal.signed_some _ _ (by omega)]
    have : ¬ (m = 0) := by omega
    simp [isZeroF, FVal.feq, FVal.num?, this]

/-! ### MEDIAN: the order the model sorts by is linear; any sorted permutation gives the same values up to the sign of zeros -/

theorem medLess_asymm (a b : FVal) : medLess a b = true → medLess b a = false := by
  cases a <;> cases b <;> simp [medLess, f64Less, isNegZero, isPosZero, FVal.flt, FVal.num?, FVal.isNaN] <;> omega

theorem medLess_negtrans (a b c : FVal) : medLess b a = false → medLess c b = false → medLess c a = false := by
  cases a <;> cases b <;> cases c <;>
    simp [medLess, f64Less, isNegZero, isPosZero, FVal.flt, FVal.num?, FVal.isNaN] <;> omega

theorem medLess_antisymm (a b : FVal) : medLess a b = false → medLess b a = false → a = b := by
  cases a <;> cases b <;> simp [medLess, f64Less, isNegZero, isPosZero, FVal.flt, FVal.num?, FVal.isNaN] <;> omega

theorem sortBy_medLess_sorted (l : List FVal) : SortedBy medLess (sortBy medLess l) :=
  sortBy_sorted medLess (fun _ => True) (fun a b _ _ => medLess_asymm a b) (fun a b c _ _ _ => medLess_negtrans a b c)
    l (fun _ _ => trivial)

/-- the sorted list depends only on the multiset of values -/
theorem sortBy_medLess_perm (l1 l2 : List FVal) (h : l1.Perm l2) : sortBy medLess l1 = sortBy medLess l2 := by
  have hp : (sortBy medLess l1).Perm (sortBy medLess l2) :=
    (sortBy_perm medLess l1).trans (h.trans (sortBy_perm medLess l2).symm)
  exact List.Perm.eq_of_pairwise (le := fun a b => medLess b a = false)
    (fun a b _ _ hab hba => medLess_antisymm a b hba hab) (sortBy_medLess_sorted l1) (sortBy_medLess_sorted l2) hp

/-- forget the sign of a zero -/
def zeroCanon : FVal → FVal
  | .negz => .fin 0
  | f => f

theorem f64Less_canon (a b : FVal) : f64Less a b = f64Less (zeroCanon a) (zeroCanon b) := by
  cases a <;> cases b <;> simp [zeroCanon, f64Less, FVal.flt, FVal.num?, FVal.isNaN]

theorem f64Less_canon_antisymm (a b : FVal) : f64Less (zeroCanon a) (zeroCanon b) = false →
    f64Less (zeroCanon b) (zeroCanon a) = false → zeroCanon a = zeroCanon b := by
  cases a <;> cases b <;> simp [zeroCanon, f64Less, FVal.flt, FVal.num?, FVal.isNaN] <;> omega

theorem sortedBy_f64Less_of_medLess (s : List FVal) (h : SortedBy medLess s) : SortedBy f64Less s := by
  unfold SortedBy at *
  apply List.Pairwise.imp _ h
  intro a b hab
  cases hf : f64Less b a
  · rfl
  · simp [medLess, hf] at hab

/-- whatever sorted permutation sort.Float64s returns, it carries the model's values up to the sign of zeros -/
theorem any_sort_canon (vs s : List FVal) (hp : s.Perm vs) (hs : SortedBy f64Less s) :
    s.map zeroCanon = (sortBy medLess vs).map zeroCanon := by
  apply sorted_perm_keys_eq f64Less f64Less zeroCanon s (sortBy medLess vs) (hp.trans (sortBy_perm medLess vs).symm)
  · intro a _ b _; exact f64Less_canon a b
  · intro a _ b _; exact f64Less_canon_antisymm a b
  · exact hs
  · exact sortedBy_f64Less_of_medLess _ (sortBy_medLess_sorted vs)

theorem add_canon (a b : FVal) : zeroCanon (FVal.add a b) = zeroCanon (FVal.add (zeroCanon a) (zeroCanon b)) := by
  cases a <;> cases b <;> simp [zeroCanon, FVal.add, FVal.num?]

theorem roundMag_zero (d : Nat) (hd : 0 < d) : FVal.roundMag 0 d = some 0 := by
  have hov : ¬ (0 ≥ FVal.overflowAt) := by
    have := FVal.pow2_pos 2098
    unfold FVal.overflowAt; omega
  simp [FVal.roundMag, FVal.pow2, hov, Nat.ne_of_gt hd]

theorem div_canon_pos (x : FVal) (q : Int) (hq : 0 < q) :
    zeroCanon (FVal.div x (.fin q)) = zeroCanon (FVal.div (zeroCanon x) (.fin q)) := by
  cases x with
  | negz =>
    have hqn : ¬ q < 0 := by omega
    have hq0 : ¬ q = 0 := by omega
    have hd : 0 < q.natAbs := by omega
    simp [zeroCanon, FVal.div, FVal.isNaN, FVal.isInf, FVal.isZero, FVal.isNeg, FVal.num?, hqn, hq0,
      roundMag_zero _ hd, FVal.signed]
  | _ => rfl

theorem medianOfSorted_canon (s t : List FVal) (h : s.map zeroCanon = t.map zeroCanon) :
    (medianOfSorted s).map zeroCanon = (medianOfSorted t).map zeroCanon := by
  have hlen : s.length = t.length := by simpa using congrArg List.length h
  have hget : ∀ i : Nat, (s[i]?).map zeroCanon = (t[i]?).map zeroCanon := by
    intro i
    rw [← List.getElem?_map, ← List.getElem?_map, h]
  have h2 : FVal.ofInt 2 = .fin (2 * (FVal.unit : Int)) := FVal.ofInt_exact 2 (by rw [pow2_53]; decide)
  have hpos : (0 : Int) < 2 * (FVal.unit : Int) := by have := FVal.unit_int_pos; omega
  unfold medianOfSorted
  rw [hlen]
  split
  · exact hget _
  · have key : ∀ (a a' b b' : Option FVal), a.map zeroCanon = a'.map zeroCanon → b.map zeroCanon = b'.map zeroCanon →
        (match a, b with
          | some x, some y => some (FVal.div (FVal.add x y) (FVal.ofInt 2))
          | _, _ => none).map zeroCanon =
        (match a', b' with
          | some x, some y => some (FVal.div (FVal.add x y) (FVal.ofInt 2))
          | _, _ => none).map zeroCanon := by
      intro a a' b b' ha hb
      cases a <;> cases a' <;> cases b <;> cases b' <;>
        simp only [Option.map_none, Option.map_some, reduceCtorEq, Option.some.injEq] at ha hb ⊢
      rw [h2, div_canon_pos _ _ hpos, add_canon, ha, hb, ← add_canon, ← div_canon_pos _ _ hpos]
    exact key _ _ _ _ (hget _) (hget _)

theorem medianOfSorted_isSome (s : List FVal) (h : 0 < s.length) : (medianOfSorted s).isSome = true := by
  unfold medianOfSorted
  split
  · have : (s.length + 1) / 2 - 1 < s.length := by omega
    simp [List.getElem?_eq_getElem this]
  · have h1 : s.length / 2 - 1 < s.length := by omega
    have h2 : s.length / 2 - 1 + 1 < s.length := by omega
    simp [List.getElem?_eq_getElem h1, List.getElem?_eq_getElem h2]

/-! ### LISTAGG -/

theorem join_cons_cons (sep x y : Bytes) (ys : List Bytes) : join sep (x :: y :: ys) = x ++ sep ++ join sep (y :: ys) := rfl

theorem join_append (sep : Bytes) (a b : List Bytes) (ha : a ≠ []) (hb : b ≠ []) :
    join sep (a ++ b) = join sep a ++ sep ++ join sep b := by
  induction a with
  | nil => exact absurd rfl ha
  | cons x xs ih =>
    cases xs with
    | nil =>
      cases b with
      | nil => exact absurd rfl hb
      | cons y ys => rfl
    | cons x' xs' =>
      rw [List.cons_append, List.cons_append, join_cons_cons, ← List.cons_append, ih (by simp), join_cons_cons]
      simp only [List.append_assoc]

/-! ### a float sum started from +0 is never -0 -/

theorem signed_roundMag_ne_negz (neg : Bool) (a : Nat) (ha : 0 < a) : FVal.signed neg (FVal.roundMag a 1) ≠ .negz := by
  rcases roundMag_pos a ha with e | ⟨n, hn, e⟩
  · rw [e]; cases neg <;> simp [FVal.signed]
  · rw [e, FVal.signed_some _ _ (by omega)]; cases neg <;> simp

theorem add_ne_negz (x y : FVal) (h : x ≠ .negz) : FVal.add x y ≠ .negz := by
  cases x with
  | nan => cases y <;> simp [FVal.add]
  | pinf => cases y <;> simp [FVal.add]
  | ninf => cases y <;> simp [FVal.add]
  | negz => exact absurd rfl h
  | fin p =>
    cases y with
    | nan => simp [FVal.add]
    | pinf => simp [FVal.add]
    | ninf => simp [FVal.add]
    | negz =>
      simp only [FVal.add, FVal.num?, Int.add_zero]
      by_cases hp : p = 0
      · simp [hp]
      · simp only [hp, if_false]; exact signed_roundMag_ne_negz _ _ (by omega)
    | fin q =>
      simp only [FVal.add, FVal.num?]
      by_cases hs : p + q = 0
      · simp [hs]
      · simp only [hs, if_false]; exact signed_roundMag_ne_negz _ _ (by omega)

theorem fsum_ne_negz (l : List FVal) : fsum l ≠ .negz := by
  unfold fsum
  have gen : ∀ (l : List FVal) (acc : FVal), acc ≠ .negz → l.foldl FVal.add acc ≠ .negz := by
    intro l
    induction l with
    | nil => intro acc h; exact h
    | cons v vs ih => intro acc h; exact ih _ (add_ne_negz acc v h)
  exact gen l _ (by simp)

end Csvq.Agg
