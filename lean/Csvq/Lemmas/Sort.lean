/- Lemmas for ORDER BY: on comparable columns the row comparison is the lexicographic order of
   per-column keys in a strict total order, hence a strict weak order. -/
import Csvq.Model.Sort
import Csvq.Lemmas.Compare
namespace Csvq

/-- per-column sort key: NULL at either end, numbers / datetimes by `n`, text by `s` -/
inductive K
  | lo
  | v (n : Int) (s : Bytes)
  | hi
  deriving DecidableEq, Repr

def K.lt (d : Dir) : K → K → Bool
  | .lo, .lo => false
  | .lo, _ => true
  | _, .lo => false
  | .hi, _ => false
  | _, .hi => true
  | .v n s, .v m t =>
    match d with
    | .asc => decide (n < m) || (decide (n = m) && bytesLt s t)
    | .desc => decide (m < n) || (decide (n = m) && bytesLt t s)

theorem K.lt_irrefl (d : Dir) (a : K) : K.lt d a a = false := by
  cases a <;> cases d <;> simp [K.lt, bytesLt_irrefl]

theorem bytesLt_trans : ∀ (x y z : Bytes), bytesLt x y = true → bytesLt y z = true → bytesLt x z = true
  | [], [], _, h, _ => by simp [bytesLt] at h
  | [], _ :: _, [], _, h => by simp [bytesLt] at h
  | [], _ :: _, _ :: _, _, _ => by simp [bytesLt]
  | _ :: _, [], _, h, _ => by simp [bytesLt] at h
  | _ :: _, _ :: _, [], _, h => by simp [bytesLt] at h
  | a :: as, b :: bs, c :: cs, h1, h2 => by
    simp only [bytesLt] at h1 h2 ⊢
    by_cases hab : a < b
    · by_cases hbc : b < c
      · have : a < c := by omega
        simp [this]
      · by_cases hcb : c < b
        · simp [hbc, hcb] at h2
        · have : b = c := by omega
          subst this; simp [hab]
    · by_cases hba : b < a
      · simp [hab, hba] at h1
      · have e : a = b := by omega
        subst e
        simp only [hab, if_false] at h1
        by_cases hbc : a < c
        · simp [hbc]
        · by_cases hcb : c < a
          · simp [hbc, hcb] at h2
          · simp only [hbc, hcb, if_false] at h2 ⊢
            exact bytesLt_trans as bs cs h1 h2

theorem K.lt_trans (d : Dir) (a b c : K) (h1 : K.lt d a b = true) (h2 : K.lt d b c = true) : K.lt d a c = true := by
  cases a <;> cases b <;> cases c <;> simp_all [K.lt]
  rename_i n s m t o u
  cases d <;> simp_all
  · rcases h1 with h1 | ⟨e1, h1⟩ <;> rcases h2 with h2 | ⟨e2, h2⟩
    · left; omega
    · left; omega
    · left; omega
    · right; exact ⟨by omega, bytesLt_trans _ _ _ h1 h2⟩
  · rcases h1 with h1 | ⟨e1, h1⟩ <;> rcases h2 with h2 | ⟨e2, h2⟩
    · left; omega
    · left; omega
    · left; omega
    · right; exact ⟨by omega, bytesLt_trans _ _ _ h2 h1⟩

theorem K.lt_total (d : Dir) (a b : K) (h1 : K.lt d a b = false) (h2 : K.lt d b a = false) : a = b := by
  cases a <;> cases b <;> simp_all [K.lt]
  rename_i n s m t
  cases d <;> simp_all
  · have e : n = m := by omega
    subst e
    simp at h1 h2
    by_cases hs : s = t
    · simp [hs]
    · exact absurd (bytesLt_total s t hs h1) (by simp [h2])
  · have e : n = m := by omega
    subst e
    simp at h1 h2
    by_cases hs : s = t
    · simp [hs]
    · exact absurd (bytesLt_total s t hs h2) (by simp [h1])

theorem K.lt_asymm (d : Dir) (a b : K) (h : K.lt d a b = true) : K.lt d b a = false := by
  cases hb : K.lt d b a
  · rfl
  · have := K.lt_trans d a b a h hb
    rw [K.lt_irrefl] at this; exact absurd this (by simp)

/-- lexicographic comparison of key rows, column directions from the ORDER BY items -/
def lexLt : List OrdItem → List K → List K → Bool
  | it :: its, a :: as, b :: bs =>
    if K.lt it.dir a b then true else if K.lt it.dir b a then false else lexLt its as bs
  | _, _, _ => false

theorem lexLt_irrefl : ∀ (its : List OrdItem) (r : List K), lexLt its r r = false
  | [], _ => by simp [lexLt]
  | _ :: _, [] => by simp [lexLt]
  | it :: its, a :: as => by simp [lexLt, K.lt_irrefl, lexLt_irrefl its as]

theorem lexLt_trans : ∀ (its : List OrdItem) (r s t : List K), r.length = its.length → s.length = its.length →
    t.length = its.length → lexLt its r s = true → lexLt its s t = true → lexLt its r t = true
  | [], _, _, _, _, _, _, h, _ => by simp [lexLt] at h
  | it :: its, a :: as, b :: bs, c :: cs, hr, hs, ht, h1, h2 => by
    simp only [lexLt] at h1 h2 ⊢
    simp only [List.length_cons, Nat.add_right_cancel_iff] at hr hs ht
    by_cases hab : K.lt it.dir a b = true
    · by_cases hbc : K.lt it.dir b c = true
      · simp [K.lt_trans _ _ _ _ hab hbc]
      · have hcb : K.lt it.dir c b = false := by
          cases hx : K.lt it.dir c b
          · rfl
          · simp [hbc, hx] at h2
        have : b = c := K.lt_total _ _ _ (by simpa using hbc) hcb
        subst this; simp [hab]
    · have hba : K.lt it.dir b a = false := by
        cases hx : K.lt it.dir b a
        · rfl
        · simp [hab, hx] at h1
      have e : a = b := K.lt_total _ _ _ (by simpa using hab) hba
      subst e
      simp only [hab, hba, if_false, Bool.false_eq_true] at h1
      by_cases hac : K.lt it.dir a c = true
      · simp [hac]
      · by_cases hca : K.lt it.dir c a = true
        · simp [hac, hca] at h2
        · simp only [hac, hca, if_false] at h2 ⊢
          exact lexLt_trans its as bs cs hr hs ht h1 h2
  | _ :: _, [], _, _, hr, _, _, _, _ => by simp at hr
  | _ :: _, _ :: _, [], _, _, hs, _, _, _ => by simp at hs
  | _ :: _, _ :: _, _ :: _, [], _, _, ht, _, _ => by simp at ht

/-- rows that are incomparable have equal keys (so incomparability is an equivalence) -/
theorem lexLt_incomp_eq : ∀ (its : List OrdItem) (r s : List K), r.length = its.length → s.length = its.length →
    lexLt its r s = false → lexLt its s r = false → r = s
  | [], [], [], _, _, _, _ => rfl
  | [], _ :: _, _, hr, _, _, _ => by simp at hr
  | [], [], _ :: _, _, hs, _, _ => by simp at hs
  | _ :: _, [], _, hr, _, _, _ => by simp at hr
  | _ :: _, _ :: _, [], _, hs, _, _ => by simp at hs
  | it :: its, a :: as, b :: bs, hr, hs, h1, h2 => by
    simp only [lexLt] at h1 h2
    simp only [List.length_cons, Nat.add_right_cancel_iff] at hr hs
    by_cases hab : K.lt it.dir a b = true
    · simp [hab] at h1
    · by_cases hba : K.lt it.dir b a = true
      · simp [hba] at h2
      · have e : a = b := K.lt_total _ _ _ (by simpa using hab) (by simpa using hba)
        subst e
        simp only [hab, if_false] at h1 h2
        rw [lexLt_incomp_eq its as bs hr hs h1 h2]

/-! ### the key of a sort value -/

def bigInf : Int := 2 ^ 2100
def bigNaN : Int := 2 ^ 2101

def numKey : FVal → Int
  | .nan => bigNaN
  | .pinf => bigInf
  | .ninf => -bigInf
  | .negz => 0
  | .fin n => n

def sk (np : NullPos) : SortVal → K
  | .null => (match np with | .first => .lo | .last => .hi)
  | .int _ f _ => .v (numKey f) []
  | .flt f _ => .v (numKey f) []
  | .dt ns => .v ns []
  | .bool _ => .v 0 []
  | .str s => .v 0 s

/-- every finite double is below 2^2098 units -/
def FVal.valid : FVal → Prop
  | .fin n => -(2 : Int) ^ 2098 < n ∧ n < (2 : Int) ^ 2098
  | _ => True

/-- a number whose float reading is exact: integers must be exactly representable as float64
    (|i| ≤ 2^53 suffices), because Integer-vs-Float comparisons go through float64(i) -/
def SortVal.isNum : SortVal → Prop
  | .int i f _ => f = .fin (i * FVal.unit) ∧ FVal.valid f
  | .flt f _ => FVal.valid f
  | _ => False

/-- two values of one sort-key column are mutually comparable: both numbers, both datetimes,
    both (non-numeric) text, or at least one NULL -/
def Compat (a b : SortVal) : Prop :=
  a = .null ∨ b = .null ∨ (a.isNum ∧ b.isNum) ∨ (∃ x y, a = .dt x ∧ b = .dt y) ∨ (∃ x y, a = .str x ∧ b = .str y)

theorem pow_facts : bigInf = 2 ^ 2100 ∧ bigNaN = 2 ^ 2101 ∧ (2:Int) ^ 2098 < 2 ^ 2100 ∧ (2:Int)^2100 < 2^2101 ∧ (0:Int) < 2 ^ 2098 := by
  refine ⟨rfl, rfl, ?_, ?_, ?_⟩
  · exact_mod_cast Nat.pow_lt_pow_right (a := 2) (by decide) (show 2098 < 2100 by decide)
  · exact_mod_cast Nat.pow_lt_pow_right (a := 2) (by decide) (show 2100 < 2101 by decide)
  · exact Int.pow_pos (by decide)

theorem fltLess_key (x y : FVal) (hx : FVal.valid x) (hy : FVal.valid y) :
    (fltLess x y = .T ↔ numKey x < numKey y) ∧ (fltLess x y = .F ↔ numKey y < numKey x) ∧
    (fltLess x y = .U ↔ numKey x = numKey y) := by
  obtain ⟨e1, e2, h1, h2, h3⟩ := pow_facts
  generalize hA : (2:Int)^2098 = A at *
  generalize hB : (2:Int)^2100 = B at *
  generalize hC : (2:Int)^2101 = C at *
  cases x <;> cases y <;>
    simp [fltLess, FVal.isNaN, FVal.feq, FVal.flt, FVal.num?, numKey, ofB, FVal.valid, e1, e2] at hx hy ⊢ <;>
    (try omega) <;> (try (refine ⟨?_, ?_, ?_⟩ <;> (repeat' split) <;> simp_all <;> omega))


def nk : SortVal → Int
  | .int _ f _ => numKey f
  | .flt f _ => numKey f
  | _ => 0

theorem unit_pos : (0 : Int) < (FVal.unit : Int) := by
  unfold FVal.unit FVal.pow2; exact_mod_cast Nat.pow_pos (by decide)

theorem numLess_key (a b : SortVal) (ha : a.isNum) (hb : b.isNum) :
    (a.less b = .T ↔ nk a < nk b) ∧ (a.less b = .F ↔ nk b < nk a) ∧ (a.less b = .U ↔ nk a = nk b) := by
  cases a <;> cases b <;> simp only [SortVal.isNum] at ha hb <;> try exact absurd ha id
  all_goals try exact absurd hb id
  · rename_i i f s j g t
    obtain ⟨rfl, _⟩ := ha
    obtain ⟨rfl, _⟩ := hb
    simp only [SortVal.less, nk, numKey]
    have hu := unit_pos
    have h1 : i < j ↔ i * (FVal.unit : Int) < j * FVal.unit := (Int.mul_lt_mul_right hu).symm
    have h2 : j < i ↔ j * (FVal.unit : Int) < i * FVal.unit := (Int.mul_lt_mul_right hu).symm
    have h3 : i = j ↔ i * (FVal.unit : Int) = j * FVal.unit := by
      constructor
      · intro e; rw [e]
      · intro e; exact Int.eq_of_mul_eq_mul_right (Int.ne_of_gt hu) e
    rw [← h1, ← h2, ← h3]
    by_cases e : i = j
    · simp [e]
    · by_cases l : i < j
      · simp [e, l, ofB]; omega
      · simp [e, l, ofB]; omega
  · rename_i i f s g t
    simp only [SortVal.less, nk]; exact fltLess_key f g ha.2 hb
  · rename_i f s j g t
    simp only [SortVal.less, nk]; exact fltLess_key f g ha hb.2
  · rename_i f s g t
    simp only [SortVal.less, nk]; exact fltLess_key f g ha hb

theorem sk_num (np : NullPos) (a : SortVal) (ha : a.isNum) : sk np a = .v (nk a) [] := by
  cases a <;> simp only [SortVal.isNum] at ha <;> first | exact absurd ha id | rfl

/-- for two non-NULL comparable values, `Less` is exactly the order of their keys -/
theorem less_key (np : NullPos) (a b : SortVal) (h : Compat a b) (ha : a ≠ .null) (hb : b ≠ .null) :
    (a.less b = .T ↔ K.lt .asc (sk np a) (sk np b) = true) ∧
    (a.less b = .F ↔ K.lt .asc (sk np b) (sk np a) = true) ∧
    (a.less b = .U ↔ sk np a = sk np b) := by
  rcases h with h | h | ⟨h1, h2⟩ | ⟨x, y, rfl, rfl⟩ | ⟨x, y, rfl, rfl⟩
  · exact absurd h ha
  · exact absurd h hb
  · obtain ⟨k1, k2, k3⟩ := numLess_key a b h1 h2
    rw [sk_num np a h1, sk_num np b h2, k1, k2, k3]
    simp [K.lt, bytesLt]
  · simp only [SortVal.less, sk, K.lt, bytesLt]
    by_cases e : x = y
    · simp [e]
    · by_cases l : x < y
      · simp [e, l, ofB]; omega
      · simp [e, l, ofB]; omega
  · simp only [SortVal.less, sk, K.lt, strLess]
    by_cases e : x = y
    · simp [e, bytesLt_irrefl]
    · cases l : bytesLt x y
      · have := bytesLt_total x y e l
        simp [e, l, ofB, this]
      · have := bytesLt_asymm x y l
        simp [e, l, ofB, this]

theorem K.lt_desc_v (n m : Int) (s t : Bytes) : K.lt .desc (.v n s) (.v m t) = K.lt .asc (.v m t) (.v n s) := by
  simp only [K.lt]
  by_cases e : n = m
  · subst e; simp
  · have e' : ¬ m = n := fun x => e x.symm
    simp [e, e']

theorem sk_nonnull (np : NullPos) (a : SortVal) (ha : a ≠ .null) : ∃ n s, sk np a = .v n s := by
  cases a <;> simp [sk] at ha ⊢

/-- one column of SortValues.Less decides exactly as the key order does, otherwise passes on -/
theorem col_step (it : OrdItem) (a b : SortVal) (h : Compat a b) (c : Bool) :
    (match a.less b with
      | .T => (match it.dir with | .asc => true | .desc => false)
      | .F => (match it.dir with | .asc => false | .desc => true)
      | .U =>
        if a.isNull && !b.isNull then (match it.np with | .first => true | .last => false)
        else if !a.isNull && b.isNull then (match it.np with | .first => false | .last => true)
        else c)
    = (if K.lt it.dir (sk it.np a) (sk it.np b) then true
       else if K.lt it.dir (sk it.np b) (sk it.np a) then false else c) := by
  by_cases ha : a = .null
  · subst ha
    by_cases hb : b = .null
    · subst hb
      cases hd : it.dir <;> cases hn : it.np <;> simp [SortVal.less, SortVal.isNull, sk, K.lt]
    · obtain ⟨n, s, e⟩ := sk_nonnull it.np b hb
      have hbn : b.isNull = false := by cases b <;> simp_all [SortVal.isNull]
      have hl : SortVal.less .null b = .U := by cases b <;> rfl
      rw [hl, e]
      cases hd : it.dir <;> cases hn : it.np <;> simp [SortVal.isNull, hbn, sk, K.lt]
  · by_cases hb : b = .null
    · subst hb
      obtain ⟨n, s, e⟩ := sk_nonnull it.np a ha
      have han : a.isNull = false := by cases a <;> simp_all [SortVal.isNull]
      have hl : SortVal.less a .null = .U := by cases a <;> rfl
      rw [hl, e]
      cases hd : it.dir <;> cases hn : it.np <;> simp [SortVal.isNull, han, sk, K.lt]
    · obtain ⟨k1, k2, k3⟩ := less_key it.np a b h ha hb
      obtain ⟨n, s, ea⟩ := sk_nonnull it.np a ha
      obtain ⟨m, t, eb⟩ := sk_nonnull it.np b hb
      have han : a.isNull = false := by cases a <;> simp_all [SortVal.isNull]
      have hbn : b.isNull = false := by cases b <;> simp_all [SortVal.isNull]
      rw [ea, eb] at k1 k2 k3 ⊢
      cases hd : it.dir
      · cases hl : a.less b
        · have h2 := k2.mp hl
          have h1 := K.lt_asymm _ _ _ h2
          simp [h1, h2]
        · have e := k3.mp hl
          rw [e]; simp [K.lt_irrefl, han, hbn]
        · have h1 := k1.mp hl
          simp [h1]
      · rw [K.lt_desc_v, K.lt_desc_v]
        cases hl : a.less b
        · have h2 := k2.mp hl
          simp [h2]
        · have e := k3.mp hl
          rw [e]; simp [K.lt_irrefl, han, hbn]
        · have h1 := k1.mp hl
          have h2 := K.lt_asymm _ _ _ h1
          simp [h1, h2]

def keysOf : List OrdItem → List SortVal → List K
  | it :: its, a :: as => sk it.np a :: keysOf its as
  | _, _ => []

/-- column-wise comparability of two rows -/
def RowsCompat : List SortVal → List SortVal → Prop
  | a :: as, b :: bs => Compat a b ∧ RowsCompat as bs
  | _, _ => True

/-- SortValues.Less is the lexicographic order of the key rows -/
theorem rowsLess_eq_lex : ∀ (its : List OrdItem) (r s : List SortVal), RowsCompat r s →
    rowsLess its r s = lexLt its (keysOf its r) (keysOf its s)
  | [], _, _, _ => by simp [rowsLess, lexLt]
  | _ :: _, [], _, _ => by simp [rowsLess, lexLt, keysOf]
  | _ :: _, _ :: _, [], _ => by simp [rowsLess, lexLt, keysOf]
  | it :: its, a :: as, b :: bs, h => by
    simp only [rowsLess, keysOf, lexLt]
    rw [rowsLess_eq_lex its as bs h.2]
    exact col_step it a b h.1 _

theorem keysOf_length : ∀ (its : List OrdItem) (r : List SortVal), r.length = its.length →
    (keysOf its r).length = its.length
  | [], _, _ => by simp [keysOf]
  | _ :: _, [], h => by simp at h
  | it :: its, a :: as, h => by
    simp only [keysOf, List.length_cons, Nat.add_right_cancel_iff] at h ⊢
    exact keysOf_length its as h

end Csvq
