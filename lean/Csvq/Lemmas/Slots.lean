/- Lemmas about the goroutine-slot bookkeeping (Model/Slots.lean). -/
import Csvq.Model.Slots
namespace Csvq.Slots
open Csvq.Gen

theorem assign_fst_bounds (len minReq cpu count fld : Int) (hc : 1 ≤ cpu) :
    1 ≤ (assignRoutineNumber len minReq cpu count fld).1 ∧ (assignRoutineNumber len minReq cpu count fld).1 ≤ cpu := by
  simp only [assignRoutineNumber]
  constructor <;> (repeat' split) <;> omega

theorem assign_snd (len minReq cpu count fld : Int) :
    (assignRoutineNumber len minReq cpu count fld).2 = count + ((assignRoutineNumber len minReq cpu count fld).1 - 1) := by
  simp only [assignRoutineNumber]

theorem release_eq (c : Int) : release c = if 0 < c then c - 1 else c := by
  simp only [release]

theorem taskDone_eq (g c : Int) : taskDone g c = if 0 < g then (g - 1, release c) else (g, c) := by
  simp only [taskDone]
  split <;> rfl

theorem sum_append (a b : List Int) : sum (a ++ b) = sum a + sum b := by
  induction a with
  | nil => simp [sum]
  | cons x xs ih => simp only [List.cons_append, sum, ih]; omega

theorem sum_set (l : List Int) (k : Nat) (g v : Int) (h : l[k]? = some g) : sum (l.set k v) = sum l - g + v := by
  induction l generalizing k with
  | nil => simp at h
  | cons x xs ih =>
    cases k with
    | zero => simp at h; subst h; simp only [List.set_cons_zero, sum]; omega
    | succ k => simp at h; simp only [List.set_cons_succ, sum, ih k h]; omega

theorem le_sum_of_mem (l : List Int) (h : ∀ g ∈ l, 0 ≤ g) (k : Nat) (g : Int) (hk : l[k]? = some g) : g ≤ sum l := by
  induction l generalizing k with
  | nil => simp at hk
  | cons x xs ih =>
    have hx : 0 ≤ x := h x (List.mem_cons_self)
    have hxs : ∀ g ∈ xs, 0 ≤ g := fun g hg => h g (List.mem_cons_of_mem _ hg)
    have hs : 0 ≤ sum xs := by
      clear ih hk
      induction xs with
      | nil => simp [sum]
      | cons y ys ih2 =>
        have := hxs y List.mem_cons_self
        have := ih2 (fun g hg => h g (by simp at hg ⊢; rcases hg with hg | hg <;> simp [hg])) (fun g hg => hxs g (List.mem_cons_of_mem _ hg))
        simp only [sum]; omega
    cases k with
    | zero => simp at hk; subst hk; simp only [sum]; omega
    | succ k => simp at hk; have := ih hxs k hk; simp only [sum]; omega

theorem inv_step (s : St) (op : Op) (h : Inv s) (hc : CpuOk [op]) : Inv (step s op) := by
  obtain ⟨hsum, hpos⟩ := h
  cases op with
  | new len minReq cpu =>
    have hb := assign_fst_bounds len minReq cpu s.count managerInit.2 hc.1
    have hs := assign_snd len minReq cpu s.count managerInit.2
    simp only [step, taskManagerFields]
    refine ⟨?_, ?_⟩
    · rw [sum_append, hs, hsum]; simp [sum]
    · intro g hg
      rcases List.mem_append.mp hg with hg | hg
      · exact hpos g hg
      · simp at hg; omega
  | done k =>
    simp only [step]
    cases hk : s.mgrs[k]? with
    | none => exact ⟨hsum, hpos⟩
    | some g =>
      have hg0 : 0 ≤ g := hpos g (List.mem_of_getElem? hk)
      have hle := le_sum_of_mem s.mgrs hpos k g hk
      simp only [taskDone_eq, release_eq]
      by_cases hg : 0 < g
      · simp only [if_pos hg]
        have hcnt : 0 < s.count := by omega
        simp only [if_pos hcnt]
        refine ⟨?_, ?_⟩
        · show s.count - 1 = sum (s.mgrs.set k (g - 1))
          rw [sum_set _ _ _ _ hk]; omega
        · intro x hx
          rcases List.mem_or_eq_of_mem_set hx with hx | hx
          · exact hpos x hx
          · omega
      · simp only [if_neg hg]
        refine ⟨?_, ?_⟩
        · show s.count = sum (s.mgrs.set k g)
          rw [sum_set _ _ _ _ hk]; omega
        · intro x hx
          rcases List.mem_or_eq_of_mem_set hx with hx | hx
          · exact hpos x hx
          · omega

theorem flatMap_congr' {α β} {l : List α} {f g : α → List β} (h : ∀ a ∈ l, f a = g a) :
    l.flatMap f = l.flatMap g := by
  induction l with
  | nil => rfl
  | cons x xs ih =>
    simp only [List.flatMap_cons]
    rw [h x List.mem_cons_self, ih (fun a ha => h a (List.mem_cons_of_mem _ ha))]

end Csvq.Slots
