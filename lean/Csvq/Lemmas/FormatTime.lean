/-
  Lemmas for Csvq.Model.FormatTime: the proleptic Gregorian calendar (days ↔ civil date are inverse to each
  other), and time.Parse / value.StrToTime of the RFC 3339 text csvq prints for a datetime.
-/
import Csvq.Model.FormatTime
import Csvq.Lemmas.FormatFloat
namespace Csvq
namespace FT
open PT

/-! ### the 400-year cycle -/

/-- first day of the March-based year `y` of the cycle -/
def yearStart (y : Int) : Int := y * 365 + y / 4 - y / 100

/-- the March-based year `y` ends with a 29 February -/
def LeapNext (y : Int) : Prop := (y + 1) % 4 = 0 ∧ ((y + 1) % 100 ≠ 0 ∨ (y + 1) % 400 = 0)

/-- the stages of `civilFromDays` inside one cycle, as relations -/
theorem cycle (doe n c r1 q r2 n1 a doy yoe : Int) (h0 : 0 ≤ doe) (h1 : doe < 146097)
    (hn : n = doe / 36524) (hc : c = n - n / 4) (hr1 : r1 = doe - 36524 * c) (hq : q = r1 / 1461)
    (hr2 : r2 = r1 - 1461 * q) (hn1 : n1 = r2 / 365) (ha : a = n1 - n1 / 4) (hdoy : doy = r2 - 365 * a)
    (hyoe : yoe = 100 * c + 4 * q + a) :
    0 ≤ yoe ∧ yoe ≤ 399 ∧ 0 ≤ doy ∧ doy ≤ 365 ∧ doe = yearStart yoe + doy ∧ (doy = 365 → LeapNext yoe) := by
  unfold yearStart LeapNext
  have bn : 0 ≤ n ∧ n ≤ 4 := by omega
  have bc : 0 ≤ c ∧ c ≤ 3 := by omega
  have br1 : 0 ≤ r1 ∧ r1 ≤ 36524 := by omega
  have bq : 0 ≤ q ∧ q ≤ 24 := by omega
  have br2 : 0 ≤ r2 ∧ r2 ≤ 1460 := by omega
  have bn1 : 0 ≤ n1 ∧ n1 ≤ 4 := by omega
  have ba : 0 ≤ a ∧ a ≤ 3 := by omega
  have bdoy : 0 ≤ doy ∧ doy ≤ 365 := by omega
  have e4 : yoe / 4 = 25 * c + q := by omega
  have e100 : yoe / 100 = c := by omega
  refine ⟨by omega, by omega, bdoy.1, bdoy.2, by omega, ?_⟩
  intro h365
  have ha3 : a = 3 := by omega
  have hr : r2 = 1460 := by omega
  have hq24 : q = 24 → c = 3 := by
    intro hq24
    have : r1 = 36524 := by omega
    omega
  omega

theorem decomp_lt (a b da db : Int) (ha : 0 ≤ a) (hab : a < b) (hb : b ≤ 399) (hda : 0 ≤ da ∧ da ≤ 365) (hdb : 0 ≤ db)
    (hla : da = 365 → (a + 1) % 4 = 0 ∧ ((a + 1) % 100 ≠ 0 ∨ (a + 1) % 400 = 0))
    (he : a * 365 + a / 4 - a / 100 + da = b * 365 + b / 4 - b / 100 + db) : False := by
  by_cases h1 : b = a + 1
  · subst h1
    by_cases h365 : da = 365
    · have := hla h365
      omega
    · omega
  · omega

/-- a day of the cycle is the day `doy` of the year `yoe` in exactly one way -/
theorem decomp_unique (y1 d1 y2 d2 : Int) (hy1 : 0 ≤ y1 ∧ y1 ≤ 399) (hy2 : 0 ≤ y2 ∧ y2 ≤ 399)
    (hd1 : 0 ≤ d1 ∧ d1 ≤ 365) (hd2 : 0 ≤ d2 ∧ d2 ≤ 365) (hl1 : d1 = 365 → LeapNext y1) (hl2 : d2 = 365 → LeapNext y2)
    (h : yearStart y1 + d1 = yearStart y2 + d2) : y1 = y2 ∧ d1 = d2 := by
  unfold yearStart LeapNext at *
  by_cases e : y1 = y2
  · subst e; exact ⟨rfl, by omega⟩
  · exfalso
    by_cases lt : y1 < y2
    · exact decomp_lt y1 y2 d1 d2 hy1.1 lt hy2.2 hd1 hd2.1 hl1 h
    · exact decomp_lt y2 y1 d2 d1 hy2.1 (by omega) hy1.2 hd2 hd1.1 hl2 h.symm

/-! ### days → civil date → days -/

theorem isLeap_iff (y : Int) : isLeap y = true ↔ (y % 4 = 0 ∧ (y % 100 ≠ 0 ∨ y % 400 = 0)) := by
  simp [isLeap]

/-- month and day of the day `doy` of a March-based year -/
def monthOf (doy : Int) : Int := if (5 * doy + 2) / 153 < 10 then (5 * doy + 2) / 153 + 3 else (5 * doy + 2) / 153 - 9
def dayOf (doy : Int) : Int := doy - (153 * ((5 * doy + 2) / 153) + 2) / 5 + 1

/-- what `civilFromDays` computes: cycle, year of the cycle, day of the year — and the date made of them -/
theorem civil_spec (z : Int) : ∃ era yoe doy : Int, 0 ≤ yoe ∧ yoe ≤ 399 ∧ 0 ≤ doy ∧ doy ≤ 365 ∧ (doy = 365 → LeapNext yoe)
    ∧ z + 719468 = era * 146097 + (yearStart yoe + doy)
    ∧ civilFromDays z = (yoe + era * 400 + (if monthOf doy ≤ 2 then 1 else 0), monthOf doy, dayOf doy) := by
  have hc := cycle (z + 719468 - (z + 719468) / 146097 * 146097) _ _ _ _ _ _ _ _ _ (by omega) (by omega)
    rfl rfl rfl rfl rfl rfl rfl rfl rfl
  obtain ⟨a, b, c, d, e, f⟩ := hc
  exact ⟨(z + 719468) / 146097, _, _, a, b, c, d, f, by omega, rfl⟩

theorem month_range (doy : Int) (h0 : 0 ≤ doy) (h1 : doy ≤ 365) :
    1 ≤ monthOf doy ∧ monthOf doy ≤ 12 ∧ 1 ≤ dayOf doy ∧ dayOf doy ≤ 31
      ∧ (monthOf doy = 4 ∨ monthOf doy = 6 ∨ monthOf doy = 9 ∨ monthOf doy = 11 → dayOf doy ≤ 30)
      ∧ (monthOf doy = 2 → dayOf doy ≤ 29 ∧ (dayOf doy = 29 → doy = 365))
      ∧ (monthOf doy + 9) % 12 = (5 * doy + 2) / 153
      ∧ (153 * ((5 * doy + 2) / 153) + 2) / 5 + dayOf doy - 1 = doy := by
  unfold monthOf dayOf
  have hmp : 0 ≤ (5 * doy + 2) / 153 ∧ (5 * doy + 2) / 153 ≤ 11 := by omega
  generalize hm : (5 * doy + 2) / 153 = mp at *
  have hcases : mp = 0 ∨ mp = 1 ∨ mp = 2 ∨ mp = 3 ∨ mp = 4 ∨ mp = 5 ∨ mp = 6 ∨ mp = 7 ∨ mp = 8 ∨ mp = 9 ∨ mp = 10 ∨ mp = 11 := by
    omega
  rcases hcases with h | h | h | h | h | h | h | h | h | h | h | h <;> subst h <;> simp <;> omega

theorem leapNext_iff (era yoe : Int) : LeapNext yoe ↔ isLeap (yoe + era * 400 + 1) = true := by
  rw [isLeap_iff]; unfold LeapNext
  constructor <;> intro h <;> omega

/-- **days → civil date → days** -/
theorem days_civil_days (z : Int) :
    daysFromCivil (civilFromDays z).1 (civilFromDays z).2.1 (civilFromDays z).2.2 = z := by
  obtain ⟨era, yoe, doy, hy0, hy1, hd0, hd1, _, hz, hc⟩ := civil_spec z
  obtain ⟨m1, m12, _, _, _, _, hmp, hdoy⟩ := month_range doy hd0 hd1
  rw [hc]
  simp only [daysFromCivil]
  rw [hmp, hdoy]
  unfold yearStart at hz
  by_cases hm : monthOf doy ≤ 2
  · simp only [hm, if_true]
    have e : yoe + era * 400 + 1 - 1 = yoe + era * 400 := by omega
    rw [e]
    have e2 : (yoe + era * 400) / 400 = era := by omega
    rw [e2]; omega
  · simp only [hm, if_false]
    have e : yoe + era * 400 + 0 = yoe + era * 400 := by omega
    rw [e]
    have e2 : (yoe + era * 400) / 400 = era := by omega
    rw [e2]; omega

/-- `civilFromDays` returns a date of the calendar -/
theorem civil_valid (z : Int) :
    1 ≤ (civilFromDays z).2.1 ∧ (civilFromDays z).2.1 ≤ 12 ∧ 1 ≤ (civilFromDays z).2.2
      ∧ (civilFromDays z).2.2 ≤ daysIn (civilFromDays z).2.1 (civilFromDays z).1 := by
  obtain ⟨era, yoe, doy, hy0, hy1, hd0, hd1, hl, hz, hc⟩ := civil_spec z
  obtain ⟨m1, m12, d1, d31, h30, h2, _, _⟩ := month_range doy hd0 hd1
  rw [hc]
  refine ⟨m1, m12, d1, ?_⟩
  show dayOf doy ≤ daysIn (monthOf doy) (yoe + era * 400 + (if monthOf doy ≤ 2 then 1 else 0))
  unfold daysIn
  by_cases hm2 : monthOf doy = 2
  · rw [if_pos hm2]
    have hle : monthOf doy ≤ 2 := by omega
    rw [if_pos hle]
    obtain ⟨h29, h365⟩ := h2 hm2
    by_cases hleap : isLeap (yoe + era * 400 + 1) = true
    · rw [if_pos hleap]; exact h29
    · rw [if_neg hleap]
      by_cases hd : dayOf doy = 29
      · exact absurd ((leapNext_iff era yoe).mp (hl (h365 hd))) hleap
      · omega
  · rw [if_neg hm2]
    by_cases h4 : monthOf doy = 4 ∨ monthOf doy = 6 ∨ monthOf doy = 9 ∨ monthOf doy = 11
    · rw [if_pos h4]; exact h30 h4
    · rw [if_neg h4]; exact d31

/-- the day of the March-based year of a date of the calendar, and back -/
theorem month_inverse (m d : Int) (hm : 1 ≤ m ∧ m ≤ 12) (hd : 1 ≤ d ∧ d ≤ 31)
    (h30 : m = 4 ∨ m = 6 ∨ m = 9 ∨ m = 11 → d ≤ 30) (h2 : m = 2 → d ≤ 29) :
    let doy := (153 * ((m + 9) % 12) + 2) / 5 + d - 1
    0 ≤ doy ∧ doy ≤ 365 ∧ monthOf doy = m ∧ dayOf doy = d ∧ (doy = 365 → m = 2 ∧ d = 29) := by
  simp only []
  unfold monthOf dayOf
  have hcases : m = 1 ∨ m = 2 ∨ m = 3 ∨ m = 4 ∨ m = 5 ∨ m = 6 ∨ m = 7 ∨ m = 8 ∨ m = 9 ∨ m = 10 ∨ m = 11 ∨ m = 12 := by
    omega
  rcases hcases with h | h | h | h | h | h | h | h | h | h | h | h <;> subst h <;> simp at h30 h2 ⊢ <;> omega

/-- **civil date → days → civil date**, for every date of the calendar -/
theorem civil_days_civil (y m d : Int) (hm : 1 ≤ m ∧ m ≤ 12) (hd : 1 ≤ d ∧ d ≤ daysIn m y) :
    civilFromDays (daysFromCivil y m d) = (y, m, d) := by
  -- the bounds on the day, spelled out
  have hd31 : d ≤ 31 := by
    have := hd.2; unfold daysIn at this; split at this <;> (try split at this) <;> omega
  have h30 : m = 4 ∨ m = 6 ∨ m = 9 ∨ m = 11 → d ≤ 30 := by
    intro h; have := hd.2; unfold daysIn at this
    rw [if_neg (by omega), if_pos h] at this; exact this
  have h2 : m = 2 → d ≤ 29 ∧ (d = 29 → isLeap y = true) := by
    intro h; have := hd.2; unfold daysIn at this
    rw [if_pos h] at this
    by_cases hl : isLeap y = true
    · rw [if_pos hl] at this; exact ⟨this, fun _ => hl⟩
    · rw [if_neg hl] at this; exact ⟨by omega, fun h29 => by omega⟩
  obtain ⟨hdoy0, hdoy1, hmo, hdo, h365⟩ := month_inverse m d hm ⟨hd.1, hd31⟩ h30 (fun h => (h2 h).1)
  -- the parts daysFromCivil is made of
  generalize hdoy : (153 * ((m + 9) % 12) + 2) / 5 + d - 1 = doy at *
  have hy' : ∃ y', y' = (if m ≤ 2 then y - 1 else y) := ⟨_, rfl⟩
  obtain ⟨y', hy'⟩ := hy'
  have hera : ∃ era, era = y' / 400 := ⟨_, rfl⟩
  obtain ⟨era, hera⟩ := hera
  have hyoe : ∃ yoe, yoe = y' - era * 400 := ⟨_, rfl⟩
  obtain ⟨yoe, hyoe⟩ := hyoe
  have hyr : 0 ≤ yoe ∧ yoe ≤ 399 := by omega
  have hdays : daysFromCivil y m d = era * 146097 + (yearStart yoe + doy) - 719468 := by
    simp only [daysFromCivil]
    rw [← hy', ← hera, ← hyoe, hdoy]
    unfold yearStart; omega
  have hleap : doy = 365 → LeapNext yoe := by
    intro h
    obtain ⟨hm2, hd29⟩ := h365 h
    have hl := (h2 hm2).2 hd29
    have : y = yoe + era * 400 + 1 := by
      have : m ≤ 2 := by omega
      rw [if_pos this] at hy'; omega
    rw [this] at hl
    exact (leapNext_iff era yoe).mpr hl
  -- what civilFromDays finds
  obtain ⟨era2, yoe2, doy2, a0, a1, b0, b1, l2, hz, hc⟩ := civil_spec (daysFromCivil y m d)
  rw [hdays] at hz
  have bs1 : 0 ≤ yearStart yoe + doy ∧ yearStart yoe + doy ≤ 146096 := by unfold yearStart; omega
  have bs2 : 0 ≤ yearStart yoe2 + doy2 ∧ yearStart yoe2 + doy2 ≤ 146096 := by unfold yearStart; omega
  have he : era2 = era := by omega
  subst he
  have hsum : yearStart yoe + doy = yearStart yoe2 + doy2 := by omega
  obtain ⟨ey, ed⟩ := decomp_unique yoe doy yoe2 doy2 hyr ⟨a0, a1⟩ ⟨hdoy0, hdoy1⟩ ⟨b0, b1⟩ hleap l2 hsum
  subst ey; subst ed
  rw [hc, hmo, hdo]
  have : yoe + era2 * 400 + (if m ≤ 2 then 1 else 0) = y := by
    by_cases h : m ≤ 2
    · rw [if_pos h] at hy' ⊢; omega
    · rw [if_neg h] at hy' ⊢; omega
  rw [this]

/-! ### two- and four-digit fields, and reading them -/

/-- the two digits appendInt(b, k, 2) writes for k < 100 -/
def d2 (k : Nat) : Bytes := [48 + k / 10 % 10, 48 + k % 10]

theorem pad2 (k : Nat) (h : k < 100) : pad 2 k = d2 k := by
  unfold pad; rw [if_pos (by omega)]; rfl

theorem pad4 (k : Nat) (h : k < 10000) :
    pad 4 k = [48 + k / 10 / 10 / 10 % 10, 48 + k / 10 / 10 % 10, 48 + k / 10 % 10, 48 + k % 10] := by
  unfold pad; rw [if_pos (by omega)]; rfl

theorem isDig_add (x : Nat) (h : x < 10) : isDig (48 + x) = true := by
  unfold isDig; simp; omega

theorem getnum_d2 (k : Nat) (h : k < 100) (rest : Bytes) (fixed : Bool) :
    getnum ((48 + k / 10 % 10) :: (48 + k % 10) :: rest) fixed = some (k, rest) := by
  have h1 := isDig_add (k / 10 % 10) (by omega)
  have h2 := isDig_add (k % 10) (by omega)
  simp only [getnum, h1, h2, Bool.not_true, Bool.false_eq_true, if_false, if_true]
  congr 2; omega

theorem allDigitsVal_eq (ds : Bytes) : ∀ acc, allDigitsVal ds acc = parseDigits ds acc := by
  induction ds with
  | nil => intro acc; rfl
  | cons b bs ih =>
    intro acc
    unfold allDigitsVal parseDigits
    by_cases h : 48 ≤ b ∧ b ≤ 57
    · have : isDig b = true := by unfold isDig; simp; exact h
      rw [if_pos this, if_pos h]; exact ih _
    · have : ¬ isDig b = true := by unfold isDig; simp; omega
      rw [if_neg this, if_neg h]

theorem step_longYear (k : Nat) (h : k < 10000) (rest : Bytes) (a : Acc) :
    stdStep .longYear ((48 + k / 10 / 10 / 10 % 10) :: (48 + k / 10 / 10 % 10) :: (48 + k / 10 % 10) :: (48 + k % 10) :: rest) a
      = some ({ a with year := (k : Int) }, rest) := by
  have hv : allDigitsVal [48 + k / 10 / 10 / 10 % 10, 48 + k / 10 / 10 % 10, 48 + k / 10 % 10, 48 + k % 10] 0 = some k := by
    simp only [allDigitsVal, isDig_add _ (show k / 10 / 10 / 10 % 10 < 10 by omega), isDig_add _ (show k / 10 / 10 % 10 < 10 by omega),
      isDig_add _ (show k / 10 % 10 < 10 by omega), isDig_add _ (show k % 10 < 10 by omega), if_true]
    congr 1; omega
  have hat : atoi [48 + k / 10 / 10 / 10 % 10, 48 + k / 10 / 10 % 10, 48 + k / 10 % 10, 48 + k % 10] = some (k : Int) := by
    unfold atoi
    split
    · rename_i heq; injection heq with h1 _; omega
    · rename_i heq; injection heq with h1 _; omega
    · rw [hv]; rfl
  unfold stdStep
  simp only [List.length_cons, List.take_succ_cons, List.take_zero, List.drop_succ_cons, List.drop_zero]
  rw [if_neg (by omega), isDig_add _ (by omega)]
  simp only [Bool.not_true, Bool.false_eq_true, if_false, hat]

theorem skip_nil (n : Nat) (v : Bytes) : skip (n + 1) v [] = some v := by
  unfold skip; rfl

theorem skip_lit (n : Nat) (p : Nat) (hp : p ≠ 32) (v : Bytes) : skip (n + 2) (p :: v) [p] = some v := by
  have h : skip (n + 2) (p :: v) [p] = skip (n + 1) v [] := by
    conv => lhs; unfold skip
    simp [hp]
  rw [h, skip_nil]

/-! ### the fraction and the zone -/

theorem fracDigits_spec : ∀ (w v : Nat), v < 10 ^ w → v ≠ 0 →
    fracDigits w v ≠ [] ∧ (∀ b ∈ fracDigits w v, FF.IsDig b) ∧ (fracDigits w v).length ≤ w ∧
    ∃ val, parseDigits (fracDigits w v) 0 = some val ∧ val * 10 ^ (w - (fracDigits w v).length) = v := by
  intro w
  induction w with
  | zero => intro v hv h0; simp at hv; exact absurd hv h0
  | succ w ih =>
    intro v hv h0
    unfold fracDigits
    by_cases hz : v % 10 = 0
    · rw [if_pos hz]
      have hv' : v / 10 < 10 ^ w := by
        rw [Nat.pow_succ] at hv
        exact Nat.div_lt_of_lt_mul (by rw [Nat.mul_comm]; exact hv)
      obtain ⟨a, b, c, val, d, e⟩ := ih (v / 10) hv' (by omega)
      refine ⟨a, b, by omega, val, d, ?_⟩
      have : w + 1 - (fracDigits w (v / 10)).length = (w - (fracDigits w (v / 10)).length) + 1 := by omega
      rw [this, Nat.pow_succ, ← Nat.mul_assoc, e]; omega
    · rw [if_neg hz]
      have hl := FF.padDigits_length (w + 1) v []
      refine ⟨?_, FF.padDigits_digits _ _ [] (by simp), by rw [hl]; simp, v, ?_, ?_⟩
      · intro h; rw [h] at hl; simp at hl
      · rw [FF.parseDigits_padDigits (w + 1) v [] 0 hv]; simp [parseDigits]
      · rw [hl]; simp

theorem takeWhile_digits (ds : Bytes) (c : Nat) (r : Bytes) (hd : ∀ b ∈ ds, FF.IsDig b) (hc : isDig c = false) :
    (ds ++ c :: r).takeWhile isDig = ds := by
  induction ds with
  | nil => simp [List.takeWhile, hc]
  | cons b bs ih =>
    have hb : isDig b = true := by
      have := hd b (by simp); unfold FF.IsDig at this; unfold isDig; simp; exact this
    simp only [List.cons_append, List.takeWhile_cons, hb, if_true]
    rw [ih (fun x hx => hd x (by simp [hx]))]

/-- the zone text begins with `Z`, `+` or `-` -/
theorem zoneText_head (off : Int) : ∃ c r, zoneText off = c :: r ∧ isDig c = false ∧ (c = 90 ∨ c = 43 ∨ c = 45) := by
  unfold zoneText
  by_cases h : off = 0
  · rw [if_pos h]; exact ⟨90, [], rfl, by decide, Or.inl rfl⟩
  · rw [if_neg h]
    by_cases hn : off ≤ -60
    · simp only [hn, if_true]; exact ⟨45, _, rfl, by decide, Or.inr (Or.inr rfl)⟩
    · simp only [hn, if_false]; exact ⟨43, _, rfl, by decide, Or.inr (Or.inl rfl)⟩

theorem step_frac (nsec : Nat) (h1 : nsec < 10 ^ 9) (off : Int) (a : Acc) (ha : a.nsec = 0) :
    stdStep .frac9 (fracText nsec ++ zoneText off) a = some ({ a with nsec := nsec }, zoneText off) := by
  obtain ⟨c, r, hz, hc, hc3⟩ := zoneText_head off
  unfold fracText
  by_cases h0 : nsec = 0
  · subst h0
    rw [if_pos rfl, List.nil_append, hz]
    have hcp : commaOrPeriod c = false := by rcases hc3 with h | h | h <;> subst h <;> decide
    have hA : ({ a with nsec := 0 } : Acc) = a := by cases a; simp at ha; subst ha; rfl
    rw [hA]
    cases r with
    | nil => simp [stdStep]
    | cons d r' => simp [stdStep, hcp]
  · rw [if_neg h0]
    obtain ⟨hne, hdig, hlen, val, hval, hnum⟩ := fracDigits_spec 9 nsec h1 h0
    generalize hds : fracDigits 9 nsec = ds at *
    cases ds with
    | nil => exact absurd rfl hne
    | cons d ds' =>
      have hd : isDig d = true := by
        have := hdig d (by simp); unfold FF.IsDig at this; unfold isDig; simp; exact this
      have htw : ((d :: ds') ++ zoneText off).takeWhile isDig = d :: ds' := by
        rw [hz]; exact takeWhile_digits _ c r hdig hc
      unfold stdStep
      simp only [List.cons_append, List.drop_succ_cons, List.drop_zero]
      have hcp : commaOrPeriod 46 = true := by decide
      simp only [hcp, hd, Bool.not_true, Bool.or_self, Bool.false_eq_true, if_false]
      have htw' : (d :: (ds' ++ zoneText off)).takeWhile isDig = d :: ds' := htw
      rw [htw']
      have htake : (d :: ds').take 9 = d :: ds' := List.take_of_length_le hlen
      rw [htake, allDigitsVal_eq, hval]
      simp only []
      have hdrop : (46 :: d :: (ds' ++ zoneText off)).drop (1 + (d :: ds').length) = zoneText off := by
        have : 1 + (d :: ds').length = (46 :: d :: ds').length := by simp; omega
        rw [this]
        exact List.drop_left (l₁ := 46 :: d :: ds') (l₂ := zoneText off)
      rw [hdrop, hnum]

/-- the zone text of an offset of whole minutes below 25 hours, spelled out -/
theorem zoneText_off (off : Int) (h0 : off ≠ 0) (h60 : off % 60 = 0) (hb : -90000 < off ∧ off < 90000) :
    zoneText off = (if off ≤ -60 then 45 else 43) :: (48 + off.natAbs / 60 / 60 / 10 % 10) :: (48 + off.natAbs / 60 / 60 % 10)
      :: 58 :: (48 + off.natAbs / 60 % 60 / 10 % 10) :: [48 + off.natAbs / 60 % 60 % 10] := by
  unfold zoneText
  rw [if_neg h0]
  simp only []
  rw [pad2 _ (by omega), pad2 _ (by omega)]
  rfl

theorem step_zone (off : Int) (h60 : off % 60 = 0) (hb : -90000 < off ∧ off < 90000) (a : Acc) :
    stdStep .isoColonTZ (zoneText off) a = some ({ a with z := if off = 0 then .utc else .offset off }, []) := by
  have hstd : (Std.isoColonTZ == Std.isoColonTZ) = true := by decide
  by_cases h0 : off = 0
  · subst h0
    simp [stdStep, zoneText, hstd]
  · rw [zoneText_off off h0 h60 hb, if_neg h0]
    have hrel : ((off.natAbs / 60 / 60 * 60 + off.natAbs / 60 % 60) * 60 : Nat) = off.natAbs := by omega
    have hh24 : off.natAbs / 60 / 60 ≤ 24 := by omega
    have hm60 : off.natAbs / 60 % 60 < 60 := by omega
    generalize off.natAbs / 60 / 60 = hh at *
    generalize off.natAbs / 60 % 60 = mm at *
    have g1 := getnum_d2 hh (by omega) [] true
    have g2 := getnum_d2 mm (by omega) [] true
    have hc : ¬ (24 < hh ∨ 60 < mm) := by omega
    by_cases hn : off ≤ -60
    · simp only [hn, if_true]
      simp [stdStep, g1, g2, hc]
      omega
    · simp only [hn, if_false]
      simp [stdStep, g1, g2, hc]
      omega

/-! ### the chunk loop of time.Parse on the printed text -/

theorem step_month (k : Nat) (h : 1 ≤ k ∧ k ≤ 12) (rest : Bytes) (a : Acc) :
    stdStep .zeroMonth ((48 + k / 10 % 10) :: (48 + k % 10) :: rest) a = some ({ a with month := (k : Int) }, rest) := by
  have hstd : (Std.zeroMonth == Std.zeroMonth) = true := by decide
  have g := getnum_d2 k (by omega) rest true
  have hc : ¬ (k = 0 ∨ 12 < k) := by omega
  simp [stdStep, g, hc]

theorem step_day (k : Nat) (h : k < 100) (rest : Bytes) (a : Acc) :
    stdStep .zeroDay ((48 + k / 10 % 10) :: (48 + k % 10) :: rest) a = some ({ a with day := (k : Int) }, rest) := by
  have g := getnum_d2 k h rest true
  simp [stdStep, g]

theorem step_hour (k : Nat) (h : k < 24) (rest : Bytes) (a : Acc) :
    stdStep .hour ((48 + k / 10 % 10) :: (48 + k % 10) :: rest) a = some ({ a with hour := k }, rest) := by
  have g := getnum_d2 k (by omega) rest false
  have hc : ¬ (24 ≤ k) := by omega
  simp [stdStep, g, hc]

theorem step_minute (k : Nat) (h : k < 60) (rest : Bytes) (a : Acc) :
    stdStep .zeroMinute ((48 + k / 10 % 10) :: (48 + k % 10) :: rest) a = some ({ a with min := k }, rest) := by
  have g := getnum_d2 k (by omega) rest true
  have hc : ¬ (60 ≤ k) := by omega
  simp [stdStep, g, hc]

theorem step_second (k : Nat) (h : k < 60) (rest : Bytes) (a : Acc) :
    stdStep .zeroSecond ((48 + k / 10 % 10) :: (48 + k % 10) :: rest) a = some ({ a with sec := k }, rest) := by
  have g := getnum_d2 k (by omega) rest true
  have hc : ¬ (60 ≤ k) := by omega
  simp [stdStep, g, hc]

theorem run_step (pre : Bytes) (std : Std) (rest : Layout) (value value' value'' : Bytes) (a a' : Acc)
    (hs : skip (pre.length + value.length + 2) value pre = some value')
    (ht : stdStep std value' a = some (a', value'')) :
    runLayout ((pre, some std) :: rest) value a = runLayout rest value'' a' := by
  simp only [runLayout, hs, ht]

theorem lRFC3339Nano_eq : lRFC3339Nano =
    [([], some .longYear), ([45], some .zeroMonth), ([45], some .zeroDay), ([84], some .hour), ([58], some .zeroMinute),
     ([58], some .zeroSecond), ([], some .frac9), ([], some .isoColonTZ), ([], none)] := by decide

/-- time.Parse(RFC3339Nano) on the text made of the fields: the fields come back -/
theorem parse_fields (y mo d h mi s nsec : Nat) (off : Int) (hy : y < 10000) (hmo : 1 ≤ mo ∧ mo ≤ 12) (hd : d < 100)
    (hh : h < 24) (hmi : mi < 60) (hs : s < 60) (hn : nsec < 10 ^ 9) (h60 : off % 60 = 0) (hb : -90000 < off ∧ off < 90000) :
    runLayout lRFC3339Nano
      ((48 + y / 10 / 10 / 10 % 10) :: (48 + y / 10 / 10 % 10) :: (48 + y / 10 % 10) :: (48 + y % 10) :: 45
        :: (48 + mo / 10 % 10) :: (48 + mo % 10) :: 45 :: (48 + d / 10 % 10) :: (48 + d % 10) :: 84
        :: (48 + h / 10 % 10) :: (48 + h % 10) :: 58 :: (48 + mi / 10 % 10) :: (48 + mi % 10) :: 58
        :: (48 + s / 10 % 10) :: (48 + s % 10) :: (fracText nsec ++ zoneText off)) {}
      = some { year := (y : Int), month := (mo : Int), day := (d : Int), hour := h, min := mi, sec := s, nsec := nsec,
               z := if off = 0 then .utc else .offset off } := by
  rw [lRFC3339Nano_eq]
  rw [run_step [] .longYear _ _ _ _ _ _ (skip_nil _ _) (step_longYear y hy _ _)]
  rw [run_step [45] .zeroMonth _ _ _ _ _ _ (skip_lit _ 45 (by decide) _) (step_month mo hmo _ _)]
  rw [run_step [45] .zeroDay _ _ _ _ _ _ (skip_lit _ 45 (by decide) _) (step_day d hd _ _)]
  rw [run_step [84] .hour _ _ _ _ _ _ (skip_lit _ 84 (by decide) _) (step_hour h hh _ _)]
  rw [run_step [58] .zeroMinute _ _ _ _ _ _ (skip_lit _ 58 (by decide) _) (step_minute mi hmi _ _)]
  rw [run_step [58] .zeroSecond _ _ _ _ _ _ (skip_lit _ 58 (by decide) _) (step_second s hs _ _)]
  rw [run_step [] .frac9 _ _ _ _ _ _ (skip_nil _ _) (step_frac nsec hn off _ rfl)]
  rw [run_step [] .isoColonTZ _ _ _ _ _ _ (skip_nil _ _) (step_zone off h60 hb _)]
  simp [runLayout, skip]

theorem instant_eq (y m d : Int) (h mi s nsec : Nat) (off : Int) (hm : 1 ≤ m) (hd : 1 ≤ d ∧ d ≤ daysIn m y) :
    Acc.instant { year := y, month := m, day := d, hour := h, min := mi, sec := s, nsec := nsec,
                  z := if off = 0 then .utc else .offset off }
      = some ((daysFromCivil y m d * 86400 + ((h * 3600 + mi * 60 + s : Nat) : Int) - off) * 1000000000 + nsec) := by
  unfold Acc.instant
  have h1 : ¬ m < 0 := by omega
  have h2 : ¬ d < 0 := by omega
  have h3 : ¬ (d < 1 ∨ d > daysIn m y) := by omega
  simp only [h1, h2, if_false, h3]
  by_cases h0 : off = 0
  · subst h0; simp
  · simp [h0]

/-! ### the printed text, field by field -/

/-- the nineteen bytes `YYYY-MM-DDThh:mm:ss` -/
def pre19 (y mo d h mi s : Nat) : Bytes :=
  [48 + y / 10 / 10 / 10 % 10, 48 + y / 10 / 10 % 10, 48 + y / 10 % 10, 48 + y % 10, 45,
   48 + mo / 10 % 10, 48 + mo % 10, 45, 48 + d / 10 % 10, 48 + d % 10, 84,
   48 + h / 10 % 10, 48 + h % 10, 58, 48 + mi / 10 % 10, 48 + mi % 10, 58, 48 + s / 10 % 10, 48 + s % 10]

/-- inside the range the text is made of fixed-width fields, and the fields determine the instant -/
theorem fmtTime_fields (ns off : Int) (hy0 : 0 ≤ localYear ns off) (hy1 : localYear ns off ≤ 9999) :
    ∃ y mo d h mi s nsec : Nat, y < 10000 ∧ (1 ≤ mo ∧ mo ≤ 12) ∧ d < 100 ∧ h < 24 ∧ mi < 60 ∧ s < 60 ∧ nsec < 10 ^ 9
      ∧ fmtTime ns off = pre19 y mo d h mi s ++ (fracText nsec ++ zoneText off)
      ∧ (1 ≤ (d : Int) ∧ (d : Int) ≤ daysIn (mo : Int) (y : Int))
      ∧ (daysFromCivil (y : Int) (mo : Int) (d : Int) * 86400 + ((h * 3600 + mi * 60 + s : Nat) : Int) - off) * 1000000000 + (nsec : Int) = ns := by
  unfold localYear at hy0 hy1
  have hv := civil_valid ((ns / 1000000000 + off) / 86400)
  have hdcd := days_civil_days ((ns / 1000000000 + off) / 86400)
  have hfmt : fmtTime ns off =
      yearText (civilFromDays ((ns / 1000000000 + off) / 86400)).1 ++ 45 :: (pad 2 (civilFromDays ((ns / 1000000000 + off) / 86400)).2.1.toNat
        ++ 45 :: (pad 2 (civilFromDays ((ns / 1000000000 + off) / 86400)).2.2.toNat ++ 84 :: (pad 2 (((ns / 1000000000 + off) % 86400).toNat / 3600)
        ++ 58 :: (pad 2 (((ns / 1000000000 + off) % 86400).toNat / 60 % 60) ++ 58 :: (pad 2 (((ns / 1000000000 + off) % 86400).toNat % 60)
        ++ (fracText (ns % 1000000000).toNat ++ zoneText off)))))) := rfl
  generalize civilFromDays ((ns / 1000000000 + off) / 86400) = c at *
  obtain ⟨cy, cm, cd⟩ := c
  simp only [] at hy0 hy1 hv hdcd hfmt
  have hd31 : cd ≤ 31 := by
    have := hv.2.2.2; unfold daysIn at this; split at this <;> (try split at this) <;> omega
  have hsod : ((ns / 1000000000 + off) % 86400).toNat < 86400 := by omega
  refine ⟨cy.natAbs, cm.toNat, cd.toNat, ((ns / 1000000000 + off) % 86400).toNat / 3600,
    ((ns / 1000000000 + off) % 86400).toNat / 60 % 60, ((ns / 1000000000 + off) % 86400).toNat % 60, (ns % 1000000000).toNat,
    by omega, by omega, by omega, by omega, by omega, by omega, by omega, ?_, ?_, ?_⟩
  · rw [hfmt]
    unfold yearText
    rw [if_neg (by omega), pad4 _ (by omega), pad2 _ (by omega), pad2 _ (by omega), pad2 _ (by omega), pad2 _ (by omega), pad2 _ (by omega)]
    rfl
  · have e1 : ((cy.natAbs : Nat) : Int) = cy := by omega
    have e2 : ((cm.toNat : Nat) : Int) = cm := by omega
    have e3 : ((cd.toNat : Nat) : Int) = cd := by omega
    rw [e1, e2, e3]; exact ⟨hv.2.2.1, hv.2.2.2⟩
  · have e1 : ((cy.natAbs : Nat) : Int) = cy := by omega
    have e2 : ((cm.toNat : Nat) : Int) = cm := by omega
    have e3 : ((cd.toNat : Nat) : Int) = cd := by omega
    rw [e1, e2, e3, hdcd]
    omega

/-! ### the dispatch of StrToTime and option.TrimSpace on that text -/

theorem getD_suffix (P Z : Bytes) (i : Nat) (hi : i < Z.length) :
    (P ++ Z).getD ((P ++ Z).length - (Z.length - i)) 0 = Z.getD i 0 := by
  have e : (P ++ Z).length - (Z.length - i) = P.length + i := by rw [List.length_append]; omega
  rw [e, List.getD_eq_getElem?_getD, List.getD_eq_getElem?_getD, List.getElem?_append_right (by omega)]
  congr 2; omega

theorem zoneText_len (off : Int) (h60 : off % 60 = 0) (hb : -90000 < off ∧ off < 90000) :
    (off = 0 ∧ zoneText off = [90]) ∨ (off ≠ 0 ∧ (zoneText off).length = 6 ∧ ((zoneText off).getD 0 0 = 43 ∨ (zoneText off).getD 0 0 = 45)
      ∧ ∃ e, (zoneText off).getLast? = some e ∧ FF.IsDig e) := by
  by_cases h0 : off = 0
  · left; subst h0; exact ⟨rfl, rfl⟩
  · right
    rw [zoneText_off off h0 h60 hb]
    refine ⟨h0, rfl, ?_, 48 + off.natAbs / 60 % 60 % 10, ?_, ?_⟩
    · by_cases hn : off ≤ -60 <;> simp [hn]
    · simp [List.getLast?]
    · unfold FF.IsDig; omega

theorem trimSpace_id (s : Bytes) (b e : Nat) (t : Bytes) (hs : s = b :: t) (hl : s.getLast? = some e)
    (hb : PF.byteIsSpace b = false) (he : PF.byteIsSpace e = false) : PF.trimSpace s = s := by
  unfold PF.trimSpace
  rw [hl]; subst hs
  simp [hb, he]

theorem byteIsSpace_dig (b : Nat) (h : FF.IsDig b ∨ b = 90) : PF.byteIsSpace b = false := by
  unfold FF.IsDig at h
  unfold PF.byteIsSpace isAsciiSpace
  simp; omega

theorem dispatch_T (a0 a1 a2 a3 a5 a6 a7 a8 a9 : Nat) (rest : Bytes) (h0 : isDig a0 = true) (hlen : 1 ≤ rest.length)
    (hend : (a0 :: a1 :: a2 :: a3 :: 45 :: a5 :: a6 :: a7 :: a8 :: a9 :: 84 :: rest).getD
              ((a0 :: a1 :: a2 :: a3 :: 45 :: a5 :: a6 :: a7 :: a8 :: a9 :: 84 :: rest).length - 6) 0 = 43
          ∨ (a0 :: a1 :: a2 :: a3 :: 45 :: a5 :: a6 :: a7 :: a8 :: a9 :: 84 :: rest).getD
              ((a0 :: a1 :: a2 :: a3 :: 45 :: a5 :: a6 :: a7 :: a8 :: a9 :: 84 :: rest).length - 6) 0 = 45
          ∨ (a0 :: a1 :: a2 :: a3 :: 45 :: a5 :: a6 :: a7 :: a8 :: a9 :: 84 :: rest).getD
              ((a0 :: a1 :: a2 :: a3 :: 45 :: a5 :: a6 :: a7 :: a8 :: a9 :: 84 :: rest).length - 1) 0 = 90) :
    strToTimeTrimmed (a0 :: a1 :: a2 :: a3 :: 45 :: a5 :: a6 :: a7 :: a8 :: a9 :: 84 :: rest)
      = timeParse lRFC3339Nano (a0 :: a1 :: a2 :: a3 :: 45 :: a5 :: a6 :: a7 :: a8 :: a9 :: 84 :: rest) := by
  generalize hT : (a0 :: a1 :: a2 :: a3 :: 45 :: a5 :: a6 :: a7 :: a8 :: a9 :: 84 :: rest) = T at *
  have hl : T.length = rest.length + 11 := by rw [← hT]; simp
  have g0 : T.getD 0 0 = a0 := by rw [← hT]; rfl
  have g4 : T.getD 4 0 = 45 := by rw [← hT]; rfl
  have g10 : T.getD 10 0 = 84 := by rw [← hT]; rfl
  unfold strToTimeTrimmed
  rw [if_neg (by omega), g0, h0]
  simp only [Bool.not_true, Bool.false_eq_true, if_false, g4, g10, if_true]
  rw [if_neg (by omega), if_neg (by omega)]
  rw [if_pos hend]

/-- **value.StrToTime reads the text csvq prints for a datetime as the same instant** (model functions) -/
theorem strToTime_fmtTime (ns off : Int) (hy0 : 0 ≤ localYear ns off) (hy1 : localYear ns off ≤ 9999)
    (h60 : off % 60 = 0) (hb : -90000 < off ∧ off < 90000) : strToTime (fmtTime ns off) = some ns := by
  obtain ⟨y, mo, d, h, mi, s, nsec, hy, hmo, hd, hh, hmi, hs, hn, htxt, hval, hinst⟩ := fmtTime_fields ns off hy0 hy1
  rw [htxt]
  have hparse : timeParse lRFC3339Nano (pre19 y mo d h mi s ++ (fracText nsec ++ zoneText off)) = some ns := by
    unfold timeParse
    have hp := parse_fields y mo d h mi s nsec off hy hmo hd hh hmi hs hn h60 hb
    have hform : pre19 y mo d h mi s ++ (fracText nsec ++ zoneText off) =
      ((48 + y / 10 / 10 / 10 % 10) :: (48 + y / 10 / 10 % 10) :: (48 + y / 10 % 10) :: (48 + y % 10) :: 45
        :: (48 + mo / 10 % 10) :: (48 + mo % 10) :: 45 :: (48 + d / 10 % 10) :: (48 + d % 10) :: 84
        :: (48 + h / 10 % 10) :: (48 + h % 10) :: 58 :: (48 + mi / 10 % 10) :: (48 + mi % 10) :: 58
        :: (48 + s / 10 % 10) :: (48 + s % 10) :: (fracText nsec ++ zoneText off)) := rfl
    rw [hform, hp]
    simp only []
    rw [instant_eq _ _ _ _ _ _ _ _ (by omega) hval, hinst]
  -- the last byte and the byte six from the end
  obtain ⟨c, r, hzc, _, _⟩ := zoneText_head off
  have hzne : zoneText off ≠ [] := by rw [hzc]; simp
  have hassoc : pre19 y mo d h mi s ++ (fracText nsec ++ zoneText off) = (pre19 y mo d h mi s ++ fracText nsec) ++ zoneText off := by
    rw [List.append_assoc]
  have hlast : ∃ e, (pre19 y mo d h mi s ++ (fracText nsec ++ zoneText off)).getLast? = some e ∧ (FF.IsDig e ∨ e = 90) := by
    rcases zoneText_len off h60 hb with ⟨_, hz⟩ | ⟨_, _, _, e, he, hed⟩
    · exact ⟨90, by rw [hassoc, hz]; simp, Or.inr rfl⟩
    · exact ⟨e, by rw [hassoc, List.getLast?_append, he]; rfl, Or.inl hed⟩
  obtain ⟨e, hle, hed⟩ := hlast
  have htrim : PF.trimSpace (pre19 y mo d h mi s ++ (fracText nsec ++ zoneText off))
      = pre19 y mo d h mi s ++ (fracText nsec ++ zoneText off) :=
    trimSpace_id _ (48 + y / 10 / 10 / 10 % 10) e _ rfl hle
      (byteIsSpace_dig _ (Or.inl (by unfold FF.IsDig; omega))) (byteIsSpace_dig _ hed)
  unfold strToTime
  rw [htrim]
  have hend : (pre19 y mo d h mi s ++ (fracText nsec ++ zoneText off)).getD
        ((pre19 y mo d h mi s ++ (fracText nsec ++ zoneText off)).length - 6) 0 = 43
      ∨ (pre19 y mo d h mi s ++ (fracText nsec ++ zoneText off)).getD
        ((pre19 y mo d h mi s ++ (fracText nsec ++ zoneText off)).length - 6) 0 = 45
      ∨ (pre19 y mo d h mi s ++ (fracText nsec ++ zoneText off)).getD
        ((pre19 y mo d h mi s ++ (fracText nsec ++ zoneText off)).length - 1) 0 = 90 := by
    rw [hassoc]
    rcases zoneText_len off h60 hb with ⟨_, hz⟩ | ⟨_, hl6, hsign, _⟩
    · right; right
      have := getD_suffix (pre19 y mo d h mi s ++ fracText nsec) (zoneText off) 0 (by rw [hz]; simp)
      rw [hz] at this ⊢
      simp at this ⊢
    · have := getD_suffix (pre19 y mo d h mi s ++ fracText nsec) (zoneText off) 0 (by omega)
      rw [hl6] at this
      rw [this]
      rcases hsign with h | h
      · left; exact h
      · right; left; exact h
  have hdisp := dispatch_T (48 + y / 10 / 10 / 10 % 10) (48 + y / 10 / 10 % 10) (48 + y / 10 % 10) (48 + y % 10)
    (48 + mo / 10 % 10) (48 + mo % 10) 45 (48 + d / 10 % 10) (48 + d % 10)
    ((48 + h / 10 % 10) :: (48 + h % 10) :: 58 :: (48 + mi / 10 % 10) :: (48 + mi % 10) :: 58
        :: (48 + s / 10 % 10) :: (48 + s % 10) :: (fracText nsec ++ zoneText off))
    (isDig_add _ (by omega)) (by simp) hend
  exact hdisp.trans hparse

/-! ### the bytes of the text -/

/-- digits, '-', ':', 'T', '.', 'Z', '+' -/
def TimeByte (b : Nat) : Prop := FF.IsDig b ∨ b = 45 ∨ b = 58 ∨ b = 84 ∨ b = 46 ∨ b = 90 ∨ b = 43

theorem pad_digits (w n : Nat) : ∀ b ∈ pad w n, FF.IsDig b := by
  intro b hb
  unfold pad at hb
  split at hb
  · exact FF.padDigits_digits _ _ [] (by simp) b hb
  · exact FF.decNat_digits n b hb

theorem fracDigits_digits : ∀ (w v : Nat), ∀ b ∈ fracDigits w v, FF.IsDig b := by
  intro w
  induction w with
  | zero => intro v b hb; simp [fracDigits] at hb
  | succ w ih =>
    intro v b hb
    unfold fracDigits at hb
    split at hb
    · exact ih _ b hb
    · exact FF.padDigits_digits _ _ [] (by simp) b hb

theorem fmtTime_bytes (ns off : Int) : ∀ b ∈ fmtTime ns off, TimeByte b := by
  intro b hb
  have dig : ∀ {w n}, b ∈ pad w n → TimeByte b := fun h => Or.inl (pad_digits _ _ b h)
  unfold fmtTime at hb
  simp only [List.mem_append, List.mem_cons] at hb
  unfold TimeByte
  rcases hb with hb | hb | hb | hb | hb | hb | hb | hb | hb | hb | hb | hb | hb
  · unfold yearText at hb
    split at hb
    · rcases List.mem_cons.mp hb with h | h
      · right; left; exact h
      · exact dig h
    · exact dig hb
  · right; left; exact hb
  · exact dig hb
  · right; left; exact hb
  · exact dig hb
  · right; right; right; left; exact hb
  · exact dig hb
  · right; right; left; exact hb
  · exact dig hb
  · right; right; left; exact hb
  · exact dig hb
  · unfold fracText at hb
    split at hb
    · simp at hb
    · rcases List.mem_cons.mp hb with h | h
      · right; right; right; right; left; exact h
      · exact Or.inl (fracDigits_digits _ _ b h)
  · unfold zoneText at hb
    split at hb
    · simp at hb; right; right; right; right; right; left; exact hb
    · simp only [List.mem_cons, List.mem_append] at hb
      rcases hb with h | h | h | h
      · split at h
        · right; left; exact h
        · right; right; right; right; right; right; exact h
      · exact dig h
      · right; right; left; exact h
      · exact dig h

end FT
end Csvq
