/-
  Helper lemmas for Props/C06Zone.lean: the zone fields of time.parse are touched by zone items only; the layout
  conversion keeps literal runes; the date items on a text that continues.
-/
import Csvq.Model.ZoneProfile
namespace Csvq.TP
open Csvq

theorem hasZoneItem_cons (ch : Bytes × Option Std) (l : Layout) :
    hasZoneItem (ch :: l) = ((match ch.2 with | some s => s.isZone | none => false) || hasZoneItem l) := by
  rfl

/-- a layout without a zone item leaves the zone fields as they were -/
theorem runLayout_zone_unchanged (L : Layout) (h : hasZoneItem L = false) :
    ∀ v c z r, runLayout L v c z = some r → r.2 = z := by
  induction L with
  | nil =>
    intro v c z r hr
    simp only [runLayout] at hr
    split at hr
    · injection hr with hr; rw [← hr]
    · cases hr
  | cons ch rest ih =>
    obtain ⟨pre, std⟩ := ch
    rw [hasZoneItem_cons] at h
    have hrest : hasZoneItem rest = false := by
      cases hh : hasZoneItem rest
      · rfl
      · rw [hh] at h; simp at h
    intro v c z r hr
    simp only [runLayout] at hr
    split at hr
    · cases hr
    · cases std with
      | none =>
        dsimp only at hr
        split at hr
        · injection hr with hr; rw [← hr]
        · cases hr
      | some st =>
        have hst : st.isZone = false := by
          cases hh : st.isZone
          · rfl
          · simp [hh] at h
        dsimp only at hr
        rw [if_neg (by simp [hst])] at hr
        split at hr
        · exact ih hrest _ _ _ _ hr
        · cases hr

/-- the reading of a text that names no zone: the wall clock, moved by the location's offset -/
theorem instantOf_zoneless (secs : Int) (nsec : Nat) (zone : ZoneEnv) :
    instantOf secs nsec {} (some zone) = instantOf secs nsec {} (some utcZone) - zone.off * 1000000000 := by
  simp [instantOf, utcZone]
  omega

theorem literals_sublist (p : List Nat) : ∀ b, (literalsOf b p).Sublist (FT.convertFormat b p) := by
  induction p with
  | nil => intro b; cases b <;> simp [literalsOf, FT.convertFormat]
  | cons r rs ih =>
    intro b
    cases b with
    | false =>
      simp only [literalsOf, FT.convertFormat]
      split
      · exact ih true
      · exact List.Sublist.cons_cons _ (ih false)
    | true =>
      simp only [literalsOf, FT.convertFormat]
      cases FT.verbLayout r with
      | some l => exact List.Sublist.trans (ih false) (List.sublist_append_right _ _)
      | none => exact List.Sublist.append (List.Sublist.refl _) (ih false)

theorem encodeRunes_sublist {l₁ l₂ : List Nat} (h : l₁.Sublist l₂) : (Uni.encodeRunes l₁).Sublist (Uni.encodeRunes l₂) := by
  induction h with
  | slnil => exact List.Sublist.refl _
  | cons a _ ih => exact List.Sublist.trans ih (List.sublist_append_right _ _)
  | cons_cons a _ ih => exact List.Sublist.append (List.Sublist.refl _) ih

/-! ### a date alone and the same date with 00:00:00 -/

theorem layout_date : layoutOf (asc "2006-01-02")
    = [([], some .longYear), ([45], some .zeroMonth), ([45], some .zeroDay), ([], none)] := by decide +kernel
theorem layout_datetime : layoutOf (asc "2006-01-02 15:04:05.999999999")
    = [([], some .longYear), ([45], some .zeroMonth), ([45], some .zeroDay), ([32], some .hour), ([58], some .zeroMinute),
       ([58], some .zeroSecond), ([], some (.frac9 9)), ([], none)] := by decide +kernel

/-- the clock part on " 00:00:00" -/
theorem midnight_tail (c : Civil) (z : ZAcc) :
    runLayout [([32], some .hour), ([58], some .zeroMinute), ([58], some .zeroSecond), ([], some (.frac9 9)), ([], none)]
      (asc " 00:00:00") c z = some ({ c with hour := 0, min := 0, sec := 0 }, z) := by
  rfl

theorem skip_nil (f : Nat) (v : Bytes) : PT.skip (f + 1) v [] = some v := by
  simp [PT.skip]

theorem skip_lit (f b : Nat) (r : Bytes) (hb : b ≠ 32) : PT.skip (f + 2) (b :: r) [b] = some r := by
  simp [PT.skip, hb]

theorem skip_lit_ne (f b v : Nat) (r : Bytes) (hb : b ≠ 32) (hv : v ≠ b) : PT.skip (f + 2) (v :: r) [b] = none := by
  simp [PT.skip, hb, hv]

theorem getnum_fixed (a b : Nat) (r : Bytes) :
    PT.getnum (a :: b :: r) true = if PT.isDig a && PT.isDig b then some ((a - 48) * 10 + (b - 48), r) else none := by
  simp only [PT.getnum]
  cases PT.isDig a <;> cases PT.isDig b <;> simp

theorem run_year (a0 a1 a2 a3 : Nat) (v : Bytes) (rest : Layout) (c : Civil) (z : ZAcc) :
    runLayout (([], some .longYear) :: rest) (a0 :: a1 :: a2 :: a3 :: v) c z
      = if PT.isDig a0 then
          (match PT.atoi [a0, a1, a2, a3] with
           | some y => runLayout rest v { c with year := y } z
           | none => none)
        else none := by
  simp only [runLayout, Std.isZone, List.length_cons, List.length_nil, skip_nil, stepCivil, digitAt]
  have hlen : ¬ (List.length v + 1 + 1 + 1 + 1 < 4) := by omega
  simp only [hlen, if_false, List.take_succ_cons, List.take_zero, List.drop_succ_cons, List.drop_zero, Bool.false_eq_true]
  by_cases h0 : PT.isDig a0 = true
  · simp only [h0, Bool.not_true, Bool.false_eq_true, if_false, if_true]
    generalize PT.atoi [a0, a1, a2, a3] = r
    cases r <;> rfl
  · simp [h0]

theorem run_two (st : Std) (hz : st.isZone = false) (sep a b : Nat) (hs : sep ≠ 32) (v : Bytes) (rest : Layout) (c c' : Civil) (z : ZAcc)
    (ok : Nat → Bool)
    (hstep : ∀ f, stepCivil st (a :: b :: v) c f
        = if PT.isDig a && PT.isDig b && ok ((a - 48) * 10 + (b - 48)) then some (c', v) else none) (x : Nat) :
    runLayout (([sep], some st) :: rest) (x :: a :: b :: v) c z
      = if x = sep ∧ (PT.isDig a && PT.isDig b && ok ((a - 48) * 10 + (b - 48))) = true then runLayout rest v c' z else none := by
  simp only [runLayout, hz, List.length_cons, List.length_nil]
  by_cases hx : x = sep
  · subst hx
    rw [show 0 + 1 + (List.length v + 1 + 1 + 1) + 2 = (0 + 1 + (List.length v + 1 + 1 + 1)) + 2 from rfl, skip_lit _ _ _ hs]
    simp only [hstep]
    cases hh : (PT.isDig a && PT.isDig b && ok ((a - 48) * 10 + (b - 48))) <;> simp
  · rw [show 0 + 1 + (List.length v + 1 + 1 + 1) + 2 = (0 + 1 + (List.length v + 1 + 1 + 1)) + 2 from rfl, skip_lit_ne _ _ _ _ hs hx]
    simp [hx]

theorem step_month (a b : Nat) (v : Bytes) (c : Civil) (f : Bool) :
    stepCivil .zeroMonth (a :: b :: v) c f
      = if PT.isDig a && PT.isDig b && (fun m => !(m = 0 ∨ 12 < m : Bool)) ((a - 48) * 10 + (b - 48))
        then some ({ c with month := (((a - 48) * 10 + (b - 48) : Nat) : Int) }, v) else none := by
  cases ha : PT.isDig a <;> cases hb : PT.isDig b <;> simp [stepCivil, getnum_fixed, ha, hb]
  split <;> split <;> first | rfl | (exfalso; omega)

theorem step_day (a b : Nat) (v : Bytes) (c : Civil) (f : Bool) :
    stepCivil .zeroDay (a :: b :: v) c f
      = if PT.isDig a && PT.isDig b && (fun _ => true) ((a - 48) * 10 + (b - 48))
        then some ({ c with day := (((a - 48) * 10 + (b - 48) : Nat) : Int) }, v) else none := by
  cases ha : PT.isDig a <;> cases hb : PT.isDig b <;> simp [stepCivil, getnum_fixed, ha, hb]

theorem run_month (a b x : Nat) (v : Bytes) (rest : Layout) (c : Civil) (z : ZAcc) :
    runLayout (([45], some .zeroMonth) :: rest) (x :: a :: b :: v) c z
      = if x = 45 ∧ (PT.isDig a && PT.isDig b && (fun m => !(m = 0 ∨ 12 < m : Bool)) ((a - 48) * 10 + (b - 48))) = true
        then runLayout rest v { c with month := (((a - 48) * 10 + (b - 48) : Nat) : Int) } z else none :=
  run_two .zeroMonth rfl 45 a b (by decide) v rest c _ z (fun m => !(m = 0 ∨ 12 < m : Bool)) (step_month a b v c) x

theorem run_day (a b x : Nat) (v : Bytes) (rest : Layout) (c : Civil) (z : ZAcc) :
    runLayout (([45], some .zeroDay) :: rest) (x :: a :: b :: v) c z
      = if x = 45 ∧ (PT.isDig a && PT.isDig b && (fun _ => true) ((a - 48) * 10 + (b - 48))) = true
        then runLayout rest v { c with day := (((a - 48) * 10 + (b - 48) : Nat) : Int) } z else none :=
  run_two .zeroDay rfl 45 a b (by decide) v rest c _ z (fun _ => true) (step_day a b v c) x

theorem date_steps (a0 a1 a2 a3 a5 a6 a7 a8 a9 : Nat) (w : Bytes) (K : Layout) (c : Civil) (z : ZAcc) :
    runLayout (([], some .longYear) :: ([45], some .zeroMonth) :: ([45], some .zeroDay) :: K)
        (a0 :: a1 :: a2 :: a3 :: 45 :: a5 :: a6 :: a7 :: a8 :: a9 :: w) c z
      = (runLayout [([], some .longYear), ([45], some .zeroMonth), ([45], some .zeroDay), ([], none)]
          [a0, a1, a2, a3, 45, a5, a6, a7, a8, a9] c z).bind (fun r => runLayout K w r.1 r.2) := by
  rw [run_year, run_year]
  by_cases h0 : PT.isDig a0 = true
  · simp only [h0, if_true]
    cases PT.atoi [a0, a1, a2, a3] with
    | none => rfl
    | some y =>
      dsimp only
      rw [run_month, run_month]
      split
      · rw [run_day, run_day]
        split
        · rfl
        · rfl
      · rfl
  · simp [h0]

theorem layout_datetime' : layoutOf (asc ("2006-01-02" ++ " 15:04:05.999999999"))
    = [([], some .longYear), ([45], some .zeroMonth), ([45], some .zeroDay), ([32], some .hour), ([58], some .zeroMinute),
       ([58], some .zeroSecond), ([], some (.frac9 9)), ([], none)] := by decide +kernel

theorem run_end (c : Civil) (z : ZAcc) : runLayout [([], none)] [] c z = some (c, z) := by rfl

/-- a date alone leaves the clock at 00:00:00 -/
theorem date_only_clock (a0 a1 a2 a3 a5 a6 a7 a8 a9 : Nat) (c : Civil) (z : ZAcc)
    (h : runLayout [([], some .longYear), ([45], some .zeroMonth), ([45], some .zeroDay), ([], none)]
          [a0, a1, a2, a3, 45, a5, a6, a7, a8, a9] {} {} = some (c, z)) :
    c.hour = 0 ∧ c.min = 0 ∧ c.sec = 0 := by
  rw [run_year] at h
  split at h
  · split at h
    · rw [run_month] at h
      split at h
      · rw [run_day] at h
        split at h
        · rw [run_end] at h
          injection h with h
          injection h with h1 h2
          rw [← h1]
          exact ⟨rfl, rfl, rfl⟩
        · cases h
      · cases h
    · cases h
  · cases h

theorem asc_midnight : asc " 00:00:00" = [32, 48, 48, 58, 48, 48, 58, 48, 48] := by decide

theorem midnight_tail' (c : Civil) (z : ZAcc) :
    runLayout [([32], some .hour), ([58], some .zeroMinute), ([58], some .zeroSecond), ([], some (.frac9 9)), ([], none)]
      [32, 48, 48, 58, 48, 48, 58, 48, 48] c z = some ({ c with hour := 0, min := 0, sec := 0 }, z) := by
  rfl

theorem date_then_midnight (zone : ZoneEnv) (a0 a1 a2 a3 a5 a6 a7 a8 a9 : Nat) (t : Int)
    (h : parseWith (some zone) (layoutOf (asc "2006-01-02")) [a0, a1, a2, a3, 45, a5, a6, a7, a8, a9] = some t) :
    parseWith (some zone) (layoutOf (asc "2006-01-02 15:04:05.999999999"))
      (a0 :: a1 :: a2 :: a3 :: 45 :: a5 :: a6 :: a7 :: a8 :: a9 :: [32, 48, 48, 58, 48, 48, 58, 48, 48]) = some t := by
  unfold parseWith at h ⊢
  rw [layout_date] at h
  rw [layout_datetime, date_steps]
  cases hr : runLayout [([], some .longYear), ([45], some .zeroMonth), ([45], some .zeroDay), ([], none)]
      [a0, a1, a2, a3, 45, a5, a6, a7, a8, a9] {} {} with
  | none => rw [hr] at h; cases h
  | some r =>
    obtain ⟨c, z⟩ := r
    rw [hr] at h
    obtain ⟨h1, h2, h3⟩ := date_only_clock _ _ _ _ _ _ _ _ _ c z hr
    simp only [Option.bind, midnight_tail']
    have hc : ({ c with hour := 0, min := 0, sec := 0 } : Civil) = c := by
      cases c; simp_all
    rw [hc]
    exact h

theorem date_only_eq_midnight_dash (zone : ZoneEnv) (d : Bytes) (hlen : d.length = 10) (h4 : d.getD 4 0 = 45) (t : Int)
    (h : strToTimeTrimmed zone d = some t) : strToTimeTrimmed zone (d ++ asc " 00:00:00") = some t := by
  rw [asc_midnight]
  match d, hlen with
  | [a0, a1, a2, a3, a4, a5, a6, a7, a8, a9], _ =>
    simp only [List.getD_cons_succ, List.getD_cons_zero] at h4
    subst h4
    unfold strToTimeTrimmed at h ⊢
    have hg : evalCond ([a0, a1, a2, a3, 45, a5, a6, a7, a8, a9] ++ [32, 48, 48, 58, 48, 48, 58, 48, 48]) guard
        = evalCond [a0, a1, a2, a3, 45, a5, a6, a7, a8, a9] guard := by
      simp [evalCond, guard, byteAt]
    rw [hg]
    split at h
    · rw [if_pos (by assumption)]
      simp [dispatch, evalDispatch, evalCond, byteAt, withZones, callFn] at h ⊢
      have hp : parseWith (some zone) (layoutOf (asc "2006-01-02")) [a0, a1, a2, a3, 45, a5, a6, a7, a8, a9] = some t := by
        cases hh : parseWith (some zone) (layoutOf (asc "2006-01-02")) [a0, a1, a2, a3, 45, a5, a6, a7, a8, a9] with
        | none => rw [hh] at h; cases h
        | some t' => rw [hh] at h; exact h
      rw [date_then_midnight zone _ _ _ _ _ _ _ _ _ t hp]
    · cases h

end Csvq.TP
