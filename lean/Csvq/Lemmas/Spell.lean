/-
  Lemmas for Props/C04Spell.lean: option.TrimSpace on a text wrapped in blanks, strconv.ParseInt on a digit string
  with leading zeros and a sign — by induction over the padding, for every length.
-/
import Csvq.Model.KeyOf
import Csvq.Lemmas.ParseFloat
namespace Csvq
namespace Spell
open PF

/-- a run of ASCII blanks (space, \t, \n, \v, \f, \r) -/
def IsBlank (l : Bytes) : Prop := ∀ b ∈ l, isAsciiSpace b = true

theorem isBlank_nil : IsBlank [] := by intro b hb; cases hb

theorem isBlank_tail {b : Nat} {l : Bytes} (h : IsBlank (b :: l)) : IsBlank l :=
  fun x hx => h x (List.mem_cons_of_mem _ hx)

theorem isBlank_reverse {l : Bytes} (h : IsBlank l) : IsBlank l.reverse :=
  fun x hx => h x (List.mem_reverse.mp hx)

/-- a byte below 0x80 that is no ASCII blank starts no White_Space rune … -/
theorem spaceLenHead_ascii (c : Nat) (rest : Bytes) (hc : c < 128) (hs : isAsciiSpace c = false) :
    spaceLenHead (c :: rest) = 0 := by
  simp only [spaceLenHead, hs, Bool.false_eq_true, if_false]
  split <;> first | rfl | omega

/-- … and ends none -/
theorem spaceLenLast_ascii (c : Nat) (rest : Bytes) (hc : c < 128) (hs : isAsciiSpace c = false) :
    spaceLenLast (c :: rest) = 0 := by
  simp only [spaceLenLast, hs, Bool.false_eq_true, if_false]
  split
  · have h1 : (c = 0x85) = False := by simp; omega
    have h2 : (c = 0xA0) = False := by simp; omega
    simp [h1, h2]
  · have h1 : (c = 0x80) = False := by simp; omega
    simp [h1]
  · have h : ((0x80 ≤ c && c ≤ 0x8A) || c = 0xA8 || c = 0xA9 || c = 0xAF) = false := by
      simp; omega
    simp [h]
  · have h1 : (c = 0x9F) = False := by simp; omega
    simp [h1]
  · have h1 : (c = 0x80) = False := by simp; omega
    simp [h1]
  · rfl

/-- strings.TrimLeft's loop eats a run of blanks, however long, and stops at the first byte that starts no blank -/
theorem trimLeft_blanks : ∀ (l x : Bytes) (fuel : Nat), IsBlank l → l.length ≤ fuel → spaceLenHead x = 0 →
    trimLeft fuel (l ++ x) = x := by
  intro l
  induction l with
  | nil =>
    intro x fuel _ _ hx
    cases fuel with
    | zero => rfl
    | succ f => simp only [List.nil_append, trimLeft, hx]
  | cons b l ih =>
    intro x fuel hb hf hx
    cases fuel with
    | zero => simp at hf
    | succ f =>
      have h1 : spaceLenHead (b :: l ++ x) = 1 := by
        simp only [List.cons_append, spaceLenHead, hb b (by simp), if_true]
      simp only [trimLeft, h1]
      simp only [List.cons_append, List.drop_succ_cons, List.drop_zero]
      exact ih x f (isBlank_tail hb) (by simpa using hf) hx

/-- the same for the loop that walks the reversed text -/
theorem trimRightRev_blanks : ∀ (l x : Bytes) (fuel : Nat), IsBlank l → l.length ≤ fuel → spaceLenLast x = 0 →
    trimRightRev fuel (l ++ x) = x := by
  intro l
  induction l with
  | nil =>
    intro x fuel _ _ hx
    cases fuel with
    | zero => rfl
    | succ f => simp only [List.nil_append, trimRightRev, hx]
  | cons b l ih =>
    intro x fuel hb hf hx
    cases fuel with
    | zero => simp at hf
    | succ f =>
      have h1 : spaceLenLast (b :: l ++ x) = 1 := by
        simp only [List.cons_append, spaceLenLast, hb b (by simp), if_true]
      simp only [trimRightRev, h1]
      simp only [List.cons_append, List.drop_succ_cons, List.drop_zero]
      exact ih x f (isBlank_tail hb) (by simpa using hf) hx

/-- strings.TrimSpace takes the blanks off both ends of a text whose first and last byte are ASCII non-blanks -/
theorem goTrimSpace_blanks (l r core : Bytes) (c e : Nat) (mid : Bytes) (hl : IsBlank l) (hr : IsBlank r)
    (hcore : core = c :: mid) (hlast : core.reverse = e :: (c :: mid).reverse.tail)
    (hc : c < 128) (hcs : isAsciiSpace c = false) (he : e < 128) (hes : isAsciiSpace e = false) :
    goTrimSpace (l ++ (core ++ r)) = core := by
  unfold goTrimSpace
  have h1 : trimLeft (l ++ (core ++ r)).length (l ++ (core ++ r)) = core ++ r :=
    trimLeft_blanks l (core ++ r) _ hl (by simp) (by rw [hcore]; exact spaceLenHead_ascii c _ hc hcs)
  simp only [h1]
  have h2 : (core ++ r).reverse = r.reverse ++ core.reverse := by simp
  rw [h2]
  have h3 : trimRightRev (core ++ r).length (r.reverse ++ core.reverse) = core.reverse :=
    trimRightRev_blanks r.reverse core.reverse _ (isBlank_reverse hr) (by simp)
      (by rw [hlast]; exact spaceLenLast_ascii e _ he hes)
  rw [h3, List.reverse_reverse]

theorem byteIsSpace_of_ascii {b : Nat} (h : isAsciiSpace b = true) : byteIsSpace b = true := by
  unfold byteIsSpace; simp [h]

theorem byteIsSpace_ascii_false {b : Nat} (hb : b < 128) (h : isAsciiSpace b = false) : byteIsSpace b = false := by
  unfold byteIsSpace
  have h1 : (b = 0x85) = False := by simp; omega
  have h2 : (b = 0xA0) = False := by simp; omega
  simp [h, h1, h2]

/-- option.TrimSpace: the guard (first or last BYTE is a blank) fires whenever there is a blank to take off -/
theorem trimSpace_blanks (l r core : Bytes) (c e : Nat) (mid : Bytes) (hl : IsBlank l) (hr : IsBlank r)
    (hcore : core = c :: mid) (hlast : core.reverse = e :: (c :: mid).reverse.tail)
    (hc : c < 128) (hcs : isAsciiSpace c = false) (he : e < 128) (hes : isAsciiSpace e = false) :
    trimSpace (l ++ (core ++ r)) = core := by
  have hgo := goTrimSpace_blanks l r core c e mid hl hr hcore hlast hc hcs he hes
  have key : ∀ (S : Bytes) (b : Nat) (t : Bytes) (q : Nat), S = b :: t → S.getLast? = some q →
      trimSpace S = if (byteIsSpace b || byteIsSpace q) = true then goTrimSpace S else S := by
    intro S b t q h1 h2
    subst h1
    unfold trimSpace
    rw [h2]
  obtain ⟨b, t, hS⟩ : ∃ b t, l ++ (core ++ r) = b :: t := by
    cases hlc : l ++ (core ++ r) with
    | nil =>
      exfalso
      have := congrArg List.length hlc
      rw [hcore] at this
      simp at this
    | cons b t => exact ⟨b, t, rfl⟩
  obtain ⟨q, hq⟩ : ∃ q, (l ++ (core ++ r)).getLast? = some q := by
    rw [hS]
    cases hq : (b :: t).getLast? with
    | none => simp at hq
    | some q => exact ⟨q, rfl⟩
  rw [key _ b t q hS hq]
  by_cases hg : (byteIsSpace b || byteIsSpace q) = true
  · rw [if_pos hg]; exact hgo
  · rw [if_neg hg]
    -- the guard did not fire: there was no blank at either end
    simp only [Bool.or_eq_true, not_or, Bool.not_eq_true] at hg
    have hl0 : l = [] := by
      cases l with
      | nil => rfl
      | cons x xs =>
        simp only [List.cons_append, List.cons.injEq] at hS
        have hx := byteIsSpace_of_ascii (hl x (by simp))
        rw [hS.1, hg.1] at hx; cases hx
    have hr0 : r = [] := by
      cases hrr : r with
      | nil => rfl
      | cons x xs =>
        have hne : r ≠ [] := by rw [hrr]; simp
        have hlr : (l ++ (core ++ r)).getLast? = r.getLast? := by
          rw [List.getLast?_append, List.getLast?_append]
          cases hq' : r.getLast? with
          | none => exact absurd (List.getLast?_eq_none_iff.mp hq') hne
          | some q' => simp
        have hmem : q ∈ r := by
          apply List.mem_of_getLast?
          rw [← hlr]; exact hq
        have hx := byteIsSpace_of_ascii (hr q hmem)
        rw [hg.2] at hx; cases hx
    subst hl0; subst hr0
    simp

/-! ### strconv.ParseInt: leading zeros and the sign -/

theorem parseDigits_zeros (z : Nat) (d : Bytes) : parseDigits (List.replicate z 48 ++ d) 0 = parseDigits d 0 := by
  induction z with
  | zero => simp
  | succ k ih =>
    rw [List.replicate_succ, List.cons_append]
    have step : ∀ bs : Bytes, parseDigits (48 :: bs) 0 = parseDigits bs 0 := by
      intro bs
      conv => lhs; unfold parseDigits
      simp
    rw [step]
    exact ih

theorem parseNat_zeros (z : Nat) (d : Bytes) (hd : d ≠ []) : parseNat (List.replicate z 48 ++ d) = parseNat d := by
  unfold parseNat
  have h1 : (List.replicate z 48 ++ d).isEmpty = false := by
    cases z with
    | zero => simpa using hd
    | succ k => simp [List.replicate_succ]
  have h2 : d.isEmpty = false := by simpa using hd
  rw [h1, h2]
  simp only [Bool.false_eq_true, if_false]
  exact parseDigits_zeros z d

theorem parseNat_ne_nil {d : Bytes} {n : Nat} (h : parseNat d = some n) : d ≠ [] := by
  intro hd; subst hd; simp [parseNat] at h

/-- the first byte of zeros ++ digits is a digit -/
theorem zeros_digits_head (z : Nat) (d : Bytes) (n : Nat) (h : parseNat d = some n) :
    ∃ c t, List.replicate z 48 ++ d = c :: t ∧ 48 ≤ c ∧ c ≤ 57 := by
  cases z with
  | succ k => exact ⟨48, List.replicate k 48 ++ d, by simp [List.replicate_succ], by omega, by omega⟩
  | zero =>
    cases d with
    | nil => exact absurd rfl (parseNat_ne_nil h)
    | cons c t =>
      have : parseDigits (c :: t) 0 = some n := by simpa [parseNat] using h
      exact ⟨c, t, by simp, parseDigits_head_digit c t 0 n this⟩

/-- the last byte of a digit string is a digit -/
theorem digits_all {d : Bytes} {n : Nat} (h : parseNat d = some n) : ∀ c ∈ d, 48 ≤ c ∧ c ≤ 57 := by
  have hp : parseDigits d 0 = some n := by
    unfold parseNat at h
    split at h
    · cases h
    · exact h
  have gen : ∀ (d : Bytes) (acc v : Nat), parseDigits d acc = some v → ∀ c ∈ d, 48 ≤ c ∧ c ≤ 57 := by
    intro d
    induction d with
    | nil => intro _ _ _ c hc; cases hc
    | cons x xs ih =>
      intro acc v hv c hc
      have hx := parseDigits_head_digit x xs acc v hv
      rcases List.mem_cons.mp hc with rfl | hm
      · exact hx
      · unfold parseDigits at hv
        rw [if_pos hx] at hv
        exact ih _ v hv c hm
  exact gen d 0 n hp

theorem parseSigned_unsigned (c : Nat) (t : Bytes) (hc : 48 ≤ c ∧ c ≤ 57) :
    parseSigned (c :: t) = (parseNat (c :: t)).map fun n => (n : Int) := by
  unfold parseSigned
  split
  · rename_i heq; cases heq; omega
  · rename_i heq; cases heq; omega
  · rfl

/-- strconv.ParseInt's reading of sign ++ zeros ++ digits: the sign applied to the digits' value -/
theorem parseSigned_core (s : IntSpelling) (n : Nat) (hd : parseNat s.digits = some n) :
    parseSigned s.core = some (if s.sign = some true then -(n : Int) else (n : Int)) := by
  have hz := parseNat_zeros s.zeros s.digits (parseNat_ne_nil hd)
  unfold IntSpelling.core
  cases hs : s.sign with
  | none =>
    obtain ⟨c, t, hct, hc⟩ := zeros_digits_head s.zeros s.digits n hd
    simp only [IntSpelling.signBytes, List.nil_append]
    rw [hct, parseSigned_unsigned c t hc, ← hct, hz, hd]
    simp
  | some b =>
    cases b with
    | false =>
      simp only [IntSpelling.signBytes, List.cons_append, List.nil_append]
      unfold parseSigned
      simp only [hz, hd]
      simp
    | true =>
      simp only [IntSpelling.signBytes, List.cons_append, List.nil_append]
      unfold parseSigned
      simp only [hz, hd]
      simp

/-- first and last byte of sign ++ zeros ++ digits -/
theorem core_shape (s : IntSpelling) (n : Nat) (hd : parseNat s.digits = some n) :
    ∃ c e mid, s.core = c :: mid ∧ s.core.reverse = e :: (c :: mid).reverse.tail ∧ c < 128 ∧ isAsciiSpace c = false
      ∧ e < 128 ∧ isAsciiSpace e = false := by
  have hne := parseNat_ne_nil hd
  -- the last byte: the last digit
  obtain ⟨e, he⟩ : ∃ e, s.digits.getLast? = some e := by
    cases hq : s.digits.getLast? with
    | none => exact absurd (List.getLast?_eq_none_iff.mp hq) hne
    | some e => exact ⟨e, rfl⟩
  have hed := digits_all hd e (List.mem_of_getLast? he)
  have hlast : s.core.getLast? = some e := by
    unfold IntSpelling.core
    rw [List.getLast?_append, List.getLast?_append, he]
    simp
  -- the first byte: the sign or a digit
  obtain ⟨c, mid, hcm, hc⟩ : ∃ c mid, s.core = c :: mid ∧ (c = 43 ∨ c = 45 ∨ (48 ≤ c ∧ c ≤ 57)) := by
    unfold IntSpelling.core
    cases hs : s.sign with
    | none =>
      obtain ⟨c, t, hct, hc⟩ := zeros_digits_head s.zeros s.digits n hd
      exact ⟨c, t, by simp [IntSpelling.signBytes, hct], Or.inr (Or.inr hc)⟩
    | some b =>
      cases b with
      | false => exact ⟨43, List.replicate s.zeros 48 ++ s.digits, by simp [IntSpelling.signBytes], Or.inl rfl⟩
      | true => exact ⟨45, List.replicate s.zeros 48 ++ s.digits, by simp [IntSpelling.signBytes], Or.inr (Or.inl rfl)⟩
  have hrev : s.core.reverse = e :: (c :: mid).reverse.tail := by
    rw [← hcm]
    have : s.core.reverse.head? = some e := by rw [List.head?_reverse]; exact hlast
    cases hr : s.core.reverse with
    | nil => rw [hr] at this; cases this
    | cons x xs =>
      rw [hr] at this
      simp at this
      subst this
      simp
  refine ⟨c, e, mid, hcm, hrev, ?_, ?_, ?_, ?_⟩
  · omega
  · unfold isAsciiSpace; simp; omega
  · omega
  · unfold isAsciiSpace; simp; omega

end Spell
end Csvq
