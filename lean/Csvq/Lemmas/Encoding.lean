/-
  Lemmas for Csvq.Model.Encoding: every character survives UTF-8 and UTF-16 (used by Csvq.Props.C02).
-/
import Csvq.Model.Encoding
namespace Csvq.Enc

theorem char_range (c : Char) : c.toNat < 0xd800 ∨ (0xdfff < c.toNat ∧ c.toNat < 0x110000) := by
  have h := c.valid
  unfold UInt32.isValidChar Nat.isValidChar at h
  exact h

theorem ofNat_toNat (c : Char) : Char.ofNat c.toNat = c := by simp

/-! ## UTF-16 -/

theorem unitOf_unitBytes (e : Endian) (u : Nat) (_h : u < 65536) (rest : List Nat) :
    ∃ a b, unitBytes e u ++ rest = a :: b :: rest ∧ unitOf e a b = u := by
  cases e with
  | big => exact ⟨u / 256, u % 256, rfl, by simp only [unitOf]; omega⟩
  | little => exact ⟨u % 256, u / 256, rfl, by simp only [unitOf]; omega⟩

/-- one character written and read back -/
theorem decodeUtf16F_char (e : Endian) (c : Char) (n : Nat) (rest : List Nat) :
    decodeUtf16F e (n + 1) (unitsBytes e (utf16Units c) ++ rest) = c :: decodeUtf16F e n rest := by
  have hr := char_range c
  unfold utf16Units
  by_cases hs : c.toNat < 0x10000
  · simp only [hs, if_true, unitsBytes, List.append_nil]
    obtain ⟨a, b, hab, hu⟩ := unitOf_unitBytes e c.toNat hs rest
    rw [hab]
    simp only [decodeUtf16F, hu]
    have : isSurrogate c.toNat = false := by
      unfold isSurrogate
      have : ¬ (0xD800 ≤ c.toNat ∧ c.toNat ≤ 0xDFFF) := by omega
      simpa using this
    simp [this]
  · simp only [hs, if_false, unitsBytes, List.append_nil, List.append_assoc]
    have h1 : 0xD800 + (c.toNat - 0x10000) / 1024 < 65536 := by omega
    have h2 : 0xDC00 + (c.toNat - 0x10000) % 1024 < 65536 := by omega
    obtain ⟨a2, b2, hab2, hu2⟩ := unitOf_unitBytes e _ h2 rest
    rw [hab2]
    obtain ⟨a, b, hab, hu⟩ := unitOf_unitBytes e _ h1 (a2 :: b2 :: rest)
    rw [hab]
    simp only [decodeUtf16F, hu, hu2]
    have s1 : isSurrogate (0xD800 + (c.toNat - 0x10000) / 1024) = true := by
      unfold isSurrogate; simp; omega
    have s2 : isLow (0xDC00 + (c.toNat - 0x10000) % 1024) = true := by
      unfold isLow; simp; omega
    have s3 : isHigh (0xD800 + (c.toNat - 0x10000) / 1024) = true := by
      unfold isHigh; simp; omega
    simp only [s1, s2, s3, if_true]
    have : 0x10000 + (0xD800 + (c.toNat - 0x10000) / 1024 - 0xD800) * 1024
        + (0xDC00 + (c.toNat - 0x10000) % 1024 - 0xDC00) = c.toNat := by omega
    rw [this, ofNat_toNat]

theorem decodeUtf16F_encode (e : Endian) (s : List Char) (n : Nat) (h : s.length ≤ n) :
    decodeUtf16F e n (encodeUtf16 e s) = s := by
  induction s generalizing n with
  | nil => cases n <;> rfl
  | cons c cs ih =>
    cases n with
    | zero => simp at h
    | succ k =>
      simp only [encodeUtf16]
      rw [decodeUtf16F_char, ih k (by simpa using h)]

theorem unitsBytes_length (e : Endian) (us : List Nat) : (unitsBytes e us).length = 2 * us.length := by
  induction us with
  | nil => rfl
  | cons u us ih => cases e <;> simp [unitsBytes, unitBytes, ih] <;> omega

theorem utf16Units_length_pos (c : Char) : 1 ≤ (utf16Units c).length := by
  unfold utf16Units; dsimp only; split <;> simp

theorem encodeUtf16_length (e : Endian) (s : List Char) : s.length ≤ (encodeUtf16 e s).length := by
  induction s with
  | nil => simp [encodeUtf16]
  | cons c cs ih =>
    simp only [encodeUtf16, List.length_append, List.length_cons, unitsBytes_length]
    have := utf16Units_length_pos c
    omega

/-- **UTF-16, the units**: every text, both byte orders. -/
theorem decodeUtf16F_roundtrip (e : Endian) (s : List Char) :
    decodeUtf16F e (encodeUtf16 e s).length (encodeUtf16 e s) = s :=
  decodeUtf16F_encode e s _ (encodeUtf16_length e s)

/-- the first two bytes of an encoded text are a byte order mark only if its first character is one -/
theorem takeBom16_encode (e : Endian) (s : List Char)
    (h : ∀ c cs, s = c :: cs → c.toNat ≠ 0xFEFF ∧ c.toNat ≠ 0xFFFE) :
    takeBom16 (encodeUtf16 e s) = none := by
  cases s with
  | nil => rfl
  | cons c cs =>
    obtain ⟨h1, h2⟩ := h c cs rfl
    have hr := char_range c
    simp only [encodeUtf16]
    unfold utf16Units
    by_cases hs : c.toNat < 0x10000
    · simp only [hs, if_true, unitsBytes, List.append_nil]
      cases e with
      | big =>
        simp only [unitBytes, List.cons_append, List.nil_append, takeBom16]
        have a1 : ¬ (c.toNat / 256 = 0xFE ∧ c.toNat % 256 = 0xFF) := by omega
        have a2 : ¬ (c.toNat / 256 = 0xFF ∧ c.toNat % 256 = 0xFE) := by omega
        simp [a1, a2]
      | little =>
        simp only [unitBytes, List.cons_append, List.nil_append, takeBom16]
        have a1 : ¬ (c.toNat % 256 = 0xFE ∧ c.toNat / 256 = 0xFF) := by omega
        have a2 : ¬ (c.toNat % 256 = 0xFF ∧ c.toNat / 256 = 0xFE) := by omega
        simp [a1, a2]
    · simp only [hs, if_false, unitsBytes, List.append_nil]
      cases e with
      | big =>
        simp only [unitBytes, List.cons_append, List.nil_append, takeBom16]
        have a1 : ¬ ((0xD800 + (c.toNat - 0x10000) / 1024) / 256 = 0xFE ∧ (0xD800 + (c.toNat - 0x10000) / 1024) % 256 = 0xFF) := by omega
        have a2 : ¬ ((0xD800 + (c.toNat - 0x10000) / 1024) / 256 = 0xFF ∧ (0xD800 + (c.toNat - 0x10000) / 1024) % 256 = 0xFE) := by omega
        simp [a1, a2]
      | little =>
        simp only [unitBytes, List.cons_append, List.nil_append, takeBom16]
        have a1 : ¬ ((0xD800 + (c.toNat - 0x10000) / 1024) % 256 = 0xFE ∧ (0xD800 + (c.toNat - 0x10000) / 1024) / 256 = 0xFF) := by omega
        have a2 : ¬ ((0xD800 + (c.toNat - 0x10000) / 1024) % 256 = 0xFF ∧ (0xD800 + (c.toNat - 0x10000) / 1024) / 256 = 0xFE) := by omega
        simp [a1, a2]

theorem takeBom16_bom (e : Endian) (rest : List Nat) : takeBom16 (bom16 e ++ rest) = some (e, rest) := by
  cases e <;> rfl

/-! ## UTF-8 -/

theorem decodeRune_utf8Bytes (c : Char) (rest : List Nat) :
    decodeRune (utf8Bytes c ++ rest) = (c, (utf8Bytes c).length) := by
  have hr := char_range c
  unfold utf8Bytes
  by_cases h1 : c.toNat < 0x80
  · simp only [h1, if_true, List.cons_append, List.nil_append, decodeRune, ofNat_toNat, List.length_cons, List.length_nil]
  · simp only [h1, if_false]
    by_cases h2 : c.toNat < 0x800
    · simp only [h2, if_true, List.cons_append, List.nil_append, decodeRune]
      have a1 : ¬ (0xC0 + c.toNat / 64 < 0x80) := by omega
      have a2 : 0xC2 ≤ 0xC0 + c.toNat / 64 ∧ 0xC0 + c.toNat / 64 ≤ 0xDF := by omega
      have a3 : isCont (0x80 + c.toNat % 64) = true := by unfold isCont; simp; omega
      have a4 : (0xC0 + c.toNat / 64 - 0xC0) * 64 + (0x80 + c.toNat % 64 - 0x80) = c.toNat := by omega
      simp only [a1, a2, a3, a4, if_true, if_false, and_self, ofNat_toNat, List.length_cons, List.length_nil]
    · simp only [h2, if_false]
      by_cases h3 : c.toNat < 0x10000
      · simp only [h3, if_true, List.cons_append, List.nil_append, decodeRune]
        have a1 : ¬ (0xE0 + c.toNat / 4096 < 0x80) := by omega
        have a2 : ¬ (0xC2 ≤ 0xE0 + c.toNat / 4096 ∧ 0xE0 + c.toNat / 4096 ≤ 0xDF) := by omega
        have a3 : 0xE0 ≤ 0xE0 + c.toNat / 4096 ∧ 0xE0 + c.toNat / 4096 ≤ 0xEF := by omega
        have a4 : (if 0xE0 + c.toNat / 4096 = 0xE0 then 0xA0 else 0x80) ≤ 0x80 + c.toNat / 64 % 64 ∧
            0x80 + c.toNat / 64 % 64 ≤ (if 0xE0 + c.toNat / 4096 = 0xED then 0x9F else 0xBF) := by
          constructor <;> split <;> omega
        have a5 : isCont (0x80 + c.toNat % 64) = true := by unfold isCont; simp; omega
        have a6 : (0xE0 + c.toNat / 4096 - 0xE0) * 4096 + (0x80 + c.toNat / 64 % 64 - 0x80) * 64
            + (0x80 + c.toNat % 64 - 0x80) = c.toNat := by omega
        simp only [a1, a2, a3, a4, a5, a6, if_true, if_false, and_self, ofNat_toNat, List.length_cons, List.length_nil]
      · simp only [h3, if_false, List.cons_append, List.nil_append, decodeRune]
        have a1 : ¬ (0xF0 + c.toNat / 262144 < 0x80) := by omega
        have a2 : ¬ (0xC2 ≤ 0xF0 + c.toNat / 262144 ∧ 0xF0 + c.toNat / 262144 ≤ 0xDF) := by omega
        have a3 : ¬ (0xE0 ≤ 0xF0 + c.toNat / 262144 ∧ 0xF0 + c.toNat / 262144 ≤ 0xEF) := by omega
        have a3' : 0xF0 ≤ 0xF0 + c.toNat / 262144 ∧ 0xF0 + c.toNat / 262144 ≤ 0xF4 := by omega
        have a4 : (if 0xF0 + c.toNat / 262144 = 0xF0 then 0x90 else 0x80) ≤ 0x80 + c.toNat / 4096 % 64 ∧
            0x80 + c.toNat / 4096 % 64 ≤ (if 0xF0 + c.toNat / 262144 = 0xF4 then 0x8F else 0xBF) := by
          constructor <;> split <;> omega
        have a5 : isCont (0x80 + c.toNat / 64 % 64) = true := by unfold isCont; simp; omega
        have a5' : isCont (0x80 + c.toNat % 64) = true := by unfold isCont; simp; omega
        have a6 : (0xF0 + c.toNat / 262144 - 0xF0) * 262144 + (0x80 + c.toNat / 4096 % 64 - 0x80) * 4096
            + (0x80 + c.toNat / 64 % 64 - 0x80) * 64 + (0x80 + c.toNat % 64 - 0x80) = c.toNat := by omega
        simp only [a1, a2, a3, a3', a4, a5, a5', a6, if_true, if_false, and_self, ofNat_toNat, List.length_cons, List.length_nil]

theorem utf8Bytes_ne_nil (c : Char) : ∃ b bs, utf8Bytes c = b :: bs := by
  unfold utf8Bytes
  dsimp only
  split
  · exact ⟨_, _, rfl⟩
  · split
    · exact ⟨_, _, rfl⟩
    · split <;> exact ⟨_, _, rfl⟩

theorem decodeUtf8F_char (c : Char) (n : Nat) (rest : List Nat) :
    decodeUtf8F (n + 1) (utf8Bytes c ++ rest) = c :: decodeUtf8F n rest := by
  obtain ⟨b, bs, hb⟩ := utf8Bytes_ne_nil c
  have hd := decodeRune_utf8Bytes c rest
  rw [hb] at hd ⊢
  simp only [List.cons_append] at hd ⊢
  simp only [decodeUtf8F, hd]
  have : ((b :: (bs ++ rest)).drop (b :: bs).length) = rest := by
    have : b :: (bs ++ rest) = (b :: bs) ++ rest := rfl
    rw [this, List.drop_left]
  rw [this]

theorem decodeUtf8F_encode (s : List Char) (n : Nat) (h : s.length ≤ n) :
    decodeUtf8F n (encodeUtf8 s) = s := by
  induction s generalizing n with
  | nil => cases n <;> rfl
  | cons c cs ih =>
    cases n with
    | zero => simp at h
    | succ k =>
      simp only [encodeUtf8]
      rw [decodeUtf8F_char, ih k (by simpa using h)]

theorem encodeUtf8_length (s : List Char) : s.length ≤ (encodeUtf8 s).length := by
  induction s with
  | nil => simp [encodeUtf8]
  | cons c cs ih =>
    obtain ⟨b, bs, hb⟩ := utf8Bytes_ne_nil c
    simp only [encodeUtf8, List.length_append, List.length_cons, hb]
    omega

/-- **UTF-8**: every text. -/
theorem decodeUtf8_roundtrip (s : List Char) : decodeUtf8 (encodeUtf8 s) = s :=
  decodeUtf8F_encode s _ (encodeUtf8_length s)

/-- the first byte of a character is never FE / FF, and EF BB BF is U+FEFF -/
theorem utf8Bytes_head (c : Char) : ∃ b bs, utf8Bytes c = b :: bs ∧ b < 0xF8 := by
  have hr := char_range c
  unfold utf8Bytes
  dsimp only
  split
  · exact ⟨_, _, rfl, by omega⟩
  · split
    · exact ⟨_, _, rfl, by omega⟩
    · split
      · exact ⟨_, _, rfl, by omega⟩
      · exact ⟨_, _, rfl, by omega⟩

theorem takeBom16_encodeUtf8 (s : List Char) : takeBom16 (encodeUtf8 s) = none := by
  cases s with
  | nil => rfl
  | cons c cs =>
    obtain ⟨b, bs, hb, hlt⟩ := utf8Bytes_head c
    simp only [encodeUtf8, hb, List.cons_append]
    cases h : bs ++ encodeUtf8 cs with
    | nil => rfl
    | cons y r =>
      simp only [takeBom16]
      have a1 : ¬ (b = 0xFE ∧ y = 0xFF) := by omega
      have a2 : ¬ (b = 0xFF ∧ y = 0xFE) := by omega
      simp [a1, a2]

end Csvq.Enc
