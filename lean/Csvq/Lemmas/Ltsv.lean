/-
  Helper lemmas for the LTSV reader machine of Csvq.Model.Ltsv (used by Csvq.Props.C02).
-/
import Csvq.Model.Ltsv
namespace Csvq.Ltsv
open Csvq.Csv (LB Cell Table DCell DTable Err endingChars nullCell)

/-! ## `run` -/

theorem run_nil (σ : St) : run σ [] = .ok σ := rfl

theorem run_cons (σ : St) (c : Char) (cs : List Char) :
    run σ (c :: cs) = match step σ c with
      | .ok σ' => run σ' cs
      | .error e => .error e := rfl

theorem run_append (a b : List Char) (σ : St) :
    run σ (a ++ b) = match run σ a with
      | .ok σ' => run σ' b
      | .error e => .error e := by
  induction a generalizing σ with
  | nil => rfl
  | cons c cs ih =>
    simp only [List.cons_append, run_cons]
    cases step σ c with
    | error e => rfl
    | ok σ' => exact ih σ'

/-! ## states -/

def mk (b : St) (rk : Bool) (key val : List Char) (fields : List KV) (header : List (List Char)) : St :=
  { b with rk := rk, key := key, val := val, fields := fields, header := header, pcr := false }

/-- neither a line break, nor TAB, nor the colon -/
def Plain (c : Char) : Prop := c ≠ '\r' ∧ c ≠ '\n' ∧ c ≠ '\t' ∧ c ≠ ':'

theorem step_key (b : St) (key val fields header) (c : Char) (h : Plain c) :
    step (mk b true key val fields header) c = .ok (mk b true (c :: key) val fields header) := by
  obtain ⟨h1, h2, h3, h4⟩ := h
  simp [step, stepMain, mk, h1, h2, h3, h4]

theorem step_val (b : St) (key val fields header) (c : Char) (h : Plain c) :
    step (mk b false key val fields header) c = .ok (mk b false key (c :: val) fields header) := by
  obtain ⟨h1, h2, h3, h4⟩ := h
  simp [step, stepMain, mk, h1, h2, h3, h4]

theorem step_colon (b : St) (rk : Bool) (key val fields header) :
    step (mk b rk key val fields header) ':' = .ok (mk b false key val fields header) := by
  simp [step, stepMain, mk]

theorem run_key (b : St) (val fields header) (s key : List Char) (h : ∀ c ∈ s, Plain c) :
    run (mk b true key val fields header) s = .ok (mk b true (s.reverse ++ key) val fields header) := by
  induction s generalizing key with
  | nil => simp [run_nil]
  | cons c cs ih =>
    rw [run_cons, step_key b key val fields header c (h c (by simp))]
    simp only
    rw [ih (c :: key) (fun x hx => h x (by simp [hx]))]
    simp

theorem run_val (b : St) (key fields header) (s val : List Char) (h : ∀ c ∈ s, Plain c) :
    run (mk b false key val fields header) s = .ok (mk b false key (s.reverse ++ val) fields header) := by
  induction s generalizing val with
  | nil => simp [run_nil]
  | cons c cs ih =>
    rw [run_cons, step_val b key val fields header c (h c (by simp))]
    simp only
    rw [ih (c :: val) (fun x hx => h x (by simp [hx]))]
    simp

/-- at the start of a field -/
def startSt (b : St) (fields : List KV) (header : List (List Char)) : St := mk b true [] [] fields header

/-- the field `l:v` read, its end not yet -/
def openSt (b : St) (fields : List KV) (header : List (List Char)) (p : KV) : St :=
  mk b false p.1.reverse p.2.reverse fields header

def PairOK (p : KV) : Prop := (∀ c ∈ p.1, Plain c) ∧ (∀ c ∈ p.2, Plain c)

theorem run_writeField (b : St) (fields header) (p : KV) (h : PairOK p) :
    run (startSt b fields header) (writeField p.1 p.2) = .ok (openSt b fields header p) := by
  unfold writeField startSt openSt
  rw [run_append, run_key b [] fields header p.1 [] h.1]
  simp only
  rw [run_cons, step_colon]
  simp only
  rw [run_val b _ fields header p.2 [] h.2]
  simp

theorem step_tab (b : St) (fields header) (p : KV) :
    step (openSt b fields header p) '\t' = .ok (startSt b (p :: fields) (addLabel header p.1)) := by
  simp [step, stepMain, openSt, startSt, mk, onTab, fieldErr, pushField]
  cases p.1.reverse <;> simp

/-! ## a record given as label/value pairs -/

def writeRestP : List KV → List Char
  | [] => []
  | p :: ps => '\t' :: (writeField p.1 p.2 ++ writeRestP ps)

def writePairs : List KV → List Char
  | [] => []
  | p :: ps => writeField p.1 p.2 ++ writeRestP ps

theorem writeRest_zip (ls vs : List (List Char)) (h : ls.length = vs.length) :
    writeRest ls vs = writeRestP (ls.zip vs) := by
  induction ls generalizing vs with
  | nil => cases vs <;> simp [writeRest, writeRestP]
  | cons l ls ih =>
    cases vs with
    | nil => simp at h
    | cons v vs =>
      simp only [writeRest, List.zip_cons_cons, writeRestP]
      rw [ih vs (by simpa using h)]

theorem writeRecord_zip (ls vs : List (List Char)) (h : ls.length = vs.length) :
    writeRecord ls vs = writePairs (ls.zip vs) := by
  cases ls with
  | nil => cases vs <;> simp [writeRecord, writePairs]
  | cons l ls =>
    cases vs with
    | nil => simp at h
    | cons v vs =>
      simp only [writeRecord, List.zip_cons_cons, writePairs]
      rw [writeRest_zip ls vs (by simpa using h)]

/-- state after `p :: ps`, the last field still open -/
def finalOpen (b : St) : List KV → List (List Char) → KV → List KV → St
  | fields, header, p, [] => openSt b fields header p
  | fields, header, p, q :: qs => finalOpen b (p :: fields) (addLabel header p.1) q qs

theorem run_writeRestP (b : St) (ps : List KV) (p : KV) (fields header)
    (h : ∀ q ∈ ps, PairOK q) :
    run (openSt b fields header p) (writeRestP ps) = .ok (finalOpen b fields header p ps) := by
  induction ps generalizing p fields header with
  | nil => simp [writeRestP, finalOpen, run_nil]
  | cons q qs ih =>
    simp only [writeRestP, finalOpen]
    rw [run_cons, step_tab]
    simp only
    rw [run_append, run_writeField b _ _ q (h q (by simp))]
    simp only
    exact ih q _ _ (fun x hx => h x (by simp [hx]))

theorem run_writePairs (b : St) (p : KV) (ps : List KV) (header) (h : ∀ q ∈ p :: ps, PairOK q) :
    run (startSt b [] header) (writePairs (p :: ps)) = .ok (finalOpen b [] header p ps) := by
  simp only [writePairs]
  rw [run_append, run_writeField b [] header p (h p (by simp))]
  simp only
  exact run_writeRestP b ps p [] header (fun x hx => h x (by simp [hx]))

/-- labels added in order -/
def addLabels (header : List (List Char)) : List KV → List (List Char)
  | [] => header
  | p :: ps => addLabels (addLabel header p.1) ps

/-- `base` after one more record -/
def nextBase (b : St) (pairs : List KV) : St := { b with recs := pairs.reverse :: b.recs }

theorem finalOpen_pcr (b : St) (fields header p ps) : (finalOpen b fields header p ps).pcr = false := by
  induction ps generalizing fields header p with
  | nil => rfl
  | cons q qs ih => exact ih _ _ _

theorem finalOpen_setDlb (b : St) (fields header p ps) (lb : LB) :
    setDlb (finalOpen b fields header p ps) lb = finalOpen (setDlb b lb) fields header p ps := by
  induction ps generalizing fields header p with
  | nil =>
    obtain ⟨rk, pcr, key, val, fs, hd, recs, dlb⟩ := b
    cases dlb <;> rfl
  | cons q qs ih => exact ih _ _ _

theorem endRecord_finalOpen (b : St) (fields header) (p : KV) (ps : List KV)
    (hne : fields ≠ [] ∨ ps ≠ []) :
    endRecord (finalOpen b fields header p ps)
      = .ok (startSt { b with recs := ((p :: ps).reverse ++ fields) :: b.recs } []
              (addLabels header (p :: ps))) := by
  induction ps generalizing fields header p with
  | nil =>
    have hf : fields ≠ [] := by
      rcases hne with h | h
      · exact h
      · exact absurd rfl h
    cases fields with
    | nil => exact absurd rfl hf
    | cons f fs =>
      simp [finalOpen, openSt, endRecord, fieldErr, mk, pushField, startSt, addLabels]
      cases p.1.reverse <;> simp
  | cons q qs ih =>
    simp only [finalOpen]
    rw [ih (p :: fields) (addLabel header p.1) q (Or.inl (by simp))]
    simp [addLabels]

theorem setDlb_recs (b : St) (lb : LB) : (setDlb b lb).recs = b.recs := by
  unfold setDlb; cases b.dlb <;> rfl

theorem setDlb_dlb (b : St) (lb : LB) :
    (setDlb b lb).dlb = match b.dlb with | some x => some x | none => some lb := by
  unfold setDlb
  cases h : b.dlb <;> simp [h]

theorem step_of_not_pcr (σ : St) (c : Char) (h : σ.pcr = false) : step σ c = stepMain σ c := by
  unfold step; simp [h]

theorem pcr_roundtrip (σ : St) (h : σ.pcr = false) : { { σ with pcr := true } with pcr := false } = σ := by
  obtain ⟨rk, pcr, key, val, fs, hd, recs, dlb⟩ := σ
  simp only at h
  subst h
  rfl

def RestOK (lb : LB) (rest : List Char) : Prop :=
  lb = .cr → ∃ c cs, rest = c :: cs ∧ c ≠ '\n'

/-- a record of at least two fields followed by a line break -/
theorem run_lb_after_record (b : St) (header) (p q : KV) (qs : List KV) (lb : LB) (rest : List Char)
    (hrest : RestOK lb rest) :
    run (finalOpen b [] header p (q :: qs)) (lb.chars ++ rest)
      = run (startSt { setDlb b lb with recs := (p :: q :: qs).reverse :: b.recs } []
              (addLabels header (p :: q :: qs))) rest := by
  have hp := finalOpen_pcr b [] header p (q :: qs)
  have hend : ∀ lb', onNl (finalOpen b [] header p (q :: qs)) lb'
      = .ok (startSt { setDlb b lb' with recs := (p :: q :: qs).reverse :: b.recs } []
              (addLabels header (p :: q :: qs))) := by
    intro lb'
    unfold onNl
    rw [finalOpen_setDlb, endRecord_finalOpen _ [] header p (q :: qs) (Or.inr (by simp))]
    simp [setDlb_recs]
  cases lb with
  | lf =>
    simp only [LB.chars, List.cons_append, List.nil_append]
    rw [run_cons, step_of_not_pcr _ _ hp]
    simp only [stepMain, Char.reduceEq, if_false, if_true]
    rw [hend]
  | crlf =>
    simp only [LB.chars, List.cons_append, List.nil_append]
    rw [run_cons, step_of_not_pcr _ _ hp]
    simp only [stepMain, if_true]
    rw [run_cons]
    unfold step
    simp only [if_true]
    rw [pcr_roundtrip _ hp, hend]
  | cr =>
    obtain ⟨c, cs, hr, hc⟩ := hrest rfl
    subst hr
    simp only [LB.chars, List.cons_append, List.nil_append]
    rw [run_cons, step_of_not_pcr _ _ hp]
    simp only [stepMain, if_true]
    rw [run_cons]
    unfold step
    simp only [if_true, hc, if_false]
    rw [pcr_roundtrip _ hp, hend]
    simp only
    rw [run_cons, step_of_not_pcr _ _ (by rfl)]

theorem finish_finalOpen (b : St) (header) (p q : KV) (qs : List KV) :
    finish (finalOpen b [] header p (q :: qs))
      = .ok (startSt { b with recs := (p :: q :: qs).reverse :: b.recs } []
              (addLabels header (p :: q :: qs))) := by
  unfold finish
  rw [finalOpen_pcr]
  simp only [Bool.false_eq_true, if_false]
  rw [endRecord_finalOpen _ [] header p (q :: qs) (Or.inr (by simp))]
  simp

theorem finish_startSt (b : St) (header) : finish (startSt b [] header) = .ok (startSt b [] header) := by
  simp [finish, startSt, mk, endRecord, fieldErr]

/-! ## labels -/

theorem addLabel_mem (h : List (List Char)) (k : List Char) (hk : k ∈ h) : addLabel h k = h := by
  unfold addLabel
  simp [hk]

theorem addLabel_not_mem (h : List (List Char)) (k : List Char) (hk : k ∉ h) : addLabel h k = k :: h := by
  unfold addLabel
  simp [hk]

theorem addLabels_known (h : List (List Char)) (ps : List KV) (hk : ∀ p ∈ ps, p.1 ∈ h) :
    addLabels h ps = h := by
  induction ps with
  | nil => rfl
  | cons p ps ih =>
    simp only [addLabels]
    rw [addLabel_mem h p.1 (hk p (by simp))]
    exact ih (fun q hq => hk q (by simp [hq]))

theorem addLabels_fresh (h : List (List Char)) (ps : List KV)
    (hnd : (ps.map (·.1)).Nodup) (hfresh : ∀ p ∈ ps, p.1 ∉ h) :
    addLabels h ps = (ps.map (·.1)).reverse ++ h := by
  induction ps generalizing h with
  | nil => rfl
  | cons p ps ih =>
    simp only [addLabels]
    rw [addLabel_not_mem h p.1 (hfresh p (by simp))]
    simp only [List.map_cons, List.nodup_cons] at hnd
    rw [ih (p.1 :: h) hnd.2]
    · simp
    · intro q hq hmem
      rcases List.mem_cons.mp hmem with he | hm
      · exact hnd.1 (he ▸ List.mem_map_of_mem hq)
      · exact hfresh q (by simp [hq]) hm

/-! ## lookup -/

theorem find_reverse_nodup (ps : List KV) (k : List Char) (hnd : (ps.map (·.1)).Nodup) :
    ps.reverse.find? (fun kv => kv.1 = k) = ps.find? (fun kv => kv.1 = k) := by
  induction ps with
  | nil => rfl
  | cons p ps ih =>
    simp only [List.map_cons, List.nodup_cons] at hnd
    simp only [List.reverse_cons, List.find?_append, List.find?_cons, List.find?_nil]
    by_cases hp : p.1 = k
    · have hnone : ps.reverse.find? (fun kv => kv.1 = k) = none := by
        rw [ih hnd.2]
        apply List.find?_eq_none.mpr
        intro x hx hxk
        have : x.1 = k := by simpa using hxk
        exact hnd.1 (hp ▸ this ▸ List.mem_map_of_mem hx)
      simp [hnone, hp]
    · simp [hp, ih hnd.2]

def canonText (wn : Bool) (s : List Char) : DCell :=
  match s with
  | [] => nullCell wn
  | s => some s

theorem lookup_zip (wn : Bool) (ls vs : List (List Char)) (hlen : ls.length = vs.length) (hnd : ls.Nodup)
    (all : List KV) (hall : ∀ k ∈ ls, all.find? (fun kv => kv.1 = k) = (ls.zip vs).find? (fun kv => kv.1 = k)) :
    ls.map (lookup wn all) = vs.map (canonText wn) := by
  induction ls generalizing vs all with
  | nil => cases vs <;> simp at hlen ⊢
  | cons l ls ih =>
    cases vs with
    | nil => simp at hlen
    | cons v vs =>
      simp only [List.nodup_cons] at hnd
      simp only [List.map_cons, List.cons.injEq]
      constructor
      · unfold lookup
        rw [hall l (by simp)]
        simp only [List.zip_cons_cons, List.find?_cons, decide_true]
        cases v <;> rfl
      · apply ih vs (by simpa using hlen) hnd.2
        intro k hk
        rw [hall k (by simp [hk])]
        simp only [List.zip_cons_cons, List.find?_cons]
        have : ¬ (l = k) := fun e => hnd.1 (e ▸ hk)
        simp [this]

theorem map_fst_zip (ls vs : List (List Char)) (h : ls.length = vs.length) : (ls.zip vs).map (·.1) = ls := by
  induction ls generalizing vs with
  | nil => simp
  | cons l ls ih =>
    cases vs with
    | nil => simp at h
    | cons v vs => simp [ih vs (by simpa using h)]

theorem lookup_record (wn : Bool) (ls vs : List (List Char)) (hlen : ls.length = vs.length) (hnd : ls.Nodup) :
    ls.map (lookup wn (ls.zip vs).reverse) = vs.map (canonText wn) := by
  apply lookup_zip wn ls vs hlen hnd
  intro k _
  exact find_reverse_nodup _ k (by rw [map_fst_zip ls vs hlen]; exact hnd)

/-! ## all records -/

def LabelsOK (labels : List (List Char)) : Prop :=
  2 ≤ labels.length ∧ labels.Nodup ∧ ∀ l ∈ labels, ∀ c ∈ l, Plain c

def RecsOK (labels : List (List Char)) (recs : List (List (List Char))) : Prop :=
  ∀ vs ∈ recs, vs.length = labels.length ∧ ∀ v ∈ vs, ∀ c ∈ v, Plain c

theorem pairs_shape (labels vs : List (List Char)) (hl : 2 ≤ labels.length) (hv : vs.length = labels.length) :
    ∃ p q qs, labels.zip vs = p :: q :: qs := by
  match labels, vs, hl, hv with
  | l1 :: l2 :: ls, v1 :: v2 :: vs', _, _ => exact ⟨_, _, _, rfl⟩
  | [], _, hl, _ => simp at hl
  | [_], _, hl, _ => simp at hl
  | _ :: _ :: _, [], _, hv => simp at hv
  | _ :: _ :: _, [_], _, hv => simp at hv

theorem pairsOK (labels vs : List (List Char)) (hl : ∀ l ∈ labels, ∀ c ∈ l, Plain c)
    (hv : ∀ v ∈ vs, ∀ c ∈ v, Plain c) : ∀ p ∈ labels.zip vs, PairOK p := by
  intro p hp
  have := List.of_mem_zip hp
  exact ⟨hl p.1 this.1, hv p.2 this.2⟩

theorem writePairs_head (p : KV) (ps : List KV) (hp : PairOK p) (tail : List Char) :
    ∃ c cs, writePairs (p :: ps) ++ tail = c :: cs ∧ c ≠ '\n' := by
  simp only [writePairs, writeField]
  cases h : p.1 with
  | nil => exact ⟨':', p.2 ++ (writeRestP ps ++ tail), by simp, by decide⟩
  | cons x xs =>
    refine ⟨x, xs ++ ':' :: (p.2 ++ (writeRestP ps ++ tail)), by simp, ?_⟩
    exact (hp.1 x (by simp [h])).2.1

theorem addLabels_record (labels vs : List (List Char)) (header : List (List Char))
    (hlen : vs.length = labels.length) (hnd : labels.Nodup)
    (hh : header = [] ∨ header = labels.reverse) :
    addLabels header (labels.zip vs) = labels.reverse := by
  rcases hh with rfl | rfl
  · rw [addLabels_fresh [] _ (by rw [map_fst_zip labels vs hlen.symm]; exact hnd) (by simp),
      map_fst_zip labels vs hlen.symm]
    simp
  · apply addLabels_known
    intro p hp
    have := (List.of_mem_zip hp).1
    simpa using this

theorem run_rows (lb : LB) (labels : List (List Char)) (hlab : LabelsOK labels)
    (e : Option LB) (he : e ≠ some .cr) (more : List (List (List Char))) :
    ∀ (vs : List (List Char)) (b : St) (header : List (List Char)),
    RecsOK labels (vs :: more) → (header = [] ∨ header = labels.reverse) →
    ∃ σ, (match run (startSt b [] header)
            (writeRecord labels vs ++ (writeMore lb labels more ++ endingChars e)) with
          | .ok σ' => finish σ'
          | .error err => .error err) = .ok σ
       ∧ σ.recs = ((vs :: more).map (fun v => (labels.zip v).reverse)).reverse ++ b.recs
       ∧ σ.header = labels.reverse := by
  obtain ⟨h2, hnd, hlp⟩ := hlab
  induction more with
  | nil =>
    intro vs b header hok hh
    obtain ⟨hlen, hvp⟩ := hok vs (by simp)
    obtain ⟨p, q, qs, hz⟩ := pairs_shape labels vs h2 hlen
    have hpo : ∀ x ∈ p :: q :: qs, PairOK x := hz ▸ pairsOK labels vs hlp hvp
    have hadd := addLabels_record labels vs header hlen hnd hh
    rw [hz] at hadd
    simp only [writeMore, List.nil_append]
    rw [writeRecord_zip labels vs hlen.symm, hz]
    cases e with
    | none =>
      simp only [endingChars, List.append_nil]
      rw [run_writePairs b p (q :: qs) header hpo]
      simp only
      rw [finish_finalOpen, hadd]
      exact ⟨_, rfl, by simp [startSt, mk, hz], by simp [startSt, mk]⟩
    | some lbE =>
      have hrest : RestOK lbE [] := fun h => absurd (by rw [h]) he
      simp only [endingChars]
      rw [run_append, run_writePairs b p (q :: qs) header hpo]
      simp only
      have := run_lb_after_record b header p q qs lbE [] hrest
      rw [List.append_nil] at this
      rw [this, run_nil, hadd]
      simp only
      rw [finish_startSt]
      exact ⟨_, rfl, by simp [startSt, mk, hz], by simp [startSt, mk]⟩
  | cons vs2 more' ih =>
    intro vs b header hok hh
    obtain ⟨hlen, hvp⟩ := hok vs (by simp)
    obtain ⟨hlen2, hvp2⟩ := hok vs2 (by simp)
    obtain ⟨p, q, qs, hz⟩ := pairs_shape labels vs h2 hlen
    obtain ⟨p2, q2, qs2, hz2⟩ := pairs_shape labels vs2 h2 hlen2
    have hpo : ∀ x ∈ p :: q :: qs, PairOK x := hz ▸ pairsOK labels vs hlp hvp
    have hpo2 : ∀ x ∈ p2 :: q2 :: qs2, PairOK x := hz2 ▸ pairsOK labels vs2 hlp hvp2
    have hadd := addLabels_record labels vs header hlen hnd hh
    rw [hz] at hadd
    have hrest : RestOK lb (writeRecord labels vs2 ++ (writeMore lb labels more' ++ endingChars e)) := by
      intro _
      rw [writeRecord_zip labels vs2 hlen2.symm, hz2]
      exact writePairs_head p2 (q2 :: qs2) (hpo2 p2 (by simp)) _
    have hassoc : writeRecord labels vs ++ (writeMore lb labels (vs2 :: more') ++ endingChars e)
        = writePairs (p :: q :: qs) ++ (lb.chars ++
            (writeRecord labels vs2 ++ (writeMore lb labels more' ++ endingChars e))) := by
      rw [writeRecord_zip labels vs hlen.symm, hz]
      simp only [writeMore, List.append_assoc]
    rw [hassoc, run_append, run_writePairs b p (q :: qs) header hpo]
    simp only
    rw [run_lb_after_record b header p q qs lb _ hrest, hadd]
    obtain ⟨σ, h1, h2', h3⟩ := ih vs2 { setDlb b lb with recs := (p :: q :: qs).reverse :: b.recs }
      labels.reverse (fun x hx => hok x (by simp [hx])) (Or.inr rfl)
    refine ⟨σ, h1, ?_, h3⟩
    rw [h2']
    simp [hz]

theorem plain_of_labelChar (c : Char) (h : labelChar c = true) : Plain c := by
  refine ⟨?_, ?_, ?_, ?_⟩ <;> (intro e; rw [e] at h; exact absurd h (by decide))

theorem plain_of_valueChar (c : Char) (h : valueChar c = true) (hc : c ≠ ':') : Plain c := by
  refine ⟨?_, ?_, ?_, hc⟩ <;> (intro e; rw [e] at h; exact absurd h (by decide))

end Csvq.Ltsv
