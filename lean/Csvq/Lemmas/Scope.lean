/-
  Helper lemmas for C15 (block scoping): the association-list maps, the walks over the block stack,
  and three invariants of the reference semantics proved by induction on the fuel over all eight
  mutually recursive functions:
    * `lenInv`   — the block stack has the same depth after as before (every outcome, errors included);
    * `insInv`   — an empty block anywhere in the stack is transparent;
    * `leInv`    — no block below the current one ever gains a name.
-/
import Csvq.Model.Scope
namespace Csvq.Scope
open Csvq

/-! ## association lists -/

theorem aget_aset_same {α} (x : Nat) (v : α) : ∀ (l : List (Nat × α)), aget x l ≠ none → aget x (aset x v l) = some v
  | [], h => by simp [aget] at h
  | (y, w) :: rest, h => by
    by_cases hy : y = x
    · simp [aset, aget, hy]
    · simp [aget, hy] at h
      simp [aset, aget, hy, aget_aset_same x v rest h]

theorem aget_aset_isSome {α} (x y : Nat) (v : α) : ∀ (l : List (Nat × α)), (aget y (aset x v l)).isSome = (aget y l).isSome
  | [] => by simp [aset]
  | (z, w) :: rest => by
    simp only [aset]
    split
    · simp only [aget]; split <;> simp
    · simp only [aget]; split
      · simp
      · exact aget_aset_isSome x y v rest

theorem aget_adel_some {α} (x y : Nat) : ∀ (l : List (Nat × α)), (aget y (adel x l)).isSome → (aget y l).isSome
  | [] => by simp [adel]
  | (z, w) :: rest => by
    simp only [adel]
    split
    · simp only [aget]; split
      · simp
      · exact id
    · simp only [aget]; split
      · simp
      · exact aget_adel_some x y rest

/-! ## the walks keep the depth of the stack -/

theorem setVar_length {x v} : ∀ {bs bs'}, setVar x v bs = some bs' → bs'.length = bs.length := by
  intro bs
  induction bs with
  | nil => intro bs' h; simp [setVar] at h
  | cons b rest ih =>
    intro bs' h
    simp only [setVar] at h
    split at h
    · cases h; simp
    · split at h
      · rename_i r hr
        cases h
        simp [ih hr]
      · cases h

theorem disposeVar_length {x} : ∀ {bs bs'}, disposeVar x bs = some bs' → bs'.length = bs.length := by
  intro bs
  induction bs with
  | nil => intro bs' h; simp [disposeVar] at h
  | cons b rest ih =>
    intro bs' h
    simp only [disposeVar] at h
    split at h
    · cases h; simp
    · split at h
      · rename_i r hr
        cases h
        simp [ih hr]
      · cases h

theorem disposeFn_length {x} : ∀ {bs bs'}, disposeFn x bs = some bs' → bs'.length = bs.length := by
  intro bs
  induction bs with
  | nil => intro bs' h; simp [disposeFn] at h
  | cons b rest ih =>
    intro bs' h
    simp only [disposeFn] at h
    split at h
    · cases h; simp
    · split at h
      · rename_i r hr
        cases h
        simp [ih hr]
      · cases h

theorem declareVar_length {x v} : ∀ {bs bs'}, declareVar x v bs = some bs' → bs'.length = bs.length := by
  intro bs bs' h
  cases bs with
  | nil => simp [declareVar] at h
  | cons b rest =>
    simp only [declareVar] at h
    split at h
    · cases h
    · cases h; simp

theorem declareFn_length {f d} : ∀ {bs bs'}, declareFn f d bs = .ok bs' → bs'.length = bs.length := by
  intro bs bs' h
  cases bs with
  | nil => simp [declareFn] at h
  | cons b rest =>
    simp only [declareFn] at h
    split at h
    · cases h
    · split at h
      · cases h
      · cases h; simp

/-! ## `lenInv`: the stack is balanced -/

structure LenInv (fuel : Nat) : Prop where
  eval : ∀ e st, (evalS fuel e st).2.blocks.length = st.blocks.length
  args : ∀ es st, (evalArgsS fuel es st).2.blocks.length = st.blocks.length
  call : ∀ d as st, (callS fuel d as st).2.blocks.length = st.blocks.length
  bind : ∀ ps as st, (bindParamsS fuel ps as st).2.blocks.length = st.blocks.length
  stmt : ∀ s st, (stmtS fuel s st).2.blocks.length = st.blocks.length
  block : ∀ ss st, (blockS fuel ss st).2.blocks.length = st.blocks.length
  ifs : ∀ br els st, (ifS fuel br els st).2.blocks.length = st.blocks.length
  whl : ∀ c body st, (whileS fuel c body st).2.blocks.length = st.blocks.length

theorem inBlock_length {α} (f : St → α × St) (st : St)
    (h : (f st.push).2.blocks.length = st.push.blocks.length) :
    (inBlock f st).2.blocks.length = st.blocks.length := by
  unfold inBlock
  simp only [St.pop, List.length_tail]
  rw [h]
  simp [St.push]

theorem lenInv : ∀ fuel, LenInv fuel
  | 0 => by constructor <;> intros <;> simp [evalS, evalArgsS, callS, bindParamsS, stmtS, blockS, ifS, whileS]
  | fuel + 1 => by
    have ih := lenInv fuel
    constructor
    · -- eval
      intro e st
      cases e with
      | lit v => simp [evalS]
      | var x => simp only [evalS]; split <;> rfl
      | bin op a b =>
        simp only [evalS]
        have h1 := ih.eval a st
        split
        · grind
        · split
          · grind
          · have := ih.eval b
            split <;> grind
      | call f args =>
        simp only [evalS]
        have := ih.args args st
        have := ih.call
        grind
    · -- args
      intro es st
      cases es with
      | nil => simp [evalArgsS]
      | cons e es =>
        simp only [evalArgsS]
        have := ih.eval e st
        have := ih.args es
        split
        · grind
        · split <;> grind
    · -- call
      intro d as st
      simp only [callS]
      apply inBlock_length
      split
      · have := ih.bind d.params as st.push
        have := ih.block d.body
        split
        · grind
        · split <;> grind
      · rfl
    · -- bind
      intro ps as st
      cases ps with
      | nil => simp [bindParamsS]
      | cons p ps =>
        cases as with
        | cons a as =>
          simp only [bindParamsS]
          split
          · rfl
          · rename_i bs hbs
            have := declareVar_length hbs
            have := ih.bind ps as { st with blocks := bs }
            grind
        | nil =>
          obtain ⟨pn, pd⟩ := p
          cases pd with
          | none =>
            simp only [bindParamsS]
            split
            · rfl
            · rename_i bs hbs
              have := declareVar_length hbs
              have := ih.bind ps [] { st with blocks := bs }
              grind
          | some e =>
            simp only [bindParamsS]
            have := ih.eval e st
            split
            · grind
            · split
              · grind
              · rename_i bs hbs
                have := declareVar_length hbs
                have := ih.bind ps []
                grind
    · -- stmt
      intro s st
      cases s with
      | decl x e =>
        simp only [stmtS]
        have := ih.eval e st
        split
        · grind
        · split
          · grind
          · rename_i bs hbs
            have := declareVar_length hbs
            grind
      | assign x e =>
        simp only [stmtS]
        have := ih.eval e st
        split
        · grind
        · split
          · grind
          · rename_i bs hbs
            have := setVar_length hbs
            grind
      | dispose x =>
        simp only [stmtS]
        split
        · rfl
        · rename_i bs hbs
          simp [disposeVar_length hbs]
      | print e =>
        simp only [stmtS]
        have := ih.eval e st
        split <;> grind
      | ifs br els => simp only [stmtS]; exact ih.ifs br els st
      | «while» c body => simp only [stmtS]; exact ih.whl c body st
      | brk => simp [stmtS]
      | cont => simp [stmtS]
      | exit => simp [stmtS]
      | ret e =>
        simp only [stmtS]
        have := ih.eval e st
        split <;> grind
      | declFn f ps body =>
        simp only [stmtS]
        split
        · rfl
        · rename_i bs hbs
          simp [declareFn_length hbs]
      | disposeFn f =>
        simp only [stmtS]
        split
        · rfl
        · rename_i bs hbs
          simp [disposeFn_length hbs]
    · -- block
      intro ss st
      cases ss with
      | nil => simp [blockS]
      | cons s rest =>
        simp only [blockS]
        have := ih.stmt s st
        have := ih.block rest
        split <;> grind
    · -- ifs
      intro br els st
      cases br with
      | nil =>
        simp only [ifS]
        split
        · rfl
        · exact inBlock_length _ _ (ih.block _ _)
      | cons cb more =>
        obtain ⟨c, body⟩ := cb
        simp only [ifS]
        have := ih.eval c st
        split
        · grind
        · rename_i v st1 hv
          split
          · have := inBlock_length (blockS fuel body) st1 (ih.block _ _)
            grind
          · have := ih.ifs more els st1
            grind
    · -- while
      intro c body st
      simp only [whileS]
      have := ih.eval c st
      split
      · grind
      · rename_i v st1 hv
        split
        · have h2 := inBlock_length (blockS fuel body) st1 (ih.block _ _)
          have := ih.whl c body
          split <;> grind
        · grind

/-! ## `insInv`: an empty block is transparent -/

/-- the stack with an empty block inserted below the first `n` blocks -/
def ins (n : Nat) (bs : List Block) : List Block := bs.take n ++ Block.empty :: bs.drop n
def St.ins (s : St) (n : Nat) : St := { s with blocks := Scope.ins n s.blocks }

@[simp] theorem ins_zero (bs : List Block) : ins 0 bs = Block.empty :: bs := by simp [ins]
@[simp] theorem ins_succ_cons (n : Nat) (b : Block) (bs : List Block) : ins (n + 1) (b :: bs) = b :: ins n bs := by
  simp [ins]
@[simp] theorem ins_nil (n : Nat) : ins n [] = [Block.empty] := by simp [ins]
@[simp] theorem aget_empty_vars (x : Nat) : aget x Block.empty.vars = none := rfl
@[simp] theorem aget_empty_funs (x : Nat) : aget x Block.empty.funs = none := rfl

theorem ins_ne_nil (n : Nat) (bs : List Block) : ins n bs ≠ [] := by simp [ins]

theorem ins_tail (n : Nat) : ∀ bs : List Block, bs ≠ [] → (ins (n + 1) bs).tail = ins n bs.tail
  | [], h => absurd rfl h
  | b :: bs, _ => by simp

theorem getVar_ins (x : Nat) : ∀ n bs, getVar x (ins n bs) = getVar x bs
  | 0, bs => by simp [getVar]
  | n + 1, [] => by simp [getVar]
  | n + 1, b :: bs => by simp [getVar, getVar_ins x n bs]

theorem getFn_ins (x : Nat) : ∀ n bs, getFn x (ins n bs) = getFn x bs
  | 0, bs => by simp [getFn]
  | n + 1, [] => by simp [getFn]
  | n + 1, b :: bs => by simp [getFn, getFn_ins x n bs]

theorem setVar_ins (x : Nat) (v : SVal) : ∀ n bs, setVar x v (ins n bs) = (setVar x v bs).map (ins n)
  | 0, bs => by cases h : setVar x v bs <;> simp [setVar, h]
  | n + 1, [] => by simp [setVar]
  | n + 1, b :: bs => by
    simp only [ins_succ_cons, setVar, setVar_ins x v n bs]
    cases aget x b.vars <;> simp
    cases setVar x v bs <;> simp

theorem disposeVar_ins (x : Nat) : ∀ n bs, disposeVar x (ins n bs) = (disposeVar x bs).map (ins n)
  | 0, bs => by cases h : disposeVar x bs <;> simp [disposeVar, h]
  | n + 1, [] => by simp [disposeVar]
  | n + 1, b :: bs => by
    simp only [ins_succ_cons, disposeVar, disposeVar_ins x n bs]
    cases aget x b.vars <;> simp
    cases disposeVar x bs <;> simp

theorem disposeFn_ins (x : Nat) : ∀ n bs, disposeFn x (ins n bs) = (disposeFn x bs).map (ins n)
  | 0, bs => by cases h : disposeFn x bs <;> simp [disposeFn, h]
  | n + 1, [] => by simp [disposeFn]
  | n + 1, b :: bs => by
    simp only [ins_succ_cons, disposeFn, disposeFn_ins x n bs]
    cases aget x b.funs <;> simp
    cases disposeFn x bs <;> simp

theorem declareVar_ins (x : Nat) (v : SVal) (n : Nat) : ∀ bs, bs ≠ [] →
    declareVar x v (ins (n + 1) bs) = (declareVar x v bs).map (ins (n + 1))
  | [], h => absurd rfl h
  | b :: bs, _ => by
    simp only [ins_succ_cons, declareVar]
    cases aget x b.vars <;> simp

theorem declareFn_ins (f : Nat) (d : FDecl) (n : Nat) : ∀ bs, bs ≠ [] →
    declareFn f d (ins (n + 1) bs) = (declareFn f d bs).map (ins (n + 1))
  | [], h => absurd rfl h
  | b :: bs, _ => by
    simp only [ins_succ_cons, declareFn]
    cases aget f b.funs <;> simp [Except.map]
    split <;> rfl

@[simp] theorem St.ins_blocks (s : St) (n : Nat) : (s.ins n).blocks = Scope.ins n s.blocks := rfl
@[simp] theorem St.ins_out (s : St) (n : Nat) : (s.ins n).out = s.out := rfl

theorem St.push_ins (s : St) (n : Nat) : (s.ins n).push = s.push.ins (n + 1) := by
  simp [St.push, St.ins]

theorem St.ins_pop (s : St) (n : Nat) (h : s.blocks ≠ []) : (s.ins (n + 1)).pop = s.pop.ins n := by
  simp [St.pop, St.ins, ins_tail n s.blocks h]

structure InsInv (fuel : Nat) : Prop where
  eval : ∀ n e st, evalS fuel e (st.ins n) = ((evalS fuel e st).1, (evalS fuel e st).2.ins n)
  args : ∀ n es st, evalArgsS fuel es (st.ins n) = ((evalArgsS fuel es st).1, (evalArgsS fuel es st).2.ins n)
  call : ∀ n d as st, callS fuel d as (st.ins n) = ((callS fuel d as st).1, (callS fuel d as st).2.ins n)
  bind : ∀ n ps as st, st.blocks ≠ [] →
    bindParamsS fuel ps as (st.ins (n + 1)) = ((bindParamsS fuel ps as st).1, (bindParamsS fuel ps as st).2.ins (n + 1))
  stmt : ∀ n s st, st.blocks ≠ [] →
    stmtS fuel s (st.ins (n + 1)) = ((stmtS fuel s st).1, (stmtS fuel s st).2.ins (n + 1))
  block : ∀ n ss st, st.blocks ≠ [] →
    blockS fuel ss (st.ins (n + 1)) = ((blockS fuel ss st).1, (blockS fuel ss st).2.ins (n + 1))
  ifs : ∀ n br els st, st.blocks ≠ [] →
    ifS fuel br els (st.ins (n + 1)) = ((ifS fuel br els st).1, (ifS fuel br els st).2.ins (n + 1))
  whl : ∀ n c body st, st.blocks ≠ [] →
    whileS fuel c body (st.ins (n + 1)) = ((whileS fuel c body st).1, (whileS fuel c body st).2.ins (n + 1))

theorem ne_nil_of_length_eq {α} {l l' : List α} (h : l'.length = l.length) (hl : l ≠ []) : l' ≠ [] := by
  cases l' with
  | nil => cases l with
    | nil => exact absurd rfl hl
    | cons _ _ => simp at h
  | cons _ _ => simp

/-- entering and leaving a block commutes with the insertion (one level deeper inside) -/
theorem inBlock_ins {α} (f : St → α × St) (st : St) (n : Nat)
    (hlen : (f st.push).2.blocks.length = st.push.blocks.length)
    (h : f (st.push.ins (n + 1)) = ((f st.push).1, (f st.push).2.ins (n + 1))) :
    inBlock f (st.ins n) = ((inBlock f st).1, (inBlock f st).2.ins n) := by
  unfold inBlock
  rw [St.push_ins, h]
  have hne : (f st.push).2.blocks ≠ [] := ne_nil_of_length_eq hlen (by simp [St.push])
  simp [St.ins_pop _ n hne]

end Csvq.Scope
